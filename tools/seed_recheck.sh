#!/bin/bash
# usage: tools/seed_recheck.sh <SEEDID> [tier]
# Re-runs the property's check against an already filed seeded change (/verif/seeded/<ID>/patch.diff) in a scratch
# worktree of /repo HEAD and updates check_result in its meta.json. Does not repeat the demo/suite confirmation.
set -u
ID=$1; TIER=${2:-quick}; PID=${ID:0:3}
DEST=/verif/seeded/$ID; WT=/tmp/sr-$ID
export GOFLAGS=-mod=mod GOPROXY=off GOSUMDB=off GOTOOLCHAIN=local
[ -f $DEST/patch.diff ] || { echo "$ID: no patch"; exit 3; }
git -C /repo worktree add -q --detach $WT HEAD || exit 3
trap 'git -C /repo worktree remove --force $WT >/dev/null 2>&1' EXIT
git -C $WT apply $DEST/patch.diff || { echo "$ID: patch does not apply"; exit 3; }
cd /verif
start=$(date +%s)
VERIF_REPO=$WT ./check $PID $TIER > /tmp/sr-$ID.check 2>&1; RC=$?
SECS=$(( $(date +%s) - start ))
echo "$ID recheck $PID $TIER exit=$RC seconds=$SECS"
python3 - "$ID" "$PID" "$RC" "$SECS" "$TIER" "$(git -C /repo rev-parse --short HEAD)" <<'PY'
import json,sys
ID,PID,RC,SECS,TIER,HEAD=sys.argv[1:]
p='/verif/seeded/%s/meta.json'%ID
meta=json.load(open(p))
viol=[l.strip()[:300] for l in open('/tmp/sr-%s.check'%ID, errors='replace') if 'VIOLATION' in l or l.startswith('  test=')][:4]
meta['check_result']={"command":"VERIF_REPO=<worktree of %s with patch> ./check %s %s"%(HEAD,PID,TIER),"exit":int(RC),"seconds":int(SECS),"detected":RC=='1',"first_lines":viol,"rechecked_at":HEAD}
json.dump(meta,open(p,'w'),indent=1)
PY
rm -f /tmp/sr-$ID.check
