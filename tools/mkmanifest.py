#!/usr/bin/env python3
"""Regenerates /verif/MANIFEST.json from tools/claims.json (one entry per claimed property)."""
import json, os
V = os.path.dirname(os.path.dirname(os.path.abspath(__file__)))
claims = json.load(open(os.path.join(V, "tools", "claims.json")))
ids = ["C%02d" % i for i in range(1, 21)]
checks, na = [], []
for pid in ids:
    c = claims.get(pid)
    if not c or not c.get("ready") or not os.path.isdir(os.path.join(V, "harness", "props", pid.lower())):
        na.append({"property_id": pid, "reason": (c or {}).get("na_reason", "check not built yet in this round; the design in DESIGN.md section 4 applies, nothing about the property puts it out of reach of generated search")})
        continue
    checks.append({
        "property_id": pid,
        "quick_cmd": "./check %s quick" % pid,
        "thorough_cmd": "./check %s thorough" % pid,
        "evidence_file": "/verif/evidence/%s.json" % pid,
        "replay_cmd_template": "./check %s --replay {path}" % pid,
        "engine": "harness",
        "level_claimed": {"category": "exploration", "text": c["level_text"], "design_ref": "DESIGN.md section 4, " + pid},
        "level_note": c["level_note"],
        "technique": c["technique"],
    })
doc = {
    "version": 1,
    "setup_cmd": "./check --setup",
    "hooks": {
        "guard": "verif",
        "enable": "go test -tags verif (the harness builds /repo's working tree through a replace directive; no hook code exists in /repo, the tag is passed for uniformity)",
        "baseline_off_cmd": "cd /repo && GOFLAGS=-mod=mod GOPROXY=off GOSUMDB=off GOTOOLCHAIN=local go test -vet=off -count=1 ./...",
        "source_commits": [],
        "add_only": True,
    },
    "engines": [{
        "name": "harness",
        "path": "/verif/harness",
        "serves_properties": [c["property_id"] for c in checks],
        "kind_free_text": "Go module: pgregory.net/rapid v1.3.0 property-based tests, exhaustive small-scope enumerations and native go fuzz targets, one package per property, built against /repo's working tree; driven by /verif/check (python3, stdlib) which shards by seed, merges counters into evidence and maps failures to VIOLATION lines",
    }],
    "checks": checks,
    "notes": "Fix commits in /repo and known findings are listed in /verif/known_findings.json; DESIGN.md explains each oracle.",
    "not_applicable": na,
}
json.dump(doc, open(os.path.join(V, "MANIFEST.json"), "w"), indent=1)
print("claimed", len(checks), "not claimed", len(na))
