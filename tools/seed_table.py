#!/usr/bin/env python3
"""Rewrites the seeded-change table of SENSITIVITY.md (between the SEED-TABLE markers) from /verif/seeded/*/meta.json."""
import json, glob, os, re
V = os.path.dirname(os.path.dirname(os.path.abspath(__file__)))
rows = []
for d in sorted(glob.glob(os.path.join(V, "seeded", "*"))):
    try:
        m = json.load(open(os.path.join(d, "meta.json")))
    except Exception:
        continue
    sid = os.path.basename(d)
    conf = m.get("confirmed", {})
    cr = m.get("check_result", {})
    ok = conf.get("demo_passes_without_change") and conf.get("demo_fails_with_change") and conf.get("existing_suite_passes_with_change")
    def cell(x):
        x = " ".join(str(x).split()).replace("|", "\\|")
        return x if len(x) <= 230 else x[:227] + "…"
    first = ""
    fl = cr.get("first_lines") or []
    for l in fl:
        if l.startswith("test="):
            first = l
            break
    rows.append("| %s | %s | %s | %s | %s | %s |" % (
        sid, cell(m.get("title", "")), cell(m.get("needs", "")), "yes" if ok else "NO",
        ("**detected** (%ss)" % cr.get("seconds")) if cr.get("detected") else ("not detected - outside the checked domain, see meta.json" if m.get("coordinator_note") else "**MISSED** (exit %s)" % cr.get("exit")),
        cell(first)))
table = "| id | change | needs, to manifest | confirmed (suite green, demo fails with / passes without) | `./check <Cxx> quick` | first report |\n|---|---|---|---|---|---|\n" + "\n".join(rows)
p = os.path.join(V, "SENSITIVITY.md")
s = open(p).read()
s = re.sub(r"<!-- SEED-TABLE-BEGIN -->.*<!-- SEED-TABLE-END -->", "<!-- SEED-TABLE-BEGIN -->\n" + table + "\n<!-- SEED-TABLE-END -->", s, flags=re.S)
open(p, "w").write(s)
print(len(rows), "seeded changes;", sum(1 for r in rows if "**detected**" in r), "detected")
