#!/usr/bin/env python3
"""Generate one seed prompt per property for a round: tools/mkseedprompts.py <round-letter> <style-file>
Writes /verif/tools/seedprompts/CNN<r>.md and /tmp/seedprompts/CNN<r>.md. The style file holds the text that
replaces {HINT}'s style part; the list of ideas already tried is collected from /verif/seeded/*/meta.json."""
import json, sys, os, glob
r, stylefile = sys.argv[1], sys.argv[2]
style = open(stylefile).read().strip()
tmpl = open('/verif/tools/seed_prompt.md').read()
props = [json.loads(l) for l in open('/verif/properties.jsonl')]
os.makedirs('/tmp/seedprompts', exist_ok=True)
for p in props:
    pid = p['id']
    tried = []
    for m in sorted(glob.glob('/verif/seeded/%s?/meta.json' % pid)):
        try:
            t = json.load(open(m)).get('title')
        except Exception:
            t = None
        if t:
            tried.append(str(t)[:110])
    hint = ' Style to use: ' + style
    if tried:
        hint += ' These ideas were ALREADY tried by others for this property - do something DIFFERENT: ' + '; '.join(tried) + '.'
    text = (tmpl.replace('{ID}', pid + r).replace('{PID}', pid)
            .replace('{STATEMENT}', p['statement']).replace('{QUANT}', p['quantifier']['text'])
            .replace('{FILES}', ', '.join(p['anchors']['files'])).replace('{HINT}', hint))
    for d in ('/verif/tools/seedprompts', '/tmp/seedprompts'):
        open('%s/%s%s.md' % (d, pid, r), 'w').write(text)
print('wrote', len(props), 'prompts for round', r)
