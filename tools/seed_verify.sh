#!/bin/bash
# usage: tools/seed_verify.sh <SEEDID> [tier]   (deliverables expected in /tmp/seed-<SEEDID>-out)
# Confirms a seeded change independently (existing suite green with it, demo fails with / passes without),
# runs the property's check against it in a scratch worktree, and files everything under /verif/seeded/<SEEDID>/.
set -u
ID=$1; TIER=${2:-quick}; PID=${ID:0:3}
OUT=/tmp/seed-$ID-out; WT=/tmp/sv-$ID; DEST=/verif/seeded/$ID
export GOFLAGS=-mod=mod GOPROXY=off GOSUMDB=off GOTOOLCHAIN=local
[ -f $OUT/patch.diff ] && [ -f $OUT/demo_test.go ] || { echo "$ID: deliverables missing"; exit 3; }
BASE=$(git -C /repo rev-parse --short HEAD)
git -C /repo worktree add -q --detach $WT HEAD || exit 3
trap 'git -C /repo worktree remove --force $WT >/dev/null 2>&1' EXIT
PKG=$(grep -m1 -o 'place in: *[^ ]*' $OUT/demo_test.go | sed 's/place in: *//; s#/*$##')
[ -z "$PKG" ] && PKG=.
[ "$PKG" = "(root)" -o "$PKG" = "repo" -o "$PKG" = "root" ] && PKG=.
cp $OUT/demo_test.go $WT/$PKG/zz_seed_demo_test.go
cd $WT
res() { echo "$1" | tee -a $OUT/verify.log; }
: > $OUT/verify.log
go test -count=1 ./$PKG/ >/tmp/sv-$ID.t0 2>&1; DEMO_WITHOUT=$?
git apply $OUT/patch.diff || { res "$ID: patch does not apply at $BASE"; exit 3; }
go test -count=1 ./$PKG/ >/tmp/sv-$ID.t1 2>&1; DEMO_WITH=$?
rm $WT/$PKG/zz_seed_demo_test.go
go build ./... >/tmp/sv-$ID.b 2>&1 && go test -count=1 ./... >/tmp/sv-$ID.t2 2>&1; SUITE=$?
res "$ID base=$BASE demo_without_change_exit=$DEMO_WITHOUT demo_with_change_exit=$DEMO_WITH existing_suite_with_change_exit=$SUITE"
cd /verif
start=$(date +%s)
VERIF_REPO=$WT ./check $PID $TIER > /tmp/sv-$ID.check 2>&1; RC=$?
SECS=$(( $(date +%s) - start ))
res "$ID check $PID $TIER exit=$RC seconds=$SECS"
grep -m3 -A1 VIOLATION /tmp/sv-$ID.check | cut -c1-300 | tee -a $OUT/verify.log
mkdir -p $DEST
cp $OUT/patch.diff $OUT/demo_test.go $DEST/
python3 - "$ID" "$PID" "$BASE" "$DEMO_WITHOUT" "$DEMO_WITH" "$SUITE" "$RC" "$SECS" "$TIER" <<'PY'
import json,sys,os
ID,PID,BASE,DW,DC,SUITE,RC,SECS,TIER=sys.argv[1:]
out='/tmp/seed-%s-out'%ID
try: meta=json.load(open(out+'/meta.json'))
except Exception as e: meta={"note":"meta.json unreadable: %s"%e}
viol=[l.strip()[:300] for l in open('/tmp/sv-%s.check'%ID, errors='replace') if 'VIOLATION' in l or l.startswith('  test=')][:4]
meta.update({"seed_id":ID,"property":PID,"base_commit":BASE,
 "confirmed":{"demo_passes_without_change":DW=='0',"demo_fails_with_change":DC!='0',"existing_suite_passes_with_change":SUITE=='0',
   "how":"tools/seed_verify.sh: scratch worktree of /repo HEAD, demo copied in, go test before/after git apply patch.diff, then go build ./... && go test ./... without the demo"},
 "check_result":{"command":"VERIF_REPO=<worktree with patch> ./check %s %s"%(PID,TIER),"exit":int(RC),"seconds":int(SECS),"detected":RC=='1',"first_lines":viol}})
json.dump(meta,open('/verif/seeded/%s/meta.json'%ID,'w'),indent=1)
PY
rm -f /tmp/sv-$ID.t0 /tmp/sv-$ID.t1 /tmp/sv-$ID.t2 /tmp/sv-$ID.b /tmp/sv-$ID.check
