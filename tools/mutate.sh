#!/bin/bash
# usage: tools/mutate.sh <PROP> <tier> <patchfile|-e 'sed expr' file> ...   runs the check against a scratch worktree with the change applied
# examples: tools/mutate.sh C17 quick -s 's/a/b/' resample/line_string.go
#           tools/mutate.sh C17 quick -p /verif/seeded/x/patch.diff
#           tools/mutate.sh C17 quick -r <sha>      (revert a commit)
set -u
PROP=$1; TIER=$2; shift 2
WT=/tmp/wt-mut-$$
git -C /repo worktree add -q --detach $WT HEAD || exit 3
trap 'git -C /repo worktree remove --force $WT >/dev/null 2>&1' EXIT
while [ $# -gt 0 ]; do
  case $1 in
    -s) before=$(md5sum $WT/$3); sed -i "$2" $WT/$3; after=$(md5sum $WT/$3); [ "$before" = "$after" ] && { echo "MUTANT DID NOT APPLY: $2 $3"; exit 3; }; shift 3;;
    -p) git -C $WT apply $2 || { echo "PATCH DID NOT APPLY"; exit 3; }; shift 2;;
    -r) git -C $WT revert --no-commit $2 >/dev/null || { echo "REVERT FAILED"; exit 3; }; shift 2;;
    -t) TESTPKG=$2; shift 2;;
    *) echo "bad arg $1"; exit 3;;
  esac
done
git -C $WT diff HEAD --stat | tail -1
if [ -n "${TESTPKG:-}" ]; then (cd $WT && GOFLAGS=-mod=mod GOPROXY=off GOSUMDB=off GOTOOLCHAIN=local go test -count=1 $TESTPKG 2>&1 | tail -3); fi
cd /verif && start=$(date +%s) && VERIF_REPO=$WT ./check $PROP $TIER | cut -c1-400 | head -${LINES_MAX:-6}; rc=${PIPESTATUS[0]}
echo "exit=$rc seconds=$(( $(date +%s) - start ))"
