// Package c12 decides property C12 (simplifiers only drop vertices, keep the
// end points and honour their bound) by generated search and small exhaustive
// enumerations against independent oracles (oracle_test.go).
package c12

import (
	"encoding/json"
	"fmt"
	"math"
	"testing"
	"time"

	"github.com/paulmach/orb"
	"github.com/paulmach/orb/encoding/mvt"
	"github.com/paulmach/orb/geo"
	"github.com/paulmach/orb/geojson"
	"github.com/paulmach/orb/planar"
	"github.com/paulmach/orb/simplify"
	"pgregory.net/rapid"

	"verifharness/internal/gen"
	"verifharness/internal/stats"
)

// A simplifier that does not terminate or grows its work stack without bound
// becomes a recorded violation through the CPU-time/heap watchdog inside
// stats.Try/TryT (CPU time, never wall time: the machine is shared); the limits
// are tightened because a legitimate case costs microseconds and kilobytes.
func TestMain(m *testing.M) {
	stats.SetLimits(90*time.Second, 1536<<20) // the top rungs of the size ladder cost seconds of CPU on a loaded machine
	stats.Main(m, "C12")
}

// ---------------------------------------------------------------- simplifier specs

func manhattan(a, b orb.Point) float64 { return math.Abs(a[0]-b[0]) + math.Abs(a[1]-b[1]) }

// distFunc is the distance function handed to the simplifier.
func distFunc(name string) orb.DistanceFunc {
	switch name {
	case "geo":
		return geo.Distance
	case "manhattan":
		return manhattan
	case "planar-reentrant":
		return reentrantDistance
	case "planar-method":
		// L2: a bound method value of a struct with uncomparable fields
		m := &metricBox{weights: map[string]float64{"x": 1, "y": 1}, trail: []int{1, 2, 3}}
		return m.dist
	}
	return planar.Distance
}

type metricBox struct {
	weights map[string]float64
	trail   []int
	fn      func()
}

func (m *metricBox) dist(a, b orb.Point) float64 {
	dx, dy := (a[0]-b[0])*m.weights["x"], (a[1]-b[1])*m.weights["y"]
	return math.Sqrt(dx*dx + dy*dy)
}

func ownPlanar(a, b orb.Point) float64 { return ownDistance("planar", a, b) }

// oracleDF is the same metric without the nested calls (used by the oracle).
func oracleDF(name string) orb.DistanceFunc {
	if name == "planar-reentrant" || name == "planar-method" {
		return planar.Distance
	}
	return distFunc(name)
}

// reentrantDistance is planar.Distance computed by a callback that itself
// simplifies three unrelated small lines (radial inside radial, plus
// Douglas-Peucker and Visvalingam) and checks those results before answering:
// a legal caller that makes scratch state kept between calls inside the package
// visible without goroutines.
func reentrantDistance(a, b orb.Point) float64 {
	r := simplify.Radial(planar.Distance, 1).LineString(orb.LineString{{7, 7}, {7.5, 7}, {9, 7}, {9, 7.2}, {13, 11}})
	if len(r) != 3 || r[0] != (orb.Point{7, 7}) || r[1] != (orb.Point{9, 7}) || r[2] != (orb.Point{13, 11}) {
		panic(fmt.Sprintf("Radial called from inside a DistanceFunc returned %v, want [[7 7] [9 7] [13 11]]", r))
	}
	d := simplify.DouglasPeucker(1).LineString(orb.LineString{{0, 0}, {1, 0.1}, {2, 3}, {3, 0}})
	if len(d) != 3 || d[0] != (orb.Point{0, 0}) || d[1] != (orb.Point{2, 3}) || d[2] != (orb.Point{3, 0}) {
		panic(fmt.Sprintf("DouglasPeucker called from inside a DistanceFunc returned %v, want [[0 0] [2 3] [3 0]]", d))
	}
	v := simplify.VisvalingamKeep(3).LineString(orb.LineString{{0, 0}, {1, 0.1}, {2, 3}, {3, 0}})
	if len(v) != 3 || v[0] != (orb.Point{0, 0}) || v[1] != (orb.Point{2, 3}) || v[2] != (orb.Point{3, 0}) {
		panic(fmt.Sprintf("VisvalingamKeep called from inside a DistanceFunc returned %v, want [[0 0] [2 3] [3 0]]", v))
	}
	return planar.Distance(a, b)
}

// Spec names one simplifier configuration.
type Spec struct {
	Algo string `json:"algo"` // dp | radial | vis | viskeep | visthr
	T    gen.F  `json:"t"`
	Keep int    `json:"keep"`
	DF   string `json:"df,omitempty"`
}

func (s Spec) make() orb.Simplifier {
	switch s.Algo {
	case "dp":
		return simplify.DouglasPeucker(float64(s.T))
	case "radial":
		return simplify.Radial(distFunc(s.DF), float64(s.T))
	case "viskeep":
		return simplify.VisvalingamKeep(s.Keep)
	case "visthr":
		return simplify.VisvalingamThreshold(float64(s.T))
	}
	return simplify.Visvalingam(float64(s.T), s.Keep)
}

func (s Spec) String() string {
	switch s.Algo {
	case "dp":
		return fmt.Sprintf("DouglasPeucker(%v)", float64(s.T))
	case "radial":
		return fmt.Sprintf("Radial(%s,%v)", s.DF, float64(s.T))
	case "viskeep":
		return fmt.Sprintf("VisvalingamKeep(%d)", s.Keep)
	case "visthr":
		return fmt.Sprintf("VisvalingamThreshold(%v)", float64(s.T))
	}
	return fmt.Sprintf("Visvalingam(%v,%d)", float64(s.T), s.Keep)
}

// apply runs the typed LineString or Ring method on a private copy.
func apply(s orb.Simplifier, in []orb.Point, ring bool) []orb.Point {
	cp := clonePts(in)
	if ring {
		return s.Ring(orb.Ring(cp))
	}
	return s.LineString(orb.LineString(cp))
}

// info is what a case turned out to be (for the evidence counters).
type info struct {
	nontrivial map[string]bool // per algorithm: a vertex was removed and an interior vertex kept
	model      bool            // the reference models applied (distinct vertices)
	scaled     bool            // the rescaled twin of the case was judged too
}

func (i *info) note(algo string, in, out []orb.Point) {
	if len(out) < len(in) && len(out) > 2 {
		if i.nontrivial == nil {
			i.nontrivial = map[string]bool{}
		}
		i.nontrivial[algo] = true
	}
}

// checkSpecLeaf: clauses that one configuration must satisfy on one line/ring.
// It is used for every leaf of a geometry case and by the line case.
func checkSpecLeaf(s Spec, in []orb.Point, ring bool, inf *info) ([]orb.Point, error) {
	kind := "LineString"
	if ring {
		kind = "Ring"
	}
	what := s.String() + "." + kind
	out := apply(s.make(), in, ring)
	if err := checkBasic(what, in, out); err != nil {
		return out, err
	}
	inf.note(s.Algo, in, out)
	n := len(in)
	switch s.Algo {
	case "dp":
		if err := checkDPBound(what, in, out, float64(s.T)); err != nil {
			return out, err
		}
		again := apply(s.make(), out, ring)
		if !sameSeq(again, out) {
			return out, fmt.Errorf("%s is not idempotent: in=%v once=%v twice=%v", what, short(in), short(out), short(again))
		}
	case "radial":
		var dfErr error
		df := checkedDF(s.DF, oracleDF(s.DF), &dfErr)
		spacingErr := checkRadialSpacing(what, out, df, float64(s.T))
		want := radialModel(in, df, float64(s.T))
		if dfErr != nil {
			return out, dfErr
		}
		if spacingErr != nil {
			return out, spacingErr
		}
		if !sameSeq(out, want) {
			return out, fmt.Errorf("%s: a vertex was dropped although it is farther than the threshold from the last kept vertex (or kept although it is not): in=%v out=%v want=%v", what, short(in), short(out), short(want))
		}
	default:
		min := s.Keep
		if min == 0 || s.Algo == "visthr" {
			min = defaultMin(ring, in)
		}
		if len(out) < minInt(n, min) {
			return out, fmt.Errorf("%s: %d vertices left, minimum is %d (input has %d): in=%v out=%v", what, len(out), min, n, short(in), short(out))
		}
		if s.Algo == "viskeep" && s.Keep >= 2 && len(out) != minInt(n, s.Keep) {
			return out, fmt.Errorf("%s: %d vertices left, want exactly %d (input has %d): in=%v out=%v", what, len(out), minInt(n, s.Keep), n, short(in), short(out))
		}
	}
	return out, nil
}

// checkIndependent (results are independent values): snap is the verified
// result of s on in. (a) Retention: using the same kind of simplifier on
// another line must not change a result obtained earlier. (b) Scribble and
// repeat: after the first result is overwritten and appended to, the same call
// on a fresh copy of the input must return the snapshot again. (Simplifiers
// work in place on their INPUT, which is allowed: every call here gets its own
// copy. The index maps of the simplifiers are not reachable through the
// exported API, so there is nothing to scribble on there.)
func checkIndependent(s Spec, in []orb.Point, ring bool, snap []orb.Point) error {
	kind := "LineString"
	if ring {
		kind = "Ring"
	}
	what := s.String() + "." + kind
	snap = clonePts(snap)
	val := s.make() // one simplifier value for all calls here: it is read-only (L4)
	first := apply(val, in, ring)
	if !sameSeq(first, snap) {
		return fmt.Errorf("%s: two calls on equal inputs differ: %v vs %v", what, short(snap), short(first))
	}
	apply(val, []orb.Point{{3, 3}, {4, 9}, {5, 3}, {6, 9}, {7, 3}, {8, 8}, {9, 3}, {3, 3}}, ring)
	if !sameSeq(first, snap) {
		return fmt.Errorf("%s: a result obtained earlier changed when the simplifier was used on another line (the result shares memory with state kept in the package): was %v, now %v", what, short(snap), short(first))
	}
	for i := range first {
		first[i] = orb.Point{-12345.678 - float64(i), 98765.4321}
	}
	first = append(first, orb.Point{-1, -1}, orb.Point{-2, -2})
	_ = first
	again := apply(val, in, ring)
	if !sameSeq(again, snap) {
		return fmt.Errorf("%s: after the first result was overwritten, the same call on a fresh copy of the input returns %v, want %v: in=%v", what, short(again), short(snap), short(in))
	}
	return checkFields(s, val)
}

// ---------------------------------------------------------------- line case

// LineCase is one line string or ring with a full set of configurations.
type LineCase struct {
	Pts  []gen.P `json:"pts"`
	Nil  bool    `json:"nil,omitempty"`
	Ring bool    `json:"ring"` // use the Ring methods (area mode)
	TD1  gen.F   `json:"td1"`  // Douglas-Peucker thresholds, TD1 <= TD2
	TD2  gen.F   `json:"td2"`
	TR   gen.F   `json:"tr"`  // radial threshold
	DF   string  `json:"df"`  // radial distance function
	TA1  gen.F   `json:"ta1"` // Visvalingam area thresholds, TA1 <= TA2
	TA2  gen.F   `json:"ta2"`
	Keep int     `json:"keep"` // 0 = default minimum, else >= 2
	Fam  string  `json:"family,omitempty"`
	// Scale k != 0: the case is also judged multiplied by 2^k (distance
	// thresholds by 2^k, area thresholds by 4^k); same vertices must be kept.
	Scale int `json:"scale,omitempty"`
}

func (c LineCase) pts() []orb.Point {
	if c.Nil {
		return nil
	}
	return gen.OrbPts(c.Pts)
}

// lineOuts are the outputs of one line case, kept for the rescaling comparison.
type lineOuts struct {
	names []string
	outs  [][]orb.Point
}

func (o *lineOuts) add(name string, out []orb.Point) {
	o.names = append(o.names, name)
	o.outs = append(o.outs, out)
}

const (
	minMag = 0x1p-200 // magnitudes for which every intermediate of the simplifiers stays a normal float64 after rescaling by 2^+-60
	maxMag = 0x1p+200
)

func magOK(v float64) bool { return v == 0 || (math.Abs(v) >= minMag && math.Abs(v) <= maxMag) }

// rescalable: multiplying the case by 2^k is exact and neither the original nor
// the rescaled case can overflow or underflow inside the simplifiers (all
// non-zero coordinates, hence coordinate differences, and thresholds lie in
// [2^-200, 2^200]; thresholds may also be 0 or +Inf).
func rescalable(c LineCase) bool {
	if c.Scale == 0 || c.Scale < -60 || c.Scale > 60 || (c.DF != "planar" && c.DF != "manhattan" && c.DF != "planar-reentrant" && c.DF != "planar-method") {
		return false
	}
	for _, p := range c.Pts {
		if !magOK(float64(p[0])) || !magOK(float64(p[1])) {
			return false
		}
	}
	for _, t := range []gen.F{c.TD1, c.TD2, c.TR, c.TA1, c.TA2} {
		if !magOK(float64(t)) && !math.IsInf(float64(t), 1) {
			return false
		}
	}
	return true
}

// rescaled multiplies the vertices and distance thresholds by 2^k and the area
// thresholds by 4^k (exact).
func rescaled(c LineCase) LineCase {
	f := math.Ldexp(1, c.Scale)
	sc := c
	sc.Scale = 0
	sc.Pts = make([]gen.P, len(c.Pts))
	for i, p := range c.Pts {
		sc.Pts[i] = gen.P{gen.F(float64(p[0]) * f), gen.F(float64(p[1]) * f)}
	}
	sc.TD1, sc.TD2, sc.TR = gen.F(float64(c.TD1)*f), gen.F(float64(c.TD2)*f), gen.F(float64(c.TR)*f)
	sc.TA1, sc.TA2 = gen.F(float64(c.TA1)*f*f), gen.F(float64(c.TA2)*f*f)
	return sc
}

// checkLine judges the case and, when it carries a scale exponent k, also the
// case multiplied by 2^k (thresholds by 2^k, area thresholds by 4^k): all
// oracles must hold on the rescaled case (their tolerances are relative to the
// case) and every simplifier must keep exactly the same vertices.
func checkLine(c LineCase) (info, error) {
	inf, base, err := checkLineBase(c)
	if err != nil || !rescalable(c) {
		return inf, err
	}
	inf.scaled = true
	sc := rescaled(c)
	_, so, err := checkLineBase(sc)
	if err != nil {
		return inf, fmt.Errorf("rescaled by 2^%d: %v", c.Scale, err)
	}
	f := math.Ldexp(1, c.Scale)
	for i := range base.outs {
		want := make([]orb.Point, len(base.outs[i]))
		for j, p := range base.outs[i] {
			want[j] = orb.Point{p[0] * f, p[1] * f}
		}
		if i >= len(so.outs) || !sameSeq(so.outs[i], want) {
			var got []orb.Point
			if i < len(so.outs) {
				got = so.outs[i]
			}
			return inf, fmt.Errorf("%s is not scale invariant: multiplying the input and the threshold by 2^%d (area threshold by 4^%d) changes which vertices are kept: in=%v kept=%v, rescaled in=%v kept=%v", base.names[i], c.Scale, c.Scale, short(c.pts()), short(base.outs[i]), short(sc.pts()), short(got))
		}
	}
	return inf, nil
}

func checkLineBase(c LineCase) (info, *lineOuts, error) {
	var inf info
	outs := &lineOuts{}
	in := c.pts()
	n := len(in)
	ring := c.Ring
	td1, td2, ta1, ta2 := float64(c.TD1), float64(c.TD2), float64(c.TA1), float64(c.TA2)
	distinct := n >= 3 && distinctVertices(in)
	inf.model = distinct

	// Douglas-Peucker
	dp1, err := checkSpecLeaf(Spec{Algo: "dp", T: c.TD1}, in, ring, &inf)
	if err != nil {
		return inf, outs, err
	}
	dp2, err := checkSpecLeaf(Spec{Algo: "dp", T: c.TD2}, in, ring, &inf)
	if err != nil {
		return inf, outs, err
	}
	outs.add(fmt.Sprintf("DouglasPeucker(%v)", td1), dp1)
	outs.add(fmt.Sprintf("DouglasPeucker(%v)", td2), dp2)
	if td1 <= td2 && !isSubseq(dp2, dp1) {
		return inf, outs, fmt.Errorf("DouglasPeucker not monotone: threshold %v keeps a vertex that %v dropped: in=%v out(%v)=%v out(%v)=%v", td2, td1, short(in), td1, short(dp1), td2, short(dp2))
	}
	if distinct {
		if err := checkDPModel(fmt.Sprintf("DouglasPeucker(%v) model", td1), in, indicesOf(in, dp1), td1); err != nil {
			return inf, outs, fmt.Errorf("%v: in=%v out=%v", err, short(in), short(dp1))
		}
		if err := checkDPModel(fmt.Sprintf("DouglasPeucker(%v) model", td2), in, indicesOf(in, dp2), td2); err != nil {
			return inf, outs, fmt.Errorf("%v: in=%v out=%v", err, short(in), short(dp2))
		}
	}

	// radial
	rad, err := checkSpecLeaf(Spec{Algo: "radial", T: c.TR, DF: c.DF}, in, ring, &inf)
	if err != nil {
		return inf, outs, err
	}
	outs.add(fmt.Sprintf("Radial(%s,%v)", c.DF, float64(c.TR)), rad)

	// Visvalingam
	v1, err := checkSpecLeaf(Spec{Algo: "visthr", T: c.TA1}, in, ring, &inf)
	if err != nil {
		return inf, outs, err
	}
	v2, err := checkSpecLeaf(Spec{Algo: "visthr", T: c.TA2}, in, ring, &inf)
	if err != nil {
		return inf, outs, err
	}
	if ta1 <= ta2 && !isSubseq(v2, v1) {
		return inf, outs, fmt.Errorf("VisvalingamThreshold not monotone: threshold %v keeps a vertex that %v dropped: in=%v out(%v)=%v out(%v)=%v", ta2, ta1, short(in), ta1, short(v1), ta2, short(v2))
	}
	vk, err := checkSpecLeaf(Spec{Algo: "viskeep", Keep: c.Keep}, in, ring, &inf)
	if err != nil {
		return inf, outs, err
	}
	c1, err := checkSpecLeaf(Spec{Algo: "vis", T: c.TA1, Keep: c.Keep}, in, ring, &inf)
	if err != nil {
		return inf, outs, err
	}
	c2, err := checkSpecLeaf(Spec{Algo: "vis", T: c.TA2, Keep: c.Keep}, in, ring, &inf)
	if err != nil {
		return inf, outs, err
	}
	outs.add(fmt.Sprintf("VisvalingamThreshold(%v)", ta1), v1)
	outs.add(fmt.Sprintf("VisvalingamThreshold(%v)", ta2), v2)
	outs.add(fmt.Sprintf("VisvalingamKeep(%d)", c.Keep), vk)
	outs.add(fmt.Sprintf("Visvalingam(%v,%d)", ta1, c.Keep), c1)
	outs.add(fmt.Sprintf("Visvalingam(%v,%d)", ta2, c.Keep), c2)
	for _, x := range []struct {
		s   Spec
		out []orb.Point
	}{
		{Spec{Algo: "dp", T: c.TD1}, dp1}, {Spec{Algo: "radial", T: c.TR, DF: c.DF}, rad},
		{Spec{Algo: "visthr", T: c.TA2}, v2}, {Spec{Algo: "vis", T: c.TA1, Keep: c.Keep}, c1},
	} {
		if err := checkIndependent(x.s, in, ring, x.out); err != nil {
			return inf, outs, err
		}
	}
	if ta1 <= ta2 && !isSubseq(c2, c1) {
		return inf, outs, fmt.Errorf("Visvalingam(t,%d) not monotone: threshold %v keeps a vertex that %v dropped: in=%v out(%v)=%v out(%v)=%v", c.Keep, ta2, ta1, short(in), ta1, short(c1), ta2, short(c2))
	}
	if distinct {
		seq := map[int][]orb.Point{n: in}
		for k := n - 1; k >= 2; k-- {
			o, err := checkSpecLeaf(Spec{Algo: "viskeep", Keep: k}, in, ring, &inf)
			if err != nil {
				return inf, outs, err
			}
			seq[k] = o
		}
		es, err := visOrder("Visvalingam model", in, seq)
		if err != nil {
			return inf, outs, fmt.Errorf("%v: in=%v", err, short(in))
		}
		dm := defaultMin(ring, in)
		if err := checkVisThreshold(fmt.Sprintf("VisvalingamThreshold(%v) model", ta1), in, v1, seq, es, ta1, dm); err != nil {
			return inf, outs, fmt.Errorf("%v: in=%v", err, short(in))
		}
		if err := checkVisThreshold(fmt.Sprintf("VisvalingamThreshold(%v) model", ta2), in, v2, seq, es, ta2, dm); err != nil {
			return inf, outs, fmt.Errorf("%v: in=%v", err, short(in))
		}
		km := c.Keep
		if km == 0 {
			km = dm
		}
		if err := checkVisThreshold(fmt.Sprintf("Visvalingam(%v,%d) model", ta1, c.Keep), in, c1, seq, es, ta1, km); err != nil {
			return inf, outs, fmt.Errorf("%v: in=%v", err, short(in))
		}
		if err := checkVisThreshold(fmt.Sprintf("Visvalingam(%v,%d) model", ta2, c.Keep), in, c2, seq, es, ta2, km); err != nil {
			return inf, outs, fmt.Errorf("%v: in=%v", err, short(in))
		}
	}
	return inf, outs, nil
}

func checkCase(c LineCase) error {
	_, err := checkLine(c)
	return err
}

// ---------------------------------------------------------------- geometry case

// GeomCase is one geometry of any kind (plus further feature geometries for the
// MVT layer check) and one configuration.
type GeomCase struct {
	G    gen.G   `json:"g"`
	More []gen.G `json:"more,omitempty"` // further features of the MVT layers
	S    Spec    `json:"spec"`
}

// norm maps empty multi-points to nil (the generic entry point returns nil for
// a nil MultiPoint and the value itself for an empty one; C12 says nothing
// about either, both are accepted).
func norm(g orb.Geometry) orb.Geometry {
	switch v := g.(type) {
	case orb.MultiPoint:
		if len(v) == 0 {
			return nil
		}
	case orb.Collection:
		out := make(orb.Collection, len(v))
		for i := range v {
			out[i] = norm(v[i])
		}
		return out
	}
	return g
}

func modelPolygon(mk func() orb.Simplifier, p orb.Polygon) orb.Polygon {
	out := orb.Polygon{}
	for i, r := range p {
		sr := orb.Ring(apply(mk(), r, true))
		if i != 0 && len(sr) <= 2 {
			continue // inner ring reduced to <= 2 points is dropped
		}
		out = append(out, sr)
	}
	return out
}

// modelGeom composes the expected result of the generic entry point from the
// typed LineString/Ring results (judged separately) and the dropping rules of
// helpers.go. Every line and ring is simplified by a FRESH simplifier (mk), so
// that an implementation whose simplifier value remembers something from the
// previous line (e.g. a cached default minimum count) cannot agree with it. keepEmptyPoly selects whether a polygon without rings inside a
// multi-polygon stays (either is accepted).
func modelGeom(mk func() orb.Simplifier, g orb.Geometry, keepEmptyPoly bool) orb.Geometry {
	switch v := g.(type) {
	case nil:
		return nil
	case orb.Point, orb.Bound:
		return v
	case orb.MultiPoint:
		return orb.MultiPoint(clonePts(v))
	case orb.LineString:
		out := orb.LineString(apply(mk(), v, false))
		if len(out) == 0 {
			return nil
		}
		return out
	case orb.Ring:
		out := orb.Ring(apply(mk(), v, true))
		if len(out) == 0 {
			return nil
		}
		return out
	case orb.MultiLineString:
		if len(v) == 0 {
			return nil
		}
		out := make(orb.MultiLineString, len(v))
		for i := range v {
			out[i] = orb.LineString(apply(mk(), v[i], false))
		}
		return out
	case orb.Polygon:
		out := modelPolygon(mk, v)
		if len(out) == 0 {
			return nil
		}
		return out
	case orb.MultiPolygon:
		out := orb.MultiPolygon{}
		for _, p := range v {
			sp := modelPolygon(mk, p)
			if len(sp) == 0 {
				if keepEmptyPoly {
					out = append(out, sp)
				}
				continue
			}
			if len(sp[0]) <= 2 {
				continue // polygon whose outer ring is reduced to <= 2 points is dropped
			}
			out = append(out, sp)
		}
		if len(out) == 0 {
			return nil
		}
		return out
	case orb.Collection:
		if len(v) == 0 {
			return nil
		}
		out := make(orb.Collection, len(v))
		for i := range v {
			out[i] = modelGeom(mk, v[i], keepEmptyPoly)
		}
		return out
	}
	panic(fmt.Sprintf("modelGeom: %T", g))
}

// typed runs the typed method of the kind and converts an empty result to nil
// the way the generic entry point does.
func typed(s orb.Simplifier, g orb.Geometry) (orb.Geometry, bool) {
	g = gen.DeepCopy(g)
	switch v := g.(type) {
	case orb.LineString:
		if o := s.LineString(v); len(o) > 0 {
			return o, true
		}
		return nil, true
	case orb.MultiLineString:
		if o := s.MultiLineString(v); len(o) > 0 {
			return o, true
		}
		return nil, true
	case orb.Ring:
		if o := s.Ring(v); len(o) > 0 {
			return o, true
		}
		return nil, true
	case orb.Polygon:
		if o := s.Polygon(v); len(o) > 0 {
			return o, true
		}
		return nil, true
	case orb.MultiPolygon:
		if o := s.MultiPolygon(v); len(o) > 0 {
			return o, true
		}
		return nil, true
	case orb.Collection:
		if o := s.Collection(v); len(o) > 0 {
			return o, true
		}
		return nil, true
	}
	return nil, false
}

// leaves lists every line (ring=false) and ring (ring=true) of g.
func leaves(g orb.Geometry, f func(pts []orb.Point, ring bool)) {
	switch v := g.(type) {
	case orb.LineString:
		f(v, false)
	case orb.Ring:
		f(v, true)
	case orb.MultiLineString:
		for _, l := range v {
			f(l, false)
		}
	case orb.Polygon:
		for _, r := range v {
			f(r, true)
		}
	case orb.MultiPolygon:
		for _, p := range v {
			for _, r := range p {
				f(r, true)
			}
		}
	case orb.Collection:
		for _, m := range v {
			leaves(m, f)
		}
	}
}

func expectGeneric(mk func() orb.Simplifier, what string, g, got orb.Geometry) error {
	okA, diffA := gen.SameBits(norm(got), norm(modelGeom(mk, g, false)))
	if okA {
		return nil
	}
	if okB, _ := gen.SameBits(norm(got), norm(modelGeom(mk, g, true))); okB {
		return nil
	}
	return fmt.Errorf("%s of %s: result differs from the per-line results composed with the dropping rules (%s): in=%s got=%s", what, gen.KindOf(g), diffA, gen.Canon(g), gen.Canon(got))
}

// ringsOf lists the rings of a Ring / Polygon / MultiPolygon in order.
func ringsOf(g orb.Geometry) [][]orb.Point {
	var out [][]orb.Point
	switch v := g.(type) {
	case orb.Ring:
		out = append(out, v)
	case orb.Polygon:
		for _, r := range v {
			out = append(out, r)
		}
	case orb.MultiPolygon:
		for _, p := range v {
			for _, r := range p {
				out = append(out, r)
			}
		}
	}
	return out
}

// checkGenericMin asserts the minimum-count clause directly on every ring that
// comes out of the generic entry point (Visvalingam only): each output ring
// must be, in order, the simplification of one of the input rings (first and
// last kept, subsequence) with at least min(len(in), requested or default 3/4)
// vertices. Rings may be dropped in between, so output rings are matched
// greedily to the earliest input ring they fit; collections keep their length,
// so members are compared position by position.
func checkGenericMin(sp Spec, g, got orb.Geometry) error {
	if sp.Algo != "vis" && sp.Algo != "visthr" && sp.Algo != "viskeep" {
		return nil
	}
	if c, ok := g.(orb.Collection); ok {
		gc, ok := got.(orb.Collection)
		if !ok || len(gc) != len(c) {
			return nil // structure is judged by expectGeneric
		}
		for i := range c {
			if err := checkGenericMin(sp, c[i], gc[i]); err != nil {
				return err
			}
		}
		return nil
	}
	ins, outs := ringsOf(g), ringsOf(got)
	j := 0
	for _, o := range outs {
		for ; j < len(ins); j++ {
			min := sp.Keep
			if min == 0 || sp.Algo == "visthr" {
				min = defaultMin(true, ins[j])
			}
			if len(o) >= minInt(len(ins[j]), min) && checkBasic("", ins[j], o) == nil {
				break
			}
		}
		if j == len(ins) {
			return fmt.Errorf("%s.Simplify of %s: output ring %v (%d vertices) is not one of the input rings simplified down to no fewer than min(len, minimum count 3 open / 4 closed or the requested one) vertices: in=%s got=%s", sp.String(), gen.KindOf(g), short(o), len(o), gen.Canon(g), gen.Canon(got))
		}
		j++
	}
	return nil
}

func checkGeom(c GeomCase) (info, error) {
	var inf info
	g := c.G.V
	mk := c.S.make // a fresh simplifier value per call
	s := mk()      // the one value under test
	name := c.S.String()

	// every line and ring on its own (fresh simplifier each): the clauses of the statement
	var leafErr error
	leaves(g, func(pts []orb.Point, ring bool) {
		if leafErr == nil {
			_, leafErr = checkSpecLeaf(c.S, pts, ring, &inf)
		}
	})
	if leafErr != nil {
		return inf, leafErr
	}

	// generic entry point = composition of the per-line results of fresh simplifiers
	got := s.Simplify(gen.DeepCopy(g))
	if err := checkGenericMin(c.S, g, got); err != nil {
		return inf, err
	}
	if err := expectGeneric(mk, name+".Simplify", g, got); err != nil {
		return inf, err
	}
	// results are independent values: after the caller overwrote the first result,
	// the same call on a fresh copy must return the same thing again (whether the
	// lines of one result share memory is only counted as a layout note)
	{
		snap := gen.DeepCopy(got)
		var ls [][]orb.Point
		leaves(got, func(pts []orb.Point, ring bool) { ls = append(ls, pts) })
		if len(ls) > 0 {
			for i := range ls[0] {
				ls[0][i] = orb.Point{-12345.678 - float64(i), 98765.4321}
			}
			_ = append(ls[0], orb.Point{-1, -1}, orb.Point{-2, -2})
			var sl [][]orb.Point
			leaves(snap, func(pts []orb.Point, ring bool) { sl = append(sl, pts) })
			for i := 1; i < len(ls) && i < len(sl); i++ {
				if !sameSeq(ls[i], sl[i]) {
					// layout fact only (soundness rule): the members of an in-place result
					// mirror the input's layout; counted, never a failure
					stats.Class("layout-note: lines of one generic result share memory")
					break
				}
			}
		}
		again := mk().Simplify(gen.DeepCopy(g))
		if same, diff := gen.SameBits(again, snap); !same {
			return inf, fmt.Errorf("%s.Simplify of %s: after the first result was overwritten, the same call on a fresh copy returns something else (%s): first=%s second=%s", name, gen.KindOf(g), diff, gen.Canon(snap), gen.Canon(again))
		}
		got = snap
	}
	// = typed method of the kind
	if tg, ok := typed(mk(), g); ok {
		if same, diff := gen.SameBits(got, tg); !same {
			return inf, fmt.Errorf("%s: Simplify and the typed %s method disagree (%s): in=%s generic=%s typed=%s", name, gen.KindOf(g), diff, gen.Canon(g), gen.Canon(got), gen.Canon(tg))
		}
	}
	// Douglas-Peucker is idempotent on every kind
	if c.S.Algo == "dp" {
		again := mk().Simplify(gen.DeepCopy(got))
		if same, diff := gen.SameBits(norm(again), norm(got)); !same {
			return inf, fmt.Errorf("%s.Simplify is not idempotent on %s (%s): in=%s once=%s twice=%s", name, gen.KindOf(g), diff, gen.Canon(g), gen.Canon(got), gen.Canon(again))
		}
	}

	// mvt.Layers.Simplify (ONE simplifier value for all features) = per-feature
	// Simplify by a fresh simplifier, nil results dropped, order kept
	all := append([]gen.G{c.G}, c.More...)
	var layers mvt.Layers
	var want [][]orb.Geometry
	var wantID [][]int
	for li := 0; li < 2; li++ {
		l := &mvt.Layer{Name: fmt.Sprintf("l%d", li), Version: 2, Extent: 4096}
		var w []orb.Geometry
		var ids []int
		for i, fg := range all {
			if i%2 != li && len(all) > 1 {
				continue
			}
			f := geojson.NewFeature(gen.DeepCopy(fg.V))
			f.ID = i
			l.Features = append(l.Features, f)
			e := mk().Simplify(gen.DeepCopy(fg.V))
			if err := expectGeneric(mk, name+".Simplify", fg.V, e); err != nil {
				return inf, err
			}
			if e != nil {
				w = append(w, e)
				ids = append(ids, i)
			}
		}
		layers = append(layers, l)
		want = append(want, w)
		wantID = append(wantID, ids)
	}
	layers.Simplify(s)
	for li, l := range layers {
		if len(l.Features) != len(want[li]) {
			return inf, fmt.Errorf("mvt.Layers.Simplify(%s): layer %d has %d features, want %d (features whose geometry simplifies to nil are dropped)", name, li, len(l.Features), len(want[li]))
		}
		for k, f := range l.Features {
			if id, _ := f.ID.(int); id != wantID[li][k] {
				return inf, fmt.Errorf("mvt.Layers.Simplify(%s): layer %d feature %d has id %v, want %d", name, li, k, f.ID, wantID[li][k])
			}
			if same, diff := gen.SameBits(f.Geometry, want[li][k]); !same {
				return inf, fmt.Errorf("mvt.Layers.Simplify(%s): layer %d feature %d differs from what a fresh simplifier returns for its geometry (%s): got=%s want=%s", name, li, k, diff, gen.Canon(f.Geometry), gen.Canon(want[li][k]))
			}
		}
	}
	if err := checkFields(c.S, s); err != nil {
		return inf, err
	}
	return inf, nil
}

// checkFields: using a simplifier must not change its exported configuration.
func checkFields(sp Spec, used orb.Simplifier) error {
	fresh := sp.make()
	switch u := used.(type) {
	case *simplify.DouglasPeuckerSimplifier:
		f := fresh.(*simplify.DouglasPeuckerSimplifier)
		if math.Float64bits(u.Threshold) != math.Float64bits(f.Threshold) {
			return fmt.Errorf("%s: Threshold changed from %v to %v by use", sp.String(), f.Threshold, u.Threshold)
		}
	case *simplify.RadialSimplifier:
		f := fresh.(*simplify.RadialSimplifier)
		if math.Float64bits(u.Threshold) != math.Float64bits(f.Threshold) || u.DistanceFunc == nil {
			return fmt.Errorf("%s: Threshold/DistanceFunc changed by use (threshold %v -> %v, DistanceFunc nil: %v)", sp.String(), f.Threshold, u.Threshold, u.DistanceFunc == nil)
		}
	case *simplify.VisvalingamSimplifier:
		f := fresh.(*simplify.VisvalingamSimplifier)
		if math.Float64bits(u.Threshold) != math.Float64bits(f.Threshold) || u.ToKeep != f.ToKeep {
			return fmt.Errorf("%s: configuration changed by use: Threshold %v -> %v, ToKeep %d -> %d (a default minimum count must be resolved per geometry, not stored)", sp.String(), f.Threshold, u.Threshold, f.ToKeep, u.ToKeep)
		}
	default:
		return fmt.Errorf("%s: unexpected simplifier type %T", sp.String(), used)
	}
	return nil
}

// ---------------------------------------------------------------- history case

// HistCase is a sequence of geometries pushed through ONE simplifier value.
type HistCase struct {
	S     Spec       `json:"spec"`
	Steps []HistStep `json:"steps"`
}

// HistStep is one call: the generic entry point or the typed method of the
// kind. Before the call the caller may copy the simplifier struct by value
// (Copy) and may assign its exported fields (Set: new threshold / minimum count
// / distance function of the same simplifier type) - L3: the result must be
// that of the CURRENT field values.
type HistStep struct {
	G    gen.G  `json:"g"`
	Via  string `json:"via"` // generic | typed
	Copy bool   `json:"copy,omitempty"`
	Set  *Spec  `json:"set,omitempty"`
}

// mutate applies Copy and Set to the live simplifier value the way a caller
// would and returns the value to use and the spec that now describes it.
func (st HistStep) mutate(s orb.Simplifier, cur Spec) (orb.Simplifier, Spec) {
	if st.Copy {
		switch v := s.(type) {
		case *simplify.DouglasPeuckerSimplifier:
			c := *v
			s = &c
		case *simplify.RadialSimplifier:
			c := *v
			s = &c
		case *simplify.VisvalingamSimplifier:
			c := *v
			s = &c
		}
	}
	if st.Set != nil {
		switch v := s.(type) {
		case *simplify.DouglasPeuckerSimplifier:
			v.Threshold = float64(st.Set.T)
			cur = Spec{Algo: "dp", T: st.Set.T}
		case *simplify.RadialSimplifier:
			v.Threshold = float64(st.Set.T)
			df := st.Set.DF
			if df == "" {
				df = "planar"
			}
			v.DistanceFunc = distFunc(df)
			cur = Spec{Algo: "radial", T: st.Set.T, DF: df}
		case *simplify.VisvalingamSimplifier:
			v.Threshold = float64(st.Set.T)
			v.ToKeep = st.Set.Keep
			cur = Spec{Algo: "vis", T: st.Set.T, Keep: st.Set.Keep}
		}
	}
	return s, cur
}

func runStep(s orb.Simplifier, st HistStep) orb.Geometry {
	g := gen.DeepCopy(st.G.V)
	if st.Via == "typed" {
		switch v := g.(type) {
		case orb.LineString:
			return s.LineString(v)
		case orb.MultiLineString:
			return s.MultiLineString(v)
		case orb.Ring:
			return s.Ring(v)
		case orb.Polygon:
			return s.Polygon(v)
		case orb.MultiPolygon:
			return s.MultiPolygon(v)
		case orb.Collection:
			return s.Collection(v)
		}
	}
	return s.Simplify(g)
}

// checkHist: every result of the reused simplifier is bit-equal to what a
// fresh simplifier with the same parameters returns for that geometry alone
// (itself judged against the per-line composition), and the exported fields
// are unchanged afterwards.
func checkHist(c HistCase) (info, error) {
	var inf info
	s := c.S.make()
	cur := c.S
	for i, st := range c.Steps {
		s, cur = st.mutate(s, cur)
		got := runStep(s, st)
		want := runStep(cur.make(), st)
		if same, diff := gen.SameBits(got, want); !same {
			return inf, fmt.Errorf("%s reused (now %s): call %d (%s, %s) returns something else than a fresh simplifier with the current parameters (%s): the result depends on what the simplifier handled before: in=%s reused=%s fresh=%s", c.S.String(), cur.String(), i, st.Via, gen.KindOf(st.G.V), diff, gen.Canon(st.G.V), gen.Canon(got), gen.Canon(want))
		}
		if st.Via == "generic" {
			if err := checkGenericMin(cur, st.G.V, got); err != nil {
				return inf, err
			}
			if err := expectGeneric(cur.make, cur.String()+".Simplify", st.G.V, got); err != nil {
				return inf, err
			}
		}
		// the lines themselves against the model (not only against a fresh library object)
		var leafErr error
		leaves(st.G.V, func(pts []orb.Point, ring bool) {
			if leafErr == nil {
				_, leafErr = checkSpecLeaf(cur, pts, ring, &inf)
			}
		})
		if leafErr != nil {
			return inf, leafErr
		}
		if err := checkFields(cur, s); err != nil {
			return inf, err
		}
	}
	return inf, nil
}

// ---------------------------------------------------------------- aliasing inside one input (L5)

// AliasCase: the members of one multi-geometry are windows of ONE backing
// array (the same slice twice, equal start with different lengths, overlapping
// windows, disjoint neighbours whose capacity reaches over the next member).
type AliasCase struct {
	Pts  []gen.P  `json:"pts"`
	Wins [][2]int `json:"wins"` // start, length
	Kind string   `json:"kind"` // lines | rings | polygons | collection
	S    Spec     `json:"spec"`
}

func (c AliasCase) build(back []orb.Point) orb.Geometry {
	win := func(i int) []orb.Point { w := c.Wins[i]; return back[w[0] : w[0]+w[1]] }
	switch c.Kind {
	case "rings":
		p := orb.Polygon{}
		for i := range c.Wins {
			p = append(p, orb.Ring(win(i)))
		}
		return p
	case "polygons":
		m := orb.MultiPolygon{}
		for i := range c.Wins {
			m = append(m, orb.Polygon{orb.Ring(win(i))})
		}
		return m
	case "collection":
		col := orb.Collection{}
		for i := range c.Wins {
			if i%2 == 0 {
				col = append(col, orb.LineString(win(i)))
			} else {
				col = append(col, orb.Ring(win(i)))
			}
		}
		return col
	}
	m := orb.MultiLineString{}
	for i := range c.Wins {
		m = append(m, orb.LineString(win(i)))
	}
	return m
}

func (c AliasCase) disjoint() bool {
	for i := range c.Wins {
		for j := i + 1; j < len(c.Wins); j++ {
			a, b := c.Wins[i], c.Wins[j]
			if a[1] > 0 && b[1] > 0 && a[0] < b[0]+b[1] && b[0] < a[0]+a[1] {
				return false
			}
		}
	}
	return true
}

// checkAlias asserts only what the property and the documentation state. The
// simplifiers are documented to work in place, so members that overlap in
// memory see each other's compaction: for those only "no panic, no invented
// vertex, nothing longer than what was passed" is asserted. Members that are
// disjoint windows (even when one's capacity reaches over the next) must give
// exactly the values independent deep copies give.
func checkAlias(c AliasCase) (info, error) {
	var inf info
	back := gen.OrbPts(c.Pts)
	g := c.build(back)
	indep := gen.DeepCopy(c.build(gen.OrbPts(c.Pts))) // what the caller passed, as independent values
	got := c.S.make().Simplify(g)
	name := c.S.String() + ".Simplify of aliased " + c.Kind
	if c.disjoint() {
		if err := checkGenericMin(c.S, indep, got); err != nil {
			return inf, err
		}
		if err := expectGeneric(c.S.make, name, indep, got); err != nil {
			return inf, err
		}
		leaves(indep, func(pts []orb.Point, ring bool) { inf.note(c.S.Algo, pts, apply(c.S.make(), pts, ring)) })
		return inf, nil
	}
	set := map[[2]uint64]bool{}
	total := 0
	for _, p := range gen.OrbPts(c.Pts) {
		set[[2]uint64{math.Float64bits(p[0]), math.Float64bits(p[1])}] = true
	}
	for _, w := range c.Wins {
		total += w[1]
	}
	out := 0
	var bad error
	leaves(got, func(pts []orb.Point, ring bool) {
		out += len(pts)
		for _, p := range pts {
			if bad == nil && !set[[2]uint64{math.Float64bits(p[0]), math.Float64bits(p[1])}] {
				bad = fmt.Errorf("%s: output vertex %v is not a vertex of the input", name, p)
			}
		}
	})
	if bad != nil {
		return inf, bad
	}
	if out > total {
		return inf, fmt.Errorf("%s: %d output vertices from %d input vertices", name, out, total)
	}
	return inf, nil
}

// ---------------------------------------------------------------- generators

var families = []string{"lattice", "lattice", "runs", "runs", "general", "general", "spiky", "spiky", "mercator", "mercator", "large", "large", "utm", "lonlat", "same", "few"}

// genPts draws the vertex list of one line/ring. maxN bounds the length.
func genPts(t *rapid.T, maxN int) (pts []orb.Point, isNil bool, fam string) {
	// (rapid favours the ends of an integer range, so the rare shapes sit in the middle)
	switch rapid.IntRange(0, 39).Draw(t, "shape") {
	case 10:
		return nil, true, "nil"
	case 11:
		return []orb.Point{}, false, "empty"
	case 12:
		return []orb.Point{{float64(rapid.IntRange(0, 6).Draw(t, "x")), float64(rapid.IntRange(0, 6).Draw(t, "y"))}}, false, "one vertex"
	case 13:
		a := orb.Point{float64(rapid.IntRange(0, 3).Draw(t, "x")), float64(rapid.IntRange(0, 3).Draw(t, "y"))}
		b := orb.Point{float64(rapid.IntRange(0, 3).Draw(t, "x")), float64(rapid.IntRange(0, 3).Draw(t, "y"))}
		return []orb.Point{a, b}, false, "two vertices"
	}
	fam = rapid.SampledFrom(families).Draw(t, "family")
	n := rapid.IntRange(3, maxN).Draw(t, "n")
	pts = make([]orb.Point, 0, n)
	switch fam {
	case "lattice":
		lim := rapid.SampledFrom([]int{6, 6, 20, 3}).Draw(t, "lim")
		reps := rapid.Bool().Draw(t, "reps")
		for len(pts) < n {
			p := orb.Point{float64(rapid.IntRange(0, lim).Draw(t, "x")), float64(rapid.IntRange(0, lim).Draw(t, "y"))}
			if reps && len(pts) > 0 && rapid.IntRange(0, 7).Draw(t, "rep") == 0 {
				p = pts[len(pts)-1]
			}
			pts = append(pts, p)
		}
	case "runs":
		p := orb.Point{float64(rapid.IntRange(-3, 3).Draw(t, "x")), float64(rapid.IntRange(-3, 3).Draw(t, "y"))}
		pts = append(pts, p)
		for len(pts) < n {
			dx, dy := float64(rapid.IntRange(-2, 2).Draw(t, "dx")), float64(rapid.IntRange(-2, 2).Draw(t, "dy"))
			k := rapid.IntRange(1, 5).Draw(t, "run")
			for ; k > 0 && len(pts) < n; k-- {
				p = orb.Point{p[0] + dx, p[1] + dy}
				pts = append(pts, p)
			}
		}
	case "general":
		for len(pts) < n {
			pts = append(pts, orb.Point{rapid.Float64Range(-10, 10).Draw(t, "x"), rapid.Float64Range(-10, 10).Draw(t, "y")})
		}
	case "spiky":
		step := rapid.SampledFrom([]float64{1, 1, 0.5, 0.1}).Draw(t, "step")
		integer := rapid.Bool().Draw(t, "int")
		for i := 0; len(pts) < n; i++ {
			var y float64
			if integer {
				y = float64(rapid.IntRange(-4, 4).Draw(t, "y"))
			} else {
				y = rapid.SampledFrom([]float64{1e-3, 0.1, 1, 10, 100}).Draw(t, "amp") * rapid.Float64Range(-1, 1).Draw(t, "y")
			}
			if i%2 == 0 && rapid.IntRange(0, 2).Draw(t, "flat") > 0 {
				y = 0
			}
			pts = append(pts, orb.Point{float64(i) * step, y})
		}
	case "utm":
		p := orb.Point{500000 + rapid.Float64Range(0, 1000).Draw(t, "e"), 4500000 + rapid.Float64Range(0, 1000).Draw(t, "n")}
		for len(pts) < n {
			pts = append(pts, p)
			p = orb.Point{p[0] + rapid.Float64Range(-30, 30).Draw(t, "de"), p[1] + rapid.Float64Range(-30, 30).Draw(t, "dn")}
		}
	case "mercator":
		// web-mercator metres: |v| up to 2.1e7, vertex spacing of metres, so the
		// relative spacing is ~1e-6 and the area/distance formulas cancel heavily.
		// The integer variant keeps every triangle area exact (ties).
		integer := rapid.Bool().Draw(t, "int")
		sx := float64(rapid.SampledFrom([]int{1, -1}).Draw(t, "sx"))
		sy := float64(rapid.SampledFrom([]int{1, -1}).Draw(t, "sy"))
		p := orb.Point{sx * (1e7 + rapid.Float64Range(0, 1.0e7).Draw(t, "bx")), sy * (1e7 + rapid.Float64Range(0, 1.0e7).Draw(t, "by"))}
		if integer {
			p = orb.Point{math.Round(p[0]), math.Round(p[1])}
		}
		for len(pts) < n {
			pts = append(pts, p)
			var dx, dy float64
			if integer {
				dx, dy = float64(rapid.IntRange(-5, 5).Draw(t, "dx")), float64(rapid.IntRange(-5, 5).Draw(t, "dy"))
			} else {
				dx, dy = rapid.Float64Range(-50, 50).Draw(t, "dx"), rapid.Float64Range(-50, 50).Draw(t, "dy")
			}
			p = orb.Point{p[0] + dx, p[1] + dy}
		}
	case "large":
		// |v| up to 1e100: S x (base + w x u), S = 10^8..10^99, u in [-1,1]; with
		// base 1 and w << 1 the vertices differ only in their low digits.
		S := math.Pow(10, float64(rapid.IntRange(8, 99).Draw(t, "exp")))
		base := float64(rapid.IntRange(0, 1).Draw(t, "base"))
		w := rapid.SampledFrom([]float64{1, 1, 1e-3, 1e-6, 1e-12}).Draw(t, "w")
		integer := rapid.Bool().Draw(t, "int")
		for len(pts) < n {
			var ux, uy float64
			if integer {
				ux, uy = float64(rapid.IntRange(-4, 4).Draw(t, "x"))/4, float64(rapid.IntRange(-4, 4).Draw(t, "y"))/4
			} else {
				ux, uy = rapid.Float64Range(-1, 1).Draw(t, "x"), rapid.Float64Range(-1, 1).Draw(t, "y")
			}
			pts = append(pts, orb.Point{S * (base + w*ux), S * (base + w*uy)})
		}
	case "lonlat":
		// ordinary tracks, tracks that cross the antimeridian (longitude wraps from
		// +180 to -180: geo.Distance must take the short way round) and tracks
		// next to a pole (a degree of longitude is a few metres)
		p := orb.Point{rapid.Float64Range(-179, 179).Draw(t, "lon"), rapid.Float64Range(-80, 80).Draw(t, "lat")}
		switch rapid.IntRange(0, 5).Draw(t, "where") {
		case 2:
			p[0] = float64(rapid.SampledFrom([]int{-1, 1}).Draw(t, "side")) * (180 - rapid.Float64Range(0, 0.02).Draw(t, "off"))
		case 3:
			p[1] = float64(rapid.SampledFrom([]int{-1, 1}).Draw(t, "pole")) * (89.9 - rapid.Float64Range(0, 0.5).Draw(t, "off"))
		}
		for len(pts) < n {
			pts = append(pts, p)
			p = orb.Point{p[0] + rapid.Float64Range(-0.01, 0.01).Draw(t, "dlon"), p[1] + rapid.Float64Range(-0.01, 0.01).Draw(t, "dlat")}
			if p[0] > 180 {
				p[0] -= 360
			} else if p[0] < -180 {
				p[0] += 360
			}
			p[1] = math.Max(-90, math.Min(90, p[1]))
		}
	case "same":
		p := orb.Point{float64(rapid.IntRange(-3, 3).Draw(t, "x")), rapid.Float64Range(-3, 3).Draw(t, "y")}
		for len(pts) < n {
			pts = append(pts, p)
		}
	case "few":
		k := rapid.IntRange(2, 3).Draw(t, "k")
		base := make([]orb.Point, k)
		for i := range base {
			base[i] = orb.Point{float64(rapid.IntRange(0, 3).Draw(t, "x")), float64(rapid.IntRange(0, 3).Draw(t, "y"))}
		}
		for len(pts) < n {
			pts = append(pts, base[rapid.IntRange(0, k-1).Draw(t, "pick")])
		}
	}
	if rapid.IntRange(0, 2).Draw(t, "close") == 0 {
		pts[n-1] = pts[0]
	}
	return pts, false, fam
}

var hugeThresholds = []float64{1e300, math.MaxFloat64, math.Inf(1)}

// genDist draws a distance threshold for pts under df: 0, tiny, around the
// vertex spacing, exactly a distance that occurs, lattice constants, above the
// diameter, huge.
func genDist(t *rapid.T, label string, pts []orb.Point, df orb.DistanceFunc) (float64, string) {
	sp, dmax, cnt := 0.0, 0.0, 0
	for i := 0; i+1 < len(pts); i++ {
		if d := df(pts[i], pts[i+1]); d > 0 {
			sp += d
			cnt++
		}
	}
	for i := range pts {
		dmax = math.Max(dmax, df(pts[0], pts[i]))
	}
	if cnt > 0 {
		sp /= float64(cnt)
	} else {
		sp = 1
	}
	switch rapid.IntRange(0, 12).Draw(t, label+"kind") {
	case 0:
		return 0, "zero"
	case 1:
		return rapid.SampledFrom([]float64{5e-324, 1e-300, 1e-12, sp * 1e-9}).Draw(t, label), "tiny"
	case 2, 3, 4, 5:
		return sp * rapid.Float64Range(0.05, 3).Draw(t, label), "around spacing"
	case 6, 7:
		if len(pts) >= 2 {
			i := rapid.IntRange(0, len(pts)-1).Draw(t, label+"i")
			j := rapid.IntRange(0, len(pts)-1).Draw(t, label+"j")
			return df(pts[i], pts[j]), "exact vertex distance"
		}
		return 1, "exact vertex distance"
	case 8:
		return rapid.SampledFrom([]float64{0.5, math.Sqrt2 / 2, 1, math.Sqrt2, 2, math.Sqrt(5), 3, 5}).Draw(t, label), "lattice constant"
	case 9, 10, 11:
		return 2*dmax*rapid.Float64Range(1, 3).Draw(t, label) + 1e-3, "above diameter"
	}
	return rapid.SampledFrom(hugeThresholds).Draw(t, label), "huge"
}

// genArea draws an area threshold: 0, tiny, around the typical vertex triangle,
// exactly a triangle area that occurs, half-integers, above the bounding box, huge.
func genArea(t *rapid.T, label string, pts []orb.Point) (float64, string) {
	typ, cnt := 0.0, 0
	for i := 1; i+1 < len(pts); i++ {
		if a := dblArea(pts[i-1], pts[i], pts[i+1]) / 2; a > 0 {
			typ += a
			cnt++
		}
	}
	if cnt > 0 {
		typ /= float64(cnt)
	} else {
		typ = 1
	}
	d := diamOf(pts)
	switch rapid.IntRange(0, 12).Draw(t, label+"kind") {
	case 0:
		return 0, "zero"
	case 1:
		return rapid.SampledFrom([]float64{5e-324, 1e-300, 1e-12, typ * 1e-9}).Draw(t, label), "tiny"
	case 2, 3, 4, 5:
		return typ * rapid.Float64Range(0.05, 3).Draw(t, label), "around typical"
	case 6, 7:
		if len(pts) >= 3 {
			i := rapid.IntRange(1, len(pts)-2).Draw(t, label+"i")
			return dblArea(pts[i-1], pts[i], pts[i+1]) / 2, "exact triangle area"
		}
		return 0.5, "exact triangle area"
	case 8:
		return rapid.SampledFrom([]float64{0.5, 1, 1.5, 2, 3, 4.5, 8}).Draw(t, label), "half-integer"
	case 9, 10, 11:
		return d*d*rapid.Float64Range(1, 3).Draw(t, label) + 1e-3, "above bounding box"
	}
	return rapid.SampledFrom(hugeThresholds).Draw(t, label), "huge"
}

func genDF(t *rapid.T, fam string) string {
	if fam == "lonlat" {
		return rapid.SampledFrom([]string{"geo", "geo", "planar"}).Draw(t, "df")
	}
	return rapid.SampledFrom([]string{"planar", "planar-reentrant", "manhattan", "planar-method"}).Draw(t, "df")
}

func genKeep(t *rapid.T, n int) int {
	if rapid.IntRange(0, 3).Draw(t, "keepdefault") == 0 {
		return 0
	}
	return rapid.IntRange(2, n+2).Draw(t, "keep")
}

// ---------------------------------------------------------------- TestPropLine

func assumptions() {
	stats.Assume("coordinates are finite with |v| <= 1e100 (lattice, general position in [-10,10], spiky, UTM-like, web-mercator metres up to 2.1e7 with metre spacing, 1e8..1e100 scaled shapes, lon/lat; beyond ~1e154 triangle areas overflow and VisvalingamKeep panics: out of domain); thresholds are >= 0 (including +Inf and MaxFloat64), never NaN or negative; minimum counts are 0 (default) or >= 2")
	stats.Assume("tolerances are relative to the case: distances t(1+1e-9) + 1e-9 x extent (bounding-box diagonal) + 32 eps x max|coordinate|; doubled areas a(1+1e-9)+1e-9 x diameter^2; the radial clause is exact (the check calls the same distance function as the simplifier)")
	stats.Assume("extensions beyond the literal statement, from the package documentation: (a) Douglas-Peucker keeps a vertex only where the recursion must split (farthest vertex beyond the threshold), (b) radial drops a vertex only when it is within the threshold of the last kept vertex, (c) Visvalingam removes vertices in order of smallest effective area (area raised to that of a removed neighbour) and stops at the first effective area above the threshold; (a) and (c) are judged only on lines whose vertices are pairwise distinct (except the closing vertex), borderline values and ties are accepted either way")
	stats.Assume("radial distance functions: planar.Distance (also through a re-entrant callback), geo.Distance (lon/lat inputs only, including antimeridian crossings and near-polar tracks), a Manhattan distance defined in the harness; every value of a library distance function that the radial oracle uses must agree with the harness's own formula within 1e-12 relative")
	stats.Assume("float64 range: distances below 1e-150 and doubled areas below 1e-300 count as zero (their squares / products underflow: DouglasPeucker(0) drops a vertex 6e-163 away from the chord), |v| <= 1e100 (beyond ~1e154 they overflow)")
	stats.Assume("rescaling: a third of the line cases (and half of the enumerated ones) are also judged multiplied by 2^k, k in -60..60 (distance thresholds by 2^k, area thresholds by 4^k, planar or Manhattan distance): every oracle must hold on the twin and every simplifier must keep exactly the same vertices; only cases whose non-zero magnitudes and thresholds lie in 2^-200..2^200 (or thresholds 0 / +Inf) are rescaled, so that no intermediate can overflow or underflow")
	stats.Assume("concurrency: simplifier values are never shared between goroutines; concurrent groups use only checks that are pure functions of the case (no package-level configuration of orb is touched)")
	stats.Assume("history: a simplifier value is used from one goroutine at a time; every result of a reused value must be bit-equal to the result of a fresh value with the same parameters, and Threshold / ToKeep / DistanceFunc must be unchanged by use")
	stats.Assume("generic entry point: an empty or nil MultiPoint may come back as nil or as itself; a polygon without rings inside a multi-polygon may be dropped or kept; collection members are never nil interfaces")
}

func classifyLine(c LineCase, inf info, err error) {
	if err != nil {
		return
	}
	any := false
	for _, a := range []string{"dp", "radial", "visthr", "vis", "viskeep"} {
		if inf.nontrivial[a] {
			stats.Class("nontrivial:" + a)
			any = true
		}
	}
	if inf.model {
		stats.Class("reference models applied (distinct vertices)")
	}
	if any {
		stats.NonTrivial(gen.JSON(c))
		if stats.WantSample("line:" + c.Fam) {
			stats.Sample("line:"+c.Fam, c)
		}
	}
}

// drawLineCase draws one line case; count selects whether the generator
// classes are counted (not for the members of concurrent groups).
func drawLineCase(rt *rapid.T, count bool) LineCase {
	cls := func(s string) {
		if count {
			stats.Class(s)
		}
	}
	pts, isNil, fam := genPts(rt, 40)
	c := LineCase{Pts: gen.Pts(pts), Nil: isNil, Fam: fam}
	c.Ring = rapid.Bool().Draw(rt, "ring")
	c.DF = genDF(rt, fam)
	a, ka := genDist(rt, "td1", pts, ownPlanar)
	b, kb := genDist(rt, "td2", pts, ownPlanar)
	if a > b {
		a, b, ka, kb = b, a, kb, ka
	}
	c.TD1, c.TD2 = gen.F(a), gen.F(b)
	r, kr := genDist(rt, "tr", pts, oracleDF(c.DF))
	c.TR = gen.F(r)
	x, kx := genArea(rt, "ta1", pts)
	y, ky := genArea(rt, "ta2", pts)
	if x > y {
		x, y, kx, ky = y, x, ky, kx
	}
	c.TA1, c.TA2 = gen.F(x), gen.F(y)
	c.Keep = genKeep(rt, len(pts))
	// exact power-of-two rescaling twin (scale vacuity: an absolute epsilon in
	// a simplifier, or an absolute tolerance in this check, shows up here)
	if rapid.IntRange(0, 2).Draw(rt, "rescale") == 1 {
		c.Scale = rapid.IntRange(-60, 60).Draw(rt, "k")
		// thresholds that cannot be rescaled exactly become +Inf (huge) or 0 (subnormal range)
		for _, t := range []*gen.F{&c.TD1, &c.TD2, &c.TR, &c.TA1, &c.TA2} {
			if v := float64(*t); !magOK(v) && !math.IsInf(v, 1) {
				if v > 1 {
					*t = gen.F(math.Inf(1))
				} else {
					*t = 0
				}
			}
		}
		if c.TD1 > c.TD2 {
			c.TD1, c.TD2 = c.TD2, c.TD1
		}
		if c.TA1 > c.TA2 {
			c.TA1, c.TA2 = c.TA2, c.TA1
		}
		if c.Scale != 0 && !rescalable(c) {
			cls("rescale: skipped (geo distance or a coordinate magnitude outside 2^-200..2^200)")
			c.Scale = 0
		}
	}
	switch {
	case c.Scale < -30:
		cls("rescale: 2^-60..2^-31")
	case c.Scale < 0:
		cls("rescale: 2^-30..2^-1")
	case c.Scale > 30:
		cls("rescale: 2^31..2^60")
	case c.Scale > 0:
		cls("rescale: 2^1..2^30")
	}

	cls("family:" + fam)
	if c.Ring {
		cls("kind:ring")
	} else {
		cls("kind:line")
	}
	if len(pts) >= 3 && pts[0] == pts[len(pts)-1] {
		cls("closed")
	}
	cls("dp threshold:" + ka)
	cls("dp threshold:" + kb)
	cls("radial threshold:" + kr)
	cls("radial df:" + c.DF)
	cls("area threshold:" + kx)
	cls("area threshold:" + ky)
	switch {
	case c.Keep == 0:
		cls("keep:default")
	case c.Keep > len(pts):
		cls("keep:> len")
	default:
		cls("keep:2..len")
	}
	return c
}

func TestPropLine(t *testing.T) {
	assumptions()
	stats.Check(t, 160000, 3000000, func(rt *rapid.T) {
		c := drawLineCase(rt, true)
		stats.Try(rt, "TestPropLine", c, func() error {
			inf, err := checkLine(c)
			classifyLine(c, inf, err)
			return err
		})
	})
}

// ---------------------------------------------------------------- TestPropGeom

func genLeaf(t *rapid.T) []orb.Point {
	pts, _, _ := genPts(t, 12)
	if len(pts) >= 3 && rapid.IntRange(0, 1).Draw(t, "closeleaf") == 0 {
		pts[len(pts)-1] = pts[0]
	}
	return pts
}

var geomKinds = []string{"Polygon", "LineString", "Ring", "MultiLineString", "MultiPolygon", "Collection", "Point", "MultiPoint", "Bound",
	"Polygon", "LineString", "Ring", "MultiLineString", "MultiPolygon", "Collection", "MultiPolygon",
	"MixedCollection", "MixedPolygon", "MixedMultiPolygon"}

// richLeaf is a line of 5..10 vertices, closed or open as asked: long enough
// that a large threshold drives it down to the minimum count of its kind.
func richLeaf(t *rapid.T, closed bool) []orb.Point {
	pts, _, _ := genPts(t, 10)
	for i := len(pts); i < 5; i++ {
		pts = append(pts, orb.Point{float64(i), float64((i * i) % 3)})
	}
	n := len(pts)
	if closed {
		pts[n-1] = pts[0]
	} else if pts[n-1] == pts[0] {
		pts[n-1] = orb.Point{pts[0][0] + 1, pts[0][1] + 1}
	}
	return pts
}

// mixedPolygon has rings with different default minimum counts in the order
// drawn (e.g. an open ring before a closed one).
func mixedPolygon(t *rapid.T) orb.Polygon {
	p := orb.Polygon{}
	for i := rapid.IntRange(2, 3).Draw(t, "rings"); i > 0; i-- {
		p = append(p, orb.Ring(richLeaf(t, rapid.Bool().Draw(t, "closed"))))
	}
	return p
}

func genGeom(t *rapid.T, depth int) orb.Geometry {
	k := geomKinds[rapid.IntRange(0, len(geomKinds)-1).Draw(t, "kind")]
	if k == "Collection" && depth >= 2 {
		k = "Polygon"
	}
	small := func() orb.Point {
		return orb.Point{float64(rapid.IntRange(-3, 3).Draw(t, "px")), float64(rapid.IntRange(-3, 3).Draw(t, "py"))}
	}
	state := rapid.IntRange(0, 11).Draw(t, "state") // 0 nil slice, 1 empty, else populated
	switch k {
	case "MixedCollection":
		// kinds with different default minimum counts inside one generic call
		c := orb.Collection{}
		for i := rapid.IntRange(2, 4).Draw(t, "n"); i > 0; i-- {
			switch rapid.IntRange(0, 3).Draw(t, "member") {
			case 0:
				c = append(c, orb.LineString(richLeaf(t, false)))
			case 1:
				c = append(c, orb.Ring(richLeaf(t, true)))
			case 2:
				c = append(c, orb.Ring(richLeaf(t, false)))
			default:
				c = append(c, mixedPolygon(t))
			}
		}
		return c
	case "MixedPolygon":
		return mixedPolygon(t)
	case "MixedMultiPolygon":
		m := orb.MultiPolygon{}
		for i := rapid.IntRange(1, 3).Draw(t, "n"); i > 0; i-- {
			m = append(m, mixedPolygon(t))
		}
		return m
	case "Point":
		return small()
	case "Bound":
		a, b := small(), small()
		return orb.Bound{Min: orb.Point{math.Min(a[0], b[0]), math.Min(a[1], b[1])}, Max: orb.Point{math.Max(a[0], b[0]), math.Max(a[1], b[1])}}
	case "MultiPoint":
		if state == 0 {
			return orb.MultiPoint(nil)
		}
		if state == 1 {
			return orb.MultiPoint{}
		}
		mp := orb.MultiPoint{}
		for i := rapid.IntRange(1, 4).Draw(t, "n"); i > 0; i-- {
			mp = append(mp, small())
		}
		return mp
	case "LineString":
		return orb.LineString(genLeaf(t))
	case "Ring":
		return orb.Ring(genLeaf(t))
	case "MultiLineString":
		if state == 0 {
			return orb.MultiLineString(nil)
		}
		if state == 1 {
			return orb.MultiLineString{}
		}
		m := orb.MultiLineString{}
		for i := rapid.IntRange(1, 3).Draw(t, "n"); i > 0; i-- {
			m = append(m, orb.LineString(genLeaf(t)))
		}
		return m
	case "Polygon":
		if state == 0 {
			return orb.Polygon(nil)
		}
		if state == 1 {
			return orb.Polygon{}
		}
		return genPolygon(t)
	case "MultiPolygon":
		if state == 0 {
			return orb.MultiPolygon(nil)
		}
		if state == 1 {
			return orb.MultiPolygon{}
		}
		m := orb.MultiPolygon{}
		for i := rapid.IntRange(1, 3).Draw(t, "n"); i > 0; i-- {
			switch rapid.IntRange(0, 9).Draw(t, "pstate") {
			case 0:
				m = append(m, orb.Polygon{}) // formerly panicking input (fixed by 7729a81)
			case 1:
				m = append(m, orb.Polygon(nil))
			default:
				m = append(m, genPolygon(t))
			}
		}
		return m
	default:
		if state == 0 {
			return orb.Collection(nil)
		}
		if state == 1 {
			return orb.Collection{}
		}
		c := orb.Collection{}
		for i := rapid.IntRange(1, 3).Draw(t, "n"); i > 0; i-- {
			c = append(c, genGeom(t, depth+1))
		}
		return c
	}
}

func genPolygon(t *rapid.T) orb.Polygon {
	p := orb.Polygon{}
	for i := rapid.IntRange(1, 3).Draw(t, "rings"); i > 0; i-- {
		p = append(p, orb.Ring(genLeaf(t)))
	}
	return p
}

func allPoints(g orb.Geometry) []orb.Point {
	var ps []orb.Point
	leaves(g, func(pts []orb.Point, ring bool) { ps = append(ps, pts...) })
	return ps
}

func genSpec(t *rapid.T, pts []orb.Point) Spec {
	algo := rapid.SampledFrom([]string{"dp", "dp", "radial", "radial", "vis", "viskeep", "visthr"}).Draw(t, "algo")
	s := Spec{Algo: algo}
	switch algo {
	case "dp":
		v, _ := genDist(t, "t", pts, ownPlanar)
		s.T = gen.F(v)
	case "radial":
		s.DF = rapid.SampledFrom([]string{"planar", "planar-reentrant", "manhattan", "planar-method"}).Draw(t, "df")
		v, _ := genDist(t, "t", pts, oracleDF(s.DF))
		s.T = gen.F(v)
	case "vis", "visthr":
		v, _ := genArea(t, "t", pts)
		s.T = gen.F(v)
	}
	if algo == "vis" || algo == "viskeep" {
		s.Keep = genKeep(t, 10)
	}
	return s
}

func drawGeomCase(rt *rapid.T) GeomCase {
	var g orb.Geometry
	if rapid.IntRange(0, 29).Draw(rt, "nilgeom") != 15 {
		g = genGeom(rt, 0)
	}
	c := GeomCase{G: gen.G{V: g}}
	for i := rapid.IntRange(0, 3).Draw(rt, "more"); i > 0; i-- {
		if rapid.IntRange(0, 9).Draw(rt, "nilfeature") == 5 {
			c.More = append(c.More, gen.G{})
		} else {
			c.More = append(c.More, gen.G{V: genGeom(rt, 1)})
		}
	}
	c.S = genSpec(rt, allPoints(g))
	return c
}

func TestPropGeom(t *testing.T) {
	assumptions()
	stats.Check(t, 60000, 1500000, func(rt *rapid.T) {
		c := drawGeomCase(rt)
		g := c.G.V
		stats.Class("geom kind:" + gen.KindOf(g))
		stats.Class("geom algo:" + c.S.Algo)
		stats.Try(rt, "TestPropGeom", c, func() error {
			inf, err := checkGeom(c)
			if err == nil && len(inf.nontrivial) > 0 {
				stats.Class("geom nontrivial:" + gen.KindOf(g))
				stats.NonTrivial(gen.JSON(c))
				if stats.WantSample("geom:" + gen.KindOf(g)) {
					stats.Sample("geom:"+gen.KindOf(g), c)
				}
			}
			return err
		})
	})
}

// ---------------------------------------------------------------- TestPropHistory

func genHistSpec(t *rapid.T, pts []orb.Point) Spec {
	s := genSpec(t, pts)
	s.Algo = rapid.SampledFrom([]string{"visthr", "vis", "viskeep", "dp", "radial", "visthr", "vis"}).Draw(t, "halgo")
	switch s.Algo {
	case "radial":
		if s.DF == "" {
			s.DF = "planar"
		}
		v, _ := genDist(t, "ht", pts, oracleDF(s.DF))
		s.T = gen.F(v)
	case "dp":
		v, _ := genDist(t, "ht", pts, ownPlanar)
		s.T = gen.F(v)
	default:
		v, _ := genArea(t, "ht", pts)
		if rapid.Bool().Draw(t, "hbig") {
			d := diamOf(pts)
			v = 3*d*d + 1 // large enough to drive every line to its minimum count
		}
		s.T = gen.F(v)
	}
	s.Keep = 0
	if (s.Algo == "vis" || s.Algo == "viskeep") && rapid.Bool().Draw(t, "hkeep") {
		s.Keep = rapid.IntRange(2, 8).Draw(t, "keep")
	}
	if s.Algo != "radial" {
		s.DF = ""
	}
	return s
}

// TestPropHistory: 2..6 geometries of mixed kinds through ONE simplifier value.
func TestPropHistory(t *testing.T) {
	assumptions()
	stats.Check(t, 40000, 1000000, func(rt *rapid.T) {
		var c HistCase
		var pool []orb.Point
		for i := rapid.IntRange(2, 6).Draw(rt, "steps"); i > 0; i-- {
			var g orb.Geometry
			switch rapid.IntRange(0, 7).Draw(rt, "stepkind") {
			case 0:
				g = orb.LineString(richLeaf(rt, false))
			case 1:
				g = orb.Ring(richLeaf(rt, true))
			case 2:
				g = orb.Ring(richLeaf(rt, false))
			case 3:
				g = mixedPolygon(rt)
			default:
				g = genGeom(rt, 1)
			}
			via := rapid.SampledFrom([]string{"generic", "generic", "typed"}).Draw(rt, "via")
			st := HistStep{G: gen.G{V: g}, Via: via}
			st.Copy = rapid.IntRange(0, 5).Draw(rt, "copy") == 3
			if rapid.IntRange(0, 3).Draw(rt, "set") == 2 {
				ns := genHistSpec(rt, append(allPoints(g), pool...))
				st.Set = &ns // only T / Keep / DF are used: the simplifier type stays
			}
			c.Steps = append(c.Steps, st)
			pool = append(pool, allPoints(g)...)
		}
		c.S = genHistSpec(rt, pool)
		stats.Class("history algo:" + c.S.Algo)
		if c.S.Keep == 0 && (c.S.Algo == "vis" || c.S.Algo == "viskeep" || c.S.Algo == "visthr") {
			stats.Class("history: Visvalingam with default minimum count")
		}
		stats.Class(fmt.Sprintf("history steps:%d", len(c.Steps)))
		for _, st := range c.Steps {
			if st.Set != nil {
				stats.Class("history: caller assigns exported fields between calls")
			}
			if st.Copy {
				stats.Class("history: simplifier struct copied by value between calls")
			}
		}
		stats.Try(rt, "TestPropHistory", c, func() error {
			inf, err := checkHist(c)
			if err == nil && len(inf.nontrivial) > 0 {
				stats.Class("history nontrivial")
				stats.NonTrivial(gen.JSON(c))
				if stats.WantSample("history:" + c.S.Algo) {
					stats.Sample("history:"+c.S.Algo, c)
				}
			}
			return err
		})
	})
}

// ---------------------------------------------------------------- TestPropAlias

func TestPropAlias(t *testing.T) {
	assumptions()
	stats.Check(t, 30000, 600000, func(rt *rapid.T) {
		pts, _, _ := genPts(rt, 30)
		for len(pts) < 8 {
			pts = append(pts, orb.Point{float64(len(pts)), float64((len(pts) * 7) % 5)})
		}
		n := len(pts)
		c := AliasCase{Pts: gen.Pts(pts)}
		c.Kind = rapid.SampledFrom([]string{"lines", "rings", "polygons", "collection"}).Draw(rt, "kind")
		pat := rapid.SampledFrom([]string{"neighbours", "neighbours", "same", "prefix", "overlap"}).Draw(rt, "pattern")
		k := rapid.IntRange(2, 4).Draw(rt, "members")
		switch pat {
		case "neighbours": // disjoint windows, each one's capacity reaches over the following ones
			at := 0
			for i := 0; i < k && at < n; i++ {
				l := rapid.IntRange(0, (n-at+k-i-1)/(k-i)).Draw(rt, "len")
				c.Wins = append(c.Wins, [2]int{at, l})
				at += l
			}
		case "same":
			a := rapid.IntRange(0, n-3).Draw(rt, "start")
			l := rapid.IntRange(3, n-a).Draw(rt, "len")
			for i := 0; i < k; i++ {
				c.Wins = append(c.Wins, [2]int{a, l})
			}
		case "prefix": // equal start, different lengths
			a := rapid.IntRange(0, n-3).Draw(rt, "start")
			for i := 0; i < k; i++ {
				c.Wins = append(c.Wins, [2]int{a, rapid.IntRange(1, n-a).Draw(rt, "len")})
			}
		default:
			for i := 0; i < k; i++ {
				a := rapid.IntRange(0, n-1).Draw(rt, "start")
				c.Wins = append(c.Wins, [2]int{a, rapid.IntRange(0, n-a).Draw(rt, "len")})
			}
		}
		c.S = genHistSpec(rt, pts)
		stats.Class("alias pattern:" + pat)
		if c.disjoint() {
			stats.Class("alias: members disjoint (value semantics asserted)")
		} else {
			stats.Class("alias: members overlap (in place: weak clauses only)")
		}
		stats.Try(rt, "TestPropAlias", c, func() error {
			inf, err := checkAlias(c)
			if err == nil && len(inf.nontrivial) > 0 {
				stats.NonTrivial(gen.JSON(c))
				if stats.WantSample("alias:" + pat) {
					stats.Sample("alias:"+pat, c)
				}
			}
			return err
		})
	})
}

// ---------------------------------------------------------------- TestPropConcurrent

// ConcItem is one member of a concurrent group: a line case (all three
// simplifiers, typed methods) or a geometry case (generic entry point on any
// kind, mvt layers).
type ConcItem struct {
	L *LineCase `json:"line,omitempty"`
	G *GeomCase `json:"geom,omitempty"`
}

func (it ConcItem) check() (info, error) {
	if it.L != nil {
		return checkLine(*it.L)
	}
	return checkGeom(*it.G)
}

// outputs runs only the simplifier calls of the member (no oracle): what the
// goroutines repeat, so that nearly all of their time is spent inside orb.
func (it ConcItem) outputs() []orb.Geometry {
	var res []orb.Geometry
	if it.G != nil {
		s := it.G.S.make()
		res = append(res, s.Simplify(gen.DeepCopy(it.G.G.V)))
		for _, m := range it.G.More {
			res = append(res, s.Simplify(gen.DeepCopy(m.V)))
		}
		return res
	}
	c := *it.L
	in := c.pts()
	for _, sp := range []Spec{
		{Algo: "dp", T: c.TD1}, {Algo: "dp", T: c.TD2}, {Algo: "radial", T: c.TR, DF: c.DF},
		{Algo: "visthr", T: c.TA1}, {Algo: "visthr", T: c.TA2}, {Algo: "viskeep", Keep: c.Keep},
		{Algo: "vis", T: c.TA1, Keep: c.Keep}, {Algo: "vis", T: c.TA2, Keep: c.Keep},
	} {
		res = append(res, orb.LineString(apply(sp.make(), in, c.Ring)))
		// and through the generic entry point
		var g orb.Geometry = orb.LineString(clonePts(in))
		if c.Ring {
			g = orb.Ring(clonePts(in))
		}
		res = append(res, sp.make().Simplify(g))
	}
	return res
}

func sameOutputs(a, b []orb.Geometry) error {
	if len(a) != len(b) {
		return fmt.Errorf("%d results instead of %d", len(a), len(b))
	}
	for i := range a {
		if same, diff := gen.SameBits(a[i], b[i]); !same {
			return fmt.Errorf("simplifier call %d of the member returns something else than when it runs alone (%s): alone=%s concurrent=%s", i, diff, gen.Canon(b[i]), gen.Canon(a[i]))
		}
	}
	return nil
}

// concGroup judges every member alone with its full oracle, records the
// outputs of its simplifier calls, then lets all members repeat those calls at
// the same time on separate goroutines: every output must be bit-equal to the
// one obtained alone. It returns the number of non-trivial members.
func concGroup(cs []ConcItem, rounds int, parallel func(n, rounds int, f func(i int) error) error) (int, error) {
	nt := 0
	base := make([][]orb.Geometry, len(cs))
	for i := range cs {
		inf, err := cs[i].check()
		if err != nil {
			return nt, fmt.Errorf("member %d alone (sequential): %v", i, err)
		}
		if len(inf.nontrivial) > 0 {
			nt++
		}
		base[i] = cs[i].outputs()
	}
	return nt, parallel(len(cs), rounds, func(i int) error { return sameOutputs(cs[i].outputs(), base[i]) })
}

// TestPropConcurrent evaluates 2..8 independent cases at the same time on
// separate goroutines, 25 rounds each. The simplifiers are functions of their
// receiver's parameters and their argument only, so every call must return
// exactly what it returns alone (which the full oracle has judged): a failure
// means that concurrent callers share state inside the package (work stack,
// heap, mask or result kept in package-level variables).
func TestPropConcurrent(t *testing.T) {
	assumptions()
	stats.Check(t, 2000, 100000, func(rt *rapid.T) {
		n := rapid.IntRange(2, 8).Draw(rt, "goroutines")
		cs := make([]ConcItem, n)
		for i := range cs {
			if rapid.IntRange(0, 3).Draw(rt, "item") == 2 {
				g := drawGeomCase(rt)
				cs[i] = ConcItem{G: &g}
			} else {
				l := drawLineCase(rt, false)
				cs[i] = ConcItem{L: &l}
			}
		}
		stats.Class(fmt.Sprintf("concurrent:%d goroutines", n))
		stats.Try(rt, "TestPropConcurrent", cs, func() error {
			nt, err := concGroup(cs, 25, stats.ParallelErr)
			if err == nil && nt >= 2 {
				stats.NonTrivial("conc:" + gen.JSON(cs))
				if stats.WantSample("concurrent") {
					stats.Sample("concurrent", cs)
				}
			}
			return err
		})
	})
}

// ---------------------------------------------------------------- enumerations

var enumTD = []float64{0, 0.5, math.Sqrt2 / 2, 1, math.Sqrt2, 2, 3}
var enumTA = []float64{0, 0.5, 1, 1.5, 2, 4}
var enumKeep = []int{0, 2, 3, 4, 5, 0}
var enumScale = []int{0, -60, 0, -35, 0, 60}

func enumCases(pts []orb.Point, f func(c LineCase)) {
	for j := 0; j < 6; j++ {
		for _, ring := range []bool{false, true} {
			df := "planar"
			if j%2 == 1 {
				df = "manhattan"
			}
			f(LineCase{Pts: gen.Pts(pts), Ring: ring, TD1: gen.F(enumTD[j]), TD2: gen.F(enumTD[j+1]), TR: gen.F(enumTD[j]), DF: df,
				TA1: gen.F(enumTA[j%5]), TA2: gen.F(enumTA[j%5+1]), Keep: enumKeep[j], Fam: "enum", Scale: enumScale[j]})
		}
	}
}

// TestEnumSmall: every line of <= 4 (thorough: <= 6) vertices on the 3x3
// lattice, as line and as ring, with six threshold/keep configurations.
func TestEnumSmall(t *testing.T) {
	assumptions()
	var lat []orb.Point
	for x := 0; x < 3; x++ {
		for y := 0; y < 3; y++ {
			lat = append(lat, orb.Point{float64(x), float64(y)})
		}
	}
	maxN := 4
	if stats.Thorough() {
		maxN = 6
	}
	var idx, size int64
	var rec func(cur []orb.Point)
	rec = func(cur []orb.Point) {
		enumCases(cur, func(c LineCase) {
			idx++
			size++
			if !stats.Mine(idx) {
				return
			}
			stats.Eval("TestEnumSmall", 1)
			var inf info
			stats.TryT(t, "TestEnumSmall", c, func() error {
				var err error
				inf, err = checkLine(c)
				return err
			})
			if len(inf.nontrivial) > 0 {
				stats.NonTrivial(gen.JSON(c))
			}
		})
		if len(cur) == maxN {
			return
		}
		for _, p := range lat {
			rec(append(cur[:len(cur):len(cur)], p))
		}
	}
	rec(nil)
	stats.Subspace(fmt.Sprintf("lines and rings of 0..%d vertices on the 3x3 lattice x 6 threshold/minimum-count configurations (DP pairs, radial planar/manhattan, Visvalingam threshold pairs, keep 0,2..5)", maxN), size, true)
}

// TestEnumZigzag: every x-monotone line (1,y1),(2,y2)… with y in 0..3 of 8
// (thorough: 10) vertices: all orders in which the Visvalingam heap can be
// asked to remove and update.
func TestEnumZigzag(t *testing.T) {
	n, ys := 8, 4
	if stats.Thorough() {
		n = 10
	}
	total := int64(1)
	for i := 0; i < n; i++ {
		total *= int64(ys)
	}
	var size int64
	for code := int64(0); code < total; code++ {
		size++
		if !stats.Mine(code) {
			continue
		}
		pts := make([]orb.Point, n)
		v := code
		for i := range pts {
			pts[i] = orb.Point{float64(i + 1), float64(v % int64(ys))}
			v /= int64(ys)
		}
		j := int(code % 5)
		c := LineCase{Pts: gen.Pts(pts), Ring: code%2 == 1, TD1: gen.F(enumTD[j]), TD2: gen.F(enumTD[j+1]), TR: gen.F(enumTD[j+1]), DF: "planar",
			TA1: gen.F(enumTA[j]), TA2: gen.F(enumTA[j+1]), Keep: enumKeep[j], Fam: "zigzag", Scale: []int{0, -45, 37}[code%3]}
		stats.Eval("TestEnumZigzag", 1)
		var inf info
		stats.TryT(t, "TestEnumZigzag", c, func() error {
			var err error
			inf, err = checkLine(c)
			return err
		})
		if len(inf.nontrivial) > 0 {
			stats.NonTrivial(gen.JSON(c))
		}
	}
	stats.Subspace(fmt.Sprintf("x-monotone lines of %d vertices with y in 0..%d (one threshold configuration each, chosen by index)", n, ys-1), size, true)
}

// ---------------------------------------------------------------- replay

// TestReplay runs the saved case through stats.TryT so that the CPU/heap
// watchdog also guards a replayed non-terminating case (the copy of the case
// that TryT writes on failure goes to the temp dir and is not needed).
func TestReplay(t *testing.T) {
	name, raw, ok := stats.Replaying()
	if !ok {
		t.Skip("no replay file")
	}
	if name == "TestEnumLarge" || name == "TestPropLarge" {
		var c LargeCase
		if e := json.Unmarshal(raw, &c); e != nil {
			t.Fatal(e)
		}
		stats.TryT(t, "replayed case still fails: "+name, c, func() error {
			_, e := checkLarge(c)
			return e
		})
		return
	}
	if name == "TestPropConcurrent" {
		var cs []ConcItem
		if e := json.Unmarshal(raw, &cs); e != nil {
			t.Fatal(e)
		}
		stats.TryT(t, "replayed concurrent group still fails", cs, func() error {
			for k := 0; k < 20; k++ {
				if _, err := concGroup(cs, 200, stats.ParallelErr); err != nil {
					return err
				}
			}
			return nil
		})
		return
	}
	if name == "TestPropAlias" {
		var c AliasCase
		if e := json.Unmarshal(raw, &c); e != nil {
			t.Fatal(e)
		}
		stats.TryT(t, "replayed case still fails: "+name, c, func() error {
			_, e := checkAlias(c)
			return e
		})
		return
	}
	if name == "TestPropHistory" {
		var c HistCase
		if e := json.Unmarshal(raw, &c); e != nil {
			t.Fatal(e)
		}
		stats.TryT(t, "replayed case still fails: "+name, c, func() error {
			_, e := checkHist(c)
			return e
		})
		return
	}
	if name == "TestPropGeom" {
		var c GeomCase
		if e := json.Unmarshal(raw, &c); e != nil {
			t.Fatal(e)
		}
		stats.TryT(t, "replayed case still fails: "+name, c, func() error {
			_, e := checkGeom(c)
			return e
		})
		return
	}
	var c LineCase
	if e := json.Unmarshal(raw, &c); e != nil {
		t.Fatal(e)
	}
	stats.TryT(t, "replayed case still fails: "+name, c, func() error { return checkCase(c) })
}
