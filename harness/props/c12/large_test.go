package c12

// Size ladder (round L, class L1): procedurally built STRUCTURED inputs whose
// sizes walk up the ladder {L-2..L+3, 1.5L+1 : L = 2^k, 10^k} for every size
// dimension of the property: vertices per line/ring (shapes that drive each
// simplifier's worst case), lines per multi-line, rings per polygon, polygons
// per multi-polygon, members per collection, collection nesting depth,
// features per MVT layer, and the requested Visvalingam keep count. The
// oracles are walk based: O(n) except the Douglas-Peucker reference model,
// which costs what the algorithm itself costs (O(n x depth of the split
// tree)) and is iterative.

import (
	"fmt"
	"math"
	"testing"

	"github.com/paulmach/orb"
	"github.com/paulmach/orb/encoding/mvt"
	"github.com/paulmach/orb/geojson"
	"github.com/paulmach/orb/simplify"
	"pgregory.net/rapid"

	"verifharness/internal/gen"
	"verifharness/internal/stats"
)

// LargeCase is procedural, so the replay file stays tiny.
type LargeCase struct {
	Dim   string `json:"dim"`   // vertices | ties | lines | rings | polygons | members | depth | features
	Shape string `json:"shape"` // vertices: zigzag | comb | sawtooth | spiral | runs | ring | clusters | lattice
	N     int    `json:"n"`     // size along the dimension
	Ring  bool   `json:"ring"`
	TSel  int    `json:"tsel"`             // threshold selector 0..3 (0, fine, coarse, above everything)
	BigAt string `json:"big_at,omitempty"` // first | middle | last: one enormous member next to the small ones
	Model bool   `json:"model,omitempty"`  // also run the O(n^2 log n) Visvalingam removal-order model
}

func lcg(i int) int { return int((uint64(i)*6364136223846793005 + 1442695040888963407) >> 33) }

// shapeLine builds the structured line of n distinct vertices and returns it
// with the typical amplitude (unit of its thresholds).
func shapeLine(shape string, n int) ([]orb.Point, float64) {
	ps := make([]orb.Point, n)
	unit := 1.0
	for i := range ps {
		x := float64(i)
		switch shape {
		case "zigzag": // amplitude grows slowly: every Douglas-Peucker split lands at the END of its range
			s := 1.0
			if i%2 == 1 {
				s = -1
			}
			ps[i], unit = orb.Point{x, s * float64(1000+i)}, 1000
		case "zigzag-down": // amplitude shrinks: every split lands next to the START of its range, pending ranges pile up
			sg := 1.0
			if i%2 == 1 {
				sg = -1
			}
			ps[i], unit = orb.Point{x, sg * float64(1000+n-i)}, 1000
		case "comb": // teeth of growing height on a flat base
			switch i % 3 {
			case 0:
				ps[i] = orb.Point{x, 0}
			case 1:
				ps[i] = orb.Point{x, float64(500 + i/3)}
			default:
				ps[i] = orb.Point{x, 1}
			}
			unit = 500
		case "sawtooth": // ramps of 17 with a drop: many equal and many distinct triangle areas for the heap
			ps[i], unit = orb.Point{x, float64((i % 17) * (1 + i%5))}, 16
		case "spiral": // shrinking spiral, general position
			r := 1e4 * (1 - float64(i)/float64(n+1))
			ps[i], unit = orb.Point{r * math.Cos(0.1*x), r * math.Sin(0.1*x)}, 100
		case "runs": // collinear runs of 100 vertices, then a step
			ps[i], unit = orb.Point{x, float64(i / 100)}, 1
		case "ring": // densified circle (balanced split tree), closed by the caller
			a := 2 * math.Pi * x / float64(n)
			ps[i], unit = orb.Point{1e6 * math.Cos(a), 1e6 * math.Sin(a)}, 10
		case "clusters": // dense clusters of 8 far apart (radial)
			k, j := i/8, i%8
			ps[i], unit = orb.Point{float64(10*k) + float64(j)*1e-3, float64(j%2) * 1e-3}, 1
		default: // lattice: x-monotone pseudo-random heights
			ps[i], unit = orb.Point{x, float64(lcg(i) % 2048)}, 700
		}
	}
	return ps, unit
}

func (c LargeCase) thresholds(unit float64) (td, td2, tr, ta, ta2 float64) {
	switch c.TSel % 4 {
	case 0:
		return 0, 0.5 * unit, 0, 0, 0.5 * unit
	case 1:
		return 0.25 * unit, unit, 1.5, 0.5 * unit, unit * unit
	case 2:
		return 0.75 * unit, 4 * unit, 9.5, unit * unit / 4, 10 * unit * unit
	}
	return 8 * unit, 1e12, 1e9, 1e6 * unit * unit, math.Inf(1)
}

// applyGuarded runs the typed method on a window of a larger caller-owned
// array: guard vertices before the window and in its spare capacity behind it
// (L4: only the geometry argument itself may be modified, in place, within its
// length). A touched guard is only counted as a layout note; the error is for a
// result longer than the input.
func applyGuarded(s orb.Simplifier, in []orb.Point, ring bool) ([]orb.Point, error) {
	const g = 5
	buf := make([]orb.Point, len(in)+2*g)
	for i := range buf {
		buf[i] = orb.Point{-7e77 - float64(i), 7e77 + float64(i)}
	}
	copy(buf[g:], in)
	win := buf[g : g+len(in)] // capacity reaches over the rear guards
	var out []orb.Point
	if ring {
		out = s.Ring(orb.Ring(win))
	} else {
		out = s.LineString(orb.LineString(win))
	}
	for i := 0; i < g; i++ {
		for _, j := range []int{i, g + len(in) + i} {
			if want := (orb.Point{-7e77 - float64(j), 7e77 + float64(j)}); !bitsEq(buf[j], want) {
				// a write into the spare capacity changes no value the caller can reach
				// without re-slicing: a layout fact, counted, not a violation (soundness rule)
				stats.Class("layout-note: simplifier wrote into the spare capacity behind its argument")
			}
		}
	}
	if len(out) > len(in) {
		return out, fmt.Errorf("result longer than the input (%d > %d)", len(out), len(in))
	}
	return out, nil
}

// dpBoundWalk: O(n) form of the error bound for inputs with distinct vertices:
// a dropped vertex is judged against the output segment that spans it; only if
// that fails is it measured against the whole output line (the statement).
func dpBoundWalk(what string, in, out []orb.Point, idx []int, t float64) error {
	if math.IsInf(t, 1) {
		return nil
	}
	allow := t*(1+relTol) + distTol(in)
	for k := 0; k+1 < len(idx); k++ {
		a, b := in[idx[k]], in[idx[k+1]]
		for i := idx[k] + 1; i < idx[k+1]; i++ {
			if segDist(a, b, in[i]) > allow {
				if d := polyDist(out, in[i]); d > allow {
					return fmt.Errorf("%s: input vertex %d = %v is %v away from the simplified line, threshold %v (%d-vertex input, %d-vertex output)", what, i, in[i], d, t, len(in), len(out))
				}
			}
		}
	}
	return nil
}

// checkLargeLine judges all three simplifiers on one structured line.
func checkLargeLine(c LargeCase) (dpStats, error) {
	var st dpStats
	in, unit := shapeLine(c.Shape, c.N)
	ring := c.Ring
	if c.Shape == "ring" || (ring && c.N >= 4 && c.TSel%2 == 0) {
		in = append(in, in[0]) // closed
	}
	n := len(in)
	td, td2, tr, ta, ta2 := c.thresholds(unit)
	tag := fmt.Sprintf("%s n=%d", c.Shape, n)

	// Douglas-Peucker
	var dpOut [2][]orb.Point
	for k, t := range []float64{td, td2} {
		what := fmt.Sprintf("DouglasPeucker(%v) on %s", t, tag)
		out, err := applyGuarded(simplify.DouglasPeucker(t), in, ring)
		if err != nil {
			return st, fmt.Errorf("%s: %v", what, err)
		}
		out = clonePts(out)
		if err := checkBasic(what, in, out); err != nil {
			return st, err
		}
		idx := indicesOf(in, out)
		if err := dpBoundWalk(what, in, out, idx, t); err != nil {
			return st, err
		}
		if again := apply(simplify.DouglasPeucker(t), out, ring); !sameSeq(again, out) {
			return st, fmt.Errorf("%s is not idempotent (%d -> %d -> %d vertices)", what, n, len(out), len(again))
		}
		s, err := checkDPModelStats(what+" model", in, idx, t)
		if err != nil {
			return st, err
		}
		if s.maxPending > st.maxPending {
			st = s
		}
		dpOut[k] = out
	}
	if !isSubseq(dpOut[1], dpOut[0]) {
		return st, fmt.Errorf("DouglasPeucker on %s not monotone: threshold %v keeps a vertex that %v dropped", tag, td2, td)
	}

	// radial
	{
		what := fmt.Sprintf("Radial(planar,%v) on %s", tr, tag)
		out, err := applyGuarded(simplify.Radial(distFunc("planar"), tr), in, ring)
		if err != nil {
			return st, fmt.Errorf("%s: %v", what, err)
		}
		if err := checkBasic(what, in, out); err != nil {
			return st, err
		}
		var dfErr error
		df := checkedDF("planar", oracleDF("planar"), &dfErr)
		if err := checkRadialSpacing(what, out, df, tr); err != nil {
			return st, err
		}
		if want := radialModel(in, df, tr); !sameSeq(out, want) {
			return st, fmt.Errorf("%s: %d vertices kept, the greedy scan keeps %d", what, len(out), len(want))
		}
		if dfErr != nil {
			return st, dfErr
		}
	}

	// Visvalingam
	dm := defaultMin(ring, in)
	relA, tolA := areaSlack(in)
	var vOut [2][]orb.Point
	for k, t := range []float64{ta, ta2} {
		what := fmt.Sprintf("VisvalingamThreshold(%v) on %s", t, tag)
		out, err := applyGuarded(simplify.VisvalingamThreshold(t), in, ring)
		if err != nil {
			return st, fmt.Errorf("%s: %v", what, err)
		}
		out = clonePts(out)
		if err := checkBasic(what, in, out); err != nil {
			return st, err
		}
		if len(out) < minInt(n, dm) {
			return st, fmt.Errorf("%s: %d vertices left, minimum is %d", what, len(out), dm)
		}
		// final state: when more than the minimum is left, every remaining interior vertex spans a
		// triangle larger than the threshold with its neighbours (an effective area <= t implies that)
		if len(out) > dm {
			for i := 1; i+1 < len(out); i++ {
				if a := dblArea(out[i-1], out[i], out[i+1]); a < 2*t*(1-relA)-tolA {
					return st, fmt.Errorf("%s: stopped with %d vertices although output vertex %d = %v spans a triangle of doubled area %v, below the threshold", what, len(out), i, out[i], a)
				}
			}
		}
		// the same removal sequence cut by count: keep-len(out) must be this very result
		if len(out) >= 2 && len(out) < n {
			if kk := apply(simplify.VisvalingamKeep(len(out)), in, ring); !sameSeq(kk, out) {
				return st, fmt.Errorf("%s: the result (%d vertices) differs from VisvalingamKeep(%d) of the same input", what, len(out), len(out))
			}
		}
		vOut[k] = out
	}
	if !isSubseq(vOut[1], vOut[0]) {
		return st, fmt.Errorf("VisvalingamThreshold on %s not monotone: threshold %v keeps a vertex that %v dropped", tag, ta2, ta)
	}
	// requested counts up the ladder: exactly k when the input is longer
	ks := []int{2, 3, 63, 64, 65, 1023, 1024, 1025, n / 2, n - 3, n - 1, n, n + 1}
	if n > 100000 {
		ks = []int{2, 65, n / 2, n - 1, n + 1} // each run is O(n log n)
	}
	for _, k := range ks {
		if k < 2 {
			continue
		}
		what := fmt.Sprintf("VisvalingamKeep(%d) on %s", k, tag)
		out := apply(simplify.VisvalingamKeep(k), in, ring)
		if err := checkBasic(what, in, out); err != nil {
			return st, err
		}
		if len(out) != minInt(n, k) {
			return st, fmt.Errorf("%s: %d vertices left, want exactly %d", what, len(out), minInt(n, k))
		}
	}
	if c.Model && n >= 3 {
		seq := map[int][]orb.Point{n: in}
		for k := n - 1; k >= 2; k-- {
			seq[k] = apply(simplify.VisvalingamKeep(k), in, ring)
			if err := checkBasic(fmt.Sprintf("VisvalingamKeep(%d) on %s", k, tag), in, seq[k]); err != nil {
				return st, err
			}
		}
		es, err := visOrder("Visvalingam model on "+tag, in, seq)
		if err != nil {
			return st, err
		}
		for k, t := range []float64{ta, ta2} {
			if err := checkVisThreshold(fmt.Sprintf("VisvalingamThreshold(%v) model on %s", t, tag), in, vOut[k], seq, es, t, dm); err != nil {
				return st, err
			}
		}
	}
	return st, nil
}

// ---------------------------------------------------------------- exact ties in long inputs (M5)

// tiesLine: a long run at A, 2..5 feature vertices of EQUAL height (so that
// two or more are at bitwise-equal distance from the chord A-B; mirror pairs
// when the count is even), a long run at B. Runs are repeated vertices
// (variant 0) or distinct collinear vertices on the chord (variant 1). All
// coordinates are small integers or dyadic fractions: the tie is exact under
// any evaluation order.
func tiesLine(n, variant int) []orb.Point {
	nf := 2 + (n+variant)%4
	left := (n - nf) / 4
	if left < 1 {
		left = 1
	}
	right := n - nf - left
	ps := make([]orb.Point, 0, n)
	for i := 0; i < left; i++ {
		if variant%2 == 0 {
			ps = append(ps, orb.Point{0, 0})
		} else {
			ps = append(ps, orb.Point{float64(i) / 1024 / float64(1+left/1024), 0})
		}
	}
	if variant%2 == 1 {
		ps[0] = orb.Point{0, 0}
	}
	xs := [][]float64{{10, 40}, {10, 40, 70}, {10, 40, 60, 90}, {10, 30, 50, 70, 90}}[nf-2]
	for _, x := range xs {
		ps = append(ps, orb.Point{x, 10})
	}
	for i := 0; i < right; i++ {
		if variant%2 == 0 {
			ps = append(ps, orb.Point{100, 0})
		} else {
			ps = append(ps, orb.Point{100 + float64(i)/1024/float64(1+right/1024), 0})
		}
	}
	return ps
}

// ownDP is the harness's own Douglas-Peucker (explicit stack, own distance,
// FIRST farthest vertex on ties - the rule of the unchanged tree). ok is false
// when some decision was borderline (a near tie that is not exact, or a maximum
// within 1e-9 of the threshold): then the result is not compared.
func ownDP(in []orb.Point, t float64) (kept []orb.Point, ok bool) {
	n := len(in)
	if n <= 2 {
		return clonePts(in), true
	}
	mask := make([]bool, n)
	mask[0], mask[n-1] = true, true
	ok = true
	stack := [][2]int{{0, n - 1}}
	for len(stack) > 0 {
		lo, hi := stack[len(stack)-1][0], stack[len(stack)-1][1]
		stack = stack[:len(stack)-1]
		M, arg := 0.0, -1
		for i := lo + 1; i < hi; i++ {
			d := segDist(in[lo], in[hi], in[i])
			if d > M {
				if M > 0 && d <= M*(1+relTol) {
					ok = false // near tie, not exact
				}
				M, arg = d, i
			} else if d != M && d >= M*(1-relTol) && M > 0 {
				ok = false
			}
		}
		if math.Abs(M-t) <= relTol*(M+t) && M != t {
			ok = false
		}
		if arg >= 0 && M > t {
			mask[arg] = true
			stack = append(stack, [2]int{lo, arg}, [2]int{arg, hi})
		}
	}
	for i, m := range mask {
		if m {
			kept = append(kept, in[i])
		}
	}
	return kept, ok
}

func checkLargeTies(c LargeCase) error {
	in := tiesLine(c.N, c.TSel)
	ring := c.Ring
	n := len(in)
	tag := fmt.Sprintf("ties n=%d variant=%d", n, c.TSel)
	ts := [][2]float64{{4, 9.5}, {2, 4}, {0.5, 9.5}, {4, 12}}[c.TSel%4]
	var dpOut [2][]orb.Point
	for k, t := range ts {
		what := fmt.Sprintf("DouglasPeucker(%v) on %s", t, tag)
		out, err := applyGuarded(simplify.DouglasPeucker(t), in, ring)
		if err != nil {
			return fmt.Errorf("%s: %v", what, err)
		}
		out = clonePts(out)
		if err := checkBasic(what, in, out); err != nil {
			return err
		}
		if err := checkDPBound(what, in, out, t); err != nil {
			return err
		}
		if again := apply(simplify.DouglasPeucker(t), out, ring); !sameSeq(again, out) {
			return fmt.Errorf("%s is not idempotent: once=%v twice=%v", what, short(out), short(again))
		}
		if want, ok := ownDP(in, t); ok && !sameSeq(out, want) {
			// the statement does not fix the tie rule: counted, never a failure
			stats.Class("note:DP picked another tied vertex than the first")
		}
		dpOut[k] = out
	}
	if !isSubseq(dpOut[1], dpOut[0]) {
		return fmt.Errorf("DouglasPeucker on %s not monotone: threshold %v keeps a vertex that %v dropped: %v vs %v", tag, ts[1], ts[0], short(dpOut[0]), short(dpOut[1]))
	}
	// radial: the greedy model (exact)
	for _, tr := range []float64{0, 29.5, 30} {
		what := fmt.Sprintf("Radial(planar,%v) on %s", tr, tag)
		out := apply(simplify.Radial(distFunc("planar"), tr), in, ring)
		if err := checkBasic(what, in, out); err != nil {
			return err
		}
		if want := radialModel(in, ownPlanar, tr); !sameSeq(out, want) {
			return fmt.Errorf("%s: kept %v, the greedy scan keeps %v", what, short(out), short(want))
		}
	}
	// Visvalingam: the feature triangles have equal areas (exact ties in the heap)
	dm := defaultMin(ring, in)
	var vOut [2][]orb.Point
	for k, t := range []float64{50, 400} {
		what := fmt.Sprintf("VisvalingamThreshold(%v) on %s", t, tag)
		out := clonePts(apply(simplify.VisvalingamThreshold(t), in, ring))
		if err := checkBasic(what, in, out); err != nil {
			return err
		}
		if len(out) < minInt(n, dm) {
			return fmt.Errorf("%s: %d vertices left, minimum is %d", what, len(out), dm)
		}
		if len(out) > dm {
			for i := 1; i+1 < len(out); i++ {
				if a := dblArea(out[i-1], out[i], out[i+1]); a < 2*t {
					return fmt.Errorf("%s: stopped with %d vertices although output vertex %d = %v spans a triangle of doubled area %v, below the threshold", what, len(out), i, out[i], a)
				}
			}
		}
		if len(out) >= 2 && len(out) < n {
			if kk := apply(simplify.VisvalingamKeep(len(out)), in, ring); !sameSeq(kk, out) {
				return fmt.Errorf("%s: the result %v differs from VisvalingamKeep(%d) = %v", what, short(out), len(out), short(kk))
			}
		}
		vOut[k] = out
	}
	if !isSubseq(vOut[1], vOut[0]) {
		return fmt.Errorf("VisvalingamThreshold on %s not monotone: %v vs %v", tag, short(vOut[0]), short(vOut[1]))
	}
	for _, k := range []int{2, 3, 4, 5, n / 2, n - 1} {
		if out := apply(simplify.VisvalingamKeep(k), in, ring); len(out) != minInt(n, k) || checkBasic("VisvalingamKeep", in, out) != nil {
			return fmt.Errorf("VisvalingamKeep(%d) on %s: %d vertices left, want exactly %d, first/last kept, subsequence", k, tag, len(out), minInt(n, k))
		}
	}
	return nil
}

// ---------------------------------------------------------------- member dimensions

func smallLine(i int, closed bool) []orb.Point {
	o := float64(i % 1000)
	ps := []orb.Point{{o, 0}, {o + 1, float64(1 + i%3)}, {o + 2, 0}, {o + 3, float64(2 + i%2)}, {o + 4, 0}, {o + 5, float64(i % 4)}}
	ps = ps[:3+i%4]
	if closed {
		ps = append(ps, ps[0])
	}
	return ps
}

func bigMember(closed bool) []orb.Point {
	ps, _ := shapeLine("zigzag", 1537)
	if closed {
		ps = append(ps, ps[0])
	}
	return ps
}

func (c LargeCase) geometry() orb.Geometry {
	bigPos := -1
	switch c.BigAt {
	case "first":
		bigPos = 0
	case "middle":
		bigPos = c.N / 2
	case "last":
		bigPos = c.N - 1
	}
	line := func(i int, closed bool) []orb.Point {
		if i == bigPos {
			return bigMember(closed)
		}
		return smallLine(i, closed)
	}
	switch c.Dim {
	case "lines":
		m := make(orb.MultiLineString, c.N)
		for i := range m {
			m[i] = line(i, false)
		}
		return m
	case "rings":
		p := make(orb.Polygon, c.N)
		for i := range p {
			p[i] = line(i, i%5 != 4) // every fifth ring is open
		}
		return p
	case "polygons":
		m := make(orb.MultiPolygon, c.N)
		for i := range m {
			m[i] = orb.Polygon{line(i, i%5 != 4)}
			if i%7 == 3 {
				m[i] = append(m[i], smallLine(i+1, true))
			}
		}
		return m
	case "members":
		col := make(orb.Collection, c.N)
		for i := range col {
			switch i % 5 {
			case 0:
				col[i] = orb.LineString(line(i, false))
			case 1:
				col[i] = orb.Ring(line(i, true))
			case 2:
				col[i] = orb.Polygon{line(i, true), smallLine(i+2, false)}
			case 3:
				col[i] = orb.Point{float64(i), 1}
			default:
				col[i] = orb.MultiLineString{line(i, false), smallLine(i+1, false)}
			}
		}
		return col
	case "depth":
		var g orb.Geometry = orb.LineString(smallLine(7, false))
		for d := 0; d < c.N; d++ {
			if d%2 == 0 {
				g = orb.Collection{g}
			} else {
				g = orb.Collection{orb.Point{float64(d), 0}, g}
			}
		}
		return g
	}
	return nil
}

func (c LargeCase) spec() Spec {
	switch c.TSel % 5 {
	case 0:
		return Spec{Algo: "dp", T: 1.5}
	case 1:
		return Spec{Algo: "radial", T: 2.5, DF: "planar"}
	case 2:
		return Spec{Algo: "visthr", T: 1e9}
	case 3:
		return Spec{Algo: "viskeep", Keep: 2}
	}
	return Spec{Algo: "vis", T: 1.5, Keep: 3}
}

func checkLargeGeom(c LargeCase) error {
	sp := c.spec()
	name := fmt.Sprintf("%s on %d %s", sp.String(), c.N, c.Dim)
	if c.Dim == "features" {
		l := &mvt.Layer{Name: "l", Version: 2, Extent: 4096}
		var want []orb.Geometry
		var ids []int
		for i := 0; i < c.N; i++ {
			var g orb.Geometry
			switch i % 4 {
			case 0:
				g = orb.LineString(smallLine(i, false))
			case 1:
				g = orb.Polygon{smallLine(i, true)}
			case 2:
				g = orb.LineString{} // simplifies to nil: the feature is dropped
			default:
				g = orb.Point{float64(i), 2}
			}
			f := geojson.NewFeature(gen.DeepCopy(g))
			f.ID = i
			l.Features = append(l.Features, f)
			if e := modelGeom(sp.make, g, false); e != nil {
				want = append(want, e)
				ids = append(ids, i)
			}
		}
		mvt.Layers{l}.Simplify(sp.make())
		if len(l.Features) != len(want) {
			return fmt.Errorf("mvt.Layers.Simplify(%s): %d features left, want %d", name, len(l.Features), len(want))
		}
		for k, f := range l.Features {
			if id, _ := f.ID.(int); id != ids[k] {
				return fmt.Errorf("mvt.Layers.Simplify(%s): feature %d has id %v, want %d", name, k, f.ID, ids[k])
			}
			if same, diff := gen.SameBits(norm(f.Geometry), norm(want[k])); !same {
				return fmt.Errorf("mvt.Layers.Simplify(%s): feature %d (id %d) differs from the per-line composition (%s)", name, k, ids[k], diff)
			}
		}
		return nil
	}
	g := c.geometry()
	s := sp.make()
	got := s.Simplify(gen.DeepCopy(g))
	if err := checkGenericMin(sp, g, got); err != nil {
		return err
	}
	okA, diff := gen.SameBits(norm(got), norm(modelGeom(sp.make, g, false)))
	if !okA {
		if len(diff) > 300 {
			diff = diff[:300] + "…"
		}
		return fmt.Errorf("%s.Simplify: result differs from the per-line results composed with the dropping rules (%s)", name, diff)
	}
	if tg, ok := typed(sp.make(), g); ok {
		if same, d := gen.SameBits(got, tg); !same {
			if len(d) > 300 {
				d = d[:300] + "…"
			}
			return fmt.Errorf("%s: Simplify and the typed method disagree (%s)", name, d)
		}
	}
	return checkFields(sp, s)
}

func checkLarge(c LargeCase) (dpStats, error) {
	if c.Dim == "ties" {
		return dpStats{}, checkLargeTies(c)
	}
	if c.Dim == "vertices" {
		return checkLargeLine(c)
	}
	return dpStats{}, checkLargeGeom(c)
}

// ladder returns {L-2 .. L+3, 1.5L+1 : L = 2^k (k >= 6), 10^k (k >= 2)} up to max,
// plus the small sizes 3..40 (a limit shows only a few elements past it).
func ladder(max int) []int {
	seen := map[int]bool{}
	var out []int
	add := func(v int) {
		if v >= 3 && v <= max && !seen[v] {
			seen[v] = true
			out = append(out, v)
		}
	}
	for v := 3; v <= 40; v++ {
		add(v)
	}
	for k := 6; k <= 24; k++ {
		for d := -2; d <= 3; d++ {
			add(1<<uint(k) + d)
		}
		add(1<<uint(k) + 1<<uint(k-1) + 1)
	}
	for p := 100; p <= 10000000; p *= 10 {
		for d := -2; d <= 3; d++ {
			add(p + d)
		}
		add(p + p/2 + 1)
	}
	return out
}

// shapeTop: how far up the vertex ladder a shape goes (quick, thorough), by
// the measured cost of one case (all three simplifiers, two thresholds, the
// Douglas-Peucker model): quadratic for shapes whose split tree is one-sided
// (the library itself is O(n x depth) there), ~n^1.5 for spirals/lattices,
// n log n for runs and densified rings.
func shapeTop(s string) (int, int) {
	switch s {
	case "zigzag", "zigzag-down", "comb", "clusters":
		return 2051, 6147
	case "spiral":
		return 8195, 16387
	case "lattice", "sawtooth", "runs": // runs: depth ~ n/50
		return 16387, 65539
	}
	return 1<<17 + 3, 1<<19 + 3
}

var largeShapes = []string{"zigzag", "zigzag-down", "comb", "sawtooth", "spiral", "runs", "ring", "clusters", "lattice"}

// TestEnumLarge walks the ladder. Tops (one case stays under ~1-2 s CPU), quick / thorough:
// vertices 2^17+3 / 2^19+3 for densified rings, 16387 / 65539 for lattice, sawtooth and collinear runs,
// 8195 / 16387 for the spiral, 2051 / 6147 for the one-sided shapes (zigzags, comb, clusters at threshold 0), because
// Douglas-Peucker itself is quadratic there (see shapeTop); the Visvalingam removal-order model
// (n keep-k runs) up to 1027 / 2051; members per multi-geometry or collection and features per
// layer 2^17+3 / 2^19+3; nesting depth 2^16+3 / 2^18+3.
func TestEnumLarge(t *testing.T) {
	assumptions()
	th := stats.Thorough()
	pick := func(quick, thorough int) int {
		if th {
			return thorough
		}
		return quick
	}
	var idx, size int64
	depth := map[string]dpStats{}
	run := func(c LargeCase) {
		idx++
		size++
		if !stats.Mine(idx) {
			return
		}
		stats.Eval("TestEnumLarge", 1)
		stats.Class("large dim:" + c.Dim)
		var st dpStats
		stats.TryT(t, "TestEnumLarge", c, func() error {
			var err error
			st, err = checkLarge(c)
			return err
		})
		if c.Dim == "vertices" {
			if st.maxPending > depth[c.Shape].maxPending {
				st.spans = c.N
				depth[c.Shape] = st
			}
		}
		stats.NonTrivial("large:" + gen.JSON(c))
	}
	// quick runs every third (rung, shape) and (rung, dimension) pair, rotating, so that each
	// neighbourhood L-2..L+3 still sees every shape and every dimension; thorough runs all pairs
	for pos, n := range ladder(pick(1<<17+3, 1<<19+3)) {
		for si, shape := range largeShapes {
			if q, tt := shapeTop(shape); n > pick(q, tt) {
				continue
			}
			if !th && n > 40 && (pos+si)%3 != 0 {
				continue
			}
			// threshold 0 (the deepest split tree) in half of the cases
			c := LargeCase{Dim: "vertices", Shape: shape, N: n, Ring: (n+si)%2 == 0, TSel: []int{0, 1, 0, 2, 0, 3}[(pos+si)%6]}
			c.Model = n <= pick(1027, 2051) && (shape == "sawtooth" || shape == "lattice" || shape == "zigzag" || shape == "spiral") && (pos+si)%2 == 0
			run(c)
		}
	}
	for pos, n := range ladder(pick(1<<17+3, 1<<19+3)) {
		for di, dim := range []string{"lines", "rings", "polygons", "members", "features"} {
			if !th && n > 40 && (pos+di)%3 != 0 {
				continue
			}
			c := LargeCase{Dim: dim, N: n, TSel: n + di}
			if dim != "features" {
				c.BigAt = []string{"", "first", "middle", "last"}[(n+di)%4]
			}
			run(c)
		}
	}
	// M5: exact ties for the farthest vertex / smallest area inside long inputs
	for _, n := range []int{10, 37, 1021, 2050, 4094, 4095, 4096, 4097, 4098, 4099, 6145, 8193, 10001, 16387, 32771, 65539} {
		for v := 0; v < 4; v++ {
			run(LargeCase{Dim: "ties", N: n, TSel: v, Ring: (n+v)%3 == 0})
		}
	}
	for pos, n := range ladder(pick(1<<16+3, 1<<18+3)) {
		if !th && n > 40 && pos%2 != 0 {
			continue
		}
		run(LargeCase{Dim: "depth", N: n, TSel: n})
	}
	for shape, st := range depth {
		stats.Note("Douglas-Peucker split tree, "+shape, fmt.Sprintf("up to %d ranges pending at once (n=%d)", st.maxPending, st.spans))
	}
	stats.Subspace("size ladder {L-2..L+3, 1.5L+1 : L=2^k,10^k} x 8 structured shapes (vertices) and x {lines, rings, polygons, members, features, depth}", size, true)
}

// TestPropLarge: random sizes between the rungs (rare large class of the random search).
func TestPropLarge(t *testing.T) {
	assumptions()
	stats.Check(t, 200, 20000, func(rt *rapid.T) {
		if rapid.IntRange(0, 4).Draw(rt, "ties") == 2 {
			c := LargeCase{Dim: "ties", N: rapid.IntRange(8, 20000).Draw(rt, "n"), TSel: rapid.IntRange(0, 3).Draw(rt, "variant"), Ring: rapid.Bool().Draw(rt, "ring")}
			stats.Class("large random:ties")
			stats.Try(rt, "TestPropLarge", c, func() error {
				_, err := checkLarge(c)
				if err == nil {
					stats.NonTrivial("large:" + gen.JSON(c))
				}
				return err
			})
			return
		}
		c := LargeCase{Dim: "vertices"}
		c.Shape = rapid.SampledFrom(largeShapes).Draw(rt, "shape")
		top, _ := shapeTop(c.Shape)
		if top > 6000 {
			top = 6000
		}
		c.N = rapid.IntRange(3, top).Draw(rt, "n")
		c.Ring = rapid.Bool().Draw(rt, "ring")
		c.TSel = rapid.IntRange(0, 3).Draw(rt, "tsel")
		c.Model = c.N <= 300 && rapid.Bool().Draw(rt, "model")
		stats.Class("large random:" + c.Shape)
		stats.Try(rt, "TestPropLarge", c, func() error {
			_, err := checkLarge(c)
			if err == nil {
				stats.NonTrivial("large:" + gen.JSON(c))
			}
			return err
		})
	})
}
