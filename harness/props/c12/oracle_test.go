package c12

// Oracles for C12. Nothing here calls the simplifier it judges except to obtain
// the output under judgement; distances and triangle areas are computed by this
// file's own formulas (translation invariant, float64) and compared under the
// tolerances stated next to each comparison.

import (
	"fmt"
	"math"

	"github.com/paulmach/orb"
)

// relTol is the relative tolerance of every float comparison in this package
// (DESIGN §3.2: 1e-9 x (|value| + scale of the inputs)).
const relTol = 1e-9

func bitsEq(a, b orb.Point) bool {
	return math.Float64bits(a[0]) == math.Float64bits(b[0]) && math.Float64bits(a[1]) == math.Float64bits(b[1])
}

func sameSeq(a, b []orb.Point) bool {
	if len(a) != len(b) {
		return false
	}
	for i := range a {
		if !bitsEq(a[i], b[i]) {
			return false
		}
	}
	return true
}

func clonePts(ps []orb.Point) []orb.Point {
	if ps == nil {
		return nil
	}
	out := make([]orb.Point, len(ps))
	copy(out, ps)
	return out
}

// isSubseq: sub embeds into seq in order (greedy, bit equality).
func isSubseq(sub, seq []orb.Point) bool {
	j := 0
	for _, p := range sub {
		for j < len(seq) && !bitsEq(seq[j], p) {
			j++
		}
		if j == len(seq) {
			return false
		}
		j++
	}
	return true
}

func short(ps []orb.Point) string {
	if len(ps) <= 12 {
		return fmt.Sprint(ps)
	}
	return fmt.Sprintf("%v…(%d vertices)", ps[:12], len(ps))
}

// checkBasic: the clauses common to all simplifiers. out must be in[0], then a
// subsequence of the interior of in, then in[n-1] (so a closed input stays
// closed); inputs of <= 2 vertices come back unchanged.
func checkBasic(what string, in, out []orb.Point) error {
	n, m := len(in), len(out)
	if n <= 2 {
		if !sameSeq(in, out) {
			return fmt.Errorf("%s: input of %d vertices not returned unchanged: in=%v out=%v", what, n, in, short(out))
		}
		return nil
	}
	if m < 2 {
		return fmt.Errorf("%s: %d-vertex input reduced to %d vertices (first and last must both stay): in=%v out=%v", what, n, m, short(in), out)
	}
	if !bitsEq(out[0], in[0]) {
		return fmt.Errorf("%s: first vertex %v not kept (out[0]=%v)", what, in[0], out[0])
	}
	if !bitsEq(out[m-1], in[n-1]) {
		return fmt.Errorf("%s: last vertex %v not kept (out[last]=%v) in=%v out=%v", what, in[n-1], out[m-1], short(in), short(out))
	}
	j := 1
	for k := 1; k < m-1; k++ {
		for j < n-1 && !bitsEq(in[j], out[k]) {
			j++
		}
		if j >= n-1 {
			return fmt.Errorf("%s: output is not a subsequence of the input (output vertex %d = %v has no match in order): in=%v out=%v", what, k, out[k], short(in), short(out))
		}
		j++
	}
	if bitsEq(in[0], in[n-1]) && !bitsEq(out[0], out[m-1]) {
		return fmt.Errorf("%s: closed input became open", what)
	}
	return nil
}

// ---------------------------------------------------------------- geometry helpers

// segDist is the distance from p to segment [a,b]: cross product over length
// where the projection falls inside the segment, end point distance otherwise.
// (Different formula from planar.DistanceFromSegmentSquared, which projects.)
func segDist(a, b, p orb.Point) float64 {
	sx, sy := b[0]-a[0], b[1]-a[1]
	dx, dy := p[0]-a[0], p[1]-a[1]
	l2 := sx*sx + sy*sy
	if l2 == 0 {
		return math.Hypot(dx, dy)
	}
	u := dx*sx + dy*sy
	if u <= 0 {
		return math.Hypot(dx, dy)
	}
	if u >= l2 {
		return math.Hypot(p[0]-b[0], p[1]-b[1])
	}
	return math.Abs(sx*dy-sy*dx) / math.Sqrt(l2)
}

func polyDist(ls []orb.Point, p orb.Point) float64 {
	if len(ls) == 1 {
		return math.Hypot(ls[0][0]-p[0], ls[0][1]-p[1])
	}
	d := math.Inf(1)
	for i := 0; i+1 < len(ls); i++ {
		if s := segDist(ls[i], ls[i+1], p); s < d {
			d = s
		}
	}
	return d
}

// dblArea is twice the area of triangle a,b,c, centred on b (the code under
// test centres on a).
func dblArea(a, b, c orb.Point) float64 {
	return math.Abs((a[0]-b[0])*(c[1]-b[1]) - (a[1]-b[1])*(c[0]-b[0]))
}

// scaleOf is max |coordinate|; diamOf is the diagonal of the bounding box.
func scaleOf(ps []orb.Point) float64 {
	s := 0.0
	for _, p := range ps {
		s = math.Max(s, math.Max(math.Abs(p[0]), math.Abs(p[1])))
	}
	return s
}

func diamOf(ps []orb.Point) float64 {
	if len(ps) == 0 {
		return 0
	}
	mnx, mxx, mny, mxy := ps[0][0], ps[0][0], ps[0][1], ps[0][1]
	for _, p := range ps {
		mnx, mxx = math.Min(mnx, p[0]), math.Max(mxx, p[0])
		mny, mxy = math.Min(mny, p[1]), math.Max(mxy, p[1])
	}
	return math.Hypot(mxx-mnx, mxy-mny)
}

// distTol is the slack of distance comparisons, RELATIVE to the case (the
// simplifiers have no unit of length): 1e-9 x extent (bounding-box diagonal)
// + 32 x eps x max |coordinate|. The second term is the float64 rounding of
// the projection point that planar.DistanceFromSegmentSquared constructs (a
// few ulps of the coordinate magnitude); it matters only when the vertices
// differ in their last digits (mercator metres, offset "large" shapes).
func distTol(in []orb.Point) float64 {
	const eps = 1.0 / (1 << 52)
	return relTol*diamOf(in) + 32*eps*scaleOf(in) + underflowDist
}

// Below these magnitudes the squared distances / coordinate products that the
// simplifiers compare are subnormal or zero in float64 (sqrt of the smallest
// normal number is 1.5e-154): such distances and areas are treated as zero.
// This is the small-magnitude counterpart of the overflow bound |v| <= 1e100,
// 130 orders of magnitude below the 2^-60 rescaling of unit-sized inputs.
const (
	underflowDist = 1e-150
	underflowArea = 1e-300
)

// areaTol is the absolute slack of (doubled) area comparisons: 1e-9 x diameter^2.
func areaTol(in []orb.Point) float64 { d := diamOf(in); return relTol*d*d + underflowArea }

// exactLattice (L6): all coordinates are integers |v| <= 2^20; doubled triangle
// areas are then integers below 2^43 that float64 evaluates exactly under any
// evaluation order, so the Visvalingam oracles use no tolerance at all there
// (only an effective area exactly EQUAL to the threshold may go either way: the
// documentation says "smaller than", the code removes "not larger than").
func exactLattice(in []orb.Point) bool {
	for _, p := range in {
		if !isSmallInt(p[0]) || !isSmallInt(p[1]) {
			return false
		}
	}
	return true
}

// areaSlack returns the relative and absolute slack of area comparisons.
func areaSlack(in []orb.Point) (float64, float64) {
	if exactLattice(in) {
		return 0, 0
	}
	return relTol, areaTol(in)
}

// distinctVertices: in[0..n-2] pairwise different, and in[n-1] either equal to
// in[0] (closed) or different from all. Then every output vertex identifies
// its input index and the reference models below apply.
func distinctVertices(in []orb.Point) bool {
	n := len(in)
	seen := make(map[[2]uint64]bool, n)
	for i := 0; i < n-1; i++ {
		k := [2]uint64{math.Float64bits(in[i][0]), math.Float64bits(in[i][1])}
		if seen[k] {
			return false
		}
		seen[k] = true
	}
	if n >= 2 && !bitsEq(in[0], in[n-1]) {
		k := [2]uint64{math.Float64bits(in[n-1][0]), math.Float64bits(in[n-1][1])}
		if seen[k] {
			return false
		}
	}
	return true
}

// indicesOf maps an output that passed checkBasic back to input indices
// (requires distinctVertices(in)).
func indicesOf(in, out []orb.Point) []int {
	n := len(in)
	idx := make(map[[2]uint64]int, n)
	for i := 1; i < n-1; i++ {
		idx[[2]uint64{math.Float64bits(in[i][0]), math.Float64bits(in[i][1])}] = i
	}
	res := make([]int, len(out))
	for k, p := range out {
		switch k {
		case 0:
			res[k] = 0
		case len(out) - 1:
			res[k] = n - 1
		default:
			res[k] = idx[[2]uint64{math.Float64bits(p[0]), math.Float64bits(p[1])}]
		}
	}
	return res
}

// ---------------------------------------------------------------- Douglas-Peucker

// checkDPBound: every input vertex is within t x (1+1e-9) + distTol of the
// output polyline.
func checkDPBound(what string, in, out []orb.Point, t float64) error {
	if len(out) == 0 || math.IsInf(t, 1) {
		return nil
	}
	allow := t*(1+relTol) + distTol(in)
	if math.IsInf(allow, 1) {
		return nil
	}
	for i, p := range in {
		if d := polyDist(out, p); d > allow {
			return fmt.Errorf("%s: input vertex %d = %v is %v away from the simplified line, threshold %v: in=%v out=%v", what, i, p, d, t, short(in), short(out))
		}
	}
	return nil
}

// checkDPModel (distinct vertices only): the kept set must be one the
// Douglas-Peucker recursion can produce. For a span (lo,hi) with exact maximum
// distance M from segment in[lo]in[hi]: nothing kept inside requires
// M <= t(1+1e-9)+tol; something kept inside requires M >= t(1-1e-9)-tol and
// one of the kept vertices must be a farthest one (distance >= M(1-1e-9)-tol),
// at which the span splits. Ties and borderline distances are accepted either way.
func checkDPModel(what string, in []orb.Point, kept []int, t float64) error {
	_, err := checkDPModelStats(what, in, kept, t)
	return err
}

// checkDPModelStats runs the iterative model; when it fails although a span
// had several tied candidates for the split vertex (the iterative walk tries
// only the first), the verdict is left to the recursive search over all
// candidates, so that a tie can never cause a false alarm.
func checkDPModelStats(what string, in []orb.Point, kept []int, t float64) (dpStats, error) {
	st, err := checkDPModelIter(what, in, kept, t)
	if err != nil && st.ties > 0 {
		err = checkDPModelRec(what, in, 0, len(in)-1, kept[1:len(kept)-1], t, distTol(in))
	}
	return st, err
}

// dpStats reports how deep the split tree of a case is (instrumentation of
// the model: the number of ranges pending at the same time, which is what an
// explicit-stack implementation has to hold, and the number of spans visited).
type dpStats struct {
	maxPending int
	spans      int
	ties       int
}

func isSmallInt(v float64) bool { return v == math.Trunc(v) && math.Abs(v) <= 1<<20 }

// spanExact (L6): on an axis-aligned (or zero-length) chord whose span holds
// only integer coordinates |v| <= 2^20 every squared distance is an integer
// that float64 evaluates exactly under any evaluation order (a vertex on the
// chord itself may come out as ~1e-32 instead of 0), so for thresholds whose
// square is exact (float32-representable, >= 2^-20 or 0) the split decision
// does not depend on rounding: the model then demands the exact answer, also
// at equality (maxDist == t^2 must NOT split). It returns the exact squared
// distances' maximum and a function giving the exact squared distance.
func spanExact(in []orb.Point, lo, hi int, t float64) (bool, func(i int) float64) {
	a, b := in[lo], in[hi]
	if a[0] != b[0] && a[1] != b[1] {
		return false, nil
	}
	if !(t == 0 || (t >= 1.0/(1<<20) && t <= 1<<20 && t == float64(float32(t)))) {
		return false, nil
	}
	for i := lo; i <= hi; i++ {
		if !isSmallInt(in[i][0]) || !isSmallInt(in[i][1]) {
			return false, nil
		}
	}
	ax := 0 // axis along the chord
	if a[0] == b[0] {
		ax = 1
	}
	mn, mx := math.Min(a[ax], b[ax]), math.Max(a[ax], b[ax])
	return true, func(i int) float64 {
		p := in[i]
		off := p[1-ax] - a[1-ax]
		switch {
		case p[ax] < mn:
			return (p[ax]-mn)*(p[ax]-mn) + off*off
		case p[ax] > mx:
			return (p[ax]-mx)*(p[ax]-mx) + off*off
		}
		return off * off
	}
}

// checkDPModelIter is iterative (explicit stack, the order of the reference
// algorithm: the right part of a split is handled first while the left part
// waits), so that split trees tens of thousands of levels deep are judged
// without recursion. Only a span in which several kept vertices tie for the
// farthest one falls back to the recursive search over the candidates.
func checkDPModelIter(what string, in []orb.Point, kept []int, t float64) (dpStats, error) {
	var st dpStats
	tol := distTol(in)
	type frame struct{ lo, hi, klo, khi int } // kept[klo:khi] lie strictly inside (lo,hi)
	stack := []frame{{0, len(in) - 1, 1, len(kept) - 1}}
	for len(stack) > 0 {
		if len(stack) > st.maxPending {
			st.maxPending = len(stack)
		}
		f := stack[len(stack)-1]
		stack = stack[:len(stack)-1]
		lo, hi := f.lo, f.hi
		K := kept[f.klo:f.khi]
		if hi-lo < 2 {
			continue
		}
		st.spans++
		exact, d2 := spanExact(in, lo, hi, t)
		dist := func(i int) float64 {
			if exact {
				return math.Sqrt(d2(i))
			}
			return segDist(in[lo], in[hi], in[i])
		}
		M, arg := 0.0, -1
		for i := lo + 1; i < hi; i++ {
			if d := dist(i); d > M {
				M, arg = d, i
			}
		}
		mustSplit, mustNot := M > t*(1+relTol)+tol, M < t*(1-relTol)-tol || math.IsInf(t, 1)
		if exact {
			m2 := 0.0
			for i := lo + 1; i < hi; i++ {
				m2 = math.Max(m2, d2(i))
			}
			mustSplit = m2 > t*t
			mustNot = m2 <= t*t && t > 0
		}
		if len(K) == 0 {
			if mustSplit {
				return st, fmt.Errorf("%s: vertices %d..%d all dropped although vertex %d is %v from segment %d-%d, threshold %v (exact arithmetic: %v)", what, lo+1, hi-1, arg, M, lo, hi, t, exact)
			}
			continue
		}
		if mustNot {
			return st, fmt.Errorf("%s: vertex %d kept between %d and %d although no vertex there is farther than the threshold %v from segment %d-%d (max %v; exact arithmetic: %v)", what, K[0], lo, hi, t, lo, hi, M, exact)
		}
		cand, ncand := -1, 0
		for pos, k := range K {
			d := dist(k)
			if (exact && d == M) || (!exact && d >= M*(1-relTol)-tol) {
				if ncand == 0 {
					cand = pos
				}
				ncand++
			}
		}
		if ncand == 0 {
			return st, fmt.Errorf("%s: span %d-%d was split at %v but the farthest vertex %d (distance %v) was dropped", what, lo, hi, short2(K), arg, M)
		}
		if ncand > 1 {
			st.ties++ // several kept vertices tie for the farthest: the first is tried, see the caller
		}
		k := K[cand]
		stack = append(stack, frame{lo, k, f.klo, f.klo + cand}, frame{k, hi, f.klo + cand + 1, f.khi})
	}
	return st, nil
}

func short2(k []int) string {
	if len(k) <= 12 {
		return fmt.Sprint(k)
	}
	return fmt.Sprintf("%v…(%d indices)", k[:12], len(k))
}

// checkDPModelRec: the recursive search used only below a span with tied
// farthest vertices (any of them is a valid split).
func checkDPModelRec(what string, in []orb.Point, lo0, hi0 int, K0 []int, t, tol float64) error {
	var verify func(lo, hi int, K []int) error
	verify = func(lo, hi int, K []int) error {
		if hi-lo < 2 {
			return nil
		}
		M, arg := 0.0, -1
		for i := lo + 1; i < hi; i++ {
			if d := segDist(in[lo], in[hi], in[i]); d > M {
				M, arg = d, i
			}
		}
		if len(K) == 0 {
			if M > t*(1+relTol)+tol {
				return fmt.Errorf("%s: vertices %d..%d all dropped although vertex %d is %v from segment %d-%d, threshold %v", what, lo+1, hi-1, arg, M, lo, hi, t)
			}
			return nil
		}
		if M < t*(1-relTol)-tol || math.IsInf(t, 1) {
			return fmt.Errorf("%s: vertex %d kept between %d and %d although no vertex there is farther than the threshold %v from segment %d-%d (max %v)", what, K[0], lo, hi, t, lo, hi, M)
		}
		var last error
		tried := false
		for pos, k := range K {
			if segDist(in[lo], in[hi], in[k]) < M*(1-relTol)-tol {
				continue
			}
			tried = true
			if err := verify(lo, k, K[:pos]); err != nil {
				last = err
				continue
			}
			if err := verify(k, hi, K[pos+1:]); err != nil {
				last = err
				continue
			}
			return nil
		}
		if !tried {
			return fmt.Errorf("%s: span %d-%d was split at %v but the farthest vertex %d (distance %v) was dropped", what, lo, hi, short2(K), arg, M)
		}
		return last
	}
	return verify(lo0, hi0, K0)
}

// ---------------------------------------------------------------- distance functions

// ownDistance is the harness's own statement of the library metrics that are
// handed to the radial simplifier (the property is parametric in the distance
// function, so the radial oracle necessarily evaluates the same function; what
// that function returns is judged here, so that a change inside planar/ or
// geo/ cannot move the oracle with it).
func ownDistance(name string, a, b orb.Point) float64 {
	switch name {
	case "geo":
		const r = 6378137.0 // metres, the value orb documents as EarthRadius
		rad := func(d float64) float64 { return d * math.Pi / 180 }
		dlat := rad(a[1] - b[1])
		dlon := math.Abs(rad(a[0] - b[0]))
		if dlon > math.Pi {
			dlon = 2*math.Pi - dlon
		}
		x := dlon * math.Cos(rad((a[1]+b[1])/2))
		return math.Sqrt(dlat*dlat+x*x) * r
	case "manhattan":
		return math.Abs(a[0]-b[0]) + math.Abs(a[1]-b[1])
	}
	dx, dy := a[0]-b[0], a[1]-b[1]
	return math.Sqrt(dx*dx + dy*dy)
}

// checkedDF wraps the library distance function: every value the oracle uses
// must agree with ownDistance within 1e-12 relative (or both below the
// underflow floor); the first disagreement is stored in *bad.
func checkedDF(name string, lib orb.DistanceFunc, bad *error) orb.DistanceFunc {
	own := name
	if name == "planar-reentrant" || name == "planar-method" {
		own = "planar"
	}
	return func(a, b orb.Point) float64 {
		v := lib(a, b)
		w := ownDistance(own, a, b)
		if *bad == nil && !(math.Abs(v-w) <= 1e-12*math.Max(math.Abs(v), math.Abs(w)) || (math.Abs(v) < underflowDist && math.Abs(w) < underflowDist)) {
			*bad = fmt.Errorf("distance function %s: %v -> %v measures %v, the harness's own formula gives %v", name, a, b, v, w)
		}
		return v
	}
}

// ---------------------------------------------------------------- radial

// radialModel is the greedy scan: keep a vertex when it is farther than t from
// the last kept vertex; always keep the last vertex.
func radialModel(in []orb.Point, df orb.DistanceFunc, t float64) []orb.Point {
	if len(in) <= 2 {
		return clonePts(in)
	}
	out := []orb.Point{in[0]}
	cur := 0
	for i := 1; i < len(in); i++ {
		if df(in[cur], in[i]) > t {
			cur = i
			out = append(out, in[i])
		}
	}
	if cur != len(in)-1 {
		out = append(out, in[len(in)-1])
	}
	return out
}

// checkRadialSpacing: consecutive kept vertices are farther apart than t by the
// caller's distance function, except possibly the last pair. No tolerance: the
// distance function is the one handed to the simplifier.
func checkRadialSpacing(what string, out []orb.Point, df orb.DistanceFunc, t float64) error {
	for i := 0; i+2 < len(out); i++ {
		if d := df(out[i], out[i+1]); !(d > t) {
			return fmt.Errorf("%s: kept vertices %d and %d (%v, %v) are %v apart, not farther than the threshold %v: out=%v", what, i, i+1, out[i], out[i+1], d, t, short(out))
		}
	}
	return nil
}

// ---------------------------------------------------------------- Visvalingam

func defaultMin(ring bool, in []orb.Point) int {
	if !ring {
		return 2
	}
	if len(in) > 0 && in[0] == in[len(in)-1] {
		return 4
	}
	return 3
}

func minInt(a, b int) int {
	if a < b {
		return a
	}
	return b
}

// visOrder reconstructs the removal order from the outputs of keep-k for
// k = n-1 … 2 (seq[k] is the output with k vertices, seq[n] = in) and checks it
// against the Visvalingam-Whyatt rule with effective areas: the vertex removed
// at each step has the smallest effective area (doubled triangle area, raised
// to the effective area of the removed neighbour) within 1e-9 relative +
// areaTol. It returns the effective (doubled) areas in removal order.
func visOrder(what string, in []orb.Point, seq map[int][]orb.Point) ([]float64, error) {
	n := len(in)
	relA, tolA := areaSlack(in)
	cur := make([]int, n)
	for i := range cur {
		cur[i] = i
	}
	eff := make([]float64, n)
	for i := 1; i < n-1; i++ {
		eff[i] = dblArea(in[i-1], in[i], in[i+1])
	}
	var es []float64
	for k := n - 1; k >= 2; k-- {
		next := indicesOf(in, seq[k])
		// find the removed position
		pos := -1
		for j := range cur {
			if j >= len(next) || cur[j] != next[j] {
				pos = j
				break
			}
		}
		if pos <= 0 || pos >= len(cur)-1 {
			return nil, fmt.Errorf("%s: keep-%d is not keep-%d minus one interior vertex: %v vs %v", what, k, k+1, next, cur)
		}
		for j := pos; j < len(next); j++ {
			if cur[j+1] != next[j] {
				return nil, fmt.Errorf("%s: keep-%d is not keep-%d minus one interior vertex: %v vs %v", what, k, k+1, next, cur)
			}
		}
		r := cur[pos]
		minE, argE := math.Inf(1), -1
		for j := 1; j < len(cur)-1; j++ {
			if eff[cur[j]] < minE {
				minE, argE = eff[cur[j]], cur[j]
			}
		}
		if eff[r] > minE*(1+relA)+tolA {
			return nil, fmt.Errorf("%s: step %d removed vertex %d (effective doubled area %v) although vertex %d has the smaller effective doubled area %v; remaining indices %v", what, n-k, r, eff[r], argE, minE, cur)
		}
		es = append(es, eff[r])
		p, q := cur[pos-1], cur[pos+1]
		if pos-1 > 0 {
			eff[p] = math.Max(dblArea(in[cur[pos-2]], in[p], in[q]), eff[r])
		}
		if pos+1 < len(cur)-1 {
			eff[q] = math.Max(dblArea(in[p], in[q], in[cur[pos+2]]), eff[r])
		}
		cur = append(cur[:pos], cur[pos+1:]...)
	}
	return es, nil
}

// checkVisThreshold: the output for area threshold ta and minimum count min
// must be the state after R removals of the observed order, where R is between
// the number of leading effective areas definitely <= ta and the number
// possibly <= ta (1e-9 relative + areaTol), both capped by n-min.
func checkVisThreshold(what string, in, out []orb.Point, seq map[int][]orb.Point, es []float64, ta float64, min int) error {
	n := len(in)
	if n <= min {
		return nil // unchanged, judged by checkBasic + count
	}
	relA, tolA := areaSlack(in)
	thr := 2 * ta
	lo, hi := 0, 0
	for lo < len(es) && es[lo] < thr*(1-relA)-tolA {
		lo++
	}
	for hi < len(es) && es[hi] <= thr*(1+relA)+tolA {
		hi++
	}
	lo, hi = minInt(lo, n-min), minInt(hi, n-min)
	R := n - len(out)
	if R < lo || R > hi {
		return fmt.Errorf("%s: removed %d vertices, the effective-area rule asks for %d..%d (threshold %v, minimum count %d, effective doubled areas in removal order %v)", what, R, lo, hi, ta, min, es)
	}
	if !sameSeq(out, seq[n-R]) {
		return fmt.Errorf("%s: output with %d vertices differs from keep-%d: %v vs %v", what, len(out), n-R, short(out), short(seq[n-R]))
	}
	return nil
}
