package c06

// Size ladder (round L1): structured values far above the sizes the random
// generators reach, judged with O(n) own models at the same strictness.
// Dimensions: vertices per list, members per multi-geometry / collection,
// rings per polygon, one enormous member next to small ones, collection
// nesting depth, vertex count of Reverse / Orientation inputs.

import (
	"encoding/json"
	"fmt"
	"math"
	"testing"
	"time"

	"github.com/paulmach/orb"

	"verifharness/internal/gen"
	"verifharness/internal/stats"
)

// LargeCase describes one structured value by its parameters (replay format).
type LargeCase struct {
	Shape string `json:"shape"` // list | members | bigmember | chain | ring
	Kind  string `json:"kind"`  // geometry kind; for ring: convex | zigzag | monotone | sawtooth
	N     int    `json:"n"`     // the size on the ladder
	Pos   int    `json:"pos"`   // 0 first, 1 middle, 2 last: where the extreme vertex / enormous member sits
}

var extreme = orb.Point{-5, 100} // the only vertex with this x (minimum) and this y (maximum)

func zig(i int) orb.Point { return orb.Point{float64(i % 1021), float64((i * 7) % 13)} }

func posIndex(n, pos int) int {
	switch {
	case n == 0:
		return 0
	case pos == 0:
		return 0
	case pos == 1:
		return n / 2
	}
	return n - 1
}

func zigList(n, pos int, withExtreme bool) []orb.Point {
	ps := make([]orb.Point, n)
	for i := range ps {
		ps[i] = zig(i)
	}
	if withExtreme && n > 0 {
		ps[posIndex(n, pos)] = extreme
	}
	return ps
}

// ringShape builds the vertex lists used for Reverse / Orientation.
func ringShape(kind string, n int) []orb.Point {
	ps := make([]orb.Point, 0, n)
	switch kind {
	case "convex": // densified square walked counter-clockwise, closed
		side := n / 4
		if side < 1 {
			side = 1
		}
		s := float64(side)
		for i := 0; i < side; i++ {
			ps = append(ps, orb.Point{float64(i), 0})
		}
		for i := 0; i < side; i++ {
			ps = append(ps, orb.Point{s, float64(i)})
		}
		for i := 0; i < side; i++ {
			ps = append(ps, orb.Point{s - float64(i), s})
		}
		for len(ps) < n-1 {
			k := len(ps) - 3*side
			y := s - float64(k)
			if y < 1 {
				y = 1
			}
			ps = append(ps, orb.Point{0, y})
		}
		ps = append(ps, ps[0])
	case "zigzag": // comb along the top, straight way back along the bottom: clockwise, closed
		for i := 0; len(ps) < n-3; i++ {
			ps = append(ps, orb.Point{float64(i), float64(i % 2)})
		}
		last := 0.0
		if len(ps) > 0 {
			last = ps[len(ps)-1][0]
		}
		ps = append(ps, orb.Point{last, -1}, orb.Point{0, -1}, orb.Point{0, 0})
	case "monotone": // one long collinear run: area exactly zero, unclosed
		for i := 0; i < n; i++ {
			ps = append(ps, orb.Point{float64(i) / 2, float64(i)})
		}
	default: // sawtooth: x wraps every 1024 vertices, unclosed
		for i := 0; i < n; i++ {
			ps = append(ps, orb.Point{float64(i % 1024), float64(i / 1024)})
		}
	}
	return ps
}

func (c LargeCase) build() orb.Geometry {
	n, e := c.N, posIndex(c.N, c.Pos)
	switch c.Shape {
	case "list":
		return asList(c.Kind, zigList(n, c.Pos, true))
	case "members":
		switch c.Kind {
		case "MultiLineString":
			v := make(orb.MultiLineString, n)
			for i := range v {
				v[i] = orb.LineString{zig(i), zig(i + 1)}
			}
			if n > 0 {
				v[e] = orb.LineString{extreme}
			}
			if n > 2 {
				v[(e+1)%n] = orb.LineString{} // an empty member somewhere before / after
			}
			return v
		case "Polygon": // only ring 0 counts for the bound; the extreme "hole" must not
			v := make(orb.Polygon, n)
			for i := range v {
				v[i] = orb.Ring{zig(i), zig(i + 1), zig(i + 2), zig(i)}
			}
			if n > 1 {
				v[posIndex(n-1, c.Pos)+1] = orb.Ring{extreme, {-4, 99}, {-4, 100}, extreme}
			}
			return v
		case "MultiPolygon":
			v := make(orb.MultiPolygon, n)
			for i := range v {
				v[i] = orb.Polygon{{zig(i), zig(i + 1), zig(i + 2), zig(i)}}
			}
			if n > 0 {
				v[e] = orb.Polygon{{extreme, {3, 3}, {4, 3}, extreme}, {{-9, -9}}} // a hole outside must not count
			}
			if n > 2 {
				v[(e+1)%n] = orb.Polygon{}
			}
			return v
		}
		v := make(orb.Collection, n)
		for i := range v {
			switch i % 3 {
			case 0:
				v[i] = zig(i)
			case 1:
				v[i] = orb.LineString{zig(i), zig(i + 1)}
			default:
				v[i] = orb.MultiPoint{zig(i)}
			}
			if i%1000 == 999 {
				v[i] = orb.Collection{orb.LineString{}, zig(i)}
			}
		}
		if n > 0 {
			v[e] = extreme
		}
		if n > 2 {
			v[(e+1)%n] = orb.Collection{}
		}
		return v
	case "bigmember":
		big := zigList(n, 2, true)
		small := []orb.Point{{1, 1}, {2, 3}, {1, 2}, {1, 1}}
		lists := [][]orb.Point{small, small, small}
		lists[c.Pos%3] = big
		switch c.Kind {
		case "MultiLineString":
			return orb.MultiLineString{lists[0], lists[1], lists[2]}
		case "Polygon":
			return orb.Polygon{lists[0], lists[1], lists[2]}
		case "MultiPolygon":
			return orb.MultiPolygon{{lists[0]}, {small, lists[1]}, {lists[2]}}
		}
		return orb.Collection{orb.LineString(lists[0]), orb.Collection{orb.MultiPoint(lists[1])}, orb.Ring(lists[2])}
	case "chain":
		var g orb.Geometry
		switch c.Pos {
		case 0:
			g = orb.LineString{{1, 2}, {3, 4}}
		case 1:
			g = orb.Point{7, -7}
		default:
			g = orb.LineString{}
		}
		for i := 0; i < n; i++ {
			g = orb.Collection{g}
		}
		return g
	}
	return nil
}

// cmpGeom is the O(n) structural comparison (kinds, lengths, coordinates by
// == or, with bits, bit for bit); it returns "" or the place of the first difference.
func cmpGeom(a, b orb.Geometry, bits bool) string {
	same := func(p, q orb.Point) bool {
		if bits {
			return math.Float64bits(p[0]) == math.Float64bits(q[0]) && math.Float64bits(p[1]) == math.Float64bits(q[1])
		}
		return p[0] == q[0] && p[1] == q[1]
	}
	pts := func(x, y []orb.Point) string {
		if len(x) != len(y) {
			return fmt.Sprintf("length %d vs %d", len(x), len(y))
		}
		for i := range x {
			if !same(x[i], y[i]) {
				return fmt.Sprintf("vertex %d: %v vs %v", i, x[i], y[i])
			}
		}
		return ""
	}
	at := func(i int, d string) string {
		if d == "" {
			return ""
		}
		return fmt.Sprintf("member %d: %s", i, d)
	}
	switch x := a.(type) {
	case orb.Point:
		if y, ok := b.(orb.Point); ok {
			if !same(x, y) {
				return fmt.Sprintf("point %v vs %v", x, y)
			}
			return ""
		}
	case orb.Bound:
		if y, ok := b.(orb.Bound); ok {
			if !same(x.Min, y.Min) || !same(x.Max, y.Max) {
				return fmt.Sprintf("bound %v vs %v", x, y)
			}
			return ""
		}
	case orb.MultiPoint:
		if y, ok := b.(orb.MultiPoint); ok {
			return pts(x, y)
		}
	case orb.LineString:
		if y, ok := b.(orb.LineString); ok {
			return pts(x, y)
		}
	case orb.Ring:
		if y, ok := b.(orb.Ring); ok {
			return pts(x, y)
		}
	case orb.MultiLineString:
		if y, ok := b.(orb.MultiLineString); ok {
			if len(x) != len(y) {
				return fmt.Sprintf("%d vs %d members", len(x), len(y))
			}
			for i := range x {
				if d := pts(x[i], y[i]); d != "" {
					return at(i, d)
				}
			}
			return ""
		}
	case orb.Polygon:
		if y, ok := b.(orb.Polygon); ok {
			if len(x) != len(y) {
				return fmt.Sprintf("%d vs %d rings", len(x), len(y))
			}
			for i := range x {
				if d := pts(x[i], y[i]); d != "" {
					return at(i, d)
				}
			}
			return ""
		}
	case orb.MultiPolygon:
		if y, ok := b.(orb.MultiPolygon); ok {
			if len(x) != len(y) {
				return fmt.Sprintf("%d vs %d polygons", len(x), len(y))
			}
			for i := range x {
				if d := cmpGeom(x[i], y[i], bits); d != "" {
					return at(i, d)
				}
			}
			return ""
		}
	case orb.Collection:
		if y, ok := b.(orb.Collection); ok {
			if len(x) != len(y) {
				return fmt.Sprintf("%d vs %d members", len(x), len(y))
			}
			for i := range x {
				if d := cmpGeom(x[i], y[i], bits); d != "" {
					return at(i, d)
				}
			}
			return ""
		}
	}
	return fmt.Sprintf("kind %s vs %s", gen.KindOf(a), gen.KindOf(b))
}

// modelDim: 0 for points, 1 for lines, 2 for areas, the maximum over the
// members of a collection, -1 for a collection without members.
func modelDim(g orb.Geometry) int {
	switch v := g.(type) {
	case orb.Point, orb.MultiPoint:
		return 0
	case orb.LineString, orb.MultiLineString:
		return 1
	case orb.Collection:
		d := -1
		for _, m := range v {
			if md := modelDim(m); md > d {
				d = md
			}
		}
		return d
	}
	return 2
}

// checkLargeGeom: Bound, Dimensions, Clone (value, independence both ways),
// Equal (true for a copy; false when one coordinate at the start, middle or
// end differs by one ulp or when the last element is missing), all O(n).
func checkLargeGeom(g orb.Geometry, what string) error {
	ref := gen.DeepCopy(g)
	fail := func(format string, args ...interface{}) error {
		return fmt.Errorf(what+": "+format, args...)
	}
	// Bound
	got := g.Bound()
	want, has := modelBound(g)
	switch {
	case !has && (!got.IsEmpty() || !emptyB(got)):
		return fail("no vertices, Bound() = %v is not empty", got)
	case has && (got.IsEmpty() || !sameBox(got, want)):
		return fail("Bound() = %v, want %v", got, want)
	}
	if d := g.Dimensions(); d != modelDim(g) {
		return fail("Dimensions() = %d, want %d", d, modelDim(g))
	}
	if d := cmpGeom(g, ref, true); d != "" {
		return fail("Bound/Dimensions modified the value: %s", d)
	}
	// Equal
	if !orb.Equal(g, ref) || !orb.Equal(ref, g) {
		return fail("orb.Equal(g, copy) = false")
	}
	slots := 0
	gen.Walk(g, func(*float64) { slots++ })
	for _, target := range []int{0, slots / 2, slots - 1} {
		if target < 0 || target >= slots {
			continue
		}
		k := 0
		var slot *float64
		gen.Walk(g, func(p *float64) {
			if k == target {
				slot = p
			}
			k++
		})
		old := *slot
		*slot = math.Nextafter(old, math.Inf(1))
		e1, e2 := orb.Equal(g, ref), orb.Equal(ref, g)
		*slot = old
		if e1 || e2 {
			return fail("coordinate slot %d of %d differs by one ulp, orb.Equal = %v / %v", target, slots, e1, e2)
		}
	}
	if n := topLen(g); n > 0 {
		short, shortRef := reslice(g, gen.KindOf(g), 0, n-1), reslice(ref, gen.KindOf(ref), 0, n-1)
		if orb.Equal(short, ref) || orb.Equal(ref, short) || orb.Equal(g, short) {
			return fail("orb.Equal(value without its last element, value) = true")
		}
		if !orb.Equal(short, shortRef) {
			return fail("orb.Equal of the two values without their last element = false")
		}
		front := reslice(g, gen.KindOf(g), 1, n)
		if n > 1 && cmpGeom(front, shortRef, false) != "" && (orb.Equal(front, shortRef) || orb.Equal(shortRef, front)) {
			return fail("orb.Equal(value without its first element, value without its last) = true")
		}
	}
	// Clone
	for _, cloner := range []struct {
		name string
		f    func(orb.Geometry) orb.Geometry
	}{{"orb.Clone", orb.Clone}, {"typed Clone", typedClone}} {
		cl := cloner.f(g)
		if cl == nil {
			return fail("%s returned a nil interface", cloner.name)
		}
		if d := cmpGeom(cl, ref, false); d != "" {
			return fail("%s differs from the original: %s", cloner.name, d)
		}
		if !orb.Equal(g, cl) || !orb.Equal(cl, g) {
			return fail("orb.Equal(g, %s) = false", cloner.name)
		}
		gen.Walk(cl, func(p *float64) { *p = 424242.4242 })
		scribbleCapacity(cl, 424242.4242)
		replaceMembers(cl, 424242.4242)
		if d := cmpGeom(g, ref, true); d != "" {
			return fail("overwriting the result of %s changed the original: %s", cloner.name, d)
		}
	}
	cl := orb.Clone(g)
	gen.Walk(g, func(p *float64) { *p = 424242.4242 })
	replaceMembers(g, 424242.4242)
	if d := cmpGeom(cl, ref, true); d != "" {
		return fail("overwriting the original changed the clone: %s", d)
	}
	return nil
}

func checkLarge(c LargeCase) error {
	what := fmt.Sprintf("%s %s n=%d pos=%d", c.Shape, c.Kind, c.N, c.Pos)
	if c.Shape == "ring" {
		if err := checkLinePts(ringShape(c.Kind, c.N)); err != nil {
			return fmt.Errorf("%s: %v", what, err)
		}
		return nil
	}
	g := c.build()
	if g == nil {
		return nil
	}
	return checkLargeGeom(g, what)
}

// ladder: around every L in {2^k : k = 6..24} U {10^k : k = 2..7} the rungs L-2 .. L+3 and 1.5*L+1
// (a limit L often shows only from L+2 on), plus 0, up to top.
func ladder(top int) []int {
	seen := map[int]bool{}
	var out []int
	add := func(v int) {
		if v >= 0 && v <= top && !seen[v] {
			seen[v] = true
			out = append(out, v)
		}
	}
	around := func(l int) {
		for d := -2; d <= 3; d++ {
			add(l + d)
		}
		add(l + l/2 + 1)
	}
	add(0)
	for k := 6; k <= 24; k++ {
		around(1 << k)
	}
	for k, p := 2, 100; k <= 7; k, p = k+1, p*10 {
		around(p)
	}
	return out
}

// TestEnumLarge walks the ladder for every size dimension. Up to `full` every
// (kind, position) combination runs on every rung; above it one combination
// per rung, rotating. Tops quick / thorough (where one case reaches ~1-2 s CPU
// or ~1 GiB): vertices per list 2^20+3 / 2^24+3 (three copies of 16 B per
// vertex); one enormous member 2^20+3 / 2^22+3; members per multi-geometry /
// collection / rings per polygon 2^17+3 / 2^20+3 (one allocation per member);
// collection nesting depth 2^16+3 / 2^18+3 (about 8 us per level: twenty
// recursive passes over a deep stack); Reverse / Orientation vertices
// 2^20+3 / 2^22+3 (four copies).
func TestEnumLarge(t *testing.T) {
	th := stats.Thorough()
	pick := func(quick, thorough int) int {
		if th {
			return thorough
		}
		return quick
	}
	var idx, size int64
	run := func(c LargeCase) {
		idx++
		size++
		if !stats.Mine(idx) {
			return
		}
		stats.Eval("TestEnumLarge", 1)
		stats.Class("large:" + c.Shape)
		stats.NonTrivial(gen.JSON(c))
		t0 := time.Now()
		stats.TryT(t, "TestEnumLarge", c, func() error { return checkLarge(c) })
		if d := time.Since(t0); d > 2*time.Second {
			t.Logf("slow rung: %+v took %v", c, d)
		}
	}
	rot := 0
	combos := func(n, full int, kinds []string, f func(kind string, pos int)) {
		if n > full {
			rot++
			k := rot % (len(kinds) * 3)
			f(kinds[k/3], k%3)
			return
		}
		for _, kind := range kinds {
			for pos := 0; pos < 3; pos++ {
				f(kind, pos)
			}
		}
	}
	containers := []string{"MultiLineString", "Polygon", "MultiPolygon", "Collection"}
	for _, n := range ladder(pick(1<<20+3, 1<<24+3)) {
		combos(n, 1<<14+3, []string{"MultiPoint", "LineString", "Ring"}, func(kind string, pos int) {
			run(LargeCase{Shape: "list", Kind: kind, N: n, Pos: pos})
		})
	}
	for _, n := range ladder(pick(1<<20+3, 1<<22+3)) {
		combos(n, 1<<14+3, containers, func(kind string, pos int) {
			run(LargeCase{Shape: "bigmember", Kind: kind, N: n, Pos: pos})
		})
	}
	for _, n := range ladder(pick(1<<17+3, 1<<20+3)) {
		combos(n, 1<<12+3, containers, func(kind string, pos int) {
			run(LargeCase{Shape: "members", Kind: kind, N: n, Pos: pos})
		})
	}
	for _, n := range ladder(pick(1<<16+3, 1<<18+3)) {
		combos(n, 1<<12+3, []string{"Collection"}, func(kind string, pos int) {
			run(LargeCase{Shape: "chain", Kind: kind, N: n, Pos: pos})
		})
	}
	for _, n := range ladder(pick(1<<20+3, 1<<22+3)) {
		if n > 1<<14+3 {
			rot++
			run(LargeCase{Shape: "ring", Kind: []string{"convex", "zigzag", "monotone", "sawtooth"}[rot%4], N: n})
			continue
		}
		for _, kind := range []string{"convex", "zigzag", "monotone", "sawtooth"} {
			run(LargeCase{Shape: "ring", Kind: kind, N: n})
		}
	}
	stats.Subspace("size ladder L-2..L+3 and 1.5L+1 around L in {2^k: k=6..24} U {10^k: k=2..7} (each dimension up to its top) x structured shapes: zigzag lists with the extreme vertex first/middle/last, N members with an extreme and an empty member, one enormous member first/middle/last, single-child collection chains, convex / comb / collinear / sawtooth rings", size, true)
}

func replayLarge(t *testing.T, raw json.RawMessage) {
	var c LargeCase
	if err := json.Unmarshal(raw, &c); err != nil {
		t.Fatal(err)
	}
	if err := stats.Guard(func() error { return checkLarge(c) }); err != nil {
		t.Fatalf("replayed case still fails: %v", err)
	}
}
