package c06

import (
	"fmt"
	"math"
	"testing"

	"github.com/paulmach/orb"

	"verifharness/internal/gen"
	"verifharness/internal/stats"
)

// TestEnumBounds: every box with corners on the 3x3 lattice (inverted and
// degenerate ones included) plus the empty sentinel: all triples, and all
// pairs with every probe point of a 7x7 half-step lattice around them.
func TestEnumBounds(t *testing.T) {
	var bs []orb.Bound
	for x0 := 0; x0 < 3; x0++ {
		for y0 := 0; y0 < 3; y0++ {
			for x1 := 0; x1 < 3; x1++ {
				for y1 := 0; y1 < 3; y1++ {
					bs = append(bs, orb.Bound{Min: orb.Point{float64(x0), float64(y0)}, Max: orb.Point{float64(x1), float64(y1)}})
				}
			}
		}
	}
	bs = append(bs, orb.Bound{Min: orb.Point{1, 1}, Max: orb.Point{-1, -1}})
	var probes []orb.Point
	for x := -1; x <= 5; x++ {
		for y := -1; y <= 5; y++ {
			probes = append(probes, orb.Point{float64(x) / 2, float64(y) / 2})
		}
	}
	var idx, size int64
	run := func(a, b, c orb.Bound, p, q orb.Point) {
		idx++
		size++
		if !stats.Mine(idx) {
			return
		}
		if idx%2 == 1 { // every other case probes at -0 instead of +0 (and has -0 edges on a)
			nz := func(pt orb.Point) orb.Point {
				for i := range pt {
					if pt[i] == 0 {
						pt[i] = math.Copysign(0, -1)
					}
				}
				return pt
			}
			p, q, a.Min = nz(p), nz(q), nz(a.Min)
		}
		cs := BoundCase{A: gen.FromBound(a), B: gen.FromBound(b), C: gen.FromBound(c), P: gen.FromPt(p), Q: gen.FromPt(q)}
		stats.Eval("TestEnumBounds", 1)
		stats.TryT(t, "TestEnumBounds", cs, func() error { return checkBounds(cs) })
	}
	for i, a := range bs {
		for j, b := range bs {
			for k, c := range bs {
				n := (i*len(bs)+j)*len(bs) + k
				run(a, b, c, probes[n%len(probes)], probes[(n/len(probes))%len(probes)])
			}
			for k, p := range probes {
				run(a, b, a, p, probes[len(probes)-1-k])
			}
		}
	}
	stats.Subspace("boxes with corners in {0,1,2}^2 (81, inverted included) + empty sentinel: all triples; all pairs x 49 probe points on the half-step lattice -0.5..2.5", size, true)
}

// TestEnumRings: every vertex list of 0..5 (thorough: 6) vertices on the 3x3
// lattice as LineString and Ring (Reverse, exact Orientation), and Reverse for
// every length up to 64.
func TestEnumRings(t *testing.T) {
	var pts []orb.Point
	for x := 0; x < 3; x++ {
		for y := 0; y < 3; y++ {
			pts = append(pts, orb.Point{float64(x), float64(y)})
		}
	}
	maxLen := 5
	if stats.Thorough() {
		maxLen = 6
	}
	var idx, size int64
	cur := make([]orb.Point, 0, maxLen)
	var rec func()
	rec = func() {
		idx++
		size++
		if stats.Mine(idx) {
			c := LineCase{Pts: gen.Pts(cur)}
			if len(cur) == 0 {
				c.Pts = []gen.P{}
			}
			stats.Eval("TestEnumRings", 1)
			if len(cur) >= 3 {
				stats.NonTrivial(gen.JSON(c))
			}
			stats.TryT(t, "TestEnumRings", c, func() error { return checkLine(c) })
		}
		if len(cur) == maxLen {
			return
		}
		for _, p := range pts {
			cur = append(cur, p)
			rec()
			cur = cur[:len(cur)-1]
		}
	}
	rec()
	stats.Subspace(fmt.Sprintf("vertex lists of 0..%d vertices on the 3x3 lattice (Reverse twice, Reverse order, exact Orientation sign, negation)", maxLen), size, true)

	var n2 int64
	for n := 0; n <= 64; n++ {
		for _, isNil := range []bool{false, true} {
			if isNil && n > 0 {
				continue
			}
			n2++
			idx++
			if !stats.Mine(idx) {
				continue
			}
			ps := make([]orb.Point, n)
			for i := range ps {
				ps[i] = orb.Point{float64(i), float64(1000 + i*i)}
			}
			c := LineCase{Pts: gen.Pts(ps), Nil: isNil}
			stats.Eval("TestEnumRings", 1)
			stats.TryT(t, "TestEnumRings", c, func() error { return checkLine(c) })
		}
	}
	stats.Subspace("Reverse on lists of pairwise distinct vertices of every length 0..64 (nil and empty for 0)", n2, true)
}

// sequences calls f with every sequence of 0..maxLen palette indices.
func sequences(n, maxLen int, f func([]int)) {
	cur := []int{}
	var rec func()
	rec = func() {
		f(cur)
		if len(cur) == maxLen {
			return
		}
		for i := 0; i < n; i++ {
			cur = append(cur, i)
			rec()
			cur = cur[:len(cur)-1]
		}
	}
	rec()
}

// TestEnumMembers: every arrangement of empty / nil / single-vertex / regular
// members inside the multi-geometries and collections (all clauses of checkGeom).
func TestEnumMembers(t *testing.T) {
	ring1 := []orb.Point{{5, 5}, {6, 5}, {6, 7}, {5, 5}}
	ring2 := []orb.Point{{-1, 8}, {0, 0}, {-3, 2}, {-1, 8}}
	lists := [][]orb.Point{{}, nil, {{5, 5}}, {{5, 5}, {6, 7}}, {{-1, 8}, {0, 0}}}
	rings := [][]orb.Point{{}, nil, {{5, 5}}, ring1, ring2}
	polys := []orb.Polygon{{}, nil, {orb.Ring{}}, {orb.Ring{}, orb.Ring(ring2)}, {orb.Ring(ring1)}, {orb.Ring(ring2), orb.Ring(ring1)}}
	members := []orb.Geometry{
		orb.LineString{}, orb.MultiPoint(nil), orb.Polygon{}, orb.Polygon{orb.Ring{}}, orb.Collection{}, orb.Collection{orb.LineString{}},
		orb.MultiLineString{{}}, orb.MultiPolygon{{}}, orb.Bound{Min: orb.Point{1, 1}, Max: orb.Point{-1, -1}}, orb.Bound{Min: orb.Point{9, 0}, Max: orb.Point{3, 4}},
		orb.Point{5, 5}, orb.LineString{{5, 5}, {6, 7}}, orb.MultiPolygon{{}, {orb.Ring(ring1)}}, orb.Bound{Min: orb.Point{2, 2}, Max: orb.Point{3, 9}},
		orb.Collection{orb.LineString{}, orb.Point{-4, -4}},
	}
	var idx, size int64
	run := func(g orb.Geometry) {
		idx++
		size++
		if !stats.Mine(idx) {
			return
		}
		c := GeomCase{G: gen.G{V: gen.DeepCopy(g)}, Factor: []int{0, 1, 10}[idx%3]}
		stats.Eval("TestEnumMembers", 1)
		if cloneNilFamily(g) && cloneNilKnown() {
			stats.Excluded(keyCloneNil)
		}
		if n := parse(g); geomNonTrivial(n) {
			stats.NonTrivial(gen.JSON(c))
			if n.emptyBeforeNonEmpty() && stats.WantSample("enum: empty member first") {
				stats.Sample("enum: empty member first", c)
			}
		}
		stats.TryT(t, "TestEnumMembers", c, func() error { return checkGeom(c) })
	}
	run(orb.MultiLineString(nil))
	run(orb.Polygon(nil))
	run(orb.MultiPolygon(nil))
	run(orb.Collection(nil))
	sequences(len(lists), 4, func(ix []int) {
		m := make(orb.MultiLineString, len(ix))
		for i, k := range ix {
			m[i] = orb.LineString(lists[k])
		}
		run(m)
	})
	sequences(len(rings), 3, func(ix []int) {
		p := make(orb.Polygon, len(ix))
		for i, k := range ix {
			p[i] = orb.Ring(rings[k])
		}
		run(p)
	})
	sequences(len(polys), 3, func(ix []int) {
		m := make(orb.MultiPolygon, len(ix))
		for i, k := range ix {
			m[i] = polys[k]
		}
		run(m)
	})
	sequences(len(members), 3, func(ix []int) {
		c := make(orb.Collection, len(ix))
		for i, k := range ix {
			c[i] = members[k]
		}
		run(c)
	})
	stats.Subspace("multi-line-strings of <= 4 members from 5 lines, polygons of <= 3 rings from 5, multi-polygons of <= 3 from 6 polygons, collections of <= 3 from 15 members (empty, nil, single-vertex, inverted-bound and regular members in every order)", size, true)
}

// equalCatalog is a family of small geometries of all kinds in which every
// kind of near miss occurs: same points under another kind, one vertex more or
// less, another order, nil against empty, one member more or less.
func equalCatalog() []orb.Geometry {
	a, b, c := orb.Point{0, 0}, orb.Point{1, 0}, orb.Point{0, 1}
	lists := [][]orb.Point{{}, {a}, {b}, {a, b}, {b, a}, {a, b, c}, {a, b, a}, {a, b, c, a}, {a, c, b, a}}
	var out []orb.Geometry
	out = append(out, a, b, orb.Bound{Min: a, Max: a}, orb.Bound{Min: a, Max: orb.Point{1, 1}}, orb.Bound{Min: a, Max: b}, orb.Bound{Min: b, Max: a})
	out = append(out, orb.MultiPoint(nil), orb.LineString(nil), orb.Ring(nil))
	for _, l := range lists {
		out = append(out, orb.MultiPoint(l), orb.LineString(l), orb.Ring(l))
	}
	sub := [][]orb.Point{{}, {a, b}, {a, b, c, a}}
	out = append(out, orb.MultiLineString(nil), orb.Polygon(nil), orb.MultiPolygon(nil), orb.Collection(nil))
	sequences(len(sub), 2, func(ix []int) {
		m := make(orb.MultiLineString, len(ix))
		p := make(orb.Polygon, len(ix))
		for i, k := range ix {
			m[i], p[i] = orb.LineString(sub[k]), orb.Ring(sub[k])
		}
		out = append(out, m, p)
	})
	polys := []orb.Polygon{{}, {orb.Ring(sub[2])}, {orb.Ring(sub[2]), orb.Ring(sub[2])}, {orb.Ring(sub[1])}}
	sequences(len(polys), 2, func(ix []int) {
		m := make(orb.MultiPolygon, len(ix))
		for i, k := range ix {
			m[i] = polys[k]
		}
		out = append(out, m)
	})
	members := []orb.Geometry{a, orb.LineString{a, b}, orb.Ring{a, b}, orb.MultiPoint{a, b}, orb.Polygon{orb.Ring(sub[2])}, orb.Ring(sub[2]),
		orb.Bound{Min: a, Max: orb.Point{1, 1}}, orb.Collection{}, orb.Collection{a}, orb.LineString{}}
	sequences(len(members), 2, func(ix []int) {
		m := make(orb.Collection, len(ix))
		for i, k := range ix {
			m[i] = members[k]
		}
		out = append(out, m)
	})
	return out
}

// TestEnumEqual: orb.Equal against the structural comparison on every ordered
// pair of the catalog, then reflexivity, symmetry and transitivity on the
// whole relation.
func TestEnumEqual(t *testing.T) {
	cat := equalCatalog()
	n := len(cat)
	eq := make([][]bool, n)
	var idx int64
	for i := range cat {
		eq[i] = make([]bool, n)
		for j := range cat {
			idx++
			var got bool
			c := PairCase{A: gen.G{V: cat[i]}, B: gen.G{V: cat[j]}, C: gen.G{V: cat[i]}}
			if err := stats.Guard(func() error { got = orb.Equal(cat[i], cat[j]); return nil }); err != nil {
				p := stats.RecordFailure("TestEnumEqual", c, err)
				t.Fatalf("TestEnumEqual: %v (replay %s)", err, p)
			}
			eq[i][j] = got
			if !stats.Mine(idx) {
				continue
			}
			stats.Eval("TestEnumEqual", 1)
			if i != j && modelEqual(cat[i], cat[j]) {
				// pairs of distinct catalog entries that are structurally equal (nil vs empty): the interesting positives
				stats.NonTrivial(gen.JSON(c))
			}
			stats.TryT(t, "TestEnumEqual", c, func() error { return checkPair(c) })
		}
	}
	if stats.Mine(0) {
		for i := 0; i < n; i++ {
			for j := 0; j < n; j++ {
				if !eq[i][j] {
					continue
				}
				for k := 0; k < n; k++ {
					if eq[j][k] && !eq[i][k] {
						c := PairCase{A: gen.G{V: cat[i]}, B: gen.G{V: cat[j]}, C: gen.G{V: cat[k]}}
						err := fmt.Errorf("Equal is not transitive on catalog entries %d, %d, %d", i, j, k)
						p := stats.RecordFailure("TestEnumEqual", c, err)
						t.Fatalf("TestEnumEqual: %v (replay %s)", err, p)
					}
				}
			}
		}
	}
	stats.Subspace(fmt.Sprintf("all ordered pairs of a catalog of %d small geometries of all nine kinds (same points under other kinds, nil vs empty, +-1 vertex/member, reordered); transitivity over all triples", n), int64(n)*int64(n), true)
}
