package c06

// Concurrent callers. Clone, Equal, Bound, the Bound methods, Reverse,
// Orientation and Round (with an explicit or the default factor, which is only
// read) are functions of their arguments: several independent cases judged at
// the same time on separate goroutines must each still agree with the model.
// A disagreement means callers share state inside the library (a scratch
// buffer or one-entry cache in a package variable, a pooled object handed out
// twice). Every check of this package is a pure function of its case (no orb
// configuration is set, values are rebuilt from the case on every call), so
// any of the five case types may be in a group.

import (
	"encoding/json"
	"fmt"
	"testing"

	"github.com/paulmach/orb"
	"pgregory.net/rapid"

	"verifharness/internal/gen"
	"verifharness/internal/stats"
)

// AnyCase is one member of a concurrent group: exactly one field is set.
type AnyCase struct {
	Geom   *GeomCase  `json:"geom,omitempty"`
	Pair   *PairCase  `json:"pair,omitempty"`
	Bounds *BoundCase `json:"bounds,omitempty"`
	Line   *LineCase  `json:"line,omitempty"`
	Alias  *AliasCase `json:"alias,omitempty"`
}

func checkAny(c AnyCase) error {
	switch {
	case c.Geom != nil:
		return checkGeom(*c.Geom)
	case c.Pair != nil:
		return checkPair(*c.Pair)
	case c.Bounds != nil:
		return checkBounds(*c.Bounds)
	case c.Line != nil:
		return checkLine(*c.Line)
	case c.Alias != nil:
		return checkAlias(*c.Alias)
	}
	return nil
}

// drawBigLine draws a long lattice vertex list (64..600 vertices): Reverse and
// Orientation then run long enough for concurrent callers to overlap, and the
// exact sign is demanded (int64 shoelace).
func drawBigLine(rt *rapid.T) LineCase {
	n := rapid.IntRange(64, 600).Draw(rt, "bign")
	lim := rapid.SampledFrom([]int{3, 50, 1 << 19}).Draw(rt, "biglim")
	ps := make([]orb.Point, n)
	for i := range ps {
		ps[i] = orb.Point{float64(rapid.IntRange(-lim, lim).Draw(rt, "x")), float64(rapid.IntRange(-lim, lim).Draw(rt, "y"))}
	}
	if rapid.Bool().Draw(rt, "close") {
		ps = append(ps, ps[0])
	}
	return LineCase{Pts: gen.Pts(ps)}
}

// drawBigGeom draws a geometry with 40..120 vertices per list.
func drawBigGeom(rt *rapid.T) (GeomCase, *node) {
	pts := func() []orb.Point {
		ps := make([]orb.Point, rapid.IntRange(40, 120).Draw(rt, "bign"))
		for i := range ps {
			ps[i] = orb.Point{float64(rapid.IntRange(-50, 50).Draw(rt, "x")) / 2, float64(rapid.IntRange(-50, 50).Draw(rt, "y")) / 2}
		}
		return ps
	}
	var n *node
	switch k := rapid.SampledFrom([]string{"MultiPoint", "LineString", "Ring", "Polygon", "MultiLineString", "Collection"}).Draw(rt, "bigkind"); k {
	case "Polygon":
		n = &node{Kind: k, Kids: []*node{{Kind: "Ring", Pts: pts()}, {Kind: "Ring", Pts: pts()}}}
	case "MultiLineString":
		n = &node{Kind: k, Kids: []*node{{Kind: "LineString", Pts: pts()}, {Kind: "LineString"}, {Kind: "LineString", Pts: pts()}}}
	case "Collection":
		n = &node{Kind: k, Kids: []*node{{Kind: "LineString", Pts: []orb.Point{}}, {Kind: "MultiPoint", Pts: pts()}, {Kind: "Polygon", Kids: []*node{{Kind: "Ring", Pts: pts()}}}}}
	default:
		n = &node{Kind: k, Pts: pts()}
	}
	return GeomCase{G: gen.G{V: n.build()}, Factor: rapid.SampledFrom(factors).Draw(rt, "factor")}, n
}

var anyTypes = []string{"geom", "geom", "geom", "pair", "line", "bigline", "bigline", "biggeom", "alias", "bounds"}

// drawAny draws one case with the generators of the main properties (typ ""
// = any type) and reports its type and whether it is non-trivial by that
// property's rule.
func drawAny(rt *rapid.T, typ string) (c AnyCase, t string, nonTrivial bool) {
	if typ == "" {
		typ = rapid.SampledFrom(anyTypes).Draw(rt, "casetype")
	}
	switch typ {
	case "pair":
		pc, _, _, single := drawPairCase(rt)
		return AnyCase{Pair: &pc}, typ, len(single) > 0
	case "bounds":
		bc, _, _ := drawBoundCase(rt)
		return AnyCase{Bounds: &bc}, typ, boundTripleNonTrivial(bc)
	case "line":
		lc, _ := drawLine(rt)
		return AnyCase{Line: &lc}, typ, len(lc.Pts) >= 3
	case "bigline":
		lc := drawBigLine(rt)
		return AnyCase{Line: &lc}, typ, true
	case "biggeom":
		gc, n := drawBigGeom(rt)
		return AnyCase{Geom: &gc}, typ, geomNonTrivial(n)
	case "alias":
		ac := drawAliasCase(rt)
		gs := ac.build()
		shared := false
		for i := range gs {
			for j := i + 1; j < len(gs); j++ {
				if s := sharingOf(gs[i], gs[j]); s.identical || s.sameStartOtherLen || s.overlapOtherStart {
					shared = true
				}
			}
		}
		return AnyCase{Alias: &ac}, typ, shared
	}
	gc, n, _ := drawGeomCase(rt)
	return AnyCase{Geom: &gc}, "geom", geomNonTrivial(n)
}

func TestPropConcurrent(t *testing.T) {
	assumptions()
	stats.Check(t, 2000, 100000, func(rt *rapid.T) {
		n := rapid.IntRange(2, 8).Draw(rt, "goroutines")
		cs := make([]AnyCase, n)
		nt := 0
		theme := "" // a third of the groups are uniform: every goroutine is inside the same functions
		if rapid.IntRange(0, 2).Draw(rt, "uniform") == 0 {
			theme = rapid.SampledFrom(anyTypes).Draw(rt, "theme")
			stats.Class("concurrent: uniform group of " + theme)
		}
		for i := range cs {
			var typ string
			var ok bool
			cs[i], typ, ok = drawAny(rt, theme)
			stats.Class("concurrent member:" + typ)
			if ok {
				nt++
			}
		}
		stats.Class(fmt.Sprintf("concurrent:%d goroutines", n))
		if nt >= 2 {
			stats.NonTrivial("conc:" + gen.JSON(cs))
			if stats.WantSample("concurrent group") {
				stats.Sample("concurrent group", cs)
			}
		}
		stats.TryParallel(rt, "TestPropConcurrent", cs, n, 20, func(i int) error { return checkAny(cs[i]) })
	})
}

// replayConcurrent re-runs a recorded group.
func replayConcurrent(t *testing.T, raw json.RawMessage) {
	var cs []AnyCase
	if err := json.Unmarshal(raw, &cs); err != nil {
		t.Fatal(err)
	}
	for i, c := range cs { // each member alone first: tells interference from a plain violation
		if err := stats.Guard(func() error { return checkAny(c) }); err != nil {
			t.Fatalf("member %d of the replayed group fails on its own: %v", i, err)
		}
	}
	for k := 0; k < 20; k++ {
		if err := stats.ParallelErr(len(cs), 200, func(i int) error { return checkAny(cs[i]) }); err != nil {
			t.Fatalf("replayed concurrent group still fails: %v", err)
		}
	}
}

// sharedReaders returns the body of one reader of ONE shared value (round L4:
// the same argument reused by concurrent callers): Bound, Dimensions, Equal
// both ways, Clone and (for a ring) Orientation are read-only, so every
// goroutine must see the model's answers, and the value must be unchanged
// afterwards (done()).
func sharedReaders(c GeomCase) (f func(int) error, done func() error) {
	g, ref := gen.DeepCopy(c.G.V), gen.DeepCopy(c.G.V)
	if g == nil {
		return func(int) error { return nil }, func() error { return nil }
	}
	wantB, has := modelBound(g)
	dim := modelDim(g)
	known := cloneNilKnown() && cloneNilFamily(g)
	var ringSign int
	var ringDemand bool
	if r, ok := g.(orb.Ring); ok {
		sg, robust, exact, distinct := shoelaceX(r)
		ringSign, ringDemand = sg, distinct < 3 || exact || (robust && maxAbs(r) <= orientSafeMax)
		if distinct < 3 {
			ringSign = 0
		}
	}
	f = func(int) error {
		got := g.Bound()
		if has && (got.IsEmpty() || !sameBox(got, wantB)) {
			return fmt.Errorf("shared value: Bound() = %v, want %v", got, wantB)
		}
		if !has && !got.IsEmpty() {
			return fmt.Errorf("shared value without vertices: Bound() = %v is not empty", got)
		}
		if d := g.Dimensions(); d != dim {
			return fmt.Errorf("shared value: Dimensions() = %d, want %d", d, dim)
		}
		if !orb.Equal(g, ref) || !orb.Equal(ref, g) || !orb.Equal(g, g) {
			return fmt.Errorf("shared value: orb.Equal with its copy or itself = false")
		}
		if cl := orb.Clone(g); !known {
			if cl == nil {
				return fmt.Errorf("shared value: orb.Clone returned a nil interface")
			}
			if d := cmpGeom(cl, ref, false); d != "" {
				return fmt.Errorf("shared value: orb.Clone differs: %s", d)
			}
		}
		if r, ok := g.(orb.Ring); ok && ringDemand {
			if o := r.Orientation(); int(o) != ringSign {
				return fmt.Errorf("shared ring: Orientation = %d, want %d", o, ringSign)
			}
		}
		return nil
	}
	done = func() error {
		if d := cmpGeom(g, ref, true); d != "" {
			return fmt.Errorf("read-only calls changed the shared value: %s", d)
		}
		return nil
	}
	return f, done
}

func TestPropSharedReaders(t *testing.T) {
	assumptions()
	stats.Check(t, 800, 40000, func(rt *rapid.T) {
		var c GeomCase
		var nd *node
		if rapid.Bool().Draw(rt, "big") {
			c, nd = drawBigGeom(rt)
		} else {
			c, nd, _ = drawGeomCase(rt)
		}
		n := rapid.IntRange(2, 8).Draw(rt, "goroutines")
		stats.Class("shared readers kind:" + nd.Kind)
		if geomNonTrivial(nd) {
			stats.NonTrivial("shared:" + gen.JSON(c))
		}
		f, done := sharedReaders(c)
		stats.TryParallel(rt, "TestPropSharedReaders", c, n, 20, f)
		stats.Try(rt, "TestPropSharedReaders", c, done)
	})
}

func replaySharedReaders(t *testing.T, raw json.RawMessage) {
	var c GeomCase
	if err := json.Unmarshal(raw, &c); err != nil {
		t.Fatal(err)
	}
	for k := 0; k < 20; k++ {
		f, done := sharedReaders(c)
		if err := stats.ParallelErr(8, 100, f); err != nil {
			t.Fatalf("replayed case still fails: %v", err)
		}
		if err := done(); err != nil {
			t.Fatalf("replayed case still fails: %v", err)
		}
	}
}
