package c06

// Binary operations whose operands SHARE MEMORY. The geometries of an
// AliasCase are windows buf[i:j] of one vertex buffer (a geometry and its own
// prefix / suffix, overlapping windows, the same window twice, polygons built
// from prefixes of the same ring slices, collections sharing members) or
// re-slices g[lo:hi] of the top-level slice of an earlier geometry of the
// case. The expected answers come from the structural model, which looks at
// values only; an implementation that short-cuts on pointer identity is wrong
// exactly here.

import (
	"fmt"
	"math"
	"testing"
	"unsafe"

	"github.com/paulmach/orb"
	"pgregory.net/rapid"

	"verifharness/internal/gen"
	"verifharness/internal/stats"
)

// AliasSpec describes one geometry over the shared buffer.
type AliasSpec struct {
	Kind    string      `json:"kind"`
	Win     []int       `json:"win,omitempty"`     // MultiPoint / LineString / Ring: buf[Win[0]:Win[1]]
	Members []AliasSpec `json:"members,omitempty"` // MultiLineString / Polygon / MultiPolygon / Collection
	Of      int         `json:"of,omitempty"`      // > 0: geometry number Of of the case (1-based, earlier), its top-level slice re-sliced [Lo:Hi]
	Lo      int         `json:"lo,omitempty"`
	Hi      int         `json:"hi,omitempty"`
	MBuf    int         `json:"mbuf,omitempty"` // > 0: the member slice of this container is the window MWin of member buffer number MBuf (1-based)
	MWin    []int       `json:"mwin,omitempty"`
}

// MemberBuf is one backing array of members shared by several containers of
// the case (aliasing INSIDE one value): Kind Collection = []orb.Geometry,
// Polygon = []orb.Ring, MultiLineString = []orb.LineString, MultiPolygon =
// []orb.Polygon. An element of a Collection buffer may itself be a window of
// the part of the same buffer that precedes it (a member that is a prefix of
// its own parent's backing array).
type MemberBuf struct {
	Kind  string      `json:"kind"`
	Elems []AliasSpec `json:"elems"`
}

// AliasCase: up to three geometries over one vertex buffer and optional member buffers (replay format).
type AliasCase struct {
	Buf   []gen.P     `json:"buf"`
	MBufs []MemberBuf `json:"mbufs,omitempty"`
	Geoms []AliasSpec `json:"geoms"`
}

// aliasCtx holds the backing arrays while a case is built.
type aliasCtx struct {
	buf    []orb.Point
	geoms  map[int][]orb.Geometry
	rings  map[int][]orb.Ring
	lines  map[int][]orb.LineString
	polys  map[int][]orb.Polygon
	filled map[int]int // elements of a buffer already built (windows of a buffer under construction stop there)
}

func clampWin(lo, hi, n int) (int, int) {
	if lo < 0 {
		lo = 0
	}
	if lo > n {
		lo = n
	}
	if hi < lo {
		hi = lo
	}
	if hi > n {
		hi = n
	}
	return lo, hi
}

func asList(kind string, ps []orb.Point) orb.Geometry {
	switch kind {
	case "MultiPoint":
		return orb.MultiPoint(ps)
	case "Ring":
		return orb.Ring(ps)
	}
	return orb.LineString(ps)
}

func topLen(g orb.Geometry) int {
	switch v := g.(type) {
	case orb.MultiPoint:
		return len(v)
	case orb.LineString:
		return len(v)
	case orb.Ring:
		return len(v)
	case orb.MultiLineString:
		return len(v)
	case orb.Polygon:
		return len(v)
	case orb.MultiPolygon:
		return len(v)
	case orb.Collection:
		return len(v)
	}
	return 0
}

// reslice returns base[lo:hi] (same backing array); for the three list kinds
// the result may be of another list kind.
func reslice(base orb.Geometry, kind string, lo, hi int) orb.Geometry {
	lo, hi = clampWin(lo, hi, topLen(base))
	switch v := base.(type) {
	case orb.MultiPoint:
		return asList(orDefault(kind, "MultiPoint"), []orb.Point(v)[lo:hi])
	case orb.LineString:
		return asList(orDefault(kind, "LineString"), []orb.Point(v)[lo:hi])
	case orb.Ring:
		return asList(orDefault(kind, "Ring"), []orb.Point(v)[lo:hi])
	case orb.MultiLineString:
		return v[lo:hi]
	case orb.Polygon:
		return v[lo:hi]
	case orb.MultiPolygon:
		return v[lo:hi]
	case orb.Collection:
		return v[lo:hi]
	}
	return base
}

func orDefault(kind, def string) string {
	if isList(kind) {
		return kind
	}
	return def
}

func (s AliasSpec) build(ctx *aliasCtx, built []orb.Geometry) orb.Geometry {
	buf := ctx.buf
	if s.Of > 0 && s.Of <= len(built) {
		return reslice(built[s.Of-1], s.Kind, s.Lo, s.Hi)
	}
	win := func(sp AliasSpec) []orb.Point {
		lo, hi := 0, len(buf)
		if len(sp.Win) == 2 {
			lo, hi = clampWin(sp.Win[0], sp.Win[1], len(buf))
		}
		return buf[lo:hi]
	}
	if s.MBuf > 0 {
		mw := func(n int) (int, int) {
			if f, ok := ctx.filled[s.MBuf]; ok && f < n {
				n = f
			}
			if len(s.MWin) == 2 {
				return clampWin(s.MWin[0], s.MWin[1], n)
			}
			return 0, n
		}
		switch s.Kind {
		case "Collection":
			if a, ok := ctx.geoms[s.MBuf]; ok {
				lo, hi := mw(len(a))
				return orb.Collection(a[lo:hi])
			}
			return orb.Collection{}
		case "Polygon":
			if a, ok := ctx.rings[s.MBuf]; ok {
				lo, hi := mw(len(a))
				return orb.Polygon(a[lo:hi])
			}
			return orb.Polygon{}
		case "MultiLineString":
			if a, ok := ctx.lines[s.MBuf]; ok {
				lo, hi := mw(len(a))
				return orb.MultiLineString(a[lo:hi])
			}
			return orb.MultiLineString{}
		case "MultiPolygon":
			if a, ok := ctx.polys[s.MBuf]; ok {
				lo, hi := mw(len(a))
				return orb.MultiPolygon(a[lo:hi])
			}
			return orb.MultiPolygon{}
		}
	}
	switch s.Kind {
	case "Point":
		if w := win(s); len(w) > 0 {
			return w[0]
		}
		return orb.Point{}
	case "MultiLineString":
		v := make(orb.MultiLineString, len(s.Members))
		for i, m := range s.Members {
			v[i] = orb.LineString(win(m))
		}
		return v
	case "Polygon":
		v := make(orb.Polygon, len(s.Members))
		for i, m := range s.Members {
			v[i] = orb.Ring(win(m))
		}
		return v
	case "MultiPolygon":
		v := make(orb.MultiPolygon, len(s.Members))
		for i, m := range s.Members {
			m.Kind = "Polygon"
			v[i] = m.build(ctx, nil).(orb.Polygon)
		}
		return v
	case "Collection":
		v := make(orb.Collection, len(s.Members))
		for i, m := range s.Members {
			v[i] = m.build(ctx, nil)
		}
		return v
	}
	return asList(s.Kind, win(s))
}

// buildAll makes fresh backing arrays and fresh geometries over them.
func (c AliasCase) buildAll() ([]orb.Geometry, *aliasCtx) {
	ctx := &aliasCtx{buf: gen.OrbPts(c.Buf), geoms: map[int][]orb.Geometry{}, rings: map[int][]orb.Ring{},
		lines: map[int][]orb.LineString{}, polys: map[int][]orb.Polygon{}, filled: map[int]int{}}
	if ctx.buf == nil {
		ctx.buf = []orb.Point{}
	}
	for bi, mb := range c.MBufs {
		id, n := bi+1, len(mb.Elems)
		ctx.filled[id] = 0
		switch mb.Kind {
		case "Polygon":
			a := make([]orb.Ring, n)
			ctx.rings[id] = a
			for i, e := range mb.Elems {
				e.Kind, e.MBuf = "Ring", 0
				a[i] = e.build(ctx, nil).(orb.Ring)
				ctx.filled[id] = i + 1
			}
		case "MultiLineString":
			a := make([]orb.LineString, n)
			ctx.lines[id] = a
			for i, e := range mb.Elems {
				e.Kind, e.MBuf = "LineString", 0
				a[i] = e.build(ctx, nil).(orb.LineString)
				ctx.filled[id] = i + 1
			}
		case "MultiPolygon":
			a := make([]orb.Polygon, n)
			ctx.polys[id] = a
			for i, e := range mb.Elems {
				e.Kind = "Polygon"
				a[i] = e.build(ctx, nil).(orb.Polygon)
				ctx.filled[id] = i + 1
			}
		default:
			a := make([]orb.Geometry, n)
			ctx.geoms[id] = a
			for i, e := range mb.Elems {
				a[i] = e.build(ctx, nil)
				ctx.filled[id] = i + 1
			}
		}
		delete(ctx.filled, id)
	}
	var built []orb.Geometry
	for _, s := range c.Geoms {
		built = append(built, s.build(ctx, built))
	}
	return built, ctx
}

func (c AliasCase) build() []orb.Geometry {
	gs, _ := c.buildAll()
	return gs
}

func checkAlias(c AliasCase) error {
	gs, ctx := c.buildAll()
	if len(gs) == 0 {
		return nil
	}
	buf0 := append([]orb.Point{}, ctx.buf...) // the caller's whole backing array, bit for bit
	names := []string{"a", "b", "c", "d", "e"}[:len(gs)]
	all := append([]orb.Geometry{}, gs...)
	if cl := orb.Clone(gs[0]); cl != nil { // clone-then-compare: transitivity through a value that shares nothing
		all = append(all, cl)
		names = append(names, "Clone(a)")
		if overlapping(slotRanges(cl)) {
			// not promised by the statement (a clone shares nothing with the ORIGINAL): counted, never a failure
			stats.Class("layout-note: two parts of one clone share memory")
		}
	}
	if err := checkRelation(all, names); err != nil {
		return err
	}
	for i, g := range gs {
		if err := checkGeomBoundRaw(g); err != nil {
			return fmt.Errorf("%s: %v", names[i], err)
		}
		_ = g.Dimensions()
	}
	// operands are read-only for Equal, Bound, Clone, Dimensions: no vertex the caller can reach through an
	// operand may have changed; a write to a buffer cell outside every operand is only a layout note
	if !bitsEq(ctx.buf, buf0) {
		covered := make([]bool, len(buf0))
		for _, g := range gs {
			var ls [][]orb.Point
			pointLists(g, &ls)
			for _, l := range ls {
				for k := range l {
					for idx := range ctx.buf {
						if &ctx.buf[idx] == &l[k] {
							covered[idx] = true
						}
					}
				}
			}
		}
		for idx := range buf0 {
			if math.Float64bits(buf0[idx][0]) != math.Float64bits(ctx.buf[idx][0]) || math.Float64bits(buf0[idx][1]) != math.Float64bits(ctx.buf[idx][1]) {
				if covered[idx] {
					return fmt.Errorf("a read-only call (Equal, Bound, Clone, Dimensions) changed vertex %d of the caller's buffer from %v to %v", idx, buf0[idx], ctx.buf[idx])
				}
				stats.Class("layout-note: a read-only call wrote a buffer cell outside every operand")
			}
		}
	}
	// Clone of a value whose members share memory with each other (fresh build each time: the check overwrites it)
	for i := range gs {
		if err := checkCloneRaw(c.build()[i], orb.Clone, "orb.Clone of "+names[i], false); err != nil {
			return err
		}
		if err := checkCloneRaw(c.build()[i], typedClone, "the typed Clone method on "+names[i], false); err != nil {
			return err
		}
	}
	return nil
}

// slotRange is one slice reachable from a geometry: its first element's address, element size and length.
type slotRange struct {
	p    uintptr
	size uintptr
	n    int
}

func slotRanges(g orb.Geometry) []slotRange {
	var out []slotRange
	var rec func(g orb.Geometry)
	pts := func(l []orb.Point) {
		if len(l) > 0 {
			out = append(out, slotRange{uintptr(unsafe.Pointer(&l[0])), unsafe.Sizeof(l[0]), len(l)})
		}
	}
	rec = func(g orb.Geometry) {
		switch v := g.(type) {
		case orb.MultiPoint:
			pts(v)
		case orb.LineString:
			pts(v)
		case orb.Ring:
			pts(v)
		case orb.MultiLineString:
			if len(v) > 0 {
				out = append(out, slotRange{uintptr(unsafe.Pointer(&v[0])), unsafe.Sizeof(v[0]), len(v)})
			}
			for _, l := range v {
				pts(l)
			}
		case orb.Polygon:
			if len(v) > 0 {
				out = append(out, slotRange{uintptr(unsafe.Pointer(&v[0])), unsafe.Sizeof(v[0]), len(v)})
			}
			for _, r := range v {
				pts(r)
			}
		case orb.MultiPolygon:
			if len(v) > 0 {
				out = append(out, slotRange{uintptr(unsafe.Pointer(&v[0])), unsafe.Sizeof(v[0]), len(v)})
			}
			for _, p := range v {
				rec(p)
			}
		case orb.Collection:
			if len(v) > 0 {
				out = append(out, slotRange{uintptr(unsafe.Pointer(&v[0])), unsafe.Sizeof(v[0]), len(v)})
			}
			for _, m := range v {
				rec(m)
			}
		}
	}
	rec(g)
	return out
}

// overlapping: two of the ranges share at least one byte.
func overlapping(rs []slotRange) bool {
	for i := range rs {
		for j := i + 1; j < len(rs); j++ {
			ei, ej := rs[i].p+rs[i].size*uintptr(rs[i].n), rs[j].p+rs[j].size*uintptr(rs[j].n)
			if rs[i].p < ej && rs[j].p < ei {
				return true
			}
		}
	}
	return false
}

// innerSharing classifies how the slices of ONE value share memory with each other.
func innerSharing(g orb.Geometry) (identical, sameStartOtherLen, overlapOtherStart bool) {
	rs := slotRanges(g)
	for i := range rs {
		for j := i + 1; j < len(rs); j++ {
			ei, ej := rs[i].p+rs[i].size*uintptr(rs[i].n), rs[j].p+rs[j].size*uintptr(rs[j].n)
			switch {
			case rs[i].p == rs[j].p && rs[i].n == rs[j].n:
				identical = true
			case rs[i].p == rs[j].p:
				sameStartOtherLen = true
			case rs[i].p < ej && rs[j].p < ei:
				overlapOtherStart = true
			}
		}
	}
	return
}

// ---------------------------------------------------------------- classification by addresses

func pointLists(g orb.Geometry, out *[][]orb.Point) {
	switch v := g.(type) {
	case orb.MultiPoint:
		*out = append(*out, v)
	case orb.LineString:
		*out = append(*out, v)
	case orb.Ring:
		*out = append(*out, v)
	case orb.MultiLineString:
		for _, l := range v {
			*out = append(*out, l)
		}
	case orb.Polygon:
		for _, r := range v {
			*out = append(*out, r)
		}
	case orb.MultiPolygon:
		for _, p := range v {
			for _, r := range p {
				*out = append(*out, r)
			}
		}
	case orb.Collection:
		for _, m := range v {
			pointLists(m, out)
		}
	}
}

type sharing struct{ identical, sameStartOtherLen, overlapOtherStart bool }

func sharingOf(x, y orb.Geometry) sharing {
	var lx, ly [][]orb.Point
	pointLists(x, &lx)
	pointLists(y, &ly)
	var s sharing
	for _, a := range lx {
		for _, b := range ly {
			if len(a) == 0 || len(b) == 0 {
				continue
			}
			pa, pb := uintptr(unsafe.Pointer(&a[0])), uintptr(unsafe.Pointer(&b[0]))
			ea, eb := pa+uintptr(len(a))*16, pb+uintptr(len(b))*16
			switch {
			case pa == pb && len(a) == len(b):
				s.identical = true
			case pa == pb:
				s.sameStartOtherLen = true
			case pa < eb && pb < ea:
				s.overlapOtherStart = true
			}
		}
	}
	return s
}

func classifyAlias(c AliasCase) bool {
	gs := c.build()
	shared := false
	for i := range gs {
		for j := i + 1; j < len(gs); j++ {
			s := sharingOf(gs[i], gs[j])
			if s.identical {
				stats.Class("alias: a list is the identical window in both operands")
			}
			if s.sameStartOtherLen {
				stats.Class("alias: same first vertex in memory, different length (prefix)")
			}
			if s.overlapOtherStart {
				stats.Class("alias: overlapping windows with different start (suffix / shifted)")
			}
			if s.identical || s.sameStartOtherLen || s.overlapOtherStart {
				shared = true
				stats.Class(fmt.Sprintf("alias: sharing pair is structurally equal: %v", modelEqual(gs[i], gs[j])))
			}
		}
	}
	for _, s := range c.Geoms {
		if s.Of > 0 {
			if isList(s.Kind) {
				stats.Class("alias: re-slice g[lo:hi] of an earlier list")
			} else {
				stats.Class("alias: re-slice g[lo:hi] of an earlier member slice")
			}
		}
	}
	if !shared {
		stats.Class("alias: no memory shared between operands")
	}
	return shared
}

// ---------------------------------------------------------------- generator

func drawWin(t *rapid.T, n int) []int {
	switch rapid.IntRange(0, 5).Draw(t, "wmode") {
	case 0:
		return []int{0, n}
	case 1, 2:
		return []int{0, rapid.IntRange(0, n).Draw(t, "whi")}
	case 3:
		return []int{rapid.IntRange(0, n).Draw(t, "wlo"), n}
	}
	lo := rapid.IntRange(0, n).Draw(t, "wlo")
	return []int{lo, rapid.IntRange(lo, n).Draw(t, "whi")}
}

var aliasListKinds = []string{"LineString", "Ring", "MultiPoint"}

func drawSpec(t *rapid.T, n, depth int) AliasSpec {
	kinds := []string{"LineString", "Ring", "MultiPoint", "LineString", "Polygon", "MultiLineString", "Polygon", "MultiPolygon", "Collection"}
	if depth >= 2 {
		kinds = kinds[:8]
	}
	k := rapid.SampledFrom(kinds).Draw(t, "akind")
	switch k {
	case "Polygon", "MultiLineString":
		s := AliasSpec{Kind: k}
		for i, m := 0, rapid.IntRange(1, 3).Draw(t, "nmem"); i < m; i++ {
			s.Members = append(s.Members, AliasSpec{Win: drawWin(t, n)})
		}
		return s
	case "MultiPolygon":
		s := AliasSpec{Kind: k}
		for i, m := 0, rapid.IntRange(1, 2).Draw(t, "nmem"); i < m; i++ {
			p := AliasSpec{Kind: "Polygon"}
			for j, r := 0, rapid.IntRange(1, 2).Draw(t, "nring"); j < r; j++ {
				p.Members = append(p.Members, AliasSpec{Win: drawWin(t, n)})
			}
			s.Members = append(s.Members, p)
		}
		return s
	case "Collection":
		s := AliasSpec{Kind: k}
		for i, m := 0, rapid.IntRange(1, 3).Draw(t, "nmem"); i < m; i++ {
			s.Members = append(s.Members, drawSpec(t, n, depth+1))
		}
		return s
	}
	return AliasSpec{Kind: k, Win: drawWin(t, n)}
}

func (s AliasSpec) copy() AliasSpec {
	c := s
	c.Win = append([]int(nil), s.Win...)
	c.MWin = append([]int(nil), s.MWin...)
	c.Members = nil
	for _, m := range s.Members {
		c.Members = append(c.Members, m.copy())
	}
	return c
}

// derive perturbs windows (prefix, suffix, shift) and sometimes drops the last member or changes a list kind.
func derive(t *rapid.T, s AliasSpec, n int, top bool) AliasSpec {
	c := s.copy()
	if len(c.Win) == 2 {
		lo, hi := clampWin(c.Win[0], c.Win[1], n)
		switch rapid.IntRange(0, 6).Draw(t, "dmode") {
		case 0, 1: // keep: the identical window
		case 2, 3: // a prefix of it
			hi = rapid.IntRange(lo, hi).Draw(t, "dhi")
		case 4: // a suffix of it
			lo = rapid.IntRange(lo, hi).Draw(t, "dlo")
		case 5: // shifted by one
			if hi < n {
				lo, hi = lo+1, hi+1
			} else if lo > 0 {
				lo, hi = lo-1, hi-1
			}
		default:
			w := drawWin(t, n)
			lo, hi = w[0], w[1]
		}
		c.Win = []int{lo, hi}
		if top && isList(c.Kind) && rapid.IntRange(0, 4).Draw(t, "drekind") == 0 {
			c.Kind = rapid.SampledFrom(aliasListKinds).Draw(t, "dkind")
		}
	}
	if c.MBuf > 0 && len(c.MWin) == 2 {
		lo, hi := c.MWin[0], c.MWin[1]
		switch rapid.IntRange(0, 4).Draw(t, "dmmode") {
		case 1:
			hi = rapid.IntRange(lo, hi).Draw(t, "dmhi")
		case 2:
			lo = rapid.IntRange(lo, hi).Draw(t, "dmlo")
		case 3:
			hi++
		}
		c.MWin = []int{lo, hi}
	}
	for i := range c.Members {
		c.Members[i] = derive(t, c.Members[i], n, c.Kind == "Collection")
	}
	if len(c.Members) > 1 && rapid.IntRange(0, 5).Draw(t, "ddrop") == 0 {
		c.Members = c.Members[:len(c.Members)-1]
	}
	return c
}

func drawAliasCase(t *rapid.T) AliasCase {
	n := rapid.SampledFrom([]int{4, 5, 3, 6, 2, 8, 1}).Draw(t, "bufn")
	var coord *rapid.Generator[float64]
	if rapid.IntRange(0, 3).Draw(t, "bufcls") > 0 {
		coord = rapid.Custom(func(t *rapid.T) float64 { return float64(rapid.IntRange(0, 1).Draw(t, "i")) })
	} else {
		coord = gen.FiniteCoord()
	}
	buf := make([]orb.Point, n)
	for i := range buf {
		buf[i] = orb.Point{coord.Draw(t, "x"), coord.Draw(t, "y")}
		if i >= 2 && rapid.IntRange(0, 2).Draw(t, "period") == 0 {
			buf[i] = buf[i-2] // value-equal windows at different offsets
		}
	}
	c := AliasCase{Buf: gen.Pts(buf)}
	c.Geoms = []AliasSpec{drawSpec(t, n, 0)}
	addOperands(t, &c, n)
	return c
}

// addOperands appends b and c: re-slices of, perturbations of, or the same windows as an earlier operand.
func addOperands(t *rapid.T, c *AliasCase, n int) {
	next := func(label string) AliasSpec {
		built := c.build()
		from := rapid.IntRange(0, len(c.Geoms)-1).Draw(t, label+"from")
		base := c.Geoms[from]
		switch rapid.IntRange(0, 7).Draw(t, label+"mode") {
		case 0, 1, 2: // g[lo:hi] of an earlier operand
			w := drawWin(t, topLen(built[from]))
			kind := gen.KindOf(built[from])
			if isList(kind) && rapid.IntRange(0, 3).Draw(t, label+"rk") == 0 {
				kind = rapid.SampledFrom(aliasListKinds).Draw(t, label+"kind")
			}
			return AliasSpec{Kind: kind, Of: from + 1, Lo: w[0], Hi: w[1]}
		case 3, 4, 5:
			for base.Of > 0 { // derive from the spec that owns the windows
				base = c.Geoms[base.Of-1]
			}
			return derive(t, base, n, true)
		case 6: // the same windows again
			return base.copy()
		}
		return drawSpec(t, n, 0)
	}
	c.Geoms = append(c.Geoms, next("b"))
	c.Geoms = append(c.Geoms, next("c"))
}

func drawBuf(t *rapid.T) []orb.Point {
	n := rapid.SampledFrom([]int{4, 5, 3, 6, 8}).Draw(t, "bufn")
	var coord *rapid.Generator[float64]
	if rapid.IntRange(0, 3).Draw(t, "bufcls") > 0 {
		coord = rapid.Custom(func(t *rapid.T) float64 { return float64(rapid.IntRange(0, 1).Draw(t, "i")) })
	} else {
		coord = gen.FiniteCoord()
	}
	buf := make([]orb.Point, n)
	for i := range buf {
		buf[i] = orb.Point{coord.Draw(t, "x"), coord.Draw(t, "y")}
		if i >= 2 && rapid.IntRange(0, 2).Draw(t, "period") == 0 {
			buf[i] = buf[i-2]
		}
	}
	return buf
}

// drawInnerCase draws a value a whose OWN parts share memory with each other:
// containers whose member slices are windows of one member buffer (equal start
// and different lengths, identical, overlapping), a member that is a window of
// the part of its parent's backing array before it, the same point window as
// several members; then b and c as in drawAliasCase.
func drawInnerCase(t *rapid.T) AliasCase {
	buf := drawBuf(t)
	n := len(buf)
	c := AliasCase{Buf: gen.Pts(buf)}
	mwin := func(m int) []int { // windows of a member buffer of m elements: prefixes most of the time
		switch rapid.IntRange(0, 5).Draw(t, "mwmode") {
		case 0:
			return []int{0, m}
		case 1, 2, 3:
			return []int{0, rapid.IntRange(0, m).Draw(t, "mwhi")}
		}
		lo := rapid.IntRange(0, m).Draw(t, "mwlo")
		return []int{lo, rapid.IntRange(lo, m).Draw(t, "mwhi")}
	}
	leaf := func() AliasSpec { // a member without member buffer
		switch rapid.IntRange(0, 5).Draw(t, "leaf") {
		case 0:
			return AliasSpec{Kind: "Point", Win: drawWin(t, n)}
		case 1:
			return AliasSpec{Kind: "Polygon", Members: []AliasSpec{{Win: drawWin(t, n)}, {Win: drawWin(t, n)}}}
		}
		return AliasSpec{Kind: rapid.SampledFrom(aliasListKinds).Draw(t, "leafkind"), Win: drawWin(t, n)}
	}
	scenario := rapid.SampledFrom([]string{"Collection", "Collection", "Collection", "MultiPolygon", "MultiLineString", "Polygon", "lists"}).Draw(t, "scenario")
	m := rapid.IntRange(2, 5).Draw(t, "mbufn")
	var a AliasSpec
	switch scenario {
	case "Collection": // nested collections that are windows of one []Geometry
		mb := MemberBuf{Kind: "Collection"}
		for i := 0; i < m; i++ {
			if i >= 1 && rapid.IntRange(0, 3).Draw(t, "selfwin") == 0 { // a window of the elements before it
				mb.Elems = append(mb.Elems, AliasSpec{Kind: "Collection", MBuf: 1, MWin: []int{0, rapid.IntRange(0, i).Draw(t, "selfhi")}})
			} else {
				mb.Elems = append(mb.Elems, leaf())
			}
		}
		c.MBufs = []MemberBuf{mb}
		a = AliasSpec{Kind: "Collection"}
		for i, k := 0, rapid.IntRange(2, 4).Draw(t, "nmem"); i < k; i++ {
			switch {
			case i > 0 && rapid.IntRange(0, 4).Draw(t, "again") == 0:
				a.Members = append(a.Members, a.Members[i-1].copy()) // the same slice twice
			case rapid.IntRange(0, 4).Draw(t, "plain") == 0:
				a.Members = append(a.Members, leaf())
			default:
				a.Members = append(a.Members, AliasSpec{Kind: "Collection", MBuf: 1, MWin: mwin(m)})
			}
		}
		if rapid.IntRange(0, 4).Draw(t, "whole") == 0 { // the buffer itself as the value
			a = AliasSpec{Kind: "Collection", MBuf: 1, MWin: []int{0, m}}
		}
	case "MultiPolygon", "Polygon": // polygons that are windows of one []Ring
		mb := MemberBuf{Kind: "Polygon"}
		for i := 0; i < m; i++ {
			mb.Elems = append(mb.Elems, AliasSpec{Win: drawWin(t, n)})
		}
		c.MBufs = []MemberBuf{mb}
		kind := "MultiPolygon"
		if scenario == "Polygon" {
			kind = "Collection"
		}
		a = AliasSpec{Kind: kind}
		for i, k := 0, rapid.IntRange(2, 4).Draw(t, "nmem"); i < k; i++ {
			a.Members = append(a.Members, AliasSpec{Kind: "Polygon", MBuf: 1, MWin: mwin(m)})
		}
		if kind == "Collection" && rapid.Bool().Draw(t, "polybuf") { // multi-polygons that are windows of one []Polygon
			pb := MemberBuf{Kind: "MultiPolygon"}
			for i := 0; i < m; i++ {
				pb.Elems = append(pb.Elems, AliasSpec{Kind: "Polygon", MBuf: 1, MWin: mwin(m)})
			}
			c.MBufs = append(c.MBufs, pb)
			a = AliasSpec{Kind: "Collection"}
			for i, k := 0, rapid.IntRange(2, 3).Draw(t, "nmem2"); i < k; i++ {
				a.Members = append(a.Members, AliasSpec{Kind: "MultiPolygon", MBuf: 2, MWin: mwin(m)})
			}
		}
	case "MultiLineString": // multi-line-strings that are windows of one []LineString
		mb := MemberBuf{Kind: "MultiLineString"}
		for i := 0; i < m; i++ {
			mb.Elems = append(mb.Elems, AliasSpec{Win: drawWin(t, n)})
		}
		c.MBufs = []MemberBuf{mb}
		a = AliasSpec{Kind: "Collection"}
		for i, k := 0, rapid.IntRange(2, 4).Draw(t, "nmem"); i < k; i++ {
			a.Members = append(a.Members, AliasSpec{Kind: "MultiLineString", MBuf: 1, MWin: mwin(m)})
		}
	default: // the same point window several times, and prefixes of it, as members
		w := drawWin(t, n)
		kind := rapid.SampledFrom([]string{"Polygon", "MultiLineString", "Collection"}).Draw(t, "lkind")
		a = AliasSpec{Kind: kind}
		for i, k := 0, rapid.IntRange(2, 4).Draw(t, "nmem"); i < k; i++ {
			ww := []int{w[0], w[1]}
			if rapid.Bool().Draw(t, "shorter") {
				ww[1] = rapid.IntRange(w[0], w[1]).Draw(t, "shhi")
			}
			mem := AliasSpec{Win: ww}
			if kind == "Collection" {
				mem.Kind = rapid.SampledFrom(aliasListKinds).Draw(t, "lmk")
			}
			a.Members = append(a.Members, mem)
		}
	}
	c.Geoms = []AliasSpec{a}
	addOperands(t, &c, n)
	return c
}

func TestPropAlias(t *testing.T) {
	assumptions()
	stats.Check(t, 30000, 2000000, func(rt *rapid.T) {
		c := drawAliasCase(rt)
		stats.Class("alias kind:" + c.Geoms[0].Kind)
		if classifyAlias(c) {
			stats.NonTrivial(gen.JSON(c))
			if stats.WantSample("operands sharing memory") {
				stats.Sample("operands sharing memory", c)
			}
		}
		stats.Try(rt, "TestPropAlias", c, func() error { return checkAlias(c) })
	})
}

// ---------------------------------------------------------------- enumeration

func allWindows(n int) [][]int {
	var ws [][]int
	for lo := 0; lo <= n; lo++ {
		for hi := lo; hi <= n; hi++ {
			ws = append(ws, []int{lo, hi})
		}
	}
	return ws
}

// TestEnumAlias: every pair of windows of one buffer (so: a list with every
// prefix, suffix and overlapping window of itself, and with itself) under
// every pair of list kinds; every pair of polygons / multi-line-strings of
// <= 2 rings cut from one buffer; every pair of re-slices of one three-member
// polygon, multi-polygon and collection.
func TestEnumAlias(t *testing.T) {
	p, q := gen.P{0, 0}, gen.P{1, 0}
	var idx, size int64
	run := func(c AliasCase) {
		idx++
		size++
		if !stats.Mine(idx) {
			return
		}
		stats.Eval("TestEnumAlias", 1)
		gs := c.build()
		if s := sharingOf(gs[0], gs[1]); s.identical || s.sameStartOtherLen || s.overlapOtherStart {
			stats.NonTrivial(gen.JSON(c))
			if s.sameStartOtherLen && stats.WantSample("enum: operand is a prefix of the other") {
				stats.Sample("enum: operand is a prefix of the other", c)
			}
		}
		stats.TryT(t, "TestEnumAlias", c, func() error { return checkAlias(c) })
	}

	buf5 := []gen.P{p, q, p, q, p}
	w5 := allWindows(5)
	for _, ka := range aliasListKinds {
		for _, kb := range aliasListKinds {
			for _, wa := range w5 {
				for _, wb := range w5 {
					run(AliasCase{Buf: buf5, Geoms: []AliasSpec{{Kind: ka, Win: wa}, {Kind: kb, Win: wb}, {Kind: kb, Win: wa}}})
				}
			}
		}
	}

	buf4 := []gen.P{p, q, p, q}
	w4 := allWindows(4)
	var ringSets [][]AliasSpec
	for _, w := range w4 {
		ringSets = append(ringSets, []AliasSpec{{Win: w}})
		for _, v := range w4 {
			ringSets = append(ringSets, []AliasSpec{{Win: w}, {Win: v}})
		}
	}
	for i, ra := range ringSets {
		for j, rb := range ringSets {
			kind := "Polygon"
			if (i+j)%2 == 1 {
				kind = "MultiLineString"
			}
			run(AliasCase{Buf: buf4, Geoms: []AliasSpec{{Kind: kind, Members: ra}, {Kind: kind, Members: rb}}})
		}
	}

	three := []AliasSpec{{Kind: "LineString", Win: []int{0, 4}}, {Kind: "LineString", Win: []int{0, 2}}, {Kind: "MultiPoint", Win: []int{0, 4}}}
	poly3 := AliasSpec{Kind: "Polygon", Members: []AliasSpec{{Win: []int{0, 4}}, {Win: []int{0, 2}}, {Win: []int{0, 4}}}}
	bases := []AliasSpec{
		poly3,
		{Kind: "MultiLineString", Members: poly3.Members},
		{Kind: "MultiPolygon", Members: []AliasSpec{poly3, {Kind: "Polygon", Members: poly3.Members[:2]}, poly3}},
		{Kind: "Collection", Members: three},
		{Kind: "Collection", Members: []AliasSpec{poly3, {Kind: "Collection", Members: three}, poly3}},
	}
	w3 := allWindows(3)
	for _, base := range bases {
		for _, wb := range w3 {
			for _, wc := range w3 {
				run(AliasCase{Buf: buf4, Geoms: []AliasSpec{base, {Kind: base.Kind, Of: 1, Lo: wb[0], Hi: wb[1]}, {Kind: base.Kind, Of: 1, Lo: wc[0], Hi: wc[1]}}})
			}
		}
	}
	stats.Subspace("operands sharing memory: all pairs of the 21 windows of a 5-vertex buffer x 9 list-kind pairs; all pairs of polygons / multi-line-strings of <= 2 rings from the 15 windows of a 4-vertex buffer; all pairs of re-slices g[lo:hi] of 5 three-member containers", size, true)
}

// TestPropInnerAlias: aliasing INSIDE one value (round L5).
func TestPropInnerAlias(t *testing.T) {
	assumptions()
	stats.Check(t, 16000, 1000000, func(rt *rapid.T) {
		c := drawInnerCase(rt)
		gs := c.build()
		id, ss, ov := innerSharing(gs[0])
		if id {
			stats.Class("inner: the same slice twice inside one value")
		}
		if ss {
			stats.Class("inner: slices with the same start and different lengths inside one value")
		}
		if ov {
			stats.Class("inner: overlapping slices with different starts inside one value")
		}
		if len(c.MBufs) > 0 {
			stats.Class("inner: member buffer of kind " + c.MBufs[0].Kind)
		}
		classifyAlias(c)
		if id || ss || ov {
			stats.NonTrivial(gen.JSON(c))
			if stats.WantSample("aliasing inside one value") {
				stats.Sample("aliasing inside one value", c)
			}
		} else {
			stats.Class("inner: no sharing inside a")
		}
		stats.Try(rt, "TestPropInnerAlias", c, func() error { return checkAlias(c) })
	})
}
