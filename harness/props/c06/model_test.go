package c06

// The harness's own model of the nine geometry kinds: a mutable tree used by
// the generators and the edit operations, and the independent oracles
// (structural equality, vertex min/max box, exact shoelace sign). Nothing in
// this file calls the orb function it is used to judge.

import (
	"fmt"
	"math"
	"math/big"

	"github.com/paulmach/orb"

	"verifharness/internal/gen"
)

// ---------------------------------------------------------------- tree

// node is one geometry value. Pts holds the coordinates of Point (1),
// Bound (2: min, max), MultiPoint, LineString and Ring; Kids the members of
// MultiLineString (LineString), Polygon (Ring), MultiPolygon (Polygon) and
// Collection (anything). Nil marks a zero-length slice as a nil slice.
type node struct {
	Kind string
	Pts  []orb.Point
	Nil  bool
	Kids []*node
}

func isList(k string) bool { return k == "MultiPoint" || k == "LineString" || k == "Ring" }
func isContainer(k string) bool {
	return k == "MultiLineString" || k == "Polygon" || k == "MultiPolygon" || k == "Collection"
}

// kidKind is the kind the members of a container must have ("" = any).
func kidKind(k string) string {
	switch k {
	case "MultiLineString":
		return "LineString"
	case "Polygon":
		return "Ring"
	case "MultiPolygon":
		return "Polygon"
	}
	return ""
}

func (n *node) copy() *node {
	c := &node{Kind: n.Kind, Nil: n.Nil}
	if n.Pts != nil {
		c.Pts = append([]orb.Point{}, n.Pts...)
	}
	for _, k := range n.Kids {
		c.Kids = append(c.Kids, k.copy())
	}
	return c
}

func (n *node) pts() []orb.Point {
	if len(n.Pts) == 0 {
		if n.Nil {
			return nil
		}
		return []orb.Point{}
	}
	return append([]orb.Point{}, n.Pts...)
}

// build makes a fresh orb value (no memory shared with the tree).
func (n *node) build() orb.Geometry {
	switch n.Kind {
	case "Point":
		return n.Pts[0]
	case "Bound":
		return orb.Bound{Min: n.Pts[0], Max: n.Pts[1]}
	case "MultiPoint":
		return orb.MultiPoint(n.pts())
	case "LineString":
		return orb.LineString(n.pts())
	case "Ring":
		return orb.Ring(n.pts())
	case "MultiLineString":
		if len(n.Kids) == 0 && n.Nil {
			return orb.MultiLineString(nil)
		}
		v := make(orb.MultiLineString, len(n.Kids))
		for i, k := range n.Kids {
			v[i] = k.build().(orb.LineString)
		}
		return v
	case "Polygon":
		if len(n.Kids) == 0 && n.Nil {
			return orb.Polygon(nil)
		}
		v := make(orb.Polygon, len(n.Kids))
		for i, k := range n.Kids {
			v[i] = k.build().(orb.Ring)
		}
		return v
	case "MultiPolygon":
		if len(n.Kids) == 0 && n.Nil {
			return orb.MultiPolygon(nil)
		}
		v := make(orb.MultiPolygon, len(n.Kids))
		for i, k := range n.Kids {
			v[i] = k.build().(orb.Polygon)
		}
		return v
	case "Collection":
		if len(n.Kids) == 0 && n.Nil {
			return orb.Collection(nil)
		}
		v := make(orb.Collection, len(n.Kids))
		for i, k := range n.Kids {
			v[i] = k.build()
		}
		return v
	}
	panic("build: unknown kind " + n.Kind)
}

func listNode(kind string, ps []orb.Point) *node {
	return &node{Kind: kind, Pts: append([]orb.Point{}, ps...), Nil: ps == nil}
}

// parse is the inverse of build.
func parse(g orb.Geometry) *node {
	switch v := g.(type) {
	case orb.Point:
		return &node{Kind: "Point", Pts: []orb.Point{v}}
	case orb.Bound:
		return &node{Kind: "Bound", Pts: []orb.Point{v.Min, v.Max}}
	case orb.MultiPoint:
		return listNode("MultiPoint", v)
	case orb.LineString:
		return listNode("LineString", v)
	case orb.Ring:
		return listNode("Ring", v)
	case orb.MultiLineString:
		n := &node{Kind: "MultiLineString", Nil: v == nil}
		for _, l := range v {
			n.Kids = append(n.Kids, listNode("LineString", l))
		}
		return n
	case orb.Polygon:
		n := &node{Kind: "Polygon", Nil: v == nil}
		for _, r := range v {
			n.Kids = append(n.Kids, listNode("Ring", r))
		}
		return n
	case orb.MultiPolygon:
		n := &node{Kind: "MultiPolygon", Nil: v == nil}
		for _, p := range v {
			n.Kids = append(n.Kids, parse(p))
		}
		return n
	case orb.Collection:
		n := &node{Kind: "Collection", Nil: v == nil}
		for _, m := range v {
			n.Kids = append(n.Kids, parse(m))
		}
		return n
	}
	panic(fmt.Sprintf("parse: %T", g))
}

// levels is the number of slice levels above the coordinates (Point/Bound 0,
// LineString 1, Polygon 2, MultiPolygon 3, Collection 1 + deepest member).
func (n *node) levels() int {
	switch n.Kind {
	case "Point", "Bound":
		return 0
	case "MultiPoint", "LineString", "Ring":
		return 1
	case "MultiLineString", "Polygon":
		return 2
	case "MultiPolygon":
		return 3
	}
	d := 0
	for _, k := range n.Kids {
		if l := k.levels(); l > d {
			d = l
		}
	}
	return d + 1
}

// collDepth is the collection nesting depth.
func (n *node) collDepth() int {
	if n.Kind != "Collection" {
		return 0
	}
	d := 0
	for _, k := range n.Kids {
		if l := k.collDepth(); l > d {
			d = l
		}
	}
	return d + 1
}

func (n *node) walk(f func(*node)) {
	f(n)
	for _, k := range n.Kids {
		k.walk(f)
	}
}

// hasVertices: does the value contribute a vertex to the bound (by the model)?
func (n *node) hasVertices() bool {
	_, ok := modelBound(n.build())
	return ok
}

// emptyBeforeNonEmpty: some container has a vertex-less member before one with vertices.
func (n *node) emptyBeforeNonEmpty() bool {
	found := false
	n.walk(func(m *node) {
		if !isContainer(m.Kind) || m.Kind == "Polygon" { // only ring 0 of a polygon counts for its bound
			return
		}
		seenEmpty := false
		for _, k := range m.Kids {
			if !k.hasVertices() {
				seenEmpty = true
			} else if seenEmpty {
				found = true
			}
		}
	})
	return found
}

func (n *node) hasNilSlice() bool {
	r := false
	n.walk(func(m *node) {
		if m.Nil && len(m.Pts) == 0 && len(m.Kids) == 0 && (isList(m.Kind) || isContainer(m.Kind)) {
			r = true
		}
	})
	return r
}

func (n *node) hasSingleVertex() bool {
	r := false
	n.walk(func(m *node) {
		if isList(m.Kind) && len(m.Pts) == 1 {
			r = true
		}
	})
	return r
}

// ---------------------------------------------------------------- oracles

// modelEqual: same dynamic kinds, nesting and lengths everywhere, and every
// coordinate == (so +0 equals -0; NaN is outside the domain). nil and empty
// slices have the same length and are therefore equal.
func modelEqual(a, b orb.Geometry) bool {
	sa, ba := gen.Flatten(a)
	sb, bb := gen.Flatten(b)
	if sa != sb || len(ba) != len(bb) {
		return false
	}
	for i := range ba {
		if math.Float64frombits(ba[i]) != math.Float64frombits(bb[i]) {
			return false
		}
	}
	return true
}

// emptyB is the harness's own "denotes no point" predicate for boxes.
func emptyB(b orb.Bound) bool { return b.Min[0] > b.Max[0] || b.Min[1] > b.Max[1] }

// modelVertices calls f for every vertex the statement names: all vertices,
// but only the outer ring of a polygon. A Bound value stands for its two
// corners; an inverted Bound denotes the empty set and has none.
func modelVertices(g orb.Geometry, f func(orb.Point)) {
	each := func(ps []orb.Point) {
		for _, p := range ps {
			f(p)
		}
	}
	switch v := g.(type) {
	case orb.Point:
		f(v)
	case orb.Bound:
		if !emptyB(v) {
			f(v.Min)
			f(v.Max)
		}
	case orb.MultiPoint:
		each(v)
	case orb.LineString:
		each(v)
	case orb.Ring:
		each(v)
	case orb.MultiLineString:
		for _, l := range v {
			each(l)
		}
	case orb.Polygon:
		if len(v) > 0 {
			each(v[0])
		}
	case orb.MultiPolygon:
		for _, p := range v {
			if len(p) > 0 {
				each(p[0])
			}
		}
	case orb.Collection:
		for _, m := range v {
			modelVertices(m, f)
		}
	default:
		panic(fmt.Sprintf("modelVertices: %T", g))
	}
}

// modelBound is the min/max box of modelVertices; ok is false when there is no vertex.
func modelBound(g orb.Geometry) (b orb.Bound, ok bool) {
	modelVertices(g, func(p orb.Point) {
		if !ok {
			b = orb.Bound{Min: p, Max: p}
			ok = true
			return
		}
		for i := 0; i < 2; i++ {
			if p[i] < b.Min[i] {
				b.Min[i] = p[i]
			}
			if p[i] > b.Max[i] {
				b.Max[i] = p[i]
			}
		}
	})
	return b, ok
}

// numerically equal boxes (+0 == -0)
func sameBox(a, b orb.Bound) bool {
	return a.Min[0] == b.Min[0] && a.Min[1] == b.Min[1] && a.Max[0] == b.Max[0] && a.Max[1] == b.Max[1]
}

// eqB: equal as sets of points: both empty, or numerically the same box.
func eqB(a, b orb.Bound) bool {
	if emptyB(a) || emptyB(b) {
		return emptyB(a) && emptyB(b)
	}
	return sameBox(a, b)
}

// scaled returns f * 2^-emin as an exact integer (f = mant * 2^e with e >= emin).
func scaled(f float64, emin int) *big.Int {
	if f == 0 {
		return new(big.Int)
	}
	frac, exp := math.Frexp(f)
	z := big.NewInt(int64(frac * (1 << 53)))
	return z.Lsh(z, uint(exp-53-emin))
}

// shoelace returns the exact sign of twice the signed area A of the implicitly
// closed vertex list, whether A is "robustly" non-zero for a float64
// evaluation that subtracts the first vertex before multiplying
// (|A| > 1e-9*S with S = sum of |products| relative to the first vertex, and
// |A| > 2^-990 so that underflowing products cannot matter), and the number
// of distinct vertices (counted up to 3). All arithmetic is exact.
func shoelace(ps []orb.Point) (sign int, robust bool, distinct int) {
	sign, robust, _, distinct = shoelaceX(ps)
	return
}

// shoelaceX additionally reports whether a float64 evaluation in vertex order
// is EXACT: every coordinate is a multiple of 1/2 and every difference,
// product and partial sum stays below 2^50, so no operation rounds. Then the
// sign (zero included) must be the exact one, for any number of vertices.
func shoelaceX(ps []orb.Point) (sign int, robust, exact bool, distinct int) {
	distinct = distinctUpTo3(ps)
	n := len(ps)
	if n < 3 {
		return 0, false, true, distinct
	}
	if sg, rb, ex, ok := shoelaceInt(ps); ok {
		return sg, rb, ex, distinct
	}
	emin := 0
	first := true
	for _, p := range ps {
		for _, v := range p {
			if v != 0 {
				_, e := math.Frexp(v)
				if first || e-53 < emin {
					emin, first = e-53, false
				}
			}
		}
	}
	ox, oy := scaled(ps[0][0], emin), scaled(ps[0][1], emin)
	area, sabs := new(big.Int), new(big.Int)
	t1, t2 := new(big.Int), new(big.Int)
	xi, yi, xj, yj := new(big.Int), new(big.Int), new(big.Int), new(big.Int)
	for i := 0; i < n; i++ {
		j := (i + 1) % n
		xi.Sub(scaled(ps[i][0], emin), ox)
		yi.Sub(scaled(ps[i][1], emin), oy)
		xj.Sub(scaled(ps[j][0], emin), ox)
		yj.Sub(scaled(ps[j][1], emin), oy)
		t1.Mul(xi, yj)
		t2.Mul(xj, yi)
		area.Add(area, t1)
		area.Sub(area, t2)
		sabs.Add(sabs, t1.Abs(t1))
		sabs.Add(sabs, t2.Abs(t2))
	}
	sign = area.Sign()
	absA := new(big.Int).Abs(area)
	lhs := new(big.Int).Mul(absA, big.NewInt(1000000000))
	robust = lhs.Cmp(sabs) > 0 && absA.BitLen()+2*emin > -990
	return sign, robust, false, distinct
}

func distinctUpTo3(ps []orb.Point) int {
	var seen [3]orb.Point
	k := 0
	for _, p := range ps {
		dup := false
		for i := 0; i < k; i++ {
			if seen[i] == p { // +0 == -0
				dup = true
			}
		}
		if !dup {
			seen[k] = p
			k++
			if k == 3 {
				break
			}
		}
	}
	return k
}

// shoelaceInt is the exact evaluation in int64 for lists whose coordinates
// are multiples of 1/2 with |v| <= 2^28 (doubled coordinates < 2^29,
// differences < 2^30, products < 2^60); it gives up (ok = false) when a
// partial sum leaves +-2^61. Quantities are in units of 1/4.
func shoelaceInt(ps []orb.Point) (sign int, robust, exact, ok bool) {
	n := len(ps)
	for _, p := range ps {
		for i := 0; i < 2; i++ {
			v := p[i] * 2
			if v != math.Trunc(v) || math.Abs(p[i]) > 1<<28 {
				return 0, false, false, false
			}
		}
	}
	ox, oy := int64(ps[0][0]*2), int64(ps[0][1]*2)
	var area, maxMag int64
	sabs := 0.0
	abs := func(v int64) int64 {
		if v < 0 {
			return -v
		}
		return v
	}
	note := func(v int64) {
		if a := abs(v); a > maxMag {
			maxMag = a
		}
	}
	for i := 0; i < n; i++ {
		j := (i + 1) % n
		xi, yi := int64(ps[i][0]*2)-ox, int64(ps[i][1]*2)-oy
		xj, yj := int64(ps[j][0]*2)-ox, int64(ps[j][1]*2)-oy
		t1, t2 := xi*yj, xj*yi
		note(t1)
		note(t2)
		note(t1 - t2)
		area += t1 - t2
		note(area)
		if abs(area) > 1<<61 {
			return 0, false, false, false
		}
		sabs += float64(abs(t1)) + float64(abs(t2))
	}
	switch {
	case area > 0:
		sign = 1
	case area < 0:
		sign = -1
	}
	return sign, float64(abs(area))*1e9 > sabs, maxMag < 1<<52, true
}

// halfLattice: every coordinate is a multiple of 1/2 with |v| <= 2^19, so the
// float64 shoelace evaluation has no rounding at all.
func halfLattice(ps []orb.Point) bool {
	for _, p := range ps {
		for i := 0; i < 2; i++ {
			v := p[i] * 2
			if v != math.Trunc(v) || math.Abs(p[i]) > 1<<19 {
				return false
			}
		}
	}
	return true
}

func maxAbs(ps []orb.Point) float64 {
	m := 0.0
	for _, p := range ps {
		m = math.Max(m, math.Max(math.Abs(p[0]), math.Abs(p[1])))
	}
	return m
}
