// Package c06 decides property C06 (Clone is deep, Equal is structural, Bound
// is the tight box, bound lattice laws, Reverse / Orientation, Round) by
// generated search against the independent models of model_test.go.
package c06

import (
	"encoding/json"
	"fmt"
	"math"
	"strings"
	"testing"

	"github.com/paulmach/orb"
	"pgregory.net/rapid"

	"verifharness/internal/gen"
	"verifharness/internal/kf"
	"verifharness/internal/stats"
)

func TestMain(m *testing.M) { stats.Main(m, "C06") }

// ---------------------------------------------------------------- case types (also the replay formats)

// GeomCase: one geometry; clauses Clone, Equal (reflexive), Bound, Round.
type GeomCase struct {
	G      gen.G `json:"g"`
	Factor int   `json:"factor"` // orb.Round factor, 0 = the default (no argument)
}

// PairCase: three geometries at small edit distance; clauses Equal = structural, equivalence.
type PairCase struct {
	A     gen.G    `json:"a"`
	B     gen.G    `json:"b"`
	C     gen.G    `json:"c"`
	Edits []string `json:"edits"` // how B and C were derived (information only)
}

// BoundCase: three boxes and two points; the lattice laws.
type BoundCase struct {
	A gen.B `json:"a"`
	B gen.B `json:"b"`
	C gen.B `json:"c"`
	P gen.P `json:"p"`
	Q gen.P `json:"q"`
}

// LineCase: one vertex list used as LineString and as Ring; Reverse, Orientation.
type LineCase struct {
	Pts []gen.P `json:"pts"`
	Nil bool    `json:"nil_slice"`
}

// ---------------------------------------------------------------- known finding: Clone of a typed nil slice

const keyCloneNil = "clone-nil-slice"

// cloneNilKnown: the finding is listed as "known" (a defect that stays); only
// then is its input family skipped in the Clone clause.
func cloneNilKnown() bool {
	_, ok := kf.Get("C06", keyCloneNil)
	return ok
}

// cloneNilFamily: orb.Clone's own nil checks are reached for a typed nil slice
// at the top level or as a (nested) collection member.
func cloneNilFamily(g orb.Geometry) bool {
	switch v := g.(type) {
	case orb.MultiPoint:
		return v == nil
	case orb.LineString:
		return v == nil
	case orb.Ring:
		return v == nil
	case orb.MultiLineString:
		return v == nil
	case orb.Polygon:
		return v == nil
	case orb.MultiPolygon:
		return v == nil
	case orb.Collection:
		if v == nil {
			return true
		}
		for _, m := range v {
			if cloneNilFamily(m) {
				return true
			}
		}
	}
	return false
}

// topNilSlice: g itself is a typed nil slice.
func topNilSlice(g orb.Geometry) bool {
	if c, ok := g.(orb.Collection); ok {
		return c == nil
	}
	return cloneNilFamily(g)
}

// ---------------------------------------------------------------- Clone

func typedClone(g orb.Geometry) orb.Geometry {
	switch v := g.(type) {
	case orb.Point:
		return v
	case orb.Bound:
		return v
	case orb.MultiPoint:
		return v.Clone()
	case orb.LineString:
		return v.Clone()
	case orb.Ring:
		return v.Clone()
	case orb.MultiLineString:
		return v.Clone()
	case orb.Polygon:
		return v.Clone()
	case orb.MultiPolygon:
		return v.Clone()
	case orb.Collection:
		return v.Clone()
	}
	panic(fmt.Sprintf("typedClone: %T", g))
}

type snap struct {
	sig  string
	bits []uint64
}

func snapshot(g orb.Geometry) snap {
	s, b := gen.Flatten(g)
	return snap{s, b}
}

func (s snap) diff(g orb.Geometry) string {
	sig, bits := gen.Flatten(g)
	if sig != s.sig {
		return fmt.Sprintf("structure %s became %s", s.sig, sig)
	}
	for i := range bits {
		if i >= len(s.bits) || bits[i] != s.bits[i] {
			return fmt.Sprintf("coordinate word %d became %v", i, math.Float64frombits(bits[i]))
		}
	}
	return ""
}

// sentinel picks a value that occurs nowhere in the given snapshots.
func sentinel(ss ...snap) float64 {
	for k := 0; ; k++ {
		s := 424242.4242 + float64(k)
		found := false
		for _, sn := range ss {
			for _, b := range sn.bits {
				if math.Float64frombits(b) == s {
					found = true
				}
			}
		}
		if !found {
			return s
		}
	}
}

// replaceMembers overwrites every element of every slice above the
// coordinate level (rings of a polygon, members of a collection, ...).
func replaceMembers(g orb.Geometry, s float64) {
	p := orb.Point{s, s}
	switch v := g.(type) {
	case orb.MultiLineString:
		for i := range v {
			v[i] = orb.LineString{p}
		}
	case orb.Polygon:
		for i := range v {
			v[i] = orb.Ring{p}
		}
	case orb.MultiPolygon:
		for i := range v {
			for j := range v[i] {
				v[i][j] = orb.Ring{p}
			}
		}
		for i := range v {
			v[i] = orb.Polygon{orb.Ring{p}, orb.Ring{p}}
		}
	case orb.Collection:
		for i := range v {
			replaceMembers(v[i], s)
		}
		for i := range v {
			v[i] = p
		}
	}
}

// checkClone judges one way of cloning: the clone is a value of the same kind,
// equal to the original (orb.Equal both ways and by the model), Clone does not
// modify its argument, and no write through one of the two (every coordinate
// slot, then every member slot at every level) is visible through the other.
//
// aliasOnly (used for the input family of the known finding clone-nil-slice,
// where the clone's typed nil slices have become nil interfaces) skips the
// kind and equality clauses and keeps the shared-memory ones.
func checkClone(g0 orb.Geometry, cloner func(orb.Geometry) orb.Geometry, what string, aliasOnly bool) error {
	return checkCloneRaw(gen.DeepCopy(g0), cloner, what, aliasOnly)
}

// checkCloneRaw works on orig itself (and overwrites it): orig may contain
// members that share memory with each other.
func checkCloneRaw(orig orb.Geometry, cloner func(orb.Geometry) orb.Geometry, what string, aliasOnly bool) error {
	so := snapshot(orig)
	cl := cloner(orig)
	if d := so.diff(orig); d != "" {
		return fmt.Errorf("%s modified its argument: %s", what, d)
	}
	if aliasOnly {
		if cl == nil {
			return nil
		}
		if _, cb := gen.Flatten(cl); len(cb) != len(so.bits) {
			return fmt.Errorf("%s has %d coordinates, the original %d", what, len(cb)/2, len(so.bits)/2)
		}
	} else {
		if cl == nil {
			return fmt.Errorf("%s of a %s (%s) is a nil interface, not a %s", what, gen.KindOf(orig), so.sig, gen.KindOf(orig))
		}
		if gen.KindOf(cl) != gen.KindOf(orig) {
			return fmt.Errorf("%s of a %s is a %s", what, gen.KindOf(orig), gen.KindOf(cl))
		}
		if !modelEqual(orig, cl) {
			_, why := gen.SameBits(orig, cl)
			return fmt.Errorf("%s differs from the original: %s", what, why)
		}
		if !orb.Equal(orig, cl) || !orb.Equal(cl, orig) {
			return fmt.Errorf("orb.Equal(original, %s) = %v, reversed = %v, want true", what, orb.Equal(orig, cl), orb.Equal(cl, orig))
		}
	}
	sc := snapshot(cl)
	s := sentinel(so, sc)
	set := func(p *float64) { *p = s }

	// writes through the clone
	gen.Walk(cl, set)
	if d := so.diff(orig); d != "" {
		return fmt.Errorf("%s shares coordinate memory with the original: writing every coordinate of the clone changed the original: %s", what, d)
	}
	replaceMembers(cl, s)
	if d := so.diff(orig); d != "" {
		return fmt.Errorf("%s shares a member slice with the original: replacing the members of the clone changed the original: %s", what, d)
	}

	// results are independent values: after the scribbling above the same call gives the same value again, and
	// two results alive at the same time share nothing (coordinates, member slices, spare capacity) with each
	// other or with the original
	cl = cloner(orig)
	if d := sc.diff(cl); d != "" {
		return fmt.Errorf("%s repeated after its first result was overwritten gives another value: %s", what, d)
	}
	sib := cloner(orig)
	gen.Walk(sib, set)
	scribbleCapacity(sib, s)
	replaceMembers(sib, s)
	if d := sc.diff(cl); d != "" {
		return fmt.Errorf("two results of %s share memory: overwriting one changed the other: %s", what, d)
	}
	if d := so.diff(orig); d != "" {
		return fmt.Errorf("%s shares memory with the original (spare capacity included): overwriting and appending to the clone changed the original: %s", what, d)
	}
	if third := cloner(orig); third != nil {
		if d := sc.diff(third); d != "" {
			return fmt.Errorf("third %s differs from the earlier results: %s", what, d)
		}
	}

	// writes through the original
	if sc.sig != so.sig && !aliasOnly {
		return fmt.Errorf("second %s has structure %s, want %s", what, sc.sig, so.sig)
	}
	gen.Walk(orig, set)
	if d := sc.diff(cl); d != "" {
		return fmt.Errorf("%s shares coordinate memory with the original: writing every coordinate of the original changed the clone: %s", what, d)
	}
	replaceMembers(orig, s)
	if d := sc.diff(cl); d != "" {
		return fmt.Errorf("%s shares a member slice with the original: replacing the members of the original changed the clone: %s", what, d)
	}
	return nil
}

// scribbleCapacity writes s into the spare capacity (what an append would
// use) of every point list of g and of its top-level member slice.
func scribbleCapacity(g orb.Geometry, s float64) {
	var lists [][]orb.Point
	pointLists(g, &lists)
	for _, l := range lists {
		full := l[:cap(l)]
		for i := len(l); i < len(full); i++ {
			full[i] = orb.Point{s, s}
		}
	}
	scribbleMemberCapacity(g, s)
}

func scribbleMemberCapacity(g orb.Geometry, s float64) {
	p := orb.Point{s, s}
	switch v := g.(type) {
	case orb.MultiLineString:
		for full, i := v[:cap(v)], len(v); i < len(full); i++ {
			full[i] = orb.LineString{p}
		}
	case orb.Polygon:
		for full, i := v[:cap(v)], len(v); i < len(full); i++ {
			full[i] = orb.Ring{p}
		}
	case orb.MultiPolygon:
		for full, i := v[:cap(v)], len(v); i < len(full); i++ {
			full[i] = orb.Polygon{orb.Ring{p}}
		}
		for _, pg := range v {
			for full, i := pg[:cap(pg)], len(pg); i < len(full); i++ {
				full[i] = orb.Ring{p}
			}
		}
	case orb.Collection:
		for full, i := v[:cap(v)], len(v); i < len(full); i++ {
			full[i] = p
		}
		for _, m := range v {
			if _, isColl := m.(orb.Collection); isColl {
				scribbleMemberCapacity(m, s)
			}
		}
	}
}

// ---------------------------------------------------------------- Bound of a geometry

func checkGeomBound(g orb.Geometry) error { return checkGeomBoundRaw(gen.DeepCopy(g)) }

// checkGeomBoundRaw judges Bound() on the value as it is now, at the address where it is.
func checkGeomBoundRaw(in orb.Geometry) error {
	g := in
	s := snapshot(in)
	got := in.Bound()
	if d := s.diff(in); d != "" {
		return fmt.Errorf("Bound() modified the geometry: %s", d)
	}
	want, has := modelBound(g)
	if !has {
		if !got.IsEmpty() || !emptyB(got) {
			return fmt.Errorf("geometry without vertices (%s): Bound() = %v, IsEmpty() = %v, want an empty bound", s.sig, got, got.IsEmpty())
		}
		return nil
	}
	if got.IsEmpty() {
		return fmt.Errorf("geometry with vertices (%s): Bound() = %v reports IsEmpty", s.sig, got)
	}
	if !sameBox(got, want) {
		return fmt.Errorf("Bound() = %v, want the min/max box of the vertices %v (%s)", got, want, s.sig)
	}
	return nil
}

// ---------------------------------------------------------------- Round

// documentedDefaultFactor: "The default is 6 decimal places" (round.go). The harness's own constant, so that the
// expectation does not move with orb.DefaultRoundingFactor.
const documentedDefaultFactor = 1e6

const roundDomain = 1e7 // |coordinate| <= 1e7 and factor <= 1e7: x*factor stays far below 2^53

func inRoundDomain(g orb.Geometry) bool {
	_, bits := gen.Flatten(g)
	for _, b := range bits {
		if math.Abs(math.Float64frombits(b)) > roundDomain {
			return false
		}
	}
	return true
}

func roundWith(g orb.Geometry, factor int) orb.Geometry {
	if factor == 0 {
		return orb.Round(g)
	}
	if factor%2 == 1 || factor == 1000 { // the variadic argument through a caller-owned slice with spare capacity
		fs := append(make([]int, 0, 4), factor)
		tail := fs[:4]
		tail[1], tail[2], tail[3] = -7, -8, -9
		out := orb.Round(g, fs...)
		if fs[0] != factor {
			panic(fmt.Sprintf("orb.Round changed its factor argument from %d to %d", factor, fs[0]))
		}
		if tail[1] != -7 || tail[2] != -8 || tail[3] != -9 {
			stats.Class("layout-note: orb.Round wrote the spare capacity of its factor slice")
		}
		return out
	}
	return orb.Round(g, factor)
}

// checkRound: same kind and lengths, every coordinate within
// 0.5/f*(1+1e-9) + 1e-15*|x| of its input and a multiple of 1/f
// (|r*f - nearest integer| <= 1e-9 + |r*f|*2^-50), and rounding the result
// again changes nothing.
func checkRound(g orb.Geometry, factor int) error {
	f := float64(factor)
	if factor == 0 {
		f = documentedDefaultFactor
	}
	sig0, bits0 := gen.Flatten(g)
	out := roundWith(gen.DeepCopy(g), factor)
	if out == nil {
		if topNilSlice(g) {
			return nil // Round of a typed nil slice returns a nil interface; no coordinate to judge
		}
		return fmt.Errorf("Round(%s) returned a nil interface", sig0)
	}
	sig1, bits1 := gen.Flatten(out)
	if sig1 != sig0 {
		// collection members that are typed nil slices come back as nil interfaces: lengths still agree
		if !(cloneNilFamily(g) && len(bits0) == len(bits1)) {
			return fmt.Errorf("Round changed the structure %s to %s", sig0, sig1)
		}
	}
	if len(bits1) != len(bits0) {
		return fmt.Errorf("Round changed the number of coordinates %d to %d", len(bits0), len(bits1))
	}
	for i := range bits0 {
		x, r := math.Float64frombits(bits0[i]), math.Float64frombits(bits1[i])
		tol := 0.5/f*(1+1e-9) + 1e-15*math.Abs(x)
		if !(math.Abs(r-x) <= tol) {
			return fmt.Errorf("Round(factor %v) moved coordinate %d from %v to %v: |d| = %v > %v", f, i, x, r, math.Abs(r-x), tol)
		}
		// the result is a multiple of 1/f: r*f is an integer up to the two roundings of k/f*f
		if k := r * f; !(math.Abs(k-math.Round(k)) <= 1e-9+math.Abs(k)/(1<<50)) {
			return fmt.Errorf("Round(factor %v) left coordinate %d = %v (input %v) off the 1/%v grid", f, i, r, x, f)
		}
	}
	out2 := roundWith(gen.DeepCopy(out), factor)
	if out2 == nil {
		return fmt.Errorf("Round(Round(%s)) returned a nil interface", sig0)
	}
	_, bits2 := gen.Flatten(out2)
	if len(bits2) != len(bits1) {
		return fmt.Errorf("Round is not idempotent: coordinate count %d then %d", len(bits1), len(bits2))
	}
	for i := range bits1 {
		if math.Float64frombits(bits1[i]) != math.Float64frombits(bits2[i]) {
			return fmt.Errorf("Round(factor %v) is not idempotent: coordinate %d (input %v): %v then %v", f, i,
				math.Float64frombits(bits0[i]), math.Float64frombits(bits1[i]), math.Float64frombits(bits2[i]))
		}
	}
	return nil
}

// checkInPlaceChange: Bound, Equal and Clone depend on the CURRENT values of
// their arguments only. Every function is called once, then every slice-backed
// coordinate is changed in place (x -> -x-1: same addresses, same lengths, other
// values) and the calls are repeated and judged against the model of the new
// values: an answer remembered under the address of the data is stale here.
func checkInPlaceChange(g orb.Geometry, cloneKnown bool) error {
	in, ref := gen.DeepCopy(g), gen.DeepCopy(g)
	_ = in.Bound()
	_ = orb.Equal(in, ref)
	_ = orb.Equal(ref, in)
	_ = orb.Clone(in)
	gen.Walk(in, func(p *float64) { *p = -*p - 1 })
	if err := checkGeomBoundRaw(in); err != nil {
		return fmt.Errorf("after changing the coordinates in place: %v", err)
	}
	want := modelEqual(in, ref)
	if got := orb.Equal(in, ref); got != want {
		return fmt.Errorf("after changing the coordinates of g in place: orb.Equal(g, old copy) = %v, structural comparison says %v", got, want)
	}
	if got := orb.Equal(ref, in); got != want {
		return fmt.Errorf("after changing the coordinates of g in place: orb.Equal(old copy, g) = %v, structural comparison says %v", got, want)
	}
	if !orb.Equal(in, in) {
		return fmt.Errorf("after changing the coordinates of g in place: orb.Equal(g, g) = false")
	}
	if cl := orb.Clone(in); cl != nil && !cloneKnown {
		if !modelEqual(cl, in) {
			_, why := gen.SameBits(cl, in)
			return fmt.Errorf("after changing the coordinates of g in place: orb.Clone(g) is not the current value: %s", why)
		}
	}
	return nil
}

// ---------------------------------------------------------------- checkGeom

func checkGeom(c GeomCase) error {
	g := c.G.V
	if g == nil {
		return nil // the nil interface is not one of the nine kinds
	}
	// known finding clone-nil-slice: for its input family only the equality / kind clause is dropped
	known := cloneNilKnown() && cloneNilFamily(g)
	if err := checkClone(g, orb.Clone, "orb.Clone", known); err != nil {
		return err
	}
	// Collection.Clone clones its members through orb.Clone: same family, except for the top level itself
	if err := checkClone(g, typedClone, "the typed Clone method", known && !topNilSlice(g)); err != nil {
		return err
	}
	if !orb.Equal(g, g) {
		return fmt.Errorf("orb.Equal(g, g) = false")
	}
	if cp := gen.DeepCopy(g); !orb.Equal(g, cp) || !orb.Equal(cp, g) {
		return fmt.Errorf("orb.Equal(g, independent copy of g) = false")
	}
	if err := checkGeomBound(g); err != nil {
		return err
	}
	if err := checkInPlaceChange(g, known); err != nil {
		return err
	}
	if inRoundDomain(g) {
		if err := checkRound(g, c.Factor); err != nil {
			return err
		}
	}
	return nil
}

// ---------------------------------------------------------------- checkPair

func typedEqual(a, b orb.Geometry) (eq bool, ok bool) {
	switch x := a.(type) {
	case orb.Point:
		if y, k := b.(orb.Point); k {
			return x.Equal(y), true
		}
	case orb.Bound:
		if y, k := b.(orb.Bound); k {
			return x.Equal(y), true
		}
	case orb.MultiPoint:
		if y, k := b.(orb.MultiPoint); k {
			return x.Equal(y), true
		}
	case orb.LineString:
		if y, k := b.(orb.LineString); k {
			return x.Equal(y), true
		}
	case orb.Ring:
		if y, k := b.(orb.Ring); k {
			return x.Equal(y), true
		}
	case orb.MultiLineString:
		if y, k := b.(orb.MultiLineString); k {
			return x.Equal(y), true
		}
	case orb.Polygon:
		if y, k := b.(orb.Polygon); k {
			return x.Equal(y), true
		}
	case orb.MultiPolygon:
		if y, k := b.(orb.MultiPolygon); k {
			return x.Equal(y), true
		}
	case orb.Collection:
		if y, k := b.(orb.Collection); k {
			return x.Equal(y), true
		}
	}
	return false, false
}

func checkPair(c PairCase) error {
	gs := []orb.Geometry{c.A.V, c.B.V, c.C.V}
	for _, g := range gs {
		if g == nil {
			return nil
		}
	}
	return checkRelation(gs, []string{"a", "b", "c"})
}

// checkRelation: on every ordered pair of gs (operands may share memory: the
// expected answer looks at values only) orb.Equal and the typed Equal method
// agree with the structural comparison; Equal modifies nothing and is
// reflexive, symmetric and transitive on gs.
func checkRelation(gs []orb.Geometry, names []string) error {
	n := len(gs)
	eq := make([][]bool, n)
	snaps := make([]snap, n)
	for i := range gs {
		eq[i] = make([]bool, n)
		snaps[i] = snapshot(gs[i])
	}
	for i := range gs {
		for j := range gs {
			eq[i][j] = orb.Equal(gs[i], gs[j])
			want := modelEqual(gs[i], gs[j])
			if eq[i][j] != want {
				_, why := gen.SameBits(gs[i], gs[j])
				return fmt.Errorf("orb.Equal(%s, %s) = %v, structural comparison says %v (%s vs %s; first bit difference: %s)",
					names[i], names[j], eq[i][j], want, snaps[i].sig, snaps[j].sig, why)
			}
			if te, ok := typedEqual(gs[i], gs[j]); ok && te != want {
				return fmt.Errorf("%s.Equal(%s) (typed method of %s) = %v, structural comparison says %v (%s vs %s)", names[i], names[j], gen.KindOf(gs[i]), te, want, snaps[i].sig, snaps[j].sig)
			}
		}
	}
	for i := range gs {
		if d := snaps[i].diff(gs[i]); d != "" {
			return fmt.Errorf("Equal modified %s: %s", names[i], d)
		}
		if !eq[i][i] {
			return fmt.Errorf("Equal is not reflexive on %s", names[i])
		}
		for j := range gs {
			if eq[i][j] != eq[j][i] {
				return fmt.Errorf("Equal is not symmetric: Equal(%s,%s)=%v, Equal(%s,%s)=%v", names[i], names[j], eq[i][j], names[j], names[i], eq[j][i])
			}
			for k := range gs {
				if eq[i][j] && eq[j][k] && !eq[i][k] {
					return fmt.Errorf("Equal is not transitive: %s=%s, %s=%s but not %s=%s", names[i], names[j], names[j], names[k], names[i], names[k])
				}
			}
		}
	}
	return nil
}

// ---------------------------------------------------------------- checkBounds (lattice laws)

func corners(b orb.Bound) []orb.Point {
	return []orb.Point{b.Min, b.Max, {b.Min[0], b.Max[1]}, {b.Max[0], b.Min[1]}}
}

func modelContains(b orb.Bound, p orb.Point) bool {
	return b.Min[0] <= p[0] && p[0] <= b.Max[0] && b.Min[1] <= p[1] && p[1] <= b.Max[1]
}

func modelUnion(a, b orb.Bound) orb.Bound {
	return orb.Bound{
		Min: orb.Point{math.Min(a.Min[0], b.Min[0]), math.Min(a.Min[1], b.Min[1])},
		Max: orb.Point{math.Max(a.Max[0], b.Max[0]), math.Max(a.Max[1], b.Max[1])},
	}
}

// containsAgrees: IsEmpty and Contains of x against the harness's own definitions.
func containsAgrees(x orb.Bound, probes []orb.Point) error {
	if x.IsEmpty() != emptyB(x) {
		return fmt.Errorf("%v.IsEmpty() = %v, want %v", x, x.IsEmpty(), emptyB(x))
	}
	for _, r := range probes {
		if x.Contains(r) != modelContains(x, r) {
			return fmt.Errorf("%v.Contains(%v) = %v, want %v", x, r, x.Contains(r), modelContains(x, r))
		}
	}
	return nil
}

func checkBounds(c BoundCase) error {
	a, b, cc := c.A.Bound(), c.B.Bound(), c.C.Bound()
	p, q := c.P.Pt(), c.Q.Pt()
	probes := append(append(append([]orb.Point{p, q}, corners(a)...), corners(b)...), corners(cc)...)

	// IsEmpty and Contains against the direct definitions
	for _, x := range []orb.Bound{a, b, cc} {
		if err := containsAgrees(x, probes); err != nil {
			return err
		}
	}

	// Union
	union := func(x, y orb.Bound) (orb.Bound, error) {
		u := x.Union(y)
		switch {
		case emptyB(x) && emptyB(y):
			if !emptyB(u) {
				return u, fmt.Errorf("union of two empty bounds %v, %v is %v, not empty", x, y, u)
			}
		case emptyB(x):
			if !sameBox(u, y) {
				return u, fmt.Errorf("empty receiver is not the identity of Union: %v.Union(%v) = %v", x, y, u)
			}
		case emptyB(y):
			if !sameBox(u, x) {
				return u, fmt.Errorf("empty argument is not the identity of Union: %v.Union(%v) = %v", x, y, u)
			}
		default:
			if w := modelUnion(x, y); !sameBox(u, w) {
				return u, fmt.Errorf("%v.Union(%v) = %v, want %v", x, y, u, w)
			}
		}
		return u, nil
	}
	ab, err := union(a, b)
	if err != nil {
		return err
	}
	ba, err := union(b, a)
	if err != nil {
		return err
	}
	if !eqB(ab, ba) {
		return fmt.Errorf("Union is not commutative: %v.Union(%v) = %v, reversed %v", a, b, ab, ba)
	}
	bc, err := union(b, cc)
	if err != nil {
		return err
	}
	abC, err := union(ab, cc)
	if err != nil {
		return err
	}
	aBC, err := union(a, bc)
	if err != nil {
		return err
	}
	if !eqB(abC, aBC) {
		return fmt.Errorf("Union is not associative: (a∪b)∪c = %v, a∪(b∪c) = %v for a=%v b=%v c=%v", abC, aBC, a, b, cc)
	}
	if aa := a.Union(a); !eqB(aa, a) {
		return fmt.Errorf("Union is not idempotent: %v.Union(itself) = %v", a, aa)
	}
	if x := ab.Union(a); !eqB(x, ab) {
		return fmt.Errorf("absorption: (a∪b)∪a = %v, want a∪b = %v (a=%v b=%v)", x, ab, a, b)
	}
	if x := ab.Union(b); !eqB(x, ab) {
		return fmt.Errorf("absorption: (a∪b)∪b = %v, want a∪b = %v (a=%v b=%v)", x, ab, a, b)
	}
	for _, r := range probes {
		if (modelContains(a, r) || modelContains(b, r)) && !ab.Contains(r) {
			return fmt.Errorf("%v.Union(%v) = %v loses the point %v", a, b, ab, r)
		}
	}
	if err := containsAgrees(ab, probes); err != nil {
		return err
	}

	// Extend
	e := a.Extend(p)
	if !e.Contains(p) {
		return fmt.Errorf("%v.Extend(%v) = %v does not contain the point", a, p, e)
	}
	if err := containsAgrees(e, probes); err != nil {
		return err
	}
	for _, r := range probes {
		if modelContains(a, r) && !e.Contains(r) {
			return fmt.Errorf("Extend is not monotone: %v contains %v, %v.Extend(%v) = %v does not", a, r, a, p, e)
		}
	}
	if ee := e.Extend(p); !eqB(ee, e) {
		return fmt.Errorf("Extend twice with the same point: %v then %v", e, ee)
	}
	if eq := e.Extend(q); !eq.Contains(p) || !eq.Contains(q) {
		return fmt.Errorf("%v.Extend(%v).Extend(%v) = %v does not contain both points", a, p, q, eq)
	}
	if !emptyB(a) {
		w := modelUnion(a, orb.Bound{Min: p, Max: p})
		if !sameBox(e, w) {
			return fmt.Errorf("%v.Extend(%v) = %v, want %v", a, p, e, w)
		}
		if x := a.Union(orb.Bound{Min: p, Max: p}); !sameBox(x, e) {
			return fmt.Errorf("%v.Union(point bound %v) = %v but Extend gives %v", a, p, x, e)
		}
		if x := e.Union(a); !eqB(x, e) {
			return fmt.Errorf("absorption: a.Extend(p).Union(a) = %v, want %v (a=%v p=%v)", x, e, a, p)
		}
	}

	// ToRing / ToPolygon (not named by the statement): the only demand is that the call depends on the bound
	// alone, i.e. repeating it after the caller overwrote an earlier result gives the same value again. Whether two
	// results share memory is a layout fact: counted as a note, never a failure.
	{
		r1 := a.ToRing()
		s1 := append([]orb.Point{}, r1...)
		r2 := a.ToRing()
		for full, i := r2[:cap(r2)], 0; i < len(full); i++ {
			full[i] = orb.Point{424242.4242, 424242.4242}
		}
		if !bitsEq(r1, s1) {
			stats.Class("layout-note: two results of Bound.ToRing share memory")
		}
		if r3 := a.ToRing(); !bitsEq(r3, s1) {
			return fmt.Errorf("%v.ToRing() repeated after an earlier result was overwritten gives %v, before %v", a, r3, s1)
		}
		p1 := a.ToPolygon()
		sp := snapshot(p1)
		p2 := a.ToPolygon()
		gen.Walk(p2, func(f *float64) { *f = 424242.4242 })
		replaceMembers(p2, 424242.4242)
		if d := sp.diff(p1); d != "" {
			stats.Class("layout-note: two results of Bound.ToPolygon share memory")
		}
		if d := sp.diff(a.ToPolygon()); d != "" {
			return fmt.Errorf("%v.ToPolygon() repeated after an earlier result was overwritten: %s", a, d)
		}
	}

	// Intersects
	ia, ib := a.Intersects(b), b.Intersects(a)
	if ia != ib {
		return fmt.Errorf("Intersects is not symmetric: %v, %v: %v vs %v", a, b, ia, ib)
	}
	if !emptyB(a) && !emptyB(b) {
		overlap := math.Max(a.Min[0], b.Min[0]) <= math.Min(a.Max[0], b.Max[0]) && math.Max(a.Min[1], b.Min[1]) <= math.Min(a.Max[1], b.Max[1])
		if ia != overlap {
			return fmt.Errorf("%v.Intersects(%v) = %v, interval overlap says %v", a, b, ia, overlap)
		}
		if ia {
			w := orb.Point{math.Max(a.Min[0], b.Min[0]), math.Max(a.Min[1], b.Min[1])}
			if !a.Contains(w) || !b.Contains(w) {
				return fmt.Errorf("%v and %v intersect but the common corner %v is not contained in both", a, b, w)
			}
		}
		if !a.Intersects(ab) || !ab.Intersects(b) {
			return fmt.Errorf("%v or %v does not intersect their union %v", a, b, ab)
		}
	}
	if !emptyB(a) && !a.Intersects(a) {
		return fmt.Errorf("%v does not intersect itself", a)
	}
	for _, r := range probes {
		if modelContains(a, r) && modelContains(b, r) && !ia {
			return fmt.Errorf("%v and %v both contain %v but do not intersect", a, b, r)
		}
	}
	return nil
}

// ---------------------------------------------------------------- checkLine (Reverse, Orientation)

func bitsEq(a, b []orb.Point) bool {
	if len(a) != len(b) {
		return false
	}
	for i := range a {
		if math.Float64bits(a[i][0]) != math.Float64bits(b[i][0]) || math.Float64bits(a[i][1]) != math.Float64bits(b[i][1]) {
			return false
		}
	}
	return true
}

func (c LineCase) pts() []orb.Point {
	if c.Nil && len(c.Pts) == 0 {
		return nil
	}
	ps := gen.OrbPts(c.Pts)
	if ps == nil {
		ps = []orb.Point{}
	}
	return ps
}

const orientSafeMax = 1e150 // coordinates above this may overflow the float64 shoelace products

func checkLine(c LineCase) error { return checkLinePts(c.pts()) }

// brief prints short vertex lists in full and long ones by their ends.
type brief []orb.Point

func (b brief) String() string {
	if len(b) <= 24 {
		return fmt.Sprint([]orb.Point(b))
	}
	return fmt.Sprintf("[%d vertices: %v %v %v ... %v %v]", len(b), b[0], b[1], b[2], b[len(b)-2], b[len(b)-1])
}

// checkLinePts judges Reverse and Orientation on one vertex list of any length (O(n)).
func checkLinePts(orig0 []orb.Point) error {
	orig := brief(orig0)
	n := len(orig)
	want := make(brief, n)
	for i, p := range orig {
		want[n-1-i] = p
	}
	cp := func() []orb.Point {
		if orig == nil {
			return nil
		}
		return append([]orb.Point{}, orig...)
	}

	// LineString.Reverse
	ls := orb.LineString(cp())
	ls.Reverse()
	if !bitsEq(ls, want) {
		return fmt.Errorf("LineString.Reverse of %v gave %v, want %v", orig, brief(ls), want)
	}
	ls.Reverse()
	if !bitsEq(ls, orig) {
		return fmt.Errorf("LineString.Reverse twice of %v gave %v", orig, brief(ls))
	}
	ls = nil

	// Ring.Reverse
	r := orb.Ring(cp())
	o1 := r.Orientation()
	if !bitsEq(r, orig) {
		return fmt.Errorf("Ring.Orientation modified the ring: %v became %v", orig, brief(r))
	}
	r.Reverse()
	if !bitsEq(r, want) {
		return fmt.Errorf("Ring.Reverse of %v gave %v, want %v", orig, brief(r), want)
	}
	o2 := r.Orientation()
	r.Reverse()
	if !bitsEq(r, orig) {
		return fmt.Errorf("Ring.Reverse twice of %v gave %v", orig, brief(r))
	}
	for _, o := range []orb.Orientation{o1, o2} {
		if o != orb.CCW && o != orb.CW && o != 0 {
			return fmt.Errorf("Orientation returned %d", o)
		}
	}

	sign, robust, exact, distinct := shoelaceX(orig)
	r = nil
	if distinct < 3 {
		if o1 != 0 || o2 != 0 {
			return fmt.Errorf("ring with %d distinct vertices %v: Orientation = %d, reversed %d, want 0", distinct, orig, o1, o2)
		}
		return nil
	}
	// Orientation depends on the current values only: mirror the same memory in place (x <-> y) and ask again
	{
		m := orb.Ring(cp())
		_ = m.Orientation()
		for i := range m {
			m[i][0], m[i][1] = m[i][1], m[i][0]
		}
		om := m.Orientation()
		ms, mr, mexact, md := shoelaceX(m)
		switch {
		case md < 3:
			if om != 0 {
				return fmt.Errorf("after mirroring the ring in place: %d distinct vertices %v, Orientation = %d, want 0", md, brief(m), om)
			}
		case mexact || (mr && maxAbs(m) <= orientSafeMax):
			if int(om) != ms {
				return fmt.Errorf("after mirroring the ring in place to %v: Orientation = %d, exact shoelace sign is %d (before mirroring: %d)", brief(m), om, ms, o1)
			}
		}
	}

	// Orientation() subtracts the ring's own first vertex before multiplying, so for an unclosed ring the
	// reversed evaluation has other products (and another S) than the forward one: judge each on its own.
	_, robustRev, exactRev, _ := shoelaceX(want)
	safe := maxAbs(orig) <= orientSafeMax
	// exact: no float64 operation of the evaluation rounds (half-integer coordinates, every difference, product and
	// partial sum below 2^50): the sign must be the exact one, zero included, for any number of vertices.
	// robust: |A| > 1e-9*S and |A| > 2^-990, far outside the rounding error (about 1e-15*S) of a float64 evaluation.
	// Otherwise the sign is within float noise of zero (or overflows) and nothing is demanded.
	if (exact || (robust && safe)) && int(o1) != sign {
		return fmt.Errorf("Orientation of %v = %d, exact shoelace sign is %d", orig, o1, sign)
	}
	if (exactRev || (robustRev && safe)) && int(o2) != -sign {
		return fmt.Errorf("Orientation of the reversed ring of %v = %d, want %d (orientation before reversing: %d)", orig, o2, -sign, o1)
	}
	return nil
}

// ================================================================ generators

type coordClass struct {
	name string
	g    *rapid.Generator[float64]
}

var coordClasses = []coordClass{
	{"lattice 0..2", rapid.Custom(func(t *rapid.T) float64 { return float64(rapid.IntRange(0, 2).Draw(t, "i")) })},
	{"lattice 0..2", nil}, // weight
	{"lattice -8..8 and halves", gen.Mix(gen.SmallInt(8), gen.Half(8))},
	{"finite mix", gen.FiniteCoord()},
	{"finite mix", nil},
	{"float -200..200", rapid.Float64Range(-200, 200)},
	{"hostile constants", gen.HostileConst()},
}

func drawCoordClass(t *rapid.T) coordClass {
	i := rapid.IntRange(0, len(coordClasses)-1).Draw(t, "coordclass")
	for coordClasses[i].g == nil {
		i--
	}
	return coordClasses[i]
}

type geomGen struct {
	t     *rapid.T
	coord *rapid.Generator[float64]
}

func (gg geomGen) point() orb.Point {
	return orb.Point{gg.coord.Draw(gg.t, "x"), gg.coord.Draw(gg.t, "y")}
}

func (gg geomGen) points(n int) []orb.Point {
	ps := make([]orb.Point, n)
	for i := range ps {
		ps[i] = gg.point()
		if i > 0 && rapid.IntRange(0, 7).Draw(gg.t, "dup") == 0 {
			ps[i] = ps[rapid.IntRange(0, i-1).Draw(gg.t, "dupof")]
		}
	}
	return ps
}

// list draws a MultiPoint / LineString / Ring node. forceEmpty makes it vertex-less.
func (gg geomGen) list(kind string, forceEmpty bool) *node {
	// states: 0..8 regular, 9 single vertex, 10 empty, 11 nil (rapid favours small values)
	st := rapid.IntRange(0, 11).Draw(gg.t, "state")
	if forceEmpty {
		st = 10 + st%2
	}
	switch st {
	case 10:
		return &node{Kind: kind, Pts: []orb.Point{}}
	case 11:
		return &node{Kind: kind, Nil: true}
	case 9:
		return &node{Kind: kind, Pts: gg.points(1)}
	}
	if kind == "Ring" && st >= 2 {
		ps := gg.points(rapid.IntRange(3, 5).Draw(gg.t, "n"))
		return &node{Kind: kind, Pts: append(ps, ps[0])}
	}
	if rapid.IntRange(0, 299).Draw(gg.t, "large") == 211 { // rare large class: around the thresholds 64, 512, 1024
		base := rapid.SampledFrom([]int{64, 512, 1024}).Draw(gg.t, "largebase")
		palette := gg.points(8)
		ps := make([]orb.Point, base+rapid.IntRange(-2, 3).Draw(gg.t, "largeoff"))
		for i := range ps {
			ps[i] = palette[rapid.IntRange(0, 7).Draw(gg.t, "pal")]
		}
		return &node{Kind: kind, Pts: ps}
	}
	return &node{Kind: kind, Pts: gg.points(rapid.IntRange(2, 5).Draw(gg.t, "n"))}
}

var topKinds = []string{"Point", "MultiPoint", "LineString", "MultiLineString", "MultiLineString", "Ring", "Polygon", "Polygon",
	"MultiPolygon", "MultiPolygon", "Collection", "Collection", "Collection", "Bound"}

func (gg geomGen) geom(kind string, depth int, forceEmpty bool) *node {
	if kind == "" {
		kind = rapid.SampledFrom(topKinds).Draw(gg.t, "kind")
		if forceEmpty && kind == "Point" {
			kind = "LineString"
		}
		if kind == "Collection" && depth >= 3 {
			kind = "MultiLineString"
		}
	}
	switch kind {
	case "Point":
		return &node{Kind: kind, Pts: []orb.Point{gg.point()}}
	case "Bound":
		a, b := gg.point(), gg.point()
		bk := rapid.IntRange(0, 7).Draw(gg.t, "bk")
		if forceEmpty || bk == 2 {
			if bk%2 == 0 {
				return &node{Kind: kind, Pts: []orb.Point{{1, 1}, {-1, -1}}} // the empty sentinel
			}
			mx := orb.Point{math.Max(a[0], b[0]), math.Max(a[1], b[1])}
			mn := orb.Point{math.Min(a[0], b[0]), math.Min(a[1], b[1])}
			if mn[0] == mx[0] {
				return &node{Kind: kind, Pts: []orb.Point{{1, 1}, {-1, -1}}}
			}
			return &node{Kind: kind, Pts: []orb.Point{{mx[0], mn[1]}, {mn[0], mx[1]}}} // inverted in x only
		}
		switch bk {
		case 0: // as drawn: possibly inverted
			return &node{Kind: kind, Pts: []orb.Point{a, b}}
		case 1:
			return &node{Kind: kind, Pts: []orb.Point{a, a}}
		}
		mn := orb.Point{math.Min(a[0], b[0]), math.Min(a[1], b[1])}
		mx := orb.Point{math.Max(a[0], b[0]), math.Max(a[1], b[1])}
		return &node{Kind: kind, Pts: []orb.Point{mn, mx}}
	case "MultiPoint", "LineString", "Ring":
		return gg.list(kind, forceEmpty)
	}
	// containers
	n := &node{Kind: kind}
	nk := rapid.SampledFrom([]int{2, 1, 3, 2, 1, 2, 3, 4, 0}).Draw(gg.t, "members")
	if forceEmpty && rapid.Bool().Draw(gg.t, "noMembers") {
		nk = 0
	}
	if nk == 0 {
		n.Nil = rapid.Bool().Draw(gg.t, "nilSlice")
		return n
	}
	if depth == 0 && rapid.IntRange(0, 299).Draw(gg.t, "manyMembers") == 211 { // rare: more than 64 members
		nk = 62 + rapid.IntRange(0, 5).Draw(gg.t, "manyOff")
	}
	emptyFirst := nk >= 2 && rapid.IntRange(0, 3).Draw(gg.t, "emptyFirst") == 0
	for i := 0; i < nk; i++ {
		fe := forceEmpty || (emptyFirst && i == 0)
		n.Kids = append(n.Kids, gg.geom(kidKind(kind), depth+1, fe))
	}
	return n
}

func drawGeom(t *rapid.T) (*node, string) {
	cc := drawCoordClass(t)
	gg := geomGen{t, cc.g}
	return gg.geom("", 0, false), cc.name
}

// ---------------------------------------------------------------- edits (near-equal pairs)

type editSite struct {
	n      *node
	parent *node // nil for the root
	op     string
}

func sites(root *node) []editSite {
	var out []editSite
	var rec func(n, parent *node)
	rec = func(n, parent *node) {
		add := func(op string) { out = append(out, editSite{n, parent, op}) }
		free := parent == nil || parent.Kind == "Collection" // any kind may stand here
		if len(n.Pts) > 0 {
			add("ulp")
			add("ulp") // weight
			for _, p := range n.Pts {
				if p[0] == 0 || p[1] == 0 {
					add("zerosign")
					break
				}
			}
		}
		if isList(n.Kind) {
			add("addpt")
			if len(n.Pts) > 0 {
				add("droppt")
			}
			if len(n.Pts) >= 2 {
				add("swappt")
			}
			if len(n.Pts) == 0 {
				add("niltoggle")
			}
			if free {
				add("rekind")
			}
		}
		if isContainer(n.Kind) {
			add("emptykid")
			if len(n.Kids) > 0 {
				add("dropkid")
				add("dupkid")
			}
			if len(n.Kids) >= 2 {
				add("swapkid")
			}
			if len(n.Kids) == 0 {
				add("niltoggle")
			}
		}
		if free {
			switch n.Kind {
			case "Polygon", "MultiLineString", "Bound", "Point":
				add("rekind")
			}
			add("wrap")
			if n.Kind == "Collection" && len(n.Kids) == 1 {
				add("unwrap")
			}
			if n.Kind == "Polygon" && len(n.Kids) == 1 {
				add("unwrap")
			}
		}
		for _, k := range n.Kids {
			rec(k, n)
		}
	}
	rec(root, nil)
	return out
}

func emptyOf(kind string, t *rapid.T) *node {
	if kind == "" {
		kind = rapid.SampledFrom([]string{"LineString", "MultiPoint", "Ring", "Polygon", "MultiLineString", "MultiPolygon", "Collection"}).Draw(t, "emptykind")
	}
	return &node{Kind: kind, Nil: rapid.Bool().Draw(t, "nilkid")}
}

// applyEdit changes the tree in place (the root may be replaced) and describes the edit.
func applyEdit(t *rapid.T, root *node) (*node, string) {
	ss := sites(root)
	s := ss[rapid.IntRange(0, len(ss)-1).Draw(t, "site")]
	n := s.n
	replace := func(nn *node) {
		if s.parent == nil {
			root = nn
			return
		}
		for i, k := range s.parent.Kids {
			if k == n {
				s.parent.Kids[i] = nn
			}
		}
	}
	switch s.op {
	case "ulp":
		i := rapid.IntRange(0, len(n.Pts)-1).Draw(t, "pt")
		ax := rapid.IntRange(0, 1).Draw(t, "axis")
		dir := math.Inf(1)
		if rapid.Bool().Draw(t, "down") {
			dir = math.Inf(-1)
		}
		v := math.Nextafter(n.Pts[i][ax], dir)
		if math.IsInf(v, 0) {
			v = math.Nextafter(n.Pts[i][ax], -dir)
		}
		n.Pts[i][ax] = v
	case "zerosign":
		for i := range n.Pts {
			for ax := 0; ax < 2; ax++ {
				if n.Pts[i][ax] == 0 { // flip the sign of every zero: the value stays == equal
					if math.Signbit(n.Pts[i][ax]) {
						n.Pts[i][ax] = 0
					} else {
						n.Pts[i][ax] = math.Copysign(0, -1)
					}
				}
			}
		}
	case "addpt":
		i := rapid.IntRange(0, len(n.Pts)).Draw(t, "at")
		p := orb.Point{float64(rapid.IntRange(0, 2).Draw(t, "nx")), float64(rapid.IntRange(0, 2).Draw(t, "ny"))}
		if len(n.Pts) > 0 && rapid.Bool().Draw(t, "dupnb") {
			p = n.Pts[rapid.IntRange(0, len(n.Pts)-1).Draw(t, "nb")]
		}
		n.Pts = append(n.Pts[:i], append([]orb.Point{p}, n.Pts[i:]...)...)
		n.Nil = false
	case "droppt":
		i := rapid.IntRange(0, len(n.Pts)-1).Draw(t, "pt")
		n.Pts = append(n.Pts[:i], n.Pts[i+1:]...)
	case "swappt":
		i := rapid.IntRange(0, len(n.Pts)-2).Draw(t, "pt")
		n.Pts[i], n.Pts[i+1] = n.Pts[i+1], n.Pts[i]
	case "niltoggle":
		n.Nil = !n.Nil
	case "emptykid":
		i := rapid.IntRange(0, len(n.Kids)).Draw(t, "at")
		k := emptyOf(kidKind(n.Kind), t)
		n.Kids = append(n.Kids[:i], append([]*node{k}, n.Kids[i:]...)...)
		n.Nil = false
	case "dropkid":
		i := rapid.IntRange(0, len(n.Kids)-1).Draw(t, "kid")
		n.Kids = append(n.Kids[:i], n.Kids[i+1:]...)
	case "dupkid":
		i := rapid.IntRange(0, len(n.Kids)-1).Draw(t, "kid")
		n.Kids = append(n.Kids[:i], append([]*node{n.Kids[i].copy()}, n.Kids[i:]...)...)
	case "swapkid":
		i := rapid.IntRange(0, len(n.Kids)-2).Draw(t, "kid")
		n.Kids[i], n.Kids[i+1] = n.Kids[i+1], n.Kids[i]
	case "rekind":
		switch n.Kind {
		case "MultiPoint":
			n.Kind = "LineString"
		case "LineString":
			n.Kind = "Ring"
		case "Ring":
			n.Kind = "MultiPoint"
			if rapid.Bool().Draw(t, "toLS") {
				n.Kind = "LineString"
			}
		case "Polygon":
			n.Kind = "MultiLineString"
			for _, k := range n.Kids {
				k.Kind = "LineString"
			}
		case "MultiLineString":
			n.Kind = "Polygon"
			for _, k := range n.Kids {
				k.Kind = "Ring"
			}
		case "Point":
			replace(&node{Kind: "MultiPoint", Pts: []orb.Point{n.Pts[0]}})
		case "Bound":
			mn, mx := n.Pts[0], n.Pts[1]
			ring := &node{Kind: "Ring", Pts: []orb.Point{mn, {mx[0], mn[1]}, mx, {mn[0], mx[1]}, mn}}
			if rapid.Bool().Draw(t, "toPoly") {
				replace(&node{Kind: "Polygon", Kids: []*node{ring}})
			} else {
				replace(ring)
			}
		}
	case "wrap":
		switch {
		case n.Kind == "Ring" && rapid.Bool().Draw(t, "asPoly"):
			replace(&node{Kind: "Polygon", Kids: []*node{n}})
		case n.Kind == "Polygon" && rapid.Bool().Draw(t, "asMulti"):
			replace(&node{Kind: "MultiPolygon", Kids: []*node{n}})
		case n.Kind == "LineString" && rapid.Bool().Draw(t, "asMulti"):
			replace(&node{Kind: "MultiLineString", Kids: []*node{n}})
		default:
			replace(&node{Kind: "Collection", Kids: []*node{n}})
		}
	case "unwrap":
		replace(n.Kids[0])
	}
	return root, s.op + "@" + n.Kind
}

// ---------------------------------------------------------------- bounds and points for the laws

func boundCoord(t *rapid.T, cls int) float64 {
	switch cls {
	case 0:
		return float64(rapid.IntRange(-2, 2).Draw(t, "i"))
	case 1:
		return float64(rapid.IntRange(-6, 6).Draw(t, "h")) / 2
	case 2:
		return rapid.Float64Range(-100, 100).Draw(t, "f")
	}
	return gen.FiniteCoord().Draw(t, "c")
}

func finiteB(b orb.Bound) bool {
	for _, v := range []float64{b.Min[0], b.Min[1], b.Max[0], b.Max[1]} {
		if math.IsNaN(v) || math.IsInf(v, 0) {
			return false
		}
	}
	return true
}

// drawBound draws one box; rel are earlier boxes it may be placed relative to.
func drawBound(t *rapid.T, cls int, rel []orb.Bound) (orb.Bound, string) {
	b, k := drawBound0(t, cls, rel)
	if !finiteB(b) { // arithmetic on huge coordinates overflowed: outside the finite domain
		return orb.Bound{Min: orb.Point{0, 0}, Max: orb.Point{1, 1}}, "regular"
	}
	b.Min, b.Max = zeroSigns(t, b.Min), zeroSigns(t, b.Max)
	return b, k
}

// zeroSigns turns a zero coordinate into -0 one time in three (+0 and -0 are the same coordinate:
// an edge or a probe at either must behave alike).
func zeroSigns(t *rapid.T, p orb.Point) orb.Point {
	for i := range p {
		if p[i] == 0 {
			p[i] = 0
			if rapid.IntRange(0, 2).Draw(t, "negzero") == 0 {
				p[i] = math.Copysign(0, -1)
			}
		}
	}
	return p
}

func drawBound0(t *rapid.T, cls int, rel []orb.Bound) (orb.Bound, string) {
	pt := func() orb.Point { return orb.Point{boundCoord(t, cls), boundCoord(t, cls)} }
	sorted := func(a, b orb.Point) orb.Bound {
		return orb.Bound{Min: orb.Point{math.Min(a[0], b[0]), math.Min(a[1], b[1])}, Max: orb.Point{math.Max(a[0], b[0]), math.Max(a[1], b[1])}}
	}
	k := rapid.IntRange(0, 11).Draw(t, "bk")
	if len(rel) == 0 && k >= 8 {
		k = 4
	}
	switch k {
	case 0:
		return orb.Bound{Min: orb.Point{1, 1}, Max: orb.Point{-1, -1}}, "empty sentinel"
	case 1:
		return orb.Bound{Min: pt(), Max: pt()}, "raw corners (possibly inverted)"
	case 2:
		p := pt()
		return orb.Bound{Min: p, Max: p}, "point"
	case 3:
		b := sorted(pt(), pt())
		if rapid.Bool().Draw(t, "hor") {
			b.Max[1] = b.Min[1]
		} else {
			b.Max[0] = b.Min[0]
		}
		return b, "segment"
	case 8: // touching an earlier bound along an edge or at a corner
		o := rel[rapid.IntRange(0, len(rel)-1).Draw(t, "rel")]
		b := sorted(pt(), pt())
		w, h := b.Max[0]-b.Min[0], b.Max[1]-b.Min[1]
		if rapid.Bool().Draw(t, "tx") {
			b.Min[0], b.Max[0] = o.Max[0], o.Max[0]+w
		}
		if rapid.Bool().Draw(t, "ty") {
			b.Max[1], b.Min[1] = o.Min[1], o.Min[1]-h
		}
		return b, "touching"
	case 9: // one ulp apart / overlapping from an earlier bound
		o := rel[rapid.IntRange(0, len(rel)-1).Draw(t, "rel")]
		b := sorted(pt(), pt())
		dir := math.Inf(1)
		if rapid.Bool().Draw(t, "overlap") {
			dir = math.Inf(-1)
		}
		if rapid.Bool().Draw(t, "ax") {
			b.Min[0] = math.Nextafter(o.Max[0], dir)
			b.Max[0] = math.Max(b.Max[0], b.Min[0])
		} else {
			b.Max[1] = math.Nextafter(o.Min[1], -dir)
			b.Min[1] = math.Min(b.Min[1], b.Max[1])
		}
		return b, "one ulp from touching"
	case 10:
		return rel[rapid.IntRange(0, len(rel)-1).Draw(t, "rel")], "identical"
	case 11: // inside an earlier bound (when that has room)
		o := rel[rapid.IntRange(0, len(rel)-1).Draw(t, "rel")]
		if emptyB(o) {
			return sorted(pt(), pt()), "regular"
		}
		fx, fy := rapid.Float64Range(0, 1).Draw(t, "fx"), rapid.Float64Range(0, 1).Draw(t, "fy")
		m := orb.Point{o.Min[0] + fx*(o.Max[0]-o.Min[0]), o.Min[1] + fy*(o.Max[1]-o.Min[1])}
		if math.IsNaN(m[0]) || math.IsInf(m[0], 0) || math.IsNaN(m[1]) || math.IsInf(m[1], 0) {
			m = o.Min
		}
		return sorted(m, o.Max), "nested"
	}
	return sorted(pt(), pt()), "regular"
}

func drawProbe(t *rapid.T, cls int, bs []orb.Bound) orb.Point {
	k := rapid.IntRange(0, 5).Draw(t, "pk")
	if k <= 1 {
		return orb.Point{boundCoord(t, cls), boundCoord(t, cls)}
	}
	b1 := bs[rapid.IntRange(0, len(bs)-1).Draw(t, "pb1")]
	b2 := bs[rapid.IntRange(0, len(bs)-1).Draw(t, "pb2")]
	xs := []float64{b1.Min[0], b1.Max[0], b2.Min[0], b2.Max[0]}
	ys := []float64{b1.Min[1], b1.Max[1], b2.Min[1], b2.Max[1]}
	p := orb.Point{xs[rapid.IntRange(0, 3).Draw(t, "px")], ys[rapid.IntRange(0, 3).Draw(t, "py")]}
	switch k {
	case 3: // one ulp off a boundary
		ax := rapid.IntRange(0, 1).Draw(t, "pax")
		dir := math.Inf(1)
		if rapid.Bool().Draw(t, "pdown") {
			dir = math.Inf(-1)
		}
		if v := math.Nextafter(p[ax], dir); !math.IsInf(v, 0) {
			p[ax] = v
		}
	case 4: // midpoint of the first box
		if !emptyB(b1) {
			p = orb.Point{b1.Min[0]/2 + b1.Max[0]/2, b1.Min[1]/2 + b1.Max[1]/2}
		}
	}
	if !finiteB(orb.Bound{Min: p, Max: p}) {
		p = orb.Point{0, 0}
	}
	return zeroSigns(t, p)
}

// ---------------------------------------------------------------- vertex lists for Reverse / Orientation

func drawLine(t *rapid.T) (LineCase, string) {
	k := rapid.IntRange(0, 9).Draw(t, "lk")
	var cls string
	var coord *rapid.Generator[float64]
	switch k {
	case 0, 1, 2:
		cls, coord = "lattice 0..2", rapid.Custom(func(t *rapid.T) float64 { return float64(rapid.IntRange(0, 2).Draw(t, "i")) })
	case 3:
		cls, coord = "lattice +-2^19", rapid.Custom(func(t *rapid.T) float64 { return float64(rapid.IntRange(-(1<<19), 1<<19).Draw(t, "i")) })
	case 4:
		cls, coord = "half lattice", gen.Half(8)
	case 5, 6:
		cls, coord = "float -200..200", rapid.Float64Range(-200, 200)
	case 7:
		cls, coord = "finite mix", gen.FiniteCoord()
	case 8:
		cls, coord = "any finite float64", gen.AnyFinite()
	default:
		cls = "star-shaped"
	}
	n := rapid.SampledFrom([]int{4, 3, 5, 6, 4, 7, 8, 9, 3, 2, 1, 0}).Draw(t, "n")
	var ps []orb.Point
	if cls == "star-shaped" {
		if n < 3 {
			n = 3
		}
		cx, cy := rapid.Float64Range(-100, 100).Draw(t, "cx"), rapid.Float64Range(-100, 100).Draw(t, "cy")
		angs := make([]float64, n)
		for i := range angs {
			angs[i] = rapid.Float64Range(0, 2*math.Pi).Draw(t, "ang")
		}
		// insertion sort: no sort package randomness, stable order
		for i := 1; i < n; i++ {
			for j := i; j > 0 && angs[j] < angs[j-1]; j-- {
				angs[j], angs[j-1] = angs[j-1], angs[j]
			}
		}
		for _, a := range angs {
			r := rapid.Float64Range(0.5, 50).Draw(t, "rad")
			ps = append(ps, orb.Point{cx + r*math.Cos(a), cy + r*math.Sin(a)})
		}
		if rapid.Bool().Draw(t, "cw") {
			for i, j := 0, len(ps)-1; i < j; i, j = i+1, j-1 {
				ps[i], ps[j] = ps[j], ps[i]
			}
		}
	} else {
		for i := 0; i < n; i++ {
			p := orb.Point{coord.Draw(t, "x"), coord.Draw(t, "y")}
			if i > 0 && rapid.IntRange(0, 5).Draw(t, "dup") == 0 {
				p = ps[rapid.IntRange(0, i-1).Draw(t, "dupof")]
			}
			ps = append(ps, p)
		}
	}
	if len(ps) >= 3 && rapid.IntRange(0, 2).Draw(t, "close") > 0 {
		ps = append(ps, ps[0])
	}
	c := LineCase{Pts: gen.Pts(ps)}
	if len(ps) == 0 {
		c.Pts = []gen.P{}
		c.Nil = rapid.Bool().Draw(t, "nil")
	}
	return c, cls
}

// ================================================================ properties

func assumptions() {
	stats.Assume("coordinates are finite (NaN makes == irreflexive; the statement's 'equivalence' excludes it); +0 and -0 are the same coordinate")
	stats.Assume("collection members are never nil interfaces, and the nil interface itself is not one of the nine kinds")
	stats.Assume("a Bound value used as a geometry stands for its two corners; an inverted Bound (min > max on an axis) denotes the empty set and contributes no vertex")
	stats.Assume("Round is judged for |coordinate| <= 1e7 and factors 1, 3, 10, 1000, 1e6 (the documented default, the harness's own constant), 1e7; tolerance 0.5/f*(1+1e-9) + 1e-15*|x|; on-grid tolerance |r*f - integer| <= 1e-9 + |r*f|*2^-50")
	stats.Assume("Orientation must equal the exact shoelace sign when the float evaluation is exact (coordinates multiples of 1/2, every difference, product and partial sum below 2^50; any number of vertices), or when |A| > 1e-9*sum|products| and |A| > 2^-990 and |v| <= 1e150; otherwise only its range {-1,0,1} and the < 3 distinct vertices => 0 rule are demanded")
	stats.Assume("Intersects is compared with interval overlap only for two non-empty bounds (symmetry for all); Extend on an empty receiver must only contain the point")
}

func geomNonTrivial(n *node) bool { return n.levels() >= 2 || n.emptyBeforeNonEmpty() }

func classifyGeom(n *node, cls string) {
	stats.Class("kind:" + n.Kind)
	stats.Class("coord:" + cls)
	stats.Class(fmt.Sprintf("levels:%d", n.levels()))
	if d := n.collDepth(); d > 0 {
		stats.Class(fmt.Sprintf("collection depth:%d", d))
	}
	if n.emptyBeforeNonEmpty() {
		stats.Class("has:empty member before non-empty")
	}
	if n.hasNilSlice() {
		stats.Class("has:nil slice")
	}
	if n.hasSingleVertex() {
		stats.Class("has:single-vertex list")
	}
	if !n.hasVertices() {
		stats.Class("has:no vertices at all")
	}
	big, many := false, false
	n.walk(func(m *node) {
		big = big || len(m.Pts) >= 62
		many = many || len(m.Kids) >= 62
	})
	if big {
		stats.Class("large: a list of 62..1027 vertices")
	}
	if many {
		stats.Class("large: 62..67 members")
	}
}

var factors = []int{0, 0, 1, 3, 10, 1000, 1000000, 10000000}

// drawGeomCase draws one GeomCase (no bookkeeping: also used for concurrent groups).
func drawGeomCase(rt *rapid.T) (GeomCase, *node, string) {
	n, cls := drawGeom(rt)
	return GeomCase{G: gen.G{V: n.build()}, Factor: rapid.SampledFrom(factors).Draw(rt, "factor")}, n, cls
}

func TestPropGeom(t *testing.T) {
	assumptions()
	stats.Check(t, 60000, 3000000, func(rt *rapid.T) {
		c, n, cls := drawGeomCase(rt)
		g := c.G.V
		classifyGeom(n, cls)
		if inRoundDomain(g) {
			stats.Class("round:in domain")
		} else {
			stats.Class("round:skipped (|coordinate| > 1e7)")
		}
		if cloneNilFamily(g) {
			stats.Class("clone:typed nil slice reaches orb.Clone's nil check")
			if cloneNilKnown() {
				stats.Excluded(keyCloneNil)
			}
		}
		if geomNonTrivial(n) {
			stats.NonTrivial(gen.JSON(c))
			grp := "geom " + n.Kind
			if stats.WantSample(grp) {
				stats.Sample(grp, c)
			}
		}
		stats.Try(rt, "TestPropGeom", c, func() error { return checkGeom(c) })
	})
}

// drawPairCase draws a triple; single lists the operation of every derivation that used exactly one edit.
func drawPairCase(rt *rapid.T) (c PairCase, a *node, cls string, single []string) {
	a, cls = drawGeom(rt)
	var edits []string
	edit := func(from *node, label string) *node {
		n := from.copy()
		k := rapid.SampledFrom([]int{0, 1, 1, 1, 1, 2, 3}).Draw(rt, "nedits")
		var ops []string
		for i := 0; i < k; i++ {
			var d string
			n, d = applyEdit(rt, n)
			ops = append(ops, d)
		}
		edits = append(edits, label+": "+strings.Join(ops, ", "))
		if k == 1 {
			single = append(single, strings.SplitN(ops[0], "@", 2)[0])
		}
		return n
	}
	b := edit(a, "b from a")
	var cn *node
	if rapid.Bool().Draw(rt, "cFromB") {
		cn = edit(b, "c from b")
	} else {
		cn = edit(a, "c from a")
	}
	return PairCase{A: gen.G{V: a.build()}, B: gen.G{V: b.build()}, C: gen.G{V: cn.build()}, Edits: edits}, a, cls, single
}

func TestPropPairs(t *testing.T) {
	assumptions()
	stats.Check(t, 40000, 2000000, func(rt *rapid.T) {
		c, a, cls, single := drawPairCase(rt)
		for _, op := range single {
			stats.Class("edit:" + op)
		}
		stats.Class("coord:" + cls)
		stats.Class("kind:" + a.Kind)
		ab, bc, ac := modelEqual(c.A.V, c.B.V), modelEqual(c.B.V, c.C.V), modelEqual(c.A.V, c.C.V)
		stats.Class(fmt.Sprintf("equal pairs among a,b,c: %d", b2i(ab)+b2i(bc)+b2i(ac)))
		if len(single) > 0 {
			stats.NonTrivial(gen.JSON(c))
			if stats.WantSample("pair one edit apart") {
				stats.Sample("pair one edit apart", c)
			}
		}
		stats.Try(rt, "TestPropPairs", c, func() error { return checkPair(c) })
	})
}

func b2i(b bool) int {
	if b {
		return 1
	}
	return 0
}

func drawBoundCase(rt *rapid.T) (c BoundCase, cls int, kinds [3]string) {
	cls = rapid.SampledFrom([]int{0, 0, 0, 1, 2, 3}).Draw(rt, "cls")
	a, ka := drawBound(rt, cls, nil)
	b, kb := drawBound(rt, cls, []orb.Bound{a})
	cc, kc := drawBound(rt, cls, []orb.Bound{a, b})
	bs := []orb.Bound{a, b, cc}
	c = BoundCase{A: gen.FromBound(a), B: gen.FromBound(b), C: gen.FromBound(cc),
		P: gen.FromPt(drawProbe(rt, cls, bs)), Q: gen.FromPt(drawProbe(rt, cls, bs))}
	return c, cls, [3]string{ka, kb, kc}
}

func boundTripleNonTrivial(c BoundCase) bool {
	a, b, cc := c.A.Bound(), c.B.Bound(), c.C.Bound()
	ne := b2i(emptyB(a)) + b2i(emptyB(b)) + b2i(emptyB(cc))
	return ne <= 1 && !(sameBox(a, b) && sameBox(b, cc))
}

func TestPropBoundLaws(t *testing.T) {
	assumptions()
	stats.Check(t, 120000, 6000000, func(rt *rapid.T) {
		c, cls, kinds := drawBoundCase(rt)
		a, b, cc := c.A.Bound(), c.B.Bound(), c.C.Bound()
		ka, kb, kc := kinds[0], kinds[1], kinds[2]
		stats.Class("coord:" + []string{"lattice -2..2", "half lattice -3..3", "float -100..100", "finite mix"}[cls])
		stats.Class("a:" + ka)
		stats.Class("b:" + kb)
		stats.Class("c:" + kc)
		ne := b2i(emptyB(a)) + b2i(emptyB(b)) + b2i(emptyB(cc))
		stats.Class(fmt.Sprintf("empty bounds in triple: %d", ne))
		if !emptyB(a) && !emptyB(b) {
			if a.Min[0] == b.Max[0] || a.Max[0] == b.Min[0] || a.Min[1] == b.Max[1] || a.Max[1] == b.Min[1] {
				stats.Class("a,b share a boundary coordinate")
			}
		}
		// non-trivial: at least two non-empty bounds that are not all identical
		if ne <= 1 && !(sameBox(a, b) && sameBox(b, cc)) {
			stats.NonTrivial(gen.JSON(c))
			if stats.WantSample("bound triple") {
				stats.Sample("bound triple", c)
			}
		}
		stats.Try(rt, "TestPropBoundLaws", c, func() error { return checkBounds(c) })
	})
}

func TestPropReverse(t *testing.T) {
	assumptions()
	stats.Check(t, 60000, 3000000, func(rt *rapid.T) {
		c, cls := drawLine(rt)
		ps := c.pts()
		stats.Class("coord:" + cls)
		stats.Class(fmt.Sprintf("vertices:%d", len(ps)))
		sign, robust, exact, distinct := shoelaceX(ps)
		switch {
		case distinct < 3:
			stats.Class("orientation:< 3 distinct vertices")
		case exact:
			stats.Class(fmt.Sprintf("orientation:exact lattice sign %d", sign))
		case robust && maxAbs(ps) <= orientSafeMax:
			stats.Class("orientation:robust float sign")
			rev := make([]orb.Point, len(ps))
			for i, p := range ps {
				rev[len(ps)-1-i] = p
			}
			if _, rr, _ := shoelace(rev); rr {
				stats.Class("orientation:robust float sign, reversed too")
			}
		default:
			stats.Class("orientation:not demanded (float noise / overflow)")
		}
		if len(ps) >= 3 {
			stats.NonTrivial(gen.JSON(c))
			if stats.WantSample("ring") {
				stats.Sample("ring", c)
			}
		}
		stats.Try(rt, "TestPropReverse", c, func() error { return checkLine(c) })
	})
}

// ---------------------------------------------------------------- known finding witness

func TestKnownCloneNilSlice(t *testing.T) {
	if !stats.Mine(0) {
		return
	}
	witnesses := []orb.Geometry{
		orb.MultiPoint(nil), orb.LineString(nil), orb.Ring(nil), orb.MultiLineString(nil), orb.Polygon(nil),
		orb.MultiPolygon(nil), orb.Collection(nil), orb.Collection{orb.LineString(nil)}, orb.Collection{orb.Collection{orb.Polygon(nil)}, orb.Point{1, 2}},
	}
	var first error
	var firstCase GeomCase
	failing := 0
	for _, g := range witnesses {
		stats.Eval("TestKnownCloneNilSlice", 1)
		if err := stats.Guard(func() error { return checkClone(g, orb.Clone, "orb.Clone", false) }); err != nil {
			failing++
			if first == nil {
				first, firstCase = err, GeomCase{G: gen.G{V: g}}
			}
		}
	}
	if first == nil {
		return
	}
	if f, ok := kf.Get("C06", keyCloneNil); ok {
		what := f.What
		if what == "" {
			what = "orb.Clone of a typed nil slice returns a nil interface that is not Equal to the original"
		}
		stats.Known(keyCloneNil, what)
		t.Logf("known finding %s still reproduces on %d of %d witnesses: %v", keyCloneNil, failing, len(witnesses), first)
		return
	}
	p := stats.RecordFailure("TestKnownCloneNilSlice", firstCase, first)
	t.Fatalf("TestKnownCloneNilSlice: %v (replay %s)", first, p)
}

// ---------------------------------------------------------------- self test of the detectors

// TestSelfDetectors proves that the aliasing detector and the oracles reject
// deliberately wrong behaviour (so a pass of the property tests means something).
func TestSelfDetectors(t *testing.T) {
	if !stats.Mine(0) {
		return
	}
	poly := orb.Polygon{{{0, 0}, {1, 0}, {1, 1}, {0, 0}}, {{2, 2}, {3, 2}, {3, 3}, {2, 2}}}
	shallowCoords := func(g orb.Geometry) orb.Geometry { // fresh outer slice, shared rings
		p := g.(orb.Polygon)
		return append(orb.Polygon{}, p...)
	}
	if err := checkClone(poly, shallowCoords, "shallow", false); err == nil || !strings.Contains(err.Error(), "coordinate memory") {
		t.Fatalf("aliasing detector missed shared rings: %v", err)
	}
	lastShared := func(g orb.Geometry) orb.Geometry { // only the last ring shared
		p := g.(orb.Polygon)
		out := gen.DeepCopy(p).(orb.Polygon)
		out[len(out)-1] = p[len(p)-1]
		return out
	}
	if err := checkClone(poly, lastShared, "lastShared", false); err == nil {
		t.Fatalf("aliasing detector missed a shared last ring")
	}
	sameSlice := func(g orb.Geometry) orb.Geometry { return g } // the very same slice
	coll := orb.Collection{orb.Point{1, 1}, orb.Point{2, 2}}
	if err := checkClone(coll, sameSlice, "identity", false); err == nil || !strings.Contains(err.Error(), "member slice") {
		t.Fatalf("aliasing detector missed a shared collection slice: %v", err)
	}
	nilColl := orb.Collection{orb.LineString(nil), orb.LineString{{1, 1}, {2, 2}}}
	dropsNil := func(g orb.Geometry) orb.Geometry { // what orb.Clone does today, plus a shared line
		c := g.(orb.Collection)
		return orb.Collection{nil, c[1]}
	}
	if err := checkClone(nilColl, dropsNil, "aliasOnly", true); err == nil || !strings.Contains(err.Error(), "coordinate memory") {
		t.Fatalf("aliasOnly mode missed a shared member: %v", err)
	}
	if err := checkClone(poly, func(g orb.Geometry) orb.Geometry { return gen.DeepCopy(g) }, "deep", false); err != nil {
		t.Fatalf("a correct deep copy was rejected: %v", err)
	}
	if modelEqual(orb.Ring{{0, 0}}, orb.LineString{{0, 0}}) || modelEqual(orb.Polygon{{{0, 0}}}, orb.Ring{{0, 0}}) ||
		!modelEqual(orb.LineString(nil), orb.LineString{}) || modelEqual(orb.MultiLineString{{}}, orb.MultiLineString{}) ||
		!modelEqual(orb.Point{0, 0}, orb.Point{math.Copysign(0, -1), 0}) {
		t.Fatalf("structural comparison is wrong on the fixed examples")
	}
	if b, ok := modelBound(orb.MultiLineString{{}, {{5, 5}, {6, 7}}}); !ok || b != (orb.Bound{Min: orb.Point{5, 5}, Max: orb.Point{6, 7}}) {
		t.Fatalf("model bound wrong: %v %v", b, ok)
	}
	if _, ok := modelBound(orb.Polygon{{}, {{5, 5}}}); ok {
		t.Fatalf("model bound must ignore holes")
	}
	if s, _, d := shoelace([]orb.Point{{0, 0}, {1, 0}, {0, 1}}); s != 1 || d != 3 {
		t.Fatalf("shoelace sign %d distinct %d", s, d)
	}
	if s, _, _ := shoelace([]orb.Point{{0, 0}, {0, 1}, {1, 0}, {0, 0}}); s != -1 {
		t.Fatalf("shoelace sign of a clockwise closed ring: %d", s)
	}
	// regression inputs of a corrected oracle error: unclosed rings whose reversed float evaluation (offset by
	// the other end vertex) cancels catastrophically although the forward one is robust; nothing may be demanded there.
	for _, ps := range [][]orb.Point{
		{{0, 0}, {1e+21, 0}, {0, 0}, {5e-324, -1.5}, {85.0511287798066, -5}},
		{{0, 0}, {0, 0}, {0, 0}, {0, 0}, {0, 0}, {0, 0}, {0, 0}, {1, -3}, {1e+21, -1.1147987324129559e+60}},
		{{1, 1}, {1, 1.211705902470687e+16}, {-1.1830897175418274e+51, 5.948842351208455e-33}, {3.87642344233055e+92, -1.9213077154709026}},
		{{3.0025089933913766e-86, -6.0867715976305646e-74}, {3.8515629876392174e-194, -18.720173670253544}, {-70.67551686729894, -4.947093091832404e+56}},
	} {
		if err := checkLine(LineCase{Pts: gen.Pts(ps)}); err != nil {
			t.Fatalf("oracle regression: %v", err)
		}
	}
}

// ---------------------------------------------------------------- replay

func TestReplay(t *testing.T) {
	name, raw, ok := stats.Replaying()
	if !ok {
		t.Skip("no replay file")
	}
	var f func() error
	if name == "TestPropSharedReaders" {
		replaySharedReaders(t, raw)
		return
	}
	if name == "TestEnumLarge" {
		replayLarge(t, raw)
		return
	}
	if name == "TestPropConcurrent" {
		replayConcurrent(t, raw)
		return
	}
	switch {
	case strings.Contains(name, "Alias"):
		var c AliasCase
		if err := json.Unmarshal(raw, &c); err != nil {
			t.Fatal(err)
		}
		f = func() error { return checkAlias(c) }
	case strings.Contains(name, "Pair") || strings.Contains(name, "Equal"):
		var c PairCase
		if err := json.Unmarshal(raw, &c); err != nil {
			t.Fatal(err)
		}
		f = func() error { return checkPair(c) }
	case strings.Contains(name, "Bound"):
		var c BoundCase
		if err := json.Unmarshal(raw, &c); err != nil {
			t.Fatal(err)
		}
		f = func() error { return checkBounds(c) }
	case strings.Contains(name, "Reverse") || strings.Contains(name, "Ring"):
		var c LineCase
		if err := json.Unmarshal(raw, &c); err != nil {
			t.Fatal(err)
		}
		f = func() error { return checkLine(c) }
	case name == "TestKnownCloneNilSlice":
		var c GeomCase
		if err := json.Unmarshal(raw, &c); err != nil {
			t.Fatal(err)
		}
		f = func() error { return checkClone(c.G.V, orb.Clone, "orb.Clone", false) }
	default: // TestPropGeom, TestEnumMembers
		var c GeomCase
		if err := json.Unmarshal(raw, &c); err != nil {
			t.Fatal(err)
		}
		f = func() error { return checkGeom(c) }
	}
	if err := stats.Guard(f); err != nil {
		t.Fatalf("replayed case still fails: %v", err)
	}
}
