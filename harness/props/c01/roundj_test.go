package c01

// Round J classes for C01:
//
//	A  concurrent callers: groups of independent cases, each evaluated by the full checkCase
//	   (every Marshal route, Unmarshal, stream Encoder+Decoder on their own buffers, Scanner+Value,
//	   wkb and ewkb) on separate goroutines (TestPropConcurrent)
//	C  results are independent values: the caller overwrites returned []byte and decoded geometries (elements
//	   and appends up to capacity), then REPEATS the call: the repeat must return the right value (failure
//	   otherwise). Whether two results, the members of one decoded value, or a result and its input bytes share
//	   memory is recorded as a layout note only (soundness rule of round L: a layout fact is not a violation)
//	   (TestPropIndependence, TestEnumIndependence)
//	D  noise calls: other kinds / byte orders / SRIDs / Must* / hex helpers / failing decodes and
//	   same-shape variants of the checked geometry between the checked calls (Case.Noise; TestPropNoise,
//	   and inside A and C)
//
// Class B (callbacks re-entering the API) does not apply: the WKB packages take no callbacks.

import (
	"bytes"
	"encoding/hex"
	"fmt"
	"math"
	"testing"

	"github.com/paulmach/orb"
	"github.com/paulmach/orb/encoding/ewkb"
	"github.com/paulmach/orb/encoding/wkb"
	"pgregory.net/rapid"

	"verifharness/internal/gen"
	"verifharness/internal/stats"
)

// ---------------------------------------------------------------- D: noise

// perturb returns a deep copy of g with one mantissa bit of every coordinate flipped: same kind, nesting and
// lengths (hence the same WKB header and size), different coordinates.
func perturb(g orb.Geometry) orb.Geometry {
	fl := func(p orb.Point) orb.Point {
		return orb.Point{math.Float64frombits(math.Float64bits(p[0]) ^ 0x10), math.Float64frombits(math.Float64bits(p[1]) ^ 0x100)}
	}
	pts := func(ps []orb.Point) []orb.Point {
		if ps == nil {
			return nil
		}
		out := make([]orb.Point, len(ps))
		for i, p := range ps {
			out[i] = fl(p)
		}
		return out
	}
	switch v := g.(type) {
	case orb.Point:
		return fl(v)
	case orb.Bound:
		return orb.Bound{Min: fl(v.Min), Max: fl(v.Max)}
	case orb.MultiPoint:
		return orb.MultiPoint(pts(v))
	case orb.LineString:
		return orb.LineString(pts(v))
	case orb.Ring:
		return orb.Ring(pts(v))
	case orb.MultiLineString:
		out := make(orb.MultiLineString, len(v))
		for i := range v {
			out[i] = pts(v[i])
		}
		return out
	case orb.Polygon:
		out := make(orb.Polygon, len(v))
		for i := range v {
			out[i] = pts(v[i])
		}
		return out
	case orb.MultiPolygon:
		out := make(orb.MultiPolygon, len(v))
		for i := range v {
			out[i] = perturb(v[i]).(orb.Polygon)
		}
		return out
	case orb.Collection:
		out := make(orb.Collection, len(v))
		for i := range v {
			out[i] = perturb(v[i])
		}
		return out
	}
	return g
}

var noiseGeoms = []orb.Geometry{
	orb.Point{1.5, -2.5},
	orb.MultiPoint{{1, 2}, {3, 4}, {5, 6}},
	orb.LineString{{0, 0}, {1, 1}},
	orb.MultiLineString{{{0, 0}, {1, 1}}, {}, {{2, 2}}},
	orb.Ring{{0, 0}, {1, 0}, {1, 1}, {0, 0}},
	orb.Polygon{{{0, 0}, {4, 0}, {4, 4}, {0, 0}}, {{1, 1}, {2, 1}, {2, 2}, {1, 1}}},
	orb.MultiPolygon{{{{0, 0}, {1, 0}, {1, 1}, {0, 0}}}, {}},
	orb.Collection{orb.Point{9, 9}, orb.Collection{orb.LineString{{7, 7}, {8, 8}}}},
	orb.Bound{Min: orb.Point{-1, -1}, Max: orb.Point{1, 1}},
	orb.LineString{}, orb.Collection{},
}

var noiseSRIDs = []int{0, 1, 3857, 4326, 900913, 0x3030, 1<<31 - 1}

// mkNoise builds the noise source of one case (nil when the case asks for none). Every call performs one
// action of a fixed rotation; all state is local to the returned closure, so cases stay independent.
func mkNoise(c Case) func() {
	if c.Noise == 0 {
		return nil
	}
	k := c.Noise
	if k < 0 {
		k = -k
	}
	// same-shape variants of the checked geometry (same header and length, other coordinates)
	var sameHdrE, sameHdrW, otherCfg, prefixed []byte
	var variant orb.Geometry
	if g := c.Geom.V; g != nil && !isTypedNil(g) {
		variant = perturb(g)
		sameHdrE, _ = ewkb.Marshal(variant, c.SRID, order(c.BE))
		sameHdrW, _ = wkb.Marshal(variant, order(c.BE))
		otherCfg, _ = ewkb.Marshal(variant, noiseSRIDs[k%len(noiseSRIDs)], order(!c.BE))
		prefixed = sridPrefix(c.SRID, sameHdrW)
	}
	var sink bytes.Buffer
	return func() {
		k++
		g := noiseGeoms[k%len(noiseGeoms)]
		srid := noiseSRIDs[(k/3)%len(noiseSRIDs)]
		bo := order(k%2 == 0)
		switch k % 14 {
		case 0:
			_ = ewkb.MustMarshal(g, srid, bo)
		case 1:
			_ = wkb.MustMarshalToHex(g, bo)
		case 2:
			_ = ewkb.MustMarshalToHex(g, srid)
		case 3:
			_, _ = wkb.Unmarshal(wkb.MustMarshal(g, bo))
		case 4:
			b := ewkb.MustMarshal(g, srid, bo)
			_, _, _ = ewkb.Unmarshal(b[:len(b)/2]) // truncated: an error
		case 5:
			var p orb.Point
			_ = wkb.Scanner(&p).Scan(wkb.MustMarshal(g, bo)) // mostly a kind mismatch
		case 6:
			_ = ewkb.ScannerPrefixSRID(nil).Scan(sridPrefix(srid, wkb.MustMarshal(g, bo)))
		case 7:
			sink.Reset()
			enc := ewkb.NewEncoder(&sink).SetByteOrder(bo).SetSRID(srid)
			_ = enc.Encode(g)
			_ = enc.Encode(noiseGeoms[(k+1)%len(noiseGeoms)], 7)
			dec := ewkb.NewDecoder(&sink)
			_, _, _ = dec.Decode()
			_, _, _ = dec.Decode()
		case 8:
			_, _ = wkb.Value(g).Value()
			_, _ = ewkb.ValuePrefixSRID(g, srid).Value()
			_, _ = ewkb.Value(nil, srid).Value()
		case 9:
			s := wkb.Scanner(nil)
			_ = s.Scan(nil)
			_ = s.Scan("not bytes")
			_ = s.Scan([]byte(hex.EncodeToString(wkb.MustMarshal(g, bo))))
		case 10:
			if variant != nil {
				_ = ewkb.MustMarshal(variant, c.SRID, order(c.BE))
				_ = wkb.MustMarshal(variant, order(!c.BE))
			}
		case 11:
			if sameHdrE != nil {
				_, _, _ = ewkb.Unmarshal(append([]byte(nil), sameHdrE...))
				_, _, _ = ewkb.NewDecoder(bytes.NewReader(otherCfg)).Decode()
			}
		case 12:
			if sameHdrW != nil {
				_, _ = wkb.Unmarshal(append([]byte(nil), sameHdrW...))
				_ = ewkb.Scanner(nil).Scan(append([]byte(`\x`), hex.EncodeToString(sameHdrE)...))
				_ = wkb.Scanner(nil).Scan(append([]byte(nil), sameHdrW...))
			}
		case 13:
			if prefixed != nil {
				_ = ewkb.ScannerPrefixSRID(nil).Scan(append([]byte(nil), prefixed...))
				var b orb.Bound
				_ = ewkb.Scanner(&b).Scan(append([]byte(nil), otherCfg...))
			}
		}
	}
}

func TestPropNoise(t *testing.T) {
	stats.Assume("noise calls (class D) are other public entry points of wkb/ewkb with legal arguments (other kinds, byte orders, SRIDs, Must*/hex helpers, truncated input, kind mismatches, same-shape variants of the checked geometry); their results are not checked")
	stats.Check(t, 12000, 400000, func(rt *rapid.T) {
		c := drawCase(rt)
		c.Noise = rapid.IntRange(1, 1000).Draw(rt, "noise")
		stats.Class("noise calls between the checked calls")
		if nonTrivial(c) {
			stats.NonTrivial("noise:" + gen.JSON(c))
		}
		stats.Try(rt, "TestPropNoise", c, func() error { return checkCase(c) })
	})
}

// ---------------------------------------------------------------- A: concurrent callers

// drawConcurrentCase prefers the larger shapes of the generator so that one evaluation lasts long enough to overlap.
func drawConcurrentCase(t *rapid.T) Case {
	var c Case
	if rapid.IntRange(0, 2).Draw(t, "sized") > 0 {
		cnt := &counter{k: uint64(rapid.Uint32().Draw(t, "coordbase"))}
		n := rapid.SampledFrom([]int{3, 17, 40, 64, 65, 130}).Draw(t, "size")
		g := place(rapid.IntRange(0, 2).Draw(t, "placement"), lengthShape(rapid.IntRange(0, len(lengthShapeNames)-1).Draw(t, "lenshape"), n, cnt), cnt)
		// the larger shapes go through the lite matrix (one package chosen by SRID presence, raw + hex framings)
		c = Case{Geom: gen.G{V: g}, SRID: drawSRIDOrAbsent(t), BE: rapid.Bool().Draw(t, "be"), Lite: true}
	} else {
		c = drawCase(t)
	}
	if rapid.IntRange(0, 2).Draw(t, "withnoise") == 0 {
		c.Noise = rapid.IntRange(1, 1000).Draw(t, "noise")
	}
	return c
}

// TestPropConcurrent evaluates several independent cases at the same time. Every case uses its own buffers,
// encoders, decoders and scanners, and the WKB functions depend on their arguments only, so each must still
// pass: a failure means concurrent callers share state inside the library.
func TestPropConcurrent(t *testing.T) {
	stats.Assume("concurrent groups: every goroutine works on its own case with its own buffers, Encoder, Decoder and Scanner objects; package-level configuration (DefaultByteOrder, DefaultSRID) is never written")
	stats.Check(t, 1000, 30000, func(rt *rapid.T) {
		n := rapid.IntRange(2, 8).Draw(rt, "goroutines")
		cs := make([]Case, n)
		nt := 0
		for i := range cs {
			cs[i] = drawConcurrentCase(rt)
			if nonTrivial(cs[i]) {
				nt++
			}
		}
		stats.Class(fmt.Sprintf("concurrent:%d goroutines", n))
		if nt >= 2 {
			stats.NonTrivial("conc:" + gen.JSON(cs))
			if stats.WantSample("concurrent") {
				stats.Sample("concurrent", cs)
			}
		}
		stats.TryParallel(rt, "TestPropConcurrent", cs, n, 20, func(i int) error { return checkCase(cs[i]) })
	})
}

// ---------------------------------------------------------------- C: results are independent values

var junkPt = orb.Point{-6.66e66, 6.66e66}

func scribbleBytes(b []byte) {
	full := b[:cap(b)]
	for i := range full {
		full[i] = 0xA5
	}
}

func scribblePts(ps []orb.Point) {
	full := ps[:cap(ps)]
	for i := range full {
		full[i] = junkPt
	}
}

// scribbleGeom overwrites everything reachable from g, including the spare capacity of every slice.
func scribbleGeom(g orb.Geometry) {
	switch v := g.(type) {
	case orb.MultiPoint:
		scribblePts(v)
	case orb.LineString:
		scribblePts(v)
	case orb.Ring:
		scribblePts(v)
	case orb.MultiLineString:
		for _, l := range v {
			scribblePts(l)
		}
		full := v[:cap(v)]
		for i := range full {
			full[i] = orb.LineString{junkPt}
		}
	case orb.Polygon:
		for _, r := range v {
			scribblePts(r)
		}
		full := v[:cap(v)]
		for i := range full {
			full[i] = orb.Ring{junkPt}
		}
	case orb.MultiPolygon:
		for _, p := range v {
			scribbleGeom(p)
		}
		full := v[:cap(v)]
		for i := range full {
			full[i] = orb.Polygon{{junkPt}}
		}
	case orb.Collection:
		for _, m := range v {
			scribbleGeom(m)
		}
		full := v[:cap(v)]
		for i := range full {
			full[i] = junkPt
		}
	}
}

// members lists the sibling parts of a multi-geometry / collection (slice headers sharing g's memory).
func members(g orb.Geometry) []orb.Geometry {
	var out []orb.Geometry
	switch v := g.(type) {
	case orb.MultiLineString:
		for _, l := range v {
			out = append(out, l)
		}
	case orb.Polygon:
		for _, r := range v {
			out = append(out, r)
		}
	case orb.MultiPolygon:
		for _, p := range v {
			out = append(out, p)
		}
	case orb.Collection:
		out = append(out, v...)
	}
	return out
}

func navigate(g orb.Geometry, path []int) orb.Geometry {
	for _, i := range path {
		g = members(g)[i]
	}
	return g
}

// decodeFn is one decode path applied to a private copy of the framed bytes.
type decodeFn struct {
	name   string
	framed []byte
	rawIn  bool // the path does not rewrite its input (no hex framing)
	run    func(in []byte) (orb.Geometry, error)
	want   orb.Geometry
}

// layoutNote records a fact about memory layout that is NOT a violation by itself (soundness rule of round L):
// siblings of one result or two results sharing memory, a result living in its input bytes. They are counted so
// that the evidence shows them; only a wrong VALUE of a later checked call fails.
func maxInt(a, b int) int {
	if a > b {
		return a
	}
	return b
}

func layoutNote(what string) { stats.Class("layout-note:" + what) }

func checkResultIndependence(d decodeFn, noise func()) error {
	call := func() (orb.Geometry, []byte, error) {
		in := append([]byte(nil), d.framed...)
		g, err := d.run(in)
		return g, in, err
	}
	r1, in1, err := call()
	if err != nil {
		return fmt.Errorf("%s: %v", d.name, err)
	}
	if same, why := sameBits(r1, d.want); !same {
		return fmt.Errorf("%s: %s", d.name, why)
	}
	snap := gen.DeepCopy(r1)
	// layout note only: does the result live in the input bytes?
	scribbleBytes(in1)
	if same, _ := sameBits(r1, snap); !same {
		layoutNote("a decoded value changes when the caller overwrites the input bytes afterwards")
	}
	r2, in2, err := call()
	if err != nil {
		return fmt.Errorf("%s (second call): %v", d.name, err)
	}
	if same, why := sameBits(r2, d.want); !same {
		return fmt.Errorf("%s (second call): %s", d.name, why)
	}
	// the caller overwrites a value it owns (elements within len, and appends up to the capacity) ...
	scribbleGeom(r1)
	if same, _ := sameBits(r2, snap); !same {
		layoutNote("two results of the same decode call share memory")
	}
	if d.rawIn && !bytes.Equal(in2, d.framed) {
		layoutNote("overwriting a decoded value changes the input bytes of another call")
	}
	if noise != nil {
		noise()
		noise()
	}
	// ... and a LATER call must still return the right value (this is the assertion of class C)
	r3, _, err := call()
	if err != nil {
		return fmt.Errorf("%s (repeat after the caller overwrote the earlier results): %v", d.name, err)
	}
	if same, why := sameBits(r3, snap); !same {
		return fmt.Errorf("%s: after the caller overwrote the values returned earlier, a repeat of the same call returns a different value (%s)", d.name, why)
	}
	// layout note only: do the members of one result share memory with each other?
	budget := 8
	noted := false
	var walk func(path []int)
	walk = func(path []int) {
		ms := members(navigate(snap, path))
		for i := range ms {
			if budget <= 0 || noted {
				return
			}
			if len(ms) >= 2 {
				budget--
				r, _, err := call()
				if err != nil {
					return
				}
				rm := members(navigate(r, path))
				scribbleGeom(rm[i])
				// re-read the siblings through the parent once (their headers may have been overwritten too);
				// the neighbours of i are the ones an append reaches first: look at up to 8 on either side
				after := members(navigate(r, path))
				for j := maxInt(0, i-8); j < len(after) && j <= i+8; j++ {
					if j == i {
						continue
					}
					cur := after[j]
					if same, _ := sameBits(cur, ms[j]); !same {
						layoutNote("members of one decoded value share memory (overwriting or appending to one changes a sibling)")
						noted = true
						return
					}
				}
			}
			walk(append(append([]int(nil), path...), i))
		}
	}
	walk(nil)
	return nil
}

func checkBytesIndependence(name string, produce func() ([]byte, error), noise func()) error {
	b1, err := produce()
	if err != nil {
		return fmt.Errorf("%s: %v", name, err)
	}
	snap := append([]byte(nil), b1...)
	b2, err := produce()
	if err != nil {
		return fmt.Errorf("%s: %v", name, err)
	}
	if !bytes.Equal(b2, snap) {
		return fmt.Errorf("%s: two calls with the same arguments return different bytes", name)
	}
	scribbleBytes(b1) // the caller overwrites a value it owns
	shared := !bytes.Equal(b2, snap)
	if shared {
		layoutNote("two []byte results of the same encode call share memory")
	}
	if noise != nil {
		noise()
		noise()
	}
	b3, err := produce()
	if err != nil {
		return fmt.Errorf("%s: %v", name, err)
	}
	if !bytes.Equal(b3, snap) {
		return fmt.Errorf("%s: after the caller overwrote the bytes returned earlier, a repeat of the same call returns different bytes", name)
	}
	if !shared && !bytes.Equal(b2, snap) {
		return fmt.Errorf("%s: a later call changed a []byte that an earlier call had returned", name)
	}
	return nil
}

func ownDest(want orb.Geometry) string {
	switch want.(type) {
	case orb.Point:
		return "Point"
	case orb.MultiPoint:
		return "MultiPoint"
	case orb.LineString:
		return "LineString"
	case orb.MultiLineString:
		return "MultiLineString"
	case orb.Polygon:
		return "Polygon"
	case orb.MultiPolygon:
		return "MultiPolygon"
	case orb.Collection:
		return "Collection"
	}
	return "nil"
}

// checkIndependence is class C for one (geometry, SRID, byte order).
func checkIndependence(c Case) error {
	g := c.Geom.V
	if g == nil || isTypedNil(g) {
		return nil // nothing is returned
	}
	noise := mkNoise(c)
	want := gen.Canonical(g)
	bo := order(c.BE)
	producers := []struct {
		name string
		f    func() ([]byte, error)
	}{
		{"ewkb.Marshal", func() ([]byte, error) { return ewkb.Marshal(g, c.SRID, bo) }},
		{"ewkb.MustMarshal", func() ([]byte, error) { return ewkb.MustMarshal(g, c.SRID, bo), nil }},
		{"ewkb.Value", func() ([]byte, error) { e, err := valueBytes("ewkb.Value", ewkb.Value(g, c.SRID)); return e.data, err }},
		{"ewkb.ValuePrefixSRID", func() ([]byte, error) {
			e, err := valueBytes("ewkb.ValuePrefixSRID", ewkb.ValuePrefixSRID(g, c.SRID))
			return e.data, err
		}},
		{"wkb.Marshal", func() ([]byte, error) { return wkb.Marshal(g, bo) }},
		{"wkb.MustMarshal", func() ([]byte, error) { return wkb.MustMarshal(g, bo), nil }},
		{"wkb.Value", func() ([]byte, error) { e, err := valueBytes("wkb.Value", wkb.Value(g)); return e.data, err }},
		{"ewkb.Encoder into a fresh buffer", func() ([]byte, error) {
			var buf bytes.Buffer
			err := ewkb.NewEncoder(&buf).SetByteOrder(bo).SetSRID(c.SRID).Encode(g)
			return buf.Bytes(), err
		}},
	}
	for _, p := range producers {
		if err := checkBytesIndependence(p.name, p.f, noise); err != nil {
			return err
		}
	}
	dataE, err := ewkb.Marshal(g, c.SRID, bo)
	if err != nil {
		return err
	}
	dataW, err := wkb.Marshal(g, bo)
	if err != nil {
		return err
	}
	hexE := []byte(hex.EncodeToString(dataE))
	dk := ownDest(want)
	typed := func(pkg string, prefix bool) func(in []byte) (orb.Geometry, error) {
		return func(in []byte) (orb.Geometry, error) {
			dest, read := newDest(dk)
			var err error
			switch {
			case pkg == "wkb":
				err = wkb.Scanner(dest).Scan(in)
			case prefix:
				err = ewkb.ScannerPrefixSRID(dest).Scan(in)
			default:
				err = ewkb.Scanner(dest).Scan(in)
			}
			if err != nil {
				return nil, err
			}
			return read(), nil
		}
	}
	decs := []decodeFn{
		{"ewkb.Unmarshal", dataE, true, func(in []byte) (orb.Geometry, error) { g, _, err := ewkb.Unmarshal(in); return g, err }, want},
		{"wkb.Unmarshal", dataW, true, func(in []byte) (orb.Geometry, error) { return wkb.Unmarshal(in) }, want},
		{"ewkb.Decoder.Decode", dataE, true, func(in []byte) (orb.Geometry, error) {
			g, _, err := ewkb.NewDecoder(bytes.NewReader(in)).Decode()
			return g, err
		}, want},
		{"wkb.Decoder.Decode", dataW, true, func(in []byte) (orb.Geometry, error) { return wkb.NewDecoder(bytes.NewReader(in)).Decode() }, want},
		{"ewkb.Scanner(nil).Geometry", dataE, true, func(in []byte) (orb.Geometry, error) {
			s := ewkb.Scanner(nil)
			err := s.Scan(in)
			return s.Geometry, err
		}, want},
		{"ewkb.Scanner(nil).Geometry from hex", hexE, false, func(in []byte) (orb.Geometry, error) {
			s := ewkb.Scanner(nil)
			err := s.Scan(in)
			return s.Geometry, err
		}, want},
		{"wkb.Scanner(nil).Geometry", dataW, true, func(in []byte) (orb.Geometry, error) {
			s := wkb.Scanner(nil)
			err := s.Scan(in)
			return s.Geometry, err
		}, want},
	}
	if dk != "nil" {
		decs = append(decs,
			decodeFn{"*dest of ewkb.Scanner(" + dk + ")", dataE, true, typed("ewkb", false), want},
			decodeFn{"*dest of wkb.Scanner(" + dk + ")", dataW, true, typed("wkb", false), want},
			decodeFn{"*dest of ewkb.ScannerPrefixSRID(" + dk + ")", sridPrefix(c.SRID, dataW), true, typed("ewkb", true), want},
		)
	}
	for _, d := range decs {
		if err := checkResultIndependence(d, noise); err != nil {
			return err
		}
	}
	return nil
}

func hasSiblings(g orb.Geometry) bool {
	if len(members(g)) >= 2 {
		return true
	}
	for _, m := range members(g) {
		if hasSiblings(m) {
			return true
		}
	}
	return false
}

func TestPropIndependence(t *testing.T) {
	stats.Assume("result independence (class C): the assertion is 'the caller overwrites (elements, appends up to capacity) what earlier calls returned, repeats the call, and gets the right value again'; memory shared between two results, between members of one result, or between a result and its input bytes is counted as layout-note:* classes and never fails by itself")
	stats.Check(t, 8000, 300000, func(rt *rapid.T) {
		var c Case
		if rapid.IntRange(0, 3).Draw(rt, "sized") == 0 {
			cnt := &counter{k: uint64(rapid.Uint32().Draw(rt, "coordbase"))}
			g := sizedGeom(rapid.IntRange(0, 6).Draw(rt, "kind"), rapid.SampledFrom(aliasSizes).Draw(rt, "size"), cnt)
			c = Case{Geom: gen.G{V: g}, SRID: drawSRIDOrAbsent(rt), BE: rapid.Bool().Draw(rt, "be")}
		} else {
			c = drawCase(rt)
		}
		if rapid.Bool().Draw(rt, "withnoise") {
			c.Noise = rapid.IntRange(1, 1000).Draw(rt, "noise")
		}
		stats.Class("independence kind:" + gen.KindOf(c.Geom.V))
		if c.Geom.V != nil && hasSiblings(gen.Canonical(c.Geom.V)) {
			stats.Class("independence:value with sibling members")
			stats.NonTrivial("indep:" + gen.JSON(c))
			if stats.WantSample("independence") {
				stats.Sample("independence", c)
			}
		}
		stats.Try(rt, "TestPropIndependence", c, func() error { return checkIndependence(c) })
	})
}

// TestEnumIndependence runs class C on every small shape of the shape enumeration that has sibling members
// (both byte orders, SRID absent / 4326; every second one with noise).
func TestEnumIndependence(t *testing.T) {
	var idx, size int64
	for _, g := range enumShapes(false) {
		if !hasSiblings(gen.Canonical(g)) {
			continue
		}
		for k, cfg := range []struct {
			srid int
			be   bool
		}{{0, false}, {4326, true}} {
			idx++
			size++
			if !stats.Mine(idx) {
				continue
			}
			c := Case{Geom: gen.G{V: g}, SRID: cfg.srid, BE: cfg.be}
			if (int(idx)+k)%2 == 0 {
				c.Noise = int(idx)
			}
			stats.Eval("TestEnumIndependence", 1)
			stats.Class("enum independence")
			stats.NonTrivial("indep:" + gen.JSON(c))
			stats.TryT(t, "TestEnumIndependence", c, func() error { return checkIndependence(c) })
		}
	}
	stats.Subspace("result independence on every small shape with at least two sibling members (lines, rings, polygons, collection members) x {LE without SRID, BE with SRID 4326}", size, true)
}
