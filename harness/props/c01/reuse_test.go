package c01

// Stateful part of C01: the result of an encode / decode / scan must not depend
// on what the same Encoder / Decoder / Scanner object did before. Every case is
// a sequence of 2..6 steps on ONE object; after every step the observable
// result is compared with what a fresh object (or a fresh Marshal) gives for
// that step alone.

import (
	"bytes"
	"encoding/hex"
	"fmt"
	"testing"

	"github.com/paulmach/orb"
	"github.com/paulmach/orb/encoding/ewkb"
	"github.com/paulmach/orb/encoding/wkb"
	"pgregory.net/rapid"

	"verifharness/internal/gen"
	"verifharness/internal/stats"
)

// Step is one operation on the reused object.
type Step struct {
	// encoder: "encode" | "encode_srid" (ewkb Encode(g, srid): one-call override) | "order" | "srid"
	// decoder: "value" (one value of the concatenated stream)
	// scanner: "row" | "null" (untyped nil) | "nullbytes" ([]byte(nil)) | "garbage" (bytes that are not WKB)
	Op      string `json:"op"`
	Geom    gen.G  `json:"geom"`
	SRID    int    `json:"srid,omitempty"`
	BE      bool   `json:"big_endian,omitempty"`
	Framing string `json:"framing,omitempty"` // scanner rows: raw | hex | HEX | \x+hex | prefix (4-byte LE SRID prefix + WKB)
}

// SeqCase is a sequence of steps on one object (also the replay format of TestPropReuse*).
type SeqCase struct {
	Object string `json:"object"` // encoder | decoder | scanner
	Pkg    string `json:"pkg"`    // wkb | ewkb
	Prefix bool   `json:"prefix_srid_scanner,omitempty"`
	Dest   string `json:"dest,omitempty"` // scanner destination kind
	Steps  []Step `json:"steps"`
}

func checkSeq(c SeqCase) error {
	switch c.Object {
	case "encoder":
		return checkEncoderSeq(c)
	case "decoder":
		return checkDecoderSeq(c)
	case "scanner":
		return checkScannerSeq(c)
	}
	return fmt.Errorf("unknown object %q", c.Object)
}

// ---------------------------------------------------------------- (a) encoder reuse

func checkEncoderSeq(c SeqCase) error {
	var buf bytes.Buffer
	var wEnc *wkb.Encoder
	var eEnc *ewkb.Encoder
	be, srid := false, 0
	if c.Pkg == "ewkb" {
		eEnc = ewkb.NewEncoder(&buf)
		srid = ewkb.DefaultSRID
	} else {
		wEnc = wkb.NewEncoder(&buf)
	}
	for i, st := range c.Steps {
		where := fmt.Sprintf("%s.Encoder step %d (%s)", c.Pkg, i+1, st.Op)
		switch st.Op {
		case "order":
			be = st.BE
			if eEnc != nil {
				eEnc.SetByteOrder(order(be))
			} else {
				wEnc.SetByteOrder(order(be))
			}
		case "srid":
			if eEnc == nil {
				return fmt.Errorf("%s: wkb has no SRID", where)
			}
			srid = st.SRID
			eEnc.SetSRID(srid)
		case "encode", "encode_srid":
			g := st.Geom.V
			before := buf.Len()
			useSRID := srid
			var err error
			switch {
			case eEnc != nil && st.Op == "encode_srid":
				useSRID = st.SRID
				err = eEnc.Encode(g, st.SRID)
			case eEnc != nil:
				err = eEnc.Encode(g)
			default:
				err = wEnc.Encode(g)
			}
			if err != nil {
				return fmt.Errorf("%s: %v", where, err)
			}
			got := buf.Bytes()[before:]
			var want []byte
			if eEnc != nil {
				want, err = ewkb.Marshal(g, useSRID, order(be))
			} else {
				useSRID = 0
				want, err = wkb.Marshal(g, order(be))
			}
			if err != nil {
				return fmt.Errorf("%s: fresh Marshal: %v", where, err)
			}
			if !bytes.Equal(got, want) {
				return fmt.Errorf("%s: the reused encoder (current order big-endian=%v, SRID %d) wrote %x, a fresh Marshal writes %x", where, be, useSRID, clip(got), clip(want))
			}
			if len(got) == 0 {
				continue
			}
			dec, s, err := ewkb.Unmarshal(append([]byte(nil), got...))
			if err != nil {
				return fmt.Errorf("%s: bytes written by this call do not decode: %v", where, err)
			}
			if same, why := sameBits(dec, gen.Canonical(g)); !same {
				return fmt.Errorf("%s: bytes written by this call decode to a different value: %s", where, why)
			}
			if s != useSRID {
				return fmt.Errorf("%s: bytes written by this call carry SRID %d, want %d", where, s, useSRID)
			}
		default:
			return fmt.Errorf("%s: unknown op", where)
		}
	}
	return nil
}

func clip(b []byte) []byte {
	if len(b) > 48 {
		return b[:48]
	}
	return b
}

// ---------------------------------------------------------------- (b) decoder reuse

func checkDecoderSeq(c SeqCase) error {
	var stream []byte
	for _, st := range c.Steps {
		srid := st.SRID
		if c.Pkg == "wkb" {
			srid = 0
		}
		b, err := ewkb.Marshal(st.Geom.V, srid, order(st.BE))
		if err != nil {
			return err
		}
		if len(b) == 0 {
			return fmt.Errorf("case outside the domain: a stream value that encodes to nothing")
		}
		stream = append(stream, b...)
	}
	a := wkbAPI
	if c.Pkg == "ewkb" {
		a = ewkbAPI
	}
	dec := a.decoder(bytes.NewReader(stream))
	for i, st := range c.Steps {
		g, s, err := dec()
		where := fmt.Sprintf("%s.Decoder, value %d of %d on one stream", c.Pkg, i+1, len(c.Steps))
		if err != nil {
			return fmt.Errorf("%s: %v", where, err)
		}
		if same, why := sameBits(g, gen.Canonical(st.Geom.V)); !same {
			return fmt.Errorf("%s: %s", where, why)
		}
		want := st.SRID
		if c.Pkg == "wkb" {
			want = 0
		}
		if s != want {
			return fmt.Errorf("%s: SRID %d, want %d", where, s, want)
		}
	}
	return nil
}

// ---------------------------------------------------------------- (c) scanner reuse

type scannerObj struct {
	scan func(interface{}) error
	get  func() (orb.Geometry, int, bool)
	read func() orb.Geometry // *dest (nil for the nil destination)
}

func newScannerObj(c SeqCase) scannerObj {
	dest, read := newDest(c.Dest)
	switch {
	case c.Pkg == "wkb":
		s := wkb.Scanner(dest)
		return scannerObj{s.Scan, func() (orb.Geometry, int, bool) { return s.Geometry, 0, s.Valid }, read}
	case c.Prefix:
		s := ewkb.ScannerPrefixSRID(dest)
		return scannerObj{s.Scan, func() (orb.Geometry, int, bool) { return s.Geometry, s.SRID, s.Valid }, read}
	}
	s := ewkb.Scanner(dest)
	return scannerObj{s.Scan, func() (orb.Geometry, int, bool) { return s.Geometry, s.SRID, s.Valid }, read}
}

// rowBytes builds the scanner input of one step (nil interface for a NULL row).
func rowBytes(c SeqCase, st Step) (interface{}, error) {
	switch st.Op {
	case "null":
		return nil, nil
	case "nullbytes":
		return []byte(nil), nil
	case "garbage":
		return []byte{0x07, 0xde, 0xad, 0xbe, 0xef, 0x00, 0x01, 0x02, 0x03, 0x04, 0x05, 0x06}, nil
	case "row":
	default:
		return nil, fmt.Errorf("unknown scanner op %q", st.Op)
	}
	srid := st.SRID
	if c.Pkg == "wkb" || st.Framing == "prefix" {
		srid = 0 // plain WKB body
	}
	body, err := ewkb.Marshal(st.Geom.V, srid, order(st.BE))
	if err != nil {
		return nil, err
	}
	if len(body) == 0 {
		return nil, fmt.Errorf("case outside the domain: a row that encodes to nothing")
	}
	switch st.Framing {
	case "raw", "":
		return body, nil
	case "hex":
		return []byte(hex.EncodeToString(body)), nil
	case "HEX":
		return bytes.ToUpper([]byte(hex.EncodeToString(body))), nil
	case `\x+hex`:
		return append([]byte(`\x`), hex.EncodeToString(body)...), nil
	case "prefix":
		return sridPrefix(st.SRID, body), nil
	}
	return nil, fmt.Errorf("unknown framing %q", st.Framing)
}

func cloneRow(v interface{}) interface{} {
	if b, ok := v.([]byte); ok && b != nil {
		return append([]byte(nil), b...)
	}
	return v
}

func errText(err error) string {
	if err == nil {
		return "<nil>"
	}
	return err.Error()
}

func checkScannerSeq(c SeqCase) error {
	reused := newScannerObj(c)
	for i, st := range c.Steps {
		row, err := rowBytes(c, st)
		if err != nil {
			return err
		}
		fresh := newScannerObj(c)
		errF := fresh.scan(cloneRow(row))
		errR := reused.scan(cloneRow(row))
		gF, sF, vF := fresh.get()
		gR, sR, vR := reused.get()
		name := c.Pkg + ".Scanner"
		if c.Prefix {
			name = "ewkb.ScannerPrefixSRID"
		}
		where := fmt.Sprintf("%s(%s destination) reused, scan %d of %d (%s %s)", name, c.Dest, i+1, len(c.Steps), st.Op, st.Framing)
		if errText(errF) != errText(errR) {
			return fmt.Errorf("%s: error %s, a fresh scanner gives %s", where, errText(errR), errText(errF))
		}
		if vF != vR {
			return fmt.Errorf("%s: Valid = %v, a fresh scanner gives %v (error %s)", where, vR, vF, errText(errF))
		}
		if !vF {
			// not valid (NULL row or error): the scanner must not keep presenting the previous row's value.
			// SRID and *dest are not compared here: they are only meaningful when Valid is true.
			if gF == nil && gR != nil {
				return fmt.Errorf("%s: Valid is false but Geometry still holds %s from an earlier scan (a fresh scanner has nil)", where, gen.Canon(gR))
			}
			continue
		}
		if same, why := sameBits(gR, gF); !same {
			return fmt.Errorf("%s: Geometry differs from a fresh scanner's: %s", where, why)
		}
		if sR != sF {
			return fmt.Errorf("%s: SRID %d, a fresh scanner gives %d", where, sR, sF)
		}
		if reused.read != nil {
			if same, why := sameBits(reused.read(), fresh.read()); !same {
				return fmt.Errorf("%s: *dest differs from a fresh scanner's: %s", where, why)
			}
		}
		// and the fresh result itself is the value the statement prescribes
		if st.Op == "row" {
			exp, ok := expectScan(c.Dest, gen.Canonical(st.Geom.V))
			if !ok {
				return fmt.Errorf("%s: a fresh scanner accepted a kind mismatch", where)
			}
			same, why := sameBits(gF, exp)
			if c.Dest == "Bound" {
				same, why = matchBound(gF, modelBound(gen.Canonical(st.Geom.V)))
			}
			if !same {
				return fmt.Errorf("%s: fresh scanner value differs from the expected one: %s", where, why)
			}
			if c.Pkg == "ewkb" && sF != st.SRID {
				return fmt.Errorf("%s: fresh scanner SRID %d, want %d", where, sF, st.SRID)
			}
		}
	}
	return nil
}

// ---------------------------------------------------------------- generators

var compatibleKinds = map[string][]string{
	"Point":           {"Point", "MultiPoint"},
	"MultiPoint":      {"Point", "MultiPoint"},
	"LineString":      {"LineString", "MultiLineString"},
	"MultiLineString": {"LineString", "MultiLineString"},
	"Ring":            {"Ring", "Polygon", "Bound"},
	"Polygon":         {"Ring", "Polygon", "Bound", "MultiPolygon"},
	"MultiPolygon":    {"Ring", "Polygon", "Bound", "MultiPolygon"},
}

// drawSmallGeom draws a non-nil geometry that encodes to at least a header.
func drawSmallGeom(t *rapid.T, kinds []string) orb.Geometry {
	o := geomOpts
	o.Nil, o.NilSlices = false, false
	o.MaxDepth, o.MaxLen = 2, 3
	o.Coord = gen.AnyCoord()
	o.Kinds = kinds
	if kinds != nil {
		o.MaxDepth = 0
	}
	g, _ := denil(gen.Geom(o).Draw(t, "geom"), true)
	return g
}

var reuseSRIDs = []int{4326, 3857, 900913, 2, 65538, 1<<31 - 1}

func drawSRIDOrAbsent(t *rapid.T) int {
	if rapid.IntRange(0, 2).Draw(t, "hassrid") == 0 {
		return 0
	}
	return rapid.SampledFrom(reuseSRIDs).Draw(t, "srid")
}

func drawEncoderSeq(t *rapid.T) SeqCase {
	c := SeqCase{Object: "encoder", Pkg: rapid.SampledFrom([]string{"wkb", "ewkb"}).Draw(t, "pkg")}
	n := rapid.IntRange(2, 6).Draw(t, "steps")
	for i := 0; i < n; i++ {
		ops := []string{"encode", "encode", "order"}
		if c.Pkg == "ewkb" {
			ops = []string{"encode", "encode", "order", "srid", "encode_srid"}
		}
		st := Step{Op: rapid.SampledFrom(ops).Draw(t, "op")}
		if i == n-1 && st.Op != "encode_srid" {
			st.Op = "encode" // a trailing setter observes nothing
		}
		switch st.Op {
		case "encode":
			st.Geom = gen.G{V: drawSmallGeom(t, nil)}
		case "encode_srid":
			st.Geom = gen.G{V: drawSmallGeom(t, nil)}
			st.SRID = drawSRIDOrAbsent(t)
		case "order":
			st.BE = rapid.Bool().Draw(t, "be")
		case "srid":
			st.SRID = drawSRIDOrAbsent(t)
		}
		c.Steps = append(c.Steps, st)
	}
	return c
}

func drawDecoderSeq(t *rapid.T) SeqCase {
	c := SeqCase{Object: "decoder", Pkg: rapid.SampledFrom([]string{"wkb", "ewkb"}).Draw(t, "pkg")}
	n := rapid.IntRange(2, 6).Draw(t, "steps")
	for i := 0; i < n; i++ {
		st := Step{Op: "value", Geom: gen.G{V: drawSmallGeom(t, nil)}, BE: rapid.Bool().Draw(t, "be")}
		if c.Pkg == "ewkb" {
			st.SRID = drawSRIDOrAbsent(t)
		}
		c.Steps = append(c.Steps, st)
	}
	return c
}

func drawScannerSeq(t *rapid.T) SeqCase {
	c := SeqCase{Object: "scanner"}
	switch rapid.IntRange(0, 2).Draw(t, "scanner") {
	case 0:
		c.Pkg = "wkb"
	case 1:
		c.Pkg = "ewkb"
	default:
		c.Pkg, c.Prefix = "ewkb", true
	}
	c.Dest = rapid.SampledFrom(destKinds).Draw(t, "dest")
	n := rapid.IntRange(2, 6).Draw(t, "steps")
	for i := 0; i < n; i++ {
		st := Step{Op: rapid.SampledFrom([]string{"row", "row", "row", "row", "null", "nullbytes", "garbage"}).Draw(t, "op")}
		if st.Op == "row" {
			// half of the rows are of a kind the destination accepts (possibly through a coercion), the rest of any kind
			var kinds []string
			if ks, ok := compatibleKinds[c.Dest]; ok && rapid.Bool().Draw(t, "compatible") {
				kinds = ks
			}
			if c.Dest == "Collection" && rapid.Bool().Draw(t, "compatible") {
				st.Geom = gen.G{V: orb.Collection(rapid.SliceOfN(rapid.Custom(func(t *rapid.T) orb.Geometry { return drawSmallGeom(t, []string{"Point", "LineString", "Polygon"}) }), 0, 2).Draw(t, "members"))}
			} else {
				st.Geom = gen.G{V: drawSmallGeom(t, kinds)}
			}
			st.BE = rapid.Bool().Draw(t, "be")
			switch {
			case c.Prefix:
				st.Framing = "prefix"
				st.SRID = drawSRIDOrAbsent(t)
			case c.Pkg == "ewkb":
				st.Framing = rapid.SampledFrom([]string{"raw", "raw", "hex", "HEX", `\x+hex`}).Draw(t, "framing")
				st.SRID = drawSRIDOrAbsent(t)
			default:
				st.Framing = rapid.SampledFrom([]string{"raw", "raw", "hex", "HEX", `\x+hex`, "prefix"}).Draw(t, "framing")
				if st.Framing == "prefix" {
					st.SRID = rapid.SampledFrom([]int{4326, 3857, 900913}).Draw(t, "srid") // inside the MySQL-retry domain
				}
			}
		}
		c.Steps = append(c.Steps, st)
	}
	return c
}

func classifySeq(c SeqCase) {
	name := c.Object + ":" + c.Pkg
	if c.Prefix {
		name += " ScannerPrefixSRID"
	}
	stats.Class("reuse " + name)
	for _, st := range c.Steps {
		stats.Class("reuse step:" + c.Object + " " + st.Op)
	}
	stats.Class(fmt.Sprintf("reuse steps:%d", len(c.Steps)))
	stats.NonTrivial(gen.JSON(c))
	if stats.WantSample("reuse " + c.Object) {
		stats.Sample("reuse "+c.Object, c)
	}
}

func reuseAssumptions() {
	stats.Assume("object reuse: after a scan that is not Valid (NULL row or error) only Valid, the error and Geometry == nil are compared with a fresh scanner; SRID and *dest are meaningful only when Valid is true and are compared only then")
	stats.Assume("object reuse: encoder steps are Encode / Encode(g, srid) / SetByteOrder / SetSRID; the bytes written by one Encode call must equal a fresh Marshal with the then-current order and SRID (a per-call SRID does not persist)")
}

func TestPropReuseEncoder(t *testing.T) {
	reuseAssumptions()
	stats.Check(t, 12000, 400000, func(rt *rapid.T) {
		c := drawEncoderSeq(rt)
		classifySeq(c)
		stats.Try(rt, "TestPropReuseEncoder", c, func() error { return checkSeq(c) })
	})
}

func TestPropReuseDecoder(t *testing.T) {
	stats.Check(t, 12000, 400000, func(rt *rapid.T) {
		c := drawDecoderSeq(rt)
		classifySeq(c)
		stats.Try(rt, "TestPropReuseDecoder", c, func() error { return checkSeq(c) })
	})
}

func TestPropReuseScanner(t *testing.T) {
	reuseAssumptions()
	stats.Check(t, 24000, 800000, func(rt *rapid.T) {
		c := drawScannerSeq(rt)
		classifySeq(c)
		stats.Try(rt, "TestPropReuseScanner", c, func() error { return checkSeq(c) })
	})
}

// TestEnumReusePairs is the exhaustive two-step core of the reuse class: for every
// object kind, every ordered pair of "states" (byte order x SRID present/absent, and
// for scanners NULL / garbage / wrong kind rows) is run as a two-step sequence.
func TestEnumReusePairs(t *testing.T) {
	cnt := &counter{}
	pt := func() gen.G { return gen.G{V: orb.Point{cnt.next(), cnt.next()}} }
	ls := func() gen.G { return gen.G{V: orb.LineString(cnt.pts(2))} }
	var cases []SeqCase
	type cfg struct {
		be   bool
		srid int
	}
	cfgs := []cfg{{false, 0}, {true, 0}, {false, 4326}, {true, 4326}, {false, 3857}, {true, 900913}}
	for _, a := range cfgs {
		for _, b := range cfgs {
			// encoder: configure a, encode, configure b, encode
			cases = append(cases, SeqCase{Object: "encoder", Pkg: "ewkb", Steps: []Step{
				{Op: "order", BE: a.be}, {Op: "srid", SRID: a.srid}, {Op: "encode", Geom: pt()},
				{Op: "order", BE: b.be}, {Op: "srid", SRID: b.srid}, {Op: "encode", Geom: ls()}}})
			cases = append(cases, SeqCase{Object: "encoder", Pkg: "ewkb", Steps: []Step{
				{Op: "order", BE: a.be}, {Op: "encode_srid", SRID: a.srid, Geom: ls()},
				{Op: "order", BE: b.be}, {Op: "encode", Geom: pt()}}})
			cases = append(cases, SeqCase{Object: "encoder", Pkg: "wkb", Steps: []Step{
				{Op: "order", BE: a.be}, {Op: "encode", Geom: ls()}, {Op: "order", BE: b.be}, {Op: "encode", Geom: pt()}}})
			for _, pkg := range []string{"wkb", "ewkb"} {
				cases = append(cases, SeqCase{Object: "decoder", Pkg: pkg, Steps: []Step{
					{Op: "value", Geom: pt(), BE: a.be, SRID: a.srid}, {Op: "value", Geom: ls(), BE: b.be, SRID: b.srid}, {Op: "value", Geom: pt(), BE: a.be, SRID: a.srid}}})
			}
		}
	}
	// scanners: every ordered pair of row kinds for every destination
	type rowKind struct {
		op   string
		srid int
		line bool
	}
	rows := []rowKind{{"row", 0, false}, {"row", 4326, false}, {"row", 3857, false}, {"row", 4326, true}, {"row", 0, true}, {"null", 0, false}, {"nullbytes", 0, false}, {"garbage", 0, false}}
	mk := func(r rowKind, pkg string, prefix bool, be bool) Step {
		st := Step{Op: r.op}
		if r.op != "row" {
			return st
		}
		st.Geom, st.BE, st.SRID, st.Framing = pt(), be, r.srid, "raw"
		if r.line {
			st.Geom = ls()
		}
		if prefix || (pkg == "wkb" && r.srid != 0) {
			st.Framing = "prefix"
		}
		return st
	}
	for _, dest := range destKinds {
		for _, sc := range []struct {
			pkg    string
			prefix bool
		}{{"wkb", false}, {"ewkb", false}, {"ewkb", true}} {
			for _, r1 := range rows {
				for _, r2 := range rows {
					cases = append(cases, SeqCase{Object: "scanner", Pkg: sc.pkg, Prefix: sc.prefix, Dest: dest,
						Steps: []Step{mk(r1, sc.pkg, sc.prefix, false), mk(r2, sc.pkg, sc.prefix, true)}})
				}
			}
		}
	}
	var idx int64
	for _, c := range cases {
		idx++
		if !stats.Mine(idx) {
			continue
		}
		c := c
		stats.Eval("TestEnumReusePairs", 1)
		stats.Class("enum reuse pairs:" + c.Object)
		stats.NonTrivial(gen.JSON(c))
		stats.TryT(t, "TestEnumReusePairs", c, func() error { return checkSeq(c) })
	}
	stats.Subspace("object reuse, exhaustive pairs: encoder (wkb, ewkb) and decoder over every ordered pair of 6 (byte order, SRID) configurations; scanners (wkb.Scanner, ewkb.Scanner, ewkb.ScannerPrefixSRID) x 10 destinations x every ordered pair of 8 row kinds (point/line rows with and without SRID, NULL, []byte(nil), non-WKB bytes)", int64(len(cases)), true)
}
