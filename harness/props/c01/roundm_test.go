package c01

// Round M, class M1: the exported package-level configuration variables wkb.DefaultByteOrder,
// ewkb.DefaultByteOrder and ewkb.DefaultSRID. SEQUENTIAL test (the variables are process-wide: never inside
// concurrent groups); the defaults are restored with defer. Every entry point that has no explicit argument for
// the setting must follow it; entry points given an explicit order / SRID must not; the 4-byte SRID prefix of
// ValuePrefixSRID / ScannerPrefixSRID stays little endian whatever the default order is (documented as the MySQL
// format and observed on the unchanged tree); every decode path still returns the value.

import (
	"bytes"
	"encoding/binary"
	"encoding/hex"
	"fmt"
	"testing"

	"github.com/paulmach/orb"
	"github.com/paulmach/orb/encoding/ewkb"
	"github.com/paulmach/orb/encoding/wkb"

	"verifharness/internal/gen"
	"verifharness/internal/stats"
)

// DefaultsCase names one setting and one shape (index into the small-shape enumeration).
type DefaultsCase struct {
	Shape       int  `json:"shape"`
	DefaultBE   bool `json:"default_big_endian"`
	DefaultSRID int  `json:"default_srid"`
	SRID        int  `json:"srid"` // explicit SRID handed to the ewkb entry points that take one
}

func defaultsShapes() []orb.Geometry {
	all := enumShapes(false)
	out := append([]orb.Geometry{}, oneOfEachKind()...)
	for i := 0; i < len(all); i += 6 {
		out = append(out, all[i])
	}
	return out
}

func checkDefaults(c DefaultsCase, shapes []orb.Geometry) error {
	g := shapes[c.Shape]
	want := gen.Canonical(g)
	oldW, oldE, oldS := wkb.DefaultByteOrder, ewkb.DefaultByteOrder, ewkb.DefaultSRID
	defer func() { wkb.DefaultByteOrder, ewkb.DefaultByteOrder, ewkb.DefaultSRID = oldW, oldE, oldS }()
	wkb.DefaultByteOrder, ewkb.DefaultByteOrder, ewkb.DefaultSRID = order(c.DefaultBE), order(c.DefaultBE), c.DefaultSRID
	set := fmt.Sprintf("[DefaultByteOrder big-endian=%v, DefaultSRID=%d]", c.DefaultBE, c.DefaultSRID)

	// judge: own reader, SRID, and the byte-order mark of every header equals the expected order
	judge := func(what string, b []byte, srid int, be bool) error {
		what = set + " " + what
		if err := refCheck(what, b, want, srid); err != nil {
			return err
		}
		ref, err := ewkb.Marshal(g, srid, order(be)) // explicit-argument path (checked by the main property)
		if err != nil {
			return err
		}
		if !bytes.Equal(b, ref) {
			return fmt.Errorf("%s: bytes are not in the expected byte order (big-endian=%v) with SRID %d: got %x..., explicit-argument encoding %x...", what, be, srid, clip(b), clip(ref))
		}
		return nil
	}
	hexBytes := func(what, s string, err error) ([]byte, error) {
		if err != nil {
			return nil, fmt.Errorf("%s: %v", what, err)
		}
		b, err := hex.DecodeString(s)
		if err != nil {
			return nil, fmt.Errorf("%s: not hex: %v", what, err)
		}
		return b, nil
	}
	be := c.DefaultBE
	var produced [][]byte

	// ---- wkb, no explicit order: follows wkb.DefaultByteOrder
	b, err := wkb.Marshal(g)
	if err != nil {
		return err
	}
	if err := judge("wkb.Marshal(g)", b, 0, be); err != nil {
		return err
	}
	produced = append(produced, b)
	if err := judge("wkb.MustMarshal(g)", wkb.MustMarshal(g), 0, be); err != nil {
		return err
	}
	hx, err := wkb.MarshalToHex(g)
	if b, err = hexBytes("wkb.MarshalToHex(g)", hx, err); err != nil {
		return err
	}
	if err := judge("wkb.MarshalToHex(g)", b, 0, be); err != nil {
		return err
	}
	if b, err = hexBytes("wkb.MustMarshalToHex(g)", wkb.MustMarshalToHex(g), nil); err != nil {
		return err
	}
	if err := judge("wkb.MustMarshalToHex(g)", b, 0, be); err != nil {
		return err
	}
	ev, err := valueBytes("wkb.Value", wkb.Value(g))
	if err != nil {
		return err
	}
	if err := judge("wkb.Value(g)", ev.data, 0, be); err != nil {
		return err
	}
	var buf bytes.Buffer
	if err := wkb.NewEncoder(&buf).Encode(g); err != nil {
		return err
	}
	if err := judge("wkb.NewEncoder(w).Encode(g)", buf.Bytes(), 0, be); err != nil {
		return err
	}
	// explicit order wins over the default
	for _, x := range []bool{false, true} {
		b, err := wkb.Marshal(g, order(x))
		if err != nil {
			return err
		}
		if err := judge(fmt.Sprintf("wkb.Marshal(g, explicit big-endian=%v)", x), b, 0, x); err != nil {
			return err
		}
	}

	// ---- ewkb, explicit SRID, no explicit order: follows ewkb.DefaultByteOrder
	b, err = ewkb.Marshal(g, c.SRID)
	if err != nil {
		return err
	}
	if err := judge("ewkb.Marshal(g, srid)", b, c.SRID, be); err != nil {
		return err
	}
	produced = append(produced, b)
	if err := judge("ewkb.MustMarshal(g, srid)", ewkb.MustMarshal(g, c.SRID), c.SRID, be); err != nil {
		return err
	}
	hx, err = ewkb.MarshalToHex(g, c.SRID)
	if b, err = hexBytes("ewkb.MarshalToHex(g, srid)", hx, err); err != nil {
		return err
	}
	if err := judge("ewkb.MarshalToHex(g, srid)", b, c.SRID, be); err != nil {
		return err
	}
	if b, err = hexBytes("ewkb.MustMarshalToHex(g, srid)", ewkb.MustMarshalToHex(g, c.SRID), nil); err != nil {
		return err
	}
	if err := judge("ewkb.MustMarshalToHex(g, srid)", b, c.SRID, be); err != nil {
		return err
	}
	ev, err = valueBytes("ewkb.Value", ewkb.Value(g, c.SRID))
	if err != nil {
		return err
	}
	if err := judge("ewkb.Value(g, srid)", ev.data, c.SRID, be); err != nil {
		return err
	}
	// ---- ewkb encoder defaults: DefaultSRID and DefaultByteOrder; explicit arguments win
	buf.Reset()
	if err := ewkb.NewEncoder(&buf).Encode(g); err != nil {
		return err
	}
	if err := judge("ewkb.NewEncoder(w).Encode(g)", buf.Bytes(), c.DefaultSRID, be); err != nil {
		return err
	}
	produced = append(produced, append([]byte(nil), buf.Bytes()...))
	buf.Reset()
	if err := ewkb.NewEncoder(&buf).Encode(g, c.SRID); err != nil {
		return err
	}
	if err := judge("ewkb.NewEncoder(w).Encode(g, srid)", buf.Bytes(), c.SRID, be); err != nil {
		return err
	}
	buf.Reset()
	if err := ewkb.NewEncoder(&buf).SetByteOrder(order(!be)).SetSRID(c.SRID).Encode(g); err != nil {
		return err
	}
	if err := judge("ewkb.NewEncoder(w).SetByteOrder(other).SetSRID(srid).Encode(g)", buf.Bytes(), c.SRID, !be); err != nil {
		return err
	}
	b, err = ewkb.Marshal(g, c.SRID, order(!be))
	if err != nil {
		return err
	}
	if err := refCheck(set+" ewkb.Marshal(g, srid, explicit other order)", b, want, c.SRID); err != nil {
		return err
	}
	if len(b) > 0 && (b[0] == 0) != !be {
		return fmt.Errorf("%s ewkb.Marshal with an explicit order followed the default order instead", set)
	}

	// ---- SRID prefix framing: 4 bytes LITTLE endian whatever the default order is; the body follows the default order
	pv, err := valueBytes("ewkb.ValuePrefixSRID", ewkb.ValuePrefixSRID(g, c.SRID))
	if err != nil {
		return err
	}
	if len(pv.data) < 5 {
		return fmt.Errorf("%s ewkb.ValuePrefixSRID returned %d bytes", set, len(pv.data))
	}
	if got := int(binary.LittleEndian.Uint32(pv.data)); got != c.SRID {
		return fmt.Errorf("%s ewkb.ValuePrefixSRID(g, %d): the 4-byte prefix is % x, read little endian (the MySQL format) that is SRID %d", set, c.SRID, pv.data[:4], got)
	}
	if err := judge("body of ewkb.ValuePrefixSRID(g, srid)", pv.data[4:], 0, be); err != nil {
		return err
	}
	sp := ewkb.ScannerPrefixSRID(nil)
	if err := sp.Scan(append([]byte(nil), pv.data...)); err != nil {
		return fmt.Errorf("%s ewkb.ScannerPrefixSRID of ValuePrefixSRID output: %v", set, err)
	}
	if same, why := sameBits(sp.Geometry, want); !same || sp.SRID != c.SRID || !sp.Valid {
		return fmt.Errorf("%s ewkb.ScannerPrefixSRID of ValuePrefixSRID output: SRID %d (want %d), valid %v, %s", set, sp.SRID, c.SRID, sp.Valid, why)
	}
	// a hand-built little-endian prefix in front of a body in either order
	for _, x := range []bool{false, true} {
		body, err := wkb.Marshal(g, order(x))
		if err != nil {
			return err
		}
		sp := ewkb.ScannerPrefixSRID(nil)
		if err := sp.Scan(sridPrefix(c.SRID, body)); err != nil {
			return fmt.Errorf("%s ewkb.ScannerPrefixSRID(little-endian prefix + body big-endian=%v): %v", set, x, err)
		}
		if same, why := sameBits(sp.Geometry, want); !same || sp.SRID != c.SRID {
			return fmt.Errorf("%s ewkb.ScannerPrefixSRID(little-endian prefix + body big-endian=%v): SRID %d (want %d) %s", set, x, sp.SRID, c.SRID, why)
		}
	}

	// ---- every decode path still returns the value for what the default-following encoders wrote
	for i, data := range produced {
		wantSRID := []int{0, c.SRID, c.DefaultSRID}[i]
		if err := checkBytes(ewkbAPI, set+" default-following encoder output", data, want, expectAll(want), wantSRID, true); err != nil {
			return err
		}
		if wantSRID == 0 { // plain WKB: the wkb package's paths too
			if err := checkBytes(wkbAPI, set+" default-following encoder output", data, want, expectAll(want), 0, true); err != nil {
				return err
			}
		}
	}
	return nil
}

// TestEnumDefaults: {LE, BE} x DefaultSRID {0, 4326, 3857} x ~170 shapes of every kind.
func TestEnumDefaults(t *testing.T) {
	stats.Assume("package-level configuration (wkb.DefaultByteOrder, ewkb.DefaultByteOrder, ewkb.DefaultSRID) is exercised by one sequential test only and restored with defer; the 4-byte SRID prefix of ewkb.ValuePrefixSRID / ScannerPrefixSRID is little endian independent of DefaultByteOrder (documented as the MySQL format, binary.LittleEndian on the unchanged tree)")
	shapes := defaultsShapes()
	var idx, size int64
	for _, be := range []bool{false, true} {
		for _, ds := range []int{0, 4326, 3857} {
			for si := range shapes {
				idx++
				size++
				if !stats.Mine(idx) {
					continue
				}
				c := DefaultsCase{Shape: si, DefaultBE: be, DefaultSRID: ds, SRID: []int{0, 4326, 900913, 1<<31 - 1}[(si+int(idx))%4]}
				stats.Eval("TestEnumDefaults", 1)
				stats.Class(fmt.Sprintf("defaults: big-endian=%v DefaultSRID=%d", be, ds))
				stats.NonTrivialHash(stats.Hash(gen.JSON(c)))
				stats.TryT(t, "TestEnumDefaults", c, func() error { return checkDefaults(c, shapes) })
			}
		}
	}
	stats.Subspace(fmt.Sprintf("package defaults: DefaultByteOrder {LE,BE} (wkb and ewkb) x ewkb.DefaultSRID {0,4326,3857} x %d shapes of every kind; every entry point without an explicit order / SRID must follow the setting (own WKB reader + explicit-argument encoding as judges), explicit arguments win, the SRID prefix stays little endian, all decode paths return the value", len(shapes)), size, true)
}
