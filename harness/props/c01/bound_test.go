package c01

// Generator classes that make the "anything to its bound" coercion bite: multi-geometries and collections
// whose members have DEGENERATE bounds (a point, an axis-parallel segment, a single-vertex line, a sliver
// ring with zero width or height) in every position, mixed with ordinary members and empty ones. The
// expected bound is the harness's own min/max fold (modelBound), so a library that skips, or stops at, a
// member with a zero-width or zero-height bound is seen.

import (
	"fmt"
	"testing"

	"github.com/paulmach/orb"
	"pgregory.net/rapid"

	"verifharness/internal/gen"
	"verifharness/internal/stats"
)

var boundMemberNames = []string{
	"point-like (single vertex)", "horizontal segment", "vertical segment", "sliver (zero width)", "sliver (zero height)",
	"ordinary", "ordinary far away", "empty",
}

// memberPts returns the vertex list of member shape k placed around (ox, oy); every shape reaches a
// different extreme so that dropping any member changes the overall bound.
func memberPts(k int, ox, oy float64) []orb.Point {
	switch k {
	case 0:
		return []orb.Point{{ox, oy}}
	case 1:
		return []orb.Point{{ox - 2, oy}, {ox + 3, oy}}
	case 2:
		return []orb.Point{{ox, oy - 3}, {ox, oy + 2}}
	case 3:
		return []orb.Point{{ox, oy - 1}, {ox, oy + 4}, {ox, oy + 1}, {ox, oy - 1}}
	case 4:
		return []orb.Point{{ox - 1, oy}, {ox + 4, oy}, {ox + 1, oy}, {ox - 1, oy}}
	case 5:
		return []orb.Point{{ox, oy}, {ox + 2, oy}, {ox + 2, oy + 2}, {ox, oy}}
	case 6:
		return []orb.Point{{ox + 50, oy - 60}, {ox + 52, oy - 60}, {ox + 51, oy - 57}, {ox + 50, oy - 60}}
	}
	return []orb.Point{}
}

// boundContainer builds container kind (0 multi-line string, 1 multi-polygon, 2 polygon-with-holes inside a
// multi-polygon, 3 collection of mixed kinds, 4 nested collection) from member shapes; member i sits at its own offset.
func boundContainer(container int, shapes []int, offs [][2]float64) orb.Geometry {
	switch container {
	case 0:
		out := make(orb.MultiLineString, len(shapes))
		for i, k := range shapes {
			out[i] = memberPts(k, offs[i][0], offs[i][1])
		}
		return out
	case 1:
		out := make(orb.MultiPolygon, len(shapes))
		for i, k := range shapes {
			if k == 7 {
				out[i] = orb.Polygon{}
				continue
			}
			out[i] = orb.Polygon{memberPts(k, offs[i][0], offs[i][1])}
		}
		return out
	case 2:
		out := make(orb.MultiPolygon, len(shapes))
		for i, k := range shapes {
			// a hole that does NOT reach beyond the outer ring (holes do not contribute to the bound)
			out[i] = orb.Polygon{memberPts(k, offs[i][0], offs[i][1]), memberPts(0, offs[i][0], offs[i][1])}
		}
		return out
	}
	out := make(orb.Collection, len(shapes))
	for i, k := range shapes {
		ps := memberPts(k, offs[i][0], offs[i][1])
		var m orb.Geometry
		switch {
		case k == 0 && i%2 == 0:
			m = ps[0] // a Point held by value
		case k == 0:
			m = orb.MultiPoint(ps)
		case k == 1 || k == 2:
			if i%2 == 0 {
				m = orb.LineString(ps)
			} else {
				m = orb.MultiLineString{ps[:1], ps[1:]}
			}
		case k == 7:
			m = []orb.Geometry{orb.LineString{}, orb.MultiPolygon{}, orb.Collection{}, orb.Polygon{{}}}[i%4]
		case i%3 == 0:
			m = orb.Ring(ps)
		case i%3 == 1:
			m = orb.Polygon{ps}
		default:
			m = orb.MultiPolygon{{ps}}
		}
		if container == 4 {
			m = orb.Collection{m}
		}
		out[i] = m
	}
	return out
}

var boundContainerNames = []string{"multi-line string", "multi-polygon", "multi-polygon with holes", "collection", "nested collection"}

// drawBoundMembers is the rapid class: 2..5 members of random shapes at random small-integer offsets.
func drawBoundMembers(t *rapid.T) orb.Geometry {
	n := rapid.IntRange(2, 5).Draw(t, "members")
	shapes := make([]int, n)
	offs := make([][2]float64, n)
	for i := range shapes {
		shapes[i] = rapid.IntRange(0, len(boundMemberNames)-1).Draw(t, "membershape")
		offs[i] = [2]float64{float64(rapid.IntRange(-20, 20).Draw(t, "ox")), float64(rapid.IntRange(-20, 20).Draw(t, "oy"))}
	}
	return boundContainer(rapid.IntRange(0, len(boundContainerNames)-1).Draw(t, "container"), shapes, offs)
}

// TestEnumBoundMembers: every sequence of 2 and of 3 member shapes (8 shapes: five degenerate, two ordinary,
// empty) in every container; member i sits at its own offset, so each member decides part of the bound.
func TestEnumBoundMembers(t *testing.T) {
	offs := [][2]float64{{0, 0}, {11, -7}, {-13, 5}}
	var idx, size int64
	run := func(container int, shapes []int) {
		for cfg := 0; cfg < 2; cfg++ {
			idx++
			size++
			if !stats.Mine(idx) {
				continue
			}
			g := boundContainer(container, shapes, offs)
			c := Case{Geom: gen.G{V: g}, SRID: []int{0, 4326}[cfg], BE: cfg == 1, Lite: true}
			stats.Eval("TestEnumBoundMembers", 1)
			stats.Class("enum bound members:" + boundContainerNames[container])
			stats.NonTrivialHash(stats.Hash(fmt.Sprintf("boundmembers %d %v %d", container, shapes, cfg)))
			stats.TryT(t, "TestEnumBoundMembers", c, func() error { return checkCase(c) })
		}
	}
	nShapes := len(boundMemberNames)
	for container := range boundContainerNames {
		for a := 0; a < nShapes; a++ {
			for b := 0; b < nShapes; b++ {
				run(container, []int{a, b})
				for c := 0; c < nShapes; c++ {
					run(container, []int{a, b, c})
				}
			}
		}
	}
	stats.Subspace("bound coercion: every sequence of 2 and of 3 members out of 8 member shapes (single vertex, horizontal / vertical segment, zero-width / zero-height sliver ring, two ordinary rings, empty) in 5 containers (multi-line string, multi-polygon, multi-polygon with holes, collection of mixed kinds, nested collection) x {LE without SRID, BE with SRID 4326}; expected bound = harness min/max fold", size, true)
}
