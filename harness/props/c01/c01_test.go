// Package c01 decides property C01 (WKB/EWKB encode-decode is lossless; every
// decode path agrees) by generated search: every generated geometry is encoded
// by every exported encode route of encoding/wkb and encoding/ewkb and the
// bytes are decoded by every exported decode path (one-shot, streaming,
// scanner x 10 destinations x 5 framings, SRID-prefix scanners); the decoded
// values are compared bit-for-bit with the value the statement prescribes.
package c01

import (
	"bytes"
	"database/sql/driver"
	"encoding/binary"
	"encoding/hex"
	"encoding/json"
	"errors"
	"fmt"
	"io"
	"math"
	"strings"
	"testing"
	"testing/iotest"

	"github.com/paulmach/orb"
	"github.com/paulmach/orb/encoding/ewkb"
	"github.com/paulmach/orb/encoding/wkb"
	"pgregory.net/rapid"

	"verifharness/internal/gen"
	"verifharness/internal/stats"
)

func TestMain(m *testing.M) { stats.Main(m, "C01") }

// Case is one generated input (also the replay format). The check runs every
// encode route and every decode path on it, so the case carries no path choice.
type Case struct {
	Geom gen.G `json:"geom"`
	SRID int   `json:"srid"`       // 0 = absent (plain WKB), else in [1, 2^31)
	BE   bool  `json:"big_endian"` // byte order handed to the encoder
	// Lite bounds the cost of the length enumeration: scanner framings raw + lower-case hex only, and
	// one package (ewkb when an SRID is present, wkb when absent); all ten destinations, the one-shot,
	// streaming and SRID-prefix paths and every encode route of that package stay.
	Lite bool `json:"lite,omitempty"`
	// Noise != 0 interleaves calls to other entry points (other kinds, byte orders, SRIDs, Must* and hex
	// helpers, failing decodes, and same-shape variants of this very geometry) between the checked calls;
	// the value selects where the rotation of noise calls starts. Their results are not checked.
	Noise int `json:"noise,omitempty"`
}

// ---------------------------------------------------------------- expectation model

// destKinds are the ten scanner destinations: nil plus a pointer to each of the nine kinds.
var destKinds = []string{"nil", "Point", "MultiPoint", "LineString", "MultiLineString", "Ring", "Polygon", "MultiPolygon", "Collection", "Bound"}

// expectScan is the expectation table written from the statement: what a scan
// of the decoded value val (one of the seven wire kinds) into destination dest
// yields. ok == false means "wrong-geometry error".
func expectScan(dest string, val orb.Geometry) (orb.Geometry, bool) {
	switch dest {
	case "nil":
		return val, true
	case "Point":
		switch v := val.(type) {
		case orb.Point:
			return v, true
		case orb.MultiPoint:
			if len(v) == 1 {
				return v[0], true
			}
		}
	case "MultiPoint":
		switch v := val.(type) {
		case orb.Point:
			return orb.MultiPoint{v}, true
		case orb.MultiPoint:
			return v, true
		}
	case "LineString":
		switch v := val.(type) {
		case orb.LineString:
			return v, true
		case orb.MultiLineString:
			if len(v) == 1 {
				return v[0], true
			}
		}
	case "MultiLineString":
		switch v := val.(type) {
		case orb.LineString:
			return orb.MultiLineString{v}, true
		case orb.MultiLineString:
			return v, true
		}
	case "Ring":
		if v, ok := val.(orb.Polygon); ok && len(v) == 1 {
			return v[0], true
		}
	case "Polygon":
		switch v := val.(type) {
		case orb.Polygon:
			return v, true
		case orb.MultiPolygon:
			if len(v) == 1 {
				return v[0], true
			}
		}
	case "MultiPolygon":
		switch v := val.(type) {
		case orb.Polygon:
			return orb.MultiPolygon{v}, true
		case orb.MultiPolygon:
			return v, true
		}
	case "Collection":
		if v, ok := val.(orb.Collection); ok {
			return v, true
		}
	case "Bound":
		// "anything to its bound": the harness's own fold over the vertices (see modelBound);
		// no orb function is used to build the expectation.
		// the value is judged by expectation.match / matchBound(got, modelBound(val)), never by bit comparison
		return nil, true
	}
	return nil, false
}

// expBound is the expected result of the "anything to its bound" coercion, computed by the harness.
//
//	exact        componentwise min / max over the contributing vertices, compared NUMERICALLY (==), so
//	             that -0 and +0 are the same bound (which zero survives depends on vertex order in orb
//	             and is not specified)
//	empty        no contributing vertex at all: any bound with Min > Max on some axis is accepted (orb
//	             uses the sentinel {1,1},{-1,-1}; the sentinel's value is not part of the statement)
//	unspecified  a contributing coordinate is NaN: orb's min/max fold skips or keeps NaN depending on
//	             vertex order (Extend tests Contains first), nothing is documented; only the kind of the
//	             result (an orb.Bound) is checked
//
// Contributing vertices (what the unchanged tree documents and does): every vertex of points,
// multi-points, line strings and multi-line strings; of a polygon only the OUTER ring (ring 0: "the bound
// around the polygon", holes lie inside a valid polygon); of a multi-polygon the outer ring of every
// polygon; of a collection the contributing vertices of every member at any depth.
type expBound struct {
	unspecified, empty bool
	min, max           [2]float64
}

func (e expBound) String() string {
	switch {
	case e.unspecified:
		return "unspecified (NaN vertex)"
	case e.empty:
		return "any empty bound"
	}
	return fmt.Sprintf("[%v %v]-[%v %v]", e.min[0], e.min[1], e.max[0], e.max[1])
}

func modelBound(val orb.Geometry) expBound {
	e := expBound{empty: true}
	add := func(p orb.Point) {
		if math.IsNaN(p[0]) || math.IsNaN(p[1]) {
			e.unspecified = true
			return
		}
		if e.empty {
			e.empty = false
			e.min, e.max = [2]float64{p[0], p[1]}, [2]float64{p[0], p[1]}
			return
		}
		for k := 0; k < 2; k++ {
			if p[k] < e.min[k] {
				e.min[k] = p[k]
			}
			if p[k] > e.max[k] {
				e.max[k] = p[k]
			}
		}
	}
	var walk func(g orb.Geometry)
	walk = func(g orb.Geometry) {
		switch v := g.(type) {
		case orb.Point:
			add(v)
		case orb.MultiPoint:
			for _, p := range v {
				add(p)
			}
		case orb.LineString:
			for _, p := range v {
				add(p)
			}
		case orb.Ring:
			for _, p := range v {
				add(p)
			}
		case orb.MultiLineString:
			for _, l := range v {
				walk(l)
			}
		case orb.Polygon:
			if len(v) > 0 {
				walk(v[0])
			}
		case orb.MultiPolygon:
			for _, p := range v {
				walk(p)
			}
		case orb.Collection:
			for _, m := range v {
				walk(m)
			}
		case orb.Bound:
			add(v.Min)
			add(v.Max)
		}
	}
	walk(val)
	return e
}

// matchBound compares a scanned bound with the model.
func matchBound(got orb.Geometry, e expBound) (bool, string) {
	b, ok := got.(orb.Bound)
	if !ok {
		return false, fmt.Sprintf("got %s, want an orb.Bound", gen.KindOf(got))
	}
	switch {
	case e.unspecified:
		return true, ""
	case e.empty:
		if b.Min[0] > b.Max[0] || b.Min[1] > b.Max[1] {
			return true, ""
		}
		return false, fmt.Sprintf("bound of a value without vertices is [%v %v]-[%v %v], want an empty bound (Min > Max)", b.Min[0], b.Min[1], b.Max[0], b.Max[1])
	}
	if b.Min[0] == e.min[0] && b.Min[1] == e.min[1] && b.Max[0] == e.max[0] && b.Max[1] == e.max[1] {
		return true, ""
	}
	return false, fmt.Sprintf("bound [%v %v]-[%v %v], want the min/max over all vertices %s", b.Min[0], b.Min[1], b.Max[0], b.Max[1], e)
}

func ptsEq(a, b []orb.Point) bool {
	if len(a) != len(b) {
		return false
	}
	for i := range a {
		if math.Float64bits(a[i][0]) != math.Float64bits(b[i][0]) || math.Float64bits(a[i][1]) != math.Float64bits(b[i][1]) {
			return false
		}
	}
	return true
}

// eqBits is the allocation-free fast path of gen.SameBits (same kind, nesting,
// lengths, coordinate bit patterns; nil and empty slices are not told apart).
// Whenever it says "different" the caller asks gen.SameBits, which decides and explains.
func eqBits(a, b orb.Geometry) bool {
	switch x := a.(type) {
	case orb.Point:
		y, ok := b.(orb.Point)
		return ok && ptsEq([]orb.Point{x}, []orb.Point{y})
	case orb.MultiPoint:
		y, ok := b.(orb.MultiPoint)
		return ok && ptsEq(x, y)
	case orb.LineString:
		y, ok := b.(orb.LineString)
		return ok && ptsEq(x, y)
	case orb.Ring:
		y, ok := b.(orb.Ring)
		return ok && ptsEq(x, y)
	case orb.MultiLineString:
		y, ok := b.(orb.MultiLineString)
		if !ok || len(x) != len(y) {
			return false
		}
		for i := range x {
			if !ptsEq(x[i], y[i]) {
				return false
			}
		}
		return true
	case orb.Polygon:
		y, ok := b.(orb.Polygon)
		if !ok || len(x) != len(y) {
			return false
		}
		for i := range x {
			if !ptsEq(x[i], y[i]) {
				return false
			}
		}
		return true
	case orb.MultiPolygon:
		y, ok := b.(orb.MultiPolygon)
		if !ok || len(x) != len(y) {
			return false
		}
		for i := range x {
			if !eqBits(x[i], y[i]) {
				return false
			}
		}
		return true
	case orb.Collection:
		y, ok := b.(orb.Collection)
		if !ok || len(x) != len(y) {
			return false
		}
		for i := range x {
			if !eqBits(x[i], y[i]) {
				return false
			}
		}
		return true
	}
	return false // nil, Bound, anything unexpected: let gen.SameBits decide
}

// sameBits = gen.SameBits with a fast path.
func sameBits(a, b orb.Geometry) (bool, string) {
	if eqBits(a, b) {
		return true, ""
	}
	return gen.SameBits(a, b)
}

var junkPts = []orb.Point{{-7.25, 1e300}, {math.Inf(-1), 42}}

// newDest returns a pointer destination pre-filled with junk (so that a scan
// that appends to, or leaves, the old content is seen) and a reader for it.
func newDest(kind string) (interface{}, func() orb.Geometry) {
	switch kind {
	case "nil":
		return nil, nil
	case "Point":
		v := junkPts[0]
		return &v, func() orb.Geometry { return v }
	case "MultiPoint":
		v := orb.MultiPoint{junkPts[0], junkPts[1]}
		return &v, func() orb.Geometry { return v }
	case "LineString":
		v := orb.LineString{junkPts[0], junkPts[1]}
		return &v, func() orb.Geometry { return v }
	case "MultiLineString":
		v := orb.MultiLineString{{junkPts[0]}, {junkPts[1]}}
		return &v, func() orb.Geometry { return v }
	case "Ring":
		v := orb.Ring{junkPts[0], junkPts[1]}
		return &v, func() orb.Geometry { return v }
	case "Polygon":
		v := orb.Polygon{{junkPts[0]}, {junkPts[1]}}
		return &v, func() orb.Geometry { return v }
	case "MultiPolygon":
		v := orb.MultiPolygon{{{junkPts[0]}}, {{junkPts[1]}}}
		return &v, func() orb.Geometry { return v }
	case "Collection":
		v := orb.Collection{junkPts[0], orb.LineString{junkPts[1]}}
		return &v, func() orb.Geometry { return v }
	case "Bound":
		v := orb.Bound{Min: junkPts[0], Max: junkPts[1]}
		return &v, func() orb.Geometry { return v }
	}
	panic("dest " + kind)
}

// ---------------------------------------------------------------- the two packages behind one face

type scanResult struct {
	geom  orb.Geometry
	srid  int
	valid bool
	err   error
}

type api struct {
	name         string
	hasSRID      bool
	errIncorrect error
	unmarshal    func([]byte) (orb.Geometry, int, error)
	decoder      func(io.Reader) func() (orb.Geometry, int, error)
	scan         func(dest interface{}, data []byte) scanResult
	scanPrefix   func(dest interface{}, data []byte) scanResult // 4-byte SRID prefix path
	noise        func()                                         // class D: unrelated calls between the checked ones (nil = none)
}

// nz runs one noise call if the case asks for them.
func (a api) nz() {
	if a.noise != nil {
		a.noise()
	}
}

var wkbAPI = api{
	name: "wkb", hasSRID: false, errIncorrect: wkb.ErrIncorrectGeometry,
	unmarshal: func(b []byte) (orb.Geometry, int, error) { g, err := wkb.Unmarshal(b); return g, 0, err },
	decoder: func(r io.Reader) func() (orb.Geometry, int, error) {
		d := wkb.NewDecoder(r)
		return func() (orb.Geometry, int, error) { g, err := d.Decode(); return g, 0, err }
	},
	scan: func(dest interface{}, data []byte) scanResult {
		s := wkb.Scanner(dest)
		err := s.Scan(data)
		return scanResult{s.Geometry, 0, s.Valid, err}
	},
	// wkb.Scanner's deprecated "strip 4 bytes and retry" path is the same entry point
	scanPrefix: func(dest interface{}, data []byte) scanResult {
		s := wkb.Scanner(dest)
		err := s.Scan(data)
		return scanResult{s.Geometry, 0, s.Valid, err}
	},
}

var ewkbAPI = api{
	name: "ewkb", hasSRID: true, errIncorrect: ewkb.ErrIncorrectGeometry,
	unmarshal: ewkb.Unmarshal,
	decoder: func(r io.Reader) func() (orb.Geometry, int, error) {
		d := ewkb.NewDecoder(r)
		return d.Decode
	},
	scan: func(dest interface{}, data []byte) scanResult {
		s := ewkb.Scanner(dest)
		err := s.Scan(data)
		return scanResult{s.Geometry, s.SRID, s.Valid, err}
	},
	scanPrefix: func(dest interface{}, data []byte) scanResult {
		s := ewkb.ScannerPrefixSRID(dest)
		err := s.Scan(data)
		return scanResult{s.Geometry, s.SRID, s.Valid, err}
	},
}

func order(be bool) binary.ByteOrder {
	if be {
		return binary.BigEndian
	}
	return binary.LittleEndian
}

type encoded struct {
	route string
	data  []byte
}

func valueBytes(route string, v driver.Valuer) (encoded, error) {
	dv, err := v.Value()
	if err != nil {
		return encoded{}, fmt.Errorf("%s: %v", route, err)
	}
	if dv == nil {
		return encoded{route, nil}, nil
	}
	b, ok := dv.([]byte)
	if !ok {
		return encoded{}, fmt.Errorf("%s returned %T, want []byte", route, dv)
	}
	return encoded{route, b}, nil
}

// encodeAll runs every exported encode route of one package for (g, srid, be).
// srid is ignored for wkb. Routes bound to the default (little endian) order
// are only run when be == false.
func encodeAll(a api, g orb.Geometry, srid int, be bool) ([]encoded, error) {
	bo := order(be)
	var out []encoded
	add := func(route string, b []byte, err error) error {
		if err != nil {
			return fmt.Errorf("%s.%s: %v", a.name, route, err)
		}
		out = append(out, encoded{route, b})
		a.nz()
		return nil
	}
	addHex := func(route string, s string, err error) error {
		if err != nil {
			return fmt.Errorf("%s.%s: %v", a.name, route, err)
		}
		b, herr := hex.DecodeString(s)
		if herr != nil {
			return fmt.Errorf("%s.%s returned non-hex %q: %v", a.name, route, s, herr)
		}
		out = append(out, encoded{route, b})
		return nil
	}
	if a.hasSRID {
		b, err := ewkb.Marshal(g, srid, bo)
		if e := add("Marshal", b, err); e != nil {
			return nil, e
		}
		out = append(out, encoded{"MustMarshal", ewkb.MustMarshal(g, srid, bo)})
		s, err := ewkb.MarshalToHex(g, srid, bo)
		if e := addHex("MarshalToHex", s, err); e != nil {
			return nil, e
		}
		var buf bytes.Buffer
		err = ewkb.NewEncoder(&buf).SetByteOrder(bo).SetSRID(srid).Encode(g)
		if e := add("Encoder.SetSRID.Encode", append([]byte(nil), buf.Bytes()...), err); e != nil {
			return nil, e
		}
		buf.Reset()
		err = ewkb.NewEncoder(&buf).SetByteOrder(bo).Encode(g, srid)
		if e := add("Encoder.Encode(g, srid)", append([]byte(nil), buf.Bytes()...), err); e != nil {
			return nil, e
		}
		if srid == ewkb.DefaultSRID {
			buf.Reset()
			err = ewkb.NewEncoder(&buf).SetByteOrder(bo).Encode(g)
			if e := add("Encoder(default srid).Encode", append([]byte(nil), buf.Bytes()...), err); e != nil {
				return nil, e
			}
		}
		if !be {
			b, err := ewkb.Marshal(g, srid)
			if e := add("Marshal(default order)", b, err); e != nil {
				return nil, e
			}
			ev, err := valueBytes("ewkb.Value", ewkb.Value(g, srid))
			if err != nil {
				return nil, err
			}
			out = append(out, ev)
		}
		return out, nil
	}
	b, err := wkb.Marshal(g, bo)
	if e := add("Marshal", b, err); e != nil {
		return nil, e
	}
	out = append(out, encoded{"MustMarshal", wkb.MustMarshal(g, bo)})
	s, err := wkb.MarshalToHex(g, bo)
	if e := addHex("MarshalToHex", s, err); e != nil {
		return nil, e
	}
	var buf bytes.Buffer
	err = wkb.NewEncoder(&buf).SetByteOrder(bo).Encode(g)
	if e := add("Encoder.Encode", append([]byte(nil), buf.Bytes()...), err); e != nil {
		return nil, e
	}
	if !be {
		b, err := wkb.Marshal(g)
		if e := add("Marshal(default order)", b, err); e != nil {
			return nil, e
		}
		ev, err := valueBytes("wkb.Value", wkb.Value(g))
		if err != nil {
			return nil, err
		}
		out = append(out, ev)
	}
	return out, nil
}

func isTypedNil(g orb.Geometry) bool {
	switch v := g.(type) {
	case orb.MultiPoint:
		return v == nil
	case orb.LineString:
		return v == nil
	case orb.Ring:
		return v == nil
	case orb.MultiLineString:
		return v == nil
	case orb.Polygon:
		return v == nil
	case orb.MultiPolygon:
		return v == nil
	case orb.Collection:
		return v == nil
	}
	return false
}

type framing struct {
	name string
	make func([]byte) []byte
}

// every framing hands the scanner a private copy: Scan decodes hex in place.
var framings = []framing{
	{"raw", func(b []byte) []byte { return append([]byte(nil), b...) }},
	{"hex", func(b []byte) []byte { return []byte(hex.EncodeToString(b)) }},
	{"HEX", func(b []byte) []byte { return bytes.ToUpper([]byte(hex.EncodeToString(b))) }},
	{`\x+hex`, func(b []byte) []byte { return append([]byte(`\x`), hex.EncodeToString(b)...) }},
	{`\x+HEX`, func(b []byte) []byte { return append([]byte(`\x`), bytes.ToUpper([]byte(hex.EncodeToString(b)))...) }},
}

func sridPrefix(srid int, body []byte) []byte {
	out := make([]byte, 4, 4+len(body))
	binary.LittleEndian.PutUint32(out, uint32(srid))
	return append(out, body...)
}

// mysqlRetryApplies is the stated domain of wkb.Scanner's deprecated,
// documented-as-best-effort "strip 4 bytes and retry" path: the first prefix
// byte must not be a byte-order mark and the prefix must not trigger the hex
// or \x framing detection.
func mysqlRetryApplies(srid int) bool {
	b0, b1 := byte(srid), byte(srid>>8)
	if b0 == 0 || b0 == 1 {
		return false
	}
	if b0 == '0' && (b1 == '0' || b1 == '1') {
		return false
	}
	if b0 == '\\' && b1 == 'x' {
		return false
	}
	return true
}

type expectation struct {
	geom    orb.Geometry
	ok      bool
	isBound bool     // the Bound destination: judged by the model, not by bits
	bound   expBound // harness model of the bound of the decoded value
}

// match compares a scanned value with the expectation.
func (e expectation) match(got orb.Geometry) (bool, string) {
	if e.isBound {
		return matchBound(got, e.bound)
	}
	return sameBits(got, e.geom)
}

// expectAll applies the expectation table to the decoded value for all ten destinations.
func expectAll(want orb.Geometry) []expectation {
	out := make([]expectation, len(destKinds))
	for i, dk := range destKinds {
		out[i].geom, out[i].ok = expectScan(dk, want)
		if dk == "Bound" {
			out[i].isBound, out[i].bound = true, modelBound(want)
		}
	}
	return out
}

// checkScan scans framed (copied for every scan: Scan decodes hex in place)
// into every destination and compares with the expectation table applied to want.
func checkScan(a api, scan func(interface{}, []byte) scanResult, what string, framed []byte, want orb.Geometry, exps []expectation, srid int, skipDest func(string) bool) error {
	buf := make([]byte, len(framed))
	for i, dk := range destKinds {
		if skipDest != nil && skipDest(dk) {
			continue
		}
		dest, read := newDest(dk)
		copy(buf, framed)
		a.nz()
		res := scan(dest, buf[:len(framed):len(framed)])
		ok := exps[i].ok
		where := func() string { return fmt.Sprintf("%s scan [%s] into %s", a.name, what, dk) }
		if !ok {
			if res.err == nil {
				return fmt.Errorf("%s: no error for a kind mismatch (decoded value is %s), got %s", where(), gen.KindOf(want), gen.Canon(res.geom))
			}
			if !errors.Is(res.err, a.errIncorrect) {
				return fmt.Errorf("%s: error %q, want the wrong-geometry error %q (decoded value is %s)", where(), res.err, a.errIncorrect, gen.KindOf(want))
			}
			if res.valid {
				return fmt.Errorf("%s: Valid is true after a wrong-geometry error", where())
			}
			continue
		}
		if res.err != nil {
			return fmt.Errorf("%s: unexpected error %v (decoded value is %s)", where(), res.err, gen.KindOf(want))
		}
		if !res.valid {
			return fmt.Errorf("%s: Valid is false after a successful scan", where())
		}
		if same, why := exps[i].match(res.geom); !same {
			return fmt.Errorf("%s: scanner.Geometry differs: %s", where(), why)
		}
		if read != nil {
			if same, why := exps[i].match(read()); !same {
				return fmt.Errorf("%s: *dest differs: %s", where(), why)
			}
		}
		if a.hasSRID && res.srid != srid {
			return fmt.Errorf("%s: SRID %d, want %d", where(), res.srid, srid)
		}
	}
	return nil
}

// checkBytes feeds one encoding through every decode path of package a.
func checkBytes(a api, route string, data []byte, want orb.Geometry, exps []expectation, srid int, lite bool) error {
	if !a.hasSRID {
		srid = 0
	}
	// one-shot byte-slice decoder
	g, s, err := a.unmarshal(append([]byte(nil), data...))
	if err != nil {
		return fmt.Errorf("%s.Unmarshal of %s output: %v", a.name, route, err)
	}
	if same, why := sameBits(g, want); !same {
		return fmt.Errorf("%s.Unmarshal of %s output: %s", a.name, route, why)
	}
	if s != srid {
		return fmt.Errorf("%s.Unmarshal of %s output: SRID %d, want %d", a.name, route, s, srid)
	}
	a.nz()
	// streaming decoder: plain reader, one byte at a time, and two values back to back
	for _, rd := range []struct {
		name string
		r    io.Reader
	}{
		{"bytes.Reader", bytes.NewReader(data)},
		{"one-byte reader", iotest.OneByteReader(bytes.NewReader(data))},
	} {
		g, s, err := a.decoder(rd.r)()
		if err != nil {
			return fmt.Errorf("%s.Decoder(%s) of %s output: %v", a.name, rd.name, route, err)
		}
		if same, why := sameBits(g, want); !same {
			return fmt.Errorf("%s.Decoder(%s) of %s output: %s", a.name, rd.name, route, why)
		}
		if s != srid {
			return fmt.Errorf("%s.Decoder(%s) of %s output: SRID %d, want %d", a.name, rd.name, route, s, srid)
		}
	}
	{
		// (no claim on how far the decoder reads ahead: only that consecutive values come out right)
		stream := append(append([]byte(nil), data...), data...)
		dec := a.decoder(bytes.NewReader(stream))
		for k := 0; k < 2; k++ {
			g, s, err := dec()
			if err != nil {
				return fmt.Errorf("%s.Decoder, value %d of a two-value stream: %v", a.name, k+1, err)
			}
			if same, why := sameBits(g, want); !same {
				return fmt.Errorf("%s.Decoder, value %d of a two-value stream: %s", a.name, k+1, why)
			}
			if s != srid {
				return fmt.Errorf("%s.Decoder, value %d of a two-value stream: SRID %d, want %d", a.name, k+1, s, srid)
			}
		}
	}
	// scanner: 10 destinations x 5 framings (lite cases and encodings above 16 KiB: raw and lower-case hex only, to bound the cost)
	for i, f := range framings {
		if (lite || len(data) > 16384) && i >= 2 {
			break
		}
		if err := checkScan(a, a.scan, f.name+" of "+route, f.make(data), want, exps, srid, nil); err != nil {
			return err
		}
	}
	return nil
}

func checkCase(c Case) error {
	g := c.Geom.V
	if c.SRID < 0 || c.SRID >= 1<<31 {
		return fmt.Errorf("case outside the domain: SRID %d", c.SRID)
	}
	want := gen.Canonical(g)
	var exps []expectation
	if g != nil {
		exps = expectAll(want)
	}
	for _, a := range []api{ewkbAPI, wkbAPI} {
		// lite cases go through one package: ewkb when an SRID is present, wkb when it is absent
		// (the two share the codec; the full matrix runs on every non-lite case)
		if c.Lite && a.hasSRID != (c.SRID != 0) {
			continue
		}
		a.noise = mkNoise(c)
		srid := c.SRID
		if !a.hasSRID {
			srid = 0
		}
		encs, err := encodeAll(a, g, srid, c.BE)
		if err != nil {
			return err
		}
		// nil interface: no bytes on every route
		if g == nil {
			for _, e := range encs {
				if len(e.data) != 0 {
					return fmt.Errorf("%s.%s(nil) wrote %d bytes, want none", a.name, e.route, len(e.data))
				}
			}
			if a.hasSRID {
				ev, err := valueBytes("ewkb.ValuePrefixSRID", ewkb.ValuePrefixSRID(g, srid))
				if err != nil {
					return err
				}
				if ev.data != nil {
					return fmt.Errorf("ewkb.ValuePrefixSRID(nil).Value() = %d bytes, want nil", len(ev.data))
				}
			}
			continue
		}
		main := encs[0]
		for i, e := range encs {
			if len(e.data) == 0 {
				// a typed nil slice may encode to nothing (then every route must agree on that)
				if isTypedNil(g) {
					continue
				}
				return fmt.Errorf("%s.%s wrote no bytes for a non-nil %s", a.name, e.route, gen.KindOf(g))
			}
			if i > 0 && bytes.Equal(e.data, main.data) {
				continue // same bytes as the main route: already decided
			}
			if i > 0 && len(main.data) == 0 {
				return fmt.Errorf("%s.%s wrote %d bytes where %s wrote none", a.name, e.route, len(e.data), main.route)
			}
			if err := checkBytes(a, e.route, e.data, want, exps, srid, c.Lite); err != nil {
				return err
			}
		}
		if len(main.data) == 0 {
			continue
		}
		// 4-byte little-endian SRID prefix framing
		body := main.data
		if a.hasSRID {
			// the prefix carries the SRID, the body is plain WKB in the requested order
			b, err := ewkb.Marshal(g, 0, order(c.BE))
			if err != nil {
				return fmt.Errorf("ewkb.Marshal(srid 0): %v", err)
			}
			body = b
			if err := checkScan(a, a.scanPrefix, "4-byte SRID prefix + WKB", sridPrefix(srid, body), want, exps, srid, nil); err != nil {
				return err
			}
			ev, err := valueBytes("ewkb.ValuePrefixSRID", ewkb.ValuePrefixSRID(g, srid))
			if err != nil {
				return err
			}
			if !bytes.Equal(ev.data, sridPrefix(srid, body)) {
				if err := checkScan(a, a.scanPrefix, "ValuePrefixSRID output", ev.data, want, exps, srid, nil); err != nil {
					return err
				}
			}
		} else if c.SRID != 0 && mysqlRetryApplies(c.SRID) {
			if err := checkScan(a, a.scanPrefix, "MySQL 4-byte SRID prefix + WKB (retry path)", sridPrefix(c.SRID, body), want, exps, 0, nil); err != nil {
				return err
			}
		}
	}
	return nil
}

// ---------------------------------------------------------------- regression witnesses

// witnessRetryCollection is the witness of the defect repaired by /repo commit
// d9d1894 (known_findings.json: C01 wkb-scanner-mysql-retry-collection-dest,
// fixed): wkb.Scanner with a *orb.Collection destination did not take the
// "strip the 4-byte SRID prefix and retry" path that the other nine
// destinations take. The cell is part of the ordinary search (checkCase); this
// is the same input stated directly.
func witnessRetryCollection() error {
	col := orb.Collection{orb.Point{1, 2}}
	data := sridPrefix(4326, wkb.MustMarshal(col))
	var dst orb.Collection
	s := wkb.Scanner(&dst)
	if err := s.Scan(data); err != nil {
		return fmt.Errorf("wkb.Scanner(&orb.Collection{}).Scan(SRID prefix 4326 + WKB of Collection{Point{1,2}}) = %v, want the collection (wkb.Scanner(nil) and the other typed destinations decode the same framing)", err)
	}
	if same, why := gen.SameBits(dst, col); !same || !s.Valid {
		return fmt.Errorf("wkb.Scanner(&orb.Collection{}) on MySQL-prefixed data: valid=%v %s", s.Valid, why)
	}
	err := wkb.Scanner(&dst).Scan(sridPrefix(4326, wkb.MustMarshal(orb.Point{1, 2})))
	if !errors.Is(err, wkb.ErrIncorrectGeometry) {
		return fmt.Errorf("wkb.Scanner(&orb.Collection{}).Scan(SRID prefix 4326 + WKB of a point) = %v, want %v", err, wkb.ErrIncorrectGeometry)
	}
	return nil
}

// TestEnumWitnesses runs the formerly failing inputs as ordinary regression cases.
func TestEnumWitnesses(t *testing.T) {
	if i, _ := stats.Shard(); i != 0 {
		return // deterministic: one shard is enough
	}
	var size int64
	for _, g := range []orb.Geometry{orb.Collection{orb.Point{1, 2}}, orb.Point{1, 2}, orb.Collection{}} {
		for _, be := range []bool{false, true} {
			c := Case{Geom: gen.G{V: g}, SRID: 4326, BE: be}
			size++
			stats.Eval("TestEnumWitnesses", 1)
			stats.NonTrivial(gen.JSON(c))
			stats.TryT(t, "TestEnumWitnesses", c, func() error { return checkCase(c) })
		}
	}
	size++
	stats.Eval("TestEnumWitnesses", 1)
	if err := stats.Guard(witnessRetryCollection); err != nil {
		p := stats.RecordFailure("TestEnumWitnesses/direct", Case{Geom: gen.G{V: orb.Collection{orb.Point{1, 2}}}, SRID: 4326}, err)
		t.Fatalf("%v (replay %s)", err, p)
	}
	stats.Subspace("regression witnesses of repaired C01 defects (wkb.Scanner MySQL-prefix retry into *orb.Collection)", size, true)
}

// ---------------------------------------------------------------- generators

var boundarySRIDs = []int{1, 2, 255, 256, 257, 4326, 3857, 0x3030, 0x3130, 0x785c, 0x30303030, 0x31303030, 0x3030785c, 65535, 65536, 1 << 24, 1<<29 - 1, 1 << 29, 1<<29 + 1, 1 << 30, 1<<31 - 2, 1<<31 - 1}

var geomOpts = gen.Opts{
	Coord: nil, Nil: true, NilSlices: true, Empty: true, EmptyMembers: true, Degenerate: true,
	MaxDepth: 3, MaxLen: 5, InvertedBnd: true,
}

// denil replaces typed-nil slices that are collection members by empty non-nil
// ones (the quantifier excludes nil entries inside collections); reports whether it changed anything.
func denil(g orb.Geometry, top bool) (orb.Geometry, bool) {
	changed := false
	if !top && isTypedNil(g) {
		changed = true
		switch g.(type) {
		case orb.MultiPoint:
			g = orb.MultiPoint{}
		case orb.LineString:
			g = orb.LineString{}
		case orb.Ring:
			g = orb.Ring{}
		case orb.MultiLineString:
			g = orb.MultiLineString{}
		case orb.Polygon:
			g = orb.Polygon{}
		case orb.MultiPolygon:
			g = orb.MultiPolygon{}
		case orb.Collection:
			g = orb.Collection{}
		}
	}
	if c, ok := g.(orb.Collection); ok {
		for i := range c {
			m, ch := denil(c[i], false)
			c[i] = m
			changed = changed || ch
		}
	}
	return g, changed
}

func typedNilOf(kind int) orb.Geometry {
	switch kind {
	case 0:
		return orb.MultiPoint(nil)
	case 1:
		return orb.LineString(nil)
	case 2:
		return orb.Ring(nil)
	case 3:
		return orb.MultiLineString(nil)
	case 4:
		return orb.Polygon(nil)
	case 5:
		return orb.MultiPolygon(nil)
	}
	return orb.Collection(nil)
}

func drawCase(t *rapid.T) Case {
	o := geomOpts
	// nil interface and typed-nil slices are drawn here (kept rare), not by gen.Geom
	o.Nil, o.NilSlices = false, false
	// coordinate universe per case: mostly "any" (incl. NaN payloads, infinities, subnormals), sometimes finite only
	if rapid.IntRange(0, 3).Draw(t, "coordclass") == 0 {
		o.Coord = gen.FiniteCoord()
	} else {
		o.Coord = gen.AnyCoord()
	}
	var g orb.Geometry
	pow2, boundClass, large := false, false, false
	switch shape := rapid.IntRange(0, 39).Draw(t, "shape"); {
	case shape == 39:
		g = nil
	case shape == 38:
		g = typedNilOf(rapid.IntRange(0, 6).Draw(t, "nilkind"))
	case shape == 37 && rapid.IntRange(0, 3).Draw(t, "largeclass") == 0:
		// rare "large" class: one vertex list or member count around 512 / 1024 / 2048 / 4096 (L-2..L+3), lite matrix
		l := rapid.SampledFrom([]int{512, 1024, 2048, 4096}).Draw(t, "L") + rapid.IntRange(-2, 3).Draw(t, "dL")
		dim := rapid.SampledFrom([]int{0, 1, 2, 3, 4, 5, 6, 7, 8, 9}).Draw(t, "largedim")
		g, _ = buildLarge(LargeCase{Dim: largeDims[dim].name, N: l, Pos: rapid.IntRange(0, 2).Draw(t, "pos")})
		large = true
	case shape >= 36:
		// length class "around a power of two": a vertex list of 2^k-1 .. 2^k+1 points (k = 4..9) in one
		// of the ten positions of the length enumeration, at top level or inside a collection with followers.
		// Coordinates are index-derived from a drawn base (every point distinct).
		k := rapid.IntRange(4, 9).Draw(t, "pow2k")
		n := 1<<uint(k) + rapid.IntRange(-1, 1).Draw(t, "pow2d")
		cnt := &counter{k: uint64(rapid.Uint32().Draw(t, "coordbase"))}
		g = place(rapid.IntRange(0, 2).Draw(t, "placement"), lengthShape(rapid.IntRange(0, len(lengthShapeNames)-1).Draw(t, "lenshape"), n, cnt), cnt)
		pow2 = true
	case shape >= 34:
		// members with degenerate bounds (points, axis-parallel segments, slivers, single-vertex lines) mixed
		// with ordinary and empty ones, small-integer coordinates: makes the bound coercion bite
		g = drawBoundMembers(t)
		boundClass = true
	case shape >= 30:
		// bias towards the multi-level kinds
		o.Kinds = []string{"MultiLineString", "Polygon", "MultiPolygon", "MultiPoint"}
		g = gen.Geom(o).Draw(t, "geom")
	case shape >= 22:
		// a collection at the top with members of any kind (nesting up to depth 3 in total)
		mo := o
		mo.MaxDepth = 2
		g = orb.Collection(rapid.SliceOfN(gen.Geom(mo), 0, 3).Draw(t, "members"))
	case shape >= 18:
		// deep collections: members are mostly collections again
		mo := o
		mo.MaxDepth = 4
		mo.Kinds = []string{"Collection", "Collection", "Collection", "Point", "LineString", "MultiPolygon", "Ring"}
		g = orb.Collection(rapid.SliceOfN(gen.Geom(mo), 1, 3).Draw(t, "members"))
	default:
		g = gen.Geom(o).Draw(t, "geom")
	}
	g, _ = denil(g, true)
	c := Case{Geom: gen.G{V: g}}
	if pow2 {
		stats.Class("length class:a vertex list of 2^k-1..2^k+1 points, k=4..9")
	}
	if boundClass {
		stats.Class("bound class:members with degenerate bounds in a multi-geometry / collection")
	}
	if large {
		stats.Class("large class:a vertex list or member count of L-2..L+3, L in {512,1024,2048,4096}")
		c.Lite = true
	}
	switch rapid.IntRange(0, 3).Draw(t, "sridclass") {
	case 0:
		c.SRID = 0
	case 1:
		c.SRID = rapid.SampledFrom(boundarySRIDs).Draw(t, "srid")
	case 2:
		// rapid's integer draw (biased towards small values and the ends of the range)
		c.SRID = rapid.IntRange(1, 1<<31-1).Draw(t, "srid")
	default:
		// four independently drawn bytes: every byte position takes every value
		b := rapid.SliceOfN(rapid.Byte(), 4, 4).Draw(t, "sridbytes")
		c.SRID = int(binary.LittleEndian.Uint32(b) & 0x7fffffff)
		if c.SRID == 0 {
			c.SRID = 1
		}
	}
	c.BE = rapid.Bool().Draw(t, "be")
	return c
}

func nesting(g orb.Geometry) int {
	switch v := g.(type) {
	case nil:
		return 0
	case orb.Point, orb.Bound:
		return 0
	case orb.MultiPoint, orb.LineString, orb.Ring:
		return 1
	case orb.MultiLineString, orb.Polygon:
		return 2
	case orb.MultiPolygon:
		return 3
	case orb.Collection:
		d := 0
		for _, m := range v {
			if n := nesting(m); n > d {
				d = n
			}
		}
		return d + 1
	}
	return 0
}

func hasEmptyMember(g orb.Geometry) bool {
	switch v := g.(type) {
	case orb.MultiLineString:
		for _, l := range v {
			if len(l) == 0 {
				return true
			}
		}
	case orb.Polygon:
		for _, r := range v {
			if len(r) == 0 {
				return true
			}
		}
	case orb.MultiPolygon:
		for _, p := range v {
			if len(p) == 0 || hasEmptyMember(p) {
				return true
			}
		}
	case orb.Collection:
		for _, m := range v {
			if isEmptyTop(m) || hasEmptyMember(m) {
				return true
			}
		}
	}
	return false
}

func isEmptyTop(g orb.Geometry) bool {
	switch v := g.(type) {
	case orb.MultiPoint:
		return len(v) == 0
	case orb.LineString:
		return len(v) == 0
	case orb.Ring:
		return len(v) == 0
	case orb.MultiLineString:
		return len(v) == 0
	case orb.Polygon:
		return len(v) == 0
	case orb.MultiPolygon:
		return len(v) == 0
	case orb.Collection:
		return len(v) == 0
	}
	return false
}

func sridClass(s int) string {
	if s == 0 {
		return "srid:absent"
	}
	for _, b := range boundarySRIDs {
		if b == s {
			return "srid:boundary table"
		}
	}
	return "srid:drawn from [1,2^31)"
}

// nonTrivial is the rule of rule.txt.
func nonTrivial(c Case) bool {
	g := c.Geom.V
	if g == nil {
		return false
	}
	_, bits := gen.Flatten(g)
	if len(bits) == 0 {
		return false
	}
	return nesting(g) >= 2 || gen.HasNonFinite(g) || c.SRID != 0
}

func classify(test string, c Case) {
	g := c.Geom.V
	stats.Class("kind:" + gen.KindOf(g))
	if c.BE {
		stats.Class("order:big endian")
	} else {
		stats.Class("order:little endian")
	}
	stats.Class(sridClass(c.SRID))
	if c.SRID != 0 && !mysqlRetryApplies(c.SRID) {
		stats.Class("srid:outside the wkb.Scanner MySQL-retry domain (ewkb.ScannerPrefixSRID still checked)")
	}
	if g != nil {
		if gen.HasNonFinite(g) {
			stats.Class("coord:has NaN/Inf/-0")
		} else {
			stats.Class("coord:all finite")
		}
		switch {
		case isTypedNil(g):
			stats.Class("shape:typed nil slice at top")
		case isEmptyTop(g):
			stats.Class("shape:empty at top")
		case hasEmptyMember(g):
			stats.Class("shape:has an empty member")
		}
		stats.Class(fmt.Sprintf("nesting:%d", nesting(g)))
		if _, ok := g.(orb.Collection); ok {
			stats.Class(fmt.Sprintf("collection depth:%d", gen.Depth(g)))
		}
		switch v := gen.Canonical(g).(type) {
		case orb.MultiPoint:
			if len(v) == 1 {
				stats.Class("coercion:one-member multi")
			}
		case orb.MultiLineString:
			if len(v) == 1 {
				stats.Class("coercion:one-member multi")
			}
		case orb.MultiPolygon:
			if len(v) == 1 {
				stats.Class("coercion:one-member multi")
			}
		case orb.Polygon:
			if len(v) == 1 {
				stats.Class("coercion:one-ring polygon")
			}
		}
	}
	if g != nil && !isTypedNil(g) {
		switch mb := modelBound(gen.Canonical(g)); {
		case mb.unspecified:
			stats.Class("bound expectation:unspecified (NaN vertex), kind only")
		case mb.empty:
			stats.Class("bound expectation:empty")
		default:
			stats.Class("bound expectation:exact min/max")
		}
	}
	if nonTrivial(c) {
		stats.NonTrivial(gen.JSON(c))
		grp := gen.KindOf(g)
		if stats.WantSample(grp) {
			stats.Sample(grp, c)
		}
	}
}

func assumptions() {
	stats.Assume("collection members (at any depth) and multi-geometry members are not nil: a typed-nil slice only occurs as the top-level value (quantifier: members without nil entries); generated typed-nil collection members are replaced by empty non-nil values")
	stats.Assume("a typed-nil top-level slice may encode to no bytes or to an empty geometry of its kind (both accepted)")
	stats.Assume("wkb.Scanner's deprecated MySQL 'strip 4 bytes and retry' path (documented as best effort) is only exercised with SRID prefixes whose first byte is not 0/1 and that do not look like hex or \\x framing; ewkb.ScannerPrefixSRID, the supported path, is checked for every SRID")
	stats.Assume("'anything to its bound' is checked against the harness's own fold: componentwise min/max over all vertices at any depth, of polygons the outer ring only (as the unchanged tree documents and does), compared numerically so that -0 == +0; a value without contributing vertices must give some empty bound (Min > Max on an axis; the sentinel's value is not checked); when a contributing coordinate is NaN the bound is unspecified (orb's fold keeps or skips NaN depending on vertex order) and only the result kind is checked")
	stats.Assume("byte order and SRID are passed per call; the package-level DefaultByteOrder/DefaultSRID variables are left at their defaults")
	stats.Assume("scanning a NULL column (nil input) is not part of the statement and is not checked")
}

func TestPropRoundTrip(t *testing.T) {
	assumptions()
	stats.Check(t, 80000, 3000000, func(rt *rapid.T) {
		c := drawCase(rt)
		classify("TestPropRoundTrip", c)
		stats.Try(rt, "TestPropRoundTrip", c, func() error { return checkCase(c) })
	})
}

// ---------------------------------------------------------------- enumerations

// coordinate source for enumerated shapes: every slot gets a distinct value whose
// eight bytes are all different, so any offset slip, byte-order mix-up or x/y swap shows.
type counter struct{ k uint64 }

func (c *counter) next() float64 {
	c.k++
	return math.Float64frombits(0x4001020304050607 + c.k*0x0000010101010101)
}

func (c *counter) pts(n int) []orb.Point {
	out := make([]orb.Point, n)
	for i := range out {
		out[i] = orb.Point{c.next(), c.next()}
	}
	return out
}

// lenCombos lists every vector of k lengths with entries in [0, maxLen].
func lenCombos(k, maxLen int) [][]int {
	if k == 0 {
		return [][]int{{}}
	}
	var out [][]int
	for _, rest := range lenCombos(k-1, maxLen) {
		for l := 0; l <= maxLen; l++ {
			out = append(out, append(append([]int(nil), rest...), l))
		}
	}
	return out
}

func enumShapes(thorough bool) []orb.Geometry {
	c := &counter{}
	var out []orb.Geometry
	maxPts, maxParts, maxPolys := 3, 3, 2
	if thorough {
		maxPts, maxParts, maxPolys = 4, 4, 3
	}
	out = append(out, orb.Point{c.next(), c.next()})
	out = append(out, orb.Bound{Min: orb.Point{c.next(), c.next()}, Max: orb.Point{c.next(), c.next()}})
	for n := 0; n <= maxPts+1; n++ {
		out = append(out, orb.MultiPoint(c.pts(n)), orb.LineString(c.pts(n)), orb.Ring(c.pts(n)))
	}
	var polys []orb.Polygon
	for k := 0; k <= maxParts; k++ {
		for _, lens := range lenCombos(k, 2) {
			mls := make(orb.MultiLineString, k)
			pg := make(orb.Polygon, k)
			for i, l := range lens {
				mls[i] = orb.LineString(c.pts(l))
				pg[i] = orb.Ring(c.pts(l))
			}
			out = append(out, mls, pg)
			if k <= 2 {
				polys = append(polys, pg)
			}
		}
	}
	// multi-polygons: every sequence of <= maxPolys polygons out of the 13 polygons with <= 2 rings of <= 2 points
	var rec func(prefix []int)
	rec = func(prefix []int) {
		mp := make(orb.MultiPolygon, len(prefix))
		for i, pi := range prefix {
			src := polys[pi]
			p := make(orb.Polygon, len(src))
			for j := range src {
				p[j] = orb.Ring(c.pts(len(src[j])))
			}
			mp[i] = p
		}
		out = append(out, mp)
		if len(prefix) == maxPolys {
			return
		}
		for pi := range polys {
			rec(append(append([]int(nil), prefix...), pi))
		}
	}
	rec(nil)
	// collections over a basis of members of every kind
	basis := func() []orb.Geometry {
		return []orb.Geometry{
			orb.Point{c.next(), c.next()},
			orb.MultiPoint{}, orb.MultiPoint(c.pts(1)), orb.MultiPoint(c.pts(2)),
			orb.LineString{}, orb.LineString(c.pts(2)),
			orb.MultiLineString{}, orb.MultiLineString{c.pts(1)}, orb.MultiLineString{{}, c.pts(2)},
			orb.Ring{}, orb.Ring(c.pts(3)),
			orb.Polygon{}, orb.Polygon{{}}, orb.Polygon{c.pts(2), c.pts(1)},
			orb.MultiPolygon{}, orb.MultiPolygon{{}}, orb.MultiPolygon{{c.pts(1)}}, orb.MultiPolygon{{c.pts(1), {}}, {}},
			orb.Bound{Min: orb.Point{c.next(), c.next()}, Max: orb.Point{c.next(), c.next()}},
			orb.Collection{}, orb.Collection{orb.Point{c.next(), c.next()}},
			orb.Collection{orb.Collection{orb.LineString(c.pts(2))}, orb.MultiPoint(c.pts(1))},
		}
	}
	out = append(out, orb.Collection{})
	nb := len(basis())
	for i := 0; i < nb; i++ {
		out = append(out, orb.Collection{basis()[i]})
		for j := 0; j < nb; j++ {
			out = append(out, orb.Collection{basis()[i], basis()[j]})
			if thorough {
				for k := 0; k < nb; k++ {
					out = append(out, orb.Collection{basis()[i], basis()[j], basis()[k]})
				}
			}
		}
	}
	return out
}

// TestEnumSmallShapes enumerates every small structure of every kind with
// distinct coordinates in both byte orders and with SRID absent / 1 / 4326 / 2^31-1.
func TestEnumSmallShapes(t *testing.T) {
	assumptions()
	shapes := enumShapes(stats.Thorough())
	srids := []int{0, 1, 4326, 1<<31 - 1}
	var idx, size int64
	for _, g := range shapes {
		for _, srid := range srids {
			for _, be := range []bool{false, true} {
				idx++
				size++
				if !stats.Mine(idx) {
					continue
				}
				c := Case{Geom: gen.G{V: g}, SRID: srid, BE: be}
				stats.Eval("TestEnumSmallShapes", 1)
				stats.Class("enum small shapes kind:" + gen.KindOf(g))
				if nonTrivial(c) {
					stats.NonTrivial(gen.JSON(c))
				}
				stats.TryT(t, "TestEnumSmallShapes", c, func() error { return checkCase(c) })
			}
		}
	}
	stats.Subspace("every shape of <= 4 (thorough 5) points per line/ring/multi-point, <= 3 (4) lines or rings of <= 2 points, <= 2 (3) polygons out of the 13 polygons with <= 2 rings of <= 2 points, bound, and every collection of <= 2 (3) members from a 22-member basis covering all kinds and depth <= 3; distinct coordinates; x byte order {LE,BE} x SRID {absent,1,4326,2^31-1}", size, true)
}

// TestEnumAllocCaps puts element counts on both sides of the decoder's
// pre-allocation caps (100 members, 10000 points).
func TestEnumAllocCaps(t *testing.T) {
	var cases []orb.Geometry
	c := &counter{}
	for _, n := range []int{99, 100, 101, 9999, 10000, 10001} {
		cases = append(cases, orb.LineString(c.pts(n)), orb.MultiPoint(c.pts(n)), orb.Ring(c.pts(n)),
			orb.MultiLineString{c.pts(1), c.pts(n), c.pts(2)}, orb.MultiPolygon{{c.pts(1)}, {c.pts(2), c.pts(n)}, {c.pts(3)}},
			orb.Collection{orb.Point{c.next(), c.next()}, orb.LineString(c.pts(n)), orb.Point{c.next(), c.next()}})
	}
	for _, k := range []int{99, 100, 101, 102, 257} {
		mls := make(orb.MultiLineString, k)
		pg := make(orb.Polygon, k)
		mpg := make(orb.MultiPolygon, k)
		col := make(orb.Collection, k)
		for i := 0; i < k; i++ {
			mls[i] = c.pts(i % 3)
			pg[i] = c.pts(i % 3)
			mpg[i] = orb.Polygon{c.pts(i % 3)}
			if i%5 == 0 {
				mpg[i] = orb.Polygon{}
			}
			switch i % 4 {
			case 0:
				col[i] = orb.Point{c.next(), c.next()}
			case 1:
				col[i] = orb.LineString(c.pts(2))
			case 2:
				col[i] = orb.MultiPolygon{{c.pts(1)}}
			default:
				col[i] = orb.Collection{orb.MultiPoint(c.pts(1))}
			}
		}
		cases = append(cases, mls, pg, mpg, col)
	}
	var idx, size int64
	for _, g := range cases {
		for _, srid := range []int{0, 4326} {
			for _, be := range []bool{false, true} {
				idx++
				size++
				if !stats.Mine(idx) {
					continue
				}
				cs := Case{Geom: gen.G{V: g}, SRID: srid, BE: be}
				stats.Eval("TestEnumAllocCaps", 1)
				stats.Class("enum alloc caps kind:" + gen.KindOf(g))
				stats.NonTrivialHash(stats.Hash(fmt.Sprintf("caps %d %d %v", idx, srid, be)))
				stats.TryT(t, "TestEnumAllocCaps", cs, func() error { return checkCase(cs) })
			}
		}
	}
	stats.Subspace("point counts {99,100,101,9999,10000,10001} in line/multi-point/ring/member line/member ring/collection member and member counts {99,100,101,102,257} in multi-line/polygon/multi-polygon/collection x byte order x SRID {absent,4326}", size, true)
}

// ---- vertex-list lengths ("behaviour depends on a magic element count")

var lengthShapeNames = []string{
	"LineString", "MultiPoint", "Ring", "one-ring Polygon",
	"2-ring Polygon, ring 0", "2-ring Polygon, ring 1",
	"2-line MultiLineString, line 0", "2-line MultiLineString, line 1",
	"2-polygon MultiPolygon, polygon 0", "2-polygon MultiPolygon, polygon 1",
}

// lengthShape builds shape number kind with a vertex list of exactly n distinct points in the named position
// (the sibling list, where there is one, has 3 points).
func lengthShape(kind, n int, c *counter) orb.Geometry {
	switch kind {
	case 0:
		return orb.LineString(c.pts(n))
	case 1:
		return orb.MultiPoint(c.pts(n))
	case 2:
		return orb.Ring(c.pts(n))
	case 3:
		return orb.Polygon{c.pts(n)}
	case 4:
		return orb.Polygon{c.pts(n), c.pts(3)}
	case 5:
		return orb.Polygon{c.pts(3), c.pts(n)}
	case 6:
		return orb.MultiLineString{c.pts(n), c.pts(3)}
	case 7:
		return orb.MultiLineString{c.pts(3), c.pts(n)}
	case 8:
		return orb.MultiPolygon{{c.pts(n)}, {c.pts(3)}}
	}
	return orb.MultiPolygon{{c.pts(3)}, {c.pts(n)}}
}

// place puts g (0) at top level, (1) first in a collection followed by a point and a short line string
// (a shift or a stale encoder buffer corrupts the followers), (2) last in a collection after a point.
func place(placement int, g orb.Geometry, c *counter) orb.Geometry {
	switch placement {
	case 1:
		return orb.Collection{g, orb.Point{c.next(), c.next()}, orb.LineString(c.pts(3))}
	case 2:
		return orb.Collection{orb.Point{c.next(), c.next()}, g}
	}
	return g
}

func enumLengths() []int {
	seen := map[int]bool{}
	var out []int
	add := func(n int) {
		if !seen[n] {
			seen[n] = true
			out = append(out, n)
		}
	}
	for n := 0; n <= 520; n++ {
		add(n)
	}
	for k := uint(5); k <= 9; k++ {
		add(3 << k)
		add(5 << k)
		add(10 << k)
	}
	for k := uint(10); k <= 14; k++ {
		add(1<<k - 1)
		add(1 << k)
		add(1<<k + 1)
	}
	return out
}

// TestEnumLengths uses every vertex-list length 0..520, 2^k-1/2^k/2^k+1 for k = 10..14 and 3/5/10 x 2^k for
// k = 5..9 in every list position of every kind, at top level, as first collection member with followers and
// as last collection member; both byte orders, SRID absent/present; lite cases (see Case.Lite).
func TestEnumLengths(t *testing.T) {
	lengths := enumLengths()
	c := &counter{}
	var idx, size int64
	for _, n := range lengths {
		for kind := range lengthShapeNames {
			for placement := 0; placement < 3; placement++ {
				for combo := 0; combo < 4; combo++ {
					// combo bit 0 = SRID present, bit 1 = big endian. Quick tier: top level takes all four
					// for n <= 520, collection placements a rotating complementary pair (both orders, SRID
					// absent and present); lengths above 520 one rotating combination. Thorough: all four.
					if !stats.Thorough() {
						rot := (n + kind + placement) % 4
						if n > 520 && combo != rot {
							continue
						}
						if n <= 520 && placement > 0 && combo != rot && combo != 3-rot {
							continue
						}
					}
					idx++
					size++
					if !stats.Mine(idx) {
						continue
					}
					c.k = uint64(idx) * 7919 // index-derived, distinct per case and per point
					g := place(placement, lengthShape(kind, n, c), c)
					cs := Case{Geom: gen.G{V: g}, SRID: []int{0, 4326}[combo&1], BE: combo&2 != 0, Lite: true}
					stats.Eval("TestEnumLengths", 1)
					stats.Class("enum lengths position:" + lengthShapeNames[kind])
					stats.NonTrivialHash(stats.Hash(fmt.Sprintf("len %d %d %d %d", n, kind, placement, combo)))
					stats.TryT(t, "TestEnumLengths", cs, func() error { return checkCase(cs) })
				}
			}
		}
	}
	stats.Subspace(fmt.Sprintf("%d vertex-list lengths (every n in 0..520; 2^k-1, 2^k, 2^k+1 for k=10..14; 3, 5, 10 x 2^k for k=5..9) x 10 list positions (line string, multi-point, ring, one-ring polygon, either ring of a 2-ring polygon, either line of a 2-line multi-line string, either polygon of a 2-polygon multi-polygon) x placement {top level, first collection member followed by a point and a line string, last collection member after a point} x byte order x SRID {absent,4326} (quick tier: collection placements take a rotating complementary pair of (order, SRID) combinations, lengths > 520 one rotating combination; thorough: all four); distinct coordinates; scanner framings raw + hex, ewkb when the SRID is present and wkb when absent", len(lengths)), size, true)
}

func oneOfEachKind() []orb.Geometry {
	c := &counter{}
	return []orb.Geometry{
		orb.Point{c.next(), c.next()},
		orb.MultiPoint(c.pts(2)),
		orb.LineString(c.pts(3)),
		orb.MultiLineString{c.pts(2), c.pts(1)},
		orb.Ring(c.pts(4)),
		orb.Polygon{c.pts(4), c.pts(3)},
		orb.MultiPolygon{{c.pts(3)}, {c.pts(2), c.pts(1)}},
		orb.Collection{orb.Point{c.next(), c.next()}, orb.Collection{orb.LineString(c.pts(2))}},
		orb.Bound{Min: orb.Point{c.next(), c.next()}, Max: orb.Point{c.next(), c.next()}},
	}
}

// TestEnumSRID sweeps the SRID word: every power of two and its neighbours, and
// every byte value in every byte position (the prefix framings sniff the first bytes).
func TestEnumSRID(t *testing.T) {
	seen := map[int]bool{}
	var full, sweep []int
	add := func(list *[]int, s int64) {
		if s >= 1 && s < 1<<31 && !seen[int(s)] {
			seen[int(s)] = true
			*list = append(*list, int(s))
		}
	}
	for k := 0; k <= 31; k++ {
		add(&full, 1<<uint(k)-1)
		add(&full, 1<<uint(k))
		add(&full, 1<<uint(k)+1)
	}
	// two-byte prefixes that look like framing markers or byte-order marks
	for _, lo := range []int{'0', '\\', 0, 1} {
		for _, hi := range []int{'0', '1', 'x', 'X', 0, 1} {
			add(&full, int64(lo|hi<<8))
			add(&full, int64(lo|hi<<8|0x31300000))
		}
	}
	for pos := 0; pos < 4; pos++ {
		for b := 0; b < 256; b++ {
			add(&sweep, int64(b)<<(8*uint(pos)))
			add(&sweep, int64(b)<<(8*uint(pos))|0x02020202&^(0xff<<(8*uint(pos))))
		}
	}
	kinds := oneOfEachKind()
	three := []orb.Geometry{kinds[0], kinds[5], kinds[7]} // point (own header writer), polygon, collection
	var idx, size int64
	run := func(srids []int, gs []orb.Geometry) {
		for _, srid := range srids {
			for _, g := range gs {
				for _, be := range []bool{false, true} {
					idx++
					size++
					if !stats.Mine(idx) {
						continue
					}
					c := Case{Geom: gen.G{V: g}, SRID: srid, BE: be}
					stats.Eval("TestEnumSRID", 1)
					stats.Class("enum srid")
					stats.NonTrivial(gen.JSON(c))
					stats.TryT(t, "TestEnumSRID", c, func() error { return checkCase(c) })
				}
			}
		}
	}
	run(full, kinds)
	run(sweep, three)
	stats.Subspace(fmt.Sprintf("%d SRIDs (2^k-1, 2^k, 2^k+1 for k <= 31; framing look-alike two-byte prefixes) x one value of each of the nine kinds x byte order, and %d SRIDs (every byte value in every byte position, alone and over 0x02 filler) x {point, polygon, collection} x byte order", len(full), len(sweep)), size, true)
}

// TestEnumDeep nests collections to depth 1..64 (thorough 1..400).
func TestEnumDeep(t *testing.T) {
	maxDepth := 64
	if stats.Thorough() {
		maxDepth = 400
	}
	c := &counter{}
	leaves := []orb.Geometry{
		orb.Point{c.next(), c.next()}, orb.LineString(c.pts(2)), orb.MultiPolygon{{c.pts(1)}, {}}, orb.Collection{}, orb.Ring(c.pts(2)),
	}
	var idx, size int64
	for _, leaf := range leaves {
		g := leaf
		for d := 1; d <= maxDepth; d++ {
			if d%2 == 0 {
				g = orb.Collection{orb.Point{c.next(), float64(d)}, g}
			} else {
				g = orb.Collection{g}
			}
			for _, srid := range []int{0, 4326} {
				for _, be := range []bool{false, true} {
					idx++
					size++
					if !stats.Mine(idx) {
						continue
					}
					cs := Case{Geom: gen.G{V: g}, SRID: srid, BE: be}
					stats.Eval("TestEnumDeep", 1)
					stats.Class("enum deep collections")
					stats.NonTrivialHash(stats.Hash(fmt.Sprintf("deep %d", idx)))
					stats.TryT(t, "TestEnumDeep", cs, func() error { return checkCase(cs) })
				}
			}
		}
	}
	stats.Subspace(fmt.Sprintf("collections nested to every depth 1..%d around 5 leaf kinds x byte order x SRID {absent,4326}", maxDepth), size, true)
}

// TestEnumCoordBits sends every special float64 bit pattern through every kind.
func TestEnumCoordBits(t *testing.T) {
	var words []uint64
	for _, w := range []uint64{
		0, 1 << 63, 1, 1<<63 | 1, 0x000fffffffffffff, 0x0010000000000000, 0x7fefffffffffffff, 0xffefffffffffffff,
		0x7ff0000000000000, 0xfff0000000000000, 0x7ff8000000000000, 0xfff8000000000000, 0x7ff0000000000001, 0xfff0000000000001,
		0x7ff7ffffffffffff, 0x7fffffffffffffff, 0xffffffffffffffff, 0x7ff8000000000001, 0x7ff4000000000000, 0x7ffdeadbeefcafe1,
		0x0102030405060708, 0x0807060504030201, 0x00000000ffffffff, 0xffffffff00000000, 0x3ff0000000000000, 0x4330000000000000,
	} {
		words = append(words, w)
	}
	for k := uint(0); k < 64; k++ {
		words = append(words, 1<<k, ^uint64(1<<k))
	}
	mk := func(kind int, x, y float64) orb.Geometry {
		p, q := orb.Point{x, y}, orb.Point{y, x}
		switch kind {
		case 0:
			return p
		case 1:
			return orb.MultiPoint{p, q}
		case 2:
			return orb.LineString{p, q}
		case 3:
			return orb.MultiLineString{{p}, {q, p}}
		case 4:
			return orb.Ring{p, q, p}
		case 5:
			return orb.Polygon{{p, q}, {q}}
		case 6:
			return orb.MultiPolygon{{{p}}, {{q, p}}}
		case 7:
			return orb.Collection{p, orb.LineString{q}}
		}
		return orb.Bound{Min: p, Max: q}
	}
	var idx, size int64
	for i, wx := range words {
		wy := words[(i*7+3)%len(words)]
		for kind := 0; kind < 9; kind++ {
			for _, be := range []bool{false, true} {
				idx++
				size++
				if !stats.Mine(idx) {
					continue
				}
				c := Case{Geom: gen.G{V: mk(kind, math.Float64frombits(wx), math.Float64frombits(wy))}, SRID: []int{0, 4326}[i%2], BE: be}
				stats.Eval("TestEnumCoordBits", 1)
				stats.Class("enum coordinate bit patterns")
				stats.NonTrivial(gen.JSON(c))
				stats.TryT(t, "TestEnumCoordBits", c, func() error { return checkCase(c) })
			}
		}
	}
	stats.Subspace(fmt.Sprintf("%d special coordinate words (zeros, subnormal/normal limits, infinities, quiet/signalling NaN payloads, every single-bit and all-but-one-bit word) x nine kinds x byte order", len(words)), size, true)
}

// ---------------------------------------------------------------- replay and fuzz

func TestReplay(t *testing.T) {
	test, raw, ok := stats.Replaying()
	if !ok {
		t.Skip("no replay file")
	}
	if test == "TestEnumWitnesses/direct" {
		if err := stats.Guard(witnessRetryCollection); err != nil {
			t.Fatalf("witness still fails: %v", err)
		}
		return
	}
	switch test {
	case "TestEnumLarge":
		var lc LargeCase
		if err := json.Unmarshal(raw, &lc); err != nil {
			t.Fatal(err)
		}
		if err := stats.Guard(func() error { return checkLarge(lc) }); err != nil {
			t.Fatalf("replayed case still fails: %v", err)
		}
		return
	case "TestEnumAliasedInputs":
		var ac AliasedCase
		if err := json.Unmarshal(raw, &ac); err != nil {
			t.Fatal(err)
		}
		if err := stats.Guard(func() error { return checkAliased(ac) }); err != nil {
			t.Fatalf("replayed case still fails: %v", err)
		}
		return
	case "TestPropHistoryScanner", "TestPropHistoryEncoder":
		var sc SeqCase
		if err := json.Unmarshal(raw, &sc); err != nil {
			t.Fatal(err)
		}
		f := checkScannerHistory
		if test == "TestPropHistoryEncoder" {
			f = checkEncoderHistory
		}
		if err := stats.Guard(func() error { return f(sc) }); err != nil {
			t.Fatalf("replayed history still fails: %v", err)
		}
		return
	case "TestPropReadOnlyArgs":
		var c Case
		if err := json.Unmarshal(raw, &c); err != nil {
			t.Fatal(err)
		}
		if err := stats.Guard(func() error { return checkReadOnlyArgs(c) }); err != nil {
			t.Fatalf("replayed case still fails: %v", err)
		}
		return
	case "TestEnumDefaults":
		var dc DefaultsCase
		if err := json.Unmarshal(raw, &dc); err != nil {
			t.Fatal(err)
		}
		if err := stats.Guard(func() error { return checkDefaults(dc, defaultsShapes()) }); err != nil {
			t.Fatalf("replayed case still fails: %v", err)
		}
		return
	case "TestEnumDynamicTypes":
		t.Skip("TestEnumDynamicTypes is a fixed enumeration: re-run ./check C01 quick")
	}
	if test == "TestPropConcurrent" {
		var cs []Case
		if err := json.Unmarshal(raw, &cs); err != nil {
			t.Fatal(err)
		}
		for k := 0; k < 20; k++ {
			if err := stats.ParallelErr(len(cs), 100, func(i int) error { return checkCase(cs[i]) }); err != nil {
				t.Fatalf("replayed concurrent group still fails: %v", err)
			}
		}
		return
	}
	if test == "TestPropIndependence" || test == "TestEnumIndependence" {
		var c Case
		if err := json.Unmarshal(raw, &c); err != nil {
			t.Fatal(err)
		}
		if err := stats.Guard(func() error { return checkIndependence(c) }); err != nil {
			t.Fatalf("replayed case still fails: %v", err)
		}
		return
	}
	if test == "TestPropAliasing" || test == "TestEnumAliasingSizes" {
		var ac AliasCase
		if err := json.Unmarshal(raw, &ac); err != nil {
			t.Fatal(err)
		}
		if err := stats.Guard(func() error { return checkAlias(ac) }); err != nil {
			t.Fatalf("replayed sequence still fails: %v", err)
		}
		return
	}
	if strings.HasPrefix(test, "TestPropReuse") || test == "TestEnumReusePairs" {
		var sc SeqCase
		if err := json.Unmarshal(raw, &sc); err != nil {
			t.Fatal(err)
		}
		if err := stats.Guard(func() error { return checkSeq(sc) }); err != nil {
			t.Fatalf("replayed sequence still fails: %v", err)
		}
		return
	}
	var c Case
	if err := json.Unmarshal(raw, &c); err != nil {
		t.Fatal(err)
	}
	if err := stats.Guard(func() error { return checkCase(c) }); err != nil {
		t.Fatalf("replayed case still fails: %v", err)
	}
}

// FuzzWKBRoundTrip lets the native coverage-guided fuzzer drive the same
// structured generator (the input bytes are rapid's bit stream).
func FuzzWKBRoundTrip(f *testing.F) {
	f.Fuzz(rapid.MakeFuzz(func(rt *rapid.T) {
		c := drawCase(rt)
		stats.Try(rt, "FuzzWKBRoundTrip", c, func() error { return checkCase(c) })
	}))
}
