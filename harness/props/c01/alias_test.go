package c01

// Aliasing part of C01: a value returned by an encode or decode call must not
// alias internal state that a later call overwrites, and an encoder must not
// write to the geometry it is given. Every case is a sequence of 2..5 steps;
// every []byte returned by a Marshal route and every geometry returned by
// Unmarshal / Decoder.Decode / Scanner (s.Geometry and the value read from
// *dest) is kept WITHOUT copying next to a copy taken right after the call; the
// same Decoder and Scanner objects serve all steps. After all steps every kept
// value must still be bit-identical to its copy. The input geometry of every
// encode is laid out with watched spare capacity (whole backing arrays, as in
// props/c20/layout_test.go) and must be untouched.

import (
	"bytes"
	"encoding/hex"
	"fmt"
	"math"
	"testing"

	"github.com/paulmach/orb"
	"github.com/paulmach/orb/encoding/ewkb"
	"github.com/paulmach/orb/encoding/wkb"
	"pgregory.net/rapid"

	"verifharness/internal/gen"
	"verifharness/internal/stats"
)

// AliasStep is one (geometry, SRID, byte order) that is encoded by every route,
// then decoded by the persistent decoder and scanners.
type AliasStep struct {
	Geom gen.G `json:"geom"`
	SRID int   `json:"srid"`
	BE   bool  `json:"big_endian"`
}

// AliasCase is the replay format of TestPropAliasing / TestEnumAliasingSizes.
type AliasCase struct {
	Dest  string      `json:"dest"` // destination kind of the typed scanners
	Steps []AliasStep `json:"steps"`
}

// ---------------------------------------------------------------- watched input layout

var sentinelPt = orb.Point{-7.77e77, 7.77e77}

type inputGuard struct {
	views    [][]orb.Point
	copies   [][]orb.Point
	outers   []func() string // describes an outer slice over its whole capacity
	outer0   []string
	outerIn  []func() string // describes the entries within len only
	outerIn0 []string
}

func (gd *inputGuard) pts(ps []orb.Point) []orb.Point {
	if ps == nil {
		return nil
	}
	full := make([]orb.Point, len(ps)+2)
	copy(full, ps)
	full[len(ps)], full[len(ps)+1] = sentinelPt, sentinelPt
	gd.views = append(gd.views, full)
	gd.copies = append(gd.copies, append([]orb.Point(nil), full...))
	return full[:len(ps)]
}

func (gd *inputGuard) watchOuter(f func() string, within func() string) {
	gd.outers = append(gd.outers, f)
	gd.outer0 = append(gd.outer0, f())
	gd.outerIn = append(gd.outerIn, within)
	gd.outerIn0 = append(gd.outerIn0, within())
}

func descPts(ps []orb.Point) string {
	if ps == nil {
		return "nil"
	}
	if len(ps) == 0 {
		return fmt.Sprintf("0/%d", cap(ps))
	}
	return fmt.Sprintf("%p/%d/%d", &ps[0], len(ps), cap(ps))
}

// layout re-lays g out so that every slice has two watched spare slots.
func (gd *inputGuard) layout(g orb.Geometry) orb.Geometry {
	switch v := g.(type) {
	case orb.MultiPoint:
		return orb.MultiPoint(gd.pts(v))
	case orb.LineString:
		return orb.LineString(gd.pts(v))
	case orb.Ring:
		return orb.Ring(gd.pts(v))
	case orb.MultiLineString:
		if v == nil {
			return v
		}
		full := make(orb.MultiLineString, len(v)+2)
		for i := range v {
			full[i] = gd.pts(v[i])
		}
		full[len(v)], full[len(v)+1] = orb.LineString{sentinelPt}, orb.LineString{sentinelPt}
		gd.watchOuter(func() string {
			s := ""
			for _, l := range full {
				s += descPts(l) + ";"
			}
			return s
		}, func() string {
			s := ""
			for _, l := range full[:len(v)] {
				s += descPts(l) + ";"
			}
			return s
		})
		return full[:len(v)]
	case orb.Polygon:
		if v == nil {
			return v
		}
		full := make(orb.Polygon, len(v)+2)
		for i := range v {
			full[i] = gd.pts(v[i])
		}
		full[len(v)], full[len(v)+1] = orb.Ring{sentinelPt}, orb.Ring{sentinelPt}
		gd.watchOuter(func() string {
			s := ""
			for _, l := range full {
				s += descPts(l) + ";"
			}
			return s
		}, func() string {
			s := ""
			for _, l := range full[:len(v)] {
				s += descPts(l) + ";"
			}
			return s
		})
		return full[:len(v)]
	case orb.MultiPolygon:
		if v == nil {
			return v
		}
		full := make(orb.MultiPolygon, len(v)+2)
		for i := range v {
			if v[i] != nil {
				full[i] = gd.layout(v[i]).(orb.Polygon)
			}
		}
		full[len(v)], full[len(v)+1] = orb.Polygon{{sentinelPt}}, orb.Polygon{{sentinelPt}}
		descPolys := func(ps orb.MultiPolygon) string {
			s := ""
			for _, p := range ps {
				s += fmt.Sprintf("%d/%d[", len(p), cap(p))
				for _, r := range p {
					s += descPts(r) + ";"
				}
				s += "]"
			}
			return s
		}
		gd.watchOuter(func() string { return descPolys(full) }, func() string { return descPolys(full[:len(v)]) })
		return full[:len(v)]
	case orb.Collection:
		if v == nil {
			return v
		}
		full := make(orb.Collection, len(v)+2)
		for i := range v {
			full[i] = gd.layout(v[i])
		}
		full[len(v)], full[len(v)+1] = sentinelPt, sentinelPt
		sig := func(ms orb.Collection) string {
			s := ""
			for _, m := range ms {
				sg, bits := gen.Flatten(m)
				s += fmt.Sprintf("%s:%d;", sg, len(bits))
			}
			return s
		}
		gd.watchOuter(func() string { return sig(full) }, func() string { return sig(full[:len(v)]) })
		return full[:len(v)]
	}
	return g // nil, Point, Bound: held by value
}

// check: a change of the input's VALUE (an element within len of any part the caller passed) is a failure; a
// write into watched spare capacity (sentinel cells beyond len, spare entries of outer slices) is a layout note.
func (gd *inputGuard) check() error {
	for i, v := range gd.views {
		c := gd.copies[i]
		n := len(v) - 2 // the last two cells are the sentinels beyond len
		for j := range v {
			if math.Float64bits(v[j][0]) != math.Float64bits(c[j][0]) || math.Float64bits(v[j][1]) != math.Float64bits(c[j][1]) {
				if j >= n {
					layoutNote("an encoder wrote into the spare capacity of an input slice")
					continue
				}
				return fmt.Errorf("input backing array %d, element %d of %d: %v became %v (the value the caller passed was modified)", i, j, n, c[j], v[j])
			}
		}
	}
	for i, f := range gd.outers {
		if s := f(); s != gd.outer0[i] {
			in0, in1 := gd.outerIn[i](), gd.outerIn0[i]
			if in0 != in1 {
				return fmt.Errorf("input outer slice %d changed within its length: %s became %s", i, in1, in0)
			}
			layoutNote("an encoder wrote into the spare capacity of an input outer slice")
		}
	}
	return nil
}

// ---------------------------------------------------------------- retained values

type keptBytes struct {
	what string
	live []byte // as returned, never copied
	snap []byte
}

type keptGeom struct {
	what string
	live orb.Geometry // as returned, never copied
	snap orb.Geometry
}

type keeper struct {
	bs []keptBytes
	gs []keptGeom
	hx []struct{ what, live, snap string }
}

func (k *keeper) bytes(what string, b []byte) {
	k.bs = append(k.bs, keptBytes{what, b, append([]byte(nil), b...)})
}

func (k *keeper) geom(what string, g orb.Geometry) {
	k.gs = append(k.gs, keptGeom{what, g, gen.DeepCopy(g)})
}

func (k *keeper) check(when string) error {
	for _, b := range k.bs {
		if !bytes.Equal(b.live, b.snap) {
			i := 0
			for i < len(b.live) && i < len(b.snap) && b.live[i] == b.snap[i] {
				i++
			}
			return fmt.Errorf("%s: the []byte returned by %s changed after later calls (first difference at byte %d of %d): it aliases state that a later call overwrote", when, b.what, i, len(b.snap))
		}
	}
	for _, h := range k.hx {
		if h.live != h.snap {
			return fmt.Errorf("%s: the string returned by %s changed after later calls", when, h.what)
		}
	}
	for _, g := range k.gs {
		if same, why := sameBits(g.live, g.snap); !same {
			return fmt.Errorf("%s: the geometry returned by %s changed after later calls (%s): it aliases state that a later call overwrote", when, g.what, why)
		}
	}
	return nil
}

// ---------------------------------------------------------------- the check

func checkAlias(c AliasCase) error {
	k := &keeper{}
	var guards []*inputGuard

	// the persistent objects: one stream decoder per package over all steps' encodings, three scanners per kind of destination
	var streamE, streamW []byte
	for _, st := range c.Steps {
		be, err := ewkb.Marshal(st.Geom.V, st.SRID, order(st.BE))
		if err != nil {
			return err
		}
		bw, err := wkb.Marshal(st.Geom.V, order(st.BE))
		if err != nil {
			return err
		}
		streamE = append(streamE, be...)
		streamW = append(streamW, bw...)
	}
	decE := ewkb.NewDecoder(bytes.NewReader(streamE))
	decW := wkb.NewDecoder(bytes.NewReader(streamW))
	destE, readE := newDest(c.Dest)
	destP, readP := newDest(c.Dest)
	destW, readW := newDest(c.Dest)
	scanE, scanP, scanW := ewkb.Scanner(destE), ewkb.ScannerPrefixSRID(destP), wkb.Scanner(destW)
	scanEN, scanWN := ewkb.Scanner(nil), wkb.Scanner(nil)

	for i, st := range c.Steps {
		step := fmt.Sprintf("step %d of %d", i+1, len(c.Steps))
		gd := &inputGuard{}
		guards = append(guards, gd)
		g := gd.layout(gen.DeepCopy(st.Geom.V))
		bo := order(st.BE)

		// --- every encode route; results kept uncopied
		b, err := ewkb.Marshal(g, st.SRID, bo)
		if err != nil {
			return fmt.Errorf("%s: ewkb.Marshal: %v", step, err)
		}
		k.bytes(step+" ewkb.Marshal", b)
		main := append([]byte(nil), b...)
		k.bytes(step+" ewkb.MustMarshal", ewkb.MustMarshal(g, st.SRID, bo))
		hx, err := ewkb.MarshalToHex(g, st.SRID, bo)
		if err != nil {
			return fmt.Errorf("%s: ewkb.MarshalToHex: %v", step, err)
		}
		k.hx = append(k.hx, struct{ what, live, snap string }{step + " ewkb.MarshalToHex", hx, string(append([]byte(nil), hx...))})
		if ev, err := valueBytes("ewkb.Value", ewkb.Value(g, st.SRID)); err != nil {
			return err
		} else if ev.data != nil {
			k.bytes(step+" ewkb.Value", ev.data)
		}
		pv, err := valueBytes("ewkb.ValuePrefixSRID", ewkb.ValuePrefixSRID(g, st.SRID))
		if err != nil {
			return err
		}
		if pv.data != nil {
			k.bytes(step+" ewkb.ValuePrefixSRID", pv.data)
		}
		wb, err := wkb.Marshal(g, bo)
		if err != nil {
			return fmt.Errorf("%s: wkb.Marshal: %v", step, err)
		}
		k.bytes(step+" wkb.Marshal", wb)
		wmain := append([]byte(nil), wb...)
		k.bytes(step+" wkb.MustMarshal", wkb.MustMarshal(g, bo))
		whx, err := wkb.MarshalToHex(g, bo)
		if err != nil {
			return fmt.Errorf("%s: wkb.MarshalToHex: %v", step, err)
		}
		k.hx = append(k.hx, struct{ what, live, snap string }{step + " wkb.MarshalToHex", whx, string(append([]byte(nil), whx...))})
		if wv, err := valueBytes("wkb.Value", wkb.Value(g)); err != nil {
			return err
		} else if wv.data != nil {
			k.bytes(step+" wkb.Value", wv.data)
		}
		if err := gd.check(); err != nil {
			return fmt.Errorf("%s: an encoder wrote to its input: %v", step, err)
		}
		// the encodings of this step still say what they said (two results of the same step must not share memory either)
		if hexb, err := hex.DecodeString(hx); err != nil || !bytes.Equal(hexb, main) {
			return fmt.Errorf("%s: ewkb.MarshalToHex and ewkb.Marshal disagree", step)
		}

		// --- every decode path on this step's bytes, through the persistent objects; results kept uncopied
		want := gen.Canonical(st.Geom.V)
		dg, _, err := ewkb.Unmarshal(append([]byte(nil), main...))
		if err != nil {
			return fmt.Errorf("%s: ewkb.Unmarshal: %v", step, err)
		}
		k.geom(step+" ewkb.Unmarshal", dg)
		wg, err := wkb.Unmarshal(append([]byte(nil), wmain...))
		if err != nil {
			return fmt.Errorf("%s: wkb.Unmarshal: %v", step, err)
		}
		k.geom(step+" wkb.Unmarshal", wg)
		sg, _, err := decE.Decode()
		if err != nil {
			return fmt.Errorf("%s: ewkb.Decoder.Decode (one decoder for all steps): %v", step, err)
		}
		k.geom(step+" ewkb.Decoder.Decode", sg)
		swg, err := decW.Decode()
		if err != nil {
			return fmt.Errorf("%s: wkb.Decoder.Decode (one decoder for all steps): %v", step, err)
		}
		k.geom(step+" wkb.Decoder.Decode", swg)
		for _, x := range []struct {
			what string
			g    orb.Geometry
		}{{"ewkb.Unmarshal", dg}, {"wkb.Unmarshal", wg}, {"ewkb.Decoder", sg}, {"wkb.Decoder", swg}} {
			if same, why := sameBits(x.g, want); !same {
				return fmt.Errorf("%s: %s: %s", step, x.what, why)
			}
		}
		scans := []struct {
			what string
			scan func(interface{}) error
			geom func() orb.Geometry
			read func() orb.Geometry
			row  []byte
		}{
			{"ewkb.Scanner(nil)", scanEN.Scan, func() orb.Geometry { return scanEN.Geometry }, nil, main},
			{"wkb.Scanner(nil)", scanWN.Scan, func() orb.Geometry { return scanWN.Geometry }, nil, wmain},
			{"ewkb.Scanner(" + c.Dest + ")", scanE.Scan, func() orb.Geometry { return scanE.Geometry }, readE, main},
			{"ewkb.ScannerPrefixSRID(" + c.Dest + ")", scanP.Scan, func() orb.Geometry { return scanP.Geometry }, readP, sridPrefix(st.SRID, wmain)},
			{"wkb.Scanner(" + c.Dest + ")", scanW.Scan, func() orb.Geometry { return scanW.Geometry }, readW, wmain},
		}
		for _, sc := range scans {
			err := sc.scan(append([]byte(nil), sc.row...))
			if err != nil {
				continue // kind mismatch for this destination: nothing returned, the scanner is simply reused
			}
			k.geom(step+" "+sc.what+".Geometry", sc.geom())
			if sc.read != nil {
				k.geom(step+" *dest of "+sc.what, sc.read())
			}
		}
		// nothing kept so far may have moved
		if err := k.check("after " + step); err != nil {
			return err
		}
	}
	for i, gd := range guards {
		if err := gd.check(); err != nil {
			return fmt.Errorf("after all steps, input of step %d: %v", i+1, err)
		}
	}
	return k.check("after all steps")
}

// ---------------------------------------------------------------- generators

var aliasSizes = []int{0, 1, 2, 3, 5, 17, 63, 64, 65, 130, 300}

// sizedGeom builds a geometry whose main vertex list has n index-derived distinct points.
func sizedGeom(kind, n int, c *counter) orb.Geometry {
	switch kind {
	case 0:
		return orb.LineString(c.pts(n))
	case 1:
		return orb.MultiPoint(c.pts(n))
	case 2:
		return orb.Ring(c.pts(n))
	case 3:
		return orb.Polygon{c.pts(n), c.pts(2)}
	case 4:
		return orb.MultiLineString{c.pts(2), c.pts(n)}
	case 5:
		return orb.MultiPolygon{{c.pts(n)}, {c.pts(1), c.pts(2)}}
	case 6:
		return orb.Collection{orb.LineString(c.pts(n)), orb.Point{c.next(), c.next()}, orb.Polygon{c.pts(3)}}
	case 7:
		return orb.Point{c.next(), c.next()}
	}
	return orb.Bound{Min: orb.Point{c.next(), c.next()}, Max: orb.Point{c.next(), c.next()}}
}

func drawAliasCase(t *rapid.T) AliasCase {
	c := AliasCase{Dest: rapid.SampledFrom(destKinds).Draw(t, "dest")}
	n := rapid.IntRange(2, 5).Draw(t, "steps")
	cnt := &counter{k: uint64(rapid.Uint32().Draw(t, "coordbase"))}
	// most sequences stay within kinds the destination accepts, so that the typed scanners return values repeatedly
	var kinds []int
	switch c.Dest {
	case "LineString", "MultiLineString":
		kinds = []int{0, 4, 0}
	case "Point", "MultiPoint":
		kinds = []int{1, 7, 1}
	case "Ring", "Polygon", "MultiPolygon":
		kinds = []int{2, 3, 5, 8}
	case "Collection":
		kinds = []int{6}
	}
	if kinds == nil || rapid.IntRange(0, 3).Draw(t, "anykind") == 0 {
		kinds = []int{0, 1, 2, 3, 4, 5, 6, 7, 8}
	}
	for i := 0; i < n; i++ {
		var g orb.Geometry
		if rapid.IntRange(0, 4).Draw(t, "random") == 0 {
			g = drawSmallGeom(t, nil)
		} else {
			g = sizedGeom(rapid.SampledFrom(kinds).Draw(t, "kind"), rapid.SampledFrom(aliasSizes).Draw(t, "size"), cnt)
		}
		c.Steps = append(c.Steps, AliasStep{Geom: gen.G{V: g}, SRID: drawSRIDOrAbsent(t), BE: rapid.Bool().Draw(t, "be")})
	}
	return c
}

func TestPropAliasing(t *testing.T) {
	stats.Assume("aliasing: returned []byte / geometries are kept uncopied over a sequence of 2..5 encode+decode steps on persistent Decoder/Scanner objects and must stay bit-identical; *dest is read (slice header copied) right after each successful scan, a later scan may assign a new value to *dest but must not change the memory of the old one; encoders must leave the input (incl. spare capacity) untouched")
	stats.Check(t, 12000, 300000, func(rt *rapid.T) {
		c := drawAliasCase(rt)
		stats.Class("aliasing dest:" + c.Dest)
		stats.Class(fmt.Sprintf("aliasing steps:%d", len(c.Steps)))
		stats.NonTrivial(gen.JSON(c))
		if stats.WantSample("aliasing") {
			stats.Sample("aliasing", c)
		}
		stats.Try(rt, "TestPropAliasing", c, func() error { return checkAlias(c) })
	})
}

// TestEnumAliasingSizes: every ordered pair of sizes (smaller then larger and larger then smaller) for every
// sized kind, followed by a third step of the first size again, into every destination that accepts the kind.
func TestEnumAliasingSizes(t *testing.T) {
	sizes := []int{0, 1, 3, 64, 65, 200}
	destsFor := map[int][]string{
		0: {"nil", "LineString", "MultiLineString", "Bound"}, 1: {"nil", "MultiPoint", "Bound"}, 2: {"nil", "Ring", "Polygon", "MultiPolygon"},
		3: {"nil", "Polygon", "MultiPolygon"}, 4: {"nil", "MultiLineString"}, 5: {"nil", "MultiPolygon"}, 6: {"nil", "Collection", "Bound"},
	}
	cnt := &counter{}
	var idx, size int64
	for kind := 0; kind <= 6; kind++ {
		for _, dest := range destsFor[kind] {
			for _, a := range sizes {
				for _, b := range sizes {
					for _, be := range []bool{false, true} {
						idx++
						size++
						if !stats.Mine(idx) {
							continue
						}
						cnt.k = uint64(idx) * 1009
						c := AliasCase{Dest: dest, Steps: []AliasStep{
							{Geom: gen.G{V: sizedGeom(kind, a, cnt)}, SRID: 4326, BE: be},
							{Geom: gen.G{V: sizedGeom(kind, b, cnt)}, SRID: 0, BE: !be},
							{Geom: gen.G{V: sizedGeom(kind, a, cnt)}, SRID: 3857, BE: be},
						}}
						stats.Eval("TestEnumAliasingSizes", 1)
						stats.Class("enum aliasing sizes")
						stats.NonTrivialHash(stats.Hash(fmt.Sprintf("alias %d %s %d %d %v", kind, dest, a, b, be)))
						stats.TryT(t, "TestEnumAliasingSizes", c, func() error { return checkAlias(c) })
					}
				}
			}
		}
	}
	stats.Subspace("aliasing: 7 sized kinds x every accepting destination x every ordered pair of main-list sizes {0,1,3,64,65,200} (then the first size again) x byte order; all encode routes and decode paths with values kept uncopied", size, true)
}
