package c01

// Round L classes for C01.
//
//	L1  size ladder (TestEnumLarge, and a rare "large" class in the random generator)
//	L2  dynamic types behind the interface-typed Scanner destination and sql Scan source (TestEnumDynamicTypes)
//	L3  histories on a reused Encoder / Scanner with the same call twice in a row, caller-side assignment of the
//	    scanner's exported fields and of *dest between scans, and struct copies (TestPropHistory*)
//	L4  arguments are read-only: input byte slices (whole backing array incl. spare capacity), variadic
//	    byte-order / SRID arguments passed as xs..., the same argument shared by consecutive and concurrent calls
//	    (TestPropReadOnlyArgs)
//	L5  members of ONE input geometry that alias each other (TestEnumAliasedInputs)
//	L6  not applicable: the C01 oracle has no tolerance (all comparisons are exact); the only "either is accepted"
//	    rules are the typed-nil top-level slice, the NaN / -0 cases of the bound fold and the empty-bound sentinel,
//	    each of which is unspecified by the library rather than rounding dependent.

import (
	"bytes"
	"encoding/binary"
	"encoding/hex"
	"errors"
	"fmt"
	"io"
	"math"
	"sort"
	"testing"

	"github.com/paulmach/orb"
	"github.com/paulmach/orb/encoding/ewkb"
	"github.com/paulmach/orb/encoding/wkb"
	"pgregory.net/rapid"

	"verifharness/internal/gen"
	"verifharness/internal/stats"
)

// ---------------------------------------------------------------- own WKB / EWKB reader (model)

// refDecode is the harness's own reader of (E)WKB: ISO type codes 1..7, the EWKB SRID flag 0x20000000 on any
// header, per-geometry byte-order marks. It returns the value, the SRID of the outermost header and the number
// of bytes consumed. It shares no code with orb.
func refDecode(data []byte) (orb.Geometry, int, int, error) {
	pos := 0
	var rd func(depthTop bool) (orb.Geometry, int, error)
	need := func(n int) error {
		if len(data)-pos < n {
			return fmt.Errorf("ref: short input at %d (need %d of %d)", pos, n, len(data))
		}
		return nil
	}
	u32 := func(le bool) (uint32, error) {
		if err := need(4); err != nil {
			return 0, err
		}
		b := data[pos : pos+4]
		pos += 4
		if le {
			return uint32(b[0]) | uint32(b[1])<<8 | uint32(b[2])<<16 | uint32(b[3])<<24, nil
		}
		return uint32(b[3]) | uint32(b[2])<<8 | uint32(b[1])<<16 | uint32(b[0])<<24, nil
	}
	f64 := func(le bool) (float64, error) {
		if err := need(8); err != nil {
			return 0, err
		}
		var u uint64
		for i := 0; i < 8; i++ {
			if le {
				u |= uint64(data[pos+i]) << (8 * uint(i))
			} else {
				u = u<<8 | uint64(data[pos+i])
			}
		}
		pos += 8
		return math.Float64frombits(u), nil
	}
	pts := func(le bool) ([]orb.Point, error) {
		n, err := u32(le)
		if err != nil {
			return nil, err
		}
		if err := need(int(n) * 16); err != nil {
			return nil, err
		}
		out := make([]orb.Point, n)
		for i := range out {
			out[i][0], _ = f64(le)
			out[i][1], _ = f64(le)
		}
		return out, nil
	}
	rd = func(top bool) (orb.Geometry, int, error) {
		if err := need(1); err != nil {
			return nil, 0, err
		}
		if data[pos] > 1 {
			return nil, 0, fmt.Errorf("ref: byte-order mark %#x at %d", data[pos], pos)
		}
		le := data[pos] == 1
		pos++
		typ, err := u32(le)
		if err != nil {
			return nil, 0, err
		}
		srid := 0
		if typ&0x20000000 != 0 {
			s, err := u32(le)
			if err != nil {
				return nil, 0, err
			}
			srid = int(s)
			typ &^= 0x20000000
		}
		switch typ {
		case 1:
			x, err := f64(le)
			if err != nil {
				return nil, 0, err
			}
			y, err := f64(le)
			return orb.Point{x, y}, srid, err
		case 2:
			ps, err := pts(le)
			return orb.LineString(ps), srid, err
		case 3:
			n, err := u32(le)
			if err != nil {
				return nil, 0, err
			}
			out := make(orb.Polygon, 0, minInt(int(n), 1<<16))
			for i := 0; i < int(n); i++ {
				ps, err := pts(le)
				if err != nil {
					return nil, 0, err
				}
				out = append(out, orb.Ring(ps))
			}
			return out, srid, nil
		case 4, 5, 6, 7:
			n, err := u32(le)
			if err != nil {
				return nil, 0, err
			}
			ms := make([]orb.Geometry, 0, minInt(int(n), 1<<16))
			for i := 0; i < int(n); i++ {
				m, _, err := rd(false)
				if err != nil {
					return nil, 0, err
				}
				ms = append(ms, m)
			}
			switch typ {
			case 4:
				out := make(orb.MultiPoint, len(ms))
				for i, m := range ms {
					p, ok := m.(orb.Point)
					if !ok {
						return nil, 0, fmt.Errorf("ref: multi-point member %d is %s", i, gen.KindOf(m))
					}
					out[i] = p
				}
				return out, srid, nil
			case 5:
				out := make(orb.MultiLineString, len(ms))
				for i, m := range ms {
					l, ok := m.(orb.LineString)
					if !ok {
						return nil, 0, fmt.Errorf("ref: multi-line member %d is %s", i, gen.KindOf(m))
					}
					out[i] = l
				}
				return out, srid, nil
			case 6:
				out := make(orb.MultiPolygon, len(ms))
				for i, m := range ms {
					p, ok := m.(orb.Polygon)
					if !ok {
						return nil, 0, fmt.Errorf("ref: multi-polygon member %d is %s", i, gen.KindOf(m))
					}
					out[i] = p
				}
				return out, srid, nil
			}
			return orb.Collection(ms), srid, nil
		}
		return nil, 0, fmt.Errorf("ref: type code %d", typ)
	}
	g, srid, err := rd(true)
	return g, srid, pos, err
}

func minInt(a, b int) int {
	if a < b {
		return a
	}
	return b
}

// refCheck: bytes must be a complete (E)WKB of want with the SRID, by the harness's reader.
func refCheck(what string, data []byte, want orb.Geometry, srid int) error {
	g, s, n, err := refDecode(data)
	if err != nil {
		return fmt.Errorf("%s: the harness's own WKB reader rejects the bytes: %v", what, err)
	}
	if n != len(data) {
		return fmt.Errorf("%s: %d bytes written, the value ends after %d", what, len(data), n)
	}
	if same, why := sameBits(g, want); !same {
		return fmt.Errorf("%s: the harness's own WKB reader sees a different value: %s", what, why)
	}
	if s != srid {
		return fmt.Errorf("%s: the bytes carry SRID %d, want %d", what, s, srid)
	}
	return nil
}

// ---------------------------------------------------------------- L1: size ladder

// LargeCase names a structured large input; the geometry is rebuilt from the parameters (replay files stay small).
type LargeCase struct {
	Dim  string `json:"dim"`
	N    int    `json:"n"`
	Pos  int    `json:"pos"` // position of the enormous member among small ones: 0 first, 1 middle, 2 last
	SRID int    `json:"srid"`
	BE   bool   `json:"big_endian"`
}

var largeDims = []struct {
	name                 string
	positions            int
	quickTop, thoroughTop int
	vertexDim            bool
}{
	{"line string vertices", 1, 3 << 16, 1<<22 + 3, true},
	{"multi-point points", 1, 3 << 16, 1<<20 + 3, true},
	{"outer ring vertices", 1, 3 << 16, 1<<22 + 3, true},
	{"one enormous line among small lines", 3, 1<<17 + 3, 1<<22 + 3, true},
	{"one enormous polygon among small polygons", 3, 1<<17 + 3, 1<<22 + 3, true},
	{"one enormous member among small collection members", 3, 1<<17 + 3, 1<<22 + 3, true},
	{"lines per multi-line string", 1, 1<<17 + 3, 1<<20 + 3, false},
	{"rings per polygon", 1, 1<<17 + 3, 1<<20 + 3, false},
	{"polygons per multi-polygon", 1, 1<<17 + 3, 1<<20 + 3, false},
	{"members per collection", 1, 1<<17 + 3, 1<<20 + 3, false},
	{"nesting depth (single-child chain)", 1, 1<<16 + 3, 1<<20 + 3, false},
}

func largeDimIndex(name string) int {
	for i, d := range largeDims {
		if d.name == name {
			return i
		}
	}
	return -1
}

// ladder = {L-2 .. L+3, 1.5*L+1 : L = 2^k (k = 6..24) or 10^k (k = 2..7)} U {65535, 65536, 4095..4097}, sorted, distinct
// (a limit L often shows only from L+2 on: one missing element is masked by padding or a closing vertex).
func ladder() []int {
	seen := map[int]bool{}
	var out []int
	add := func(n int) {
		if n > 0 && !seen[n] {
			seen[n] = true
			out = append(out, n)
		}
	}
	around := func(l int) {
		for d := -2; d <= 3; d++ {
			add(l + d)
		}
		add(l + l/2 + 1)
	}
	for k := uint(6); k <= 24; k++ {
		around(1 << k)
	}
	p := 100
	for k := 2; k <= 7; k++ {
		around(p)
		p *= 10
	}
	for _, n := range []int{65535, 65536, 4095, 4096, 4097} {
		add(n)
	}
	sort.Ints(out)
	return out
}

// bigPts: n index-derived distinct points (cheap: no per-point draws).
func bigPts(n int, base uint64) []orb.Point {
	out := make([]orb.Point, n)
	for i := range out {
		u := base + uint64(i)*2
		out[i] = orb.Point{math.Float64frombits(0x4001020304050607 + u*0x0000000100010001), math.Float64frombits(0x4001020304050607 + (u+1)*0x0000000100010001)}
	}
	return out
}

func buildLarge(c LargeCase) (orb.Geometry, error) {
	n := c.N
	small := func(k int) []orb.Point { return bigPts(k, uint64(900000000+k)) }
	at := func(pos int, big orb.Geometry, mk func(i int) orb.Geometry) []orb.Geometry {
		out := []orb.Geometry{mk(0), mk(1), mk(2)}
		out[pos] = big
		return out
	}
	switch largeDimIndex(c.Dim) {
	case 0:
		return orb.LineString(bigPts(n, 1)), nil
	case 1:
		return orb.MultiPoint(bigPts(n, 1)), nil
	case 2:
		return orb.Polygon{bigPts(n, 1), small(3)}, nil
	case 3:
		ms := at(c.Pos, orb.LineString(bigPts(n, 1)), func(i int) orb.Geometry { return orb.LineString(small(i + 1)) })
		return orb.MultiLineString{ms[0].(orb.LineString), ms[1].(orb.LineString), ms[2].(orb.LineString)}, nil
	case 4:
		ms := at(c.Pos, orb.Polygon{small(3), bigPts(n, 1)}, func(i int) orb.Geometry { return orb.Polygon{small(i + 2)} })
		return orb.MultiPolygon{ms[0].(orb.Polygon), ms[1].(orb.Polygon), ms[2].(orb.Polygon)}, nil
	case 5:
		ms := at(c.Pos, orb.LineString(bigPts(n, 1)), func(i int) orb.Geometry {
			return []orb.Geometry{orb.Point{1, 2}, orb.Polygon{small(3)}, orb.MultiPoint(small(2))}[i]
		})
		return orb.Collection(ms), nil
	case 6:
		out := make(orb.MultiLineString, n)
		for i := range out {
			out[i] = bigPts(i%3, uint64(i)*8)
		}
		return out, nil
	case 7:
		out := make(orb.Polygon, n)
		for i := range out {
			out[i] = bigPts(i%3, uint64(i)*8)
		}
		return out, nil
	case 8:
		out := make(orb.MultiPolygon, n)
		for i := range out {
			if i%5 == 4 {
				out[i] = orb.Polygon{}
				continue
			}
			out[i] = orb.Polygon{bigPts(i%2+1, uint64(i)*8)}
		}
		return out, nil
	case 9:
		out := make(orb.Collection, n)
		for i := range out {
			p := bigPts(2, uint64(i)*8)
			switch i % 4 {
			case 0:
				out[i] = p[0]
			case 1:
				out[i] = orb.LineString(p)
			case 2:
				out[i] = orb.MultiPoint(p[:1])
			default:
				out[i] = orb.Collection{p[1]}
			}
		}
		return out, nil
	case 10:
		var g orb.Geometry = orb.Point{1.5, -2.5}
		for i := 0; i < n; i++ {
			g = orb.Collection{g}
		}
		return g, nil
	}
	return nil, fmt.Errorf("unknown large dimension %q", c.Dim)
}

// chunkReader hands out the data in chunks of varying odd sizes (a stream that never delivers what was asked for).
type chunkReader struct {
	data []byte
	k    int
}

func (r *chunkReader) Read(p []byte) (int, error) {
	if len(r.data) == 0 {
		return 0, io.EOF
	}
	r.k = (r.k*7 + 3) % 8191
	n := minInt(minInt(r.k+1, len(p)), len(r.data))
	copy(p, r.data[:n])
	r.data = r.data[n:]
	return n, nil
}

// checkLarge: encode, then every decode path that is affordable at this size; O(n) comparisons only.
func checkLarge(c LargeCase) error {
	g, err := buildLarge(c)
	if err != nil {
		return err
	}
	want := gen.Canonical(g)
	bo := order(c.BE)
	var data []byte
	if c.SRID != 0 {
		data, err = ewkb.Marshal(g, c.SRID, bo)
	} else {
		data, err = wkb.Marshal(g, bo)
	}
	if err != nil {
		return fmt.Errorf("Marshal: %v", err)
	}
	what := fmt.Sprintf("%s = %d (%d bytes)", c.Dim, c.N, len(data))
	// the encoder, judged by the harness's own reader (up to 32 MiB: above that only the round trip, to bound memory)
	if len(data) <= 32<<20 {
		if err := refCheck(what+": Marshal", data, want, c.SRID); err != nil {
			return err
		}
	}
	a := wkbAPI
	if c.SRID != 0 {
		a = ewkbAPI
	}
	check := func(path string, g2 orb.Geometry, s int, err error) error {
		if err != nil {
			return fmt.Errorf("%s: %s.%s: %v", what, a.name, path, err)
		}
		if same, why := sameBits(g2, want); !same {
			return fmt.Errorf("%s: %s.%s: %s", what, a.name, path, why)
		}
		if a.hasSRID && s != c.SRID {
			return fmt.Errorf("%s: %s.%s: SRID %d, want %d", what, a.name, path, s, c.SRID)
		}
		return nil
	}
	g2, s, err := a.unmarshal(data)
	if err := check("Unmarshal", g2, s, err); err != nil {
		return err
	}
	g2 = nil
	g2, s, err = a.decoder(bytes.NewReader(data))()
	if err := check("Decoder(bytes.Reader)", g2, s, err); err != nil {
		return err
	}
	g2 = nil
	g2, s, err = a.decoder(&chunkReader{data: data})()
	if err := check("Decoder(reader delivering odd-sized chunks)", g2, s, err); err != nil {
		return err
	}
	g2 = nil
	res := a.scan(nil, append([]byte(nil), data...))
	if err := check("Scanner(nil) raw", res.geom, res.srid, res.err); err != nil {
		return err
	}
	if !res.valid {
		return fmt.Errorf("%s: Scanner(nil): Valid is false", what)
	}
	// typed destination of the value's own kind, and the bound
	if dk := ownDest(want); dk != "nil" {
		dest, read := newDest(dk)
		res := a.scan(dest, append([]byte(nil), data...))
		if err := check("Scanner(*"+dk+")", res.geom, res.srid, res.err); err != nil {
			return err
		}
		if same, why := sameBits(read(), want); !same {
			return fmt.Errorf("%s: *dest of Scanner(*%s): %s", what, dk, why)
		}
	}
	{
		var b orb.Bound
		res := a.scan(&b, append([]byte(nil), data...))
		if res.err != nil {
			return fmt.Errorf("%s: Scanner(*Bound): %v", what, res.err)
		}
		if same, why := matchBound(b, modelBound(want)); !same {
			return fmt.Errorf("%s: Scanner(*Bound): %s", what, why)
		}
	}
	if a.hasSRID {
		body, err := wkb.Marshal(g, bo)
		if err != nil {
			return err
		}
		res := a.scanPrefix(nil, sridPrefix(c.SRID, body))
		if err := check("ScannerPrefixSRID(nil)", res.geom, res.srid, res.err); err != nil {
			return err
		}
	}
	// text framing and two values on one stream: up to 4 MiB
	if len(data) <= 4<<20 {
		res := a.scan(nil, []byte(hex.EncodeToString(data)))
		if err := check("Scanner(nil) hex", res.geom, res.srid, res.err); err != nil {
			return err
		}
		dec := a.decoder(bytes.NewReader(append(append([]byte(nil), data...), data...)))
		for k := 0; k < 2; k++ {
			g2, s, err := dec()
			if err := check(fmt.Sprintf("Decoder, value %d of a two-value stream", k+1), g2, s, err); err != nil {
				return err
			}
		}
	}
	return nil
}

// nearRung reports whether n lies in L-2..L+3 for the given L.
func nearRung(n, l int) bool { return n >= l-2 && n <= l+3 }

// rungWanted selects the rungs of one dimension for the tier and says whether all three positions of the
// enormous member are run (otherwise the position rotates with the rung).
//
//	thorough  every rung up to the dimension's top; all positions up to 2^17+3, rotating above
//	quick     every rung up to 6145 (= 1.5 * 4096 + 1) for ALL dimensions with all positions; the neighbourhood
//	          L-2..L+3 of 65536 for ALL dimensions (rotating position); and for the three cheap dimensions (plain
//	          vertex lists: ~1 us per vertex) every rung up to 2^17+3. The rungs between 6145 and 65534 and above
//	          65539 of the member-count, one-enormous-member and depth dimensions cost 0.2 .. 1.6 s each
//	          (5-7 us per member / level) and run in the thorough tier only.
func rungWanted(di, n int, thorough bool) (bool, bool) {
	d := largeDims[di]
	if thorough {
		return n <= d.thoroughTop, n <= 1<<17+3
	}
	if n <= 6145 {
		return true, true
	}
	if nearRung(n, 65536) {
		return true, false
	}
	if di <= 2 && n <= 1<<17+3 {
		return true, false
	}
	return false, false
}

// TestEnumLarge runs the ladder for every size dimension.
func TestEnumLarge(t *testing.T) {
	rungs := ladder()
	var idx, size int64
	tops := map[string]int{}
	for di, d := range largeDims {
		for ri, n := range rungs {
			ok, allPos := rungWanted(di, n, stats.Thorough())
			if !ok {
				continue
			}
			tops[d.name] = n
			for pos := 0; pos < d.positions; pos++ {
				if !allPos && pos != ri%d.positions {
					continue
				}
				idx++
				size++
				if !stats.Mine(idx) {
					continue
				}
				rot := (di + pos + n) % 4
				c := LargeCase{Dim: d.name, N: n, Pos: pos, SRID: []int{0, 4326}[rot&1], BE: rot&2 != 0}
				stats.Eval("TestEnumLarge", 1)
				stats.Class("enum large:" + d.name)
				stats.NonTrivialHash(stats.Hash(gen.JSON(c)))
				stats.TryT(t, "TestEnumLarge", c, func() error { return checkLarge(c) })
			}
		}
	}
	desc := ""
	for _, d := range largeDims {
		desc += fmt.Sprintf("%s up to %d; ", d.name, tops[d.name])
	}
	stats.Subspace("size ladder {L-2..L+3, 1.5L+1 : L = 2^k (k=6..24), 10^k (k=2..7)} U {4095..4097,65535,65536}; tops in this tier: "+desc+"quick: every rung up to 6145 and the neighbourhood of 65536 for all dimensions, every rung up to 2^17+3 for plain vertex lists; (byte order, SRID) rotating with the rung; structured shapes with index-derived distinct coordinates; own WKB reader as the encoder's judge up to 32 MiB; stream decoding through a reader that delivers odd-sized chunks", size, true)
}

// ---------------------------------------------------------------- L2: dynamic types

type namedLS orb.LineString
type namedBytes []byte
type uncomparable struct {
	P  []orb.Point
	M  map[string]int
	Fn func()
}
type zeroSize struct{}
type geomHolder struct{ G orb.Geometry }

// TestEnumDynamicTypes: every Scanner constructor x destinations of many concrete types x sources of many concrete
// types. Expectations: a destination that is not a non-nil pointer to one of the nine orb kinds gives an error and
// Valid == false (never a panic, never a success) for data that is valid WKB; a source that is not []byte gives the
// documented unsupported-data-type error (nil: no error, Valid == false); the supported (destination, source)
// pairs give the model value.
func TestEnumDynamicTypes(t *testing.T) {
	stats.Assume("dynamic types: typed-nil pointer destinations (e.g. (*orb.Point)(nil)) are not generated: the documentation requires g to be a pointer to a geometry type (such a call panics with a nil dereference on the unchanged tree; reported, not checked)")
	pt := orb.Point{1.25, -2.5}
	ls := orb.LineString{{0, 0}, {1, 1}}
	var iface orb.Geometry = pt
	ppt := &pt
	type destCase struct {
		name string
		mk   func() interface{}
		kind string // "" = unsupported dynamic type, else the destination kind it stands for
	}
	dests := []destCase{
		{"nil", func() interface{} { return nil }, "nil"},
		{"*orb.Point", func() interface{} { return new(orb.Point) }, "Point"},
		{"*orb.LineString", func() interface{} { return new(orb.LineString) }, "LineString"},
		{"*orb.Bound", func() interface{} { return new(orb.Bound) }, "Bound"},
		{"*orb.Collection", func() interface{} { return new(orb.Collection) }, "Collection"},
		{"orb.Point by value", func() interface{} { return pt }, ""},
		{"orb.LineString by value", func() interface{} { return ls }, ""},
		{"**orb.Point", func() interface{} { return &ppt }, ""},
		{"*orb.Geometry (pointer to interface)", func() interface{} { return &iface }, ""},
		{"*namedLS (named slice type)", func() interface{} { return new(namedLS) }, ""},
		{"*[]orb.Point", func() interface{} { return new([]orb.Point) }, ""},
		{"*[2]float64", func() interface{} { return new([2]float64) }, ""},
		{"uncomparable struct by value", func() interface{} { return uncomparable{P: ls, M: map[string]int{"a": 1}, Fn: func() {}} }, ""},
		{"*uncomparable", func() interface{} { return &uncomparable{} }, ""},
		{"zero-size struct", func() interface{} { return zeroSize{} }, ""},
		{"*geomHolder", func() interface{} { return &geomHolder{} }, ""},
		{"func value", func() interface{} { return func() {} }, ""},
		{"map value", func() interface{} { return map[string]orb.Point{} }, ""},
		{"string", func() interface{} { return "Point" }, ""},
		{"*ewkb.GeometryScanner", func() interface{} { return ewkb.Scanner(nil) }, ""},
	}
	type srcCase struct {
		name string
		mk   func(data []byte) interface{}
		kind string // bytes | null | unsupported
	}
	srcs := []srcCase{
		{"[]byte", func(d []byte) interface{} { return append([]byte(nil), d...) }, "bytes"},
		{"[]byte with spare capacity", func(d []byte) interface{} { b := make([]byte, len(d), len(d)+32); copy(b, d); return b }, "bytes"},
		{"untyped nil", func(d []byte) interface{} { return nil }, "null"},
		{"[]byte(nil)", func(d []byte) interface{} { return []byte(nil) }, "null"},
		{"string of the raw bytes", func(d []byte) interface{} { return string(d) }, "unsupported"},
		{"string of hex", func(d []byte) interface{} { return hex.EncodeToString(d) }, "unsupported"},
		{"named byte slice type", func(d []byte) interface{} { return namedBytes(append([]byte(nil), d...)) }, "unsupported"},
		{"*[]byte", func(d []byte) interface{} { b := append([]byte(nil), d...); return &b }, "unsupported"},
		{"[21]byte array", func(d []byte) interface{} { var a [21]byte; copy(a[:], d); return a }, "unsupported"},
		{"int64", func(d []byte) interface{} { return int64(len(d)) }, "unsupported"},
		{"float64", func(d []byte) interface{} { return 1.5 }, "unsupported"},
		{"bool", func(d []byte) interface{} { return true }, "unsupported"},
		{"[]uint16", func(d []byte) interface{} { return []uint16{1, 2} }, "unsupported"},
		{"orb.Point", func(d []byte) interface{} { return pt }, "unsupported"},
		{"bytes.Buffer pointer", func(d []byte) interface{} { return bytes.NewBuffer(d) }, "unsupported"},
		{"uncomparable struct", func(d []byte) interface{} { return uncomparable{P: ls} }, "unsupported"},
	}
	geoms := []orb.Geometry{pt, ls, orb.Collection{pt, ls}}
	type scannerKind struct {
		name string
		mk   func(dest interface{}) (func(interface{}) error, func() (orb.Geometry, int, bool))
		row  func(g orb.Geometry) []byte
		errU error
		srid int
	}
	scanners := []scannerKind{
		{"wkb.Scanner", func(d interface{}) (func(interface{}) error, func() (orb.Geometry, int, bool)) {
			s := wkb.Scanner(d)
			return s.Scan, func() (orb.Geometry, int, bool) { return s.Geometry, 0, s.Valid }
		}, func(g orb.Geometry) []byte { return wkb.MustMarshal(g) }, wkb.ErrUnsupportedDataType, 0},
		{"ewkb.Scanner", func(d interface{}) (func(interface{}) error, func() (orb.Geometry, int, bool)) {
			s := ewkb.Scanner(d)
			return s.Scan, func() (orb.Geometry, int, bool) { return s.Geometry, s.SRID, s.Valid }
		}, func(g orb.Geometry) []byte { return ewkb.MustMarshal(g, 4326, binary.BigEndian) }, ewkb.ErrUnsupportedDataType, 4326},
		{"ewkb.ScannerPrefixSRID", func(d interface{}) (func(interface{}) error, func() (orb.Geometry, int, bool)) {
			s := ewkb.ScannerPrefixSRID(d)
			return s.Scan, func() (orb.Geometry, int, bool) { return s.Geometry, s.SRID, s.Valid }
		}, func(g orb.Geometry) []byte { return sridPrefix(3857, wkb.MustMarshal(g)) }, ewkb.ErrUnsupportedDataType, 3857},
	}
	var size int64
	for _, sc := range scanners {
		for _, dc := range dests {
			for _, src := range srcs {
				for gi, g := range geoms {
					size++
					if !stats.Mine(size) {
						continue
					}
					stats.Eval("TestEnumDynamicTypes", 1)
					what := fmt.Sprintf("%s(%s).Scan(%s) of %s", sc.name, dc.name, src.name, gen.KindOf(g))
					c := map[string]string{"scanner": sc.name, "dest": dc.name, "source": src.name, "geom": gen.KindOf(g)}
					stats.NonTrivialHash(stats.Hash(what))
					stats.TryT(t, "TestEnumDynamicTypes", c, func() error {
						dest := dc.mk()
						scan, get := sc.mk(dest)
						err := scan(src.mk(sc.row(g)))
						geom, srid, valid := get()
						switch {
						case src.kind == "null" && sc.name == "ewkb.ScannerPrefixSRID":
							// out of C01's scope (a NULL row is not bytes in any framing): only "does not panic";
							// observed: Scan(nil) gives the unsupported-data-type error here, the other two scanners give a NULL row
							return nil
						case src.kind == "null":
							if err != nil || valid || geom != nil {
								return fmt.Errorf("%s: err=%v valid=%v geometry=%v, want a NULL row (no error, Valid false, nil geometry)", what, err, valid, geom)
							}
							return nil
						case src.kind == "unsupported":
							if !errors.Is(err, sc.errU) || valid || geom != nil {
								return fmt.Errorf("%s: err=%v valid=%v, want %v and Valid false", what, err, valid, sc.errU)
							}
							return nil
						case dc.kind == "":
							if err == nil || valid || geom != nil {
								return fmt.Errorf("%s: err=%v valid=%v geometry=%v, want an error and Valid false for a destination of an unsupported dynamic type", what, err, valid, geom)
							}
							return nil
						}
						exp, ok := expectScan(dc.kind, gen.Canonical(g))
						if !ok {
							if err == nil || valid {
								return fmt.Errorf("%s: err=%v valid=%v, want the wrong-geometry error", what, err, valid)
							}
							return nil
						}
						if err != nil || !valid {
							return fmt.Errorf("%s: err=%v valid=%v, want the value", what, err, valid)
						}
						e := expectation{geom: exp, ok: true}
						if dc.kind == "Bound" {
							e.isBound, e.bound = true, modelBound(gen.Canonical(g))
						}
						if same, why := e.match(geom); !same {
							return fmt.Errorf("%s: %s", what, why)
						}
						if srid != sc.srid {
							return fmt.Errorf("%s: SRID %d, want %d", what, srid, sc.srid)
						}
						_ = gi
						return nil
					})
				}
			}
		}
	}
	stats.Subspace("dynamic types: 3 scanner constructors x 20 destination values (nil, 4 supported pointers, 15 foreign dynamic types: values, pointers to pointers / interfaces / named types, uncomparable and zero-size structs, func, map, string, another scanner) x 16 source values ([]byte with and without spare capacity, nil, []byte(nil), strings, named byte slice, *[]byte, array, numbers, bool, other slices, structs) x {point, line string, collection}", size, true)
}

// ---------------------------------------------------------------- L3: histories with caller-side mutation

// The history tests reuse SeqCase / Step (reuse_test.go) with these additional ops:
//
//	again      repeat the previous row / encode step exactly (the same call twice in a row)
//	setfields  the caller assigns the scanner's exported fields (Geometry, SRID where present, Valid)
//	setdest    the caller assigns a new value to *dest
//	copy       the object is copied by value and the history continues on the copy
//
// and expectations come from the model: expectScan / refDecode, the NULL and error rules; a fresh library object is
// not consulted.

type historyScanner struct {
	w    *wkb.GeometryScanner
	e    *ewkb.GeometryScanner
	dest interface{}
	read func() orb.Geometry
}

func checkScannerHistory(c SeqCase) error {
	dest, read := newDest(c.Dest)
	h := historyScanner{dest: dest, read: read}
	switch {
	case c.Pkg == "wkb":
		h.w = wkb.Scanner(dest)
	case c.Prefix:
		h.e = ewkb.ScannerPrefixSRID(dest)
	default:
		h.e = ewkb.Scanner(dest)
	}
	name := c.Pkg + ".Scanner"
	if c.Prefix {
		name = "ewkb.ScannerPrefixSRID"
	}
	var last *Step
	for i := range c.Steps {
		st := c.Steps[i]
		where := fmt.Sprintf("%s(%s destination) history, step %d of %d (%s %s)", name, c.Dest, i+1, len(c.Steps), st.Op, st.Framing)
		switch st.Op {
		case "setfields":
			junk := orb.LineString{junkPt, junkPt}
			if h.w != nil {
				h.w.Geometry, h.w.Valid = junk, true
			} else {
				h.e.Geometry, h.e.Valid, h.e.SRID = junk, true, 987654
			}
			continue
		case "setdest":
			reassignDest(h.dest, i)
			continue
		case "copy":
			if h.w != nil {
				cp := *h.w
				h.w = &cp
			} else {
				cp := *h.e
				h.e = &cp
			}
			continue
		case "again":
			if last == nil {
				continue
			}
			st = *last
		}
		row, err := rowBytes(c, st)
		if err != nil {
			return err
		}
		var gotErr error
		var geom orb.Geometry
		var srid int
		var valid bool
		if h.w != nil {
			gotErr = h.w.Scan(cloneRow(row))
			geom, valid = h.w.Geometry, h.w.Valid
		} else {
			gotErr = h.e.Scan(cloneRow(row))
			geom, srid, valid = h.e.Geometry, h.e.SRID, h.e.Valid
		}
		keep := st
		last = &keep
		switch st.Op {
		case "null", "nullbytes":
			if c.Prefix {
				// out of scope for the prefix scanner (see rule.txt): the call is history noise, it must only not
				// panic and must not leave a Valid value behind
				if valid {
					return fmt.Errorf("%s: Valid is true after a NULL row", where)
				}
				continue
			}
			if gotErr != nil || valid || geom != nil {
				return fmt.Errorf("%s: err=%v Valid=%v Geometry=%v, want a NULL row: no error, Valid false, nil Geometry", where, gotErr, valid, geom)
			}
		case "garbage":
			if gotErr == nil || valid || geom != nil {
				return fmt.Errorf("%s: err=%v Valid=%v Geometry=%v, want an error, Valid false, nil Geometry", where, gotErr, valid, geom)
			}
		case "row":
			want := gen.Canonical(st.Geom.V)
			exp, ok := expectScan(c.Dest, want)
			if !ok {
				errInc := ewkb.ErrIncorrectGeometry
				if c.Pkg == "wkb" {
					errInc = wkb.ErrIncorrectGeometry
				}
				if !errors.Is(gotErr, errInc) || valid || geom != nil {
					return fmt.Errorf("%s: err=%v Valid=%v Geometry=%v, want the wrong-geometry error, Valid false, nil Geometry", where, gotErr, valid, geom)
				}
				continue
			}
			if gotErr != nil || !valid {
				return fmt.Errorf("%s: err=%v Valid=%v, want the value", where, gotErr, valid)
			}
			e := expectation{geom: exp, ok: true}
			if c.Dest == "Bound" {
				e.isBound, e.bound = true, modelBound(want)
			}
			if same, why := e.match(geom); !same {
				return fmt.Errorf("%s: Geometry: %s", where, why)
			}
			if h.read != nil {
				if same, why := e.match(h.read()); !same {
					return fmt.Errorf("%s: *dest: %s", where, why)
				}
			}
			if c.Pkg == "ewkb" && srid != st.SRID {
				return fmt.Errorf("%s: SRID %d, want %d", where, srid, st.SRID)
			}
		}
	}
	return nil
}

// reassignDest is the caller writing a new value into *dest between scans.
func reassignDest(dest interface{}, k int) {
	switch d := dest.(type) {
	case *orb.Point:
		*d = orb.Point{float64(k), -1}
	case *orb.MultiPoint:
		*d = [][]orb.Point{nil, {}, {junkPt}, make([]orb.Point, 1, 64)}[k%4]
	case *orb.LineString:
		*d = [][]orb.Point{nil, {}, {junkPt}, make([]orb.Point, 1, 64)}[k%4]
	case *orb.Ring:
		*d = [][]orb.Point{nil, {}, {junkPt}, make([]orb.Point, 1, 64)}[k%4]
	case *orb.MultiLineString:
		*d = []orb.MultiLineString{nil, {}, {{junkPt}}, make(orb.MultiLineString, 1, 16)}[k%4]
	case *orb.Polygon:
		*d = []orb.Polygon{nil, {}, {{junkPt}}, make(orb.Polygon, 1, 16)}[k%4]
	case *orb.MultiPolygon:
		*d = []orb.MultiPolygon{nil, {}, {{{junkPt}}}, make(orb.MultiPolygon, 1, 16)}[k%4]
	case *orb.Collection:
		*d = []orb.Collection{nil, {}, {junkPt}, make(orb.Collection, 1, 16)}[k%4]
	case *orb.Bound:
		*d = orb.Bound{Min: junkPt, Max: junkPt}
	}
}

func checkEncoderHistory(c SeqCase) error {
	var buf bytes.Buffer
	var wEnc *wkb.Encoder
	var eEnc *ewkb.Encoder
	be, srid := false, 0
	if c.Pkg == "ewkb" {
		eEnc = ewkb.NewEncoder(&buf)
		srid = 4326 // documented default of a new ewkb encoder
	} else {
		wEnc = wkb.NewEncoder(&buf)
	}
	var last *Step
	for i := range c.Steps {
		st := c.Steps[i]
		where := fmt.Sprintf("%s.Encoder history, step %d of %d (%s)", c.Pkg, i+1, len(c.Steps), st.Op)
		if st.Op == "again" {
			if last == nil {
				continue
			}
			st = *last
		}
		keep := st
		last = &keep
		switch st.Op {
		case "copy":
			if eEnc != nil {
				cp := *eEnc
				eEnc = &cp
			} else {
				cp := *wEnc
				wEnc = &cp
			}
		case "order":
			be = st.BE
			if eEnc != nil {
				eEnc.SetByteOrder(order(be))
			} else {
				wEnc.SetByteOrder(order(be))
			}
		case "srid":
			if eEnc != nil {
				srid = st.SRID
				eEnc.SetSRID(srid)
			}
		case "encode", "encode_srid":
			g := st.Geom.V
			before := buf.Len()
			use := srid
			var err error
			switch {
			case eEnc != nil && st.Op == "encode_srid":
				use = st.SRID
				// variadic argument through an existing slice with spare capacity (L4)
				xs := make([]int, 1, 4)
				xs[0] = st.SRID
				xs = append(xs[:1:4], 0)[:1]
				full := xs[:cap(xs)]
				full[1], full[2], full[3] = -11, -12, -13
				err = eEnc.Encode(g, xs...)
				if full[0] != st.SRID {
					return fmt.Errorf("%s: Encode changed the element of the SRID slice the caller spread into it (xs...): %v", where, full)
				}
				if full[1] != -11 || full[2] != -12 || full[3] != -13 {
					layoutNote("a call wrote into the spare capacity of its variadic argument slice")
				}
			case eEnc != nil:
				err = eEnc.Encode(g)
			default:
				use = 0
				err = wEnc.Encode(g)
			}
			if err != nil {
				return fmt.Errorf("%s: %v", where, err)
			}
			got := buf.Bytes()[before:]
			if err := refCheck(fmt.Sprintf("%s (order big-endian=%v, SRID %d)", where, be, use), got, gen.Canonical(g), use); err != nil {
				return err
			}
			if len(got) > 0 && (got[0] == 0) != be {
				return fmt.Errorf("%s: byte-order mark %d, the current order is big-endian=%v", where, got[0], be)
			}
		}
	}
	return nil
}

var historySRIDs = []int{0, 4326, 3857, 900913, 65538}

func drawHistory(t *rapid.T, object string) SeqCase {
	c := SeqCase{Object: object}
	if object == "scanner" {
		switch rapid.IntRange(0, 2).Draw(t, "scanner") {
		case 0:
			c.Pkg = "wkb"
		case 1:
			c.Pkg = "ewkb"
		default:
			c.Pkg, c.Prefix = "ewkb", true
		}
		c.Dest = rapid.SampledFrom(destKinds).Draw(t, "dest")
	} else {
		c.Pkg = rapid.SampledFrom([]string{"wkb", "ewkb"}).Draw(t, "pkg")
	}
	n := rapid.IntRange(2, 12).Draw(t, "steps")
	for i := 0; i < n; i++ {
		var st Step
		if object == "scanner" {
			st.Op = rapid.SampledFrom([]string{"row", "row", "row", "row", "again", "again", "null", "nullbytes", "garbage", "setfields", "setdest", "copy"}).Draw(t, "op")
			if st.Op == "row" {
				var kinds []string
				if ks, ok := compatibleKinds[c.Dest]; ok && rapid.IntRange(0, 2).Draw(t, "compatible") > 0 {
					kinds = ks
				}
				st.Geom = gen.G{V: drawSmallGeom(t, kinds)}
				st.BE = rapid.Bool().Draw(t, "be")
				switch {
				case c.Prefix:
					st.Framing, st.SRID = "prefix", rapid.SampledFrom(historySRIDs).Draw(t, "srid")
				case c.Pkg == "ewkb":
					st.Framing = rapid.SampledFrom([]string{"raw", "raw", "hex", "HEX", `\x+hex`}).Draw(t, "framing")
					st.SRID = rapid.SampledFrom(historySRIDs).Draw(t, "srid")
				default:
					st.Framing = rapid.SampledFrom([]string{"raw", "raw", "hex", "HEX", `\x+hex`, "prefix"}).Draw(t, "framing")
					if st.Framing == "prefix" {
						st.SRID = rapid.SampledFrom([]int{4326, 3857, 900913}).Draw(t, "srid")
					}
				}
			}
		} else {
			ops := []string{"encode", "encode", "again", "order", "copy"}
			if c.Pkg == "ewkb" {
				ops = []string{"encode", "encode", "again", "order", "srid", "encode_srid", "copy"}
			}
			st.Op = rapid.SampledFrom(ops).Draw(t, "op")
			switch st.Op {
			case "encode":
				st.Geom = gen.G{V: drawSmallGeom(t, nil)}
			case "encode_srid":
				st.Geom = gen.G{V: drawSmallGeom(t, nil)}
				st.SRID = rapid.SampledFrom(historySRIDs).Draw(t, "srid")
			case "order":
				st.BE = rapid.Bool().Draw(t, "be")
			case "srid":
				st.SRID = rapid.SampledFrom(historySRIDs).Draw(t, "srid")
			}
		}
		c.Steps = append(c.Steps, st)
	}
	return c
}

func historyClasses(c SeqCase) {
	for _, st := range c.Steps {
		stats.Class("history step:" + c.Object + " " + st.Op)
	}
	stats.NonTrivial("history:" + gen.JSON(c))
	if stats.WantSample("history " + c.Object) {
		stats.Sample("history "+c.Object, c)
	}
}

func TestPropHistoryScanner(t *testing.T) {
	stats.Assume("histories: sequences of 2..12 steps drawn up front (every method in any order, the same call twice in a row, caller-side assignment of exported fields and of *dest, struct copies) instead of rapid's t.Repeat, so that the whole history is one replayable value; expectations come from the model (expectation table, own WKB reader, NULL / error rules), not from a fresh library object")
	stats.Check(t, 12000, 400000, func(rt *rapid.T) {
		c := drawHistory(rt, "scanner")
		historyClasses(c)
		stats.Try(rt, "TestPropHistoryScanner", c, func() error { return checkScannerHistory(c) })
	})
}

func TestPropHistoryEncoder(t *testing.T) {
	stats.Check(t, 8000, 300000, func(rt *rapid.T) {
		c := drawHistory(rt, "encoder")
		historyClasses(c)
		stats.Try(rt, "TestPropHistoryEncoder", c, func() error { return checkEncoderHistory(c) })
	})
}

// ---------------------------------------------------------------- L4: arguments are read-only

// guardedBytes puts data into a caller-owned slice with spare capacity filled with a sentinel and returns the
// slice, the full backing array and its snapshot.
func guardedBytes(data []byte) (in, full, snap []byte) {
	full = make([]byte, len(data)+24)
	copy(full, data)
	for i := len(data); i < len(full); i++ {
		full[i] = 0x5A
	}
	return full[:len(data)], full, append([]byte(nil), full...)
}

// checkReadOnlyArgs: every slice / variadic argument of the decode and encode entry points is caller-owned, has
// spare capacity, is snapshot bit for bit (whole backing array) and compared after the call; the same argument
// value serves consecutive calls and concurrent goroutines.
func checkReadOnlyArgs(c Case) error {
	g := c.Geom.V
	if g == nil || isTypedNil(g) {
		return nil
	}
	want := gen.Canonical(g)
	bo := order(c.BE)
	// variadic byte order through an existing slice with spare capacity
	orders := make([]binary.ByteOrder, 1, 3)
	orders[0] = bo
	fullOrders := orders[:3]
	fullOrders[1], fullOrders[2] = order(!c.BE), order(!c.BE)
	checkOrders := func(what string) error {
		if fullOrders[0] != bo {
			return fmt.Errorf("%s changed the element of the byte-order slice the caller spread into it (orders...)", what)
		}
		if fullOrders[1] != order(!c.BE) || fullOrders[2] != order(!c.BE) {
			layoutNote("a call wrote into the spare capacity of its variadic argument slice")
			fullOrders[1], fullOrders[2] = order(!c.BE), order(!c.BE)
		}
		return nil
	}
	dataE, err := ewkb.Marshal(g, c.SRID, orders...)
	if err != nil {
		return err
	}
	if err := checkOrders("ewkb.Marshal"); err != nil {
		return err
	}
	dataW, err := wkb.Marshal(g, orders...)
	if err != nil {
		return err
	}
	if err := checkOrders("wkb.Marshal"); err != nil {
		return err
	}
	if hx, err := ewkb.MarshalToHex(g, c.SRID, orders...); err != nil || hx != hex.EncodeToString(dataE) {
		return fmt.Errorf("ewkb.MarshalToHex(orders...) disagrees with Marshal (%v)", err)
	}
	if b := wkb.MustMarshal(g, orders...); !bytes.Equal(b, dataW) {
		return fmt.Errorf("wkb.MustMarshal(orders...) disagrees with Marshal")
	}
	if err := checkOrders("MarshalToHex / MustMarshal"); err != nil {
		return err
	}
	if err := refCheck("ewkb.Marshal(g, srid, orders...)", dataE, want, c.SRID); err != nil {
		return err
	}
	if err := refCheck("wkb.Marshal(g, orders...)", dataW, want, 0); err != nil {
		return err
	}

	type path struct {
		name       string
		framed     []byte
		run        func(in []byte) (orb.Geometry, error)
		hexFraming bool
	}
	hexE := []byte(hex.EncodeToString(dataE))
	xhexW := append([]byte(`\x`), hex.EncodeToString(dataW)...)
	paths := []path{
		{"ewkb.Unmarshal", dataE, func(in []byte) (orb.Geometry, error) { g, _, err := ewkb.Unmarshal(in); return g, err }, false},
		{"wkb.Unmarshal", dataW, func(in []byte) (orb.Geometry, error) { return wkb.Unmarshal(in) }, false},
		{"ewkb.Scanner(nil) raw", dataE, func(in []byte) (orb.Geometry, error) { s := ewkb.Scanner(nil); err := s.Scan(in); return s.Geometry, err }, false},
		{"wkb.Scanner(nil) raw", dataW, func(in []byte) (orb.Geometry, error) { s := wkb.Scanner(nil); err := s.Scan(in); return s.Geometry, err }, false},
		{"ewkb.ScannerPrefixSRID(nil)", sridPrefix(c.SRID, dataW), func(in []byte) (orb.Geometry, error) {
			s := ewkb.ScannerPrefixSRID(nil)
			err := s.Scan(in)
			return s.Geometry, err
		}, false},
		{"ewkb.Scanner(nil) hex", hexE, func(in []byte) (orb.Geometry, error) { s := ewkb.Scanner(nil); err := s.Scan(in); return s.Geometry, err }, true},
		{`wkb.Scanner(nil) \x+hex`, xhexW, func(in []byte) (orb.Geometry, error) { s := wkb.Scanner(nil); err := s.Scan(in); return s.Geometry, err }, true},
	}
	if c.SRID != 0 && mysqlRetryApplies(c.SRID) {
		paths = append(paths, path{"wkb.Scanner(nil) MySQL prefix", sridPrefix(c.SRID, dataW), func(in []byte) (orb.Geometry, error) {
			s := wkb.Scanner(nil)
			err := s.Scan(in)
			return s.Geometry, err
		}, false})
	}
	for _, p := range paths {
		if p.hexFraming {
			// stated exception: Scan decodes hex / \x text in place into the caller's slice. Every call gets a
			// fresh copy and the source is not compared afterwards; only the values are checked.
			for k := 0; k < 2; k++ {
				in, _, _ := guardedBytes(p.framed)
				g2, err := p.run(in)
				if err != nil {
					return fmt.Errorf("%s: %v", p.name, err)
				}
				if same, why := sameBits(g2, want); !same {
					return fmt.Errorf("%s: %s", p.name, why)
				}
			}
			continue
		}
		in, full, snap := guardedBytes(p.framed)
		// the same argument for three consecutive calls
		for k := 0; k < 3; k++ {
			g2, err := p.run(in)
			if err != nil {
				return fmt.Errorf("%s, call %d with the same input slice: %v", p.name, k+1, err)
			}
			if same, why := sameBits(g2, want); !same {
				return fmt.Errorf("%s, call %d with the same input slice: %s", p.name, k+1, why)
			}
			if !bytes.Equal(full[len(in):], snap[len(in):]) {
				layoutNote("a decode call wrote into the spare capacity of its input byte slice")
				copy(full[len(in):], snap[len(in):])
			}
			if !bytes.Equal(full, snap) {
				i := 0
				for full[i] == snap[i] {
					i++
				}
				return fmt.Errorf("%s changed the bytes it was given (raw framing; first difference at byte %d of len %d, cap %d): after that the other decode paths no longer see the same bytes, so \"the same value for the same bytes\" cannot hold for this input", p.name, i, len(in), len(full))
			}
		}
		// ... and for concurrent callers
		err := stats.ParallelErr(3, 4, func(i int) error {
			g2, err := p.run(in)
			if err != nil {
				return fmt.Errorf("%s (input slice shared by concurrent callers): %v", p.name, err)
			}
			if same, why := sameBits(g2, want); !same {
				return fmt.Errorf("%s (input slice shared by concurrent callers): %s", p.name, why)
			}
			return nil
		})
		if err != nil {
			return err
		}
		if !bytes.Equal(full[:len(in)], snap[:len(in)]) {
			return fmt.Errorf("%s changed the bytes it was given (raw framing, slice shared by concurrent callers)", p.name)
		}
	}
	// the reader handed to a Decoder is only read: a bytes.Reader over a guarded slice
	for _, d := range []struct {
		name string
		data []byte
		run  func(r io.Reader) (orb.Geometry, error)
	}{
		{"ewkb.Decoder", dataE, func(r io.Reader) (orb.Geometry, error) { g, _, err := ewkb.NewDecoder(r).Decode(); return g, err }},
		{"wkb.Decoder", dataW, func(r io.Reader) (orb.Geometry, error) { return wkb.NewDecoder(r).Decode() }},
	} {
		in, full, snap := guardedBytes(d.data)
		g2, err := d.run(bytes.NewReader(in))
		if err != nil {
			return fmt.Errorf("%s: %v", d.name, err)
		}
		if same, why := sameBits(g2, want); !same {
			return fmt.Errorf("%s: %s", d.name, why)
		}
		if !bytes.Equal(full[:len(in)], snap[:len(in)]) {
			return fmt.Errorf("%s changed the bytes behind its reader (the other decode paths no longer see the same bytes)", d.name)
		}
	}
	return nil
}

func TestPropReadOnlyArgs(t *testing.T) {
	stats.Assume("read-only arguments: the input byte slices of Unmarshal and of Scan with RAW framing (incl. SRID prefix), the bytes behind a Decoder's reader and the variadic byte-order / SRID arguments are compared bit for bit (whole backing array incl. spare capacity) after every call, also when one argument value serves consecutive and concurrent calls; stated exception: Scan decodes hex and \\x text in place into the caller's slice (C01 does not promise that the source stays untouched), so hex framings always get a fresh copy and the source is not compared")
	stats.Check(t, 6000, 200000, func(rt *rapid.T) {
		c := drawCase(rt)
		stats.Class("read-only arguments")
		if nonTrivial(c) {
			stats.NonTrivial("ro:" + gen.JSON(c))
		}
		stats.Try(rt, "TestPropReadOnlyArgs", c, func() error { return checkReadOnlyArgs(c) })
	})
}

// ---------------------------------------------------------------- L5: aliasing inside one input value

// AliasedCase names an input whose members share memory with each other; rebuilt from the parameters because
// sharing does not survive a JSON replay file.
type AliasedCase struct {
	Variant int  `json:"variant"`
	SRID    int  `json:"srid"`
	BE      bool `json:"big_endian"`
}

var aliasedVariantNames = []string{
	"multi-line string: the same slice twice",
	"multi-line string: equal start, different lengths",
	"multi-line string: overlapping windows",
	"polygon: the same ring three times",
	"polygon: rings are prefix / suffix windows of one array",
	"multi-polygon: the same polygon twice",
	"multi-polygon: polygons are windows of one ring array (equal start, different lengths)",
	"multi-polygon: second polygon is a sub-window of the first polygon's ring list",
	"collection: the same line string and the same ring under different kinds",
	"collection: a member is a window of the parent's own backing array",
	"collection: two nested collections are windows of one array with equal start and different lengths",
	"collection: line string, multi-point and ring over one point array",
	"multi-line string: zero-length windows at the same address",
}

func buildAliased(v int) orb.Geometry {
	c := &counter{k: uint64(v) * 100}
	a := c.pts(8)
	switch v {
	case 0:
		l := orb.LineString(a[:4])
		return orb.MultiLineString{l, l}
	case 1:
		return orb.MultiLineString{a[:2], a[:5], a[:1]}
	case 2:
		return orb.MultiLineString{a[1:4], a[2:6], a[0:8]}
	case 3:
		r := orb.Ring(a[:5])
		return orb.Polygon{r, r, r}
	case 4:
		return orb.Polygon{a[:6], a[2:], a[:3]}
	case 5:
		p := orb.Polygon{a[:4], a[4:]}
		return orb.MultiPolygon{p, p}
	case 6:
		rings := []orb.Ring{a[:3], a[3:5], a[5:]}
		return orb.MultiPolygon{rings[:1], rings[:3], rings[:2]}
	case 7:
		rings := orb.Polygon{a[:3], a[3:5], a[5:], a[1:2]}
		return orb.MultiPolygon{rings, rings[1:3]}
	case 8:
		return orb.Collection{orb.LineString(a[:4]), orb.Ring(a[:4]), orb.LineString(a[:4]), orb.MultiPoint(a[:4])}
	case 9:
		parent := make(orb.Collection, 4)
		parent[1] = orb.Point{a[0][0], a[0][1]}
		parent[2] = orb.LineString(a[:2])
		parent[3] = orb.MultiPoint(a[2:3])
		parent[0] = orb.Collection(parent[1:3]) // a window of the parent's own backing array
		return parent
	case 10:
		arr := orb.Collection{orb.Point{a[0][0], a[0][1]}, orb.LineString(a[:3]), orb.Polygon{a[3:]}}
		return orb.Collection{orb.Collection(arr[:1]), orb.Collection(arr[:3]), orb.Collection(arr[:2])}
	case 11:
		return orb.Collection{orb.LineString(a), orb.MultiPoint(a), orb.Ring(a), orb.Polygon{a, a}}
	}
	return orb.MultiLineString{a[3:3], a[3:3], a[3:5], a[3:3]}
}

// checkAliased: value semantics. The result must be what it is for an input made of independent deep copies, and
// the results must not share memory although the inputs did.
func checkAliased(c AliasedCase) error {
	g := buildAliased(c.Variant)
	indep := gen.DeepCopy(g) // the harness copy separates every member
	if same, why := gen.SameBits(g, indep); !same {
		return fmt.Errorf("harness: deep copy differs: %s", why)
	}
	snapshot := gen.DeepCopy(g)
	for _, x := range []struct {
		name string
		g    orb.Geometry
	}{{"aliased input", g}, {"independent copy of it", indep}} {
		cs := Case{Geom: gen.G{V: x.g}, SRID: c.SRID, BE: c.BE}
		if err := checkCase(cs); err != nil {
			return fmt.Errorf("%s: %v", x.name, err)
		}
		if err := checkIndependence(cs); err != nil {
			return fmt.Errorf("%s: %v", x.name, err)
		}
	}
	a, err := ewkb.Marshal(g, c.SRID, order(c.BE))
	if err != nil {
		return err
	}
	b, err := ewkb.Marshal(indep, c.SRID, order(c.BE))
	if err != nil {
		return err
	}
	if !bytes.Equal(a, b) {
		return fmt.Errorf("encoding of a value whose members share memory differs from the encoding of independent copies of the same members")
	}
	if err := refCheck("aliased input", a, gen.Canonical(snapshot), c.SRID); err != nil {
		return err
	}
	if same, why := gen.SameBits(g, snapshot); !same {
		return fmt.Errorf("the aliased input was modified: %s", why)
	}
	return nil
}

func TestEnumAliasedInputs(t *testing.T) {
	var idx, size int64
	for v := range aliasedVariantNames {
		for cfg := 0; cfg < 4; cfg++ {
			idx++
			size++
			if !stats.Mine(idx) {
				continue
			}
			c := AliasedCase{Variant: v, SRID: []int{0, 4326}[cfg&1], BE: cfg&2 != 0}
			stats.Eval("TestEnumAliasedInputs", 1)
			stats.Class("enum aliased inputs")
			stats.NonTrivialHash(stats.Hash(gen.JSON(c)))
			stats.TryT(t, "TestEnumAliasedInputs", c, func() error { return checkAliased(c) })
		}
	}
	stats.Subspace(fmt.Sprintf("inputs whose members alias each other: %d variants (same slice twice, equal start / different lengths, overlapping windows, windows of the parent's own backing array, nested collections over one array, one point array under four kinds, zero-length windows) x byte order x SRID {absent,4326}; full round-trip matrix and result independence on the aliased value and on independent copies, encodings must be equal", len(aliasedVariantNames)), size, true)
}
