package c11

import (
	"errors"
	"fmt"
	"unsafe"

	"github.com/paulmach/orb"
)

// Round L, class L2: what is stored in the tree is not always a *item. Every
// model record (item) has a carrier — the concrete orb.Pointer handed to the
// quadtree — of one of these dynamic types. The model never compares carriers
// with ==: it recovers the record through the id the carrier holds (rec).
const (
	kPtr    = iota // *item: pointer to struct, pointer-receiver Point()
	kVal           // valItem: struct by value, comparable
	kUnc           // uncItem: struct by value with a slice field: NOT comparable
	kSlice         // sliceItem: named slice type with a Point() method: NOT comparable
	kPoint         // orb.Point itself (identified by its value)
	kZst           // *zst: pointer to a zero-size type, distinct addresses
	kValPtr        // *valItem: pointer to a type whose Point() has a value receiver
	kFunc          // funcItem: struct by value with a func field: NOT comparable
	kMap           // mapItem: named map type with a Point() method: NOT comparable
	kRef           // refItem: struct by value holding a *orb.Point that several pointers share (L5)
	nKinds
)

var kindNames = []string{"*struct", "struct value", "struct value with slice (uncomparable)", "named slice (uncomparable)", "orb.Point", "*zero-size", "*T with value receiver", "struct value with func (uncomparable)", "named map (uncomparable)", "struct value sharing a backing point"}

type valItem struct {
	id int
	p  orb.Point
}

func (v valItem) Point() orb.Point { return v.p }

type uncItem struct {
	id   int
	p    orb.Point
	tags []string
}

func (v uncItem) Point() orb.Point { return v.p }

type funcItem struct {
	id int
	p  orb.Point
	f  func() int
}

func (v funcItem) Point() orb.Point { return v.p }

type sliceItem []float64 // x, y, id

func (v sliceItem) Point() orb.Point { return orb.Point{v[0], v[1]} }

type mapItem map[string]float64

func (v mapItem) Point() orb.Point { return orb.Point{v["x"], v["y"]} }

type refItem struct {
	id int
	pt *orb.Point
}

func (v refItem) Point() orb.Point { return *v.pt }

// zst is a zero-size type; its values live at offset 0 of distinct zholders, so
// that their addresses differ and lead back to the data.
type zst struct{}

type zholder struct {
	z  zst
	id int
	p  orb.Point
}

func (z *zst) Point() orb.Point { return (*zholder)(unsafe.Pointer(z)).p }

// makeCarrier builds the concrete pointer of the given kind. shared is the
// backing point for kRef (nil: allocate a new one).
func makeCarrier(it *item, kind int, shared *orb.Point) orb.Pointer {
	switch kind {
	case kVal:
		return valItem{it.id, it.p}
	case kUnc:
		return uncItem{it.id, it.p, []string{"tag"}}
	case kSlice:
		return sliceItem{it.p[0], it.p[1], float64(it.id)}
	case kPoint:
		return it.p
	case kZst:
		h := &zholder{id: it.id, p: it.p}
		return &h.z
	case kValPtr:
		return &valItem{it.id, it.p}
	case kFunc:
		id := it.id
		return funcItem{it.id, it.p, func() int { return id }}
	case kMap:
		return mapItem{"x": it.p[0], "y": it.p[1], "id": float64(it.id)}
	case kRef:
		if shared == nil {
			p := it.p
			shared = &p
		}
		return refItem{it.id, shared}
	}
	return it
}

// carrierID extracts the record id a carrier claims (ok=false: not one of ours;
// id -1 with ok: an orb.Point, to be resolved by value).
func carrierID(p orb.Pointer) (id int, ok bool) {
	switch v := p.(type) {
	case *item:
		if v == nil {
			return 0, false
		}
		return v.id, true
	case valItem:
		return v.id, true
	case *valItem:
		if v == nil {
			return 0, false
		}
		return v.id, true
	case uncItem:
		return v.id, true
	case funcItem:
		return v.id, true
	case sliceItem:
		if len(v) != 3 {
			return 0, false
		}
		return int(v[2]), true
	case mapItem:
		return int(v["id"]), true
	case refItem:
		return v.id, true
	case *zst:
		if v == nil {
			return 0, false
		}
		return (*zholder)(unsafe.Pointer(v)).id, true
	case orb.Point:
		return -1, true
	}
	return 0, false
}

// rec maps a pointer handed out by the tree back to the model record, checking
// that it really is that record's carrier (same kind, same id, same point; same
// address for the pointer kinds).
func (e *env) rec(p orb.Pointer) (*item, error) {
	if p == nil {
		return nil, errors.New("nil pointer returned inside a result")
	}
	if j, ok := p.(*item); ok && j == e.junk {
		return nil, errors.New("returned the foreign pointer the caller's buffer was pre-filled with")
	}
	id, ok := carrierID(p)
	if !ok {
		return nil, fmt.Errorf("returned %T %v which was never added", p, p)
	}
	if pt, isPoint := p.(orb.Point); isPoint {
		cid, known := e.pointIDs[pt]
		if !known {
			return nil, fmt.Errorf("returned orb.Point %v which was never added", pt)
		}
		return e.created[cid], nil
	}
	if id < 0 || id >= len(e.created) {
		return nil, fmt.Errorf("returned %T %v which was never added", p, p)
	}
	r := e.created[id]
	same := false
	switch v := p.(type) {
	case *item:
		same = r.kind == kPtr && v == r
	case valItem:
		same = r.kind == kVal && v.p == r.p
	case *valItem:
		c, isC := r.carrier.(*valItem)
		same = isC && c == v
	case uncItem:
		same = r.kind == kUnc && v.p == r.p && len(v.tags) == 1
	case funcItem:
		same = r.kind == kFunc && v.p == r.p && v.f != nil && v.f() == id
	case sliceItem:
		same = r.kind == kSlice && v.Point() == r.p
	case mapItem:
		same = r.kind == kMap && v.Point() == r.p && len(v) == 3
	case refItem:
		c, isC := r.carrier.(refItem)
		same = isC && c.pt == v.pt && *v.pt == r.p
	case *zst:
		c, isC := r.carrier.(*zst)
		same = isC && c == v
	}
	if !same {
		return nil, fmt.Errorf("returned %T %v, which is not the pointer that was added as #%d (%s at %v)", p, p, id, kindNames[r.kind], r.p)
	}
	return r, nil
}

// mustRec is rec for filter callbacks: the tree must only ever hand stored pointers to a filter.
func (e *env) mustRec(p orb.Pointer) *item {
	r, err := e.rec(p)
	if err != nil {
		panic("filter callback received a pointer that is not stored: " + err.Error())
	}
	return r
}
