package c11

import (
	"fmt"
	"sort"
	"testing"

	"verifharness/internal/gen"
	"verifharness/internal/stats"
)

// ladder returns the size rungs up to top: L-2..L+3 and 1.5L+1 around every
// L = 2^k (k = 6..24), L-2..L+3 around every L = 10^k (k = 2..7), plus 65535,
// 65536 and 4095..4097 (all contained already).
func ladder(top int) []int {
	set := map[int]bool{}
	add := func(v int) {
		if v >= 1 && v <= top {
			set[v] = true
		}
	}
	for k := 6; k <= 24; k++ {
		L := 1 << uint(k)
		for d := -2; d <= 3; d++ {
			add(L + d)
		}
		add(L + L/2 + 1)
	}
	for L := 100; L <= 10000000; L *= 10 {
		for d := -2; d <= 3; d++ {
			add(L + d)
		}
	}
	var out []int
	for v := range set {
		out = append(out, v)
	}
	sort.Ints(out)
	return out
}

var ladderBound = gen.B{Min: gen.P{0, 0}, Max: gen.P{1024, 1024}}

// largeTree: a tree of n pointers of a structured pattern, every query kind with
// k, buffer capacity and result size at n-1, n, n+1, removals of the root value
// (pull-up through the whole structure) and re-adds. All model work is O(n) or
// O(n log n) per step.
func largeTree(n int, pattern string, kind int) Case {
	ops := []Op{
		{K: "bulk", N: n, Tgt: pattern, Ty: kind, Sel: n, P: gen.P{512, 256}},
		{K: "find", P: gen.P{512, 512}},
		{K: "find", P: gen.P{-3000, 5000}, F: "odd"},
		{K: "find", Hit: true, Sel: n / 3},
		{K: "knn", NRel: true, N: 0, Buf: n + 1, P: gen.P{100.5, 900}},            // k = n, buffer capacity n
		{K: "knn", NRel: true, N: 1, Buf: n, P: gen.P{1024, 0}},                   // k = n+1, buffer capacity n-1
		{K: "knn", NRel: true, N: -1, Buf: n + 2, F: "even", P: gen.P{0, 1024}},   // k = n-1, buffer capacity n+1
		{K: "knn", NRel: true, N: 2, F: "reodd", P: gen.P{700, 300.5}},            // k = n+2, re-entrant filter
		{K: "knn", N: 66, MaxK: "abs", Max: 96, Spread: true, P: gen.P{512, 512}}, // caller-owned limit slice
		{K: "knn", N: n/2 + 1, MaxK: "abs", Max: 2048, Spread: true, Buf: 3, P: gen.P{3, 3}},
		{K: "inb", Tgt: "tree", Buf: n},                                        // n results, capacity n-1
		{K: "inb", Tgt: "tree", Buf: n + 1, F: "odd"},                          // capacity n
		{K: "inb", P: gen.P{0, 0}, P2: gen.P{512, 1024}, Buf: n + 2, F: "nil"}, // half the tree
		{K: "inb", Tgt: "pointbox", Hit: true, Sel: n / 2},
		{K: "noise", Sel: n},
		{K: "rm", Tgt: "stored", Sel: 0},                        // the root value: pull-up
		{K: "rm", Tgt: "point", Hit: true, Sel: n / 2},          // by point
		{K: "rm", Tgt: "ptrpoint", Hit: true, Sel: 1, Ty: kUnc}, // probe of an uncomparable type
		{K: "rm", Tgt: "created", Sel: 0},                       // already removed: false
		{K: "add", Tgt: "again", Sel: 0},
		{K: "add", P: gen.P{333, 777.5}, Ty: kSlice},
		{K: "knn", NRel: true, N: 0, P: gen.P{1000, 1000}},
		{K: "inb", Tgt: "tree"},
	}
	if n > 10000 {
		// upper rungs: one call per size relation (k, capacity and result size at n-1, n, n+1), one removal of
		// each kind; every step costs O(n) in the library and in the model
		ops = []Op{ops[0], ops[1], ops[4], ops[5], ops[8], ops[10], ops[11], ops[15], ops[17], ops[19], ops[21]}
	}
	return Case{Bound: ladderBound, Ops: ops}
}

// largeK: the requested count and the buffer capacity climb the ladder on a small tree.
func largeK(k int) Case {
	return Case{Bound: ladderBound, Ops: []Op{
		{K: "bulk", N: 100, Tgt: "scatter", Ty: -1, Sel: k},
		{K: "knn", N: k, Buf: k + 1, P: gen.P{512, 512}},
		{K: "knn", N: k, MaxK: "abs", Max: 2048, Spread: true, P: gen.P{0, 0}, F: "all"},
		{K: "knn", N: k, Buf: 51, P: gen.P{9, 1000}, F: "odd"},
		{K: "inb", Tgt: "tree", Buf: k + 1},
		{K: "inb", Tgt: "tree", Buf: k + 1, F: "none"},
		{K: "find", P: gen.P{1, 1}},
	}}
}

// TestEnumLarge is the size ladder (class L1) for every size dimension of the
// property: pointers per tree, depth of the node chain (coincident pointers and
// halving chains), k, caller buffer capacity, result size.
func TestEnumLarge(t *testing.T) {
	treeTop, depthTop, chainTop, kTop := 131075, 4099, 1027, 1048579
	if stats.Thorough() {
		treeTop, depthTop, chainTop, kTop = 262147, 16387, 65539, 4194307
	}
	type job struct {
		name string
		c    Case
	}
	var idx, size int64
	run := func(name string, mk func() Case) {
		idx++
		size++
		if !stats.Mine(idx) {
			return
		}
		c := mk()
		stats.Eval("TestEnumLarge", 1)
		stats.NonTrivial("large " + name)
		stats.TryT(t, "TestEnumLarge", c, func() error { return checkCase(c) })
	}
	patterns := []string{"grid", "scatter", "twins", "diagonal"}
	for i, n := range ladder(treeTop) {
		n, i := n, i
		pat := patterns[i%len(patterns)]
		if pat == "diagonal" && n > 70000 {
			pat = "grid" // 2049 distinct diagonal points: above 70000 pointers the stacks of coincident pointers dominate the cost
		}
		kind := -1 // rotate through every pointer type
		if i%5 == 4 {
			kind = []int{kUnc, kPoint, kZst, kMap}[(i/5)%4]
		}
		stats.Class("large:tree size ladder")
		run(fmt.Sprintf("tree %d %s", n, pat), func() Case { return largeTree(n, pat, kind) })
		if n <= chainTop || n == 65536 {
			// 1000 distinct points halving towards a corner, repeated: a deep one-sided descent (every query walks it)
			run(fmt.Sprintf("chain %d", n), func() Case { return largeTree(n, "chain", -1) })
		}
		if n <= depthTop {
			stats.Class("large:depth ladder (coincident pointers)")
			run(fmt.Sprintf("coincident %d", n), func() Case { return largeTree(n, "coincident", []int{kPtr, kPoint, kUnc, -1}[i%4]) })
		}
	}
	for _, k := range ladder(kTop) {
		k := k
		stats.Class("large:k and buffer capacity ladder")
		run(fmt.Sprintf("k %d", k), func() Case { return largeK(k) })
	}
	stats.Subspace(fmt.Sprintf("size ladder {L-2..L+3, 1.5L+1 : L = 2^k} u {L-2..L+3 : L = 10^k}: pointers per tree up to %d (grid / scatter / twins / diagonal, all pointer types), halving chains up to %d pointers (and 65536), coincident pointers (node chain depth) up to %d, k and caller buffer capacity up to %d on a 100-pointer tree; k, capacity and result size also at n-1, n, n+1, n+2 of every tree rung", treeTop, chainTop, depthTop, kTop), size, true)
}
