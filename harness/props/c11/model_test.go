package c11

import (
	"errors"
	"fmt"
	"math"
	"sort"

	"github.com/paulmach/orb"
	"github.com/paulmach/orb/quadtree"

	"verifharness/internal/gen"
)

// item is what the harness stores: distinct pointers, so that duplicates at one
// point (and the same pointer added twice) are distinguishable.
type item struct {
	id int
	p  orb.Point
	// kind and carrier: the concrete orb.Pointer stored in the tree for this record (carriers_test.go)
	kind    int
	carrier orb.Pointer
}

func (it *item) Point() orb.Point { return it.p }

func (it *item) String() string {
	if it.kind != kPtr {
		return fmt.Sprintf("#%d(%v,%v)[%s]", it.id, it.p[0], it.p[1], kindNames[it.kind])
	}
	return fmt.Sprintf("#%d(%v,%v)", it.id, it.p[0], it.p[1])
}

// Op is one step of a history. Which fields are read depends on K.
type Op struct {
	K string `json:"k"` // add | addnil | rm | find | knn | inb
	// add: the point of the new item. rm/find/knn: the query point. inb: one box corner.
	P gen.P `json:"p"`
	// inb: the other box corner.
	P2 gen.P `json:"p2,omitempty"`
	// Hit: replace P by the point of stored[Sel mod n] when the tree is not empty.
	Hit bool `json:"hit,omitempty"`
	Sel int  `json:"sel,omitempty"`
	// add: "" new pointer at P | "again" the existing pointer created[Sel mod len] once more.
	// rm:  "stored" identity of stored[Sel] | "created" identity of created[Sel] (stored, removed, rejected or
	//      never added) | "fresh" identity of a brand-new pointer at P | "point" orb.Point value with nil filter |
	//      "ptrpoint" new pointer at the point with nil filter | "filter" orb.Point value with filter F.
	// inb: "" box spanned by P,P2 | "tree" the tree bound | "pointbox" the degenerate box [P,P].
	Tgt string `json:"tgt,omitempty"`
	// F: "" plain variant (Find/KNearest/InBound) | "nil" Matching variant with a nil filter |
	// "even"/"odd" id parity | "none" | "all".
	F string `json:"f,omitempty"`
	// knn: k = N, or max(0, n+N) when NRel (n = current number of stored pointers).
	N    int  `json:"n,omitempty"`
	NRel bool `json:"nrel,omitempty"`
	// knn: MaxK "" no limit | "abs" limit Max | "hit" the exact distance from the query point to
	// stored[Sel2 mod n] when that distance is a representable number (else Max).
	MaxK string `json:"maxk,omitempty"`
	Max  gen.F  `json:"max,omitempty"`
	Sel2 int    `json:"sel2,omitempty"`
	// Ty: carrier kind (see carriers_test.go) of the pointer an add creates / a "fresh" or "ptrpoint" removal probes with.
	Ty int `json:"ty,omitempty"`
	// Spread (knn with a limit): pass the limit as `lims...` from a caller-owned slice with spare
	// capacity, check that no element of its backing array changes, and repeat the call with the
	// untouched slice.
	Spread bool `json:"spread,omitempty"`
	// Buf: 0 nil buffer, else a caller buffer of length = capacity = Buf-1 pre-filled with a foreign pointer.
	Buf int `json:"buf,omitempty"`
}

// Case is one history (also the replay format).
type Case struct {
	Bound gen.B `json:"bound"`
	// Pre: pointers that exist before the history starts (never stored yet); ids 0..len-1.
	Pre []gen.P `json:"pre,omitempty"`
	// PreTy: carrier kinds of the Pre pointers (default *item).
	PreTy []int `json:"prety,omitempty"`
	Ops   []Op  `json:"ops"`
	// Battery: after the last step run the full query battery (used by the enumeration).
	Battery bool `json:"battery,omitempty"`
}

// info is what a run reports besides its verdict.
type info struct {
	nontrivial bool
	cls        map[string]int64
}

type env struct {
	q       *quadtree.Quadtree
	b       orb.Bound
	exact   bool // all coordinates are multiples of 2^-11 below 2^11: every squared distance is exact
	stored  []*item
	created []*item
	junk    *item
	w       *walker

	removals        int
	everAdded       bool
	interiorRemoved bool
	anyRemoved      bool
	nontrivial      bool
	cls             map[string]int64

	pointIDs   map[orb.Point]int        // orb.Point carriers by value
	refPoints  map[orb.Point]*orb.Point // shared backing points of the kRef carriers
	limBack    [4]float64               // backing array of the caller-owned limit slice (class L4)
	spreadNext bool                     // the next checkKNearest passes its limit as a window of limBack

	// class B: the small unrelated tree the re-entrant filters query, and the
	// first disagreement they saw
	inner      *quadtree.Quadtree
	innerItems []*item
	reErr      error
	// class D: a sibling tree with another bound that the noise calls build and query
	other *quadtree.Quadtree
}

func (e *env) bump(name string) { e.cls[name]++ }

// ---------------------------------------------------------------- exactness

func dyadic(v float64) bool {
	if math.IsNaN(v) || math.Abs(v) > 2048 {
		return false
	}
	s := v * 2048
	return s == math.Trunc(s)
}

func dyadicP(p gen.P) bool { return dyadic(float64(p[0])) && dyadic(float64(p[1])) }

// exactCase reports whether every coordinate and distance limit of the case is a
// multiple of 2^-11 of magnitude <= 2^11. Then differences have <= 24 significant
// bits, squares <= 48, sums of two squares <= 49: all distance arithmetic is exact,
// and two different squared distances differ by >= 2^-22, far more than the rounding
// of the square root the implementation uses for pruning.
func exactCase(c Case) bool {
	if !dyadicP(c.Bound.Min) || !dyadicP(c.Bound.Max) {
		return false
	}
	for _, p := range c.Pre {
		if !dyadicP(p) {
			return false
		}
	}
	for _, o := range c.Ops {
		if !dyadicP(o.P) || !dyadicP(o.P2) || !dyadic(float64(o.Max)) {
			return false
		}
		if o.K == "bulk" && o.Tgt == "chain" {
			return false // halving coordinates down to 2^-990: not on the 2^-11 lattice
		}
	}
	return true
}

// relTol is the only tolerance of this check. It applies to histories with
// non-dyadic coordinates only ("float" classes): there the reference metric is the
// float64 expression dx*dx+dy*dy and ranks/minima are compared within relTol relative,
// because the implementation prunes with a rounded square root.
const relTol = 1e-9

// d2 is the harness's own squared euclidean distance (round I: never the
// library's planar.DistanceSquared, which the quadtree itself calls — an oracle
// borrowed from it would move with any defect in it). In the dyadic classes it
// is exact; in the float classes it is the plainly rounded float64 expression
// and comparisons allow relTol.
func (e *env) d2(p, q orb.Point) float64 {
	dx, dy := p[0]-q[0], p[1]-q[1]
	return dx*dx + dy*dy
}

func (e *env) same(a, b float64) bool {
	if e.exact {
		return a == b
	}
	return math.Abs(a-b) <= relTol*math.Max(a, b)
}

// ---------------------------------------------------------------- filters

// filt builds the filter for a name. "reeven"/"reodd" are the re-entrant
// variants (class B): before answering by id parity the callback itself queries
// an unrelated small quadtree (Find, KNearest, InBound with known answers) and,
// for queries, the very tree being searched (read-only: Find at the candidate's
// own point must return a pointer at that point). What the callback saw wrong is
// kept in e.reErr and reported by the check that issued the query.
func (e *env) filt(name string) quadtree.FilterFunc {
	switch name {
	case "even":
		return func(p orb.Pointer) bool { return e.mustRec(p).id%2 == 0 }
	case "odd":
		return func(p orb.Pointer) bool { return e.mustRec(p).id%2 != 0 }
	case "none":
		return func(p orb.Pointer) bool { _ = e.mustRec(p); return false }
	case "all":
		return func(p orb.Pointer) bool { _ = e.mustRec(p); return true }
	case "reeven":
		return func(p orb.Pointer) bool { r := e.mustRec(p); e.reenter(r, true); return r.id%2 == 0 }
	case "reodd":
		return func(p orb.Pointer) bool { r := e.mustRec(p); e.reenter(r, true); return r.id%2 != 0 }
	case "rmreeven": // used by Remove: only the unrelated tree is queried while a removal is searching
		return func(p orb.Pointer) bool { r := e.mustRec(p); e.reenter(r, false); return r.id%2 == 0 }
	}
	return nil // "", "nil"
}

func accepts(name string, it *item) bool {
	switch name {
	case "even", "reeven", "rmreeven":
		return it.id%2 == 0
	case "odd", "reodd":
		return it.id%2 != 0
	case "none":
		return false
	}
	return true
}

func (e *env) innerTree() {
	if e.inner != nil {
		return
	}
	e.inner = quadtree.New(orb.Bound{Min: orb.Point{-1, -1}, Max: orb.Point{6, 3}})
	for i := 0; i < 5; i++ {
		it := &item{id: 1000 + i, p: orb.Point{float64(i), 1}}
		e.innerItems = append(e.innerItems, it)
		_ = e.inner.Add(it)
	}
}

// reenter is what a re-entrant filter does before answering.
func (e *env) reenter(it *item, sameTree bool) {
	if e.reErr != nil {
		return
	}
	e.innerTree()
	i := it.id % 5
	if i < 0 {
		i = -i
	}
	want := e.innerItems[i]
	qp := orb.Point{float64(i), 1.125}
	if got := e.inner.Find(qp); got != orb.Pointer(want) {
		e.reErr = fmt.Errorf("inside a filter callback: Find(%v) on an unrelated 5-point tree returned %v, want %v", qp, got, want)
		return
	}
	if got := e.inner.KNearest(nil, qp, 2); len(got) != 2 || got[0] != orb.Pointer(want) {
		e.reErr = fmt.Errorf("inside a filter callback: KNearest(%v, 2) on an unrelated 5-point tree returned %v, want %v first of 2", qp, got, want)
		return
	}
	box := orb.Bound{Min: orb.Point{float64(i) - 0.25, 0.75}, Max: orb.Point{float64(i) + 0.25, 1.25}}
	if got := e.inner.InBound(nil, box); len(got) != 1 || got[0] != orb.Pointer(want) {
		e.reErr = fmt.Errorf("inside a filter callback: InBound(%v) on an unrelated 5-point tree returned %v, want exactly %v", box, got, want)
		return
	}
	if sameTree {
		// the candidate handed to the filter is stored, so the nearest pointer to its own point is at
		// (computed) squared distance 0 — not necessarily at the same point: tiny offsets square to 0
		if got := e.q.Find(it.p); got == nil || e.d2(got.Point(), it.p) != 0 {
			e.reErr = fmt.Errorf("inside a filter callback: Find(%v) on the tree being searched returned %v, want a pointer at squared distance 0 (%v is stored)", it.p, got, it)
		}
	}
}

func (e *env) takeReErr() error {
	err := e.reErr
	e.reErr = nil
	return err
}

// ---------------------------------------------------------------- bookkeeping

// newItem creates a model record and its carrier of the given kind. An
// orb.Point carrier is identified by its value: a second one at the same point
// is the same pointer as far as anybody can tell, so it shares the record.
func (e *env) newItem(p orb.Point, kind int) *item {
	if kind < 0 || kind >= nKinds {
		kind = kPtr
	}
	if kind == kPoint {
		if id, ok := e.pointIDs[p]; ok {
			return e.created[id]
		}
	}
	it := &item{id: len(e.created), p: p, kind: kind}
	var shared *orb.Point
	if kind == kRef {
		// L5: pointers at the same coordinates share one backing point
		if sp, ok := e.refPoints[p]; ok {
			shared = sp
		} else {
			cp := p
			shared = &cp
			e.refPoints[p] = shared
		}
	}
	it.carrier = makeCarrier(it, kind, shared)
	if kind == kPoint {
		e.pointIDs[p] = it.id
	}
	e.created = append(e.created, it)
	return it
}

func (e *env) asItem(p orb.Pointer) (*item, error) { return e.rec(p) }

func (e *env) counts(items []*item, keep func(*item) bool) []int32 {
	cnt := make([]int32, len(e.created))
	for _, it := range items {
		if keep == nil || keep(it) {
			cnt[it.id]++
		}
	}
	return cnt
}

func (e *env) inside(p orb.Point) bool {
	return e.b.Min[0] <= p[0] && p[0] <= e.b.Max[0] && e.b.Min[1] <= p[1] && p[1] <= e.b.Max[1]
}

// contents is the tree's own account of what it holds: InBound over the tree bound.
func (e *env) contents() ([]*item, error) {
	got := e.q.InBound(nil, e.b)
	out := make([]*item, len(got))
	for i, g := range got {
		it, err := e.asItem(g)
		if err != nil {
			return nil, fmt.Errorf("InBound(tree bound): %v", err)
		}
		out[i] = it
	}
	return out, nil
}

// checkContents: InBound(tree bound) is a permutation of the model multiset.
func (e *env) checkContents(after fmt.Stringer) error {
	items, err := e.contents()
	if err != nil {
		return fmt.Errorf("after %s: %v", after, err)
	}
	cnt := e.counts(e.stored, nil)
	for _, it := range items {
		cnt[it.id]--
		if cnt[it.id] < 0 {
			return fmt.Errorf("after %s: tree holds %v more often than it was added and not removed (model has %d pointers, tree %d)", after, it, len(e.stored), len(items))
		}
	}
	for id, c := range cnt {
		if c != 0 {
			return fmt.Errorf("after %s: tree lost %v (model has %d pointers, tree %d)", after, e.created[id], len(e.stored), len(items))
		}
	}
	return nil
}

// checkStructure (optional, walker) looks at the node graph itself: it should
// hold exactly the model multiset and every value should lie in the closed cell
// of its node. The walker never decides on its own (it depends on the child
// layout and on the midline formula, which are not part of the property): a
// value it finds outside its cell is handed to the black-box probe the property
// does imply — the bound query over the degenerate box at that point and Find at
// that point — and only a wrong answer there is a violation. Everything else the
// walker sees is reported as an informational class.
func (e *env) checkStructure(after fmt.Stringer) error {
	if !e.w.ok {
		return nil
	}
	nodes := e.w.walk(e.q, e.b)
	cnt := e.counts(e.stored, nil)
	empty := 0
	for _, n := range nodes {
		if n.val == nil {
			empty++
			continue
		}
		it, err := e.asItem(n.val)
		if err != nil {
			e.bump("structure:node graph holds a foreign value (informational)")
			continue
		}
		cnt[it.id]--
		if !inCell(it.p, n) {
			box := orb.Bound{Min: it.p, Max: it.p}
			if err := e.checkInBound(box, "", nil); err != nil {
				return fmt.Errorf("after %s: %v sits in a depth-%d node whose cell is x[%v,%v] y[%v,%v], and %v", after, it, n.depth, n.left, n.right, n.bottom, n.top, err)
			}
			if err := e.checkFind(it.p, ""); err != nil {
				return fmt.Errorf("after %s: %v sits in a depth-%d node whose cell is x[%v,%v] y[%v,%v], and %v", after, it, n.depth, n.left, n.right, n.bottom, n.top, err)
			}
			e.bump("structure:value outside the walker's cell but found by the queries (informational)")
		}
	}
	for _, c := range cnt {
		if c != 0 {
			e.bump("structure:node graph differs from the model although InBound agrees (informational)")
			break
		}
	}
	if empty > e.removals {
		e.bump("structure:more empty nodes than removals (informational)")
	}
	return nil
}

// checkPointBoxes is the black-box form of the cell invariant: for every stored
// point the degenerate box at that point returns exactly the pointers stored
// there, and Find at that point returns one of them.
func (e *env) checkPointBoxes(after fmt.Stringer) error {
	probe := func(p orb.Point) error {
		if err := e.checkInBound(orb.Bound{Min: p, Max: p}, "", nil); err != nil {
			return fmt.Errorf("after %s: %v", after, err)
		}
		if err := e.checkFind(p, ""); err != nil {
			return fmt.Errorf("after %s: %v", after, err)
		}
		return nil
	}
	if n := len(e.stored); n > 2000 {
		// large trees (size ladder): an evenly strided sample, each probe is O(n) in the model
		samples := 32
		if n > 10000 {
			samples = 6
		}
		for i := 0; i < samples; i++ {
			if err := probe(e.stored[(i*n)/samples].p); err != nil {
				return err
			}
		}
		return probe(e.stored[n-1].p)
	}
	seen := map[orb.Point]bool{}
	for _, m := range e.stored {
		if seen[m.p] {
			continue
		}
		seen[m.p] = true
		if err := probe(m.p); err != nil {
			return err
		}
	}
	return nil
}

// ---------------------------------------------------------------- queries

// lazy is a description rendered only when an error message needs it.
type lazy func() string

func (l lazy) String() string { return l() }

type str string

func (s str) String() string { return string(s) }

func (e *env) checkFind(qp orb.Point, f string) error {
	var got orb.Pointer
	name := "Find"
	if f == "" {
		got = e.q.Find(qp)
	} else {
		name = "Matching[" + f + "]"
		got = e.q.Matching(qp, e.filt(f))
	}
	if err := e.takeReErr(); err != nil {
		return fmt.Errorf("%s(%v): %v", name, qp, err)
	}
	best, any := math.Inf(1), false
	for _, m := range e.stored {
		if !accepts(f, m) {
			continue
		}
		any = true
		if d := e.d2(m.p, qp); d < best {
			best = d
		}
	}
	if !any {
		if got != nil {
			return fmt.Errorf("%s(%v) = %v, want nil: no stored pointer is accepted (%d stored)", name, qp, got, len(e.stored))
		}
		e.bump("out:find nil")
		return nil
	}
	if got == nil {
		return fmt.Errorf("%s(%v) = nil, but %d pointers are stored and the nearest accepted one is at squared distance %v", name, qp, len(e.stored), best)
	}
	it, err := e.asItem(got)
	if err != nil {
		return fmt.Errorf("%s(%v): %v", name, qp, err)
	}
	if e.counts(e.stored, nil)[it.id] == 0 {
		return fmt.Errorf("%s(%v) = %v, which is not stored (removed or never added)", name, qp, it)
	}
	if !accepts(f, it) {
		return fmt.Errorf("%s(%v) = %v, which the filter rejects", name, qp, it)
	}
	d := e.d2(it.p, qp)
	if e.exact && d != best || !e.exact && d > best*(1+relTol) {
		return fmt.Errorf("%s(%v) = %v at squared distance %v, but the minimum over the %d stored pointers is %v", name, qp, it, d, len(e.stored), best)
	}
	e.bump("out:find hit")
	return nil
}

func (e *env) checkKNearest(qp orb.Point, k int, f string, hasMax bool, maxD float64, buf []orb.Pointer) error {
	// class L4: the limit is a caller-owned slice. In spread mode it is a window
	// (len 1, cap 2) of a longer backing array that is compared bit for bit after
	// the call, and the untouched slice is then used for a second identical call.
	spread := e.spreadNext && hasMax
	e.spreadNext = false
	var md []float64
	if hasMax {
		if spread {
			e.limBack = [4]float64{7.5, maxD, -3.25, 1e300}
			md = e.limBack[1:2:3]
		} else {
			md = []float64{maxD}
		}
	}
	limSnap := e.limBack
	// SOUNDNESS: nothing in C11's statement promises that arguments are left alone,
	// so a write into the caller's limit slice is only noted ("layout-note:"); it
	// becomes a failure when it shows through a wrong RESULT: the second call
	// below passes the very same, caller-untouched slice, and its answer is judged
	// against the limit the caller wrote into it (the only value the caller ever
	// put there).
	limitNote := func() {
		if !hasMax {
			return
		}
		if math.Float64bits(md[0]) != math.Float64bits(maxD) {
			e.bump("layout-note:knn changed the caller's maxDistance element")
		}
		if spread {
			for i := range limSnap {
				if i != 1 && math.Float64bits(limSnap[i]) != math.Float64bits(e.limBack[i]) {
					e.bump("layout-note:knn wrote into the backing array around the caller's maxDistance slice")
				}
			}
		}
	}
	var res []orb.Pointer
	name := lazy(func() string {
		if f == "" {
			return fmt.Sprintf("KNearest(%v, k=%d, max=%v, buffer cap %d)", qp, k, md, cap(buf))
		}
		return fmt.Sprintf("KNearestMatching[%s](%v, k=%d, max=%v, buffer cap %d)", f, qp, k, md, cap(buf))
	})
	if f == "" {
		res = e.q.KNearest(buf, qp, k, md...)
	} else {
		res = e.q.KNearestMatching(buf, qp, k, e.filt(f), md...)
	}
	if err := e.takeReErr(); err != nil {
		return fmt.Errorf("%s: %v", name, err)
	}
	limitNote()
	lim := maxD * maxD
	var ds []float64
	for _, m := range e.stored {
		if !accepts(f, m) {
			continue
		}
		d := e.d2(m.p, qp)
		if hasMax {
			if e.exact {
				if !(d < lim) {
					if d == lim {
						e.bump("out:knn pointer exactly at the limit (must be excluded)")
					}
					continue
				}
			} else {
				if d >= lim*(1+relTol) {
					continue
				}
				if d >= lim*(1-relTol) {
					e.bump("out:knn float limit ambiguous (query skipped)")
					return nil
				}
			}
		}
		ds = append(ds, d)
	}
	sort.Float64s(ds)
	want := k
	if want < 0 {
		want = 0
	}
	if want > len(ds) {
		want = len(ds)
	}
	if len(res) != want {
		return fmt.Errorf("%s returned %d pointers, want %d (%d stored, %d accepted within the limit)", name, len(res), want, len(e.stored), len(ds))
	}
	if want > 0 && want < len(ds) && ds[want-1] == ds[want] {
		e.bump("out:knn tie at the cut")
	}
	cnt := e.counts(e.stored, nil)
	prev := math.Inf(-1)
	for i, r := range res {
		it, err := e.asItem(r)
		if err != nil {
			return fmt.Errorf("%s: result %d: %v", name, i, err)
		}
		cnt[it.id]--
		if cnt[it.id] < 0 {
			return fmt.Errorf("%s: result %d = %v is returned more often than it is stored", name, i, it)
		}
		if !accepts(f, it) {
			return fmt.Errorf("%s: result %d = %v is rejected by the filter", name, i, it)
		}
		d := e.d2(it.p, qp)
		if hasMax && (e.exact && !(d < lim) || !e.exact && !(d < lim*(1+relTol))) {
			return fmt.Errorf("%s: result %d = %v at squared distance %v is not strictly within the limit (squared %v)", name, i, it, d, lim)
		}
		if e.exact && d < prev || !e.exact && d < prev*(1-relTol) {
			return fmt.Errorf("%s: results not sorted nearest first: result %d at squared distance %v after %v", name, i, d, prev)
		}
		if !e.same(d, ds[i]) {
			return fmt.Errorf("%s: result %d = %v at squared distance %v, but the %d-th smallest squared distance of the accepted stored pointers is %v", name, i, it, d, i+1, ds[i])
		}
		prev = d
	}
	if spread {
		// the same, untouched argument slice again: the answer must be the same
		first := make([]*item, len(res))
		for i, r := range res {
			first[i], _ = e.rec(r)
		}
		var res2 []orb.Pointer
		if f == "" {
			res2 = e.q.KNearest(nil, qp, k, md...)
		} else {
			res2 = e.q.KNearestMatching(nil, qp, k, e.filt(f), md...)
		}
		if err := e.takeReErr(); err != nil {
			return fmt.Errorf("%s: %v", name, err)
		}
		limitNote()
		if len(res2) != len(res) {
			return fmt.Errorf("%s: a second call with the same caller-owned limit slice (never touched by the caller, who wrote %v into it; it now holds %v) returned %d pointers, the first call, which agrees with the model, %d", name, maxD, md[0], len(res2), len(res))
		}
		for i, r := range res2 {
			if it, err := e.rec(r); err != nil || it != first[i] {
				return fmt.Errorf("%s: a second call with the same caller-owned limit slice (the caller wrote %v into it; it now holds %v) returned %v at rank %d, the first call, which agrees with the model, %v", name, maxD, md[0], r, i, first[i])
			}
		}
		e.bump("out:knn limit spread from a caller-owned slice, called twice")
	}
	switch {
	case k == 0:
		e.bump("out:knn k=0")
	case want == 0:
		e.bump("out:knn empty result")
	case want < k:
		e.bump("out:knn fewer than k available")
	default:
		e.bump("out:knn k results")
	}
	return nil
}

func (e *env) checkInBound(box orb.Bound, f string, buf []orb.Pointer) error {
	var res []orb.Pointer
	name := lazy(func() string {
		if f == "" {
			return fmt.Sprintf("InBound(%v..%v, buffer cap %d)", box.Min, box.Max, cap(buf))
		}
		return fmt.Sprintf("InBoundMatching[%s](%v..%v, buffer cap %d)", f, box.Min, box.Max, cap(buf))
	})
	if f == "" {
		res = e.q.InBound(buf, box)
	} else {
		res = e.q.InBoundMatching(buf, box, e.filt(f))
	}
	if err := e.takeReErr(); err != nil {
		return fmt.Errorf("%s: %v", name, err)
	}
	edge := false
	in := func(m *item) bool {
		if !accepts(f, m) {
			return false
		}
		p := m.p
		ok := box.Min[0] <= p[0] && p[0] <= box.Max[0] && box.Min[1] <= p[1] && p[1] <= box.Max[1]
		if ok && (p[0] == box.Min[0] || p[0] == box.Max[0] || p[1] == box.Min[1] || p[1] == box.Max[1]) {
			edge = true
		}
		return ok
	}
	cnt := e.counts(e.stored, in)
	for i, r := range res {
		it, err := e.asItem(r)
		if err != nil {
			return fmt.Errorf("%s: result %d: %v", name, i, err)
		}
		cnt[it.id]--
		if cnt[it.id] < 0 {
			return fmt.Errorf("%s: result %d = %v is not among the stored accepted pointers inside the closed box (or is returned too often)", name, i, it)
		}
	}
	for id, c := range cnt {
		if c != 0 {
			return fmt.Errorf("%s: %v is stored, accepted and inside the closed box but was not returned (%d returned)", name, e.created[id], len(res))
		}
	}
	if edge {
		e.bump("out:inbound pointer on the box edge")
	}
	if len(res) == 0 {
		e.bump("out:inbound empty")
	} else {
		e.bump("out:inbound non-empty")
	}
	return nil
}

func (e *env) buffer(n int) []orb.Pointer {
	if n <= 0 {
		return nil
	}
	buf := make([]orb.Pointer, n-1)
	for i := range buf {
		buf[i] = e.junk
	}
	return buf
}

// ---------------------------------------------------------------- mutations

func (e *env) add(op Op) error {
	var it *item
	if op.Tgt == "again" && len(e.created) > 0 {
		it = e.created[op.Sel%len(e.created)]
		e.bump("out:add same pointer again")
	} else {
		it = e.newItem(op.P.Pt(), op.Ty)
	}
	err := e.q.Add(it.carrier)
	if e.inside(it.p) {
		if err != nil {
			return fmt.Errorf("Add(%v) inside the bound %v..%v returned %v", it, e.b.Min, e.b.Max, err)
		}
		e.stored = append(e.stored, it)
		e.everAdded = true
		if it.p[0] == e.b.Min[0] || it.p[0] == e.b.Max[0] || it.p[1] == e.b.Min[1] || it.p[1] == e.b.Max[1] {
			e.bump("out:add on the tree bound")
		} else {
			e.bump("out:add inside")
		}
	} else {
		if !errors.Is(err, quadtree.ErrPointOutsideOfBounds) {
			return fmt.Errorf("Add(%v) outside the bound %v..%v returned %v, want ErrPointOutsideOfBounds", it, e.b.Min, e.b.Max, err)
		}
		e.bump("out:add outside rejected")
	}
	return e.checkContents(lazy(func() string { return fmt.Sprintf("Add(%v)", it) }))
}

func (e *env) remove(op Op) error {
	pt := op.P.Pt()
	if op.Hit && len(e.stored) > 0 {
		pt = e.stored[op.Sel%len(e.stored)].p
	}
	var arg orb.Pointer
	var eq quadtree.FilterFunc
	var match func(*item) bool
	desc := ""
	identity := func(it *item) {
		arg = it.carrier
		// identity through the model record, never through == on interface values
		eq = func(p orb.Pointer) bool { return e.mustRec(p) == it }
		match = func(m *item) bool { return m == it }
		desc = fmt.Sprintf("Remove(%v, identity)", it)
	}
	tgt := op.Tgt
	if tgt == "filter" && e.filt(op.F) == nil {
		tgt = "point" // a nil filter means "match by point"
	}
	if tgt == "stored" && len(e.stored) == 0 {
		tgt = "created"
	}
	if tgt == "created" && len(e.created) == 0 {
		tgt = "fresh"
	}
	switch tgt {
	case "stored":
		identity(e.stored[op.Sel%len(e.stored)])
	case "created":
		identity(e.created[op.Sel%len(e.created)])
	case "fresh":
		identity(e.newItem(pt, op.Ty))
	case "ptrpoint":
		// a probe that is not stored, of any dynamic type (possibly the same uncomparable type as stored ones)
		kind := op.Ty
		if kind < 0 || kind >= nKinds {
			kind = kPtr
		}
		arg = makeCarrier(&item{id: -1, p: pt, kind: kind}, kind, nil)
		match = func(m *item) bool { return m.p == pt }
		desc = fmt.Sprintf("Remove(new %s at %v, nil)", kindNames[kind], pt)
	case "filter":
		arg = pt
		eq = e.filt(op.F)
		match = func(m *item) bool { return accepts(op.F, m) }
		desc = fmt.Sprintf("Remove(%v, filter %s)", pt, op.F)
	default: // "point"
		arg = pt
		match = func(m *item) bool { return m.p == pt }
		desc = fmt.Sprintf("Remove(%v, nil)", pt)
	}
	want := false
	for _, m := range e.stored {
		if match(m) {
			want = true
			break
		}
	}
	if !e.everAdded {
		e.bump("out:remove before any add")
	}
	// where do the stored pointers sit (walker only; used to classify the removal)
	var interior map[*item]bool
	var depth0 *item
	if e.w.ok && want {
		interior = map[*item]bool{}
		for _, n := range e.w.walk(e.q, e.b) {
			if it, err := e.rec(n.val); err == nil {
				if n.hasChildren {
					interior[it] = true
				}
				if n.depth == 0 {
					depth0 = it
				}
			}
		}
	}
	got := e.q.Remove(arg, eq)
	if err := e.takeReErr(); err != nil {
		return fmt.Errorf("%s: %v", desc, err)
	}
	if got != want {
		return fmt.Errorf("%s returned %v, but a matching stored pointer %s (%d stored)", desc, got, map[bool]string{true: "exists", false: "does not exist"}[want], len(e.stored))
	}
	if !got {
		e.bump("out:remove false")
		return e.checkContents(str(desc + " = false"))
	}
	items, err := e.contents()
	if err != nil {
		return fmt.Errorf("after %s: %v", desc, err)
	}
	cnt := e.counts(e.stored, nil)
	for _, it := range items {
		cnt[it.id]--
		if cnt[it.id] < 0 {
			return fmt.Errorf("after %s = true: tree holds %v more often than before", desc, it)
		}
	}
	var gone *item
	missing := 0
	for id, c := range cnt {
		if c > 0 {
			missing += int(c)
			gone = e.created[id]
		}
	}
	if missing != 1 {
		return fmt.Errorf("%s = true removed %d pointers, want exactly one (%d stored before, %d after)", desc, missing, len(e.stored), len(items))
	}
	if !match(gone) {
		return fmt.Errorf("%s = true removed %v, which does not match", desc, gone)
	}
	for i, m := range e.stored {
		if m == gone {
			e.stored = append(e.stored[:i:i], e.stored[i+1:]...)
			break
		}
	}
	e.removals++
	e.anyRemoved = true
	e.bump("out:remove true")
	if interior != nil {
		switch {
		case interior[gone]:
			e.interiorRemoved = true
			if gone == depth0 {
				e.bump("out:remove of the root value with children (pull-up)")
			} else {
				e.bump("out:remove of an interior value (pull-up)")
			}
		default:
			e.bump("out:remove of a leaf value")
		}
	}
	return nil
}

// ---------------------------------------------------------------- one step

func (e *env) step(i int, op Op) error {
	if e.interiorRemoved || (!e.w.ok && e.anyRemoved) {
		if op.K != "rm" && op.K != "addnil" && op.K != "noise" {
			e.nontrivial = true
		}
	}
	qp := op.P.Pt()
	if op.Hit && len(e.stored) > 0 {
		qp = e.stored[op.Sel%len(e.stored)].p
	}
	mutating := false
	var err error
	switch op.K {
	case "add":
		mutating = true
		err = e.add(op)
	case "addnil":
		mutating = true
		_ = e.q.Add(nil) // the returned value is not specified by the property; the contents must not change
		err = e.checkContents(str("Add(nil)"))
	case "rm":
		mutating = true
		err = e.remove(op)
	case "bulk":
		mutating = true
		err = e.bulk(op)
	case "noise":
		e.noise(op.Sel)
		e.bump("out:noise burst")
	case "find":
		err = e.checkFind(qp, op.F)
	case "knn":
		k := op.N
		if op.NRel {
			k = len(e.stored) + op.N
		}
		if k < 0 {
			k = 0
		}
		hasMax, maxD := false, 0.0
		switch op.MaxK {
		case "abs":
			hasMax, maxD = true, float64(op.Max)
		case "hit":
			hasMax, maxD = true, float64(op.Max)
			if n := len(e.stored); n > 0 {
				dd := e.d2(e.stored[op.Sel2%n].p, qp)
				if d := math.Sqrt(dd); d*d == dd && dyadic(d) {
					maxD = d
				}
			}
		}
		e.spreadNext = op.Spread
		err = e.checkKNearest(qp, k, op.F, hasMax, maxD, e.buffer(op.Buf))
	case "inb":
		var box orb.Bound
		switch op.Tgt {
		case "tree":
			box = e.b
		case "pointbox":
			box = orb.Bound{Min: qp, Max: qp}
		default:
			a, b := qp, op.P2.Pt()
			box = orb.Bound{
				Min: orb.Point{math.Min(a[0], b[0]), math.Min(a[1], b[1])},
				Max: orb.Point{math.Max(a[0], b[0]), math.Max(a[1], b[1])},
			}
		}
		err = e.checkInBound(box, op.F, e.buffer(op.Buf))
	default:
		return fmt.Errorf("harness: unknown op kind %q", op.K)
	}
	if err != nil {
		return fmt.Errorf("step %d: %v", i, err)
	}
	if !mutating && len(e.stored) > 2000 && i%8 != 0 {
		return nil // size ladder: the O(n) re-listing after a pure query only every 8th step
	}
	if !mutating {
		// a query must not change the contents either
		if err := e.checkContents(lazy(func() string { return fmt.Sprintf("step %d (%s)", i, op.K) })); err != nil {
			return err
		}
		return nil
	}
	after := lazy(func() string { return fmt.Sprintf("step %d (%s)", i, op.K) })
	if err := e.checkStructure(after); err != nil {
		return err
	}
	if len(e.stored) <= 24 || i%16 == 0 {
		if err := e.checkPointBoxes(after); err != nil {
			return err
		}
	}
	return nil
}

// ---------------------------------------------------------------- battery

// battery runs every query kind over a grid of parameters derived from the case.
func (e *env) battery() error {
	var pts []orb.Point
	seen := map[orb.Point]bool{}
	for _, it := range e.created {
		if !seen[it.p] {
			seen[it.p] = true
			pts = append(pts, it.p)
		}
	}
	w, h := e.b.Max[0]-e.b.Min[0], e.b.Max[1]-e.b.Min[1]
	qps := append([]orb.Point{}, pts...)
	qps = append(qps,
		orb.Point{(e.b.Min[0] + e.b.Max[0]) / 2, (e.b.Min[1] + e.b.Max[1]) / 2},
		e.b.Min,
		orb.Point{e.b.Max[0] + w/8, e.b.Max[1] + h/4},
	)
	if len(pts) >= 2 {
		qps = append(qps, orb.Point{(pts[0][0] + pts[1][0]) / 2, (pts[0][1] + pts[1][1]) / 2})
	}
	n := len(e.stored)
	e.noise(n + 7*len(e.created))
	for qi, qp := range qps {
		if err := e.checkKNearest(qp, n, "reeven", false, 0, nil); err != nil {
			return err
		}
		for _, f := range []string{"", "nil", "even", "odd", "none", "reodd"} {
			if err := e.checkFind(qp, f); err != nil {
				return err
			}
		}
		// limits: none, 0, every exactly representable distance to a created point, large
		type lim struct {
			has bool
			d   float64
		}
		lims := []lim{{false, 0}, {true, 0}, {true, 4 * (w + h)}}
		for _, p := range pts {
			dd := e.d2(p, qp)
			if d := math.Sqrt(dd); d > 0 && d*d == dd && dyadic(d) {
				lims = append(lims, lim{true, d})
			}
		}
		for k := 0; k <= n+2; k++ {
			for li, l := range lims {
				for fi, f := range []string{"", "even", "odd"} {
					if fi == 2 && (k+li)%2 == 0 {
						continue
					}
					bufN := 0
					switch (k + li + fi + qi) % 3 {
					case 1:
						bufN = k + 1
					case 2:
						bufN = n + 4
					}
					e.spreadNext = (k+li+fi)%4 == 0
					if err := e.checkKNearest(qp, k, f, l.has, l.d, e.buffer(bufN)); err != nil {
						return err
					}
				}
			}
		}
	}
	boxes := []orb.Bound{e.b, {Min: orb.Point{e.b.Max[0] + w/8, e.b.Min[1]}, Max: orb.Point{e.b.Max[0] + w, e.b.Max[1]}}}
	for i, p := range pts {
		boxes = append(boxes, orb.Bound{Min: p, Max: p})
		boxes = append(boxes, orb.Bound{Min: e.b.Min, Max: p}, orb.Bound{Min: p, Max: e.b.Max})
		for _, r := range pts[i+1:] {
			boxes = append(boxes, orb.Bound{
				Min: orb.Point{math.Min(p[0], r[0]), math.Min(p[1], r[1])},
				Max: orb.Point{math.Max(p[0], r[0]), math.Max(p[1], r[1])},
			})
		}
		// boxes that stop just short of the point on either side
		boxes = append(boxes, orb.Bound{Min: e.b.Min, Max: orb.Point{p[0] - w/2048, e.b.Max[1]}}, orb.Bound{Min: orb.Point{e.b.Min[0], p[1] + h/2048}, Max: e.b.Max})
	}
	for bi, box := range boxes {
		for fi, f := range []string{"", "nil", "odd", "none", "reeven"} {
			bufN := 0
			if (bi+fi)%2 == 1 {
				bufN = 1 + (bi % (n + 2))
			}
			if err := e.checkInBound(box, f, e.buffer(bufN)); err != nil {
				return err
			}
		}
	}
	return e.checkPointBoxes(str("battery"))
}

// ---------------------------------------------------------------- the oracle

var theWalker = newWalker()

func newEnv(c Case) *env {
	e := &env{
		b:     c.Bound.Bound(),
		exact: exactCase(c),
		junk:  &item{id: -2},
		w:     theWalker,
		cls:   map[string]int64{},

		pointIDs:  map[orb.Point]int{},
		refPoints: map[orb.Point]*orb.Point{},
	}
	e.q = quadtree.New(e.b)
	for i, p := range c.Pre {
		kind := kPtr
		if i < len(c.PreTy) {
			kind = c.PreTy[i]
		}
		e.newItem(p.Pt(), kind)
	}
	return e
}

// replay runs the whole history (and the battery, if asked) on e.
func (e *env) replay(c Case) error {
	var err error
	for i, op := range c.Ops {
		if err = e.step(i, op); err != nil {
			break
		}
	}
	if err == nil && c.Battery {
		if e.interiorRemoved || (!e.w.ok && e.anyRemoved) {
			e.nontrivial = true
		}
		if err = e.battery(); err != nil {
			err = fmt.Errorf("battery after %d steps: %v", len(c.Ops), err)
		}
	}
	if err == nil {
		// final sweep whatever the size
		if err = e.checkPointBoxes(str("the last step")); err == nil {
			err = e.checkStructure(str("the last step"))
		}
	}
	return err
}

// runCase replays the history on a fresh tree next to the list model.
func runCase(c Case) (info, error) {
	e := newEnv(c)
	err := e.replay(c)
	return info{nontrivial: e.nontrivial, cls: e.cls}, err
}

// reader is a read-only view of a built environment for one goroutine: it shares
// the tree and the model (neither is written by queries) and has its own
// counters, callback state and buffers.
func (e *env) reader() *env {
	r := *e
	r.cls = map[string]int64{}
	r.inner, r.innerItems, r.reErr, r.other = nil, nil, nil, nil
	return &r
}

// readOnly runs query steps only (no contents re-listing that would allocate per
// step beyond the query itself is needed: the model is fixed).
func (e *env) readOnly(ops []Op) error {
	for i, op := range ops {
		switch op.K {
		case "find", "knn", "inb":
			if err := e.step(i, op); err != nil {
				return err
			}
		}
	}
	return nil
}

func checkCase(c Case) error {
	_, err := runCase(c)
	return err
}

// ---------------------------------------------------------------- noise (class D)

// noise issues a burst of unchecked calls with legal but unusual arguments on
// the tree under test (queries only — its contents must not change) and builds,
// queries and prunes a sibling tree with another bound. A hidden cache keyed on
// "the last bound / the last query / the last tree" would be poisoned by them;
// the checked calls that follow must still agree with the model.
func (e *env) noise(seed int) {
	x := uint64(seed)*0x9e3779b97f4a7c15 + 0x1234567
	next := func() uint64 {
		x ^= x << 13
		x ^= x >> 7
		x ^= x << 17
		return x
	}
	w, h := e.b.Max[0]-e.b.Min[0], e.b.Max[1]-e.b.Min[1]
	frac := func() float64 { return float64(next()%2049)/1024 - 0.5 } // -0.5 .. 1.5
	pt := func() orb.Point { return orb.Point{e.b.Min[0] + w*frac(), e.b.Min[1] + h*frac()} }
	if e.other == nil {
		e.other = quadtree.New(orb.Bound{Min: orb.Point{e.b.Min[0] - 3 - w, e.b.Min[1] - 7}, Max: orb.Point{e.b.Max[0] + 11, e.b.Max[1] + 2 + h/3}})
	}
	ob := e.other.Bound()
	opt := func() orb.Point {
		return orb.Point{ob.Min[0] + (ob.Max[0]-ob.Min[0])*float64(next()%1025)/1024, ob.Min[1] + (ob.Max[1]-ob.Min[1])*float64(next()%1025)/1024}
	}
	buf := make([]orb.Pointer, 3, 7)
	for i := 0; i < 6; i++ {
		switch next() % 12 {
		case 0: // inverted box
			a, b := pt(), pt()
			e.q.InBound(nil, orb.Bound{Min: orb.Point{math.Max(a[0], b[0]) + 1, math.Max(a[1], b[1]) + 1}, Max: orb.Point{math.Min(a[0], b[0]), math.Min(a[1], b[1])}})
		case 1: // huge box, rejecting filter, caller buffer with stale contents
			e.q.InBoundMatching(buf, orb.Bound{Min: orb.Point{-1e300, -1e300}, Max: orb.Point{1e300, 1e300}}, func(orb.Pointer) bool { return false })
		case 2:
			e.q.KNearest(nil, pt(), 50+int(next()%50))
		case 3:
			e.q.KNearest(buf, pt(), 3, 0)
			e.q.KNearest(nil, pt(), 2, -1.5)
		case 4:
			e.q.Matching(pt(), func(orb.Pointer) bool { return true })
			e.q.Matching(pt(), func(orb.Pointer) bool { return false })
		case 5:
			_ = e.q.Bound()
			e.q.Find(orb.Point{e.b.Min[0] - 1e6*(1+w), e.b.Max[1] + 1e9})
		case 6, 7:
			_ = e.other.Add(&item{id: -3, p: opt()})
		case 8:
			e.other.Remove(opt(), nil)
			e.other.Remove(opt(), func(orb.Pointer) bool { return next()%2 == 0 })
		case 9:
			e.other.KNearest(nil, opt(), 4)
			e.other.InBound(buf, ob)
			e.other.Find(pt())
		case 10:
			_ = e.q.Add(nil)
			quadtree.New(orb.Bound{Min: pt(), Max: pt()}).Find(pt())
		case 11: // degenerate boxes on the tree's own edges and corners
			e.q.InBound(nil, orb.Bound{Min: e.b.Min, Max: e.b.Min})
			e.q.InBound(buf, orb.Bound{Min: orb.Point{e.b.Max[0], e.b.Min[1]}, Max: e.b.Max})
		}
	}
}

// ---------------------------------------------------------------- bulk loading (class L1)

// bulkPoint is point i of n of a structured pattern inside the bound (the
// patterns assume the ladder bound [0,1024]^2; coordinates are multiples of 1/2,
// so the whole case stays in the exact class, except "chain").
func bulkPoint(pattern string, i, n int, seed uint64, at orb.Point, b orb.Bound) orb.Point {
	w, h := b.Max[0]-b.Min[0], b.Max[1]-b.Min[1]
	switch pattern {
	case "coincident": // one point n times: a chain of depth n
		return at
	case "twins": // n/2 distinct lattice points, each twice
		i /= 2
		fallthrough
	case "grid": // row-major lattice, side = ceil(sqrt(n)) <= 1024 + 1
		side := 1
		for side*side < n {
			side++
		}
		if side > 2049 {
			side = 2049
		}
		return orb.Point{b.Min[0] + w*float64(i%side)/2048, b.Min[1] + h*float64((i/side)%2049)/2048}
	case "chain": // halving distances towards the min corner, then repeating: deep one-sided descent with distinct points
		j := i % 1000
		return orb.Point{b.Min[0] + math.Ldexp(w, -j), b.Min[1] + math.Ldexp(h, -j)}
	case "diagonal": // all on the main diagonal (midline crossings at every level)
		return orb.Point{b.Min[0] + w*float64(i%2049)/2048, b.Min[1] + h*float64(i%2049)/2048}
	}
	// "scatter": a fixed pseudo-random sequence on the half-unit lattice
	x := seed + uint64(i)*0x9e3779b97f4a7c15
	x ^= x >> 29
	x *= 0xbf58476d1ce4e5b9
	x ^= x >> 32
	return orb.Point{b.Min[0] + w*float64(x%2049)/2048, b.Min[1] + h*float64((x>>20)%2049)/2048}
}

// bulk adds op.N pointers of pattern op.Tgt (carrier kind op.Ty, or rotating
// through all kinds when op.Ty < 0) without the per-step sweeps, then checks the
// contents once: O(n) in the model.
func (e *env) bulk(op Op) error {
	n := op.N
	seed := uint64(op.Sel)
	for i := 0; i < n; i++ {
		kind := op.Ty
		if kind < 0 {
			kind = i % nKinds
		}
		it := e.newItem(bulkPoint(op.Tgt, i, n, seed, op.P.Pt(), e.b), kind)
		if err := e.q.Add(it.carrier); err != nil {
			return fmt.Errorf("bulk %s: Add(%v) (pointer %d of %d) returned %v", op.Tgt, it, i, n, err)
		}
		e.stored = append(e.stored, it)
	}
	if n > 0 {
		e.everAdded = true
	}
	e.bump("out:bulk load")
	return e.checkContents(lazy(func() string { return fmt.Sprintf("bulk load of %d pointers (%s)", n, op.Tgt) }))
}
