// Package c11 decides property C11 (quadtree == plain list of its contents)
// by replaying generated and enumerated histories of operations on a fresh
// quadtree next to a slice model and comparing every answer.
package c11

import (
	"encoding/json"
	"fmt"
	"strings"
	"testing"

	"github.com/paulmach/orb"
	"pgregory.net/rapid"

	"verifharness/internal/gen"
	"verifharness/internal/stats"
)

func TestMain(m *testing.M) { stats.Main(m, "C11") }

// ---------------------------------------------------------------- generators

// frame is the generated tree bound plus the way coordinates are drawn in it.
type frame struct {
	min, max orb.Point
	float    bool // non-dyadic coordinates
	name     string
}

func (f frame) w(axis int) float64 { return f.max[axis] - f.min[axis] }

func genFrame(t *rapid.T) frame {
	kind := rapid.SampledFrom([]string{"unit8", "unit8", "shifted", "shifted", "fine", "fine", "nonsquare", "degenerate", "float", "float"}).Draw(t, "frame")
	origins := []float64{0, 0, -4, -8, 3, -1000, 500.5}
	sizes := []float64{8, 16, 4, 2, 1, 0.5}
	f := frame{name: kind}
	switch kind {
	case "unit8":
		f.min, f.max = orb.Point{0, 0}, orb.Point{8, 8}
	case "shifted", "nonsquare", "degenerate", "fine":
		ox := rapid.SampledFrom(origins).Draw(t, "ox")
		oy := rapid.SampledFrom(origins).Draw(t, "oy")
		w := rapid.SampledFrom(sizes).Draw(t, "w")
		if kind == "fine" {
			w = rapid.SampledFrom([]float64{1, 0.5}).Draw(t, "wf")
		}
		h := w
		if kind == "nonsquare" {
			h = rapid.SampledFrom(sizes).Draw(t, "h")
		}
		if kind == "degenerate" {
			switch rapid.IntRange(0, 2).Draw(t, "deg") {
			case 0:
				w = 0
			case 1:
				h = 0
			default:
				w, h = 0, 0
			}
		}
		f.min, f.max = orb.Point{ox, oy}, orb.Point{ox + w, oy + h}
	case "float":
		f.float = true
		x := rapid.Float64Range(-1000, 1000).Draw(t, "x0")
		y := rapid.Float64Range(-1000, 1000).Draw(t, "y0")
		w := rapid.Float64Range(1e-3, 1000).Draw(t, "w")
		h := rapid.Float64Range(1e-3, 1000).Draw(t, "h")
		f.min, f.max = orb.Point{x, y}, orb.Point{x + w, y + h}
	}
	return f
}

// coordinate inside the closed bound on one axis
func (f frame) in(t *rapid.T, axis int) float64 {
	lo, hi := f.min[axis], f.max[axis]
	if f.float {
		switch rapid.IntRange(0, 5).Draw(t, "fk") {
		case 0:
			// a midline as the tree computes it, up to three levels down
			l, r := lo, hi
			c := (l + r) / 2.0
			for lvl := rapid.IntRange(0, 2).Draw(t, "lvl"); lvl > 0; lvl-- {
				if rapid.Bool().Draw(t, "side") {
					l = c
				} else {
					r = c
				}
				c = (l + r) / 2.0
			}
			return c
		case 1:
			return rapid.SampledFrom([]float64{lo, hi}).Draw(t, "edge")
		}
		return rapid.Float64Range(lo, hi).Draw(t, "c")
	}
	den := rapid.SampledFrom([]int{2, 2, 4, 4, 8, 8, 16, 1024}).Draw(t, "den")
	i := rapid.IntRange(0, den).Draw(t, "i")
	return lo + (hi-lo)*float64(i)/float64(den)
}

// coordinate strictly outside the bound on one axis
func (f frame) out(t *rapid.T, axis int) float64 {
	lo, hi := f.min[axis], f.max[axis]
	s := hi - lo
	if f.float {
		d := s * rapid.Float64Range(0.001, 3).Draw(t, "od")
		if rapid.Bool().Draw(t, "oside") {
			return hi + d
		}
		return lo - d
	}
	if s == 0 {
		s = 1
	}
	k := rapid.SampledFrom([]float64{-1, -0.125, 1.125, 2, -3}).Draw(t, "ok")
	return lo + s*k
}

func (f frame) inPoint(t *rapid.T) orb.Point { return orb.Point{f.in(t, 0), f.in(t, 1)} }

func (f frame) outPoint(t *rapid.T) orb.Point {
	switch rapid.IntRange(0, 2).Draw(t, "oax") {
	case 0:
		return orb.Point{f.out(t, 0), f.in(t, 1)}
	case 1:
		return orb.Point{f.in(t, 0), f.out(t, 1)}
	}
	return orb.Point{f.out(t, 0), f.out(t, 1)}
}

func (f frame) anyPoint(t *rapid.T) orb.Point {
	if rapid.IntRange(0, 4).Draw(t, "anyout") == 0 {
		return f.outPoint(t)
	}
	return f.inPoint(t)
}

var filters = []string{"", "", "nil", "even", "odd", "none", "all"}

// weights of add / remove / query per profile
var profiles = map[string][3]int{
	"grow":  {6, 1, 3},
	"churn": {3, 3, 4},
	"drain": {2, 5, 3},
	"query": {3, 1, 6},
}

func genOp(t *rapid.T, f frame, prof [3]int) Op {
	r := rapid.IntRange(0, prof[0]+prof[1]+prof[2]-1).Draw(t, "kind")
	op := Op{}
	sel := func(label string) int { return rapid.IntRange(0, 1<<16).Draw(t, label) }
	switch {
	case r < prof[0]:
		op.K = "add"
		switch rapid.IntRange(0, 19).Draw(t, "addk") {
		case 0:
			op.K = "addnil"
		case 1, 2:
			op.P = gen.FromPt(f.outPoint(t))
		case 3:
			op.Tgt, op.Sel = "again", sel("sel")
			op.P = gen.FromPt(f.inPoint(t))
		default:
			op.P = gen.FromPt(f.inPoint(t))
		}
	case r < prof[0]+prof[1]:
		op.K = "rm"
		op.Tgt = rapid.SampledFrom([]string{"stored", "stored", "stored", "created", "created", "fresh", "point", "point", "point", "ptrpoint", "filter"}).Draw(t, "tgt")
		op.Sel = sel("sel")
		op.P = gen.FromPt(f.anyPoint(t))
		switch op.Tgt {
		case "point", "ptrpoint":
			op.Hit = rapid.IntRange(0, 3).Draw(t, "hit") != 0
		case "filter":
			op.F = rapid.SampledFrom([]string{"even", "odd", "none", "all"}).Draw(t, "f")
		}
	default:
		op.K = rapid.SampledFrom([]string{"find", "knn", "knn", "inb", "inb"}).Draw(t, "q")
		op.P = gen.FromPt(f.anyPoint(t))
		op.F = rapid.SampledFrom(filters).Draw(t, "f")
		op.Sel = sel("sel")
		op.Hit = rapid.IntRange(0, 5).Draw(t, "hit") == 0
		switch op.K {
		case "knn":
			if rapid.Bool().Draw(t, "nrel") {
				op.NRel, op.N = true, rapid.IntRange(-2, 2).Draw(t, "dn")
			} else {
				op.N = rapid.IntRange(0, 8).Draw(t, "k")
			}
			op.MaxK = rapid.SampledFrom([]string{"", "", "abs", "abs", "hit"}).Draw(t, "maxk")
			if op.MaxK != "" {
				s := f.w(0) + f.w(1)
				switch mk := rapid.IntRange(0, 3).Draw(t, "mk"); {
				case mk == 0:
					op.Max = 0
				case mk == 1:
					op.Max = gen.F(4*s + 4)
				case f.float:
					op.Max = gen.F(rapid.Float64Range(0, s).Draw(t, "maxd"))
				default:
					// a lattice length along x (axis-parallel neighbours sit exactly at this distance)
					den := rapid.SampledFrom([]int{2, 4, 8, 16}).Draw(t, "mden")
					op.Max = gen.F(f.w(0) * float64(rapid.IntRange(0, den).Draw(t, "mi")) / float64(den))
					if f.w(0) == 0 {
						op.Max = gen.F(f.w(1) * float64(rapid.IntRange(0, den).Draw(t, "mj")) / float64(den))
					}
				}
				op.Sel2 = sel("sel2")
			}
			if rapid.Bool().Draw(t, "buf") {
				op.Buf = rapid.IntRange(1, 12).Draw(t, "bufn")
			}
		case "inb":
			switch rapid.IntRange(0, 9).Draw(t, "boxk") {
			case 0:
				op.Tgt = "tree"
			case 1, 2:
				op.Tgt = "pointbox"
			case 3:
				// disjoint from the tree
				op.Hit = false
				op.P = gen.FromPt(orb.Point{f.out(t, 0), f.in(t, 1)})
				op.P2 = gen.P{op.P[0], gen.F(f.in(t, 1))}
			case 4:
				// covers the tree
				op.Hit = false
				op.P = gen.FromPt(orb.Point{f.min[0] - 1, f.min[1] - 1})
				op.P2 = gen.FromPt(orb.Point{f.max[0] + 1, f.max[1] + 1})
			default:
				op.P2 = gen.FromPt(f.anyPoint(t))
			}
			if rapid.Bool().Draw(t, "buf") {
				op.Buf = rapid.IntRange(1, 12).Draw(t, "bufn")
			}
		}
	}
	return op
}

func genCase(t *rapid.T) (Case, frame, string, string) {
	f := genFrame(t)
	profName := rapid.SampledFrom([]string{"grow", "churn", "churn", "drain", "query"}).Draw(t, "profile")
	prof := profiles[profName]
	lenClass := rapid.SampledFrom([]string{"short", "short", "short", "medium", "medium", "medium", "medium", "long"}).Draw(t, "len")
	lo, hi := 0, 12
	switch lenClass {
	case "medium":
		lo, hi = 12, 120
	case "long":
		lo, hi = 120, 500
	}
	ops := rapid.SliceOfN(rapid.Custom(func(t *rapid.T) Op { return genOp(t, f, prof) }), lo, hi).Draw(t, "ops")
	return Case{Bound: gen.B{Min: gen.FromPt(f.min), Max: gen.FromPt(f.max)}, Ops: ops}, f, profName, lenClass
}

func flushClasses(in info) {
	for k, v := range in.cls {
		stats.ClassN(k, v)
	}
}

// TestPropHistories: random histories of 0..500 operations.
func TestPropHistories(t *testing.T) {
	stats.Assume("coordinates are finite; dyadic classes: multiples of 2^-11 with |v| <= 2^11 (all distance arithmetic exact, equality demanded); float class: |v| <= 5000, reference metric planar.DistanceSquared, minima and ranks compared within 1e-9 relative")
	stats.Assume("k of k-nearest is in 0..n+2 (or 0..8); the distance limit, when given, is >= 0")
	stats.Assume("stored values are non-nil *item pointers; Add(nil) may return anything but must not change the contents; filters are pure functions of the pointer")
	stats.Assume("bound queries use boxes with min <= max on both axes (degenerate boxes included)")
	if theWalker.ok {
		stats.Note("walker", "available: structural sub-check (value inside its node's cell, node graph == model) active")
	} else {
		stats.Note("walker", "unavailable ("+theWalker.why+"): black-box model comparison only; non-trivial falls back to 'remove followed by add/query'")
	}
	stats.Check(t, 24000, 1000000, func(rt *rapid.T) {
		c, f, prof, lenClass := genCase(rt)
		stats.Class("frame:" + f.name)
		stats.Class("profile:" + prof)
		stats.Class("length:" + lenClass)
		if exactCase(c) {
			stats.Class("arithmetic:exact")
		} else {
			stats.Class("arithmetic:float (1e-9 relative)")
		}
		var kinds [6]int64
		for _, op := range c.Ops {
			switch op.K {
			case "add":
				kinds[0]++
			case "addnil":
				kinds[1]++
			case "rm":
				kinds[2]++
			case "find":
				kinds[3]++
			case "knn":
				kinds[4]++
			case "inb":
				kinds[5]++
			}
		}
		for i, n := range []string{"op:add", "op:addnil", "op:rm", "op:find/matching", "op:knearest", "op:inbound"} {
			stats.ClassN(n, kinds[i])
		}
		var in info
		stats.Try(rt, "TestPropHistories", c, func() error {
			var err error
			in, err = runCase(c)
			return err
		})
		flushClasses(in)
		if in.nontrivial {
			stats.Class("nontrivial:pull-up then add/query")
			stats.NonTrivial(gen.JSON(c))
			if stats.WantSample("random-" + lenClass) {
				stats.Sample("random-"+lenClass, c)
			}
		}
	})
}

// ---------------------------------------------------------------- enumeration

type alphabet struct {
	name    string
	bound   orb.Bound
	a, b, c orb.Point
}

var alphabets = []alphabet{
	// a is the root value on both root midlines; b, c, a' go down the same quadrant chain
	{"chain", orb.Bound{Min: orb.Point{0, 0}, Max: orb.Point{8, 8}}, orb.Point{4, 4}, orb.Point{6, 2}, orb.Point{8, 0}},
	// three different quadrants
	{"spread", orb.Bound{Min: orb.Point{0, 0}, Max: orb.Point{8, 8}}, orb.Point{1, 7}, orb.Point{7, 7}, orb.Point{1, 1}},
	// sub-unit distances, points on midlines of a unit tree
	{"unit", orb.Bound{Min: orb.Point{0, 0}, Max: orb.Point{1, 1}}, orb.Point{0.5, 0.5}, orb.Point{0.5, 0.25}, orb.Point{0.75, 0.5}},
}

const nActions = 7

var actionNames = []string{"add a", "add b", "add c", "add a'", "rm a (identity)", "rm at a (point)", "rm c (identity)"}

// enumCase builds the history with the given action codes. Pointers a, b, c, a'
// are fixed (ids 0..3; a' shares a's point), so "add a" twice stores the same
// pointer twice.
func enumCase(al alphabet, codes []int) Case {
	c := Case{
		Bound:   gen.FromBound(al.bound),
		Pre:     []gen.P{gen.FromPt(al.a), gen.FromPt(al.b), gen.FromPt(al.c), gen.FromPt(al.a)},
		Battery: true,
	}
	for _, code := range codes {
		switch code {
		case 0, 1, 2, 3:
			c.Ops = append(c.Ops, Op{K: "add", Tgt: "again", Sel: code})
		case 4:
			c.Ops = append(c.Ops, Op{K: "rm", Tgt: "created", Sel: 0, P: gen.FromPt(al.a)})
		case 5:
			c.Ops = append(c.Ops, Op{K: "rm", Tgt: "point", P: gen.FromPt(al.a)})
		case 6:
			c.Ops = append(c.Ops, Op{K: "rm", Tgt: "created", Sel: 2, P: gen.FromPt(al.c)})
		}
	}
	return c
}

// TestEnumHistories: every history of length <= 5 (thorough: 6) over the seven
// actions, for three point alphabets, with the full query battery at the end
// (every prefix is itself an enumerated history, so the battery runs after every step).
func TestEnumHistories(t *testing.T) {
	maxL := 5
	if stats.Thorough() {
		maxL = 6
	}
	var idx, size int64
	for _, al := range alphabets {
		for L := 0; L <= maxL; L++ {
			total := 1
			for i := 0; i < L; i++ {
				total *= nActions
			}
			codes := make([]int, L)
			for h := 0; h < total; h++ {
				idx++
				size++
				if !stats.Mine(idx) {
					continue
				}
				x := h
				for i := 0; i < L; i++ {
					codes[i] = x % nActions
					x /= nActions
				}
				c := enumCase(al, codes)
				stats.Eval("TestEnumHistories", 1)
				stats.Class("enum:alphabet " + al.name)
				var in info
				stats.TryT(t, "TestEnumHistories", c, func() error {
					var err error
					in, err = runCase(c)
					return err
				})
				flushClasses(in)
				if in.nontrivial {
					stats.Class("nontrivial:pull-up then add/query")
					stats.NonTrivial(fmt.Sprintf("enum %s %v", al.name, codes))
					if L >= 4 && stats.WantSample("enum-"+al.name) {
						names := make([]string, L)
						for i, cd := range codes {
							names[i] = actionNames[cd]
						}
						stats.Sample("enum-"+al.name, map[string]interface{}{"alphabet": al.name, "a": al.a, "b": al.b, "c": al.c, "history": strings.Join(names, "; ")})
					}
				}
			}
		}
	}
	stats.Subspace(fmt.Sprintf("all histories of length 0..%d over {add a, add b, add c, add a', rm a by identity, rm at a by point, rm c by identity} x 3 alphabets (chain, spread, unit), full query battery after the last step", maxL), size, true)
}

// TestEnumRegressions runs the formerly failing inputs of known_findings.json
// (both "fixed") as plain cases: they are in the domain and must pass.
func TestEnumRegressions(t *testing.T) {
	b := gen.B{Min: gen.P{0, 0}, Max: gen.P{8, 8}}
	cases := []Case{
		// quadtree-remove-empty-tree: Remove on a never-populated tree
		{Bound: b, Ops: []Op{{K: "rm", Tgt: "point", P: gen.P{1, 1}}}},
		{Bound: b, Ops: []Op{{K: "rm", Tgt: "fresh", P: gen.P{1, 1}}, {K: "rm", Tgt: "ptrpoint", P: gen.P{9, 9}}, {K: "rm", Tgt: "filter", F: "all", P: gen.P{4, 4}}}},
		// quadtree-knearest-k0: k = 0 on a populated tree, with and without limit / buffer / filter
		{Bound: b, Ops: []Op{{K: "add", P: gen.P{1, 1}}, {K: "knn", P: gen.P{2, 2}, N: 0}, {K: "knn", P: gen.P{2, 2}, N: 0, MaxK: "abs", Max: 5, Buf: 3, F: "even"}}},
		// k = 0 on an empty and on an emptied tree
		{Bound: b, Ops: []Op{{K: "knn", P: gen.P{2, 2}, N: 0}, {K: "add", P: gen.P{1, 1}}, {K: "rm", Tgt: "stored"}, {K: "knn", P: gen.P{2, 2}, N: 0}, {K: "knn", P: gen.P{2, 2}, N: 3}}},
	}
	for i, c := range cases {
		if !stats.Mine(int64(i)) {
			continue
		}
		stats.Eval("TestEnumRegressions", 1)
		stats.TryT(t, "TestEnumRegressions", c, func() error { return checkCase(c) })
	}
	stats.Subspace("formerly failing inputs (remove on a never-populated tree, k-nearest with k = 0)", int64(len(cases)), true)
}

// TestSelfWalker reports (never fails the property) whether the structural walker is usable.
func TestSelfWalker(t *testing.T) {
	if !theWalker.ok {
		t.Logf("walker unavailable: %s", theWalker.why)
	}
}

func TestReplay(t *testing.T) {
	_, raw, ok := stats.Replaying()
	if !ok {
		t.Skip("no replay file")
	}
	var c Case
	if err := json.Unmarshal(raw, &c); err != nil {
		t.Fatal(err)
	}
	if err := stats.Guard(func() error { return checkCase(c) }); err != nil {
		t.Fatalf("replayed case still fails: %v", err)
	}
}
