// Package c11 decides property C11 (quadtree == plain list of its contents)
// by replaying generated and enumerated histories of operations on a fresh
// quadtree next to a slice model and comparing every answer.
package c11

import (
	"encoding/json"
	"fmt"
	"math"
	"strings"
	"sync"
	"testing"

	"github.com/paulmach/orb"
	"pgregory.net/rapid"

	"verifharness/internal/gen"
	"verifharness/internal/stats"
)

func TestMain(m *testing.M) { stats.Main(m, "C11") }

// ---------------------------------------------------------------- generators

// frame is the generated tree bound plus the way coordinates are drawn in it.
type frame struct {
	min, max orb.Point
	float    bool // non-dyadic coordinates
	name     string
	types    string // palette of pointer kinds used by the history
}

// palettes of concrete Pointer types (class L2)
var palettes = map[string][]int{
	"*struct only": {kPtr},
	"mixed":        {kPtr, kVal, kUnc, kSlice, kPoint, kZst, kValPtr, kFunc, kMap, kRef},
	"uncomparable": {kUnc, kSlice, kFunc, kMap},
	"values":       {kVal, kPoint, kRef, kUnc, kRef},
}

func (f frame) w(axis int) float64 { return f.max[axis] - f.min[axis] }

func genFrame(t *rapid.T) frame {
	kind := rapid.SampledFrom([]string{"unit8", "decimal", "shifted", "float", "fine", "decimal", "nonsquare", "shifted", "unit8", "degenerate", "fine", "float", "inverted"}).Draw(t, "frame")
	origins := []float64{0, 0, -4, -8, 3, -1000, 500.5}
	sizes := []float64{8, 16, 4, 2, 1, 0.5}
	f := frame{name: kind}
	switch kind {
	case "unit8":
		f.min, f.max = orb.Point{0, 0}, orb.Point{8, 8}
	case "shifted", "nonsquare", "degenerate", "fine":
		ox := rapid.SampledFrom(origins).Draw(t, "ox")
		oy := rapid.SampledFrom(origins).Draw(t, "oy")
		w := rapid.SampledFrom(sizes).Draw(t, "w")
		if kind == "fine" {
			w = rapid.SampledFrom([]float64{1, 0.5}).Draw(t, "wf")
		}
		h := w
		if kind == "nonsquare" {
			h = rapid.SampledFrom(sizes).Draw(t, "h")
		}
		if kind == "degenerate" {
			switch rapid.IntRange(0, 2).Draw(t, "deg") {
			case 0:
				w = 0
			case 1:
				h = 0
			default:
				w, h = 0, 0
			}
		}
		f.min, f.max = orb.Point{ox, oy}, orb.Point{ox + w, oy + h}
	case "inverted":
		// an empty tree bound (min > max on one or both axes): every point is outside,
		// every Add must be rejected and every query answers "nothing"
		f.min, f.max = orb.Point{0, 0}, orb.Point{8, 8}
		switch rapid.IntRange(0, 2).Draw(t, "inv") {
		case 0:
			f.min[0], f.max[0] = 8, 0
		case 1:
			f.min[1], f.max[1] = 4, -4
		default:
			f.min, f.max = orb.Point{1, 1}, orb.Point{-1, -1} // orb's own "empty bound" sentinel
		}
	case "decimal":
		// non-dyadic decimal / third / seventh edges at several scales and offsets: the
		// midline formulas (lo+hi)/2, lo+(hi-lo)/2, lo/2+hi/2 round differently here
		f.float = true
		for axis := 0; axis < 2; axis++ {
			den := rapid.SampledFrom([]float64{10, 3, 10, 7}).Draw(t, "den")
			scale := rapid.SampledFrom([]float64{1, 1, 10, 100, 1e-3, 1e3, 0.01}).Draw(t, "scale")
			off := rapid.SampledFrom([]float64{0, 0, 1, -5, 1000, -0.5}).Draw(t, "off")
			k1 := rapid.IntRange(-12, 11).Draw(t, "k1")
			k2 := k1 + rapid.IntRange(1, 12).Draw(t, "dk")
			f.min[axis] = off + scale*float64(k1)/den
			f.max[axis] = off + scale*float64(k2)/den
		}
	case "float":
		f.float = true
		x := rapid.Float64Range(-1000, 1000).Draw(t, "x0")
		y := rapid.Float64Range(-1000, 1000).Draw(t, "y0")
		w := rapid.Float64Range(1e-3, 1000).Draw(t, "w")
		h := rapid.Float64Range(1e-3, 1000).Draw(t, "h")
		f.min, f.max = orb.Point{x, y}, orb.Point{x + w, y + h}
	}
	return f
}

// coordinate inside the closed bound on one axis
func (f frame) in(t *rapid.T, axis int) float64 {
	lo, hi := f.min[axis], f.max[axis]
	if f.float {
		switch rapid.IntRange(0, 5).Draw(t, "fk") {
		case 0, 1, 2:
			return splitCoord(t, lo, hi)
		case 3:
			return rapid.SampledFrom([]float64{lo, hi}).Draw(t, "edge")
		}
		return rapid.Float64Range(lo, hi).Draw(t, "c")
	}
	den := rapid.SampledFrom([]int{2, 2, 4, 4, 8, 8, 16, 1024}).Draw(t, "den")
	i := rapid.IntRange(0, den).Draw(t, "i")
	v := lo + (hi-lo)*float64(i)/float64(den)
	if v == 0 && rapid.IntRange(0, 2).Draw(t, "negzero") == 0 {
		v = math.Copysign(0, -1) // -0 on an edge or midline at 0: equal to +0 for every comparison the property makes
	}
	return v
}

// mid computes the centre of [lo, hi] by one of the plausible formulas.
func mid(formula int, lo, hi float64) float64 {
	switch formula {
	case 1:
		return lo + (hi-lo)/2.0
	case 2:
		return lo/2.0 + hi/2.0
	case 3:
		return hi - (hi-lo)/2.0
	}
	return (lo + hi) / 2.0
}

const nFormulas = 4

// splitCoord returns a value the library may itself compute as a split value
// inside [lo, hi]: the centre of a cell 0..5 levels down (cells and centre
// computed with any of the formulas, independently per level), or a neighbour
// of it one ulp away. Always inside [lo, hi].
func splitCoord(t *rapid.T, lo, hi float64) float64 {
	l, r := lo, hi
	depth := rapid.IntRange(1, 6).Draw(t, "sdepth")
	c := mid(rapid.IntRange(0, nFormulas-1).Draw(t, "sf"), l, r)
	for d := 1; d < depth; d++ {
		if rapid.Bool().Draw(t, "sside") {
			l = c
		} else {
			r = c
		}
		c = mid(rapid.IntRange(0, nFormulas-1).Draw(t, "sf"), l, r)
	}
	switch rapid.IntRange(0, 4).Draw(t, "sulp") {
	case 3:
		c = math.Nextafter(c, math.Inf(-1))
	case 4:
		c = math.Nextafter(c, math.Inf(1))
	}
	return math.Min(hi, math.Max(lo, c))
}

// coordinate strictly outside the bound on one axis
func (f frame) out(t *rapid.T, axis int) float64 {
	lo, hi := f.min[axis], f.max[axis]
	s := hi - lo
	if f.float {
		d := s * rapid.Float64Range(0.001, 3).Draw(t, "od")
		if rapid.Bool().Draw(t, "oside") {
			return hi + d
		}
		return lo - d
	}
	if s == 0 {
		s = 1
	}
	k := rapid.SampledFrom([]float64{-1, -0.125, 1.125, 2, -3}).Draw(t, "ok")
	return lo + s*k
}

func (f frame) inPoint(t *rapid.T) orb.Point { return orb.Point{f.in(t, 0), f.in(t, 1)} }

func (f frame) outPoint(t *rapid.T) orb.Point {
	switch rapid.IntRange(0, 2).Draw(t, "oax") {
	case 0:
		return orb.Point{f.out(t, 0), f.in(t, 1)}
	case 1:
		return orb.Point{f.in(t, 0), f.out(t, 1)}
	}
	return orb.Point{f.out(t, 0), f.out(t, 1)}
}

func (f frame) anyPoint(t *rapid.T) orb.Point {
	if rapid.IntRange(0, 4).Draw(t, "anyout") == 0 {
		return f.outPoint(t)
	}
	return f.inPoint(t)
}

var filters = []string{"", "", "nil", "even", "odd", "none", "all", "reeven", "reodd"}

// weights of add / remove / query per profile
var profiles = map[string][3]int{
	"grow":  {6, 1, 3},
	"churn": {3, 3, 4},
	"drain": {2, 5, 3},
	"query": {3, 1, 6},
}

func genOp(t *rapid.T, f frame, prof [3]int, pal []int) Op {
	ty := func() int { return pal[rapid.IntRange(0, len(pal)-1).Draw(t, "ty")] }
	r := rapid.IntRange(0, prof[0]+prof[1]+prof[2]-1).Draw(t, "kind")
	op := Op{}
	sel := func(label string) int { return rapid.IntRange(0, 1<<16).Draw(t, label) }
	switch {
	case r < prof[0]:
		op.K = "add"
		switch rapid.IntRange(0, 19).Draw(t, "addk") {
		case 0:
			op.K = "addnil"
		case 1, 2:
			op.P = gen.FromPt(f.outPoint(t))
		case 3:
			op.Tgt, op.Sel = "again", sel("sel")
			op.P = gen.FromPt(f.inPoint(t))
		default:
			op.P = gen.FromPt(f.inPoint(t))
		}
		if op.K == "add" && op.Tgt == "" {
			op.Ty = ty()
		}
	case r < prof[0]+prof[1]:
		op.K = "rm"
		op.Tgt = rapid.SampledFrom([]string{"stored", "stored", "stored", "created", "created", "fresh", "point", "point", "point", "ptrpoint", "filter"}).Draw(t, "tgt")
		op.Sel = sel("sel")
		op.P = gen.FromPt(f.anyPoint(t))
		switch op.Tgt {
		case "fresh":
			op.Ty = ty()
		case "point", "ptrpoint":
			op.Ty = ty()
			op.Hit = rapid.IntRange(0, 3).Draw(t, "hit") != 0
		case "filter":
			op.F = rapid.SampledFrom([]string{"even", "odd", "none", "all", "rmreeven"}).Draw(t, "f")
		}
	default:
		op.K = rapid.SampledFrom([]string{"find", "knn", "knn", "inb", "inb", "noise"}).Draw(t, "q")
		if op.K == "noise" {
			op.Sel = rapid.IntRange(0, 1<<16).Draw(t, "sel")
			return op
		}
		op.P = gen.FromPt(f.anyPoint(t))
		op.F = rapid.SampledFrom(filters).Draw(t, "f")
		op.Sel = sel("sel")
		op.Hit = rapid.IntRange(0, 5).Draw(t, "hit") == 0
		switch op.K {
		case "knn":
			if rapid.Bool().Draw(t, "nrel") {
				op.NRel, op.N = true, rapid.IntRange(-2, 2).Draw(t, "dn")
			} else {
				op.N = rapid.IntRange(0, 8).Draw(t, "k")
			}
			op.MaxK = rapid.SampledFrom([]string{"", "", "abs", "abs", "hit"}).Draw(t, "maxk")
			if op.MaxK != "" {
				s := math.Abs(f.w(0)) + math.Abs(f.w(1))
				switch mk := rapid.IntRange(0, 3).Draw(t, "mk"); {
				case mk == 0:
					op.Max = 0
				case mk == 1:
					op.Max = gen.F(4*s + 4)
				case f.float:
					op.Max = gen.F(rapid.Float64Range(0, s).Draw(t, "maxd"))
				default:
					// a lattice length along x (axis-parallel neighbours sit exactly at this distance)
					den := rapid.SampledFrom([]int{2, 4, 8, 16}).Draw(t, "mden")
					op.Max = gen.F(math.Abs(f.w(0)) * float64(rapid.IntRange(0, den).Draw(t, "mi")) / float64(den))
					if f.w(0) == 0 {
						op.Max = gen.F(math.Abs(f.w(1)) * float64(rapid.IntRange(0, den).Draw(t, "mj")) / float64(den))
					}
				}
				op.Sel2 = sel("sel2")
				op.Spread = rapid.Bool().Draw(t, "spread")
			}
			if rapid.Bool().Draw(t, "buf") {
				op.Buf = rapid.IntRange(1, 12).Draw(t, "bufn")
			}
		case "inb":
			switch rapid.IntRange(0, 9).Draw(t, "boxk") {
			case 0:
				op.Tgt = "tree"
			case 1, 2:
				op.Tgt = "pointbox"
			case 3:
				// disjoint from the tree
				op.Hit = false
				op.P = gen.FromPt(orb.Point{f.out(t, 0), f.in(t, 1)})
				op.P2 = gen.P{op.P[0], gen.F(f.in(t, 1))}
			case 4:
				// covers the tree
				op.Hit = false
				op.P = gen.FromPt(orb.Point{f.min[0] - 1, f.min[1] - 1})
				op.P2 = gen.FromPt(orb.Point{f.max[0] + 1, f.max[1] + 1})
			default:
				op.P2 = gen.FromPt(f.anyPoint(t))
			}
			if rapid.Bool().Draw(t, "buf") {
				op.Buf = rapid.IntRange(1, 12).Draw(t, "bufn")
			}
		}
	}
	return op
}

// drawCase is the generator of the main property; large=true keeps to the
// medium and long histories (used where calls must last long enough to overlap).
func drawCase(t *rapid.T, large bool) (Case, frame, string, string) {
	f := genFrame(t)
	profName := rapid.SampledFrom([]string{"grow", "churn", "churn", "drain", "query"}).Draw(t, "profile")
	prof := profiles[profName]
	lenClass := rapid.SampledFrom([]string{"short", "short", "short", "medium", "medium", "medium", "medium", "long"}).Draw(t, "len")
	if large && lenClass == "short" {
		lenClass = "medium"
	}
	lo, hi := 0, 12
	switch lenClass {
	case "medium":
		lo, hi = 12, 120
	case "long":
		lo, hi = 120, 500
	}
	palName := rapid.SampledFrom([]string{"*struct only", "mixed", "uncomparable", "mixed", "values", "single kind"}).Draw(t, "types")
	pal := palettes[palName]
	if palName == "single kind" {
		pal = []int{rapid.IntRange(0, nKinds-1).Draw(t, "kind1")}
	}
	f.types = palName
	ops := rapid.SliceOfN(rapid.Custom(func(t *rapid.T) Op { return genOp(t, f, prof, pal) }), lo, hi).Draw(t, "ops")
	return Case{Bound: gen.B{Min: gen.FromPt(f.min), Max: gen.FromPt(f.max)}, Ops: ops}, f, profName, lenClass
}

func flushClasses(in info) {
	for k, v := range in.cls {
		stats.ClassN(k, v)
	}
}

// TestPropHistories: random histories of 0..500 operations.
func TestPropHistories(t *testing.T) {
	stats.Assume("coordinates are finite; dyadic classes: multiples of 2^-11 with |v| <= 2^11 (all distance arithmetic exact, equality demanded); float classes (random and decimal/third/seventh edges): |v| <= 1e5, reference metric the harness's own float64 dx*dx+dy*dy (no library distance function on the oracle side), minima and ranks compared within 1e-9 relative")
	stats.Assume("k of k-nearest is in 0..n+2 (or 0..8); the distance limit, when given, is >= 0")
	stats.Assume("stored values are non-nil *item pointers; Add(nil) may return anything but must not change the contents; filters are pure functions of the pointer")
	stats.Assume("bound queries use boxes with min <= max on both axes (degenerate boxes included)")
	if theWalker.ok {
		stats.Note("walker", "available: structural sub-check (value inside its node's cell, node graph == model) active")
	} else {
		stats.Note("walker", "unavailable ("+theWalker.why+"): black-box model comparison only; non-trivial falls back to 'remove followed by add/query'")
	}
	stats.Check(t, 10000, 600000, func(rt *rapid.T) {
		c, f, prof, lenClass := drawCase(rt, false)
		stats.Class("frame:" + f.name)
		stats.Class("pointer types:" + f.types)
		stats.Class("profile:" + prof)
		stats.Class("length:" + lenClass)
		if exactCase(c) {
			stats.Class("arithmetic:exact")
		} else {
			stats.Class("arithmetic:float (1e-9 relative)")
		}
		var kinds [7]int64
		for _, op := range c.Ops {
			switch op.K {
			case "add":
				kinds[0]++
			case "addnil":
				kinds[1]++
			case "rm":
				kinds[2]++
			case "find":
				kinds[3]++
			case "knn":
				kinds[4]++
			case "inb":
				kinds[5]++
			case "noise":
				kinds[6]++
			}
		}
		for i, n := range []string{"op:add", "op:addnil", "op:rm", "op:find/matching", "op:knearest", "op:inbound", "op:noise burst"} {
			stats.ClassN(n, kinds[i])
		}
		var in info
		stats.Try(rt, "TestPropHistories", c, func() error {
			var err error
			in, err = runCase(c)
			return err
		})
		flushClasses(in)
		if in.nontrivial {
			stats.Class("nontrivial:pull-up then add/query")
			stats.NonTrivial(gen.JSON(c))
			if stats.WantSample("random-" + lenClass) {
				stats.Sample("random-"+lenClass, c)
			}
		}
	})
}

// ---------------------------------------------------------------- class A: concurrency

// TestPropConcurrent: 2..8 INDEPENDENT histories, each building and querying its
// own tree next to its own model, evaluated at the same time on separate
// goroutines. Every one of them must still agree with its model: a disagreement
// means the package keeps state outside the tree (scratch heap, search box or
// cache in a package-level variable).
func TestPropConcurrent(t *testing.T) {
	stats.Check(t, 600, 25000, func(rt *rapid.T) {
		n := rapid.IntRange(2, 8).Draw(rt, "goroutines")
		cs := make([]Case, n)
		for i := range cs {
			cs[i], _, _, _ = drawCase(rt, true)
		}
		stats.Class(fmt.Sprintf("concurrent:%d independent trees", n))
		var mu sync.Mutex
		nt := map[int]bool{}
		stats.TryParallel(rt, "TestPropConcurrent", cs, n, 5, func(i int) error {
			in, err := runCase(cs[i])
			if in.nontrivial {
				mu.Lock()
				nt[i] = true
				mu.Unlock()
			}
			return err
		})
		if len(nt) >= 2 {
			stats.NonTrivial("conc:" + gen.JSON(cs))
			if stats.WantSample("concurrent-independent") {
				stats.Sample("concurrent-independent", cs)
			}
		}
	})
}

// Shared is a tree built (and checked) by a history, then queried read-only by
// several goroutines at once, each comparing every answer with the model.
type Shared struct {
	Base    Case   `json:"base"`
	Readers [][]Op `json:"readers"`
}

func opsDyadic(ops []Op) bool {
	for _, o := range ops {
		if !dyadicP(o.P) || !dyadicP(o.P2) || !dyadic(float64(o.Max)) {
			return false
		}
	}
	return true
}

// checkShared: sequential replay of the base history with the full oracle, then
// the readers in parallel (rounds times each) on the same tree.
func checkShared(sc Shared, rounds int) (bool, error) {
	e := newEnv(sc.Base)
	for _, r := range sc.Readers {
		e.exact = e.exact && opsDyadic(r)
	}
	if err := e.replay(sc.Base); err != nil {
		return e.nontrivial, fmt.Errorf("while building the shared tree (single goroutine): %v", err)
	}
	err := stats.ParallelErr(len(sc.Readers), rounds, func(i int) error {
		return e.reader().readOnly(sc.Readers[i])
	})
	if err != nil {
		return e.nontrivial, err
	}
	// and the tree is what it was
	if err := e.checkContents(str("the concurrent readers")); err != nil {
		return e.nontrivial, err
	}
	return e.nontrivial, e.checkPointBoxes(str("the concurrent readers"))
}

// TestPropConcurrentReaders: one built tree, 2..8 goroutines issuing checked
// read-only queries (plain, filtered, re-entrant filters, with and without
// caller buffers) at the same time.
func TestPropConcurrentReaders(t *testing.T) {
	stats.Check(t, 1000, 25000, func(rt *rapid.T) {
		base, f, _, _ := drawCase(rt, true)
		n := rapid.IntRange(2, 8).Draw(rt, "goroutines")
		sc := Shared{Base: base, Readers: make([][]Op, n)}
		queryOnly := [3]int{0, 0, 1}
		for i := range sc.Readers {
			sc.Readers[i] = rapid.SliceOfN(rapid.Custom(func(t *rapid.T) Op { return genOp(t, f, queryOnly, []int{kPtr}) }), 10, 60).Draw(rt, "reader")
		}
		stats.Class(fmt.Sprintf("concurrent:%d readers of one tree", n))
		var nontrivial bool
		stats.Try(rt, "TestPropConcurrentReaders", sc, func() error {
			var err error
			nontrivial, err = checkShared(sc, 8)
			return err
		})
		if nontrivial {
			stats.NonTrivial("readers:" + gen.JSON(sc))
			if stats.WantSample("concurrent-readers") && len(base.Ops) < 40 {
				stats.Sample("concurrent-readers", sc)
			}
		}
	})
}

// ---------------------------------------------------------------- split values

// splitBounds are tree bounds whose edges are not dyadic, at several scales and offsets.
var splitBounds = []orb.Bound{
	{Min: orb.Point{0.3, 0.3}, Max: orb.Point{1.1, 1.1}},
	{Min: orb.Point{0.1, 0.1}, Max: orb.Point{0.7, 0.7}},
	{Min: orb.Point{0.1, 0.2}, Max: orb.Point{0.4, 1.3}},
	{Min: orb.Point{-0.7, 0.9}, Max: orb.Point{0.6, 2.3}},
	{Min: orb.Point{1.0 / 3, 2.0 / 3}, Max: orb.Point{5.0 / 3, 7.0 / 3}},
	{Min: orb.Point{-1.0 / 3, -2.0 / 7}, Max: orb.Point{4.0 / 3, 9.0 / 7}},
	{Min: orb.Point{1000.1, -999.7}, Max: orb.Point{1000.9, -999.2}},
	{Min: orb.Point{3e-4, 7e-4}, Max: orb.Point{1.1e-3, 1.9e-3}},
	{Min: orb.Point{130, 270}, Max: orb.Point{1100, 1900.1}},
	{Min: orb.Point{12.3, 45.6}, Max: orb.Point{78.9, 101.2}},
	{Min: orb.Point{-73.98513, 40.74844}, Max: orb.Point{-73.96731, 40.76417}},
	{Min: orb.Point{0.8240753173828125e-7 + 0.1, 2.718281828459045}, Max: orb.Point{3.141592653589793, 31.41592653589793}},
}

// TestEnumSplitValues places points exactly on the values the library may
// compute as cell centres — by each plausible formula, at depth 1..6, and their
// one-ulp neighbours — below an occupied chain of ancestor nodes, and asks for
// them with boxes whose edges are exactly at those coordinates and their
// neighbours, with Find / KNearest / Matching at them and Remove by point.
func TestEnumSplitValues(t *testing.T) {
	var idx, size int64
	maxDepth, paths := 4, 2
	if stats.Thorough() {
		maxDepth, paths = 6, 4
	}
	for bi, b := range splitBounds {
		for depth := 1; depth <= maxDepth; depth++ {
			for path := 0; path < paths; path++ {
				for cellF := 0; cellF < nFormulas; cellF++ {
					for lastF := 0; lastF < nFormulas; lastF++ {
						for ulp := -1; ulp <= 1; ulp++ {
							for axes := 0; axes < 3; axes++ { // 0: x on the split value, 1: y, 2: both
								idx++
								size++
								if !stats.Mine(idx) {
									continue
								}
								c := splitCase(b, depth, path, cellF, lastF, ulp, axes)
								stats.Eval("TestEnumSplitValues", 1)
								stats.Class(fmt.Sprintf("split:depth %d", depth))
								var in info
								stats.TryT(t, "TestEnumSplitValues", c, func() error {
									var err error
									in, err = runCase(c)
									return err
								})
								if bi == 0 && path == 0 && ulp == 0 && axes == 2 && stats.WantSample("split-values") {
									stats.Sample("split-values", c)
								}
								stats.NonTrivial(fmt.Sprintf("split %d %d %d %d %d %d %d", bi, depth, path, cellF, lastF, ulp, axes))
								_ = in
							}
						}
					}
				}
			}
		}
	}
	stats.Subspace(fmt.Sprintf("split values: %d non-dyadic tree bounds x cell depth 1..%d x %d descent paths x %d formulas for the cells x %d formulas for the centre x {-1,0,+1} ulp x {x, y, both} axes; target stored below an occupied ancestor chain, probed by boxes with edges at the value and its neighbours, Find, KNearest, Matching, Remove", len(splitBounds), maxDepth, paths, nFormulas, nFormulas), size, true)
}

// splitCase builds the history for one split-value target.
func splitCase(b orb.Bound, depth, path, cellF, lastF, ulp, axes int) Case {
	c := Case{Bound: gen.FromBound(b)}
	l, r, bo, to := b.Min[0], b.Max[0], b.Min[1], b.Max[1]
	add := func(p orb.Point) {
		// clamp into the tree bound
		p[0] = math.Min(b.Max[0], math.Max(b.Min[0], p[0]))
		p[1] = math.Min(b.Max[1], math.Max(b.Min[1], p[1]))
		c.Ops = append(c.Ops, Op{K: "add", P: gen.FromPt(p)})
	}
	// occupy the chain: one filler well inside each ancestor cell (levels 0..depth-1)
	for d := 0; d < depth; d++ {
		add(orb.Point{l + 0.37*(r-l), bo + 0.41*(to-bo)})
		if d == depth-1 {
			break
		}
		cx, cy := mid(cellF, l, r), mid(cellF, bo, to)
		bit := (path >> uint(d%2)) & 1
		if path >= 2 {
			bit = (path + d) & 1
		}
		// the filler sits at 0.37/0.41 (left/bottom part): descend so that the next cell contains a filler of its own
		if bit == 0 {
			r = cx
		} else {
			l = cx
		}
		if (bit+path/2)&1 == 0 {
			to = cy
		} else {
			bo = cy
		}
	}
	// the target: on the centre of the last chain cell
	tx, ty := l+0.29*(r-l), bo+0.73*(to-bo)
	nudge := func(v float64) float64 {
		switch ulp {
		case -1:
			return math.Nextafter(v, math.Inf(-1))
		case 1:
			return math.Nextafter(v, math.Inf(1))
		}
		return v
	}
	if axes == 0 || axes == 2 {
		tx = nudge(mid(lastF, l, r))
	}
	if axes == 1 || axes == 2 {
		ty = nudge(mid(lastF, bo, to))
	}
	target := orb.Point{math.Min(b.Max[0], math.Max(b.Min[0], tx)), math.Min(b.Max[1], math.Max(b.Min[1], ty))}
	add(target)
	// a second pointer at the same place and one more below it
	add(target)
	add(orb.Point{l + 0.81*(r-l), bo + 0.13*(to-bo)})
	tp := gen.FromPt(target)
	dn := func(v float64) float64 { return math.Nextafter(v, math.Inf(-1)) }
	up := func(v float64) float64 { return math.Nextafter(v, math.Inf(1)) }
	lo, hi := gen.FromPt(b.Min), gen.FromPt(b.Max)
	q := func(op Op) { c.Ops = append(c.Ops, op) }
	for _, ex := range []float64{dn(target[0]), target[0], up(target[0])} {
		for _, ey := range []float64{dn(target[1]), target[1], up(target[1])} {
			e := gen.P{gen.F(ex), gen.F(ey)}
			q(Op{K: "inb", P: lo, P2: e})           // box ending at / next to the value
			q(Op{K: "inb", P: e, P2: hi, F: "nil"}) // box starting at / next to the value
			q(Op{K: "inb", P: e, Tgt: "pointbox", F: "reeven"})
			q(Op{K: "find", P: e})
			q(Op{K: "knn", P: e, N: 2, MaxK: "abs", Max: gen.F(4 * math.Abs(up(target[0])-target[0])), F: "all"})
		}
	}
	q(Op{K: "noise", Sel: depth*131 + path})
	q(Op{K: "find", P: tp, F: "odd"})
	q(Op{K: "knn", P: tp, N: 1, NRel: true, Buf: 2})
	q(Op{K: "rm", Tgt: "point", P: tp})
	q(Op{K: "inb", P: tp, Tgt: "pointbox"})
	q(Op{K: "rm", Tgt: "ptrpoint", P: tp})
	q(Op{K: "rm", Tgt: "point", P: tp}) // now absent: must report false
	q(Op{K: "inb", Tgt: "tree"})
	return c
}

// ---------------------------------------------------------------- enumeration

type alphabet struct {
	name    string
	bound   orb.Bound
	a, b, c orb.Point
	// kinds of the pointers a, b, c, a'; probe: kind of the probe of "rm at a" (-1: an orb.Point value); shorter: enumerate one step less
	kinds   [4]int
	probe   int
	shorter bool
}

var alphabets = []alphabet{
	// a is the root value on both root midlines; b, c, a' go down the same quadrant chain
	{"chain", orb.Bound{Min: orb.Point{0, 0}, Max: orb.Point{8, 8}}, orb.Point{4, 4}, orb.Point{6, 2}, orb.Point{8, 0}, [4]int{}, -1, false},
	// three different quadrants
	{"spread", orb.Bound{Min: orb.Point{0, 0}, Max: orb.Point{8, 8}}, orb.Point{1, 7}, orb.Point{7, 7}, orb.Point{1, 1}, [4]int{}, -1, false},
	// sub-unit distances, points on midlines of a unit tree
	{"unit", orb.Bound{Min: orb.Point{0, 0}, Max: orb.Point{1, 1}}, orb.Point{0.5, 0.5}, orb.Point{0.5, 0.25}, orb.Point{0.75, 0.5}, [4]int{}, -1, false},
	// class L2: a and a' are values of one uncomparable type, b a named slice, c an orb.Point; "rm at a" probes with a third value of a's type
	{"types", orb.Bound{Min: orb.Point{0, 0}, Max: orb.Point{8, 8}}, orb.Point{4, 4}, orb.Point{6, 2}, orb.Point{8, 0}, [4]int{kUnc, kSlice, kPoint, kUnc}, kUnc, true},
	{"types2", orb.Bound{Min: orb.Point{0, 0}, Max: orb.Point{8, 8}}, orb.Point{1, 7}, orb.Point{5, 7}, orb.Point{1, 1}, [4]int{kMap, kZst, kFunc, kRef}, kMap, true},
}

const nActions = 7

var actionNames = []string{"add a", "add b", "add c", "add a'", "rm a (identity)", "rm at a (point)", "rm c (identity)"}

// enumCase builds the history with the given action codes. Pointers a, b, c, a'
// are fixed (ids 0..3; a' shares a's point), so "add a" twice stores the same
// pointer twice.
func enumCase(al alphabet, codes []int) Case {
	c := Case{
		Bound:   gen.FromBound(al.bound),
		Pre:     []gen.P{gen.FromPt(al.a), gen.FromPt(al.b), gen.FromPt(al.c), gen.FromPt(al.a)},
		Battery: true,
	}
	if al.kinds != [4]int{} {
		c.PreTy = al.kinds[:]
	}
	for _, code := range codes {
		switch code {
		case 0, 1, 2, 3:
			c.Ops = append(c.Ops, Op{K: "add", Tgt: "again", Sel: code})
		case 4:
			c.Ops = append(c.Ops, Op{K: "rm", Tgt: "created", Sel: 0, P: gen.FromPt(al.a)})
		case 5:
			if al.probe >= 0 {
				c.Ops = append(c.Ops, Op{K: "rm", Tgt: "ptrpoint", Ty: al.probe, P: gen.FromPt(al.a)})
			} else {
				c.Ops = append(c.Ops, Op{K: "rm", Tgt: "point", P: gen.FromPt(al.a)})
			}
		case 6:
			c.Ops = append(c.Ops, Op{K: "rm", Tgt: "created", Sel: 2, P: gen.FromPt(al.c)})
		}
	}
	return c
}

// TestEnumHistories: every history of length <= 5 (thorough: 6) over the seven
// actions, for three point alphabets, with the full query battery at the end
// (every prefix is itself an enumerated history, so the battery runs after every step).
func TestEnumHistories(t *testing.T) {
	maxL := 5
	if stats.Thorough() {
		maxL = 6
	}
	var idx, size int64
	for _, al := range alphabets {
		for L := 0; L <= maxL; L++ {
			if al.shorter && L == maxL {
				continue
			}
			total := 1
			for i := 0; i < L; i++ {
				total *= nActions
			}
			codes := make([]int, L)
			for h := 0; h < total; h++ {
				idx++
				size++
				if !stats.Mine(idx) {
					continue
				}
				x := h
				for i := 0; i < L; i++ {
					codes[i] = x % nActions
					x /= nActions
				}
				c := enumCase(al, codes)
				stats.Eval("TestEnumHistories", 1)
				stats.Class("enum:alphabet " + al.name)
				var in info
				stats.TryT(t, "TestEnumHistories", c, func() error {
					var err error
					in, err = runCase(c)
					return err
				})
				flushClasses(in)
				if in.nontrivial {
					stats.Class("nontrivial:pull-up then add/query")
					stats.NonTrivial(fmt.Sprintf("enum %s %v", al.name, codes))
					if L >= 4 && stats.WantSample("enum-"+al.name) {
						names := make([]string, L)
						for i, cd := range codes {
							names[i] = actionNames[cd]
						}
						stats.Sample("enum-"+al.name, map[string]interface{}{"alphabet": al.name, "a": al.a, "b": al.b, "c": al.c, "history": strings.Join(names, "; ")})
					}
				}
			}
		}
	}
	stats.Subspace(fmt.Sprintf("all histories of length 0..%d over {add a, add b, add c, add a', rm a by identity, rm at a by point, rm c by identity} x 3 alphabets of *struct pointers (chain, spread, unit) and, one step shorter, 2 alphabets of mixed uncomparable/value/zero-size pointer types (rm at a probing with a value of a's own type), full query battery after the last step", maxL), size, true)
}

// TestEnumRegressions runs the formerly failing inputs of known_findings.json
// (both "fixed") as plain cases: they are in the domain and must pass.
func TestEnumRegressions(t *testing.T) {
	b := gen.B{Min: gen.P{0, 0}, Max: gen.P{8, 8}}
	cases := []Case{
		// quadtree-remove-empty-tree: Remove on a never-populated tree
		{Bound: b, Ops: []Op{{K: "rm", Tgt: "point", P: gen.P{1, 1}}}},
		{Bound: b, Ops: []Op{{K: "rm", Tgt: "fresh", P: gen.P{1, 1}}, {K: "rm", Tgt: "ptrpoint", P: gen.P{9, 9}}, {K: "rm", Tgt: "filter", F: "all", P: gen.P{4, 4}}}},
		// quadtree-knearest-k0: k = 0 on a populated tree, with and without limit / buffer / filter
		{Bound: b, Ops: []Op{{K: "add", P: gen.P{1, 1}}, {K: "knn", P: gen.P{2, 2}, N: 0}, {K: "knn", P: gen.P{2, 2}, N: 0, MaxK: "abs", Max: 5, Buf: 3, F: "even"}}},
		// k = 0 on an empty and on an emptied tree
		{Bound: b, Ops: []Op{{K: "knn", P: gen.P{2, 2}, N: 0}, {K: "add", P: gen.P{1, 1}}, {K: "rm", Tgt: "stored"}, {K: "knn", P: gen.P{2, 2}, N: 0}, {K: "knn", P: gen.P{2, 2}, N: 3}}},
	}
	for i, c := range cases {
		if !stats.Mine(int64(i)) {
			continue
		}
		stats.Eval("TestEnumRegressions", 1)
		stats.TryT(t, "TestEnumRegressions", c, func() error { return checkCase(c) })
	}
	stats.Subspace("formerly failing inputs (remove on a never-populated tree, k-nearest with k = 0)", int64(len(cases)), true)
}

// TestSelfWalker reports (never fails the property) whether the structural walker is usable.
func TestSelfWalker(t *testing.T) {
	if !theWalker.ok {
		t.Logf("walker unavailable: %s", theWalker.why)
	}
}

func TestReplay(t *testing.T) {
	name, raw, ok := stats.Replaying()
	if !ok {
		t.Skip("no replay file")
	}
	switch name {
	case "TestPropConcurrent":
		var cs []Case
		if err := json.Unmarshal(raw, &cs); err != nil {
			t.Fatal(err)
		}
		for k := 0; k < 20; k++ {
			if err := stats.ParallelErr(len(cs), 50, func(i int) error { return checkCase(cs[i]) }); err != nil {
				t.Fatalf("replayed concurrent group still fails: %v", err)
			}
		}
		return
	case "TestPropConcurrentReaders":
		var sc Shared
		if err := json.Unmarshal(raw, &sc); err != nil {
			t.Fatal(err)
		}
		for k := 0; k < 20; k++ {
			if _, err := checkShared(sc, 50); err != nil {
				t.Fatalf("replayed shared-tree scenario still fails: %v", err)
			}
		}
		return
	}
	var c Case
	if err := json.Unmarshal(raw, &c); err != nil {
		t.Fatal(err)
	}
	if err := stats.Guard(func() error { return checkCase(c) }); err != nil {
		t.Fatalf("replayed case still fails: %v", err)
	}
}
