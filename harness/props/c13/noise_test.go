package c13

// Round J: class D (noise calls between the checked calls) and class A
// (concurrent callers). Tile arithmetic depends on the arguments only, so
// neither other maptile calls made in between nor other goroutines may change
// what the checked calls return.

import (
	"fmt"
	"math"
	"runtime"
	"testing"

	"github.com/paulmach/orb"
	"github.com/paulmach/orb/maptile"
	"pgregory.net/rapid"

	"verifharness/internal/gen"
	"verifharness/internal/stats"
)

// ---------------------------------------------------------------- noise calls

// noiseOps lists the entry points used as noise; "bound" is listed several
// times because it has the argument (tileBuffer) the property never uses.
var noiseOps = []string{"bound", "bound", "bound", "bound", "fraction", "at", "quadkey", "range", "family", "cizr", "collection", "center", "relation", "flush"}

// tile buffers: fractional, tiny, integral, large (never negative, never NaN)
var noiseBufs = []float64{0.5, 0.25, 0.75, 1e-9, 5e-324, 0.999999, 1, 1.5, 2, 3.75, 100, 1e6, 1 << 31, 1e300}

// runNoise makes one legal call to an entry point of package maptile; results
// are computed and dropped. Arguments outside an entry point's documented
// domain are mapped into it (invalid tile -> skipped, zoom > 30 -> 30).
func runNoise(n Noise) {
	t := n.T
	if !t.valid() || t.Z > maxZoom {
		return
	}
	mt := t.orb()
	z := maptile.Zoom(min(n.Z, maxZoom))
	buf := float64(n.Buf)
	if !(buf >= 0) { // also rejects NaN
		buf = 0.5
	}
	p := n.P.Pt()
	if !(p[0] >= -180 && p[0] <= 180) || math.IsNaN(p[1]) {
		p = orb.Point{12.5, 41.9}
	}
	var keep float64
	switch n.Op {
	case "bound":
		b := mt.Bound(buf)
		keep = b.Min[1] + b.Max[1]
	case "fraction":
		f := maptile.Fraction(p, z)
		keep = f[0] + f[1]
	case "at":
		a := maptile.At(p, z)
		keep = float64(a.X)
	case "quadkey":
		k := mt.Quadkey()
		a := maptile.FromQuadkey(k^n.K, z)
		keep = float64(a.X)
	case "range":
		a, b := mt.Range(z)
		keep = float64(a.X + b.Y)
	case "family":
		keep = float64(len(mt.Children()) + len(mt.Siblings()) + int(mt.Parent().X))
	case "cizr":
		zs := uint32(mt.Z) + uint32(n.K%3)
		ze := zs + uint32(n.K/3%3)
		if ze <= maxZoom {
			keep = float64(len(maptile.ChildrenInZoomRange(mt, maptile.Zoom(zs), maptile.Zoom(ze))))
		}
	case "collection":
		ts := maptile.Tiles{mt, mt.Parent()}
		ts = append(ts, mt.Siblings()...)
		fc := ts.ToFeatureCollection()
		set := maptile.Set{mt: true, mt.Parent(): false}
		set.Merge(maptile.Set{mt.Parent(): true})
		keep = float64(len(fc.Features) + len(set.ToFeatureCollection().Features))
	case "center":
		c := mt.Center()
		keep = c[0] + c[1]
	case "relation":
		o := maptile.FromQuadkey(n.K, z)
		if mt.Contains(o) {
			keep = 1
		}
		keep += float64(mt.SharedParent(o).Z)
	case "flush":
		// a burst of plain calls over many rows and columns of another zoom: pushes a
		// bounded hidden cache back to a state in which nothing near the case is cached
		zz := maptile.Zoom(9 + n.Z%12)
		for i := uint32(0); i < 512; i++ {
			b := maptile.New(i, (i*7+uint32(n.K))&511, zz).Bound()
			keep += b.Min[1]
		}
	}
	runtime.KeepAlive(keep)
}

// observe collects, as raw words, everything the checked calls of the case
// return (no judgement).
func observe(c Case) []uint64 {
	var out []uint64
	f := func(v float64) { out = append(out, math.Float64bits(v)) }
	bnd := func(b orb.Bound) { f(b.Min[0]); f(b.Min[1]); f(b.Max[0]); f(b.Max[1]) }
	tl := func(m maptile.Tile) { out = append(out, uint64(m.X), uint64(m.Y), uint64(m.Z)) }
	bl := func(v bool) {
		if v {
			out = append(out, 1)
		} else {
			out = append(out, 0)
		}
	}
	switch c.Kind {
	case "tile":
		t := c.A
		mt := t.orb()
		bl(mt.Valid())
		if !t.valid() || t.Z > maxZoom {
			return out
		}
		bnd(mt.Bound())
		out = append(out, mt.Quadkey())
		tl(maptile.FromQuadkey(mt.Quadkey(), mt.Z))
		tl(mt.Parent())
		for _, ch := range mt.Children() {
			tl(ch)
			bnd(ch.Bound())
		}
		for _, s := range mt.Siblings() {
			tl(s)
		}
		n := int64(pow2(t.Z))
		for _, d := range deltas {
			nx, ny := int64(t.X)+d[0], int64(t.Y)+d[1]
			if nx < 0 || ny < 0 || nx >= n || ny >= n {
				continue
			}
			bnd(maptile.New(uint32(nx), uint32(ny), mt.Z).Bound())
		}
		ce := mt.Center()
		f(ce[0])
		f(ce[1])
		tl(maptile.At(ce, mt.Z))
	case "pair":
		a, b := c.A.orb(), c.B.orb()
		bl(a.Contains(b))
		bl(b.Contains(a))
		tl(a.SharedParent(b))
		tl(b.SharedParent(a))
	case "range":
		mt := c.A.orb()
		mn, mx := mt.Range(maptile.Zoom(c.Z2))
		tl(mn)
		tl(mx)
		if c.CIZR && c.ZS >= c.A.Z && c.ZE >= c.ZS && c.ZE-c.A.Z <= 12 {
			for _, g := range maptile.ChildrenInZoomRange(mt, maptile.Zoom(c.ZS), maptile.Zoom(c.ZE)) {
				tl(g)
			}
		}
	case "point":
		p := orb.Point{float64(c.Lon), float64(c.Lat)}
		mt := maptile.At(p, maptile.Zoom(c.A.Z))
		tl(mt)
		if fromOrb(mt).valid() {
			bnd(mt.Bound())
		}
		fr := maptile.Fraction(p, maptile.Zoom(c.A.Z))
		f(fr[0])
		f(fr[1])
	}
	return out
}

// focus is the tile the noise is placed around (own arithmetic only).
func focus(c Case) T {
	switch c.Kind {
	case "point":
		z := c.A.Z
		n := float64(pow2(z))
		x := math.Floor(modelFracX(float64(c.Lon), z))
		y := math.Floor(modelFracY(math.Max(-clampLat, math.Min(clampLat, float64(c.Lat))), z))
		x = math.Max(0, math.Min(n-1, x))
		y = math.Max(0, math.Min(n-1, y))
		return T{uint32(x), uint32(y), z}
	case "pair":
		if c.B.valid() && c.B.Z <= maxZoom {
			return c.B
		}
	}
	if c.A.valid() && c.A.Z <= maxZoom {
		return c.A
	}
	return T{0, 0, 0}
}

var placeNames = []string{"self", "neighbour within 2", "same row", "same column", "parent", "child", "same indices one zoom deeper", "same indices another zoom", "random"}

// genNoise draws one noise call placed relative to the focus tile.
func genNoise(rt *rapid.T, f T) Noise {
	var n Noise
	n.Op = rapid.SampledFrom(noiseOps).Draw(rt, "op")
	place := rapid.IntRange(0, len(placeNames)-1).Draw(rt, "place")
	clampTo := func(v int64, z uint32) uint32 {
		m := int64(pow2(z)) - 1
		return uint32(max(0, min(m, v)))
	}
	t := f
	switch place {
	case 1:
		t.X = clampTo(int64(f.X)+int64(rapid.IntRange(-2, 2).Draw(rt, "dx")), f.Z)
		t.Y = clampTo(int64(f.Y)+int64(rapid.IntRange(-2, 2).Draw(rt, "dy")), f.Z)
	case 2:
		t.X = rapid.Uint32Range(0, uint32(pow2(f.Z)-1)).Draw(rt, "nx")
	case 3:
		t.Y = clampTo(int64(f.Y)+int64(rapid.IntRange(-40, 40).Draw(rt, "dy40")), f.Z)
	case 4:
		if f.Z > 0 {
			t = f.anc(f.Z - uint32(rapid.IntRange(1, int(min(f.Z, 3))).Draw(rt, "up")))
		}
	case 5:
		if f.Z < maxZoom {
			t = T{f.X<<1 | uint32(rapid.IntRange(0, 1).Draw(rt, "cx")), f.Y<<1 | uint32(rapid.IntRange(0, 1).Draw(rt, "cy")), f.Z + 1}
		}
	case 6:
		if f.Z < maxZoom {
			t = T{f.X, f.Y, f.Z + 1}
		}
	case 7:
		z := rapid.Uint32Range(f.Z, maxZoom).Draw(rt, "oz")
		t = T{f.X, f.Y, z}
	case 8:
		t, _, _ = genTile(rt, 0, maxZoom)
	}
	n.T = t
	if rapid.IntRange(0, 3).Draw(rt, "bufk") == 0 {
		n.Buf = gen.F(rapid.Float64Range(0, 4).Draw(rt, "buf"))
	} else {
		n.Buf = gen.F(rapid.SampledFrom(noiseBufs).Draw(rt, "bufs"))
	}
	switch rapid.IntRange(0, 3).Draw(rt, "nzk") {
	case 0:
		n.Z = f.Z
	case 1:
		n.Z = min(maxZoom, f.Z+uint32(rapid.IntRange(1, 8).Draw(rt, "nzd")))
	default:
		n.Z = rapid.Uint32Range(0, maxZoom).Draw(rt, "nz")
	}
	// a point in or next to the focus tile (own formula), or anywhere
	if rapid.Bool().Draw(rt, "pnear") {
		b := modelBound(f)
		n.P = gen.FromPt(orb.Point{
			math.Max(-180, math.Min(180, b.Min[0]+(b.Max[0]-b.Min[0])*rapid.Float64Range(-1, 2).Draw(rt, "pu"))),
			b.Min[1] + (b.Max[1]-b.Min[1])*rapid.Float64Range(-1, 2).Draw(rt, "pv"),
		})
	} else {
		n.P = gen.FromPt(orb.Point{rapid.Float64Range(-180, 180).Draw(rt, "plon"), rapid.Float64Range(-90, 90).Draw(rt, "plat")})
	}
	n.K = rapid.Uint64().Draw(rt, "k")
	stats.Class("noise:" + n.Op)
	stats.Class("noise at:" + placeNames[place])
	return n
}

func drawAny(rt *rapid.T) (Case, bool) {
	switch rapid.IntRange(0, 5).Draw(rt, "kind") {
	case 0, 1, 2:
		return drawTile(rt)
	case 3:
		return drawPoint(rt)
	case 4:
		return drawRange(rt)
	}
	return drawPair(rt)
}

func drawNoisy(rt *rapid.T) (Case, bool) {
	c, nt := drawAny(rt)
	f := focus(c)
	for i, k := 0, rapid.IntRange(0, 3).Draw(rt, "npre"); i < k; i++ {
		c.Pre = append(c.Pre, genNoise(rt, f))
	}
	for i, k := 0, rapid.IntRange(1, 3).Draw(rt, "nmid"); i < k; i++ {
		c.Mid = append(c.Mid, genNoise(rt, f))
	}
	return c, nt
}

// TestPropNoise: a case of any kind with maptile calls the property does not
// mention made before and between its checked calls (class D).
func TestPropNoise(t *testing.T) {
	stats.Assume("noise calls are legal calls of package maptile (Bound with a non-negative tileBuffer, Fraction, At, Quadkey/FromQuadkey, Range, Children/Parent/Siblings, ChildrenInZoomRange, Tiles/Set.ToFeatureCollection, Set.Merge, Center, Contains, SharedParent, bursts of plain Bound calls); their results are not judged")
	stats.Check(t, 200000, 1500000, func(rt *rapid.T) {
		c, nt := drawNoisy(rt)
		stats.Class("noise case kind:" + c.Kind)
		if nt {
			stats.NonTrivial("noise:" + gen.JSON(c))
			if stats.WantSample("noise") {
				stats.Sample("noise", c)
			}
		}
		stats.Try(rt, "TestPropNoise", c, func() error { return checkCase(c) })
	})
}

// TestEnumNoise: every tile of zoom 0..4 (thorough: 0..5) x every tile N next to
// it (3x3 block, parent, one child, same indices one zoom deeper) x every fixed
// noise call on N, made before the judgement and again between two observations,
// with and without a preceding cache-flushing burst.
func TestEnumNoise(t *testing.T) {
	top := uint32(4)
	if stats.Thorough() {
		top = 5
	}
	var idx int64
	for z := uint32(0); z <= top; z++ {
		n := int64(pow2(z))
		for x := int64(0); x < n; x++ {
			for y := int64(0); y < n; y++ {
				tl := T{uint32(x), uint32(y), z}
				var near []T
				for dx := int64(-1); dx <= 1; dx++ {
					for dy := int64(-1); dy <= 1; dy++ {
						if x+dx >= 0 && x+dx < n && y+dy >= 0 && y+dy < n {
							near = append(near, T{uint32(x + dx), uint32(y + dy), z})
						}
					}
				}
				if z > 0 {
					near = append(near, tl.anc(z-1))
				}
				near = append(near, T{tl.X << 1, tl.Y<<1 | 1, z + 1}, T{tl.X, tl.Y, z + 1})
				for _, nb := range near {
					var variants []Noise
					for _, b := range noiseBufs {
						variants = append(variants, Noise{Op: "bound", T: nb, Buf: gen.F(b)})
					}
					ce := modelBound(nb)
					pt := gen.FromPt(orb.Point{(ce.Min[0] + ce.Max[0]) / 2, (ce.Min[1] + ce.Max[1]) / 2})
					for _, op := range []string{"fraction", "at", "quadkey", "range", "family", "cizr", "collection", "center", "relation"} {
						variants = append(variants, Noise{Op: op, T: nb, Z: nb.Z + 1, P: pt, K: uint64(idx)})
					}
					for vi, v := range variants {
						for fl := 0; fl < 2; fl++ {
							idx++
							if !stats.Mine(idx) {
								continue
							}
							c := Case{Kind: "tile", A: tl, Pre: []Noise{v}, Mid: []Noise{variants[(vi+1)%len(variants)], v}}
							if fl == 1 {
								c.Pre = []Noise{{Op: "flush", T: tl, Z: uint32(vi), K: uint64(idx)}, v}
							}
							stats.Eval("TestEnumNoise", 1)
							if z >= 1 {
								stats.NonTrivialHash(enumKey(9, tl, uint64(idx)))
							}
							stats.TryT(t, "TestEnumNoise", c, func() error { return checkCase(c) })
						}
					}
				}
			}
		}
	}
	stats.Subspace(fmt.Sprintf("every tile with zoom <= %d x every adjacent/parent/child tile x %d fixed noise calls x with/without a flushing burst", top, len(noiseBufs)+9), idx, true)
}

// ---------------------------------------------------------------- concurrent callers

// TestPropConcurrent evaluates 2..8 independent cases (with and without noise
// calls) at the same time on separate goroutines, 25 rounds each (class A).
func TestPropConcurrent(t *testing.T) {
	stats.Check(t, 4000, 100000, func(rt *rapid.T) {
		n := rapid.IntRange(2, 8).Draw(rt, "goroutines")
		cs := make([]Case, n)
		nt := 0
		for i := range cs {
			var ok bool
			if rapid.Bool().Draw(rt, "noisy") {
				cs[i], ok = drawNoisy(rt)
			} else {
				cs[i], ok = drawAny(rt)
			}
			if ok {
				nt++
			}
		}
		stats.Class(fmt.Sprintf("concurrent:%d goroutines", n))
		if nt >= 2 {
			stats.NonTrivial("conc:" + gen.JSON(cs))
			if stats.WantSample("concurrent") && n <= 3 {
				stats.Sample("concurrent", cs)
			}
		}
		stats.TryParallel(rt, "TestPropConcurrent", cs, n, 25, func(i int) error { return checkCase(cs[i]) })
	})
}

// ---------------------------------------------------------------- L1 size ladder

// TestEnumLarge (class L1): the size dimension of this property is the number
// of tiles a range query returns. ChildrenInZoomRange is asked for single deep
// levels (4^d tiles) and for whole intervals (sums of powers of four) up to
// d = 9 in quick and d = 11 (4.2 M tiles; one tile at d = 12, 16.8 M) in thorough,
// for tiles at zoom 0, 1, 18 (high bits set) and 30-d; every returned tile is
// judged (descendant, zoom, no duplicate, count) and Range must box them.
func TestEnumLarge(t *testing.T) {
	top := uint32(9)
	if stats.Thorough() {
		top = 11
	}
	var idx int64
	run := func(tl T, zs, ze uint32) {
		idx++
		if !stats.Mine(idx) {
			return
		}
		c := Case{Kind: "range", A: tl, Z2: ze, CIZR: true, ZS: zs, ZE: ze}
		stats.Eval("TestEnumLarge", 1)
		stats.Class(fmt.Sprintf("large:children-in-zoom-range depth %d", ze-tl.Z))
		stats.NonTrivialHash(enumKey(11, tl, uint64(zs)<<8|uint64(ze)))
		stats.TryT(t, "TestEnumLarge", c, func() error { return checkCase(c) })
	}
	for d := uint32(5); d <= top; d++ {
		tiles := []T{{0, 0, 0}, {1, 0, 1}, {1<<18 - 1, 1 << 17, 18}, {1<<(30-d) - 1, 1<<(30-d) - 2, 30 - d}}
		for _, tl := range tiles {
			run(tl, tl.Z+d, tl.Z+d)   // one deep level: 4^d tiles
			run(tl, tl.Z, tl.Z+d)     // the whole pyramid: (4^(d+1)-1)/3
			run(tl, tl.Z+d-1, tl.Z+d) // two levels: 5 * 4^(d-1)
			run(tl, tl.Z+1, tl.Z+d-1) // without the ends
		}
	}
	if stats.Thorough() {
		run(T{1<<18 - 1, 1 << 17, 18}, 30, 30) // 4^12 = 16 777 216 tiles
	}
	stats.Subspace(fmt.Sprintf("ChildrenInZoomRange result sizes 4^d and interval sums for d = 5..%d (thorough: one case of 4^12) x 4 tiles", top), idx, true)
}
