// Package c13 decides property C13 (map tile arithmetic is a consistent
// quadtree of the mercator square) by exhaustive enumeration of the low zooms
// and generated search up to zoom 30, against an arithmetic model of the
// quadtree written here (uint64 division/multiplication, own mercator formula).
package c13

import (
	"encoding/json"
	"fmt"
	"math"
	"math/big"
	"testing"

	"github.com/paulmach/orb"
	"github.com/paulmach/orb/maptile"
	"pgregory.net/rapid"

	"verifharness/internal/gen"
	"verifharness/internal/kf"
	"verifharness/internal/stats"
)

func TestMain(m *testing.M) { stats.Main(m, "C13") }

// ---------------------------------------------------------------- case

// T is a tile in replay files.
type T struct {
	X uint32 `json:"x"`
	Y uint32 `json:"y"`
	Z uint32 `json:"z"`
}

// Case is one generated input (also the replay format).
//
//	kind "tile":  A (may be invalid: then only Valid() is judged)
//	kind "pair":  A, B (both valid)
//	kind "range": A, Z2 = zoom given to Range; ZS..ZE = zooms given to ChildrenInZoomRange when CIZR is set
//	kind "point": Lon, Lat, zoom A.Z
type Case struct {
	Kind string `json:"kind"`
	A    T      `json:"a"`
	B    T      `json:"b"`
	Z2   uint32 `json:"z2"`
	CIZR bool   `json:"cizr"`
	ZS   uint32 `json:"zs"`
	ZE   uint32 `json:"ze"`
	Lon  gen.F  `json:"lon"`
	Lat  gen.F  `json:"lat"`
	// noise calls (class D): Pre runs before the first judgement, Mid between
	// two observations of the same checked calls, which must not differ.
	Pre []Noise `json:"pre,omitempty"`
	Mid []Noise `json:"mid,omitempty"`
}

// Noise is one call to a maptile entry point that the property does not
// mention; its result is not judged.
type Noise struct {
	Op  string `json:"op"`
	T   T      `json:"t"`
	Buf gen.F  `json:"buf"`
	Z   uint32 `json:"z"`
	P   gen.P  `json:"p"`
	K   uint64 `json:"k"`
}

const (
	maxZoom = 30 // the quantifier: tiles with zoom 0..30 (children therefore reach zoom 31)

	// tolerances, all in degrees unless stated
	tolContain = 1e-10 // slack for "the bound of At(p) contains p" (float floor in At vs exp/atan in Bound)
	tolBound   = 1e-9  // Tile.Bound against the harness's own mercator formula
	tolFrac    = 1e-9  // Fraction against the harness's own formula, relative to (1 + 2^z) tiles

	clampLat = 85.0511           // the latitude beyond which the quantifier allows clamping
	edgeLat  = 85.05112877980659 // the latitude of the edge of the mercator square
)

// ---------------------------------------------------------------- model

func pow2(z uint32) uint64 { return uint64(1) << z }

func (t T) valid() bool {
	return t.Z <= 31 && uint64(t.X) < pow2(t.Z) && uint64(t.Y) < pow2(t.Z)
}

// anc is the ancestor of t at zoom z <= t.Z (integer division, no shifts).
func (t T) anc(z uint32) T {
	d := pow2(t.Z - z)
	return T{uint32(uint64(t.X) / d), uint32(uint64(t.Y) / d), z}
}

func (t T) orb() maptile.Tile { return maptile.Tile{X: t.X, Y: t.Y, Z: maptile.Zoom(t.Z)} } // literal, not maptile.New

func fromOrb(m maptile.Tile) T { return T{m.X, m.Y, uint32(m.Z)} }

func (t T) String() string { return fmt.Sprintf("{x:%d y:%d z:%d}", t.X, t.Y, t.Z) }

// deepest common ancestor by walking both tiles up.
func dca(a, b T) T {
	if a.Z > b.Z {
		a = a.anc(b.Z)
	} else {
		b = b.anc(a.Z)
	}
	for a != b {
		a, b = a.anc(a.Z-1), b.anc(b.Z-1)
	}
	return a
}

// own mercator formula: west edge of column x, north edge of row y at zoom z.
func modelLon(x uint64, z uint32) float64 {
	return float64(x)/float64(pow2(z))*360 - 180
}

func modelLat(y uint64, z uint32) float64 {
	return math.Atan(math.Sinh(math.Pi*(1-2*float64(y)/float64(pow2(z))))) * 180 / math.Pi
}

func modelBound(t T) orb.Bound {
	return orb.Bound{
		Min: orb.Point{modelLon(uint64(t.X), t.Z), modelLat(uint64(t.Y)+1, t.Z)},
		Max: orb.Point{modelLon(uint64(t.X)+1, t.Z), modelLat(uint64(t.Y), t.Z)},
	}
}

func boundMatchesModel(t T, b orb.Bound) error {
	m := modelBound(t)
	for i := 0; i < 2; i++ {
		if !(math.Abs(b.Min[i]-m.Min[i]) <= tolBound) || !(math.Abs(b.Max[i]-m.Max[i]) <= tolBound) {
			return fmt.Errorf("Bound of %v is %v, the mercator square gives %v (tolerance %g deg)", t, b, m, tolBound)
		}
	}
	if !(b.Min[0] < b.Max[0]) || !(b.Min[1] < b.Max[1]) {
		return fmt.Errorf("Bound of %v is empty or inverted: %v", t, b)
	}
	return nil
}

// ownCentre is the centre of a tile's bound by the harness's own formula.
func ownCentre(t T) orb.Point {
	m := modelBound(t)
	return orb.Point{(m.Min[0] + m.Max[0]) / 2, (m.Min[1] + m.Max[1]) / 2}
}

// boundVariadic (class L4): the tileBuffer argument passed as a caller-owned
// slice `xs...` - empty with spare capacity, and {0} with spare capacity (what
// Center uses) - gives the same bound as the plain call and leaves the slice's
// elements as they were; a write into the spare capacity is only noted.
func boundVariadic(t T, plain orb.Bound) error {
	mt := t.orb()
	backing := [4]float64{0, 7.25, 7.25, 7.25}
	for n := 0; n <= 1; n++ {
		xs := backing[:n:4]
		if got := mt.Bound(xs...); got != plain {
			return fmt.Errorf("Bound(xs...) with %d-element xs of %v is %v, Bound() is %v", n, t, got, plain)
		}
		if n == 1 && math.Float64bits(backing[0]) != 0 {
			return fmt.Errorf("Bound(xs...) of %v changed the caller's xs[0] from 0 to %v", t, backing[0])
		}
		if backing[n] != (map[int]float64{0: 0, 1: 7.25})[n] || backing[2] != 7.25 || backing[3] != 7.25 {
			stats.Class("layout-note:Bound wrote into the spare capacity of its variadic argument")
			backing = [4]float64{0, 7.25, 7.25, 7.25}
		}
	}
	return nil
}

// polarCentre reports whether the (valid) tile belongs to the input family of
// the known finding "maptile-center-polar-clamp": zoom >= 21, row not the
// top/bottom row, centre latitude beyond +-85.0511. It is decided by the
// harness's own centre; the library's Tile.Center is consulted only when the
// own centre lies within 1e-9 deg of the threshold (at most one row per zoom),
// where the two could disagree by an ulp.
func polarCentre(t T) bool {
	if t.Z < 21 { // at zoom <= 20 the top/bottom row alone covers everything beyond 85.0511
		return false
	}
	if t.Y == 0 || uint64(t.Y) == pow2(t.Z)-1 {
		return false
	}
	own := math.Abs(ownCentre(t)[1])
	switch {
	case own > clampLat+1e-9:
		return true
	case own <= clampLat-1e-9:
		return false
	}
	return math.Abs(t.orb().Center()[1]) > clampLat
}

// ---------------------------------------------------------------- oracles

// checkCase judges the case; when it carries noise calls the order is:
// Pre noise, judgement against the model, observation, Mid noise, observation
// (must equal the first one bit for bit), judgement against the model again.
func checkCase(c Case) error {
	if len(c.Pre) == 0 && len(c.Mid) == 0 {
		return checkCore(c)
	}
	for _, n := range c.Pre {
		runNoise(n)
	}
	if err := checkCore(c); err != nil {
		return fmt.Errorf("after the noise calls %s: %w", gen.JSON(c.Pre), err)
	}
	before := observe(c)
	for _, n := range c.Mid {
		runNoise(n)
	}
	after := observe(c)
	if len(before) != len(after) {
		return fmt.Errorf("the checked calls returned %d values before and %d after the noise calls %s", len(before), len(after), gen.JSON(c.Mid))
	}
	for i := range before {
		if before[i] != after[i] {
			return fmt.Errorf("checked value %d changed from %#x (%v) to %#x (%v) across the noise calls %s", i, before[i], math.Float64frombits(before[i]), after[i], math.Float64frombits(after[i]), gen.JSON(c.Mid))
		}
	}
	if err := checkCore(c); err != nil {
		return fmt.Errorf("after the noise calls %s: %w", gen.JSON(c.Mid), err)
	}
	return nil
}

func checkCore(c Case) error {
	switch c.Kind {
	case "tile":
		return checkTile(c.A, false)
	case "pair":
		return checkPair(c.A, c.B)
	case "range":
		return checkRange(c)
	case "point":
		return checkPoint(float64(c.Lon), float64(c.Lat), c.A.Z)
	}
	return fmt.Errorf("unknown case kind %q", c.Kind)
}

var deltas = [4][2]int64{{1, 0}, {0, 1}, {-1, 0}, {0, -1}}

// checkTile judges everything the statement says about one tile.
// centreOnly skips nothing; it exists so that the known-finding witness can
// run the centre clause on its own.
func checkTile(t T, centreOnly bool) error {
	mt := t.orb()
	if got := mt.Valid(); got != t.valid() {
		return fmt.Errorf("Valid(%v) = %v, want %v", t, got, t.valid())
	}
	if !t.valid() {
		return nil
	}
	if t.Z > maxZoom {
		return nil // zoom 31 tiles are only judged for validity
	}
	if centreOnly {
		return checkCentre(t)
	}

	// quadkey round trip
	k := mt.Quadkey()
	if back := maptile.FromQuadkey(k, mt.Z); back != mt {
		return fmt.Errorf("FromQuadkey(Quadkey(%v)=%#x) = %v", t, k, fromOrb(back))
	}

	// parent
	if t.Z >= 1 {
		if p, want := fromOrb(mt.Parent()), t.anc(t.Z-1); p != want {
			return fmt.Errorf("Parent(%v) = %v, want %v", t, p, want)
		}
	}

	// children: four distinct valid tiles, the model's four, parent is the tile
	ch := mt.Children()
	if len(ch) != 4 {
		return fmt.Errorf("Children(%v) returned %d tiles", t, len(ch))
	}
	var seen [2][2]bool
	b := mt.Bound()
	if err := boundMatchesModel(t, b); err != nil {
		return err
	}
	if err := boundVariadic(t, b); err != nil {
		return err
	}
	var midLon, midLat float64
	haveMidLon, haveMidLat := false, false
	for _, c := range ch {
		ct := fromOrb(c)
		if ct.Z != t.Z+1 || !ct.valid() || !c.Valid() {
			return fmt.Errorf("child %v of %v is not a valid tile one zoom deeper", ct, t)
		}
		if ct.anc(t.Z) != t {
			return fmt.Errorf("child %v of %v is not inside it", ct, t)
		}
		dx, dy := ct.X&1, ct.Y&1
		if seen[dx][dy] {
			return fmt.Errorf("Children(%v) contains %v twice", t, ct)
		}
		seen[dx][dy] = true
		if p := fromOrb(c.Parent()); p != t {
			return fmt.Errorf("Parent of child %v of %v is %v", ct, t, p)
		}
		if !mt.Contains(c) {
			return fmt.Errorf("%v does not Contain its child %v", t, ct)
		}
		if c.Contains(mt) {
			return fmt.Errorf("child %v Contains its parent %v", ct, t)
		}
		// the children's bounds tile the bound: outer edges equal the parent's exactly,
		// inner edges are one shared longitude and one shared latitude strictly inside
		cb := c.Bound()
		inLon, inLat := cb.Max[0], cb.Min[1] // inner edges of a west / north child
		if dx == 0 {
			if cb.Min[0] != b.Min[0] {
				return fmt.Errorf("west child %v of %v: west edge %v != parent's %v", ct, t, cb.Min[0], b.Min[0])
			}
		} else {
			inLon = cb.Min[0]
			if cb.Max[0] != b.Max[0] {
				return fmt.Errorf("east child %v of %v: east edge %v != parent's %v", ct, t, cb.Max[0], b.Max[0])
			}
		}
		if dy == 0 {
			if cb.Max[1] != b.Max[1] {
				return fmt.Errorf("north child %v of %v: north edge %v != parent's %v", ct, t, cb.Max[1], b.Max[1])
			}
		} else {
			inLat = cb.Max[1]
			if cb.Min[1] != b.Min[1] {
				return fmt.Errorf("south child %v of %v: south edge %v != parent's %v", ct, t, cb.Min[1], b.Min[1])
			}
		}
		if !haveMidLon {
			midLon, haveMidLon = inLon, true
		} else if inLon != midLon {
			return fmt.Errorf("children of %v do not share their inner longitude: %v vs %v", t, inLon, midLon)
		}
		if !haveMidLat {
			midLat, haveMidLat = inLat, true
		} else if inLat != midLat {
			return fmt.Errorf("children of %v do not share their inner latitude: %v vs %v", t, inLat, midLat)
		}
	}
	if !(b.Min[0] < midLon && midLon < b.Max[0]) || !(b.Min[1] < midLat && midLat < b.Max[1]) {
		return fmt.Errorf("inner edges (%v, %v) of the children of %v are not strictly inside its bound %v", midLon, midLat, t, b)
	}

	// siblings: the four tiles under the parent
	if t.Z >= 1 {
		sib := mt.Siblings()
		if len(sib) != 4 {
			return fmt.Errorf("Siblings(%v) returned %d tiles", t, len(sib))
		}
		var sseen [2][2]bool
		p := t.anc(t.Z - 1)
		for _, s := range sib {
			stl := fromOrb(s)
			if stl.Z != t.Z || !stl.valid() || stl.anc(p.Z) != p || sseen[stl.X&1][stl.Y&1] {
				return fmt.Errorf("Siblings(%v) = %v: not the four tiles under %v", t, sib, p)
			}
			sseen[stl.X&1][stl.Y&1] = true
		}
	}

	if !mt.Contains(mt) {
		return fmt.Errorf("%v does not Contain itself", t)
	}

	// neighbours at the same zoom share their edge coordinates exactly
	n := int64(pow2(t.Z))
	for _, d := range deltas {
		nx, ny := int64(t.X)+d[0], int64(t.Y)+d[1]
		if nx < 0 || ny < 0 || nx >= n || ny >= n {
			continue
		}
		nt := T{uint32(nx), uint32(ny), t.Z}
		nb := nt.orb().Bound()
		var ok bool
		switch d {
		case deltas[0]: // east neighbour
			ok = nb.Min[0] == b.Max[0] && nb.Min[1] == b.Min[1] && nb.Max[1] == b.Max[1]
		case deltas[2]: // west
			ok = nb.Max[0] == b.Min[0] && nb.Min[1] == b.Min[1] && nb.Max[1] == b.Max[1]
		case deltas[1]: // south (y grows southwards)
			ok = nb.Max[1] == b.Min[1] && nb.Min[0] == b.Min[0] && nb.Max[0] == b.Max[0]
		default: // north
			ok = nb.Min[1] == b.Max[1] && nb.Min[0] == b.Min[0] && nb.Max[0] == b.Max[0]
		}
		if !ok {
			return fmt.Errorf("neighbours %v %v and %v %v do not share their edge coordinates exactly", t, b, nt, nb)
		}
	}

	if polarCentre(t) {
		stats.Excluded("maptile-center-polar-clamp")
		return nil
	}
	return checkCentre(t)
}

func checkCentre(t T) error {
	mt := t.orb()
	c := mt.Center()
	if oc := ownCentre(t); !(math.Abs(c[0]-oc[0]) <= tolBound) || !(math.Abs(c[1]-oc[1]) <= tolBound) {
		return fmt.Errorf("Center(%v) = %v, the middle of the mercator square's bound is %v (tolerance %g deg)", t, c, oc, tolBound)
	}
	if back := maptile.At(c, mt.Z); back != mt {
		return fmt.Errorf("At(Center(%v) = %v) = %v", t, c, fromOrb(back))
	}
	return nil
}

func checkPair(a, b T) error {
	if !a.valid() || !b.valid() {
		return fmt.Errorf("harness: pair with an invalid tile %v %v", a, b)
	}
	ma, mb := a.orb(), b.orb()
	for i := 0; i < 2; i++ {
		want := b.Z >= a.Z && b.anc(a.Z) == a
		if got := ma.Contains(mb); got != want {
			return fmt.Errorf("%v.Contains(%v) = %v, ancestor relation says %v", a, b, got, want)
		}
		want2 := dca(a, b)
		if got := fromOrb(ma.SharedParent(mb)); got != want2 {
			return fmt.Errorf("%v.SharedParent(%v) = %v, deepest common ancestor is %v", a, b, got, want2)
		}
		a, b, ma, mb = b, a, mb, ma
	}
	return nil
}

func checkRange(c Case) error {
	t := c.A
	if !t.valid() {
		return fmt.Errorf("harness: range case with an invalid tile %v", t)
	}
	mt := t.orb()
	mn, mx := mt.Range(maptile.Zoom(c.Z2))
	gmn, gmx := fromOrb(mn), fromOrb(mx)
	if c.Z2 >= t.Z {
		// the descendants of t at Z2 are exactly the tiles whose coordinates divided by 2^d give t's
		d := pow2(c.Z2 - t.Z)
		wmn := T{uint32(uint64(t.X) * d), uint32(uint64(t.Y) * d), c.Z2}
		wmx := T{uint32(uint64(t.X)*d + d - 1), uint32(uint64(t.Y)*d + d - 1), c.Z2}
		if gmn != wmn || gmx != wmx {
			return fmt.Errorf("%v.Range(%d) = %v..%v, the descendants span %v..%v", t, c.Z2, gmn, gmx, wmn, wmx)
		}
	} else {
		w := t.anc(c.Z2)
		if gmn != w || gmx != w {
			return fmt.Errorf("%v.Range(%d) = %v..%v, want the ancestor %v twice", t, c.Z2, gmn, gmx, w)
		}
	}
	if !c.CIZR {
		return nil
	}
	if c.ZS < t.Z || c.ZE < c.ZS || c.ZE-t.Z > 12 {
		return fmt.Errorf("harness: bad zoom range %d..%d for %v", c.ZS, c.ZE, t)
	}
	got := maptile.ChildrenInZoomRange(mt, maptile.Zoom(c.ZS), maptile.Zoom(c.ZE))
	// expected: every descendant at the zooms ZS..ZE, each once (order is not part of the statement)
	var want uint64
	off := make([]uint64, c.ZE-c.ZS+2)
	for z := c.ZS; z <= c.ZE; z++ {
		off[z-c.ZS] = want
		want += pow2(2 * (z - t.Z))
	}
	if uint64(len(got)) != want {
		return fmt.Errorf("ChildrenInZoomRange(%v, %d, %d) returned %d tiles, want %d", t, c.ZS, c.ZE, len(got), want)
	}
	seen := make([]bool, want)
	for _, g := range got {
		gt := fromOrb(g)
		if gt.Z < c.ZS || gt.Z > c.ZE || !gt.valid() || gt.anc(t.Z) != t {
			return fmt.Errorf("ChildrenInZoomRange(%v, %d, %d) contains %v: not a descendant in the zoom range", t, c.ZS, c.ZE, gt)
		}
		d := pow2(gt.Z - t.Z)
		idx := off[gt.Z-c.ZS] + (uint64(gt.X)-uint64(t.X)*d)*d + (uint64(gt.Y) - uint64(t.Y)*d)
		if seen[idx] {
			return fmt.Errorf("ChildrenInZoomRange(%v, %d, %d) contains %v twice", t, c.ZS, c.ZE, gt)
		}
		seen[idx] = true
	}
	// Range at the deepest zoom must be the box of those descendants
	if c.ZE <= maxZoom+1 {
		rmn, rmx := mt.Range(maptile.Zoom(c.ZE))
		var lo, hi T
		first := true
		for _, g := range got {
			if uint32(g.Z) != c.ZE {
				continue
			}
			gt := fromOrb(g)
			if first {
				lo, hi, first = gt, gt, false
				continue
			}
			lo.X, lo.Y = min(lo.X, gt.X), min(lo.Y, gt.Y)
			hi.X, hi.Y = max(hi.X, gt.X), max(hi.Y, gt.Y)
		}
		if fromOrb(rmn) != lo || fromOrb(rmx) != hi {
			return fmt.Errorf("%v.Range(%d) = %v..%v but the descendants there span %v..%v", t, c.ZE, fromOrb(rmn), fromOrb(rmx), lo, hi)
		}
	}
	return nil
}

// exactColumn (class L6): the column of a longitude is floor((lon+180)/360 * 2^z)
// (the last column for lon = 180), computed exactly in rationals. Only the
// rounding of the division by 360 can move a point across a column edge, an
// error below 2^-50 of the world width, so the exact column is demanded unless
// the exact position is within 2^(z-50) tile widths of an integer.
func exactColumn(lon float64, z uint32, got T) error {
	// fast path: a float estimate of the position (error below 1e-6 tile widths for z <= 30) that is
	// farther than 1e-4 from every column edge decides the column without rationals
	if f := (lon + 180) / 360 * float64(pow2(z)); f-math.Floor(f) > 1e-4 && math.Ceil(f)-f > 1e-4 {
		if uint64(got.X) == uint64(f) {
			return nil
		}
		return fmt.Errorf("At(lon %v, zoom %d) gives column %d, the position is %v", lon, z, got.X, f)
	}
	pos := new(big.Rat).SetFloat64(lon)
	pos.Add(pos, big.NewRat(180, 1))
	pos.Mul(pos, new(big.Rat).SetFrac(new(big.Int).Lsh(big.NewInt(1), uint(z)), big.NewInt(360)))
	fl := new(big.Int).Div(pos.Num(), pos.Denom()) // floor: pos >= 0
	frac := new(big.Rat).Sub(pos, new(big.Rat).SetInt(fl))
	eps := new(big.Rat).SetFrac(big.NewInt(1), new(big.Int).Lsh(big.NewInt(1), uint(50-z)))
	col := fl.Uint64()
	last := pow2(z) - 1
	cands := []uint64{min(col, last)}
	if frac.Cmp(eps) < 0 && col > 0 {
		cands = append(cands, min(col-1, last))
	}
	if new(big.Rat).Sub(big.NewRat(1, 1), frac).Cmp(eps) < 0 {
		cands = append(cands, min(col+1, last))
	}
	for _, c := range cands {
		if uint64(got.X) == c {
			return nil
		}
	}
	return fmt.Errorf("At(lon %v, zoom %d) gives column %d, the exact column is %v (position %s)", lon, z, got.X, cands, pos.FloatString(12))
}

// own tile fractions of a point
func modelFracX(lon float64, z uint32) float64 { return (lon + 180) / 360 * float64(pow2(z)) }

func modelFracY(lat float64, z uint32) float64 {
	return (0.5 - math.Asinh(math.Tan(lat*math.Pi/180))/(2*math.Pi)) * float64(pow2(z))
}

func checkPoint(lon, lat float64, z uint32) error {
	if z > maxZoom || !(lon >= -180 && lon <= 180) || math.IsNaN(lat) {
		return fmt.Errorf("harness: point (%v, %v) zoom %d outside the quantifier", lon, lat, z)
	}
	p := orb.Point{lon, lat}
	mt := maptile.At(p, maptile.Zoom(z))
	t := fromOrb(mt)
	if t.Z != z || !t.valid() || !mt.Valid() {
		return fmt.Errorf("At(%v, %d) = %v is not a valid tile of that zoom", p, z, t)
	}
	b := mt.Bound()
	if err := boundMatchesModel(t, b); err != nil {
		return err
	}
	if err := exactColumn(lon, z, t); err != nil {
		return err
	}
	if !(lon >= b.Min[0]-tolContain && lon <= b.Max[0]+tolContain) {
		return fmt.Errorf("At(%v, %d) = %v whose bound %v does not contain the longitude (slack %g)", p, z, t, b, tolContain)
	}
	inLat := lat >= b.Min[1]-tolContain && lat <= b.Max[1]+tolContain
	last := uint32(pow2(z) - 1)
	switch {
	case lat > clampLat:
		if !(t.Y == 0 || inLat) {
			return fmt.Errorf("At(%v, %d) = %v: latitude beyond %v must give the top row (or a tile containing it)", p, z, t, clampLat)
		}
	case lat < -clampLat:
		if !(t.Y == last || inLat) {
			return fmt.Errorf("At(%v, %d) = %v: latitude beyond -%v must give the bottom row (or a tile containing it)", p, z, t, clampLat)
		}
	default:
		if !inLat {
			return fmt.Errorf("At(%v, %d) = %v whose bound %v does not contain the latitude (slack %g)", p, z, t, b, tolContain)
		}
	}

	// Fraction: the precise tile fraction, against the harness's own formula
	f := maptile.Fraction(p, maptile.Zoom(z))
	n := float64(pow2(z))
	tol := tolFrac * (1 + n)
	if !(math.Abs(f[0]-modelFracX(lon, z)) <= tol) {
		return fmt.Errorf("Fraction(%v, %d)[0] = %v, want %v (tolerance %g)", p, z, f[0], modelFracX(lon, z), tol)
	}
	switch {
	case lat > edgeLat:
		if !(f[1] >= 0 && f[1] < 1) {
			return fmt.Errorf("Fraction(%v, %d)[1] = %v, want the top row [0,1)", p, z, f[1])
		}
	case lat < -edgeLat:
		if !(f[1] >= n-1 && f[1] <= n) {
			return fmt.Errorf("Fraction(%v, %d)[1] = %v, want the bottom row [%v,%v]", p, z, f[1], n-1, n)
		}
	case lat > clampLat:
		if !((f[1] >= 0 && f[1] < 1) || math.Abs(f[1]-modelFracY(lat, z)) <= tol) {
			return fmt.Errorf("Fraction(%v, %d)[1] = %v, want the top row or %v", p, z, f[1], modelFracY(lat, z))
		}
	case lat < -clampLat:
		if !((f[1] >= n-1 && f[1] <= n) || math.Abs(f[1]-modelFracY(lat, z)) <= tol) {
			return fmt.Errorf("Fraction(%v, %d)[1] = %v, want the bottom row or %v", p, z, f[1], modelFracY(lat, z))
		}
	default:
		if !(math.Abs(f[1]-modelFracY(lat, z)) <= tol) {
			return fmt.Errorf("Fraction(%v, %d)[1] = %v, want %v (tolerance %g)", p, z, f[1], modelFracY(lat, z), tol)
		}
	}
	return nil
}

// ---------------------------------------------------------------- generators

func genZoom(t *rapid.T, lo, hi uint32) uint32 {
	switch rapid.IntRange(0, 5).Draw(t, "zk") {
	case 0:
		z := rapid.SampledFrom([]uint32{0, 1, 2, 3, 20, 21, 22, 29, 30}).Draw(t, "zs")
		if z >= lo && z <= hi {
			return z
		}
	}
	return rapid.Uint32Range(lo, hi).Draw(t, "z")
}

// coordinate patterns inside [0, 2^z)
var patNames = []string{"random", "all-ones", "zero", "single-high-bit", "alternating", "single-bit", "high-bit+random", "ones-below-high-bit"}

func genCoord(t *rapid.T, z uint32, label string) (uint32, int) {
	if z == 0 {
		return 0, 2
	}
	mask := uint32(pow2(z) - 1)
	hb := uint32(1) << (z - 1)
	k := rapid.IntRange(0, len(patNames)-1).Draw(t, label+"pat")
	switch k {
	case 1:
		return mask, k
	case 2:
		return 0, k
	case 3:
		return hb, k
	case 4:
		if rapid.Bool().Draw(t, label+"alt") {
			return 0x55555555 & mask, k
		}
		return 0xAAAAAAAA & mask, k
	case 5:
		return uint32(1) << rapid.Uint32Range(0, z-1).Draw(t, label+"bit"), k
	case 6:
		return hb | rapid.Uint32Range(0, mask).Draw(t, label+"low")&(hb-1), k
	case 7:
		return hb - 1, k
	}
	return rapid.Uint32Range(0, mask).Draw(t, label), 0
}

func genTile(t *rapid.T, lo, hi uint32) (T, int, int) {
	z := genZoom(t, lo, hi)
	x, px := genCoord(t, z, "x")
	y, py := genCoord(t, z, "y")
	return T{x, y, z}, px, py
}

func highBit(t T) bool {
	return t.Z >= 1 && (t.X>>(t.Z-1) == 1 || t.Y>>(t.Z-1) == 1)
}

func zoomBand(z uint32) string {
	switch {
	case z == 0:
		return "zoom:0"
	case z <= 8:
		return "zoom:1-8"
	case z <= 20:
		return "zoom:9-20"
	case z <= 30:
		return "zoom:21-30"
	}
	return "zoom:31"
}

// descend returns a random descendant of t, dz zooms deeper.
func descend(rt *rapid.T, t T, dz uint32, label string) T {
	if dz == 0 {
		return t
	}
	m := uint32(pow2(dz) - 1)
	lx := rapid.Uint32Range(0, m).Draw(rt, label+"lx")
	ly := rapid.Uint32Range(0, m).Draw(rt, label+"ly")
	switch rapid.IntRange(0, 5).Draw(rt, label+"lk") {
	case 0:
		lx, ly = 0, 0
	case 1:
		lx, ly = m, m
	case 2:
		lx, ly = 0, m
	}
	return T{t.X<<dz | lx, t.Y<<dz | ly, t.Z + dz}
}

var relNames = []string{"independent", "descendant", "equal", "diverge-at-level", "differ-one-axis-bit", "differ-x-bit-i-y-bit-j", "descendant-of-neighbour"}

func genPair(rt *rapid.T) (T, T, int) {
	rel := rapid.IntRange(0, len(relNames)-1).Draw(rt, "rel")
	var a, b T
	switch rel {
	case 0:
		a, _, _ = genTile(rt, 0, maxZoom)
		b, _, _ = genTile(rt, 0, maxZoom)
	case 1:
		a, _, _ = genTile(rt, 0, maxZoom)
		b = descend(rt, a, rapid.Uint32Range(0, maxZoom-a.Z).Draw(rt, "dz"), "d")
	case 2:
		a, _, _ = genTile(rt, 0, maxZoom)
		b = a
	case 3:
		// common ancestor c, two different children, independent descents
		c, _, _ := genTile(rt, 0, maxZoom-1)
		i := rapid.Uint32Range(0, 3).Draw(rt, "ci")
		j := (i + rapid.Uint32Range(1, 3).Draw(rt, "cj")) % 4
		ca := T{c.X<<1 | i&1, c.Y<<1 | i>>1, c.Z + 1}
		cb := T{c.X<<1 | j&1, c.Y<<1 | j>>1, c.Z + 1}
		a = descend(rt, ca, rapid.Uint32Range(0, maxZoom-ca.Z).Draw(rt, "da"), "a")
		b = descend(rt, cb, rapid.Uint32Range(0, maxZoom-cb.Z).Draw(rt, "db"), "b")
	case 4:
		a, _, _ = genTile(rt, 1, maxZoom)
		b = a
		bit := uint32(1) << rapid.Uint32Range(0, a.Z-1).Draw(rt, "bit")
		if rapid.Bool().Draw(rt, "axis") {
			b.X ^= bit
		} else {
			b.Y ^= bit
		}
	case 5:
		a, _, _ = genTile(rt, 1, maxZoom)
		b = a
		b.X ^= uint32(1) << rapid.Uint32Range(0, a.Z-1).Draw(rt, "bi")
		b.Y ^= uint32(1) << rapid.Uint32Range(0, a.Z-1).Draw(rt, "bj")
		// and possibly a different zoom for one of them
		if rapid.Bool().Draw(rt, "lift") {
			b = b.anc(rapid.Uint32Range(0, b.Z).Draw(rt, "bz"))
		}
	default:
		a, _, _ = genTile(rt, 1, maxZoom)
		n := a
		if rapid.Bool().Draw(rt, "axis") {
			n.X ^= 1
		} else if uint64(n.Y)+1 < pow2(n.Z) {
			n.Y++
		} else {
			n.Y--
		}
		b = descend(rt, n, rapid.Uint32Range(0, maxZoom-n.Z).Draw(rt, "dz"), "n")
	}
	if rapid.Bool().Draw(rt, "swap") {
		a, b = b, a
	}
	return a, b, rel
}

// ---------------------------------------------------------------- properties

func TestPropTile(t *testing.T) {
	stats.Assume("tiles have zoom 0..30 (their children reach zoom 31); zoom 31 and invalid tiles are only judged for Valid()")
	stats.Check(t, 800000, 4000000, func(rt *rapid.T) {
		c, nt := drawTile(rt)
		if nt {
			stats.NonTrivial(gen.JSON(c))
			if stats.WantSample("tile") {
				stats.Sample("tile", c)
			}
		}
		stats.Try(rt, "TestPropTile", c, func() error { return checkCase(c) })
	})
}

// drawTile draws one case of TestPropTile and reports whether it is non-trivial.
func drawTile(rt *rapid.T) (Case, bool) {
	{
		var c Case
		c.Kind = "tile"
		if rapid.IntRange(0, 19).Draw(rt, "invalid") == 0 {
			// possibly invalid tile: only Valid() is judged
			z := rapid.Uint32Range(0, 31).Draw(rt, "z")
			n := uint32(pow2(z) & 0xffffffff) // 2^z, the first invalid index
			pick := func(label string) uint32 {
				switch rapid.IntRange(0, 3).Draw(rt, label+"k") {
				case 0:
					return n
				case 1:
					return n - 1 + uint32(rapid.IntRange(0, 2).Draw(rt, label+"d"))
				case 2:
					return rapid.Uint32().Draw(rt, label)
				}
				return rapid.Uint32Range(0, n).Draw(rt, label)
			}
			c.A = T{pick("x"), pick("y"), z}
			if c.A.valid() {
				stats.Class("tile:valid (from the invalid-tile generator)")
			} else {
				stats.Class("tile:invalid")
			}
		} else {
			var px, py int
			c.A, px, py = genTile(rt, 0, maxZoom)
			stats.Class("tile:x " + patNames[px])
			stats.Class("tile:y " + patNames[py])
		}
		stats.Class("tile " + zoomBand(c.A.Z))
		return c, c.A.valid() && c.A.Z <= maxZoom && highBit(c.A)
	}
}

func TestPropPair(t *testing.T) {
	stats.Check(t, 800000, 4000000, func(rt *rapid.T) {
		c, nt := drawPair(rt)
		if nt {
			stats.NonTrivial(gen.JSON(c))
			if stats.WantSample("pair") {
				stats.Sample("pair", c)
			}
		}
		stats.Try(rt, "TestPropPair", c, func() error { return checkCase(c) })
	})
}

func drawPair(rt *rapid.T) (Case, bool) {
	{
		a, b, rel := genPair(rt)
		c := Case{Kind: "pair", A: a, B: b}
		stats.Class("pair:" + relNames[rel])
		stats.Class("pair " + zoomBand(max(a.Z, b.Z)))
		switch {
		case a == b:
			stats.Class("pair is:equal")
		case a.Z <= b.Z && b.anc(a.Z) == a, b.Z <= a.Z && a.anc(b.Z) == b:
			stats.Class("pair is:ancestor/descendant")
		case dca(a, b).Z == 0:
			stats.Class("pair is:unrelated below the root")
		default:
			stats.Class("pair is:cousins under a deeper ancestor")
		}
		return c, a.Z != b.Z || (a != b && (highBit(a) || highBit(b)))
	}
}

func TestPropRange(t *testing.T) {
	stats.Assume("Range and ChildrenInZoomRange are asked for zooms 0..30; ChildrenInZoomRange for at most 6 zooms below the tile (<= 5461 tiles) and only with tile.Z <= zoomStart <= zoomEnd (other arguments panic by documentation)")
	stats.Check(t, 400000, 1500000, func(rt *rapid.T) {
		c, nt := drawRange(rt)
		if nt {
			stats.NonTrivial(gen.JSON(c))
			if stats.WantSample("range") {
				stats.Sample("range", c)
			}
		}
		stats.Try(rt, "TestPropRange", c, func() error { return checkCase(c) })
	})
}

func drawRange(rt *rapid.T) (Case, bool) {
	{
		a, _, _ := genTile(rt, 0, maxZoom)
		c := Case{Kind: "range", A: a}
		c.Z2 = rapid.Uint32Range(0, maxZoom).Draw(rt, "z2")
		if rapid.IntRange(0, 3).Draw(rt, "z2k") == 0 {
			c.Z2 = min(maxZoom, a.Z+uint32(rapid.IntRange(0, 2).Draw(rt, "z2d")))
		}
		switch {
		case c.Z2 > a.Z:
			stats.Class("range:deeper zoom")
		case c.Z2 == a.Z:
			stats.Class("range:same zoom")
		default:
			stats.Class("range:shallower zoom")
		}
		if rapid.IntRange(0, 2).Draw(rt, "cizr") > 0 {
			c.CIZR = true
			// depth mostly <= 4, sometimes up to 6
			maxD := uint32(4)
			if rapid.IntRange(0, 9).Draw(rt, "deep") == 0 {
				maxD = 6
				if rapid.IntRange(0, 19).Draw(rt, "deeper") == 0 {
					maxD = 8 // rare large class: up to 65536 (87381 with the levels above) tiles
				}
			}
			maxD = min(maxD, maxZoom-a.Z)
			ds := rapid.Uint32Range(0, maxD).Draw(rt, "ds")
			de := rapid.Uint32Range(ds, maxD).Draw(rt, "de")
			c.ZS, c.ZE = a.Z+ds, a.Z+de
			stats.Class(fmt.Sprintf("children-in-zoom-range:depth %d", de))
		}
		stats.Class("range " + zoomBand(a.Z))
		return c, c.Z2 != a.Z || (c.CIZR && c.ZE > a.Z)
	}
}

var lonNames = []string{"uniform", "+180", "-180", "edge of this zoom", "edge of another zoom", "edge +-1ulp", "integer", "zero", "next to +-180"}
var latNames = []string{"uniform inside", "+-85.0511", "+-85.05112877980659", "+-90", "beyond the clamp", "row edge (own formula)", "row edge (Tile.Bound)", "row edge +-1ulp", "zero/integer", "next to +-85.0511"}

func genLon(rt *rapid.T, z uint32) (float64, int) {
	k := rapid.IntRange(0, len(lonNames)-1).Draw(rt, "lonk")
	edge := func(zz uint32) float64 {
		kk := rapid.Uint64Range(0, pow2(zz)).Draw(rt, "col")
		switch rapid.IntRange(0, 5).Draw(rt, "colk") {
		case 0:
			kk = pow2(zz)
		case 1:
			kk = pow2(zz) - 1
		case 2:
			kk = pow2(zz) / 2
		}
		return float64(kk)*360/float64(pow2(zz)) - 180 // exact for zz <= 30
	}
	var v float64
	switch k {
	case 0:
		v = rapid.Float64Range(-180, 180).Draw(rt, "lon")
	case 1:
		v = 180
	case 2:
		v = -180
	case 3:
		v = edge(z)
	case 4:
		v = edge(rapid.Uint32Range(0, maxZoom).Draw(rt, "ez"))
	case 5:
		v = edge(z)
		if rapid.Bool().Draw(rt, "up") {
			v = math.Nextafter(v, 200)
		} else {
			v = math.Nextafter(v, -200)
		}
	case 6:
		v = float64(rapid.IntRange(-180, 180).Draw(rt, "ilon"))
	case 7:
		v = 0
		if rapid.Bool().Draw(rt, "neg0") {
			v = math.Copysign(0, -1)
		}
	case 8:
		if rapid.Bool().Draw(rt, "east") {
			v = math.Nextafter(180, 0)
		} else {
			v = math.Nextafter(-180, 0)
		}
	}
	v = math.Max(-180, math.Min(180, v))
	return v, k
}

func genLat(rt *rapid.T, z uint32) (float64, int) {
	k := rapid.IntRange(0, len(latNames)-1).Draw(rt, "latk")
	sign := 1.0
	if rapid.Bool().Draw(rt, "south") {
		sign = -1
	}
	row := func() uint64 {
		r := rapid.Uint64Range(0, pow2(z)).Draw(rt, "row")
		switch rapid.IntRange(0, 7).Draw(rt, "rowk") {
		case 0:
			r = min(pow2(z), 1)
		case 1:
			r = pow2(z) - min(pow2(z), 1)
		case 2:
			r = pow2(z) / 2
		}
		return r
	}
	switch k {
	case 0:
		return rapid.Float64Range(-clampLat, clampLat).Draw(rt, "lat"), k
	case 1:
		return sign * clampLat, k
	case 2:
		return sign * edgeLat, k
	case 3:
		return sign * 90, k
	case 4:
		switch rapid.IntRange(0, 4).Draw(rt, "far") {
		case 0:
			return sign * math.MaxFloat64, k
		case 1:
			return sign * math.Inf(1), k
		case 2:
			return sign * rapid.Float64Range(clampLat, edgeLat).Draw(rt, "latb"), k
		case 3:
			return sign * rapid.Float64Range(90, 1e6).Draw(rt, "latc"), k
		}
		return sign * rapid.Float64Range(clampLat, 90).Draw(rt, "lata"), k
	case 5:
		return modelLat(row(), z), k
	case 6:
		r := row()
		if r == pow2(z) {
			return maptile.New(0, uint32(r-1), maptile.Zoom(z)).Bound().Min[1], k
		}
		return maptile.New(0, uint32(r), maptile.Zoom(z)).Bound().Max[1], k
	case 7:
		v := modelLat(row(), z)
		if rapid.Bool().Draw(rt, "up") {
			return math.Nextafter(v, 100), k
		}
		return math.Nextafter(v, -100), k
	case 8:
		if rapid.Bool().Draw(rt, "zero") {
			return math.Copysign(0, sign), k
		}
		return float64(rapid.IntRange(-85, 85).Draw(rt, "ilat")), k
	}
	if rapid.Bool().Draw(rt, "out") {
		return sign * math.Nextafter(clampLat, 100), k
	}
	return sign * math.Nextafter(clampLat, 0), k
}

// onEdge: the longitude is exactly a column edge of zoom z, or the latitude
// class puts the point on a row edge inside the clamp range.
func onEdge(lon, lat float64, z uint32, latClass int) bool {
	fx := modelFracX(lon, z)
	if fx == math.Floor(fx) {
		return true
	}
	return (latClass == 5 || latClass == 6) && math.Abs(lat) <= clampLat
}

func TestPropPoint(t *testing.T) {
	stats.Assume("points have longitude in [-180, 180] and any latitude except NaN (+-Inf and +-MaxFloat64 included); zoom 0..30")
	stats.Assume("for latitudes strictly between 85.0511 and 85.05112877980659 (either sign) the quantifier's clamp is accepted: the tile may be the top/bottom row even when its bound does not contain the latitude")
	stats.Check(t, 800000, 4000000, func(rt *rapid.T) {
		c, nt := drawPoint(rt)
		if nt {
			stats.NonTrivial(gen.JSON(c))
			if stats.WantSample("point") {
				stats.Sample("point", c)
			}
		}
		stats.Try(rt, "TestPropPoint", c, func() error { return checkCase(c) })
	})
}

func drawPoint(rt *rapid.T) (Case, bool) {
	{
		z := genZoom(rt, 0, maxZoom)
		lon, lk := genLon(rt, z)
		lat, ak := genLat(rt, z)
		c := Case{Kind: "point", A: T{Z: z}, Lon: gen.F(lon), Lat: gen.F(lat)}
		stats.Class("lon:" + lonNames[lk])
		stats.Class("lat:" + latNames[ak])
		stats.Class("point " + zoomBand(z))
		return c, z >= 1 && onEdge(lon, lat, z, ak)
	}
}

// ---------------------------------------------------------------- enumerations

func enumKey(kind uint64, t T, extra uint64) uint64 {
	h := uint64(0x9e3779b97f4a7c15) ^ kind
	for _, v := range [4]uint64{uint64(t.X), uint64(t.Y), uint64(t.Z), extra} {
		h ^= v + 0x9e3779b97f4a7c15 + (h << 6) + (h >> 2)
		h *= 0xbf58476d1ce4e5b9
		h ^= h >> 31
	}
	return h
}

// TestEnumTiles: every tile up to zoom 8 (thorough: 10): the whole single-tile
// check, Range for every zoom 0..30 and ChildrenInZoomRange for every zoom
// interval within 3 levels below the tile.
func TestEnumTiles(t *testing.T) {
	top := uint32(8)
	if stats.Thorough() {
		top = 10
	}
	var idx, size int64
	for z := uint32(0); z <= top; z++ {
		n := uint32(pow2(z))
		for x := uint32(0); x < n; x++ {
			for y := uint32(0); y < n; y++ {
				idx++
				size++
				if !stats.Mine(idx) {
					continue
				}
				tl := T{x, y, z}
				c := Case{Kind: "tile", A: tl}
				stats.Eval("TestEnumTiles", 1)
				if highBit(tl) {
					stats.NonTrivialHash(enumKey(1, tl, 0))
				}
				stats.TryT(t, "TestEnumTiles", c, func() error { return checkCase(c) })
				for z2 := uint32(0); z2 <= maxZoom; z2++ {
					rc := Case{Kind: "range", A: tl, Z2: z2}
					if z2 == z {
						// with the same-zoom query run every ChildrenInZoomRange interval within 3 levels
						for ds := uint32(0); ds <= 3; ds++ {
							for de := ds; de <= 3; de++ {
								rc.CIZR, rc.ZS, rc.ZE = true, z+ds, z+de
								stats.Eval("TestEnumTiles", 1)
								stats.TryT(t, "TestEnumTiles", rc, func() error { return checkCase(rc) })
							}
						}
						continue
					}
					stats.Eval("TestEnumTiles", 1)
					if z >= 1 && z2 > z { // deeper zooms only: keeps the per-shard hash set below its cap
						stats.NonTrivialHash(enumKey(2, tl, uint64(z2)))
					}
					stats.TryT(t, "TestEnumTiles", rc, func() error { return checkCase(rc) })
				}
			}
		}
	}
	stats.Subspace(fmt.Sprintf("every tile with zoom <= %d: single-tile clauses, Range to every zoom 0..30, ChildrenInZoomRange over every zoom interval within 3 levels below", top), size, true)
}

// TestEnumPairs: every ordered pair of tiles up to zoom 4 (thorough: 5).
func TestEnumPairs(t *testing.T) {
	top := uint32(4)
	if stats.Thorough() {
		top = 5
	}
	var tiles []T
	for z := uint32(0); z <= top; z++ {
		n := uint32(pow2(z))
		for x := uint32(0); x < n; x++ {
			for y := uint32(0); y < n; y++ {
				tiles = append(tiles, T{x, y, z})
			}
		}
	}
	var idx int64
	for _, a := range tiles {
		for _, b := range tiles {
			idx++
			if !stats.Mine(idx) {
				continue
			}
			c := Case{Kind: "pair", A: a, B: b}
			stats.Eval("TestEnumPairs", 1)
			if a.Z != b.Z {
				stats.NonTrivialHash(enumKey(3, a, uint64(b.X)<<40|uint64(b.Y)<<8|uint64(b.Z)))
			}
			stats.TryT(t, "TestEnumPairs", c, func() error { return checkCase(c) })
		}
	}
	stats.Subspace(fmt.Sprintf("every ordered pair of tiles with zoom <= %d: Contains and SharedParent", top), idx, true)
}

// special latitudes used with every column edge
var specialLats = []float64{
	0, math.Copysign(0, -1), 1, -1, 45, -45, 66.51326044311186, 84, -84, 85, -85,
	clampLat, -clampLat, 85.05109999999999, -85.05109999999999, 85.05110000000001, -85.05110000000001,
	edgeLat, -edgeLat, 85.0511287798066, -85.0511287798066, 86, -86, 89.9, -89.9, 90, -90, 91, -91, 180, -180, 1e300, -1e300,
	math.MaxFloat64, -math.MaxFloat64, math.Inf(1), math.Inf(-1),
}

// TestEnumEdgePoints: for every zoom up to 6 (thorough: 8) every point whose
// longitude is a column edge (including +-180) and whose latitude is a row edge
// (as Tile.Bound states it) or one of the special latitudes; and for every zoom
// up to 30 the longitudes -180, 0, 180 and their float neighbours with every
// special latitude (the formerly failing lon = 180 family).
func TestEnumEdgePoints(t *testing.T) {
	top := uint32(6)
	if stats.Thorough() {
		top = 8
	}
	var idx int64
	run := func(lon, lat float64, z uint32, nt bool) {
		idx++
		if !stats.Mine(idx) {
			return
		}
		c := Case{Kind: "point", A: T{Z: z}, Lon: gen.F(lon), Lat: gen.F(lat)}
		stats.Eval("TestEnumEdgePoints", 1)
		if nt && z >= 1 {
			stats.NonTrivial(gen.JSON(c))
		}
		stats.TryT(t, "TestEnumEdgePoints", c, func() error { return checkCase(c) })
	}
	for z := uint32(0); z <= top; z++ {
		n := pow2(z)
		lats := append([]float64{}, specialLats...)
		for r := uint64(0); r < n; r++ {
			b := maptile.New(0, uint32(r), maptile.Zoom(z)).Bound()
			lats = append(lats, b.Max[1])
			if r == n-1 {
				lats = append(lats, b.Min[1])
			}
		}
		for k := uint64(0); k <= n; k++ {
			lon := float64(k)*360/float64(n) - 180
			for _, lat := range lats {
				run(lon, lat, z, true)
			}
		}
	}
	lons := []float64{-180, math.Nextafter(-180, 0), math.Copysign(0, -1), 0, math.Nextafter(180, 0), 180}
	for z := uint32(0); z <= maxZoom; z++ {
		for _, lon := range lons {
			for _, lat := range specialLats {
				run(lon, lat, z, math.Abs(lon) == 180 || lon == 0)
			}
		}
	}
	stats.Subspace(fmt.Sprintf("points on every column edge x (every row edge + %d special latitudes) for zoom <= %d, and lon in {-180, 0, 180 and float neighbours} x special latitudes for zoom 0..30", len(specialLats), top), idx, true)
}

// ---------------------------------------------------------------- known finding

const polarKey = "maptile-center-polar-clamp"

// polar witnesses: tiles next to the poles from zoom 21 on whose centre
// latitude lies beyond +-85.0511.
var polarWitnesses = []T{
	{0, 1, 21}, {5, 1, 21}, {1<<21 - 1, 1<<21 - 2, 21}, {5, 2, 22}, {5, 5, 30}, {5, 1<<30 - 3, 30}, {1 << 29, 900, 30},
}

// TestKnownPolarCentre runs the centre clause on the witnesses of the family
// that TestProp*/TestEnum* leave out (counted under excluded_known).
func TestKnownPolarCentre(t *testing.T) {
	if i, _ := stats.Shard(); i != 0 {
		return
	}
	for _, w := range polarWitnesses {
		if !polarCentre(w) {
			t.Fatalf("harness: witness %v is not in the excluded family", w)
		}
		c := Case{Kind: "tile-centre", A: w}
		stats.Eval("TestKnownPolarCentre", 1)
		err := stats.Guard(func() error { return checkTile(w, true) })
		if err == nil {
			continue
		}
		if _, ok := kf.Get("C13", polarKey); ok {
			stats.Known(polarKey, fmt.Sprintf("%v [finding %s: centres of tiles next to the poles at zoom >= 21 do not map back to their tile]", err, polarKey))
			continue
		}
		p := stats.RecordFailure("TestKnownPolarCentre", c, err)
		t.Fatalf("TestKnownPolarCentre: %v (replay %s)", err, p)
	}
}

// ---------------------------------------------------------------- replay

func TestReplay(t *testing.T) {
	name, raw, ok := stats.Replaying()
	if !ok {
		t.Skip("no replay file")
	}
	if name == "TestPropConcurrent" {
		var cs []Case
		if err := json.Unmarshal(raw, &cs); err != nil {
			t.Fatal(err)
		}
		for k := 0; k < 20; k++ {
			if err := stats.ParallelErr(len(cs), 200, func(i int) error { return checkCase(cs[i]) }); err != nil {
				t.Fatalf("replayed concurrent group still fails: %v", err)
			}
		}
		return
	}
	var c Case
	if err := json.Unmarshal(raw, &c); err != nil {
		t.Fatal(err)
	}
	f := func() error { return checkCase(c) }
	if c.Kind == "tile-centre" {
		f = func() error { return checkTile(c.A, true) }
	}
	if err := stats.Guard(f); err != nil {
		t.Fatalf("replayed case still fails: %v", err)
	}
}
