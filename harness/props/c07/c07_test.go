// Package c07 decides property C07 (line clipping returns exactly the part of
// the line inside the box) by exhaustive lattice enumeration and generated
// search against the exact rational model in internal/exact.
package c07

import (
	"encoding/json"
	"fmt"
	"math"
	"reflect"
	"testing"
	"time"

	"github.com/paulmach/orb"
	"github.com/paulmach/orb/clip"
	"pgregory.net/rapid"

	"verifharness/internal/exact"
	"verifharness/internal/gen"
	"verifharness/internal/kf"
	"verifharness/internal/stats"
)

func TestMain(m *testing.M) {
	// a clip call takes microseconds; a case that needs 10 s is a hang (the
	// corner ping-pong of finding clip-line-corner-hang looked like that)
	stats.SetLimits(40*time.Second, 3<<30) // the top rungs of the size ladder cost up to ~10 s of process CPU
	stats.Main(m, "C07")
}

func classify(c Case, group string) {
	box := c.Box.Bound()
	nt := false
	for _, ls := range c.lines() {
		r := model(box, ls, c.Open) // the contact flags refer to the closed box whatever the option
		if r.Partial {
			stats.Class("contact:segment crosses boundary")
		}
		if r.OnBoundary {
			stats.Class("contact:vertex on boundary")
		}
		if r.AlongEdge {
			stats.Class("contact:segment along edge")
		}
		if r.Partial || r.OnBoundary || r.AlongEdge {
			nt = true
		}
		ro := r
		switch n := len(ro.Runs); {
		case n == 0:
			stats.Class("runs:0")
		case n == 1:
			stats.Class("runs:1")
		default:
			stats.Class("runs:>=2")
		}
		for _, run := range ro.Runs {
			if run.Zero {
				stats.Class("runs:has point-like run")
				break
			}
		}
	}
	if c.Open {
		stats.Class("option:open")
	} else {
		stats.Class("option:closed")
	}
	if len(c.Lines) > 1 {
		stats.Class("lines:several (MultiLineString)")
	}
	if nt {
		stats.Class("nontrivial")
		stats.NonTrivial(gen.JSON(c))
		if stats.WantSample(group) {
			stats.Sample(group, c)
		}
	}
}

// ---------------------------------------------------------------- generators

type ptGen func(t *rapid.T) orb.Point

// path draws 2..8 vertices, repeating the previous vertex with probability 1/8.
func path(t *rapid.T, p ptGen) orb.LineString {
	n := rapid.IntRange(2, 8).Draw(t, "n")
	ls := make(orb.LineString, n)
	for i := range ls {
		ls[i] = p(t)
		if i > 0 && rapid.IntRange(0, 7).Draw(t, "rep") == 0 {
			ls[i] = ls[i-1]
		}
	}
	return ls
}

// degenerate draws the inputs without a proper segment: nil, empty, one vertex, all-equal vertices.
func degenerate(t *rapid.T, p ptGen) orb.LineString {
	switch rapid.IntRange(0, 3).Draw(t, "deg") {
	case 0:
		return nil
	case 1:
		return orb.LineString{}
	case 2:
		return orb.LineString{p(t)}
	}
	n := rapid.IntRange(2, 5).Draw(t, "n")
	q := p(t)
	ls := make(orb.LineString, n)
	for i := range ls {
		ls[i] = q
	}
	return ls
}

func orderedInts(t *rapid.T, lo, hi int, label string) (int, int) {
	a := rapid.IntRange(lo, hi-1).Draw(t, label+"0")
	b := rapid.IntRange(a+1, hi).Draw(t, label+"1")
	return a, b
}

// palette positions per axis relative to [lo,hi]: outside below, on lo, inside (3 choices), on hi, outside above.
func paletteCoord(t *rapid.T, lo, hi float64, label string) float64 {
	w := hi - lo
	switch rapid.IntRange(0, 7).Draw(t, label) {
	case 0:
		return lo - w/2
	case 1, 2:
		return lo
	case 3:
		return lo + w/4
	case 4:
		return lo + w/2
	case 5, 6:
		return hi
	}
	return hi + w/2
}

func drawGridCase(t *rapid.T) (Case, string) {
	var box orb.Bound
	var p ptGen
	class := rapid.IntRange(0, 3).Draw(t, "class")
	name := ""
	switch class {
	case 0: // the enumeration's lattice, longer paths
		name = "grid:7x7 integer"
		x0, x1 := orderedInts(t, 1, 5, "bx")
		y0, y1 := orderedInts(t, 1, 5, "by")
		box = orb.Bound{Min: orb.Point{float64(x0), float64(y0)}, Max: orb.Point{float64(x1), float64(y1)}}
		p = func(t *rapid.T) orb.Point {
			return orb.Point{float64(rapid.IntRange(0, 6).Draw(t, "x")), float64(rapid.IntRange(0, 6).Draw(t, "y"))}
		}
	case 1: // half-integer lattice
		name = "grid:half-integer"
		x0, x1 := orderedInts(t, 2, 10, "bx")
		y0, y1 := orderedInts(t, 2, 10, "by")
		box = orb.Bound{Min: orb.Point{float64(x0) / 2, float64(y0) / 2}, Max: orb.Point{float64(x1) / 2, float64(y1) / 2}}
		p = func(t *rapid.T) orb.Point {
			return orb.Point{float64(rapid.IntRange(0, 12).Draw(t, "x")) / 2, float64(rapid.IntRange(0, 12).Draw(t, "y")) / 2}
		}
	case 2: // larger signed lattice
		name = "grid:signed 41x41"
		x0, x1 := orderedInts(t, -12, 12, "bx")
		y0, y1 := orderedInts(t, -12, 12, "by")
		box = orb.Bound{Min: orb.Point{float64(x0), float64(y0)}, Max: orb.Point{float64(x1), float64(y1)}}
		p = func(t *rapid.T) orb.Point {
			return orb.Point{float64(rapid.IntRange(x0-5, x1+5).Draw(t, "x")), float64(rapid.IntRange(y0-5, y1+5).Draw(t, "y"))}
		}
	default: // palette: every vertex on, just inside or just outside the box lines
		name = "grid:palette"
		x0, x1 := orderedInts(t, -8, 8, "bx")
		y0, y1 := orderedInts(t, -8, 8, "by")
		box = orb.Bound{Min: orb.Point{float64(2 * x0), float64(2 * y0)}, Max: orb.Point{float64(2 * x1), float64(2 * y1)}}
		p = func(t *rapid.T) orb.Point {
			return orb.Point{paletteCoord(t, box.Min[0], box.Max[0], "px"), paletteCoord(t, box.Min[1], box.Max[1], "py")}
		}
	}
	c, name := finishCase(t, box, rapid.Bool().Draw(t, "open"), p, name, false)
	return c, name
}

// signedZeros (one lattice case in eight, before any rescaling): translate the case so
// that the box's lower left corner is the origin and give every zero coordinate a
// random sign: -0 and +0 are the same number on an edge.
func signedZeros(t *rapid.T, c Case) Case {
	if rapid.IntRange(0, 7).Draw(t, "zeros") != 0 {
		return c
	}
	ox, oy := float64(c.Box.Min[0]), float64(c.Box.Min[1])
	mode := rapid.IntRange(0, 2).Draw(t, "zsign")
	k := 0
	z := func(v float64, isBox bool) float64 {
		if v != 0 {
			return v
		}
		k++
		if mode == 0 || (mode == 1 && !isBox) || (mode == 2 && k%2 == 0) {
			return math.Copysign(0, -1)
		}
		return 0
	}
	mv := func(p gen.P, isBox bool) gen.P {
		return gen.P{gen.F(z(float64(p[0])-ox, isBox)), gen.F(z(float64(p[1])-oy, isBox))}
	}
	c.Box.Min, c.Box.Max = mv(c.Box.Min, true), mv(c.Box.Max, true)
	for i := range c.Lines {
		for j := range c.Lines[i] {
			c.Lines[i][j] = mv(c.Lines[i][j], false)
		}
	}
	stats.Class("signed zeros on the box edges")
	return c
}

func finishCase(t *rapid.T, box orb.Bound, open bool, p ptGen, name string, snap bool) (Case, string) {
	c := Case{Box: gen.FromBound(box), Open: open}
	nl := 1
	if rapid.IntRange(0, 4).Draw(t, "multi") == 0 {
		nl = rapid.IntRange(2, 3).Draw(t, "nl")
	}
	for i := 0; i < nl; i++ {
		var ls orb.LineString
		if rapid.IntRange(0, 11).Draw(t, "degq") == 0 {
			ls = degenerate(t, p)
			if i == 0 {
				name = "degenerate:0/1 vertex or all equal"
			}
		} else {
			ls = path(t, p)
		}
		if snap {
			snapNearAxis(ls)
		}
		c.Lines = append(c.Lines, gen.Pts(ls))
	}
	if !snap {
		c = signedZeros(t, c)
	}
	c = aliasLines(t, c)
	// exact change of length scale: multiply everything by 2^k (the exact model scales with it;
	// a tolerance with an absolute unit would become vacuous or false at the far ends)
	if rapid.IntRange(0, 3).Draw(t, "rescale") == 0 {
		k := rapid.IntRange(-60, 60).Draw(t, "k")
		sc := func(p gen.P) gen.P { return gen.P{gen.F(math.Ldexp(float64(p[0]), k)), gen.F(math.Ldexp(float64(p[1]), k))} }
		c.Box.Min, c.Box.Max = sc(c.Box.Min), sc(c.Box.Max)
		for i := range c.Lines {
			for j := range c.Lines[i] {
				c.Lines[i][j] = sc(c.Lines[i][j])
			}
		}
		if c.Alias != nil {
			for j := range c.Alias.Backing {
				c.Alias.Backing[j] = sc(c.Alias.Backing[j])
			}
		}
		stats.Class("rescaled by 2^k, k in -60..60")
	}
	return c, name
}

// aliasLines (one case in six): replace the lines of the case by windows of ONE backing array - the
// same slice twice, equal start with different lengths, overlapping windows, a prefix of the whole.
func aliasLines(t *rapid.T, c Case) Case {
	if rapid.IntRange(0, 5).Draw(t, "alias") != 0 {
		return c
	}
	var backing []gen.P
	for _, l := range c.Lines {
		backing = append(backing, l...)
	}
	if len(backing) < 2 {
		return c
	}
	n := rapid.IntRange(2, 4).Draw(t, "windows")
	a := &Alias{Backing: backing}
	c.Lines = nil
	for i := 0; i < n; i++ {
		var s, l int
		switch k := rapid.IntRange(0, 3).Draw(t, "wk"); {
		case k == 0 && i > 0: // the same slice again
			s, l = a.Win[i-1][0], a.Win[i-1][1]
		case k == 1 && i > 0: // same start, another length
			s = a.Win[i-1][0]
			l = rapid.IntRange(0, len(backing)-s).Draw(t, "len")
		case k == 2: // a prefix of the whole array
			s, l = 0, rapid.IntRange(1, len(backing)).Draw(t, "len")
		default:
			s = rapid.IntRange(0, len(backing)-1).Draw(t, "start")
			l = rapid.IntRange(0, len(backing)-s).Draw(t, "len")
		}
		a.Win = append(a.Win, [2]int{s, l})
		c.Lines = append(c.Lines, append([]gen.P{}, backing[s:s+l]...))
	}
	c.Alias = a
	stats.Class("lines of the MultiLineString alias each other")
	return c
}

// snapNearAxis makes segments that are within 1e-5 rad of an axis direction
// exactly axis-parallel (see the assumption in TestPropFloatPaths).
func snapNearAxis(ls orb.LineString) {
	for i := 0; i+1 < len(ls); i++ {
		dx, dy := math.Abs(ls[i+1][0]-ls[i][0]), math.Abs(ls[i+1][1]-ls[i][1])
		if dy != 0 && dy < 1e-5*dx {
			ls[i+1][1] = ls[i][1]
		}
		if dx != 0 && dx < 1e-5*dy {
			ls[i+1][0] = ls[i][0]
		}
	}
}

var scales = []float64{1, 1, 1e-3, 22.5, 2.5e6}

func drawFloatCase(t *rapid.T) (Case, string) {
	open := rapid.Bool().Draw(t, "open")
	var box orb.Bound
	var p ptGen
	name := ""
	switch rapid.IntRange(0, 7).Draw(t, "class") {
	case 7: // class M4: lattice sized box, some vertices 2^21..2^40 box sizes away (c +/- 2^k*(dx,dy), often as an
		// opposite pair so that the segment between them passes through c obliquely): only PART of the case is rescaled
		name = "float:small box, vertices 2^21..2^40 box sizes away"
		x0, x1 := orderedInts(t, 0, 4, "bx")
		y0, y1 := orderedInts(t, 0, 4, "by")
		box = orb.Bound{Min: orb.Point{float64(x0), float64(y0)}, Max: orb.Point{float64(x1), float64(y1)}}
		var pending *orb.Point
		p = func(t *rapid.T) orb.Point {
			if pending != nil {
				q := *pending
				pending = nil
				return q
			}
			c := orb.Point{float64(rapid.IntRange(4*x0-6, 4*x1+6).Draw(t, "cx")) / 4, float64(rapid.IntRange(4*y0-6, 4*y1+6).Draw(t, "cy")) / 4}
			if rapid.IntRange(0, 3).Draw(t, "nearvertex") == 0 {
				return c
			}
			dx, dy := rapid.IntRange(-2, 2).Draw(t, "dx"), rapid.IntRange(-2, 2).Draw(t, "dy")
			if dx == 0 && dy == 0 {
				dx = 1
			}
			f := math.Ldexp(1, rapid.IntRange(21, 40).Draw(t, "k"))
			if rapid.Bool().Draw(t, "pair") {
				pending = &orb.Point{c[0] - f*float64(dx), c[1] - f*float64(dy)}
			}
			return orb.Point{c[0] + f*float64(dx), c[1] + f*float64(dy)}
		}
	case 5, 6: // a small box far from the origin (map tile in projected metres), paths that cross its
		// edges at shallow angles: the cut must be as accurate as a well-conditioned evaluation makes it
		name = "float:small box far from the origin, shallow crossings"
		off := func(l string) float64 {
			switch rapid.IntRange(0, 2).Draw(t, l+"k") {
			case 0:
				return rapid.Float64Range(-2e7, 2e7).Draw(t, l)
			case 1:
				return rapid.Float64Range(1e8, 1e9).Draw(t, l) * float64(2*rapid.IntRange(0, 1).Draw(t, l+"s")-1)
			}
			return rapid.Float64Range(-2e6, 2e6).Draw(t, l)
		}
		w, h := rapid.Float64Range(1, 100).Draw(t, "w"), rapid.Float64Range(1, 100).Draw(t, "h")
		box = orb.Bound{Min: orb.Point{off("ox"), off("oy")}}
		box.Max = orb.Point{box.Min[0] + w, box.Min[1] + h}
		var prev *orb.Point
		p = func(t *rapid.T) orb.Point {
			var q orb.Point
			switch k := rapid.IntRange(0, 5).Draw(t, "pk"); {
			case k == 0 || (prev == nil && k >= 3): // anywhere around the box
				q = orb.Point{rapid.Float64Range(box.Min[0]-w, box.Max[0]+w).Draw(t, "x"), rapid.Float64Range(box.Min[1]-h, box.Max[1]+h).Draw(t, "y")}
			case k <= 2: // next to an edge line (within 1/1000 of the box size), anywhere along it
				d := rapid.IntRange(0, 1).Draw(t, "axis")
				size := [2]float64{w, h}
				edge := []float64{box.Min[d], box.Max[d]}[rapid.IntRange(0, 1).Draw(t, "side")]
				q[d] = edge + size[d]*rapid.Float64Range(-1e-3, 1e-3).Draw(t, "perp")
				q[1-d] = rapid.Float64Range(box.Min[1-d]-size[1-d]/2, box.Max[1-d]+size[1-d]/2).Draw(t, "along")
			default: // a shallow step from the previous vertex: slope 1e-4 .. 1e-1 against an axis
				d := rapid.IntRange(0, 1).Draw(t, "axis")
				m := math.Pow(10, -rapid.Float64Range(1, 4).Draw(t, "slope")) * float64(2*rapid.IntRange(0, 1).Draw(t, "ms")-1)
				l := []float64{w, h}[d] * rapid.Float64Range(0.2, 3).Draw(t, "len") * float64(2*rapid.IntRange(0, 1).Draw(t, "ls")-1)
				q[d] = (*prev)[d] + l
				q[1-d] = (*prev)[1-d] + l*m
			}
			prev = &q
			return q
		}
	case 4: // segments through or within rounding of a box corner, off the lattice (findings
		// clip-line-corner-hang and clip-line-open-nan lived here): box corners k/3, k/10, k*0.7+c;
		// vertices are corners, or a corner plus a multiple of a small integer direction
		name = "float:near-corner"
		u := rapid.SampledFrom([]float64{1.0 / 3, 0.1, 0.7, 1e-3 / 3, 1e5 / 7}).Draw(t, "unit")
		off := rapid.SampledFrom([]float64{0, 0, 1.0 / 7, -1e3}).Draw(t, "off")
		x0, x1 := orderedInts(t, -4, 8, "bx")
		y0, y1 := orderedInts(t, -4, 8, "by")
		box = orb.Bound{Min: orb.Point{float64(x0)*u + off, float64(y0)*u + off}, Max: orb.Point{float64(x1)*u + off, float64(y1)*u + off}}
		corners := []orb.Point{box.Min, {box.Max[0], box.Min[1]}, box.Max, {box.Min[0], box.Max[1]}}
		p = func(t *rapid.T) orb.Point {
			k := rapid.SampledFrom(corners).Draw(t, "corner")
			switch rapid.IntRange(0, 5).Draw(t, "how") {
			case 0:
				return k
			case 1: // lattice point in the units of the box
				return orb.Point{float64(rapid.IntRange(x0-3, x1+3).Draw(t, "x"))*u + off, float64(rapid.IntRange(y0-3, y1+3).Draw(t, "y"))*u + off}
			}
			dx, dy := rapid.IntRange(-3, 3).Draw(t, "dx"), rapid.IntRange(-3, 3).Draw(t, "dy")
			m := float64(rapid.IntRange(1, 4).Draw(t, "m")) * rapid.SampledFrom([]float64{1, 0.5, 1.0 / 3, 2}).Draw(t, "f")
			return orb.Point{k[0] + float64(dx)*m*u, k[1] + float64(dy)*m*u}
		}
	case 0, 1: // general position
		name = "float:general position"
		s := rapid.SampledFrom(scales).Draw(t, "scale")
		f := func(lo, hi float64, l string) float64 { return rapid.Float64Range(lo*s, hi*s).Draw(t, l) }
		box = orb.Bound{Min: orb.Point{f(0, 3, "bx0"), f(0, 3, "by0")}, Max: orb.Point{f(3.01, 6, "bx1"), f(3.01, 6, "by1")}}
		p = func(t *rapid.T) orb.Point {
			return orb.Point{rapid.Float64Range(-2*s, 8*s).Draw(t, "x"), rapid.Float64Range(-2*s, 8*s).Draw(t, "y")}
		}
	case 2: // float box, vertices on / inside / outside its lines
		name = "float:palette on float box"
		s := rapid.SampledFrom(scales).Draw(t, "scale")
		f := func(lo, hi float64, l string) float64 { return rapid.Float64Range(lo*s, hi*s).Draw(t, l) }
		box = orb.Bound{Min: orb.Point{f(-3, 3, "bx0"), f(-3, 3, "by0")}}
		box.Max = orb.Point{box.Min[0] + f(0.5, 6, "bw"), box.Min[1] + f(0.5, 6, "bh")}
		p = func(t *rapid.T) orb.Point {
			var q orb.Point
			for d := 0; d < 2; d++ {
				lo, hi := box.Min[d], box.Max[d]
				w := hi - lo
				switch rapid.IntRange(0, 6).Draw(t, "pk") {
				case 0:
					q[d] = lo
				case 1:
					q[d] = hi
				case 2, 3:
					q[d] = rapid.Float64Range(lo, hi).Draw(t, "in")
				case 4:
					q[d] = rapid.Float64Range(lo-w, lo).Draw(t, "below")
				case 5:
					q[d] = rapid.Float64Range(hi, hi+w).Draw(t, "above")
				default:
					q[d] = lo + w/2
				}
			}
			return q
		}
	default: // lattice picture under an affine map with awkward constants: boundary vertices and edge runs
		// survive exactly (equal inputs map to equal floats), corner crossings become near misses
		name = "float:transformed lattice"
		sx := rapid.SampledFrom([]float64{0.1, 1.0 / 3, 1e-3, 7.3, 1e6}).Draw(t, "sx")
		sy := rapid.SampledFrom([]float64{0.1, 1.0 / 3, 1e-3, 7.3, 1e6}).Draw(t, "sy")
		ox := rapid.SampledFrom([]float64{0, 0.1, -1e3, 12345.678}).Draw(t, "ox")
		oy := rapid.SampledFrom([]float64{0, 0.1, -1e3, 12345.678}).Draw(t, "oy")
		fx := func(v int) float64 { return float64(v)*sx + ox }
		fy := func(v int) float64 { return float64(v)*sy + oy }
		x0, x1 := orderedInts(t, 1, 5, "bx")
		y0, y1 := orderedInts(t, 1, 5, "by")
		box = orb.Bound{Min: orb.Point{fx(x0), fy(y0)}, Max: orb.Point{fx(x1), fy(y1)}}
		p = func(t *rapid.T) orb.Point {
			return orb.Point{fx(rapid.IntRange(0, 6).Draw(t, "x")), fy(rapid.IntRange(0, 6).Draw(t, "y"))}
		}
	}
	return finishCase(t, box, open, p, name, true)
}

func assumptions() {
	stats.Assume("coordinates are finite; boxes have positive width and height")
	stats.Assume("tolerances have no absolute unit (K = 64, eps = 2^-52): an end point produced by one intersection of segment a->b with an edge: free coordinate within K*eps*(max|a,b| + |b-a|) of the exact crossing; an end point reached through two intersections (corner region, next to a corner, exit of a segment whose entry was computed): the first bound times the slope against the second edge in addition (factor 2); inner vertices bit-equal to input vertices; containment exact")
	stats.Assume("runs/pieces that are a point or shorter than twice the largest two-intersection bound of the line are optional on both sides (measure-zero contact, DESIGN 3.2)")
	stats.Assume("'clipping a piece again returns it unchanged' is demanded bit-for-bit for the closed box; with the open option the second clip must give the piece back within 64 ulps per vertex (end points: the two-intersection bound)")
	stats.Assume("a result split at an input vertex into pieces that meet end-to-start is accepted as the same point set")
}

func TestPropGridPaths(t *testing.T) {
	assumptions()
	stats.Check(t, 400000, 6000000, func(rt *rapid.T) {
		c, name := drawGridCase(rt)
		stats.Class(name)
		classify(c, "grid")
		stats.Try(rt, "TestPropGridPaths", c, func() error { return checkCase(c) })
	})
	noteWorst("grid")
}

func TestPropFloatPaths(t *testing.T) {
	assumptions()
	stats.Assume("float paths: a segment within 1e-5 rad of an axis direction is made exactly axis-parallel (for a line almost parallel to an edge the two-intersection bound, which also decides what counts as point-like, grows with the slope and would make the case vacuous)")
	stats.Check(t, 120000, 2400000, func(rt *rapid.T) {
		c, name := drawFloatCase(rt)
		stats.Class(name)
		classify(c, "float")
		stats.Try(rt, "TestPropFloatPaths", c, func() error { return checkCase(c) })
	})
	noteWorst("float")
}

// noteWorst records the worst observed |error|/bound of computed end points so far (per shard).
func noteWorst(after string) {
	sh, _ := stats.Shard()
	stats.Note(fmt.Sprintf("worst_error_over_bound_after_%s_shard%d", after, sh),
		fmt.Sprintf("single-intersection end points %.3g, two-intersection end points %.3g", worstRatio[0], worstRatio[1]))
}

// ---------------------------------------------------------------- concurrent callers

// drawBigCase: paths of 20..300 vertices winding in and out of the box (so that one
// clip call lasts long enough to overlap with others), or an ordinary case.
func drawBigCase(t *rapid.T) Case {
	switch rapid.IntRange(0, 5).Draw(t, "bigkind") {
	case 0:
		c, _ := drawGridCase(t)
		return c
	case 1:
		c, _ := drawFloatCase(t)
		return c
	}
	lattice := rapid.IntRange(0, 3).Draw(t, "lattice") != 0 // the exact model is ten times cheaper on the lattice
	var box orb.Bound
	var p ptGen
	if lattice {
		x0, x1 := orderedInts(t, 2, 10, "bx")
		y0, y1 := orderedInts(t, 2, 10, "by")
		box = orb.Bound{Min: orb.Point{float64(x0), float64(y0)}, Max: orb.Point{float64(x1), float64(y1)}}
		p = func(t *rapid.T) orb.Point {
			return orb.Point{float64(rapid.IntRange(0, 24).Draw(t, "x")) / 2, float64(rapid.IntRange(0, 24).Draw(t, "y")) / 2}
		}
	} else {
		f := func(lo, hi float64, l string) float64 { return rapid.Float64Range(lo, hi).Draw(t, l) }
		box = orb.Bound{Min: orb.Point{f(0, 3, "bx0"), f(0, 3, "by0")}, Max: orb.Point{f(3.01, 6, "bx1"), f(3.01, 6, "by1")}}
		p = func(t *rapid.T) orb.Point { return orb.Point{f(-2, 8, "x"), f(-2, 8, "y")} }
	}
	c := Case{Box: gen.FromBound(box), Open: rapid.Bool().Draw(t, "open")}
	for i, nl := 0, rapid.IntRange(1, 3).Draw(t, "nl"); i < nl; i++ {
		n := rapid.IntRange(20, 300).Draw(t, "n")
		if !lattice {
			n = 20 + n/3
		}
		ls := make(orb.LineString, n)
		for j := range ls {
			ls[j] = p(t)
		}
		if !lattice {
			snapNearAxis(ls)
		}
		c.Lines = append(c.Lines, gen.Pts(ls))
	}
	return c
}

// concurrentGroup: every case is first checked alone (full oracle), its
// results are recorded, and then all cases are clipped at the same time on
// their own goroutines, `rounds` times each: clip.LineString,
// clip.MultiLineString and clip.Geometry depend on their arguments only, so
// every concurrent result must be bit-identical to the one computed alone.
func concurrentGroup(cs []Case, rounds int) (refs [][]orb.Geometry, f func(i int) error, err error) {
	refs = make([][]orb.Geometry, len(cs))
	for i, c := range cs {
		if err := stats.Guard(func() error { return checkCase(c) }); err != nil {
			return nil, nil, fmt.Errorf("case %d of the group fails on its own: %w", i, err)
		}
		refs[i] = outputs(c)
	}
	reps := make([]int, len(cs))
	for i, c := range cs {
		v := 0
		for _, l := range c.Lines {
			v += len(l)
		}
		reps[i] = max(1, min(100, 300/(v+1))) // short calls are repeated: many entries per round
	}
	return refs, func(i int) error {
		for k := 0; k < reps[i]; k++ {
			if err := sameOutputs(outputs(cs[i]), refs[i]); err != nil {
				return err
			}
		}
		return nil
	}, nil
}

func TestPropConcurrent(t *testing.T) {
	assumptions()
	stats.Check(t, 1200, 50000, func(rt *rapid.T) {
		n := rapid.IntRange(2, 8).Draw(rt, "goroutines")
		cs := make([]Case, n)
		nt := 0
		for i := range cs {
			cs[i] = drawBigCase(rt)
			r := false
			box := cs[i].Box.Bound()
			for _, ls := range cs[i].lines() {
				m := model(box, ls, cs[i].Open)
				r = r || m.Partial || m.OnBoundary || m.AlongEdge
			}
			if r {
				nt++
			}
		}
		stats.Class(fmt.Sprintf("concurrent:%d goroutines", n))
		if nt >= 2 {
			stats.NonTrivial("conc:" + gen.JSON(cs))
			if stats.WantSample("concurrent") {
				stats.Sample("concurrent", cs)
			}
		}
		_, f, err := concurrentGroup(cs, 12)
		if err != nil {
			stats.Try(rt, "TestPropConcurrent", cs, func() error { return err })
		}
		stats.TryParallel(rt, "TestPropConcurrent", cs, n, 12, f)
	})
}

// TestPropConcurrentOptions: one small lattice line whose open and closed clips
// differ, clipped by 2..8 goroutines at the same time, half of them with
// OpenBound(true) and half with OpenBound(false) or no option, thousands of
// short calls each: state shared between calls while the options are taken in
// (a window of a few instructions) shows as an open result where a closed one
// is due or the other way round. The group is replayed like a TestPropConcurrent group.
func TestPropConcurrentOptions(t *testing.T) {
	assumptions()
	stats.Check(t, 300, 6000, func(rt *rapid.T) {
		var base Case
		for try := 0; ; try++ {
			x0, x1 := orderedInts(rt, 1, 5, "bx")
			y0, y1 := orderedInts(rt, 1, 5, "by")
			box := orb.Bound{Min: orb.Point{float64(x0), float64(y0)}, Max: orb.Point{float64(x1), float64(y1)}}
			n := rapid.IntRange(2, 4).Draw(rt, "n")
			ls := make(orb.LineString, n)
			for i := range ls {
				ls[i] = orb.Point{float64(rapid.IntRange(0, 6).Draw(rt, "x")), float64(rapid.IntRange(0, 6).Draw(rt, "y"))}
			}
			base = mkCase(box, false, ls)
			a, b := exact.ClipLine(box, ls, false), exact.ClipLine(box, ls, true)
			if !reflect.DeepEqual(a.Runs, b.Runs) || try > 20 {
				break
			}
		}
		n := rapid.IntRange(2, 8).Draw(rt, "goroutines")
		cs := make([]Case, n)
		for i := range cs {
			cs[i] = base
			cs[i].Open = i%2 == 0
		}
		stats.Class(fmt.Sprintf("option storm:%d goroutines", n))
		stats.NonTrivial("storm:" + gen.JSON(cs))
		f, err := optionStorm(cs, 4000)
		if err != nil {
			stats.Try(rt, "TestPropConcurrentOptions", cs, func() error { return err })
		}
		stats.TryParallel(rt, "TestPropConcurrentOptions", cs, n, 8, f)
	})
}

// optionStorm: goroutine i calls clip.LineString on case i `calls` times per
// round (closed cases alternate between no option and OpenBound(false)) and
// compares with the result computed alone.
func optionStorm(cs []Case, calls int) (func(i int) error, error) {
	refs := make([]orb.MultiLineString, len(cs))
	for i, c := range cs {
		if err := stats.Guard(func() error { return checkCase(c) }); err != nil {
			return nil, fmt.Errorf("case %d of the group fails on its own: %w", i, err)
		}
		refs[i] = clip.LineString(c.Box.Bound(), c.lines()[0], clip.OpenBound(c.Open))
	}
	return func(i int) error {
		box, ls := cs[i].Box.Bound(), cs[i].lines()[0]
		for k := 0; k < calls; k++ {
			var got orb.MultiLineString
			switch {
			case cs[i].Open:
				got = clip.LineString(box, ls, clip.OpenBound(true))
			case k%2 == 0:
				got = clip.LineString(box, ls, clip.OpenBound(false))
			default:
				got = clip.LineString(box, ls)
			}
			if !sameMLS(got, refs[i]) {
				return fmt.Errorf("call %d with open=%v gives %v, alone it gives %v", k, cs[i].Open, got, refs[i])
			}
		}
		return nil
	}, nil
}

// ---------------------------------------------------------------- exhaustive lattice

func lattice() ([]orb.Point, []orb.Bound) {
	var pts []orb.Point
	for x := 0; x < 7; x++ {
		for y := 0; y < 7; y++ {
			pts = append(pts, orb.Point{float64(x), float64(y)})
		}
	}
	var boxes []orb.Bound
	for x0 := 1; x0 <= 5; x0++ {
		for x1 := x0 + 1; x1 <= 5; x1++ {
			for y0 := 1; y0 <= 5; y0++ {
				for y1 := y0 + 1; y1 <= 5; y1++ {
					boxes = append(boxes, orb.Bound{Min: orb.Point{float64(x0), float64(y0)}, Max: orb.Point{float64(x1), float64(y1)}})
				}
			}
		}
	}
	return pts, boxes
}

func mixHash(a, b uint64) uint64 {
	h := a*0x9e3779b97f4a7c15 ^ (b + 0xbf58476d1ce4e5b9)
	h ^= h >> 29
	h *= 0x94d049bb133111eb
	h ^= h >> 32
	return h
}

func enumCase(t *testing.T, test string, idx int64, box orb.Bound, ls orb.LineString, open bool) {
	c := Case{Box: gen.FromBound(box), Lines: [][]gen.P{gen.Pts(ls)}, Open: open}
	stats.Eval(test, 1)
	r := model(box, ls, open)
	if r.Partial || r.OnBoundary || r.AlongEdge {
		stats.NonTrivialHash(mixHash(uint64(idx), stats.Hash(test)))
		if stats.WantSample(test) {
			stats.Sample(test, c)
		}
	}
	stats.TryT(t, test, c, func() error { return checkCase(c) })
}

// TestEnumSegments: every segment of the 7x7 integer grid against every box
// with corners on {1..5}^2, both options.
func TestEnumSegments(t *testing.T) {
	assumptions()
	pts, boxes := lattice()
	var idx int64
	for _, open := range []bool{false, true} {
		for _, box := range boxes {
			for _, a := range pts {
				for _, b := range pts {
					idx++
					if stats.Mine(idx) {
						enumCase(t, "TestEnumSegments", idx, box, orb.LineString{a, b}, open)
					}
				}
			}
		}
	}
	stats.Subspace("all 49^2 segments of the 7x7 integer grid x all 100 boxes with corners on {1..5}^2 x {closed, open}", idx, true)
}

// TestEnumTwoSegmentPaths: every two-segment path of the same grid against
// the same boxes and options; all of them in the thorough tier, a
// seed-dependent 1-in-50 sample in the quick tier.
func TestEnumTwoSegmentPaths(t *testing.T) {
	assumptions()
	pts, boxes := lattice()
	var idx, taken int64
	seed := stats.Seed()
	all := stats.Thorough()
	for _, open := range []bool{false, true} {
		for _, box := range boxes {
			for _, a := range pts {
				for _, b := range pts {
					for _, c := range pts {
						idx++
						if !all && mixHash(uint64(idx), seed)%50 != 0 {
							continue
						}
						taken++
						if stats.Mine(taken) {
							enumCase(t, "TestEnumTwoSegmentPaths", idx, box, orb.LineString{a, b, c}, open)
						}
					}
				}
			}
		}
	}
	if all {
		stats.Subspace("all 49^3 two-segment paths of the 7x7 integer grid x all 100 boxes with corners on {1..5}^2 x {closed, open}", idx, true)
	} else {
		stats.Subspace("1-in-50 sample of the 49^3 x 100 x 2 two-segment path cases (exhaustive in the thorough tier)", taken, false)
	}
}

// ---------------------------------------------------------------- known finding

// TestKnownOpenCornerGraze runs the witness of finding open-corner-graze-point-piece: with
// OpenBound(true) the segment (0,2)-(2,0) only touches the box (1,1)-(2,2) at the corner (1,1), so
// nothing of it is strictly inside; the unchanged tree returns the one-point piece [(1,1) (1,1)].
func TestKnownOpenCornerGraze(t *testing.T) {
	stats.Eval("TestKnownOpenCornerGraze", 1)
	box := orb.Bound{Min: orb.Point{1, 1}, Max: orb.Point{2, 2}}
	ls := orb.LineString{{0, 2}, {2, 0}}
	got := clip.LineString(box, ls, clip.OpenBound(true))
	if len(got) == 0 {
		return // repaired: nothing to report, and checkLine accepts the absence everywhere
	}
	what := fmt.Sprintf("clip.LineString(Bound{(1,1),(2,2)}, LineString{(0,2),(2,0)}, OpenBound(true)) = %v: a one-point piece at the corner although nothing of the segment is strictly inside", got)
	if _, ok := kf.Get("C07", knownGrazeKey); ok {
		stats.Known(knownGrazeKey, what)
		return
	}
	if sh, _ := stats.Shard(); sh != 0 {
		return // one report is enough
	}
	c := mkCase(box, true, ls)
	err := fmt.Errorf("%s [not listed in known_findings.json]", what)
	path := stats.RecordFailure("TestKnownOpenCornerGraze", c, err)
	t.Fatalf("%v (replay %s)", err, path)
}

// TestKnownOpenNaNVertex runs the witness of finding open-bound-nan-vertex-on-edge-run (found by the
// thorough sweep at VERIF_SEED=7; the whole case is testdata/known_open_nan_vertex.json).
func TestKnownOpenNaNVertex(t *testing.T) {
	stats.Eval("TestKnownOpenNaNVertex", 1)
	box := orb.Bound{Min: orb.Point{-1001.4, -1002.1}, Max: orb.Point{-1000.7, -999.3}}
	ls := orb.LineString{{-1001.4, -1002.1}, {-1000, -999.3}, {-1005.6, -1006.3000000000001}, {-999.3, -999.3}, {-1001.4, -1002.1},
		{-1004.9000000000001, -995.0999999999999}, {-1009.1, -1002.0999999999999}, {-998.6, -1002.1}, {-998.6, -1002.1}, {-1000, -1001.4}, {-1002.8, -1004.2}}
	got := clip.LineString(box, copyLine(ls), clip.OpenBound(true))
	if !hasNaN(got) {
		return
	}
	what := fmt.Sprintf("clip.LineString with OpenBound(true) on the 11-vertex witness line (box (-1001.4,-1002.1)-(-1000.7,-999.3)) returns a NaN coordinate: %v", got)
	if _, ok := kf.Get("C07", knownNaNKey); ok {
		if !nanFamily(box, ls) {
			t.Fatalf("the witness is not in the family the exclusion uses")
		}
		stats.Known(knownNaNKey, what)
		return
	}
	if sh, _ := stats.Shard(); sh != 0 {
		return
	}
	err := fmt.Errorf("%s [not listed in known_findings.json]", what)
	path := stats.RecordFailure("TestKnownOpenNaNVertex", mkCase(box, true, ls), err)
	t.Fatalf("%v (replay %s)", err, path)
}

// ---------------------------------------------------------------- regression cases

func mkCase(box orb.Bound, open bool, ls orb.LineString) Case {
	return Case{Box: gen.FromBound(box), Lines: [][]gen.P{gen.Pts(ls)}, Open: open}
}

// TestEnumRegression runs the inputs on which this check found defects of
// clip.line on the tree before commits a844b4a and 761cac3 (findings
// clip-line-corner-hang: never returned; clip-line-open-nan: NaN vertex),
// each with both options.
func TestEnumRegression(t *testing.T) {
	third := 1.0 / 3
	cases := []Case{
		mkCase(orb.Bound{Min: orb.Point{third, third}, Max: orb.Point{4 * third, 4 * third}}, false, orb.LineString{{1, 1}, {0, 0}}),
		mkCase(orb.Bound{Min: orb.Point{third, third}, Max: orb.Point{4.0 / 3, 5.0 / 3}}, true, orb.LineString{{4.0 / 3, 5.0 / 3}, {third, third}}),
		mkCase(orb.Bound{Min: orb.Point{1, -1.3877787807814457e-17}, Max: orb.Point{1.5, 1}}, true,
			orb.LineString{{1.5125219357540391, -0.125457763671875}, {1, 1.3844544982290384e-153}}),
		mkCase(orb.Bound{Min: orb.Point{-16, -2}, Max: orb.Point{14, 6}}, true,
			orb.LineString{{-16, -2}, {29, 6}, {29, 6}, {-31, -6}, {14, 6}, {-31, 6}, {14, -2}, {-16, 6}}),
		mkCase(orb.Bound{Min: orb.Point{5.587063137495341e-145, 1.501941875169092e-21}, Max: orb.Point{6, 5.863027394341771}}, true,
			orb.LineString{{2.2630481719970703, 0}, {1.584427134798274, -2}, {-0.25, -2}, {1.9972448325033776, 1.4733268929040224}, {0, 9.017608277435987e-231}, {0, 0.0024780818227420533}, {0, 1.8828125}, {-0.41029542684555054, 7.796044373217514e-38}}),
		mkCase(orb.Bound{Min: orb.Point{1012345.678, third}, Max: orb.Point{3012345.678, 4 * third}}, false, orb.LineString{{6012345.678, 2}, {12345.678, 0}}),
		mkCase(orb.Bound{Min: orb.Point{7.3999999999999995, 7.3999999999999995}, Max: orb.Point{22, 29.3}}, false, orb.LineString{{22, 22}, {0.1, 0.1}}),
	}
	var idx int64
	for _, c := range cases {
		for _, open := range []bool{c.Open, !c.Open} {
			idx++
			if !stats.Mine(idx) {
				continue
			}
			cc := c
			cc.Open = open
			stats.Eval("TestEnumRegression", 1)
			stats.NonTrivial(gen.JSON(cc))
			stats.TryT(t, "TestEnumRegression", cc, func() error { return checkCase(cc) })
		}
	}
}

// ---------------------------------------------------------------- self test of the model

// TestSelfModel checks the exact model itself: literal answers worked out by
// hand, and agreement of the int64 back end with the big.Rat back end.
func TestSelfModel(t *testing.T) {
	box := orb.Bound{Min: orb.Point{1, 1}, Max: orb.Point{3, 3}}
	type lit struct {
		ls   orb.LineString
		open bool
		want [][2][2]float64 // start, end of each run
	}
	lits := []lit{
		{orb.LineString{{0, 2}, {4, 2}}, false, [][2][2]float64{{{1, 2}, {3, 2}}}},
		{orb.LineString{{0, 2}, {4, 2}}, true, [][2][2]float64{{{1, 2}, {3, 2}}}},
		{orb.LineString{{0, 1}, {4, 1}}, false, [][2][2]float64{{{1, 1}, {3, 1}}}}, // along the bottom edge
		{orb.LineString{{0, 1}, {4, 1}}, true, nil},
		{orb.LineString{{0, 2}, {1, 1}, {2, 0}}, false, [][2][2]float64{{{1, 1}, {1, 1}}}}, // touches a corner at a vertex
		{orb.LineString{{2, 2}, {3, 2}, {2, 2.5}}, false, [][2][2]float64{{{2, 2}, {2, 2.5}}}},
		{orb.LineString{{2, 2}, {3, 2}, {2, 2.5}}, true, [][2][2]float64{{{2, 2}, {3, 2}}, {{3, 2}, {2, 2.5}}}}, // split at the boundary
		{orb.LineString{{0, 0}, {4, 4}}, true, [][2][2]float64{{{1, 1}, {3, 3}}}},                               // corner to corner
		{orb.LineString{{2, 2}, {5, 2}, {5, 0}, {2, 0}, {2, 2}}, false, [][2][2]float64{{{2, 2}, {3, 2}}, {{2, 1}, {2, 2}}}},
		{orb.LineString{{0, 3}, {2, 5}}, false, nil},
		{orb.LineString{{0, 2}, {2, 4}}, false, [][2][2]float64{{{1, 3}, {1, 3}}}}, // grazes the corner (1,3)
		{orb.LineString{{0, 2}, {2, 4}}, true, nil},
		{orb.LineString{{2, 2}}, false, nil},
		{orb.LineString{{2, 2}, {2, 2}}, false, [][2][2]float64{{{2, 2}, {2, 2}}}},
		{orb.LineString{{1, 2}, {1, 2}}, true, nil},
	}
	for i, l := range lits {
		stats.Eval("TestSelfModel", 1)
		for _, f := range []func(orb.Bound, orb.LineString, bool) exact.ClipResult{exact.ClipLineRat, exact.ClipLineFast} {
			r := f(box, l.ls, l.open)
			var got [][2][2]float64
			for _, run := range r.Runs {
				got = append(got, [2][2]float64{run.Start, run.End})
			}
			if !reflect.DeepEqual(got, l.want) {
				t.Fatalf("model literal %d: %v open=%v gives %v, want %v", i, l.ls, l.open, got, l.want)
			}
		}
	}
	stats.Check(t, 20000, 200000, func(rt *rapid.T) {
		c, _ := drawGridCase(rt)
		box := c.Box.Bound()
		for _, ls := range c.lines() {
			if !exact.FastEligible(box, ls) {
				continue // a lattice case rescaled by 2^k
			}
			a := exact.ClipLineFast(box, ls, c.Open)
			b := exact.ClipLineRat(box, ls, c.Open)
			a.Fast = false
			if !reflect.DeepEqual(a, b) {
				rt.Fatalf("int64 and big.Rat back ends disagree on %s:\n%+v\n%+v", gen.JSON(c), a, b)
			}
		}
	})
}

// ---------------------------------------------------------------- replay

func TestReplay(t *testing.T) {
	_, raw, ok := stats.Replaying()
	if !ok {
		t.Skip("no replay file")
	}
	if name, _, _ := stats.Replaying(); name == "TestKnownOpenNaNVertex" {
		var c Case
		if err := json.Unmarshal(raw, &c); err != nil {
			t.Fatal(err)
		}
		if err := stats.Guard(func() error { return checkCaseRaw(c) }); err != nil {
			t.Fatalf("replayed case still fails: %v", err)
		}
		fmt.Println("replayed case passes")
		return
	}
	if name, _, _ := stats.Replaying(); name == "TestEnumLarge" {
		var c LargeCase
		if err := json.Unmarshal(raw, &c); err != nil {
			t.Fatal(err)
		}
		if err := stats.Guard(func() error { return checkLarge(c) }); err != nil {
			t.Fatalf("replayed large case still fails: %v", err)
		}
		fmt.Println("replayed large case passes")
		return
	}
	if name, _, _ := stats.Replaying(); name == "TestPropConcurrentOptions" {
		var cs []Case
		if err := json.Unmarshal(raw, &cs); err != nil {
			t.Fatal(err)
		}
		f, err := optionStorm(cs, 20000)
		if err != nil {
			t.Fatalf("replayed option storm: %v", err)
		}
		for k := 0; k < 20; k++ {
			if err := stats.ParallelErr(len(cs), 20, f); err != nil {
				t.Fatalf("replayed option storm still fails: %v", err)
			}
		}
		fmt.Println("replayed option storm passes")
		return
	}
	if name, _, _ := stats.Replaying(); name == "TestPropConcurrent" {
		var cs []Case
		if err := json.Unmarshal(raw, &cs); err != nil {
			t.Fatal(err)
		}
		_, f, err := concurrentGroup(cs, 200)
		if err != nil {
			t.Fatalf("replayed concurrent group: %v", err)
		}
		for k := 0; k < 20; k++ {
			if err := stats.ParallelErr(len(cs), 200, f); err != nil {
				t.Fatalf("replayed concurrent group still fails: %v", err)
			}
		}
		fmt.Println("replayed concurrent group passes")
		return
	}
	var c Case
	if err := json.Unmarshal(raw, &c); err != nil {
		t.Fatal(err)
	}
	if err := stats.Guard(func() error { return checkCase(c) }); err != nil {
		t.Fatalf("replayed case still fails: %v", err)
	}
	fmt.Println("replayed case passes")
}
