package c07

import (
	"fmt"
	"math"
	"reflect"

	"github.com/paulmach/orb"
	"github.com/paulmach/orb/clip"

	"verifharness/internal/exact"
	"verifharness/internal/gen"
	"verifharness/internal/kf"
	"verifharness/internal/stats"
)

// Case is one generated input (also the replay format). Lines[0] is judged
// against the exact model with the given option; when there are several lines
// every one of them is, and clip.MultiLineString / clip.Geometry are compared
// with the typed per-line results.
type Case struct {
	Box   gen.B     `json:"box"`
	Lines [][]gen.P `json:"lines"` // a null entry is a nil line string
	Open  bool      `json:"open"`
	// Alias, when set, says how the lines share memory in the MultiLineString handed to
	// clip.MultiLineString / clip.Geometry: line i is Backing[Win[i][0] : Win[i][0]+Win[i][1]] of ONE
	// backing array (capacity running to its end), so lines may be the same slice twice, windows with
	// equal start and different lengths, or overlapping windows. Lines holds the same values.
	Alias *Alias `json:"alias,omitempty"`
}

// Alias describes windows of one backing array.
type Alias struct {
	Backing []gen.P  `json:"backing"`
	Win     [][2]int `json:"win"` // start, length
}

// aliased builds the MultiLineString whose lines share one backing array.
func (c Case) aliased() (orb.MultiLineString, []orb.Point) {
	backing := gen.OrbPts(c.Alias.Backing)
	m := make(orb.MultiLineString, len(c.Alias.Win))
	for i, w := range c.Alias.Win {
		m[i] = orb.LineString(backing[w[0] : w[0]+w[1]])
	}
	return m, backing
}

func (c Case) lines() []orb.LineString {
	out := make([]orb.LineString, len(c.Lines))
	for i, l := range c.Lines {
		out[i] = orb.LineString(gen.OrbPts(l))
	}
	return out
}

// ---------------------------------------------------------------- small helpers (own implementations, nothing from orb)

func inBox(b orb.Bound, p orb.Point) bool {
	return p[0] >= b.Min[0] && p[0] <= b.Max[0] && p[1] >= b.Min[1] && p[1] <= b.Max[1]
}

func strictlyIn(b orb.Bound, p orb.Point) bool {
	return p[0] > b.Min[0] && p[0] < b.Max[0] && p[1] > b.Min[1] && p[1] < b.Max[1]
}

func bitEq(a, b orb.Point) bool {
	return math.Float64bits(a[0]) == math.Float64bits(b[0]) && math.Float64bits(a[1]) == math.Float64bits(b[1])
}

func sameLine(a, b orb.LineString) bool {
	if len(a) != len(b) {
		return false
	}
	for i := range a {
		if !bitEq(a[i], b[i]) {
			return false
		}
	}
	return true
}

func copyLine(ls orb.LineString) orb.LineString {
	if ls == nil {
		return nil
	}
	out := make(orb.LineString, len(ls))
	copy(out, ls)
	return out
}

func near(a, b orb.Point, tol float64) bool {
	return math.Abs(a[0]-b[0]) <= tol && math.Abs(a[1]-b[1]) <= tol
}

func polyLen(ls orb.LineString) float64 {
	s := 0.0
	for i := 0; i+1 < len(ls); i++ {
		s += math.Hypot(ls[i+1][0]-ls[i][0], ls[i+1][1]-ls[i][1])
	}
	return s
}

// distance from p to the polyline ls (a single vertex counts as a point)
func distToPath(p orb.Point, ls orb.LineString) float64 {
	best := math.Inf(1)
	if len(ls) == 1 {
		return math.Hypot(p[0]-ls[0][0], p[1]-ls[0][1])
	}
	for i := 0; i+1 < len(ls); i++ {
		a, b := ls[i], ls[i+1]
		dx, dy := b[0]-a[0], b[1]-a[1]
		t := 0.0
		if l2 := dx*dx + dy*dy; l2 > 0 {
			t = ((p[0]-a[0])*dx + (p[1]-a[1])*dy) / l2
			t = math.Max(0, math.Min(1, t))
		}
		if d := math.Hypot(p[0]-(a[0]+t*dx), p[1]-(a[1]+t*dy)); d < best {
			best = d
		}
	}
	return best
}

// vtol is the per-axis tolerance of one expected vertex.
type vtol struct{ x, y float64 }

func nearV(a, b orb.Point, t vtol) bool {
	return math.Abs(a[0]-b[0]) <= t.x && math.Abs(a[1]-b[1]) <= t.y
}

// aligned reports, for every e, whether piece p and the vertex list v[s..e]
// are the same polyline up to collapsing coinciding vertices: a monotone
// alignment that uses every vertex of both, starts at (p[0], v[s]), ends at
// (p[last], v[e]) and only pairs an output vertex with an expected vertex
// v[j] when they agree within tv[j] per axis (zero for input vertices: bit
// equality up to the sign of zero).
func aligned(p, v orb.LineString, tv []vtol, s int) []bool {
	n, m := len(p), len(v)-s
	prev := make([]bool, m)
	curr := make([]bool, m)
	for i := 0; i < n; i++ {
		for j := 0; j < m; j++ {
			ok := nearV(p[i], v[s+j], tv[s+j])
			if ok {
				switch {
				case i == 0 && j == 0:
				case i == 0:
					ok = curr[j-1]
				case j == 0:
					ok = prev[0]
				default:
					ok = prev[j-1] || prev[j] || curr[j-1]
				}
			}
			curr[j] = ok
		}
		prev, curr = curr, prev
	}
	return prev // indexed by e-s
}

type lineOracle struct {
	box    orb.Bound
	ls     orb.LineString
	small  float64 // size below which a run / piece is "point-like" (see checkLine)
	runs   []exact.ClipRun
	rv     []orb.LineString // vertex list of every run: start, inner input vertices, end
	rt     [][]vtol         // tolerance of every vertex of rv
	ropt   []bool           // run may be absent (a point or shorter than 2*small)
	pieces orb.MultiLineString
	popt   []bool // piece may be ignored (all its vertices within 2*small of its first)
}

// direct: piece j is run i vertex for vertex (the common case, linear time).
func (o *lineOracle) direct(i, j int) bool {
	p, v, tv := o.pieces[j], o.rv[i], o.rt[i]
	if len(p) != len(v) {
		return false
	}
	for k := range p {
		if !nearV(p[k], v[k], tv[k]) {
			return false
		}
	}
	return true
}

// match: runs i.. against pieces j.. . Where nothing is optional and piece j
// is run i vertex for vertex both are consumed in a loop (a piece that covers
// the whole run leaves no other reading); only the other situations recurse.
func (o *lineOracle) match(i, j int) bool {
	for i < len(o.runs) && j < len(o.pieces) && !o.ropt[i] && !o.popt[j] && o.direct(i, j) {
		i, j = i+1, j+1
	}
	if i == len(o.runs) && j == len(o.pieces) {
		return true
	}
	if j < len(o.pieces) && o.popt[j] && o.match(i, j+1) {
		return true
	}
	if i < len(o.runs) && o.ropt[i] && o.match(i+1, j) {
		return true
	}
	if i < len(o.runs) && j < len(o.pieces) {
		return o.cover(i, 0, j)
	}
	return false
}

// cover: run i from vertex index pos of its vertex list by pieces j.. ; a run
// may be delivered as several pieces that meet end-to-start at one of its
// inner (input) vertices — the same point set.
func (o *lineOracle) cover(i, pos, j int) bool {
	if j >= len(o.pieces) {
		return false
	}
	v := o.rv[i]
	if pos == 0 && o.direct(i, j) && o.match(i+1, j+1) {
		return true
	}
	if len(o.pieces[j])*(len(v)-pos) > 1<<22 {
		return false // the general alignment is quadratic; long pieces must match vertex for vertex
	}
	reach := aligned(o.pieces[j], v, o.rt[i], pos)
	last := len(v) - 1
	if reach[last-pos] && o.match(i+1, j+1) {
		return true
	}
	for e := last - 1; e > pos; e-- {
		if reach[e-pos] && o.cover(i, e, j+1) {
			return true
		}
	}
	return false
}

// ---------------------------------------------------------------- tolerances
//
// There is no absolute length unit in any tolerance: every bound is a multiple
// of the unit roundoff times magnitudes taken from the segment that produced
// the vertex, so a case and its image under x -> 2^k x are judged alike.
//
// An end point of a piece that is not an input vertex is the intersection of
// an input segment a->b with a box edge. Evaluated in float64 as
// x = a0 + (b0-a0)*(Y-a1)/(b1-a1) (or any equivalent well-conditioned form)
// its free coordinate carries an error of a few eps*(|x| + |b0-a0|): every
// difference is rounded relative to itself. That is the bound for an end point
// produced by ONE intersection (the outside end of the segment is outside in
// one direction only, the crossing is on that edge and not next to a corner):
//
//	rx = K*eps*(max(|a0|,|b0|) + |b0-a0|) + underflow/|b1-a1|     (K = 64; ry alike)
//
// An end point reached through two intersections (outside end in a corner
// region, or next to a corner) inherits the first intersection's error times
// the slope of the segment against the second edge:
//
//	loose: ex = 2*(rx + ry*|dx/dy|), ey = 2*(ry + rx*|dy/dx|)
//
// and when a segment crosses the whole box its exit is computed from the
// clipped entry, so the entry's bound is propagated the same way.

// The bounds themselves live in internal/exact/cliptol.go (shared with C08).
// knownGrazeKey is the key of the known finding handled in checkLine.
const knownGrazeKey = "open-corner-graze-point-piece"

const (
	epsF = exact.ClipEps
	kTol = exact.ClipK
)

func mul0(a, b float64) float64 { return exact.Mul0(a, b) }

type segTol struct{ rx, ry, sx, sy float64 }

func segTolOf(a, b orb.Point) segTol {
	t := exact.SegTolOf(a, b)
	return segTol{t.RX, t.RY, t.SX, t.SY}
}

func (t segTol) loose() vtol {
	return vtol{2 * (t.rx + mul0(t.ry, t.sx)), 2 * (t.ry + mul0(t.rx, t.sy))}
}

func regionBits(b orb.Bound, p orb.Point) int {
	n := 0
	if p[0] < b.Min[0] || p[0] > b.Max[0] {
		n++
	}
	if p[1] < b.Min[1] || p[1] > b.Max[1] {
		n++
	}
	return n
}

func ulps(p [2]float64) vtol {
	return vtol{kTol * epsF * math.Abs(p[0]), kTol * epsF * math.Abs(p[1])}
}

// crossTol bounds the error of the computed crossing P (exact value, rounded)
// of a segment with tolerances t whose outside end is out; base is the bound
// of the other end of the segment when that end was itself computed.
func crossTol(box orb.Bound, P [2]float64, out orb.Point, t segTol, base vtol) (vtol, bool) {
	onV := P[0] == box.Min[0] || P[0] == box.Max[0]
	onH := P[1] == box.Min[1] || P[1] == box.Max[1]
	single := regionBits(box, out) == 1 && onV != onH
	var e vtol
	if single {
		if onV {
			e = vtol{0, t.ry + base.y + mul0(base.x, t.sy)}
			if math.Min(math.Abs(P[1]-box.Min[1]), math.Abs(P[1]-box.Max[1])) <= 4*e.y {
				single = false // next to a corner: rounding may move the crossing to the other edge
			}
		} else {
			e = vtol{t.rx + base.x + mul0(base.y, t.sx), 0}
			if math.Min(math.Abs(P[0]-box.Min[0]), math.Abs(P[0]-box.Max[0])) <= 4*e.x {
				single = false
			}
		}
	}
	if !single {
		l := t.loose()
		e = vtol{l.x + 2*(base.x+mul0(base.y, t.sx)), l.y + 2*(base.y+mul0(base.x, t.sy))}
	}
	u := ulps(P)
	e.x, e.y = math.Max(e.x, u.x), math.Max(e.y, u.y)
	return e, single
}

// runTol returns the tolerances of the two end points of a run and whether
// each is a single-intersection end point.
func runTol(box orb.Bound, ls orb.LineString, r exact.ClipRun) (st, et vtol, sSingle, eSingle bool) {
	if r.StartAtVertex {
		st = ulps(r.Start)
	} else {
		a, b := ls[r.SegStart], ls[r.SegStart+1]
		st, sSingle = crossTol(box, r.Start, a, segTolOf(a, b), vtol{})
	}
	if r.EndAtVertex {
		et = ulps(r.End)
	} else {
		a, b := ls[r.SegEnd], ls[r.SegEnd+1]
		var base vtol
		if r.SegEnd == r.SegStart && !r.StartAtVertex {
			base = st
		}
		et, eSingle = crossTol(box, r.End, b, segTolOf(a, b), base)
	}
	return
}

// worst observed |error| / bound of piece end points that are intersections
// (statistics only): [0] single-intersection end points, [1] the others.
var worstRatio [2]float64

func noteRatio(got orb.MultiLineString, want [2]float64, t vtol, single, start bool) {
	if len(got) > 64 {
		return // statistics only; the search below is linear in the number of pieces
	}
	best := math.Inf(1)
	for _, p := range got {
		q := p[len(p)-1]
		if start {
			q = p[0]
		}
		r := 0.0
		for d, tv := range []float64{t.x, t.y} {
			if diff := math.Abs(q[d] - want[d]); diff > 0 {
				r = math.Max(r, diff/tv)
			}
		}
		best = math.Min(best, r)
	}
	k := 1
	if single {
		k = 0
	}
	if best <= 1 && best > worstRatio[k] {
		worstRatio[k] = best
	}
}

// optPtrs snapshots a whole option backing array (code pointers; funcs cannot be compared otherwise).
func optPtrs(o []clip.Option) []uintptr {
	o = o[:cap(o)]
	out := make([]uintptr, len(o))
	for i, f := range o {
		if f != nil {
			out[i] = reflect.ValueOf(f).Pointer()
		}
	}
	return out
}

// doClip calls clip.LineString with the option given in one of four ways: a
// literal argument, the explicit form of the default, no option, or - every
// second time - spread from a caller-owned slice with spare capacity (whose
// spare slots hold other options): arguments are read-only, so the slice and
// its whole backing array must be unchanged afterwards.
func doClip(box orb.Bound, ls orb.LineString, open bool) orb.MultiLineString {
	if (len(ls)/2)%2 == 1 {
		owned := make([]clip.Option, 1, 4)
		owned[0] = clip.OpenBound(open)
		spare := owned[:4]
		spare[1], spare[2], spare[3] = clip.OpenBound(!open), clip.OpenBound(!open), nil
		before := optPtrs(owned)
		got := clip.LineString(box, ls, owned...)
		if after := optPtrs(owned); len(after) != len(before) || after[0] != before[0] || after[1] != before[1] || after[2] != before[2] || after[3] != before[3] {
			stats.Class("layout-note: clip.LineString wrote into the caller's option slice or its spare capacity")
		}
		// the same argument object again: the caller passed the same options, so the value must be the same
		if again := clip.LineString(box, ls, owned[:1]...); !sameMLS(again, got) {
			panic(fmt.Sprintf("a second call with the same option slice gives %v, the first gave %v", again, got))
		}
		return got
	}
	switch {
	case open:
		return clip.LineString(box, ls, clip.OpenBound(true))
	case len(ls)%2 == 1:
		return clip.LineString(box, ls, clip.OpenBound(false)) // the explicit form of the default
	}
	return clip.LineString(box, ls)
}

// spareLine copies ls into a slice with three spare slots holding a sentinel; unchangedSpare checks
// the copy and its spare slots afterwards (the input line is read-only, all of its backing array).
var sentinel = orb.Point{-3.25e99, 3.25e99}

func spareLine(ls orb.LineString) orb.LineString {
	if ls == nil {
		return nil
	}
	out := make(orb.LineString, len(ls), len(ls)+3)
	copy(out, ls)
	tail := out[:cap(out)]
	for i := len(ls); i < len(tail); i++ {
		tail[i] = sentinel
	}
	return out
}

func unchangedSpare(in, ls orb.LineString) bool {
	if !sameLine(in, ls) || (in == nil) != (ls == nil) {
		return false
	}
	tail := in[:cap(in)]
	for i := len(in); i < len(tail); i++ {
		if !bitEq(tail[i], sentinel) {
			return false
		}
	}
	return true
}

// model is exact.ClipLine behind a four-entry memo (the classification of a
// case and its check ask for the same lines; the big.Rat back end is the
// dominant cost of a float case). Keys are compared bit for bit.
type memoEntry struct {
	box  orb.Bound
	ls   orb.LineString
	open bool
	res  exact.ClipResult
	ok   bool
}

var (
	memo     [4]memoEntry
	memoNext int
)

func model(box orb.Bound, ls orb.LineString, open bool) exact.ClipResult {
	for i := range memo {
		m := &memo[i]
		if m.ok && m.open == open && bitEq(m.box.Min, box.Min) && bitEq(m.box.Max, box.Max) && sameLine(m.ls, ls) {
			return m.res
		}
	}
	res := exact.ClipLine(box, ls, open)
	memo[memoNext] = memoEntry{box, copyLine(ls), open, res, true}
	memoNext = (memoNext + 1) % len(memo)
	return res
}

// exactFamily reports whether every intersection of the line with the box's
// edge lines is computed without any rounding under any reasonable order of
// evaluation: all coordinates of box and line are integer multiples m*q of one
// power of two q with |m| <= 1024, and every segment is axis-parallel, or has
// |dx| = |dy|, or has |dx| and |dy| both powers of two (then (Y-a1)/dy, the
// products and the sums are all exact, also for the second intersection of a
// segment that starts from the first). On this family nothing depends on
// rounding, so nothing is optional: a segment that passes exactly through a
// corner of the closed box yields its one-point piece, and no other point-like
// piece may appear.
func exactFamily(box orb.Bound, ls orb.LineString) bool {
	lowBit := func(v float64) int { // exponent of the lowest set bit of v (v != 0, finite)
		fr, e := math.Frexp(math.Abs(v))
		m := uint64(fr * (1 << 53))
		tz := 0
		for m&1 == 0 {
			m >>= 1
			tz++
		}
		return e - 53 + tz
	}
	vals := []float64{box.Min[0], box.Min[1], box.Max[0], box.Max[1]}
	for _, p := range ls {
		vals = append(vals, p[0], p[1])
	}
	qe, any := 0, false
	for _, v := range vals {
		if v == 0 {
			continue
		}
		if e := lowBit(v); !any || e < qe {
			qe, any = e, true
		}
	}
	if !any {
		return true
	}
	for _, v := range vals {
		if math.Abs(math.Ldexp(v, -qe)) > 1024 {
			return false
		}
	}
	pow2 := func(v float64) bool { fr, _ := math.Frexp(v); return fr == 0.5 }
	for i := 0; i+1 < len(ls); i++ {
		dx, dy := math.Abs(ls[i+1][0]-ls[i][0]), math.Abs(ls[i+1][1]-ls[i][1])
		if dx == 0 || dy == 0 || dx == dy || (pow2(dx) && pow2(dy)) {
			continue
		}
		return false
	}
	return true
}

// checkLine judges clip.LineString(box, ls, option) against the exact model.
//
// Tolerances: end points of pieces against the exact run end points with the
// per-end-point bounds of runTol; inner vertices of pieces must be input
// vertices bit for bit; every output vertex must satisfy min <= v <= max
// exactly. "small" is the largest loose bound of any segment of the line: a
// run that is a point or shorter than 2*small, and a piece whose vertices all
// lie within 2*small of its first, may be present or absent (measure-zero
// contact, DESIGN 3.2), but such a piece must still be in the box and within
// small of the input path. Total length within the sum of the end point
// bounds + 4*small per point-like run/piece + 64 eps relative.
func checkLine(box orb.Bound, ls orb.LineString, open bool) (orb.MultiLineString, error) {
	in := spareLine(ls)
	got := doClip(box, in, open)
	if !sameLine(in, ls) || (in == nil) != (ls == nil) {
		return nil, fmt.Errorf("input modified: %v became %v", ls, in)
	}
	if !unchangedSpare(in, ls) {
		stats.Class("layout-note: clip.LineString wrote into the spare capacity behind the input line")
	}
	for k, p := range got {
		for _, v := range p {
			if math.IsNaN(v[0]) || math.IsNaN(v[1]) || !inBox(box, v) {
				return nil, fmt.Errorf("piece %d has vertex %v outside the box %v; output %v", k, v, box, got)
			}
		}
		if len(p) == 0 {
			return nil, fmt.Errorf("piece %d is empty; output %v", k, got)
		}
	}
	if len(ls) < 2 {
		if got != nil {
			return nil, fmt.Errorf("line of %d vertices has no segment, want nil, got %#v", len(ls), got)
		}
		return got, nil
	}
	if len(got) == 0 && got != nil {
		return nil, fmt.Errorf("empty result is not nil: %#v", got)
	}

	res := model(box, ls, open)
	small := 0.0
	for i := 0; i+1 < len(ls); i++ {
		l := segTolOf(ls[i], ls[i+1]).loose()
		small = math.Max(small, l.x+l.y)
	}
	// On the exact family nothing depends on rounding, so nothing is optional, with either option.
	// One exception, with the open option only: known finding open-corner-graze-point-piece - a
	// segment with both ends outside the closed box that meets it in exactly one corner point c
	// yields the one-point piece [c c] although nothing of it is strictly inside. While that finding
	// is listed such a piece may be present (it is then counted as excluded) or absent; any other
	// point-like piece is a violation.
	exactFam := exactFamily(box, ls)
	var grazeCorners []orb.Point
	if open && exactFam {
		for _, r := range model(box, ls, false).Runs {
			if r.Zero && r.SegStart == r.SegEnd && !r.StartAtVertex && !r.EndAtVertex {
				c := orb.Point(r.Start)
				if (c[0] == box.Min[0] || c[0] == box.Max[0]) && (c[1] == box.Min[1] || c[1] == box.Max[1]) {
					grazeCorners = append(grazeCorners, c)
				}
			}
		}
	}
	isGraze := func(p orb.LineString) bool {
		for _, c := range grazeCorners {
			all := true
			for _, v := range p {
				if v != c {
					all = false
				}
			}
			if all {
				return true
			}
		}
		return false
	}
	grazeSeen := false
	o := &lineOracle{box: box, ls: ls, small: small, runs: res.Runs, pieces: got}
	expLen, lenTol := 0.0, 0.0
	for _, r := range res.Runs {
		st, et, sSingle, eSingle := runTol(box, ls, r)
		v := make(orb.LineString, 0, len(r.Inner)+2)
		tv := make([]vtol, 0, len(r.Inner)+2)
		v, tv = append(v, orb.Point(r.Start)), append(tv, st)
		for _, k := range r.Inner {
			v, tv = append(v, ls[k]), append(tv, vtol{})
		}
		v, tv = append(v, orb.Point(r.End)), append(tv, et)
		o.rv, o.rt = append(o.rv, v), append(o.rt, tv)
		opt := !exactFam && (r.Zero || r.Length <= 2*small)
		o.ropt = append(o.ropt, opt)
		expLen += r.Length
		lenTol += 2 * (st.x + st.y + et.x + et.y)
		if opt {
			lenTol += 4 * small
		} else {
			if !r.StartAtVertex {
				noteRatio(got, r.Start, st, sSingle, true)
			}
			if !r.EndAtVertex {
				noteRatio(got, r.End, et, eSingle, false)
			}
		}
	}
	gotLen, nv := 0.0, 0
	for k, p := range got {
		pointLike := !exactFam
		for _, v := range p {
			if !near(v, p[0], 2*small) {
				pointLike = false
			}
		}
		if pointLike {
			for _, v := range p {
				if d := distToPath(v, ls); d > small {
					return nil, fmt.Errorf("point-like piece %d %v is %g away from the input path (allowed %g)", k, p, d, small)
				}
			}
			lenTol += 4 * small * float64(len(p))
		}
		if open && exactFam && isGraze(p) {
			if _, listed := kf.Get("C07", knownGrazeKey); !listed {
				return nil, fmt.Errorf("open option: piece %d %v is the single corner point of a segment that only touches the box there; nothing of it is strictly inside (finding %s, not listed in known_findings.json)", k, p, knownGrazeKey)
			}
			pointLike, grazeSeen = true, true
		}
		o.popt = append(o.popt, pointLike)
		gotLen += polyLen(p)
		nv += len(p)
	}
	if grazeSeen {
		stats.Excluded(knownGrazeKey)
	}
	if !o.match(0, 0) {
		return nil, fmt.Errorf("pieces differ from the exact inside part (open=%v): got %v, want runs %v with end point tolerances %v (point-like below %g)", open, got, o.rv, o.rt, 2*small)
	}
	// inner vertices of every piece are input vertices, bit for bit
	type key [2]uint64
	var set map[key]struct{}
	if len(ls) > 32 {
		set = make(map[key]struct{}, len(ls))
		for _, q := range ls {
			set[key{math.Float64bits(q[0]), math.Float64bits(q[1])}] = struct{}{}
		}
	}
	for k, p := range got {
		for i := 1; i+1 < len(p); i++ {
			found := false
			if set != nil {
				_, found = set[key{math.Float64bits(p[i][0]), math.Float64bits(p[i][1])}]
			} else {
				for _, q := range ls {
					if bitEq(q, p[i]) {
						found = true
						break
					}
				}
			}
			if !found {
				return nil, fmt.Errorf("piece %d inner vertex %v is not an input vertex; output %v", k, p[i], got)
			}
		}
	}
	if lt := lenTol + kTol*epsF*expLen*float64(nv+1); math.Abs(gotLen-expLen) > lt {
		return nil, fmt.Errorf("total length %v, exact length inside %v (tolerance %g); output %v", gotLen, expLen, lt, got)
	}

	// a line wholly inside comes back as it is
	whole := true
	for _, p := range ls {
		if (open && !strictlyIn(box, p)) || (!open && !inBox(box, p)) {
			whole = false
		}
	}
	if whole && (len(got) != 1 || !sameLine(got[0], ls)) {
		return nil, fmt.Errorf("line wholly inside (open=%v) not returned as is: got %v", open, got)
	}

	// clipping a piece again (closed box) returns it unchanged, bit for bit
	for k, p := range got {
		if len(p) < 2 {
			continue
		}
		again := clip.LineString(box, copyLine(p))
		if len(again) != 1 || !sameLine(again[0], p) {
			return nil, fmt.Errorf("clipping piece %d %v again gives %v", k, p, again)
		}
		if !open || o.popt[k] {
			continue
		}
		// open option: the piece is its own open clip when its inner vertices are
		// strictly inside and neither end segment lies on the line of a box edge
		// (convexity); then the second clip must give the piece back within a few
		// ulps per vertex (its end points lie on the boundary and need no new
		// intersection).
		pre := true
		for i := 1; i+1 < len(p); i++ {
			if !strictlyIn(box, p[i]) {
				pre = false
			}
		}
		for _, e := range [][2]orb.Point{{p[0], p[1]}, {p[len(p)-2], p[len(p)-1]}} {
			for d := 0; d < 2; d++ {
				if e[0][d] == e[1][d] && (e[0][d] == box.Min[d] || e[0][d] == box.Max[d]) {
					pre = false
				}
			}
			if bitEq(e[0], e[1]) {
				pre = false
			}
		}
		if !pre {
			continue
		}
		again = clip.LineString(box, copyLine(p), clip.OpenBound(true))
		var keep orb.MultiLineString
		for _, a := range again {
			pointLike := true
			for _, v := range a {
				if !near(v, a[0], 2*small) {
					pointLike = false
				}
			}
			if !pointLike {
				keep = append(keep, a)
			}
		}
		tv := make([]vtol, len(p))
		for i := range p {
			tv[i] = ulps(p[i])
		}
		if i := len(p) - 1; i > 0 { // an end point on the boundary reached at a shallow angle may be recomputed
			a, b := segTolOf(p[0], p[1]).loose(), segTolOf(p[i-1], p[i]).loose()
			tv[0] = vtol{math.Max(tv[0].x, a.x), math.Max(tv[0].y, a.y)}
			tv[i] = vtol{math.Max(tv[i].x, b.x), math.Max(tv[i].y, b.y)}
		}
		if len(keep) != 1 || !aligned(keep[0], p, tv, 0)[len(p)-1] {
			return nil, fmt.Errorf("clipping piece %d %v again with the open option gives %v", k, p, again)
		}
	}
	if err := independent(box, ls, open, got); err != nil {
		return nil, err
	}
	return got, nil
}

// scribble overwrites every vertex of s and everything an append to s could
// reach (its spare capacity).
func scribble(s orb.LineString) {
	s = s[:cap(s)]
	for i := range s {
		s[i] = orb.Point{-7.5e77 - float64(i), 7.5e77 + float64(i)}
	}
}

func cloneMLS(m orb.MultiLineString) orb.MultiLineString {
	if m == nil {
		return nil
	}
	out := make(orb.MultiLineString, len(m))
	for i := range m {
		out[i] = copyLine(m[i])
	}
	return out
}

// independent: a second call on a fresh copy of the input gives the same pieces, and after the
// caller has overwritten every piece of that second result (and the spare capacity behind it) a
// third call still gives the same pieces - results of later calls do not depend on what the caller
// did to earlier results. Whether pieces of one result, results of different calls or result and
// input share memory is a fact about layout that the property does not speak about: it is counted
// as a layout note, never failed.
func independent(box orb.Bound, ls orb.LineString, open bool, first orb.MultiLineString) error {
	snap := cloneMLS(first)
	in := copyLine(ls)
	second := doClip(box, in, open)
	if !sameMLS(second, snap) {
		return fmt.Errorf("the same call on a fresh copy of the input gives %v, before it gave %v", second, snap)
	}
	if !sameMLS(first, snap) { // no caller action in between: a returned value changed under the caller's hands
		return fmt.Errorf("a later call of clip.LineString changed the result returned earlier: %v, was %v", first, snap)
	}
	for parity := 0; parity < 2; parity++ { // first the even pieces, then the odd ones: linear in the output
		for k := parity; k < len(second); k += 2 {
			scribble(second[k])
		}
		for j := 1 - parity; parity == 0 && j < len(second); j += 2 {
			if !sameLine(second[j], snap[j]) {
				stats.Class("layout-note: pieces of one result share memory")
				break
			}
		}
	}
	if !sameMLS(first, snap) {
		stats.Class("layout-note: results of two calls share memory")
	}
	if !sameLine(in, ls) {
		stats.Class("layout-note: a result shares memory with the input line")
	}
	if third := doClip(box, copyLine(ls), open); !sameMLS(third, snap) {
		return fmt.Errorf("after overwriting an earlier result the same call gives %v, before it gave %v", third, snap)
	}
	return nil
}

// outputs collects what every line entry point returns for the case (used by
// the concurrent test: functions of their arguments only must return the same
// bits whoever else is calling at the same time). It touches no package state
// of this check.
func outputs(c Case) []orb.Geometry {
	box := c.Box.Bound()
	lines := c.lines()
	var out []orb.Geometry
	in := make(orb.MultiLineString, len(lines))
	for i, ls := range lines {
		// the option is always passed explicitly here, so that every caller goes through option handling
		out = append(out, clip.LineString(box, copyLine(ls), clip.OpenBound(c.Open)))
		in[i] = copyLine(ls)
	}
	out = append(out, clip.MultiLineString(box, in, clip.OpenBound(c.Open)))
	if len(lines) > 0 {
		out = append(out, clip.Geometry(box, copyLine(lines[0])), clip.Geometry(box, cloneMLS(in)))
	}
	return out
}

func sameOutputs(a, b []orb.Geometry) error {
	if len(a) != len(b) {
		return fmt.Errorf("%d results, sequentially %d", len(a), len(b))
	}
	for i := range a {
		if ok, why := gen.SameBits(a[i], b[i]); !ok || (a[i] == nil) != (b[i] == nil) {
			return fmt.Errorf("result %d differs from the one computed alone: %s vs %s (%s)", i, gen.Canon(a[i]), gen.Canon(b[i]), why)
		}
	}
	return nil
}

func sameMLS(a, b orb.MultiLineString) bool {
	if len(a) != len(b) {
		return false
	}
	for i := range a {
		if !sameLine(a[i], b[i]) {
			return false
		}
	}
	return true
}

// checkAliased: lines that share memory with each other are still separate values: the result is
// what it is for independent copies, and the input is not modified (every element some line
// covers keeps its value; elements of the backing array that no line covers are capacity, a write
// there is a layout note). Memory shared among the returned pieces is a layout note too.
func checkAliased(c Case, box orb.Bound, concat orb.MultiLineString) error {
	for _, viaGeometry := range []bool{false, true} {
		if viaGeometry && c.Open {
			continue
		}
		in, backing := c.aliased()
		keep := append([]orb.Point(nil), backing...)
		covered := make([]bool, len(backing))
		for _, w := range c.Alias.Win {
			for k := w[0]; k < w[0]+w[1]; k++ {
				covered[k] = true
			}
		}
		var got orb.MultiLineString
		switch {
		case viaGeometry:
			switch v := clip.Geometry(box, in).(type) {
			case orb.LineString:
				got = orb.MultiLineString{v}
			case orb.MultiLineString:
				got = v
			}
		case c.Open:
			got = clip.MultiLineString(box, in, clip.OpenBound(true))
		default:
			got = clip.MultiLineString(box, in)
		}
		if !sameMLS(got, concat) {
			return fmt.Errorf("lines sharing one backing array (windows %v, via Geometry %v) give %v, independent copies give %v", c.Alias.Win, viaGeometry, got, concat)
		}
		for k := range backing {
			if !bitEq(backing[k], keep[k]) {
				if covered[k] && !viaGeometry { // clip.Geometry is documented to use 1-d input as scratch space
					return fmt.Errorf("input modified: element %d of the lines' shared backing array is %v, was %v", k, backing[k], keep[k])
				}
				stats.Class("layout-note: capacity of the input lines written")
			}
		}
	}
	return nil
}

// productUnderflow: the input family of C08's known finding clip-intersect-product-underflow (some
// x-quantity times some y-quantity of a segment - coordinate difference, distance of an end to a
// box edge, box size - is non-zero and below 2^-1000) evaluated on a line; only counted here: line
// clipping uses the same intersect(), and the exact model judges these cases like all others.
func productUnderflow(box orb.Bound, ls orb.LineString) bool {
	const lim = 0x1p-1000
	for i := 0; i+1 < len(ls); i++ {
		a, b := ls[i], ls[i+1]
		var q [2][]float64
		for d := 0; d < 2; d++ {
			q[d] = []float64{math.Abs(b[d] - a[d]), math.Abs(a[d] - box.Min[d]), math.Abs(a[d] - box.Max[d]),
				math.Abs(b[d] - box.Min[d]), math.Abs(b[d] - box.Max[d]), box.Max[d] - box.Min[d]}
		}
		for _, x := range q[0] {
			for _, y := range q[1] {
				if x != 0 && y != 0 && x*y < lim {
					return true
				}
			}
		}
	}
	return false
}

// knownNaNKey: known finding - with the open option a nearly edge-parallel segment that ends exactly on
// a box edge line is clipped onto that line and the next intersection divides 0 by 0: NaN vertex.
const knownNaNKey = "open-bound-nan-vertex-on-edge-run"

func hasNaN(m orb.MultiLineString) bool {
	for _, p := range m {
		for _, v := range p {
			if math.IsNaN(v[0]) || math.IsNaN(v[1]) {
				return true
			}
		}
	}
	return false
}

// nanFamily: the input predicate of that finding - some vertex lies exactly on a box edge line and a
// neighbouring vertex is within 1e-9 * |edge coordinate| of the same line.
func nanFamily(box orb.Bound, ls orb.LineString) bool {
	for i := range ls {
		for d := 0; d < 2; d++ {
			for _, e := range []float64{box.Min[d], box.Max[d]} {
				if ls[i][d] != e {
					continue
				}
				for _, j := range []int{i - 1, i + 1} {
					if j >= 0 && j < len(ls) && math.Abs(ls[j][d]-e) <= 1e-9*math.Abs(e) {
						return true
					}
				}
			}
		}
	}
	return false
}

// knownNaNCase: open option, the finding is listed, some line of the case is in the family and its
// clip has a NaN coordinate. Such a case is counted as excluded and not judged; every other
// non-finite output stays a failure.
func knownNaNCase(c Case) bool {
	if !c.Open {
		return false
	}
	if _, listed := kf.Get("C07", knownNaNKey); !listed {
		return false
	}
	box := c.Box.Bound()
	for _, ls := range c.lines() {
		if len(ls) >= 2 && nanFamily(box, ls) && hasNaN(clip.LineString(box, copyLine(ls), clip.OpenBound(true))) {
			return true
		}
	}
	return false
}

func checkCase(c Case) error {
	if knownNaNCase(c) {
		stats.Excluded(knownNaNKey)
		return nil
	}
	return checkCaseRaw(c)
}

func checkCaseRaw(c Case) error {
	box := c.Box.Bound()
	lines := c.lines()
	for _, ls := range lines {
		if productUnderflow(box, ls) {
			stats.Class("note: line in the product-underflow family of C08's known finding (judged like all others)")
			break
		}
	}
	var concat orb.MultiLineString
	for i, ls := range lines {
		got, err := checkLine(box, ls, c.Open)
		if err != nil {
			if len(lines) > 1 {
				return fmt.Errorf("line %d: %w", i, err)
			}
			return err
		}
		concat = append(concat, got...)
	}
	if len(lines) == 0 {
		return nil
	}

	// clip.MultiLineString is the concatenation of the per-line results
	in := make(orb.MultiLineString, len(lines))
	for i, ls := range lines {
		in[i] = copyLine(ls)
	}
	var mls orb.MultiLineString
	if c.Open {
		mls = clip.MultiLineString(box, in, clip.OpenBound(true))
	} else {
		mls = clip.MultiLineString(box, in)
	}
	for i := range in {
		if !sameLine(in[i], lines[i]) {
			return fmt.Errorf("MultiLineString modified input line %d", i)
		}
	}
	if !sameMLS(mls, concat) {
		return fmt.Errorf("MultiLineString gives %v, per-line results concatenated are %v", mls, concat)
	}
	if len(mls) == 0 && mls != nil {
		return fmt.Errorf("MultiLineString: empty result is not nil")
	}
	if c.Alias != nil {
		if err := checkAliased(c, box, concat); err != nil {
			return err
		}
	}
	if c.Open {
		return nil
	}

	// clip.Geometry on 1-d input (closed box only: it takes no option):
	// nil when nothing remains, the single piece as a LineString, else the
	// MultiLineString.
	want := func(m orb.MultiLineString) (string, orb.MultiLineString) {
		switch len(m) {
		case 0:
			return "nil", nil
		case 1:
			return "LineString", m
		}
		return "MultiLineString", m
	}
	judge := func(name string, g orb.Geometry, typed orb.MultiLineString) error {
		kind, m := want(typed)
		switch v := g.(type) {
		case nil:
			if kind != "nil" {
				return fmt.Errorf("clip.Geometry(%s) = nil, typed call gives %v", name, typed)
			}
		case orb.LineString:
			if kind != "LineString" || !sameLine(v, m[0]) {
				return fmt.Errorf("clip.Geometry(%s) = LineString %v, typed call gives %v", name, v, typed)
			}
		case orb.MultiLineString:
			if kind != "MultiLineString" || !sameMLS(v, m) {
				return fmt.Errorf("clip.Geometry(%s) = MultiLineString %v, typed call gives %v", name, v, typed)
			}
		default:
			return fmt.Errorf("clip.Geometry(%s) returned %T", name, g)
		}
		return nil
	}
	first := copyLine(lines[0])
	perFirst := clip.LineString(box, copyLine(lines[0]))
	if err := judge("LineString", clip.Geometry(box, first), perFirst); err != nil {
		return err
	}
	if !sameLine(first, lines[0]) {
		return fmt.Errorf("clip.Geometry modified the input line")
	}
	in2 := make(orb.MultiLineString, len(lines))
	for i, ls := range lines {
		in2[i] = copyLine(ls)
	}
	if err := judge("MultiLineString", clip.Geometry(box, in2), concat); err != nil {
		return err
	}
	return nil
}
