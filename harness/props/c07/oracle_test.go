package c07

import (
	"fmt"
	"math"

	"github.com/paulmach/orb"
	"github.com/paulmach/orb/clip"

	"verifharness/internal/exact"
	"verifharness/internal/gen"
)

// Case is one generated input (also the replay format). Lines[0] is judged
// against the exact model with the given option; when there are several lines
// every one of them is, and clip.MultiLineString / clip.Geometry are compared
// with the typed per-line results.
type Case struct {
	Box   gen.B     `json:"box"`
	Lines [][]gen.P `json:"lines"` // a null entry is a nil line string
	Open  bool      `json:"open"`
}

func (c Case) lines() []orb.LineString {
	out := make([]orb.LineString, len(c.Lines))
	for i, l := range c.Lines {
		out[i] = orb.LineString(gen.OrbPts(l))
	}
	return out
}

// ---------------------------------------------------------------- small helpers (own implementations, nothing from orb)

func inBox(b orb.Bound, p orb.Point) bool {
	return p[0] >= b.Min[0] && p[0] <= b.Max[0] && p[1] >= b.Min[1] && p[1] <= b.Max[1]
}

func strictlyIn(b orb.Bound, p orb.Point) bool {
	return p[0] > b.Min[0] && p[0] < b.Max[0] && p[1] > b.Min[1] && p[1] < b.Max[1]
}

func bitEq(a, b orb.Point) bool {
	return math.Float64bits(a[0]) == math.Float64bits(b[0]) && math.Float64bits(a[1]) == math.Float64bits(b[1])
}

func sameLine(a, b orb.LineString) bool {
	if len(a) != len(b) {
		return false
	}
	for i := range a {
		if !bitEq(a[i], b[i]) {
			return false
		}
	}
	return true
}

func copyLine(ls orb.LineString) orb.LineString {
	if ls == nil {
		return nil
	}
	out := make(orb.LineString, len(ls))
	copy(out, ls)
	return out
}

func near(a, b orb.Point, tol float64) bool {
	return math.Abs(a[0]-b[0]) <= tol && math.Abs(a[1]-b[1]) <= tol
}

func polyLen(ls orb.LineString) float64 {
	s := 0.0
	for i := 0; i+1 < len(ls); i++ {
		s += math.Hypot(ls[i+1][0]-ls[i][0], ls[i+1][1]-ls[i][1])
	}
	return s
}

// distance from p to the polyline ls (a single vertex counts as a point)
func distToPath(p orb.Point, ls orb.LineString) float64 {
	best := math.Inf(1)
	if len(ls) == 1 {
		return math.Hypot(p[0]-ls[0][0], p[1]-ls[0][1])
	}
	for i := 0; i+1 < len(ls); i++ {
		a, b := ls[i], ls[i+1]
		dx, dy := b[0]-a[0], b[1]-a[1]
		t := 0.0
		if l2 := dx*dx + dy*dy; l2 > 0 {
			t = ((p[0]-a[0])*dx + (p[1]-a[1])*dy) / l2
			t = math.Max(0, math.Min(1, t))
		}
		if d := math.Hypot(p[0]-(a[0]+t*dx), p[1]-(a[1]+t*dy)); d < best {
			best = d
		}
	}
	return best
}

// vtol is the per-axis tolerance of one expected vertex.
type vtol struct{ x, y float64 }

func nearV(a, b orb.Point, t vtol) bool {
	return math.Abs(a[0]-b[0]) <= t.x && math.Abs(a[1]-b[1]) <= t.y
}

// aligned reports, for every e, whether piece p and the vertex list v[s..e]
// are the same polyline up to collapsing coinciding vertices: a monotone
// alignment that uses every vertex of both, starts at (p[0], v[s]), ends at
// (p[last], v[e]) and only pairs an output vertex with an expected vertex
// v[j] when they agree within tv[j] per axis (zero for input vertices: bit
// equality up to the sign of zero).
func aligned(p, v orb.LineString, tv []vtol, s int) []bool {
	n, m := len(p), len(v)-s
	prev := make([]bool, m)
	curr := make([]bool, m)
	for i := 0; i < n; i++ {
		for j := 0; j < m; j++ {
			ok := nearV(p[i], v[s+j], tv[s+j])
			if ok {
				switch {
				case i == 0 && j == 0:
				case i == 0:
					ok = curr[j-1]
				case j == 0:
					ok = prev[0]
				default:
					ok = prev[j-1] || prev[j] || curr[j-1]
				}
			}
			curr[j] = ok
		}
		prev, curr = curr, prev
	}
	return prev // indexed by e-s
}

type lineOracle struct {
	box    orb.Bound
	ls     orb.LineString
	small  float64 // size below which a run / piece is "point-like" (see checkLine)
	runs   []exact.ClipRun
	rv     []orb.LineString // vertex list of every run: start, inner input vertices, end
	rt     [][]vtol         // tolerance of every vertex of rv
	ropt   []bool           // run may be absent (a point or shorter than 2*small)
	pieces orb.MultiLineString
	popt   []bool // piece may be ignored (all its vertices within 2*small of its first)
}

// match: runs i.. against pieces j..
func (o *lineOracle) match(i, j int) bool {
	if i == len(o.runs) && j == len(o.pieces) {
		return true
	}
	if j < len(o.pieces) && o.popt[j] && o.match(i, j+1) {
		return true
	}
	if i < len(o.runs) && o.ropt[i] && o.match(i+1, j) {
		return true
	}
	if i < len(o.runs) && j < len(o.pieces) {
		return o.cover(i, 0, j)
	}
	return false
}

// cover: run i from vertex index pos of its vertex list by pieces j.. ; a run
// may be delivered as several pieces that meet end-to-start at one of its
// inner (input) vertices — the same point set.
func (o *lineOracle) cover(i, pos, j int) bool {
	if j >= len(o.pieces) {
		return false
	}
	v := o.rv[i]
	reach := aligned(o.pieces[j], v, o.rt[i], pos)
	last := len(v) - 1
	if reach[last-pos] && o.match(i+1, j+1) {
		return true
	}
	for e := last - 1; e > pos; e-- {
		if reach[e-pos] && o.cover(i, e, j+1) {
			return true
		}
	}
	return false
}

// ---------------------------------------------------------------- tolerances
//
// There is no absolute length unit in any tolerance: every bound is a multiple
// of the unit roundoff times magnitudes taken from the segment that produced
// the vertex, so a case and its image under x -> 2^k x are judged alike.
//
// An end point of a piece that is not an input vertex is the intersection of
// an input segment a->b with a box edge. Evaluated in float64 as
// x = a0 + (b0-a0)*(Y-a1)/(b1-a1) (or any equivalent well-conditioned form)
// its free coordinate carries an error of a few eps*(|x| + |b0-a0|): every
// difference is rounded relative to itself. That is the bound for an end point
// produced by ONE intersection (the outside end of the segment is outside in
// one direction only, the crossing is on that edge and not next to a corner):
//
//	rx = K*eps*(max(|a0|,|b0|) + |b0-a0|) + underflow/|b1-a1|     (K = 64; ry alike)
//
// An end point reached through two intersections (outside end in a corner
// region, or next to a corner) inherits the first intersection's error times
// the slope of the segment against the second edge:
//
//	loose: ex = 2*(rx + ry*|dx/dy|), ey = 2*(ry + rx*|dy/dx|)
//
// and when a segment crosses the whole box its exit is computed from the
// clipped entry, so the entry's bound is propagated the same way.

// The bounds themselves live in internal/exact/cliptol.go (shared with C08).
const (
	epsF = exact.ClipEps
	kTol = exact.ClipK
)

func mul0(a, b float64) float64 { return exact.Mul0(a, b) }

type segTol struct{ rx, ry, sx, sy float64 }

func segTolOf(a, b orb.Point) segTol {
	t := exact.SegTolOf(a, b)
	return segTol{t.RX, t.RY, t.SX, t.SY}
}

func (t segTol) loose() vtol {
	return vtol{2 * (t.rx + mul0(t.ry, t.sx)), 2 * (t.ry + mul0(t.rx, t.sy))}
}

func regionBits(b orb.Bound, p orb.Point) int {
	n := 0
	if p[0] < b.Min[0] || p[0] > b.Max[0] {
		n++
	}
	if p[1] < b.Min[1] || p[1] > b.Max[1] {
		n++
	}
	return n
}

func ulps(p [2]float64) vtol {
	return vtol{kTol * epsF * math.Abs(p[0]), kTol * epsF * math.Abs(p[1])}
}

// crossTol bounds the error of the computed crossing P (exact value, rounded)
// of a segment with tolerances t whose outside end is out; base is the bound
// of the other end of the segment when that end was itself computed.
func crossTol(box orb.Bound, P [2]float64, out orb.Point, t segTol, base vtol) (vtol, bool) {
	onV := P[0] == box.Min[0] || P[0] == box.Max[0]
	onH := P[1] == box.Min[1] || P[1] == box.Max[1]
	single := regionBits(box, out) == 1 && onV != onH
	var e vtol
	if single {
		if onV {
			e = vtol{0, t.ry + base.y + mul0(base.x, t.sy)}
			if math.Min(math.Abs(P[1]-box.Min[1]), math.Abs(P[1]-box.Max[1])) <= 4*e.y {
				single = false // next to a corner: rounding may move the crossing to the other edge
			}
		} else {
			e = vtol{t.rx + base.x + mul0(base.y, t.sx), 0}
			if math.Min(math.Abs(P[0]-box.Min[0]), math.Abs(P[0]-box.Max[0])) <= 4*e.x {
				single = false
			}
		}
	}
	if !single {
		l := t.loose()
		e = vtol{l.x + 2*(base.x+mul0(base.y, t.sx)), l.y + 2*(base.y+mul0(base.x, t.sy))}
	}
	u := ulps(P)
	e.x, e.y = math.Max(e.x, u.x), math.Max(e.y, u.y)
	return e, single
}

// runTol returns the tolerances of the two end points of a run and whether
// each is a single-intersection end point.
func runTol(box orb.Bound, ls orb.LineString, r exact.ClipRun) (st, et vtol, sSingle, eSingle bool) {
	if r.StartAtVertex {
		st = ulps(r.Start)
	} else {
		a, b := ls[r.SegStart], ls[r.SegStart+1]
		st, sSingle = crossTol(box, r.Start, a, segTolOf(a, b), vtol{})
	}
	if r.EndAtVertex {
		et = ulps(r.End)
	} else {
		a, b := ls[r.SegEnd], ls[r.SegEnd+1]
		var base vtol
		if r.SegEnd == r.SegStart && !r.StartAtVertex {
			base = st
		}
		et, eSingle = crossTol(box, r.End, b, segTolOf(a, b), base)
	}
	return
}

// worst observed |error| / bound of piece end points that are intersections
// (statistics only): [0] single-intersection end points, [1] the others.
var worstRatio [2]float64

func noteRatio(got orb.MultiLineString, want [2]float64, t vtol, single, start bool) {
	best := math.Inf(1)
	for _, p := range got {
		q := p[len(p)-1]
		if start {
			q = p[0]
		}
		r := 0.0
		for d, tv := range []float64{t.x, t.y} {
			if diff := math.Abs(q[d] - want[d]); diff > 0 {
				r = math.Max(r, diff/tv)
			}
		}
		best = math.Min(best, r)
	}
	k := 1
	if single {
		k = 0
	}
	if best <= 1 && best > worstRatio[k] {
		worstRatio[k] = best
	}
}

func doClip(box orb.Bound, ls orb.LineString, open bool) orb.MultiLineString {
	switch {
	case open:
		return clip.LineString(box, ls, clip.OpenBound(true))
	case len(ls)%2 == 1:
		return clip.LineString(box, ls, clip.OpenBound(false)) // the explicit form of the default
	}
	return clip.LineString(box, ls)
}

// model is exact.ClipLine behind a four-entry memo (the classification of a
// case and its check ask for the same lines; the big.Rat back end is the
// dominant cost of a float case). Keys are compared bit for bit.
type memoEntry struct {
	box  orb.Bound
	ls   orb.LineString
	open bool
	res  exact.ClipResult
	ok   bool
}

var (
	memo     [4]memoEntry
	memoNext int
)

func model(box orb.Bound, ls orb.LineString, open bool) exact.ClipResult {
	for i := range memo {
		m := &memo[i]
		if m.ok && m.open == open && bitEq(m.box.Min, box.Min) && bitEq(m.box.Max, box.Max) && sameLine(m.ls, ls) {
			return m.res
		}
	}
	res := exact.ClipLine(box, ls, open)
	memo[memoNext] = memoEntry{box, copyLine(ls), open, res, true}
	memoNext = (memoNext + 1) % len(memo)
	return res
}

// checkLine judges clip.LineString(box, ls, option) against the exact model.
//
// Tolerances: end points of pieces against the exact run end points with the
// per-end-point bounds of runTol; inner vertices of pieces must be input
// vertices bit for bit; every output vertex must satisfy min <= v <= max
// exactly. "small" is the largest loose bound of any segment of the line: a
// run that is a point or shorter than 2*small, and a piece whose vertices all
// lie within 2*small of its first, may be present or absent (measure-zero
// contact, DESIGN 3.2), but such a piece must still be in the box and within
// small of the input path. Total length within the sum of the end point
// bounds + 4*small per point-like run/piece + 64 eps relative.
func checkLine(box orb.Bound, ls orb.LineString, open bool) (orb.MultiLineString, error) {
	in := copyLine(ls)
	got := doClip(box, in, open)
	if !sameLine(in, ls) || (in == nil) != (ls == nil) {
		return nil, fmt.Errorf("input modified: %v became %v", ls, in)
	}
	for k, p := range got {
		for _, v := range p {
			if math.IsNaN(v[0]) || math.IsNaN(v[1]) || !inBox(box, v) {
				return nil, fmt.Errorf("piece %d has vertex %v outside the box %v; output %v", k, v, box, got)
			}
		}
		if len(p) == 0 {
			return nil, fmt.Errorf("piece %d is empty; output %v", k, got)
		}
	}
	if len(ls) < 2 {
		if got != nil {
			return nil, fmt.Errorf("line of %d vertices has no segment, want nil, got %#v", len(ls), got)
		}
		return got, nil
	}
	if len(got) == 0 && got != nil {
		return nil, fmt.Errorf("empty result is not nil: %#v", got)
	}

	res := model(box, ls, open)
	small := 0.0
	for i := 0; i+1 < len(ls); i++ {
		l := segTolOf(ls[i], ls[i+1]).loose()
		small = math.Max(small, l.x+l.y)
	}
	o := &lineOracle{box: box, ls: ls, small: small, runs: res.Runs, pieces: got}
	expLen, lenTol := 0.0, 0.0
	for _, r := range res.Runs {
		st, et, sSingle, eSingle := runTol(box, ls, r)
		v := make(orb.LineString, 0, len(r.Inner)+2)
		tv := make([]vtol, 0, len(r.Inner)+2)
		v, tv = append(v, orb.Point(r.Start)), append(tv, st)
		for _, k := range r.Inner {
			v, tv = append(v, ls[k]), append(tv, vtol{})
		}
		v, tv = append(v, orb.Point(r.End)), append(tv, et)
		o.rv, o.rt = append(o.rv, v), append(o.rt, tv)
		opt := r.Zero || r.Length <= 2*small
		o.ropt = append(o.ropt, opt)
		expLen += r.Length
		lenTol += 2 * (st.x + st.y + et.x + et.y)
		if opt {
			lenTol += 4 * small
		} else {
			if !r.StartAtVertex {
				noteRatio(got, r.Start, st, sSingle, true)
			}
			if !r.EndAtVertex {
				noteRatio(got, r.End, et, eSingle, false)
			}
		}
	}
	gotLen, nv := 0.0, 0
	for k, p := range got {
		pointLike := true
		for _, v := range p {
			if !near(v, p[0], 2*small) {
				pointLike = false
			}
		}
		if pointLike {
			for _, v := range p {
				if d := distToPath(v, ls); d > small {
					return nil, fmt.Errorf("point-like piece %d %v is %g away from the input path (allowed %g)", k, p, d, small)
				}
			}
			lenTol += 4 * small * float64(len(p))
		}
		o.popt = append(o.popt, pointLike)
		gotLen += polyLen(p)
		nv += len(p)
	}
	if !o.match(0, 0) {
		return nil, fmt.Errorf("pieces differ from the exact inside part (open=%v): got %v, want runs %v with end point tolerances %v (point-like below %g)", open, got, o.rv, o.rt, 2*small)
	}
	// inner vertices of every piece are input vertices, bit for bit
	for k, p := range got {
		for i := 1; i+1 < len(p); i++ {
			found := false
			for _, q := range ls {
				if bitEq(q, p[i]) {
					found = true
					break
				}
			}
			if !found {
				return nil, fmt.Errorf("piece %d inner vertex %v is not an input vertex; output %v", k, p[i], got)
			}
		}
	}
	if lt := lenTol + kTol*epsF*expLen*float64(nv+1); math.Abs(gotLen-expLen) > lt {
		return nil, fmt.Errorf("total length %v, exact length inside %v (tolerance %g); output %v", gotLen, expLen, lt, got)
	}

	// a line wholly inside comes back as it is
	whole := true
	for _, p := range ls {
		if (open && !strictlyIn(box, p)) || (!open && !inBox(box, p)) {
			whole = false
		}
	}
	if whole && (len(got) != 1 || !sameLine(got[0], ls)) {
		return nil, fmt.Errorf("line wholly inside (open=%v) not returned as is: got %v", open, got)
	}

	// clipping a piece again (closed box) returns it unchanged, bit for bit
	for k, p := range got {
		if len(p) < 2 {
			continue
		}
		again := clip.LineString(box, copyLine(p))
		if len(again) != 1 || !sameLine(again[0], p) {
			return nil, fmt.Errorf("clipping piece %d %v again gives %v", k, p, again)
		}
		if !open || o.popt[k] {
			continue
		}
		// open option: the piece is its own open clip when its inner vertices are
		// strictly inside and neither end segment lies on the line of a box edge
		// (convexity); then the second clip must give the piece back within a few
		// ulps per vertex (its end points lie on the boundary and need no new
		// intersection).
		pre := true
		for i := 1; i+1 < len(p); i++ {
			if !strictlyIn(box, p[i]) {
				pre = false
			}
		}
		for _, e := range [][2]orb.Point{{p[0], p[1]}, {p[len(p)-2], p[len(p)-1]}} {
			for d := 0; d < 2; d++ {
				if e[0][d] == e[1][d] && (e[0][d] == box.Min[d] || e[0][d] == box.Max[d]) {
					pre = false
				}
			}
			if bitEq(e[0], e[1]) {
				pre = false
			}
		}
		if !pre {
			continue
		}
		again = clip.LineString(box, copyLine(p), clip.OpenBound(true))
		var keep orb.MultiLineString
		for _, a := range again {
			pointLike := true
			for _, v := range a {
				if !near(v, a[0], 2*small) {
					pointLike = false
				}
			}
			if !pointLike {
				keep = append(keep, a)
			}
		}
		tv := make([]vtol, len(p))
		for i := range p {
			tv[i] = ulps(p[i])
		}
		if i := len(p) - 1; i > 0 { // an end point on the boundary reached at a shallow angle may be recomputed
			a, b := segTolOf(p[0], p[1]).loose(), segTolOf(p[i-1], p[i]).loose()
			tv[0] = vtol{math.Max(tv[0].x, a.x), math.Max(tv[0].y, a.y)}
			tv[i] = vtol{math.Max(tv[i].x, b.x), math.Max(tv[i].y, b.y)}
		}
		if len(keep) != 1 || !aligned(keep[0], p, tv, 0)[len(p)-1] {
			return nil, fmt.Errorf("clipping piece %d %v again with the open option gives %v", k, p, again)
		}
	}
	if err := independent(box, ls, open, got); err != nil {
		return nil, err
	}
	return got, nil
}

// scribble overwrites every vertex of s and everything an append to s could
// reach (its spare capacity).
func scribble(s orb.LineString) {
	s = s[:cap(s)]
	for i := range s {
		s[i] = orb.Point{-7.5e77 - float64(i), 7.5e77 + float64(i)}
	}
}

func cloneMLS(m orb.MultiLineString) orb.MultiLineString {
	if m == nil {
		return nil
	}
	out := make(orb.MultiLineString, len(m))
	for i := range m {
		out[i] = copyLine(m[i])
	}
	return out
}

// independent: the pieces returned by a call are values of their own. A second
// call on a fresh copy of the input gives the same pieces; overwriting one piece
// of the second result (and the spare capacity behind it) changes neither its
// sibling pieces, nor the first result, nor the input; a third call still
// gives the same pieces.
func independent(box orb.Bound, ls orb.LineString, open bool, first orb.MultiLineString) error {
	snap := cloneMLS(first)
	in := copyLine(ls)
	second := doClip(box, in, open)
	if !sameMLS(second, snap) {
		return fmt.Errorf("the same call on a fresh copy of the input gives %v, before it gave %v", second, snap)
	}
	for k := range second {
		scribble(second[k])
		for j := k + 1; j < len(second); j++ {
			if !sameLine(second[j], snap[j]) {
				return fmt.Errorf("overwriting returned piece %d changed its sibling piece %d: %v, was %v", k, j, second[j], snap[j])
			}
		}
		if !sameMLS(first, snap) {
			return fmt.Errorf("overwriting piece %d of a later result changed the earlier result: %v, was %v", k, first, snap)
		}
		if !sameLine(in, ls) {
			return fmt.Errorf("overwriting returned piece %d changed the input line: %v, was %v", k, in, ls)
		}
	}
	if third := doClip(box, copyLine(ls), open); !sameMLS(third, snap) {
		return fmt.Errorf("after overwriting an earlier result the same call gives %v, before it gave %v", third, snap)
	}
	return nil
}

// outputs collects what every line entry point returns for the case (used by
// the concurrent test: functions of their arguments only must return the same
// bits whoever else is calling at the same time). It touches no package state
// of this check.
func outputs(c Case) []orb.Geometry {
	box := c.Box.Bound()
	lines := c.lines()
	var out []orb.Geometry
	in := make(orb.MultiLineString, len(lines))
	for i, ls := range lines {
		// the option is always passed explicitly here, so that every caller goes through option handling
		out = append(out, clip.LineString(box, copyLine(ls), clip.OpenBound(c.Open)))
		in[i] = copyLine(ls)
	}
	out = append(out, clip.MultiLineString(box, in, clip.OpenBound(c.Open)))
	if len(lines) > 0 {
		out = append(out, clip.Geometry(box, copyLine(lines[0])), clip.Geometry(box, cloneMLS(in)))
	}
	return out
}

func sameOutputs(a, b []orb.Geometry) error {
	if len(a) != len(b) {
		return fmt.Errorf("%d results, sequentially %d", len(a), len(b))
	}
	for i := range a {
		if ok, why := gen.SameBits(a[i], b[i]); !ok || (a[i] == nil) != (b[i] == nil) {
			return fmt.Errorf("result %d differs from the one computed alone: %s vs %s (%s)", i, gen.Canon(a[i]), gen.Canon(b[i]), why)
		}
	}
	return nil
}

func sameMLS(a, b orb.MultiLineString) bool {
	if len(a) != len(b) {
		return false
	}
	for i := range a {
		if !sameLine(a[i], b[i]) {
			return false
		}
	}
	return true
}

func checkCase(c Case) error {
	box := c.Box.Bound()
	lines := c.lines()
	var concat orb.MultiLineString
	for i, ls := range lines {
		got, err := checkLine(box, ls, c.Open)
		if err != nil {
			if len(lines) > 1 {
				return fmt.Errorf("line %d: %w", i, err)
			}
			return err
		}
		concat = append(concat, got...)
	}
	if len(lines) == 0 {
		return nil
	}

	// clip.MultiLineString is the concatenation of the per-line results
	in := make(orb.MultiLineString, len(lines))
	for i, ls := range lines {
		in[i] = copyLine(ls)
	}
	var mls orb.MultiLineString
	if c.Open {
		mls = clip.MultiLineString(box, in, clip.OpenBound(true))
	} else {
		mls = clip.MultiLineString(box, in)
	}
	for i := range in {
		if !sameLine(in[i], lines[i]) {
			return fmt.Errorf("MultiLineString modified input line %d", i)
		}
	}
	if !sameMLS(mls, concat) {
		return fmt.Errorf("MultiLineString gives %v, per-line results concatenated are %v", mls, concat)
	}
	if len(mls) == 0 && mls != nil {
		return fmt.Errorf("MultiLineString: empty result is not nil")
	}
	if c.Open {
		return nil
	}

	// clip.Geometry on 1-d input (closed box only: it takes no option):
	// nil when nothing remains, the single piece as a LineString, else the
	// MultiLineString.
	want := func(m orb.MultiLineString) (string, orb.MultiLineString) {
		switch len(m) {
		case 0:
			return "nil", nil
		case 1:
			return "LineString", m
		}
		return "MultiLineString", m
	}
	judge := func(name string, g orb.Geometry, typed orb.MultiLineString) error {
		kind, m := want(typed)
		switch v := g.(type) {
		case nil:
			if kind != "nil" {
				return fmt.Errorf("clip.Geometry(%s) = nil, typed call gives %v", name, typed)
			}
		case orb.LineString:
			if kind != "LineString" || !sameLine(v, m[0]) {
				return fmt.Errorf("clip.Geometry(%s) = LineString %v, typed call gives %v", name, v, typed)
			}
		case orb.MultiLineString:
			if kind != "MultiLineString" || !sameMLS(v, m) {
				return fmt.Errorf("clip.Geometry(%s) = MultiLineString %v, typed call gives %v", name, v, typed)
			}
		default:
			return fmt.Errorf("clip.Geometry(%s) returned %T", name, g)
		}
		return nil
	}
	first := copyLine(lines[0])
	perFirst := clip.LineString(box, copyLine(lines[0]))
	if err := judge("LineString", clip.Geometry(box, first), perFirst); err != nil {
		return err
	}
	if !sameLine(first, lines[0]) {
		return fmt.Errorf("clip.Geometry modified the input line")
	}
	in2 := make(orb.MultiLineString, len(lines))
	for i, ls := range lines {
		in2[i] = copyLine(ls)
	}
	if err := judge("MultiLineString", clip.Geometry(box, in2), concat); err != nil {
		return err
	}
	return nil
}
