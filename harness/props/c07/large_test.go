package c07

import (
	"fmt"
	"testing"

	"github.com/paulmach/orb"

	"verifharness/internal/gen"
	"verifharness/internal/stats"
)

// LargeCase is a procedurally built case (so the replay file stays tiny): the size ladder for
// the size dimensions of line clipping - vertices per line, lines per MultiLineString, pieces in
// the output. Constants inside an implementation (a run-skip length, a buffer cap, an index type)
// sit far above the sizes the random search reaches.
//
// Box (0,0)-(1000,6); all coordinates are small integers and every segment is axis-parallel or
// has |dx| = 1, |dy| = 8 or 2 (powers of two), so every case is in the exact family and is judged
// with nothing optional by the same checkCase as the small cases; the exact model uses its int64
// back end and the matcher its linear path.
type LargeCase struct {
	Shape string `json:"shape"` // zigzag | inside | comb | manylines | bigamong
	N     int    `json:"n"`     // vertices of the (big) line, resp. number of lines
	Pos   int    `json:"pos"`   // bigamong: position of the big line among four small ones (0, 2, 4)
	Open  bool   `json:"open"`
}

// tri is a triangle wave 0..1000..0 (so that consecutive values differ by one or not at all).
func tri(i int) float64 {
	i %= 2000
	if i > 1000 {
		i = 2000 - i
	}
	return float64(i)
}

func largeLine(shape string, n int) orb.LineString {
	ls := make(orb.LineString, n)
	for i := range ls {
		switch shape {
		case "inside": // one long run inside the box: a single piece of n vertices
			ls[i] = orb.Point{tri(i), float64(1 + 2*(i%2))}
		case "comb": // along the top edge with teeth outside: out, along outside, in (touch), along the edge
			y := 7.0
			if i%4 == 0 || i%4 == 3 {
				y = 6
			}
			ls[i] = orb.Point{tri(i / 2), y}
		default: // zigzag: every segment crosses the whole box, n-1 pieces
			ls[i] = orb.Point{tri(i), float64(-1 + 8*(i%2))}
		}
	}
	return ls
}

func (c LargeCase) build() Case {
	box := orb.Bound{Min: orb.Point{0, 0}, Max: orb.Point{1000, 6}}
	out := Case{Box: gen.FromBound(box), Open: c.Open}
	switch c.Shape {
	case "manylines": // n two-vertex lines, alternately crossing, inside, outside, along an edge
		for i := 0; i < c.N; i++ {
			x := tri(i)
			var l orb.LineString
			switch i % 4 {
			case 0:
				l = orb.LineString{{x, -1}, {x, 7}}
			case 1:
				l = orb.LineString{{x, 1}, {x, 5}}
			case 2:
				l = orb.LineString{{x, 7}, {x, 9}}
			default:
				l = orb.LineString{{x, 6}, {tri(i + 1), 6}}
			}
			out.Lines = append(out.Lines, gen.Pts(l))
		}
	case "bigamong":
		small := []orb.LineString{{{1, -1}, {1, 7}}, {{2, 1}, {3, 3}}, {{5, 7}, {5, 9}}, {{7, 6}, {9, 6}}}
		for i := 0; i <= 4; i++ {
			if i == c.Pos {
				out.Lines = append(out.Lines, gen.Pts(largeLine("zigzag", c.N)))
			}
			if i < 4 {
				out.Lines = append(out.Lines, gen.Pts(small[i]))
			}
		}
	default:
		out.Lines = [][]gen.P{gen.Pts(largeLine(c.Shape, c.N))}
	}
	return out
}

func checkLarge(c LargeCase) error { return checkCase(c.build()) }

// ladder returns {2^k-2 .. 2^k+3, 1.5*2^k+1 : k >= 6} and {10^k-2 .. 10^k+3 : k >= 2} up to max.
func ladder(max int) []int {
	seen := map[int]bool{}
	var out []int
	add := func(v int) {
		if v >= 2 && v <= max && !seen[v] {
			seen[v] = true
			out = append(out, v)
		}
	}
	for k := 6; k <= 26; k++ {
		for d := -2; d <= 3; d++ {
			add(1<<uint(k) + d)
		}
		add(1<<uint(k) + 1<<uint(k-1) + 1)
	}
	for p := 100; p <= 100000000; p *= 10 {
		for d := -2; d <= 3; d++ {
			add(p + d)
		}
	}
	return out
}

// TestEnumLarge: the size ladder. One case costs about 4 microseconds per vertex / line / piece
// with the full oracle (model, matching, re-clipping of every piece, the repeat calls), so:
// quick tier - every rung to 2^14+3 for all four shapes and both options, plus the
// neighbourhoods of 2^16 and 2^17 (L-2 .. L+3) for the zigzag (as many pieces as vertices) and
// the inside run, closed box; thorough tier - every rung to 2^18+3, plus the neighbourhoods of
// 10^6 and 2^20 for the three one-line shapes and both options (lines per MultiLineString stop at 2^18+3: each line gets the whole oracle, 10 us). Above 2^20 one case takes more than four seconds.
func TestEnumLarge(t *testing.T) {
	assumptions()
	full, extra := 1<<14+3, []int{1 << 16, 1 << 17}
	if stats.Thorough() {
		full, extra = 1<<18+3, []int{1000000, 1 << 20}
	}
	var idx, size int64
	run := func(c LargeCase) {
		idx++
		size++
		if !stats.Mine(idx) {
			return
		}
		stats.Eval("TestEnumLarge", 1)
		stats.Class("large:" + c.Shape)
		stats.NonTrivial("large:" + gen.JSON(c))
		if stats.WantSample("large") {
			stats.Sample("large", c)
		}
		stats.TryT(t, "TestEnumLarge", c, func() error { return checkLarge(c) })
	}
	shapes := []string{"zigzag", "inside", "comb", "manylines"}
	for _, n := range ladder(full) {
		for _, open := range []bool{false, true} {
			for _, shape := range shapes {
				run(LargeCase{Shape: shape, N: n, Open: open})
			}
		}
	}
	for _, l := range extra {
		for d := -2; d <= 3; d++ {
			for _, shape := range shapes {
				if shape == "manylines" || (!stats.Thorough() && shape == "comb") {
					continue // ten microseconds per line (each line gets the whole oracle): the full ladder is its top
				}
				run(LargeCase{Shape: shape, N: l + d, Open: false})
				if stats.Thorough() {
					run(LargeCase{Shape: shape, N: l + d, Open: true})
				}
			}
		}
	}
	for _, n := range []int{66, 4097, full} {
		for _, pos := range []int{0, 2, 4} {
			run(LargeCase{Shape: "bigamong", N: n, Pos: pos, Open: n%2 == 0})
		}
	}
	stats.Subspace(fmt.Sprintf("size ladder 2^k-2..2^k+3, 1.5*2^k+1, 10^k-2..10^k+3 up to %d, and the neighbourhoods of %v, for vertices per line (zigzag: as many pieces; one long inside run; comb along an edge) and lines per MultiLineString; one big line first/middle/last among small ones", full, extra), size, true)
}
