package c05

// Calibration of the per-target allocation limits (limits_test.go). With C05_CALIB=<file> the
// oracle does not enforce the allocation bound but records, per target, per power-of-two
// input-length bucket and per shape class (quadratic-prone nesting / everything else), the largest allocation seen and
// the input length it was seen on; the records are merged into <file> (JSON). Run on the
// UNCHANGED tree:
//
//	cd /verif/harness && go test -c -o /tmp/c05.test ./props/c05 && cd /tmp &&
//	C05_CALIB=/tmp/c05-calib.json VERIF_TIER=quick VERIF_SCALE=8 /tmp/c05.test -test.run '^Test(Prop|Enum)'
//
// and turn the file into the table with tools in the comment of limits_test.go.

import (
	"encoding/json"
	"os"
)

var calibFile = os.Getenv("C05_CALIB")
var calibOn = calibFile != ""

type calibPoint struct {
	Alloc uint64 `json:"alloc"`
	Len   uint64 `json:"len"`
	Exp   uint64 `json:"exp,omitempty"`
}

// target -> "deep"/"flat" -> bucket -> {max alloc point, max alloc/len point}
var calib = map[string]map[string]map[int][2]calibPoint{}

func calibRecord(t *target, data []byte, screened uint64, quad bool) {
	n := uint64(len(data))
	if n == 0 {
		return
	}
	cls := "flat"
	if quad {
		cls = "quad"
	}
	b := 0
	for x := n; x > 1; x >>= 1 {
		b++
	}
	m := calib[t.name]
	if m == nil {
		m = map[string]map[int][2]calibPoint{}
		calib[t.name] = m
	}
	if m[cls] == nil {
		m[cls] = map[int][2]calibPoint{}
	}
	cur := m[cls][b]
	better := func(alloc uint64) (bool, bool) {
		return alloc > cur[0].Alloc, cur[1].Len == 0 || alloc*cur[1].Len > cur[1].Alloc*n
	}
	if x, y := better(screened); !x && !y {
		return
	}
	// the screen can attribute earlier allocations to this call: confirm exactly (minimum of two)
	_, a1, _ := callMeasured(t, data)
	_, a2, _ := callMeasured(t, data)
	if a2 < a1 {
		a1 = a2
	}
	x, y := better(a1)
	if !x && !y {
		return
	}
	p := calibPoint{Alloc: a1, Len: n}
	if t.group == "mvt-gz" {
		exp, _ := gunzip(data)
		p.Exp = uint64(len(exp))
	}
	if x {
		cur[0] = p
	}
	if y {
		cur[1] = p
	}
	m[cls][b] = cur
}

func calibDump() {
	if !calibOn || len(calib) == 0 {
		return
	}
	b, _ := json.Marshal(calib)
	_ = os.WriteFile(calibFile, b, 0o644)
}
