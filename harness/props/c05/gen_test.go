package c05

// Generators: valid encodings of generated geometries / features / tiles and the
// structure-aware mutations applied to them. Every random choice is a rapid draw.

import (
	"bytes"
	"compress/gzip"
	"encoding/binary"
	"encoding/hex"
	"encoding/json"
	"fmt"
	"math"
	"sort"
	"strings"

	"github.com/paulmach/orb"
	"github.com/paulmach/orb/encoding/ewkb"
	"github.com/paulmach/orb/encoding/wkb"
	"github.com/paulmach/orb/encoding/wkt"
	"github.com/paulmach/orb/geojson"
	"pgregory.net/rapid"

	"verifharness/internal/gen"
	"verifharness/internal/stats"
)

// boundary element counts (DESIGN §4 C05 + the caps of wkbcommon: 100 and 10 000).
var hostileCounts = []uint32{0, 1, 2, 3, 99, 100, 101, 9999, 10000, 10001, 65535, 65536, 1 << 24, 1<<28 - 1, 1 << 28, 1<<28 + 1,
	1<<29 - 1, 1 << 29, 1<<31 - 1, 1 << 31, 1<<31 + 1, 1<<32 - 2, 1<<32 - 1}

// wrapCounts: for a decoder that multiplies a claimed 32-bit element count by a per-element
// size s in 32-bit arithmetic, the counts c = ceil(k*2^32/s), k = 1..s-1, make c*s wrap to a
// value < s, so a length guard "len(data) >= c*s" (or a cap that is skipped when the data
// "holds" c elements) lets a count of hundreds of millions through on a tiny input. c-1 and
// c+1 are included (c-1 is the control that wraps to just below 2^32).
func wrapCounts(sizes []int) []uint32 {
	seen := map[uint32]bool{}
	var out []uint32
	for _, s := range sizes {
		for k := 1; k < s; k++ {
			c := (uint64(k)<<32 + uint64(s) - 1) / uint64(s)
			for _, d := range []int64{-1, 0, 1} {
				v := uint32(int64(c) + d)
				if !seen[v] {
					seen[v] = true
					out = append(out, v)
				}
			}
		}
	}
	sort.Slice(out, func(i, j int) bool { return out[i] < out[j] })
	return out
}

// plausible per-element sizes of the codecs (4 count, 5 header, 8 float, 9 header+count,
// 13 EWKB header+count, 16 point, 17, 21 WKB point, 25 EWKB point, 32 two points, 37)
var quickWrapSizes = []int{4, 5, 8, 9, 13, 16, 17, 21, 25, 32, 37}

func allWrapSizes() []int {
	out := make([]int, 0, 64)
	for s := 1; s <= 64; s++ {
		out = append(out, s)
	}
	return out
}

// drawWrapCount draws one wrap-around count for an element size in 1..64.
func drawWrapCount(t *rapid.T) uint32 {
	s := rapid.OneOf(rapid.SampledFrom(quickWrapSizes), rapid.IntRange(2, 64)).Draw(t, "ws")
	k := rapid.IntRange(1, s-1).Draw(t, "wk")
	c := (uint64(k)<<32 + uint64(s) - 1) / uint64(s)
	return uint32(int64(c) + int64(rapid.IntRange(-1, 1).Draw(t, "wd")))
}

// drawCount draws a boundary count or (one time in three) a wrap-around count.
func drawCount(t *rapid.T, label string) uint32 {
	if rapid.IntRange(0, 2).Draw(t, label+"w") == 0 {
		return drawWrapCount(t)
	}
	return hostileCounts[intn(t, len(hostileCounts), label)]
}

// wkbPointPayload is n well-formed WKB points (21 bytes each) in the given byte order.
func wkbPointPayload(le bool, n int) []byte {
	var out []byte
	for i := 0; i < n; i++ {
		h := wkbHeader(le, 1, 0)[:5]
		out = append(out, h...)
		out = append(out, wkbTail[:16]...)
	}
	return out
}

func clip(d []byte) []byte {
	if len(d) > MaxInput {
		return d[:MaxInput]
	}
	return d
}

func intn(t *rapid.T, n int, label string) int {
	if n <= 0 {
		return 0
	}
	return rapid.IntRange(0, n-1).Draw(t, label)
}

// pos draws a position in [0, len]: uniform, or at / next to one of the marks.
func pos(t *rapid.T, n int, marks []int, label string) int {
	if len(marks) > 0 && rapid.IntRange(0, 2).Draw(t, label+"@") != 0 {
		p := marks[intn(t, len(marks), label+"m")] + rapid.IntRange(-1, 4).Draw(t, label+"d")
		if p < 0 {
			p = 0
		}
		if p > n {
			p = n
		}
		return p
	}
	return rapid.IntRange(0, n).Draw(t, label)
}

var hostileBytes = []byte{0x00, 0x01, 0x02, 0x07, 0x7f, 0x80, 0x81, 0xfe, 0xff, 0x1f, 0x8b, '0', '1', '\\', 'x', '(', ')', ',', ' ', '{', '}', '[', ']', '"', ':', 'n', 'e', '-'}

// mutateBytes applies one generic byte-level mutation.
func mutateBytes(t *rapid.T, d []byte, marks []int) ([]byte, string) {
	n := len(d)
	switch rapid.IntRange(0, 7).Draw(t, "bop") {
	case 0: // truncate
		p := pos(t, n, marks, "cut")
		return append([]byte(nil), d[:p]...), "truncate"
	case 1: // splice with self
		if n == 0 {
			return d, "noop"
		}
		a := intn(t, n, "sa")
		l := rapid.IntRange(1, 64).Draw(t, "sl")
		if a+l > n {
			l = n - a
		}
		piece := append([]byte(nil), d[a:a+l]...)
		p := pos(t, n, marks, "sp")
		out := append([]byte(nil), d[:p]...)
		out = append(out, piece...)
		if rapid.Bool().Draw(t, "sover") { // overwrite instead of insert
			if p+l < n {
				out = append(out, d[p+l:]...)
			}
		} else {
			out = append(out, d[p:]...)
		}
		return out, "splice"
	case 2: // bit flip
		if n == 0 {
			return d, "noop"
		}
		p := pos(t, n-1, marks, "fp")
		out := append([]byte(nil), d...)
		out[p] ^= 1 << uint(rapid.IntRange(0, 7).Draw(t, "bit"))
		return out, "bitflip"
	case 3: // hostile byte
		if n == 0 {
			return d, "noop"
		}
		p := pos(t, n-1, marks, "hp")
		out := append([]byte(nil), d...)
		out[p] = hostileBytes[intn(t, len(hostileBytes), "hb")]
		return out, "setbyte"
	case 4: // insert random bytes
		p := pos(t, n, marks, "ip")
		ins := rapid.SliceOfN(rapid.Byte(), 1, 8).Draw(t, "ins")
		out := append([]byte(nil), d[:p]...)
		out = append(out, ins...)
		out = append(out, d[p:]...)
		return out, "insert"
	case 5: // delete a range
		if n == 0 {
			return d, "noop"
		}
		p := pos(t, n-1, marks, "dp")
		l := rapid.IntRange(1, 16).Draw(t, "dl")
		if p+l > n {
			l = n - p
		}
		out := append([]byte(nil), d[:p]...)
		out = append(out, d[p+l:]...)
		return out, "delete"
	case 6: // append self (several geometries on one stream; trailing data)
		out := append([]byte(nil), d...)
		out = append(out, d...)
		return out, "double"
	default: // overwrite a 32-bit word with a boundary value, either byte order
		if n < 4 {
			return d, "noop"
		}
		p := pos(t, n-4, marks, "wp")
		v := drawCount(t, "wv")
		out := append([]byte(nil), d...)
		if rapid.Bool().Draw(t, "wle") {
			binary.LittleEndian.PutUint32(out[p:], v)
		} else {
			binary.BigEndian.PutUint32(out[p:], v)
		}
		return out, "word"
	}
}

// ---------------------------------------------------------------- WKB

type wkbMark struct {
	off int
	le  bool
}

type wkbMarks struct {
	orders []int
	types  []wkbMark
	counts []wkbMark
}

func (m *wkbMarks) all() []int {
	var out []int
	out = append(out, m.orders...)
	for _, x := range m.types {
		out = append(out, x.off)
	}
	for _, x := range m.counts {
		out = append(out, x.off)
	}
	return out
}

// walkWKB records the structural offsets of a VALID (E)WKB encoding (the harness's own reader).
func walkWKB(d []byte, p int, m *wkbMarks) int {
	if p < 0 || p+5 > len(d) {
		return -1
	}
	le := d[p] == 1
	u32 := func(q int) uint32 {
		if q+4 > len(d) {
			return 0
		}
		if le {
			return binary.LittleEndian.Uint32(d[q:])
		}
		return binary.BigEndian.Uint32(d[q:])
	}
	m.orders = append(m.orders, p)
	typ := u32(p + 1)
	m.types = append(m.types, wkbMark{p + 1, le})
	p += 5
	if typ&0x20000000 != 0 {
		p += 4
	}
	count := func() int {
		if p+4 > len(d) {
			return -1
		}
		c := int(u32(p))
		m.counts = append(m.counts, wkbMark{p, le})
		p += 4
		return c
	}
	switch typ & 0xff {
	case 1:
		return p + 16
	case 2:
		c := count()
		if c < 0 {
			return -1
		}
		return p + 16*c
	case 3:
		c := count()
		for i := 0; i < c; i++ {
			k := count()
			if k < 0 {
				return -1
			}
			p += 16 * k
		}
		return p
	case 4, 5, 6, 7:
		c := count()
		for i := 0; i < c; i++ {
			p = walkWKB(d, p, m)
			if p < 0 {
				return -1
			}
		}
		return p
	}
	return -1
}

func wkbHeader(le bool, typ, count uint32) []byte {
	b := make([]byte, 9)
	if le {
		b[0] = 1
		binary.LittleEndian.PutUint32(b[1:], typ)
		binary.LittleEndian.PutUint32(b[5:], count)
	} else {
		binary.BigEndian.PutUint32(b[1:], typ)
		binary.BigEndian.PutUint32(b[5:], count)
	}
	return b
}

var wkbTypeWords = []uint32{0, 1, 2, 3, 4, 5, 6, 7, 8, 15, 16, 17, 0x20000001, 0x20000002, 0x20000003, 0x20000004, 0x20000005, 0x20000006, 0x20000007,
	1001, 1002, 1003, 1007, 2001, 3001, 0x80000001, 0x40000001, 0xA0000002, 0xFFFFFFFF}

var seedGeomOpts = gen.Opts{Coord: gen.AnyCoord(), Empty: true, EmptyMembers: true, Degenerate: true, MaxDepth: 2, MaxLen: 4}

func safeBytes(f func() []byte) (out []byte) {
	defer func() {
		if recover() != nil {
			out = nil
		}
	}()
	return f()
}

// genWKB draws a valid encoding and mutates it.
func genWKB(t *rapid.T) ([]byte, string) {
	g := gen.Geom(seedGeomOpts).Draw(t, "geom")
	var order binary.ByteOrder = binary.LittleEndian
	if rapid.Bool().Draw(t, "be") {
		order = binary.BigEndian
	}
	srid := rapid.SampledFrom([]int{0, 0, 4326, 1, 256, 0x3030, 0x785c, 1 << 30, 1<<31 - 1}).Draw(t, "srid")
	d := safeBytes(func() []byte {
		if srid != 0 {
			b, _ := ewkb.Marshal(g, srid, order)
			return b
		}
		b, _ := wkb.Marshal(g, order)
		return b
	})
	if d == nil {
		d = wkbHeader(true, 2, 0)
	}
	how := []string{"valid " + gen.KindOf(g)}
	nmut := rapid.IntRange(0, 4).Draw(t, "nmut")
	for i := 0; i < nmut; i++ {
		var m wkbMarks
		walkWKB(d, 0, &m)
		var what string
		switch rapid.IntRange(0, 9).Draw(t, "wop") {
		case 0, 1: // count inflation at a real count field, in its byte order
			if len(m.counts) == 0 {
				d, what = mutateBytes(t, d, m.all())
				break
			}
			c := m.counts[intn(t, len(m.counts), "ci")]
			v := drawCount(t, "cv")
			d = append([]byte(nil), d...)
			if c.off+4 <= len(d) {
				if c.le {
					binary.LittleEndian.PutUint32(d[c.off:], v)
				} else {
					binary.BigEndian.PutUint32(d[c.off:], v)
				}
			}
			what = "count"
			// a wrapped product is < 128: make sure that many bytes (>= 96) follow the count,
			// as well-formed points or as raw coordinates
			if len(d)-(c.off+4) < 96 {
				switch rapid.IntRange(0, 2).Draw(t, "pad") {
				case 0:
					d = append(d, wkbPointPayload(c.le, 5)...)
					what = "count+points"
				case 1:
					d = append(d, wkbTail...)
					d = append(d, wkbTail...)
					d = append(d, wkbTail...)
					what = "count+coords"
				}
			}
		case 2: // type word
			if len(m.types) == 0 {
				d, what = mutateBytes(t, d, nil)
				break
			}
			c := m.types[intn(t, len(m.types), "ti")]
			v := wkbTypeWords[intn(t, len(wkbTypeWords), "tv")]
			d = append([]byte(nil), d...)
			if c.off+4 <= len(d) {
				if c.le {
					binary.LittleEndian.PutUint32(d[c.off:], v)
				} else {
					binary.BigEndian.PutUint32(d[c.off:], v)
				}
			}
			what = "type"
		case 3: // byte-order byte
			if len(m.orders) == 0 {
				d, what = mutateBytes(t, d, nil)
				break
			}
			o := m.orders[intn(t, len(m.orders), "oi")]
			d = append([]byte(nil), d...)
			if o < len(d) {
				d[o] = rapid.SampledFrom([]byte{0, 1, 2, 0xff, '0', '\\'}).Draw(t, "ov")
			}
			what = "order"
		case 4: // wrap in collection levels
			depth := rapid.OneOf(rapid.IntRange(1, 4), rapid.IntRange(1, 200)).Draw(t, "depth")
			cnt := rapid.SampledFrom([]uint32{1, 1, 1, 2, 100, 101, 1 << 28, 1<<32 - 1}).Draw(t, "wcnt")
			le := rapid.Bool().Draw(t, "wle")
			typ := rapid.SampledFrom([]uint32{7, 7, 7, 0x20000007}).Draw(t, "wtyp")
			var out []byte
			for k := 0; k < depth; k++ {
				h := wkbHeader(le, typ, cnt)
				if typ&0x20000000 != 0 {
					h = append(h[:5:5], append([]byte{0xe6, 0x10, 0, 0}, h[5:]...)...)
				}
				out = append(out, h...)
			}
			d = append(out, d...)
			what = "nest-collection"
		case 5: // wrap as the single member of a multi-* (the byte decoders accept nested multis)
			depth := rapid.OneOf(rapid.IntRange(1, 3), rapid.IntRange(1, 200)).Draw(t, "mdepth")
			typ := rapid.SampledFrom([]uint32{4, 5, 6}).Draw(t, "mtyp")
			cnt := rapid.SampledFrom([]uint32{1, 1, 1, 2, 3, 1<<32 - 1}).Draw(t, "mcnt")
			le := rapid.Bool().Draw(t, "mle")
			var out []byte
			for k := 0; k < depth; k++ {
				out = append(out, wkbHeader(le, typ, cnt)...)
			}
			d = append(out, d...)
			what = "nest-multi"
		case 6: // text / prefix framings the scanners understand
			switch rapid.IntRange(0, 6).Draw(t, "frame") {
			case 5: // "0x" / EWKT-style "SRID=…;" before the hex text
				pre := rapid.SampledFrom([]string{"0x", "0X", "SRID=4326;", "SRID=", "srid=4326;", "\\\\x", "x"}).Draw(t, "hexpre")
				d = append([]byte(pre), []byte(hex.EncodeToString(d))...)
				what = "hex-vocab"
			case 6:
				d = append([]byte(hex.EncodeToString(d)), rapid.SampledFrom([]string{";", "=", "h", " ", "\n"}).Draw(t, "hexsuf")...)
				what = "hex-vocab"
			case 0:
				d = []byte(hex.EncodeToString(d))
				what = "hex"
			case 1:
				d = []byte(strings.ToUpper(hex.EncodeToString(d)))
				what = "HEX"
			case 2:
				d = append([]byte(`\x`), []byte(hex.EncodeToString(d))...)
				what = `\xhex`
			case 3:
				p := make([]byte, 4)
				binary.LittleEndian.PutUint32(p, rapid.SampledFrom([]uint32{0, 1, 4326, 0x3030, 0x0100, 0xffffffff}).Draw(t, "psrid"))
				d = append(p, d...)
				what = "srid-prefix"
			default:
				// odd number of hex digits
				h := hex.EncodeToString(d)
				if len(h) > 0 {
					h = h[:len(h)-1]
				}
				d = []byte(h)
				what = "hex-odd"
			}
		default:
			d, what = mutateBytes(t, d, m.all())
		}
		d = clip(d)
		how = append(how, what)
	}
	return d, strings.Join(how, ",")
}

// ---------------------------------------------------------------- WKT

var wktTokens = []string{"POINT", "LINESTRING", "POLYGON", "MULTIPOINT", "MULTILINESTRING", "MULTIPOLYGON", "GEOMETRYCOLLECTION",
	"EMPTY", "(", ")", ",", " ", "1", "1e", "-", "x"}

var wktExtra = []string{"\t", "\n", "  ", "((", "))", "),(", ")),((", "()", "(,)", "Z", "M", "ZM", "SRID=4326;", "point", "Point", "empty",
	"NaN", "Inf", "-Inf", "1e999", "1e-999", "0x1p-2", "1_0", "+1", ".5", "5.", ".", "e", "+", "1 2", "1 2 3", "1 2,3 4", "1,2", "١", "\x00", "\xff", "é"}

// wktVocab (round M3): foreign vocabulary a WKT parser could special-case as a prefix / suffix / keyword:
// EWKT SRID prefixes, dimension suffixes, non-finite number spellings, other geometry keywords, in mixed case.
var wktVocab = []string{"SRID=", "SRID=4326;", "srid=", "Srid=4326;", "SRID=;", "SRID=-1;", "SRID", ";", "=", "EMPTY", "empty", "Z", "M", "ZM", "z", "POINTZ", "POINT Z",
	"POINT ZM", "pointz", "nan", "NaN", "NAN", "inf", "-inf", "Inf", "Infinity", "-Infinity", "1e", "e5", "1e5", "0x1p3", "GEOMETRY", "geometry", "CIRCULARSTRING",
	"CURVEPOLYGON", "COMPOUNDCURVE", "MULTICURVE", "MULTISURFACE", "POLYHEDRALSURFACE", "TIN", "TRIANGLE", "BOX(", "BOX3D(", "Box(", "LINEARRING"}

var wktOpts = gen.Opts{Coord: gen.Mix(gen.SmallInt(8), gen.Half(8), gen.HostileConst(), gen.AnyFinite(), gen.Bits()), Empty: true, EmptyMembers: true, Degenerate: true, MaxDepth: 2, MaxLen: 4}

func genWKT(t *rapid.T) ([]byte, string) {
	g := gen.Geom(wktOpts).Draw(t, "geom")
	s := string(safeBytes(func() []byte { return []byte(wkt.MarshalString(g)) }))
	if s == "" {
		s = "POINT(1 2)"
	}
	how := []string{"valid " + gen.KindOf(g)}
	if rapid.IntRange(0, 11).Draw(t, "vocab") == 0 { // vocabulary as a prefix (1-2 tokens) or a suffix of the valid text
		v := wktVocab[intn(t, len(wktVocab), "v1")]
		if rapid.Bool().Draw(t, "v2") {
			v += wktVocab[intn(t, len(wktVocab), "v2i")]
		}
		sep := rapid.SampledFrom([]string{"", "", " ", "\t"}).Draw(t, "vsep")
		if rapid.IntRange(0, 3).Draw(t, "vsuffix") == 0 {
			s = s + sep + v
		} else {
			s = sep + v + sep + s
		}
		how = append(how, "vocab")
	}
	parenMarks := func() []int {
		var m []int
		for i := 0; i < len(s); i++ {
			if c := s[i]; c == '(' || c == ')' || c == ',' || c == ' ' {
				m = append(m, i)
			}
		}
		return m
	}
	nmut := rapid.IntRange(0, 4).Draw(t, "nmut")
	for i := 0; i < nmut; i++ {
		var what string
		switch rapid.IntRange(0, 8).Draw(t, "top") {
		case 0, 1: // insert a token
			tok := rapid.OneOf(rapid.SampledFrom(wktTokens), rapid.SampledFrom(wktExtra), rapid.SampledFrom(wktVocab)).Draw(t, "tok")
			p := pos(t, len(s), parenMarks(), "tp")
			s = s[:p] + tok + s[p:]
			what = "token"
		case 2: // replace a character
			if len(s) == 0 {
				what = "noop"
				break
			}
			p := pos(t, len(s)-1, parenMarks(), "rp")
			tok := rapid.OneOf(rapid.SampledFrom(wktTokens), rapid.SampledFrom(wktExtra), rapid.SampledFrom(wktVocab)).Draw(t, "rtok")
			s = s[:p] + tok + s[p+1:]
			what = "replace"
		case 3: // nest in collections
			depth := rapid.OneOf(rapid.IntRange(1, 4), rapid.IntRange(1, 200)).Draw(t, "depth")
			open := rapid.SampledFrom([]string{"GEOMETRYCOLLECTION(", "GEOMETRYCOLLECTION (", "geometrycollection(", "GEOMETRYCOLLECTION(POINT(1 2),", "GEOMETRYCOLLECTION( "}).Draw(t, "open")
			closeN := depth + rapid.SampledFrom([]int{0, 0, 0, -1, 1}).Draw(t, "unbalance")
			if closeN < 0 {
				closeN = 0
			}
			s = strings.Repeat(open, depth) + s + strings.Repeat(")", closeN)
			what = "nest"
		case 4: // repeat a piece many times (long member lists, long white space)
			piece := rapid.SampledFrom([]string{",", " ", "),(", ")),((", "1 2,", "(1 2),", "((1 2,3 4)),", "POINT(1 2),", "\t", "(", ")"}).Draw(t, "piece")
			k := rapid.OneOf(rapid.IntRange(2, 8), rapid.IntRange(2, 2000)).Draw(t, "rep")
			p := pos(t, len(s), parenMarks(), "pp")
			s = s[:p] + strings.Repeat(piece, k) + s[p:]
			what = "repeat"
		case 5: // change case of a run
			if len(s) == 0 {
				what = "noop"
				break
			}
			p := intn(t, len(s), "cp")
			q := p + rapid.IntRange(1, 20).Draw(t, "cl")
			if q > len(s) {
				q = len(s)
			}
			s = s[:p] + strings.ToLower(s[p:q]) + s[q:]
			what = "case"
		default:
			b, w := mutateBytes(t, []byte(s), parenMarks())
			s, what = string(b), w
		}
		if len(s) > MaxInput {
			s = s[:MaxInput]
		}
		how = append(how, what)
	}
	return []byte(s), strings.Join(how, ",")
}

// ---------------------------------------------------------------- GeoJSON (tree level)

var jsonOpts = gen.Opts{Coord: gen.FiniteCoord(), Empty: true, EmptyMembers: true, Degenerate: true, MaxDepth: 2, MaxLen: 4}

func deepArray(depth int, leaf interface{}) interface{} {
	v := leaf
	for i := 0; i < depth; i++ {
		v = []interface{}{v}
	}
	return v
}

func hostileJSON(t *rapid.T) interface{} {
	switch rapid.IntRange(0, 25).Draw(t, "hj") {
	case 0:
		return nil
	case 1:
		return true
	case 2:
		return float64(rapid.SampledFrom([]int{0, -1, 1, 2, 1 << 31}).Draw(t, "n"))
	case 3:
		return rapid.SampledFrom([]float64{1e308, -1e308, 5e-324, 0.1, 1e21}).Draw(t, "f")
	case 4:
		return rapid.SampledFrom([]string{"", "Point", "MultiPoint", "LineString", "MultiLineString", "Polygon", "MultiPolygon",
			"GeometryCollection", "Feature", "FeatureCollection", "point", "Foo", "\u0000"}).Draw(t, "s")
	case 5:
		return []interface{}{}
	case 6:
		return []interface{}{nil}
	case 7:
		return []interface{}{[]interface{}{}}
	case 8:
		return []interface{}{1.0}
	case 9:
		return []interface{}{1.0, 2.0}
	case 10:
		return []interface{}{1.0, 2.0, 3.0, 4.0}
	case 11:
		return []interface{}{[]interface{}{1.0, 2.0}, []interface{}{3.0}}
	case 12:
		return []interface{}{1.0, "a"}
	case 13:
		return map[string]interface{}{}
	case 14:
		return map[string]interface{}{"type": "Point"}
	case 15:
		return map[string]interface{}{"type": "Point", "coordinates": []interface{}{1.0, 2.0}}
	case 16:
		return map[string]interface{}{"type": "GeometryCollection", "geometries": []interface{}{nil}}
	case 17:
		return map[string]interface{}{"type": "GeometryCollection", "geometries": []interface{}{}}
	case 18:
		return map[string]interface{}{"type": "GeometryCollection"}
	case 19:
		return deepArray(rapid.OneOf(rapid.IntRange(1, 6), rapid.IntRange(1, 200)).Draw(t, "dd"), 1.0)
	case 20:
		return deepArray(rapid.IntRange(1, 5).Draw(t, "dd2"), []interface{}{1.0, 2.0})
	case 21:
		n := rapid.OneOf(rapid.IntRange(1, 8), rapid.IntRange(1, 500)).Draw(t, "ln")
		a := make([]interface{}, n)
		for i := range a {
			a[i] = []interface{}{float64(i), 1.0}
		}
		return a
	case 22:
		return map[string]interface{}{"type": "Feature", "geometry": nil, "properties": nil}
	case 23:
		return map[string]interface{}{"type": "Feature", "geometry": map[string]interface{}{"type": "Point", "coordinates": []interface{}{1.0, 2.0}}, "properties": map[string]interface{}{"a": 1.0}}
	case 24:
		return rapid.SampledFrom([]interface{}{
			map[string]interface{}{"$oid": "5f2b6d1e9c3a4b0012345678"},
			map[string]interface{}{"type": "name", "properties": map[string]interface{}{"name": "urn:ogc:def:crs:EPSG::4326"}},
			"5F2B6D1E9C3A4B0012345678", "123e4567-e89b-12d3-a456-426614174000", "null", "true", "2020-01-02T03:04:05Z", "12345", "SRID=4326;POINT(1 2)",
			[]interface{}{0.0, 0.0, 1.0, 1.0}, []interface{}{0.0, 0.0, 0.0, 1.0, 1.0, 1.0},
		}).Draw(t, "vocabj")
	default:
		return "x"
	}
}

var jsonKeys = []string{"type", "coordinates", "geometries", "geometry", "features", "properties", "bbox", "id", "crs", "extra", "", "$oid", "_id", "$ref", "name", "TYPE", "Type"}

type jsonPath struct {
	parent interface{} // map[string]interface{} or []interface{}
	key    string
	idx    int
}

func collectPaths(v interface{}, out *[]jsonPath, limit int) {
	if len(*out) >= limit {
		return
	}
	switch x := v.(type) {
	case map[string]interface{}:
		keys := make([]string, 0, len(x))
		for k := range x {
			keys = append(keys, k)
		}
		sort.Strings(keys)
		for _, k := range keys {
			*out = append(*out, jsonPath{parent: x, key: k})
			collectPaths(x[k], out, limit)
		}
	case []interface{}:
		for i := range x {
			*out = append(*out, jsonPath{parent: x, idx: i})
			collectPaths(x[i], out, limit)
		}
	}
}

func wrapGeometryCollection(v interface{}, depth int) interface{} {
	for i := 0; i < depth; i++ {
		v = map[string]interface{}{"type": "GeometryCollection", "geometries": []interface{}{v}}
	}
	return v
}

// genJSONTree draws a valid GeoJSON document (geometry, feature or feature
// collection) as a generic tree and applies tree-level mutations.
func genJSONTree(t *rapid.T) (interface{}, []string) {
	g := gen.Geom(jsonOpts).Draw(t, "geom")
	shape := rapid.SampledFrom([]string{"geometry", "geometry", "feature", "featurecollection"}).Draw(t, "shape")
	raw := safeBytes(func() []byte {
		switch shape {
		case "geometry":
			b, _ := geojson.NewGeometry(g).MarshalJSON()
			return b
		case "feature":
			f := geojson.NewFeature(g)
			switch rapid.IntRange(0, 3).Draw(t, "idk") {
			case 0:
				f.ID = "id-1"
			case 1:
				f.ID = 12.0
			}
			if rapid.Bool().Draw(t, "props") {
				f.Properties["name"] = "x"
				f.Properties["n"] = 1.5
				f.Properties["nested"] = map[string]interface{}{"a": []interface{}{1.0, "b", nil}}
			}
			if rapid.Bool().Draw(t, "bbox") && g != nil {
				f.BBox = geojson.NewBBox(g.Bound())
			}
			b, _ := f.MarshalJSON()
			return b
		default:
			fc := geojson.NewFeatureCollection()
			n := rapid.IntRange(0, 3).Draw(t, "nf")
			for i := 0; i < n; i++ {
				fc.Append(geojson.NewFeature(g))
			}
			if rapid.Bool().Draw(t, "extra") {
				fc.ExtraMembers = geojson.Properties{"name": "layer", "crs": map[string]interface{}{"a": 1.0}}
			}
			b, _ := fc.MarshalJSON()
			return b
		}
	})
	var tree interface{}
	if raw == nil || json.Unmarshal(raw, &tree) != nil || tree == nil {
		tree = map[string]interface{}{"type": "Point", "coordinates": []interface{}{1.0, 2.0}}
	}
	how := []string{"valid " + shape + " " + gen.KindOf(g)}
	nmut := rapid.IntRange(0, 3).Draw(t, "ntree")
	for i := 0; i < nmut; i++ {
		var paths []jsonPath
		collectPaths(tree, &paths, 400)
		op := rapid.IntRange(0, 6).Draw(t, "jop")
		switch {
		case op <= 2 && len(paths) > 0: // replace a node by a hostile value
			p := paths[intn(t, len(paths), "pi")]
			v := hostileJSON(t)
			if m, ok := p.parent.(map[string]interface{}); ok {
				m[p.key] = v
			} else {
				p.parent.([]interface{})[p.idx] = v
			}
			how = append(how, "replace")
		case op == 3 && len(paths) > 0: // delete / rename a key
			p := paths[intn(t, len(paths), "pi")]
			if m, ok := p.parent.(map[string]interface{}); ok {
				v := m[p.key]
				delete(m, p.key)
				if rapid.Bool().Draw(t, "rename") {
					m[jsonKeys[intn(t, len(jsonKeys), "nk")]] = v
				}
				how = append(how, "key")
			}
		case op == 4: // add a member at the top
			if m, ok := tree.(map[string]interface{}); ok {
				m[jsonKeys[intn(t, len(jsonKeys), "ak")]] = hostileJSON(t)
				how = append(how, "add")
			}
		case op == 5: // wrap in geometry collections / a feature / a feature collection
			switch rapid.IntRange(0, 2).Draw(t, "wrap") {
			case 0:
				depth := rapid.OneOf(rapid.IntRange(1, 4), rapid.IntRange(1, 200)).Draw(t, "depth")
				tree = wrapGeometryCollection(tree, depth)
				how = append(how, "nest-collection")
			case 1:
				tree = map[string]interface{}{"type": "Feature", "geometry": tree, "properties": map[string]interface{}{}}
				how = append(how, "wrap-feature")
			default:
				tree = map[string]interface{}{"type": "FeatureCollection", "features": []interface{}{tree, tree}}
				how = append(how, "wrap-fc")
			}
		default:
			// replace the whole document
			if rapid.IntRange(0, 3).Draw(t, "whole") == 0 {
				tree = hostileJSON(t)
				how = append(how, "whole")
			}
		}
	}
	return tree, how
}

func jsonMarks(d []byte) []int {
	var m []int
	for i, c := range d {
		if c == ':' || c == ',' || c == '[' || c == ']' || c == '{' || c == '}' || c == '"' {
			m = append(m, i)
			if len(m) > 400 {
				break
			}
		}
	}
	return m
}

func genGeoJSON(t *rapid.T) ([]byte, string) {
	tree, how := genJSONTree(t)
	d, err := json.Marshal(tree)
	if err != nil {
		d = []byte(`{"type":"Point","coordinates":[1,2]}`)
	}
	nmut := rapid.SampledFrom([]int{0, 0, 1, 1, 2, 3}).Draw(t, "nbytes")
	for i := 0; i < nmut; i++ {
		var what string
		if rapid.IntRange(0, 4).Draw(t, "jtxt") == 0 {
			tok := rapid.SampledFrom([]string{"null", "[null]", "{}", "[]", "1e999", "-", "\"", "\\u0000", ",", ":", "[[[[[[[[", "]]]]]]]]", "{\"type\":", "\"geometries\":[null],", "\"coordinates\":null,", " ", "\n"}).Draw(t, "jtok")
			p := pos(t, len(d), jsonMarks(d), "jp")
			d = append(append(append([]byte(nil), d[:p]...), tok...), d[p:]...)
			what = "text-token"
		} else {
			d, what = mutateBytes(t, d, jsonMarks(d))
		}
		d = clip(d)
		how = append(how, what)
	}
	return d, strings.Join(how, ",")
}

// ---------------------------------------------------------------- BSON (own writer, sorted keys)

type bsonW struct {
	buf   bytes.Buffer
	marks []int // offsets of int32 length fields and of element type bytes
}

func (w *bsonW) cstring(s string) {
	w.buf.WriteString(strings.ReplaceAll(s, "\x00", ""))
	w.buf.WriteByte(0)
}

func (w *bsonW) i32(v int32) {
	var b [4]byte
	binary.LittleEndian.PutUint32(b[:], uint32(v))
	w.buf.Write(b[:])
}

func (w *bsonW) patch(off int) {
	b := w.buf.Bytes()
	binary.LittleEndian.PutUint32(b[off:], uint32(len(b)-off))
}

func (w *bsonW) doc(keys []string, vals []interface{}, intsAsInt32 bool) {
	start := w.buf.Len()
	w.marks = append(w.marks, start)
	w.i32(0)
	for i, k := range keys {
		w.elem(k, vals[i], intsAsInt32)
	}
	w.buf.WriteByte(0)
	w.patch(start)
}

func (w *bsonW) elem(key string, v interface{}, ints bool) {
	w.marks = append(w.marks, w.buf.Len())
	switch x := v.(type) {
	case nil:
		w.buf.WriteByte(0x0A)
		w.cstring(key)
	case bool:
		w.buf.WriteByte(0x08)
		w.cstring(key)
		if x {
			w.buf.WriteByte(1)
		} else {
			w.buf.WriteByte(0)
		}
	case float64:
		if ints && x == math.Trunc(x) && math.Abs(x) < 1<<31 {
			w.buf.WriteByte(0x10)
			w.cstring(key)
			w.i32(int32(x))
			return
		}
		w.buf.WriteByte(0x01)
		w.cstring(key)
		var b [8]byte
		binary.LittleEndian.PutUint64(b[:], math.Float64bits(x))
		w.buf.Write(b[:])
	case string:
		w.buf.WriteByte(0x02)
		w.cstring(key)
		w.marks = append(w.marks, w.buf.Len())
		w.i32(int32(len(x) + 1))
		w.buf.WriteString(x)
		w.buf.WriteByte(0)
	case map[string]interface{}:
		w.buf.WriteByte(0x03)
		w.cstring(key)
		keys := make([]string, 0, len(x))
		for k := range x {
			keys = append(keys, k)
		}
		sort.Strings(keys)
		vals := make([]interface{}, len(keys))
		for i, k := range keys {
			vals[i] = x[k]
		}
		w.doc(keys, vals, ints)
	case []interface{}:
		w.buf.WriteByte(0x04)
		w.cstring(key)
		keys := make([]string, len(x))
		for i := range x {
			keys[i] = itoa(i)
		}
		w.doc(keys, x, ints)
	default:
		w.buf.WriteByte(0x0A)
		w.cstring(key)
	}
}

func itoa(i int) string {
	if i == 0 {
		return "0"
	}
	var b []byte
	for i > 0 {
		b = append([]byte{byte('0' + i%10)}, b...)
		i /= 10
	}
	return string(b)
}

// toBSON renders a generic tree as a BSON document; a non-document top level is wrapped as {"v": …}.
func toBSON(tree interface{}, ints bool) ([]byte, []int) {
	m, ok := tree.(map[string]interface{})
	if !ok {
		m = map[string]interface{}{"v": tree}
	}
	w := &bsonW{}
	keys := make([]string, 0, len(m))
	for k := range m {
		keys = append(keys, k)
	}
	sort.Strings(keys)
	vals := make([]interface{}, len(keys))
	for i, k := range keys {
		vals[i] = m[k]
	}
	w.doc(keys, vals, ints)
	return w.buf.Bytes(), w.marks
}

var bsonLens = []uint32{0, 1, 4, 5, 6, 0x7fffffff, 0x80000000, 0xffffffff, 1 << 28, 1 << 24, 65536}

var bsonTypes = []byte{0x00, 0x01, 0x02, 0x03, 0x04, 0x05, 0x06, 0x07, 0x08, 0x09, 0x0A, 0x0B, 0x0C, 0x0D, 0x0E, 0x0F, 0x10, 0x11, 0x12, 0x13, 0x7F, 0xFF, 0x14}

func genBSON(t *rapid.T) ([]byte, string) {
	tree, how := genJSONTree(t)
	d, marks := toBSON(tree, rapid.Bool().Draw(t, "ints"))
	d = append([]byte(nil), d...)
	nmut := rapid.SampledFrom([]int{0, 1, 1, 2, 3, 4}).Draw(t, "nbytes")
	for i := 0; i < nmut; i++ {
		var what string
		switch rapid.IntRange(0, 4).Draw(t, "bsop") {
		case 0: // a length field gets a boundary value or is off by a little
			if len(marks) == 0 || len(d) < 4 {
				d, what = mutateBytes(t, d, marks)
				break
			}
			p := marks[intn(t, len(marks), "li")]
			if p+4 > len(d) {
				p = 0
			}
			cur := binary.LittleEndian.Uint32(d[p:])
			var v uint32
			if rapid.Bool().Draw(t, "near") {
				v = cur + uint32(rapid.IntRange(-5, 5).Draw(t, "dl"))
			} else {
				v = bsonLens[intn(t, len(bsonLens), "lv")]
			}
			binary.LittleEndian.PutUint32(d[p:], v)
			what = "length"
		case 1: // an element type byte changes
			if len(marks) == 0 {
				d, what = mutateBytes(t, d, marks)
				break
			}
			p := marks[intn(t, len(marks), "ti")]
			if p < len(d) {
				d[p] = bsonTypes[intn(t, len(bsonTypes), "tv")]
			}
			what = "elemtype"
		default:
			d, what = mutateBytes(t, d, marks)
		}
		d = clip(d)
		how = append(how, what)
	}
	return d, strings.Join(how, ",")
}

// ---------------------------------------------------------------- MVT (own protobuf writer)

type pbW struct {
	buf   []byte
	marks []int
}

func (w *pbW) varint(v uint64) {
	for v >= 0x80 {
		w.buf = append(w.buf, byte(v)|0x80)
		v >>= 7
	}
	w.buf = append(w.buf, byte(v))
}

func (w *pbW) tag(field, wire int) { w.varint(uint64(field)<<3 | uint64(wire)) }

func (w *pbW) bytesField(field int, b []byte) {
	w.tag(field, 2)
	w.marks = append(w.marks, len(w.buf))
	w.varint(uint64(len(b)))
	w.buf = append(w.buf, b...)
}

func (w *pbW) varintField(field int, v uint64) {
	w.tag(field, 0)
	w.marks = append(w.marks, len(w.buf))
	w.varint(v)
}

func packed(vs []uint32) []byte {
	w := &pbW{}
	for _, v := range vs {
		w.varint(uint64(v))
	}
	return w.buf
}

func zz(v int) uint32 { return uint32((v << 1) ^ (v >> 31)) }

var hostileCmdCounts = []uint32{0, 1, 2, 3, 4095, 4096, 1 << 20, 1 << 27, 1<<27 + 1, 1<<28 - 1, 1 << 28, 1<<28 + 1, 1<<29 - 1}

// genMVTGeometry draws the command stream of one feature and its geometry type;
// with some probability one command integer is replaced by a hostile one.
func genMVTGeometry(t *rapid.T) (uint32, []uint32, string) {
	typ := uint32(rapid.IntRange(1, 3).Draw(t, "gtype"))
	var g []uint32
	pt := func() {
		g = append(g, zz(rapid.IntRange(-5000, 5000).Draw(t, "dx")), zz(rapid.IntRange(-5000, 5000).Draw(t, "dy")))
	}
	var cmdPos []int
	cmd := func(id, count uint32) {
		cmdPos = append(cmdPos, len(g))
		g = append(g, count<<3|id)
	}
	switch typ {
	case 1:
		n := rapid.IntRange(1, 4).Draw(t, "npts")
		cmd(1, uint32(n))
		for i := 0; i < n; i++ {
			pt()
		}
	case 2:
		nl := rapid.IntRange(1, 3).Draw(t, "nlines")
		for l := 0; l < nl; l++ {
			cmd(1, 1)
			pt()
			n := rapid.IntRange(1, 4).Draw(t, "nseg")
			cmd(2, uint32(n))
			for i := 0; i < n; i++ {
				pt()
			}
		}
	default:
		nr := rapid.IntRange(1, 3).Draw(t, "nrings")
		for r := 0; r < nr; r++ {
			cmd(1, 1)
			pt()
			n := rapid.IntRange(2, 4).Draw(t, "nseg")
			cmd(2, uint32(n))
			for i := 0; i < n; i++ {
				pt()
			}
			cmd(7, 1)
		}
	}
	how := "geom"
	switch rapid.IntRange(0, 7).Draw(t, "ghost") {
	case 0: // hostile command integer
		p := cmdPos[intn(t, len(cmdPos), "cp")]
		id := uint32(rapid.IntRange(0, 7).Draw(t, "cid"))
		cnt := hostileCmdCounts[intn(t, len(hostileCmdCounts), "ccnt")]
		if rapid.IntRange(0, 2).Draw(t, "cwrap") == 0 {
			// counts whose product with a small element size wraps in 32 bits (the count field has 29 bits)
			cnt = drawWrapCount(t) & (1<<29 - 1)
		}
		g[p] = cnt<<3 | id
		how = "geom-cmd"
	case 1: // cut the stream
		g = g[:intn(t, len(g)+1, "gcut")]
		how = "geom-cut"
	case 2: // other geometry type
		typ = rapid.SampledFrom([]uint32{0, 1, 2, 3, 4, 7, 1 << 31}).Draw(t, "otype")
		how = "geom-type"
	case 3: // raw integers
		g = rapid.SliceOfN(rapid.Uint32(), 0, 8).Draw(t, "graw")
		how = "geom-raw"
	}
	return typ, g, how
}

func genMVTValue(t *rapid.T) []byte {
	w := &pbW{}
	switch rapid.IntRange(0, 8).Draw(t, "vk") {
	case 0:
		w.bytesField(1, []byte(rapid.SampledFrom([]string{"", "a", "héllo"}).Draw(t, "vs")))
	case 1:
		w.tag(2, 5)
		w.buf = append(w.buf, 0, 0, 0x80, 0x3f)
	case 2:
		w.tag(3, 1)
		w.buf = append(w.buf, 0, 0, 0, 0, 0, 0, 0xf0, 0x3f)
	case 3:
		w.varintField(4, rapid.Uint64().Draw(t, "vi"))
	case 4:
		w.varintField(5, rapid.Uint64().Draw(t, "vu"))
	case 5:
		w.varintField(6, rapid.Uint64().Draw(t, "vz"))
	case 6:
		w.varintField(7, uint64(rapid.IntRange(0, 2).Draw(t, "vb")))
	case 7: // wrong wire type for the field
		w.tag(rapid.IntRange(1, 7).Draw(t, "wf"), rapid.IntRange(0, 7).Draw(t, "ww"))
		w.buf = append(w.buf, rapid.SliceOfN(rapid.Byte(), 0, 9).Draw(t, "wb")...)
	default: // empty value message
	}
	return w.buf
}

// genMVTTile draws a tile and returns its bytes and the offsets of length / count varints.
func genMVTTile(t *rapid.T) ([]byte, []int, []string) {
	tile := &pbW{}
	var how []string
	nl := rapid.SampledFrom([]int{0, 1, 1, 1, 1, 2, 2, 3}).Draw(t, "nlayers")
	for l := 0; l < nl; l++ {
		layer := &pbW{}
		if rapid.IntRange(0, 5).Draw(t, "hasver") != 0 {
			layer.varintField(15, uint64(rapid.SampledFrom([]uint32{1, 2, 0, 1<<32 - 1}).Draw(t, "ver")))
		}
		layer.bytesField(1, []byte(rapid.SampledFrom([]string{"roads", "", "x"}).Draw(t, "name")))
		nk := rapid.IntRange(0, 3).Draw(t, "nkeys")
		nv := rapid.IntRange(0, 3).Draw(t, "nvals")
		nf := rapid.IntRange(0, 3).Draw(t, "nfeat")
		for f := 0; f < nf; f++ {
			feat := &pbW{}
			if rapid.Bool().Draw(t, "hasid") {
				feat.varintField(1, rapid.OneOf(rapid.Uint64Range(0, 100), rapid.Uint64()).Draw(t, "id"))
			}
			if rapid.Bool().Draw(t, "hastags") {
				nt := rapid.IntRange(0, 5).Draw(t, "ntags") // odd counts and out-of-range indexes included
				tags := make([]uint32, nt)
				for i := range tags {
					tags[i] = uint32(rapid.OneOf(rapid.IntRange(0, 3), rapid.IntRange(0, 1<<31-1)).Draw(t, "tag"))
				}
				feat.bytesField(2, packed(tags))
			}
			typ, geom, gh := genMVTGeometry(t)
			if gh != "geom" {
				how = append(how, gh)
			}
			feat.varintField(3, uint64(typ))
			switch rapid.IntRange(0, 9).Draw(t, "geomfield") {
			case 0: // feature without a geometry field (formerly a nil / stale iterator)
				how = append(how, "no-geometry")
			case 1: // geometry field with a non-length-delimited wire type
				feat.tag(4, rapid.SampledFrom([]int{0, 1, 5, 3, 4}).Draw(t, "gw"))
				feat.buf = append(feat.buf, packed(geom)...)
				how = append(how, "geometry-wiretype")
			default:
				feat.bytesField(4, packed(geom))
			}
			layer.marks = appendShift(layer.marks, feat.marks, len(layer.buf)+1+varintLen(len(feat.buf)))
			layer.bytesField(2, feat.buf)
		}
		for k := 0; k < nk; k++ {
			layer.bytesField(3, []byte(rapid.SampledFrom([]string{"name", "", "k"}).Draw(t, "key")))
		}
		for v := 0; v < nv; v++ {
			layer.bytesField(4, genMVTValue(t))
		}
		if rapid.IntRange(0, 3).Draw(t, "hasext") != 0 {
			layer.varintField(5, uint64(rapid.SampledFrom([]uint32{4096, 512, 0, 1, 1000, 1<<32 - 1}).Draw(t, "extent")))
		}
		body := layer.buf
		// nest the layer inside more field-3 messages (a layer's field 3 is a key string: must stay harmless)
		if rapid.IntRange(0, 9).Draw(t, "nestlayer") == 0 {
			depth := rapid.OneOf(rapid.IntRange(1, 4), rapid.IntRange(1, 200)).Draw(t, "ldepth")
			for k := 0; k < depth; k++ {
				w := &pbW{}
				w.bytesField(3, body)
				body = w.buf
			}
			how = append(how, "nest-layer")
		}
		tile.marks = appendShift(tile.marks, layer.marks, len(tile.buf)+1+varintLen(len(body))+(len(body)-len(layer.buf)))
		tile.bytesField(3, body)
	}
	if rapid.IntRange(0, 7).Draw(t, "unknownfield") == 0 {
		tile.tag(rapid.IntRange(0, 20).Draw(t, "uf"), rapid.IntRange(0, 7).Draw(t, "uw"))
		tile.buf = append(tile.buf, rapid.SliceOfN(rapid.Byte(), 0, 10).Draw(t, "ub")...)
		how = append(how, "unknown-field")
	}
	return tile.buf, tile.marks, how
}

func varintLen(v int) int {
	n := 1
	for v >= 0x80 {
		v >>= 7
		n++
	}
	return n
}

func appendShift(dst, src []int, shift int) []int {
	for _, m := range src {
		dst = append(dst, m+shift)
	}
	return dst
}

var hostileVarints = [][]byte{{0}, {1}, {0x7f}, {0x80, 0x01}, {0xff, 0xff, 0x03}, {0x80, 0x80, 0x80, 0x80, 0x01}, {0xff, 0xff, 0xff, 0xff, 0x07},
	{0xff, 0xff, 0xff, 0xff, 0x0f}, {0x80, 0x80, 0x80, 0x80, 0x10}, {0x91, 0x80, 0x80, 0x80, 0x10}, {0x80, 0x80, 0x80, 0x80, 0x08}, {0xff, 0xff, 0xff, 0xff, 0xff, 0xff, 0xff, 0xff, 0x7f},
	{0xff, 0xff, 0xff, 0xff, 0xff, 0xff, 0xff, 0xff, 0xff, 0x01}, {0x80, 0x80, 0x80, 0x80, 0x80, 0x80, 0x80, 0x80, 0x80, 0x80, 0x01}, {0x80}, {0x80, 0x00}}

func gz(d []byte) []byte {
	var b bytes.Buffer
	w := gzip.NewWriter(&b)
	_, _ = w.Write(d)
	_ = w.Close()
	return b.Bytes()
}

func genMVT(t *rapid.T) ([]byte, string) {
	d, marks, how := genMVTTile(t)
	how = append([]string{"valid tile"}, how...)
	nmut := rapid.SampledFrom([]int{0, 0, 1, 1, 2, 3}).Draw(t, "nbytes")
	for i := 0; i < nmut; i++ {
		var what string
		if len(marks) > 0 && rapid.IntRange(0, 2).Draw(t, "vop") == 0 {
			// a length / scalar varint is replaced by a boundary varint (the enclosing lengths become stale)
			p := marks[intn(t, len(marks), "vi")]
			if p > len(d) {
				p = len(d)
			}
			_, q, ok := uvarint(d, p)
			if !ok {
				q = p
			}
			hv := hostileVarints[intn(t, len(hostileVarints), "hv")]
			d = append(append(append([]byte(nil), d[:p]...), hv...), d[q:]...)
			what = "varint"
		} else {
			d, what = mutateBytes(t, d, marks)
		}
		d = clip(d)
		how = append(how, what)
	}
	switch rapid.IntRange(0, 11).Draw(t, "gzk") {
	case 0, 1, 2: // a proper gzip stream of the (mutated) tile
		d = gz(d)
		how = append(how, "gzip")
	case 3: // mutated gzip stream
		d = gz(d)
		var what string
		d, what = mutateBytes(t, d, []int{0, 1, 2, 3, 10, len(d) - 8, len(d) - 4})
		how = append(how, "gzip", what)
	case 4: // gzip magic followed by the raw tile
		d = append([]byte{0x1f, 0x8b}, d...)
		how = append(how, "gzip-magic")
	case 5: // a small decompression bomb: the tile repeated / zero padding
		k := rapid.OneOf(rapid.IntRange(1, 64), rapid.IntRange(1, 4096)).Draw(t, "bomb")
		var big []byte
		if rapid.Bool().Draw(t, "bombzero") || len(d) == 0 {
			big = append(append([]byte(nil), d...), make([]byte, 256*k)...)
		} else {
			for len(big) < 256*k {
				big = append(big, d...)
			}
		}
		d = gz(big)
		how = append(how, "gzip-bomb")
	case 6: // valid compressed containers: gzip in gzip (2..4 CRC-valid layers) over a highly compressible payload,
		// concatenated members, huge header fields, stored blocks (rare large class: up to 2 MiB inside; the size ladder of TestEnumLarge goes to 64 MiB)
		n := rapid.OneOf(rapid.IntRange(1, 1<<16), rapid.IntRange(1<<16, 1<<21)).Draw(t, "gzn")
		dim := rapid.SampledFrom([]string{"gz2-zeros", "gz3-zeros", "gz4-zeros", "gz2-tile", "gz3-tile", "gz2-badtile", "gz4-badtile"}).Draw(t, "gzdim")
		switch rapid.IntRange(0, 7).Draw(t, "gzother") {
		case 0:
			dim, n = "gz-members", n%4096+1
		case 1:
			dim, n = rapid.SampledFrom([]string{"gz-name-len", "gz-comment-len", "gz-stored", "gz-huffman"}).Draw(t, "gzhdr"), n%(1<<16)+1
		case 2:
			dim, n = "gz-extra-len", n%65535+1
		}
		d = buildGzip(dim, n)
		how = append(how, "gzip-container")
	}
	return clip(d), strings.Join(how, ",")
}

// ---------------------------------------------------------------- classification shared by the properties

func classify(test, family string, data []byte, how string, out outcome) bool {
	for _, h := range strings.Split(how, ",") {
		if strings.HasPrefix(h, "valid ") {
			h = "valid"
		}
		if strings.HasPrefix(h, "chain ") {
			f := strings.Fields(h)
			h = "chain"
			if len(f) > 1 && family == "wkb" {
				h = "chain-" + f[1]
			}
		}
		stats.Class(family + ":mut:" + h)
	}
	switch {
	case len(data) == 0:
		stats.Class(family + ":len:0")
	case len(data) < 16:
		stats.Class(family + ":len:<16")
	case len(data) < 256:
		stats.Class(family + ":len:<256")
	case len(data) < 4096:
		stats.Class(family + ":len:<4096")
	default:
		stats.Class(family + ":len:>=4096")
	}
	stats.ClassN(family+":calls:value", int64(out.values))
	stats.ClassN(family+":calls:error", int64(out.errors))
	if out.skipped > 0 {
		stats.ClassN(family+":calls:skipped-known", int64(out.skipped))
	}
	nt := pastDispatch(family, data)
	if nt {
		stats.Class(family + ":past-dispatch")
	} else {
		stats.Class(family + ":stopped-at-dispatch")
	}
	return nt
}

var _ = orb.Point{}

// ---------------------------------------------------------------- deep nesting chains

// genChainWKB builds a chain of nested collection / multi-* headers of depth up to len/9. The
// member count claimed at every level is drawn from {1, 2, 100, 101, remaining/9, remaining/9+1,
// a wrap-around count}, either the same rule at every level or a fresh draw per level: a decoder
// that trusts a count because "that many members would still fit" allocates quadratically in the
// depth. Chains of multi-* headers that END IN A VALID LEAF are re-scanned quadratically in TIME by
// the unchanged tree when the outermost count is > 1, so they are kept to depth <= 600.
func genChainWKB(t *rapid.T) ([]byte, string) {
	total := rapid.OneOf(rapid.IntRange(9, 900), rapid.IntRange(900, 9000), rapid.IntRange(9000, MaxInput)).Draw(t, "chainlen")
	kind := rapid.SampledFrom([]string{"collection", "collection", "multi-line", "multi-point", "multi-polygon", "mixed"}).Draw(t, "chainkind")
	leafKind := rapid.SampledFrom([]string{"none", "none", "valid", "garbage"}).Draw(t, "leaf")
	depth := total / 9
	if depth < 1 {
		depth = 1
	}
	if kind != "collection" && leafKind == "valid" && depth > 600 {
		depth = 600
	}
	rule := rapid.SampledFrom([]int{-1, -1, 0, 1, 2, 3, 4, 4, 5, 6}).Draw(t, "countrule") // -1: fresh draw per level
	leChain := rapid.Bool().Draw(t, "chainle")
	mixOrder := rapid.IntRange(0, 3).Draw(t, "mixorder") == 0
	typOf := map[string]uint32{"collection": 7, "multi-line": 5, "multi-point": 4, "multi-polygon": 6}
	var leaf []byte
	lastTyp := typOf[kind]
	if kind == "mixed" {
		lastTyp = 7
	}
	switch leafKind {
	case "valid":
		switch lastTyp {
		case 7:
			leaf = wkbHeader(leChain, 7, 0)
		case 5:
			leaf = wkbHeader(leChain, 2, 0)
		case 4:
			leaf = wkbPointPayload(leChain, 1)
		case 6:
			leaf = wkbHeader(leChain, 3, 0)
		}
	case "garbage":
		leaf = rapid.SliceOfN(rapid.Byte(), 1, 40).Draw(t, "leafbytes")
	}
	out := make([]byte, 0, depth*9+len(leaf))
	for k := 0; k < depth; k++ {
		rem := uint32((depth-1-k)*9 + len(leaf))
		r := rule
		if r < 0 {
			r = rapid.IntRange(0, 6).Draw(t, "lvl")
		}
		var cnt uint32
		switch r {
		case 0:
			cnt = 1
		case 1:
			cnt = 2
		case 2:
			cnt = 100
		case 3:
			cnt = 101
		case 4:
			cnt = rem / 9
		case 5:
			cnt = rem/9 + 1
		default:
			cnt = drawWrapCount(t)
		}
		if k == 0 && rule == 0 && rapid.Bool().Draw(t, "topcount") {
			cnt = uint32(depth + 1) // the re-scan shape: the outermost multi-* claims one member per level
		}
		typ := typOf[kind]
		if kind == "mixed" {
			typ = rapid.SampledFrom([]uint32{7, 7, 5, 4, 6, 3}).Draw(t, "lvltyp")
		}
		le := leChain
		if mixOrder {
			le = rapid.Bool().Draw(t, "lvlle")
		}
		out = append(out, wkbHeader(le, typ, cnt)...)
	}
	out = append(out, leaf...)
	frame := ""
	switch rapid.IntRange(0, 9).Draw(t, "chainframe") {
	case 0:
		out = append([]byte{0xe6, 0x10, 0, 0}, out...)
		frame = " srid-prefix"
	case 1:
		out = []byte(hex.EncodeToString(out))
		frame = " hex"
	}
	return clip(out), fmt.Sprintf("chain %s depth %d rule %d leaf %s%s", kind, depth, rule, leafKind, frame)
}

func genChainWKT(t *rapid.T) ([]byte, string) {
	depth := rapid.OneOf(rapid.IntRange(1, 40), rapid.IntRange(40, 400), rapid.IntRange(400, 1500)).Draw(t, "depth")
	open := rapid.SampledFrom([]string{"GEOMETRYCOLLECTION(", "GEOMETRYCOLLECTION (", "GEOMETRYCOLLECTION(POINT(1 2),", "GEOMETRYCOLLECTION(POINT EMPTY, "}).Draw(t, "open")
	leaf := rapid.SampledFrom([]string{"POINT(1 2)", "", "GEOMETRYCOLLECTION EMPTY", "LINESTRING(1 2,3 4)", "x"}).Draw(t, "leaf")
	closeN := depth + rapid.SampledFrom([]int{0, 0, 0, -1, 1, -depth}).Draw(t, "unbalance")
	s := strings.Repeat(open, depth) + leaf + strings.Repeat(")", closeN)
	if len(s) > MaxInput {
		s = s[:MaxInput]
	}
	return []byte(s), fmt.Sprintf("chain depth %d", depth)
}

func genChainGeoJSON(t *rapid.T) ([]byte, string) {
	depth := rapid.OneOf(rapid.IntRange(1, 40), rapid.IntRange(40, 400)).Draw(t, "depth")
	extra := rapid.SampledFrom([]string{"", "", `{"type":"Point","coordinates":[1,2]},`, `null,`}).Draw(t, "extra")
	leaf := rapid.SampledFrom([]string{`{"type":"Point","coordinates":[1,2]}`, `null`, `{"type":"GeometryCollection","geometries":[]}`, `{}`}).Draw(t, "leaf")
	doc := strings.Repeat(`{"type":"GeometryCollection","geometries":[`+extra, depth) + leaf + strings.Repeat(`]}`, depth)
	switch rapid.IntRange(0, 3).Draw(t, "wrap") {
	case 0:
		doc = `{"type":"Feature","geometry":` + doc + `,"properties":null}`
	case 1:
		doc = `{"type":"FeatureCollection","features":[{"type":"Feature","geometry":` + doc + `,"properties":{}}]}`
	}
	if len(doc) > MaxInput {
		doc = doc[:MaxInput]
	}
	return []byte(doc), fmt.Sprintf("chain depth %d", depth)
}

func genChainBSON(t *rapid.T) ([]byte, string) {
	depth := rapid.OneOf(rapid.IntRange(1, 40), rapid.IntRange(40, 300)).Draw(t, "depth")
	var tree interface{} = map[string]interface{}{"type": "Point", "coordinates": []interface{}{1.0, 2.0}}
	if rapid.Bool().Draw(t, "nullleaf") {
		tree = nil
	}
	tree = wrapGeometryCollection(tree, depth)
	switch rapid.IntRange(0, 3).Draw(t, "wrap") {
	case 0:
		tree = map[string]interface{}{"type": "Feature", "geometry": tree, "properties": nil}
	case 1:
		tree = map[string]interface{}{"type": "FeatureCollection", "features": []interface{}{map[string]interface{}{"type": "Feature", "geometry": tree}}}
	}
	b, _ := toBSON(tree, rapid.Bool().Draw(t, "ints"))
	return clip(append([]byte(nil), b...)), fmt.Sprintf("chain depth %d", depth)
}

func genChainMVT(t *rapid.T) ([]byte, string) {
	depth := rapid.OneOf(rapid.IntRange(1, 40), rapid.IntRange(40, 4000)).Draw(t, "depth")
	field := rapid.SampledFrom([]int{3, 3, 2, 4}).Draw(t, "field")
	body := unhex("12 09 18 01 22 03 09 02 02")
	// prefixes are computed inside-out without copying the body at every level
	n := len(body)
	prefixes := make([][]byte, 0, depth)
	for k := 0; k < depth && n < MaxInput; k++ {
		w := &pbW{}
		w.tag(field, 2)
		w.varint(uint64(n))
		prefixes = append(prefixes, w.buf)
		n += len(w.buf)
	}
	out := make([]byte, 0, n)
	for i := len(prefixes) - 1; i >= 0; i-- {
		out = append(out, prefixes[i]...)
	}
	out = append(out, body...)
	if rapid.IntRange(0, 3).Draw(t, "gz") == 0 {
		out = gz(out)
	}
	return clip(out), fmt.Sprintf("chain field %d depth %d", field, len(prefixes))
}

// ---------------------------------------------------------------- long flat inputs

// genLongGeometry builds a geometry whose encodings are about `size` bytes: many points, or many
// small members (the shape with the largest per-byte overhead in every decoder).
func genLongGeometry(t *rapid.T, size int) orb.Geometry {
	pt := func(i int) orb.Point { return orb.Point{float64(i % 97), float64((i * 7) % 89)} }
	n := size / 20
	if n < 1 {
		n = 1
	}
	switch rapid.IntRange(0, 8).Draw(t, "longkind") {
	case 0:
		ls := make(orb.LineString, n)
		for i := range ls {
			ls[i] = pt(i)
		}
		return ls
	case 1:
		mp := make(orb.MultiPoint, n)
		for i := range mp {
			mp[i] = pt(i)
		}
		return mp
	case 2: // many two-point lines
		m := make(orb.MultiLineString, n/3+1)
		for i := range m {
			m[i] = orb.LineString{pt(i), pt(i + 1)}
		}
		return m
	case 3: // many empty lines
		m := make(orb.MultiLineString, n)
		for i := range m {
			m[i] = orb.LineString{}
		}
		return m
	case 4: // one polygon, many small rings
		p := make(orb.Polygon, n/5+1)
		for i := range p {
			p[i] = orb.Ring{pt(i), pt(i + 1), pt(i + 2), pt(i)}
		}
		return p
	case 5: // many small polygons
		m := make(orb.MultiPolygon, n/5+1)
		for i := range m {
			m[i] = orb.Polygon{orb.Ring{pt(i), pt(i + 1), pt(i + 2), pt(i)}}
		}
		return m
	case 6: // many empty polygons
		m := make(orb.MultiPolygon, n)
		for i := range m {
			m[i] = orb.Polygon{}
		}
		return m
	case 7: // collection of many points
		c := make(orb.Collection, n)
		for i := range c {
			c[i] = pt(i)
		}
		return c
	default: // collection of many empty collections / lines
		c := make(orb.Collection, n)
		for i := range c {
			if i%2 == 0 {
				c[i] = orb.Collection{}
			} else {
				c[i] = orb.LineString{}
			}
		}
		return c
	}
}

// genLong draws the family and a long (1-60 KiB) valid encoding, then applies at most one byte-level mutation.
func genLong(t *rapid.T) (string, []byte, string) {
	fam := rapid.SampledFrom([]string{"wkb", "wkb", "wkt", "geojson", "bson", "mvt"}).Draw(t, "family")
	size := rapid.OneOf(rapid.IntRange(1000, 8000), rapid.IntRange(8000, 60000)).Draw(t, "size")
	var d []byte
	how := "long"
	switch fam {
	case "wkb":
		g := genLongGeometry(t, size)
		d = safeBytes(func() []byte {
			if rapid.Bool().Draw(t, "ewkb") {
				b, _ := ewkb.Marshal(g, 4326)
				return b
			}
			b, _ := wkb.Marshal(g, binary.BigEndian)
			return b
		})
		switch rapid.IntRange(0, 5).Draw(t, "frame") {
		case 0:
			d = append([]byte{0xe6, 0x10, 0, 0}, d...)
			how = "long,srid-prefix"
		case 1:
			d = []byte(hex.EncodeToString(d))
			how = "long,hex"
		}
	case "wkt":
		g := genLongGeometry(t, size)
		d = safeBytes(func() []byte { return []byte(wkt.MarshalString(g)) })
	case "geojson", "bson":
		var tree interface{}
		switch rapid.IntRange(0, 3).Draw(t, "doc") {
		case 0, 1:
			raw := safeBytes(func() []byte { b, _ := geojson.NewGeometry(genLongGeometry(t, size/2)).MarshalJSON(); return b })
			_ = json.Unmarshal(raw, &tree)
			if rapid.Bool().Draw(t, "asfeature") {
				tree = map[string]interface{}{"type": "Feature", "geometry": tree, "properties": map[string]interface{}{"a": 1.0}}
			}
		case 2: // feature collection of many small features
			n := size / 90
			feats := make([]interface{}, n)
			for i := range feats {
				feats[i] = map[string]interface{}{"type": "Feature", "id": float64(i), "geometry": map[string]interface{}{"type": "Point", "coordinates": []interface{}{float64(i), 1.0}},
					"properties": map[string]interface{}{"k": "v"}}
			}
			tree = map[string]interface{}{"type": "FeatureCollection", "features": feats}
		default: // feature with many / nested properties
			n := size / 16
			props := map[string]interface{}{}
			arr := make([]interface{}, n/2)
			for i := range arr {
				arr[i] = []interface{}{}
			}
			props["arr"] = arr
			for i := 0; i < n/8; i++ {
				props["k"+itoa(i)] = map[string]interface{}{"": nil}
			}
			tree = map[string]interface{}{"type": "Feature", "geometry": nil, "properties": props}
		}
		if fam == "geojson" {
			d, _ = json.Marshal(tree)
		} else {
			b, _ := toBSON(tree, rapid.Bool().Draw(t, "ints"))
			d = append([]byte(nil), b...)
		}
	default: // mvt: many small features / layers / keys / values
		tile := &pbW{}
		switch rapid.IntRange(0, 3).Draw(t, "tile") {
		case 0: // many empty layers
			for i := 0; i < size/2; i++ {
				tile.bytesField(3, nil)
			}
		case 1: // one layer, many one-point features with tags
			layer := &pbW{}
			layer.bytesField(1, []byte("l"))
			for i := 0; i < size/16; i++ {
				f := &pbW{}
				f.varintField(1, uint64(i))
				f.bytesField(2, packed([]uint32{0, 0, 0, 1}))
				f.varintField(3, 1)
				f.bytesField(4, packed([]uint32{9, zz(i % 50), zz(3)}))
				layer.bytesField(2, f.buf)
			}
			layer.bytesField(3, []byte("k"))
			v := &pbW{}
			v.varintField(7, 1)
			layer.bytesField(4, v.buf)
			layer.bytesField(4, v.buf)
			tile.bytesField(3, layer.buf)
		case 2: // one layer, many keys and values, one feature with many tags
			layer := &pbW{}
			n := size / 8
			for i := 0; i < n; i++ {
				layer.bytesField(3, nil)
				v := &pbW{}
				v.varintField(7, 1)
				layer.bytesField(4, v.buf)
			}
			tags := make([]uint32, n)
			for i := range tags {
				tags[i] = uint32(i / 2 % 100)
			}
			f := &pbW{}
			f.bytesField(2, packed(tags))
			f.varintField(3, 1)
			f.bytesField(4, packed([]uint32{9, 2, 2}))
			layer.bytesField(2, f.buf)
			tile.bytesField(3, layer.buf)
		default: // one multi-point / line with many vertices
			n := size / 2
			geom := []uint32{uint32(n)<<3 | 1}
			for i := 0; i < n; i++ {
				geom = append(geom, 2, 2)
			}
			f := &pbW{}
			f.varintField(3, 1)
			f.bytesField(4, packed(geom))
			layer := &pbW{}
			layer.bytesField(2, f.buf)
			tile.bytesField(3, layer.buf)
		}
		d = tile.buf
		if rapid.IntRange(0, 2).Draw(t, "gz") == 0 {
			d = gz(d)
			how = "long,gzip"
		}
	}
	if d == nil {
		d = []byte{}
	}
	if rapid.IntRange(0, 2).Draw(t, "mut") == 0 {
		var what string
		d, what = mutateBytes(t, d, nil)
		how += "," + what
	}
	return fam, clip(d), how
}

// ---------------------------------------------------------------- MVT geometry command streams

// mvtTileOf wraps one geometry integer stream (and optionally more features) in a structurally
// valid tile: layer{name, feature{type, geometry}…, version 2}.
func mvtTileOf(feats ...[]byte) []byte {
	layer := &pbW{}
	layer.bytesField(1, []byte("a"))
	for _, f := range feats {
		layer.bytesField(2, f)
	}
	layer.varintField(15, 2)
	tile := &pbW{}
	tile.bytesField(3, layer.buf)
	return tile.buf
}

func mvtFeature(typ uint32, geom []uint32) []byte {
	f := &pbW{}
	f.varintField(3, uint64(typ))
	f.bytesField(4, packed(geom))
	return f.buf
}

// square-ish walk: the i-th vertex delta; every fourth step closes a square, so rings get
// positive, negative and zero area depending on where they start and how long they are.
func mvtDelta(i int) (uint32, uint32) {
	dx := []int{4, 0, -4, 0}[i%4]
	dy := []int{0, 4, 0, -4}[i%4]
	return zz(dx), zz(dy)
}

var mvtCmdIDs = []uint32{1, 1, 1, 2, 2, 2, 7, 7, 0, 3, 4, 5, 6}
var mvtCmdCounts = []uint32{0, 0, 1, 1, 1, 2, 2, 3, 4, 4096, 1 << 20, 1 << 28, 1<<29 - 1}

// genMVTCommands composes a geometry integer stream at grammar level: command headers (ids 1, 2,
// 7 and the unknown ids 0, 3..6) x counts {0, 1, 2, 3, 4, large, wrap-around} x parameter lists
// that are complete, truncated or over-long, in any order; or a sequence of rings with 0..4
// vertices each, closed / unclosed / closed twice / closed first, with moveTo x0 or xN.
func genMVTCommands(t *rapid.T) ([]uint32, string) {
	var g []uint32
	step := 0
	pt := func(zero bool) {
		if zero {
			g = append(g, 0, 0)
			return
		}
		dx, dy := mvtDelta(step)
		step++
		g = append(g, dx, dy)
	}
	if rapid.Bool().Draw(t, "ringmode") {
		nr := rapid.IntRange(1, 5).Draw(t, "nrings")
		for r := 0; r < nr; r++ {
			if rapid.IntRange(0, 9).Draw(t, "closefirst") == 0 {
				g = append(g, 15)
			}
			mc := rapid.SampledFrom([]uint32{1, 1, 1, 1, 1, 0, 2, 3}).Draw(t, "movecount")
			g = append(g, mc<<3|1)
			for i := uint32(0); i < mc; i++ {
				pt(false)
			}
			np := rapid.IntRange(0, 4).Draw(t, "linepts") // lineTo x0 makes a one-point ring
			if np > 0 || rapid.IntRange(0, 2).Draw(t, "lineto0") != 0 {
				g = append(g, uint32(np)<<3|2)
				zero := rapid.IntRange(0, 5).Draw(t, "zeroarea") == 0
				for i := 0; i < np; i++ {
					pt(zero)
				}
			}
			switch rapid.IntRange(0, 7).Draw(t, "term") {
			case 0, 1, 2, 3:
				g = append(g, 15)
			case 4: // closed twice
				g = append(g, 15, 15)
			case 5: // another lineTo instead of closePath
				g = append(g, uint32(rapid.IntRange(0, 1).Draw(t, "extraline"))<<3|2)
				if g[len(g)-1]>>3 == 1 {
					pt(false)
				}
			case 6: // unknown command id or closePath with another count
				g = append(g, uint32(rapid.IntRange(0, 3).Draw(t, "ucount"))<<3|rapid.SampledFrom([]uint32{0, 3, 4, 5, 6, 7}).Draw(t, "uid"))
			default: // nothing: the next ring's moveTo follows directly
			}
		}
		return g, "cmd-rings"
	}
	nc := rapid.IntRange(0, 8).Draw(t, "ncmd")
	for c := 0; c < nc; c++ {
		id := mvtCmdIDs[intn(t, len(mvtCmdIDs), "id")]
		cnt := mvtCmdCounts[intn(t, len(mvtCmdCounts), "cnt")]
		if rapid.IntRange(0, 11).Draw(t, "wrapcnt") == 0 {
			cnt = drawWrapCount(t) & (1<<29 - 1)
		}
		g = append(g, cnt<<3|id)
		want := 0
		if id != 7 {
			want = int(cnt)
			if want > 6 {
				want = 6
			}
		}
		switch rapid.IntRange(0, 5).Draw(t, "params") {
		case 0: // truncated
			want = intn(t, want+1, "cut")
		case 1: // over-long
			want += rapid.IntRange(1, 2).Draw(t, "extra")
		}
		for i := 0; i < want; i++ {
			pt(rapid.IntRange(0, 7).Draw(t, "zero") == 0)
		}
		if rapid.IntRange(0, 9).Draw(t, "oddparam") == 0 {
			g = append(g, 2) // half a point
		}
	}
	return g, "cmd-free"
}

func genMVTCommandTile(t *rapid.T) ([]byte, string) {
	nf := rapid.SampledFrom([]int{1, 1, 1, 2, 3}).Draw(t, "nfeat")
	var feats [][]byte
	how := ""
	for i := 0; i < nf; i++ {
		typ := rapid.SampledFrom([]uint32{3, 3, 3, 2, 2, 1, 0, 4}).Draw(t, "gtype")
		g, h := genMVTCommands(t)
		how = h
		feats = append(feats, mvtFeature(typ, g))
	}
	d := mvtTileOf(feats...)
	if rapid.IntRange(0, 3).Draw(t, "gz") == 0 {
		d = gz(d)
		how += ",gzip"
	}
	return clip(d), how
}
