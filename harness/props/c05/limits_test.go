package c05

// targetLimits is the allocation bound of every target: A*len + Q*len^2 + E*expanded + B bytes of
// runtime.MemStats.TotalAlloc growth around one call (len = input length, expanded = length of the
// harness's own gzip expansion).
//
// The table is MEASURED on the unchanged tree (calib_test.go: C05_CALIB=<file>, thorough-tier
// enumerations, 0.9 M mutated encodings, 130 k deep nesting chains and 45 k long flat encodings;
// every candidate maximum is confirmed with an exact ReadMemStats re-run), then widened:
//
//	A = 4 x the worst (alloc - 256 KiB) / len over all inputs that are not tagged quadratic
//	    (rounded up to a multiple of 16, at least 64);
//	Q = 4 x the worst (alloc - a*len - 256 KiB) / len^2 over the inputs tagged quadratic (isQuad),
//	    kept ONLY where the unchanged tree is genuinely quadratic (coefficient >= 0.002):
//	      - WKB byte decoders reached through the typed Scan* functions: a chain of one-member
//	        multi-line (multi-polygon) headers ending in a valid leaf is re-scanned from every
//	        level when the outermost count is > 1 (0.085 B/B^2; generated to depth 600 only);
//	      - GeoJSON: nested geometry collections rebuild Geometry() at every level (0.020 B/B^2);
//	      - BSON: the driver copies every embedded document once per nesting level (0.016 B/B^2);
//	    the stream decoders, the Collection and Point scanners, every WKT parser and both tile
//	    decoders are linear and have NO quadratic term;
//	E = 4 x the worst (alloc - 256 KiB) / expanded over decompression bombs (UnmarshalGzipped);
//	B = 1 MiB, the fixed cap (the stream decoders legitimately pre-allocate 10 000 points = 160 KB
//	    once; gzip needs a 32 KiB window and its tables).
//
// Targets that run the same decoding function share the maximum of their measurements: wkb/ewkb
// Unmarshal; the two stream decoders; wkb.Scanner / ewkb.Scanner / ewkb.ScannerPrefixSRID of the
// same destination; the six JSON helper types; the six BSON helper types.
var targetLimits = map[string]limit{
	"(*geojson.Feature).UnmarshalBSON":             {A: 80, Q: 0.062, B: 1 << 20},     // measured 16 B/B (at 25150 B), 0.0153 B/B^2 (at 16245 B)
	"(*geojson.FeatureCollection).UnmarshalBSON":   {A: 64, Q: 0.063, B: 1 << 20},     // measured 13 B/B (at 64188 B), 0.0156 B/B^2 (at 16284 B)
	"(*geojson.Geometry).UnmarshalBSON":            {A: 64, Q: 0.062, B: 1 << 20},     // measured 14 B/B (at 40941 B), 0.0155 B/B^2 (at 16200 B)
	"(*geojson.LineString).UnmarshalBSON":          {A: 64, Q: 0.062, B: 1 << 20},     // measured 15 B/B (at 40941 B), 0.0155 B/B^2 (at 16200 B)
	"(*geojson.MultiLineString).UnmarshalBSON":     {A: 64, Q: 0.062, B: 1 << 20},     // measured 15 B/B (at 40941 B), 0.0155 B/B^2 (at 16200 B)
	"(*geojson.MultiPoint).UnmarshalBSON":          {A: 64, Q: 0.062, B: 1 << 20},     // measured 15 B/B (at 40941 B), 0.0155 B/B^2 (at 16200 B)
	"(*geojson.MultiPolygon).UnmarshalBSON":        {A: 64, Q: 0.062, B: 1 << 20},     // measured 15 B/B (at 40941 B), 0.0155 B/B^2 (at 16200 B)
	"(*geojson.Point).UnmarshalBSON":               {A: 64, Q: 0.062, B: 1 << 20},     // measured 15 B/B (at 40941 B), 0.0155 B/B^2 (at 16200 B)
	"(*geojson.Polygon).UnmarshalBSON":             {A: 64, Q: 0.062, B: 1 << 20},     // measured 15 B/B (at 40941 B), 0.0155 B/B^2 (at 16200 B)
	"ewkb.NewDecoder.Decode*":                      {A: 800, Q: 0, B: 1 << 20},        // measured 196 B/B (at 65529 B)
	"ewkb.Scanner(Bound).Scan":                     {A: 1184, Q: 0.35, B: 1 << 20},    // measured 295 B/B (at 65536 B), 0.0852 B/B^2 (at 5409 B)
	"ewkb.Scanner(Collection).Scan":                {A: 800, Q: 0, B: 1 << 20},        // measured 196 B/B (at 65529 B)
	"ewkb.Scanner(LineString).Scan":                {A: 1184, Q: 0.35, B: 1 << 20},    // measured 295 B/B (at 65529 B), 0.0852 B/B^2 (at 5409 B)
	"ewkb.Scanner(MultiLineString).Scan":           {A: 1184, Q: 0.35, B: 1 << 20},    // measured 295 B/B (at 65529 B), 0.0852 B/B^2 (at 5409 B)
	"ewkb.Scanner(MultiPoint).Scan":                {A: 1184, Q: 0.35, B: 1 << 20},    // measured 295 B/B (at 65536 B), 0.0852 B/B^2 (at 5409 B)
	"ewkb.Scanner(MultiPolygon).Scan":              {A: 1184, Q: 0.35, B: 1 << 20},    // measured 295 B/B (at 65529 B), 0.0852 B/B^2 (at 5409 B)
	"ewkb.Scanner(Point).Scan":                     {A: 784, Q: 0, B: 1 << 20},        // measured 195 B/B (at 65529 B)
	"ewkb.Scanner(Polygon).Scan":                   {A: 1184, Q: 0.35, B: 1 << 20},    // measured 295 B/B (at 65529 B), 0.0852 B/B^2 (at 5409 B)
	"ewkb.Scanner(Ring).Scan":                      {A: 1184, Q: 0.35, B: 1 << 20},    // measured 295 B/B (at 65536 B), 0.0852 B/B^2 (at 5409 B)
	"ewkb.Scanner(nil).Scan":                       {A: 1184, Q: 0.35, B: 1 << 20},    // measured 295 B/B (at 65536 B), 0.0852 B/B^2 (at 5409 B)
	"ewkb.ScannerPrefixSRID(Bound).Scan":           {A: 1184, Q: 0.35, B: 1 << 20},    // measured 295 B/B (at 65536 B), 0.0852 B/B^2 (at 5409 B)
	"ewkb.ScannerPrefixSRID(Collection).Scan":      {A: 800, Q: 0, B: 1 << 20},        // measured 196 B/B (at 65529 B)
	"ewkb.ScannerPrefixSRID(LineString).Scan":      {A: 1184, Q: 0.35, B: 1 << 20},    // measured 295 B/B (at 65529 B), 0.0852 B/B^2 (at 5409 B)
	"ewkb.ScannerPrefixSRID(MultiLineString).Scan": {A: 1184, Q: 0.35, B: 1 << 20},    // measured 295 B/B (at 65529 B), 0.0852 B/B^2 (at 5409 B)
	"ewkb.ScannerPrefixSRID(MultiPoint).Scan":      {A: 1184, Q: 0.35, B: 1 << 20},    // measured 295 B/B (at 65536 B), 0.0852 B/B^2 (at 5409 B)
	"ewkb.ScannerPrefixSRID(MultiPolygon).Scan":    {A: 1184, Q: 0.35, B: 1 << 20},    // measured 295 B/B (at 65529 B), 0.0852 B/B^2 (at 5409 B)
	"ewkb.ScannerPrefixSRID(Point).Scan":           {A: 784, Q: 0, B: 1 << 20},        // measured 195 B/B (at 65529 B)
	"ewkb.ScannerPrefixSRID(Polygon).Scan":         {A: 1184, Q: 0.35, B: 1 << 20},    // measured 295 B/B (at 65529 B), 0.0852 B/B^2 (at 5409 B)
	"ewkb.ScannerPrefixSRID(Ring).Scan":            {A: 1184, Q: 0.35, B: 1 << 20},    // measured 295 B/B (at 65536 B), 0.0852 B/B^2 (at 5409 B)
	"ewkb.ScannerPrefixSRID(nil).Scan":             {A: 1184, Q: 0.35, B: 1 << 20},    // measured 295 B/B (at 65536 B), 0.0852 B/B^2 (at 5409 B)
	"ewkb.Unmarshal":                               {A: 1184, Q: 0.35, B: 1 << 20},    // measured 295 B/B (at 65529 B), 0.0852 B/B^2 (at 5409 B)
	"geojson.UnmarshalFeature":                     {A: 64, Q: 0.08, B: 1 << 20},      // measured 11 B/B (at 58266 B), 0.0200 B/B^2 (at 16162 B)
	"geojson.UnmarshalFeatureCollection":           {A: 128, Q: 0.076, B: 1 << 20},    // measured 29 B/B (at 45040 B), 0.0189 B/B^2 (at 16562 B)
	"geojson.UnmarshalGeometry":                    {A: 96, Q: 0.078, B: 1 << 20},     // measured 21 B/B (at 45040 B), 0.0194 B/B^2 (at 16204 B)
	"json.Unmarshal(*geojson.LineString)":          {A: 96, Q: 0.078, B: 1 << 20},     // measured 21 B/B (at 45040 B), 0.0195 B/B^2 (at 16204 B)
	"json.Unmarshal(*geojson.MultiLineString)":     {A: 96, Q: 0.078, B: 1 << 20},     // measured 21 B/B (at 45040 B), 0.0195 B/B^2 (at 16204 B)
	"json.Unmarshal(*geojson.MultiPoint)":          {A: 96, Q: 0.078, B: 1 << 20},     // measured 21 B/B (at 45040 B), 0.0195 B/B^2 (at 16204 B)
	"json.Unmarshal(*geojson.MultiPolygon)":        {A: 96, Q: 0.078, B: 1 << 20},     // measured 21 B/B (at 45040 B), 0.0195 B/B^2 (at 16204 B)
	"json.Unmarshal(*geojson.Point)":               {A: 96, Q: 0.078, B: 1 << 20},     // measured 21 B/B (at 45040 B), 0.0195 B/B^2 (at 16204 B)
	"json.Unmarshal(*geojson.Polygon)":             {A: 96, Q: 0.078, B: 1 << 20},     // measured 21 B/B (at 45040 B), 0.0195 B/B^2 (at 16204 B)
	"mvt.Unmarshal":                                {A: 176, Q: 0, B: 1 << 20},        // measured 41 B/B (at 59524 B)
	"mvt.UnmarshalGzipped":                         {A: 64, Q: 0, E: 208, B: 1 << 20}, // measured 0 B/B (at 1 B), 51 B per expanded B
	"wkb.NewDecoder.Decode*":                       {A: 800, Q: 0, B: 1 << 20},        // measured 196 B/B (at 65529 B)
	"wkb.Scanner(Bound).Scan":                      {A: 1184, Q: 0.35, B: 1 << 20},    // measured 295 B/B (at 65536 B), 0.0852 B/B^2 (at 5409 B)
	"wkb.Scanner(Collection).Scan":                 {A: 800, Q: 0, B: 1 << 20},        // measured 196 B/B (at 65529 B)
	"wkb.Scanner(LineString).Scan":                 {A: 1184, Q: 0.35, B: 1 << 20},    // measured 295 B/B (at 65529 B), 0.0852 B/B^2 (at 5409 B)
	"wkb.Scanner(MultiLineString).Scan":            {A: 1184, Q: 0.35, B: 1 << 20},    // measured 295 B/B (at 65529 B), 0.0852 B/B^2 (at 5409 B)
	"wkb.Scanner(MultiPoint).Scan":                 {A: 1184, Q: 0.35, B: 1 << 20},    // measured 295 B/B (at 65536 B), 0.0852 B/B^2 (at 5409 B)
	"wkb.Scanner(MultiPolygon).Scan":               {A: 1184, Q: 0.35, B: 1 << 20},    // measured 295 B/B (at 65529 B), 0.0852 B/B^2 (at 5409 B)
	"wkb.Scanner(Point).Scan":                      {A: 784, Q: 0, B: 1 << 20},        // measured 195 B/B (at 65529 B)
	"wkb.Scanner(Polygon).Scan":                    {A: 1184, Q: 0.35, B: 1 << 20},    // measured 295 B/B (at 65529 B), 0.0852 B/B^2 (at 5409 B)
	"wkb.Scanner(Ring).Scan":                       {A: 1184, Q: 0.35, B: 1 << 20},    // measured 295 B/B (at 65536 B), 0.0852 B/B^2 (at 5409 B)
	"wkb.Scanner(nil).Scan":                        {A: 1184, Q: 0.35, B: 1 << 20},    // measured 295 B/B (at 65536 B), 0.0852 B/B^2 (at 5409 B)
	"wkb.Unmarshal":                                {A: 1184, Q: 0.35, B: 1 << 20},    // measured 295 B/B (at 65529 B), 0.0852 B/B^2 (at 5409 B)
	"wkt.Unmarshal":                                {A: 208, Q: 0, B: 1 << 20},        // measured 49 B/B (at 36011 B)
	"wkt.UnmarshalCollection":                      {A: 64, Q: 0, B: 1 << 20},         // measured 5 B/B (at 12122 B)
	"wkt.UnmarshalLineString":                      {A: 64, Q: 0, B: 1 << 20},         // measured 4 B/B (at 20012 B)
	"wkt.UnmarshalMultiLineString":                 {A: 80, Q: 0, B: 1 << 20},         // measured 18 B/B (at 8491 B)
	"wkt.UnmarshalMultiPoint":                      {A: 64, Q: 0, B: 1 << 20},         // measured 0 B/B (at 1 B)
	"wkt.UnmarshalMultiPolygon":                    {A: 112, Q: 0, B: 1 << 20},        // measured 27 B/B (at 12818 B)
	"wkt.UnmarshalPoint":                           {A: 64, Q: 0, B: 1 << 20},         // measured 0 B/B (at 1 B)
	"wkt.UnmarshalPolygon":                         {A: 208, Q: 0, B: 1 << 20},        // measured 49 B/B (at 36011 B)
}
