package c05

// Round L1: the size ladder. Every size dimension of the decoders' inputs is driven through
// {L-2 .. L+3, 1.5*L+1 : L = 2^k (k = 6..24) or 10^k (k = 2..7)} ∪ {65535, 65536, 4095..4097}
// with STRUCTURED inputs (buildLarge), each dimension as far up as one case stays under ~1-2 s of
// CPU and ~1 GiB (table largeDims: where each ladder stops and why). Inputs above 64 KiB are
// judged with the LINEAR part of the per-target budget only (allocBound drops the Q*len^2 term:
// the ladder shapes are flat; the quadratic shapes are depth ladders that stay below 64 KiB).
// A large case is stored in replay / in-flight files as its recipe "family|dimension|n|pos".

import (
	"bytes"
	"compress/gzip"
	"encoding/binary"
	"encoding/hex"
	"encoding/json"
	"fmt"
	"os"
	"sort"
	"strconv"
	"strings"
	"testing"

	"verifharness/internal/stats"
)

func ladder(top int) []int {
	seen := map[int]bool{}
	var out []int
	add := func(v int) {
		if v >= 1 && v <= top && !seen[v] {
			seen[v] = true
			out = append(out, v)
		}
	}
	around := func(l int) {
		for d := -2; d <= 3; d++ {
			add(l + d)
		}
		add(l + l/2 + 1)
	}
	for k := 6; k <= 24; k++ {
		around(1 << k)
	}
	p := 100
	for k := 2; k <= 7; k++ {
		around(p)
		p *= 10
	}
	for _, v := range []int{65535, 65536, 4095, 4096, 4097, 1, 2, 3} {
		add(v)
	}
	sort.Ints(out)
	return out
}

// mustQuick: neighbourhoods that the quick tier keeps for every dimension (when below its top).
var mustQuick = func() map[int]bool {
	m := map[int]bool{}
	for _, l := range []int{64, 512, 1024, 2048, 4096, 65536} {
		for d := -2; d <= 3; d++ {
			m[l+d] = true
		}
	}
	return m
}()

type largeDim struct {
	family, dim string
	top         int    // ladder top (thorough)
	quickTop    int    // quick runs every rung <= quickTop plus the mustQuick neighbourhoods <= top
	q64k        bool   // the quick tier also runs the neighbourhood of 65536 (dimensions where one such case costs < 0.1 s)
	pos         int    // number of positions (first / middle / last) for "one enormous member" dimensions, else 1
	why         string // why the ladder stops at top
}

var largeDims = []largeDim{
	// WKB: 34 targets per case, every target gets a private copy
	{"wkb", "claim-2", 1 << 24, 16387, true, 1, "claimed point count of a line string with a 96-byte payload: all rungs (9+96 bytes each)"},
	{"wkb", "claim-3", 1 << 24, 16387, true, 1, "claimed ring count of a polygon"},
	{"wkb", "claim-4", 1 << 24, 16387, true, 1, "claimed point count of a multi-point, payload of well-formed points"},
	{"wkb", "claim-5", 1 << 24, 16387, true, 1, "claimed line count of a multi-line string"},
	{"wkb", "claim-6", 1 << 24, 16387, true, 1, "claimed polygon count of a multi-polygon"},
	{"wkb", "claim-7", 1 << 24, 16387, true, 1, "claimed member count of a collection"},
	{"wkb", "ls-points", 1<<22 + 3, 4099, true, 1, "64 MiB of WKB x 34 private copies ~2 s"},
	{"wkb", "mp-points", 1<<21 + 3, 4099, true, 1, "42 MiB; member-wise ScanPoint ~1.5 s"},
	{"wkb", "mls-empty", 1<<21 + 3, 4099, true, 1, "19 MiB of 9-byte members, 24 B slice header each"},
	{"wkb", "mls-one-big", 1<<20 + 3, 4099, true, 3, "one line of n points first / middle / last among small ones"},
	{"wkb", "poly-rings", 1<<22 + 3, 4099, true, 1, "n empty rings (4 bytes each)"},
	{"wkb", "poly-ring-points", 1<<22 + 3, 4099, true, 1, "one ring of n points"},
	{"wkb", "mpoly-empty", 1<<21 + 3, 4099, true, 1, "n empty polygons"},
	{"wkb", "coll-points", 1<<20 + 3, 4099, true, 1, "n points through the stream decoder (21 bytes, 3 reads each) ~1 s"},
	{"wkb", "coll-one-big", 1<<20 + 3, 4099, true, 3, "collection with one line of n points first / middle / last"},
	{"wkb", "coll-depth", 1<<16 + 3, 1027, false, 1, "nesting depth: the recursive stream decoder needs ~2 s at 10^5 levels (deep stacks are re-scanned by every collection); 6 million levels end in a fatal stack overflow (assumption)"},
	{"wkb", "hex-ls-points", 1<<20 + 3, 4099, true, 1, "hex text of a line string (scanner input), 32 bytes of text per point"},
	// WKT: 8 parsers
	{"wkt", "ls-points", 1<<20 + 3, 16387, true, 1, "4 MiB of text"},
	{"wkt", "mp-points", 1<<19 + 3, 16387, true, 1, "per-point bracket trimming"},
	{"wkt", "mls-members", 1<<19 + 3, 4099, true, 1, "regexp split: 56 B of match indexes per member"},
	{"wkt", "poly-rings", 1<<19 + 3, 4099, true, 1, "as multi-line"},
	{"wkt", "mpoly-members", 1<<18 + 3, 4099, true, 1, "two regexp levels"},
	{"wkt", "coll-members", 1<<18 + 3, 16387, true, 1, "n POINT members"},
	{"wkt", "coll-one-big", 1<<20 + 3, 16387, true, 3, "one LINESTRING member of n points (member text up to 4 MiB) first / middle / last"},
	{"wkt", "spaces", 1<<22 + 3, 16387, true, 1, "n blanks between the tokens"},
	{"wkt", "number-len", 1<<20 + 3, 16387, true, 1, "one coordinate with n digits"},
	{"wkt", "coll-depth", 4099, 515, false, 1, "the collection splitter re-scans the rest of the text at every level: 19*d^2 character steps, 0.4 s at 4097"},
	// GeoJSON: 9 targets, encoding/json ~50-100 MB/s and every level validates its text again
	{"geojson", "ls-points", 1<<18 + 3, 4099, true, 1, "3 MiB of JSON x 9 targets ~1 s"},
	{"geojson", "mpoly-members", 1<<16 + 3, 1027, false, 1, "n small polygons"},
	{"geojson", "coll-members", 1<<16 + 3, 1027, false, 1, "n point geometries, one UnmarshalJSON call each"},
	{"geojson", "coll-one-big", 1<<18 + 3, 4099, false, 3, "collection with one line of n points first / middle / last"},
	{"geojson", "fc-features", 1<<16 + 3, 1027, false, 1, "n small features (three json.Unmarshal calls each)"},
	{"geojson", "props-count", 1<<17 + 3, 4099, true, 1, "n properties in one feature"},
	{"geojson", "key-len", 1<<22 + 3, 131075, true, 1, "one property key of n bytes"},
	{"geojson", "string-len", 1<<22 + 3, 131075, true, 1, "one string value of n bytes"},
	{"geojson", "number-len", 1<<20 + 3, 16387, true, 1, "one coordinate with n digits"},
	{"geojson", "props-depth", 10003, 10003, false, 1, "array nesting inside properties: encoding/json refuses more than 10000 levels"},
	{"geojson", "coll-depth", 1027, 131, false, 1, "nested collections are quadratic in time and allocation (0.9 s at 1400)"},
	// BSON: 9 targets, the driver is 5-10x slower than encoding/json
	{"bson", "ls-points", 1<<16 + 3, 1027, false, 1, "n coordinate arrays (27 bytes each)"},
	{"bson", "coll-members", 1<<14 + 3, 259, false, 1, "n point geometries, each copied and decoded separately"},
	{"bson", "fc-features", 1<<14 + 3, 259, false, 1, "n small features"},
	{"bson", "props-count", 1<<15 + 3, 4099, false, 1, "n properties"},
	{"bson", "key-len", 1<<20 + 3, 131075, true, 1, "one key of n bytes"},
	{"bson", "string-len", 1<<22 + 3, 131075, true, 1, "one string of n bytes"},
	{"bson", "coll-depth", 259, 67, false, 1, "quadratic: every embedded document is copied once per level"},
	// MVT: plain and (every case) gzipped
	{"mvt", "layers", 1<<20 + 3, 16387, true, 1, "n empty layers"},
	{"mvt", "features", 1<<19 + 3, 16387, true, 1, "n one-point features in one layer (a geojson.Feature each)"},
	{"mvt", "keys", 1<<20 + 3, 16387, true, 1, "n keys"},
	{"mvt", "values", 1<<20 + 3, 16387, true, 1, "n values"},
	{"mvt", "tags", 1<<20 + 3, 16387, true, 1, "n tag integers in one feature (map pre-sized from the count)"},
	{"mvt", "mp-points", 1<<21 + 3, 16387, true, 1, "multi-point of n points"},
	{"mvt", "line-points", 1<<21 + 3, 16387, true, 1, "one line of n points"},
	{"mvt", "mls-lines", 1<<19 + 3, 16387, true, 1, "n two-point lines"},
	{"mvt", "rings", 1<<19 + 3, 16387, true, 1, "n triangles (orientation decides polygon membership)"},
	{"mvt", "name-len", 1<<22 + 3, 16387, true, 1, "layer name of n bytes"},
	{"mvt", "value-len", 1<<22 + 3, 16387, true, 1, "one string value of n bytes"},
	// compressed containers around hostile payloads (mvt.UnmarshalGzipped); n = payload bytes
	{"mvt", "gz1-zeros", 1<<24 + 3, 1048579, true, 1, "one deflate layer over n zeros: 16 MiB inflate + 8 M protobuf fields ~0.5 s"},
	{"mvt", "gz2-zeros", 1<<26 + 3, 16777219, true, 1, "gzip in gzip (each layer CRC-valid): building 64 MiB of zeros costs 0.3 s; the unchanged tree inflates one layer only"},
	{"mvt", "gz3-zeros", 1<<26 + 3, 16777219, true, 1, "three layers"},
	{"mvt", "gz4-zeros", 1<<26 + 3, 16777219, true, 1, "four layers"},
	{"mvt", "gz1-tile", 1<<22 + 3, 16387, true, 1, "one layer over a valid tile repeated to n bytes (a layer and a feature per 13 bytes)"},
	{"mvt", "gz2-tile", 1<<24 + 3, 4194307, true, 1, "two layers over the repeated valid tile"},
	{"mvt", "gz3-tile", 1<<24 + 3, 4194307, true, 1, "three layers"},
	{"mvt", "gz1-badtile", 1<<22 + 3, 16387, true, 1, "one layer over a repeated tile whose feature has no geometry"},
	{"mvt", "gz2-badtile", 1<<24 + 3, 4194307, true, 1, "two layers"},
	{"mvt", "gz4-badtile", 1<<24 + 3, 4194307, true, 1, "four layers"},
	{"mvt", "gz-members", 1<<15 + 3, 4099, false, 1, "n concatenated gzip members (multistream) of one small tile each; 40 bytes and a deflate reset per member"},
	{"mvt", "gz-members-zeros", 1<<9 + 3, 6, false, 1, "n concatenated members of 64 KiB zeros each (64 MiB at the top)"},
	{"mvt", "gz-name-len", 1<<22 + 3, 16387, true, 1, "gzip header file name of n bytes"},
	{"mvt", "gz-comment-len", 1<<22 + 3, 16387, true, 1, "gzip header comment of n bytes"},
	{"mvt", "gz-extra-len", 65535, 65535, true, 1, "gzip extra field: 16-bit length"},
	{"mvt", "gz-stored", 1<<22 + 3, 16387, true, 1, "stored (uncompressed) blocks around n bytes of repeated tile"},
	{"mvt", "gz-huffman", 1<<22 + 3, 16387, true, 1, "Huffman-only deflate around n bytes of repeated tile"},
}

// ---------------------------------------------------------------- builders

func wkbPts(dst []byte, n int) []byte {
	var b [16]byte
	for i := 0; i < n; i++ {
		binary.LittleEndian.PutUint64(b[:], uint64(0x3ff0000000000000)+uint64(i%7)<<48)
		binary.LittleEndian.PutUint64(b[8:], 0x4000000000000000)
		dst = append(dst, b[:]...)
	}
	return dst
}

func wkbLS(n int) []byte { return wkbPts(wkbHeader(true, 2, uint32(n)), n) }

func gzLevel(d []byte, level int, hdr func(*gzip.Writer)) []byte {
	var b bytes.Buffer
	w, _ := gzip.NewWriterLevel(&b, level)
	if hdr != nil {
		hdr(w)
	}
	_, _ = w.Write(d)
	_ = w.Close()
	return b.Bytes()
}

func repeatTo(unit []byte, n int) []byte {
	out := make([]byte, 0, n+len(unit))
	for len(out) < n {
		out = append(out, unit...)
	}
	return out[:n]
}

var (
	goodTileUnit = unhex("1a 0b 12 09 18 01 22 03 09 02 02")
	badTileUnit  = unhex("1a 0d 12 09 18 01 22 03 09 02 02 12 00")
)

func wktPts(sb *strings.Builder, n int) {
	for i := 0; i < n; i++ {
		if i > 0 {
			sb.WriteByte(',')
		}
		sb.WriteString(strconv.Itoa(i % 10))
		sb.WriteString(" 2")
	}
}

func jsonPts(sb *strings.Builder, n int) {
	sb.WriteByte('[')
	for i := 0; i < n; i++ {
		if i > 0 {
			sb.WriteByte(',')
		}
		sb.WriteByte('[')
		sb.WriteString(strconv.Itoa(i % 10))
		sb.WriteString(",2]")
	}
	sb.WriteByte(']')
}

// buildLarge renders the recipe "family|dimension|n|pos".
func buildLarge(recipe string) (string, []byte, error) {
	f := strings.Split(recipe, "|")
	if len(f) != 4 {
		return "", nil, fmt.Errorf("bad recipe %q", recipe)
	}
	fam, dim := f[0], f[1]
	n, err1 := strconv.Atoi(f[2])
	pos, err2 := strconv.Atoi(f[3])
	if err1 != nil || err2 != nil || n < 0 {
		return "", nil, fmt.Errorf("bad recipe %q", recipe)
	}
	place := func(small, big []byte, count func(int) []byte) []byte { // big among two small, at pos
		out := count(3)
		for i := 0; i < 3; i++ {
			if i == pos {
				out = append(out, big...)
			} else {
				out = append(out, small...)
			}
		}
		return out
	}
	switch fam {
	case "wkb":
		if strings.HasPrefix(dim, "claim-") {
			typ, _ := strconv.Atoi(dim[6:])
			d := wkbHeader(true, uint32(typ), uint32(n))
			if typ == 4 {
				return fam, append(d, wkbPointPayload(true, 5)...), nil
			}
			return fam, append(d, bytes.Repeat(wkbTail, 3)...), nil
		}
		switch dim {
		case "ls-points":
			return fam, wkbLS(n), nil
		case "hex-ls-points":
			return fam, []byte(hex.EncodeToString(wkbLS(n))), nil
		case "mp-points":
			d := wkbHeader(true, 4, uint32(n))
			p := wkbPointPayload(true, 1)
			for i := 0; i < n; i++ {
				d = append(d, p...)
			}
			return fam, d, nil
		case "mls-empty":
			return fam, append(wkbHeader(true, 5, uint32(n)), bytes.Repeat(wkbHeader(true, 2, 0), n)...), nil
		case "mls-one-big":
			return fam, place(wkbLS(2), wkbLS(n), func(c int) []byte { return wkbHeader(true, 5, uint32(c)) }), nil
		case "poly-rings":
			return fam, append(wkbHeader(true, 3, uint32(n)), make([]byte, 4*n)...), nil
		case "poly-ring-points":
			d := wkbHeader(true, 3, 1)
			d = append(d, byte(n), byte(n>>8), byte(n>>16), byte(n>>24))
			return fam, wkbPts(d, n), nil
		case "mpoly-empty":
			return fam, append(wkbHeader(true, 6, uint32(n)), bytes.Repeat(wkbHeader(true, 3, 0), n)...), nil
		case "coll-points":
			d := wkbHeader(true, 7, uint32(n))
			p := wkbPointPayload(true, 1)
			for i := 0; i < n; i++ {
				d = append(d, p...)
			}
			return fam, d, nil
		case "coll-one-big":
			return fam, place(wkbPointPayload(true, 1), wkbLS(n), func(c int) []byte { return wkbHeader(true, 7, uint32(c)) }), nil
		case "coll-depth":
			return fam, nestWKB(7, 1, n, wkbHeader(true, 7, 0)), nil
		}
	case "wkt":
		var sb strings.Builder
		switch dim {
		case "ls-points":
			sb.WriteString("LINESTRING(")
			wktPts(&sb, n)
			sb.WriteString(")")
		case "mp-points":
			sb.WriteString("MULTIPOINT(")
			for i := 0; i < n; i++ {
				if i > 0 {
					sb.WriteByte(',')
				}
				sb.WriteString("(1 2)")
			}
			sb.WriteString(")")
		case "mls-members", "poly-rings":
			if dim == "mls-members" {
				sb.WriteString("MULTILINESTRING(")
			} else {
				sb.WriteString("POLYGON(")
			}
			for i := 0; i < n; i++ {
				if i > 0 {
					sb.WriteByte(',')
				}
				sb.WriteString("(0 0,1 0,1 1,0 0)")
			}
			sb.WriteString(")")
		case "mpoly-members":
			sb.WriteString("MULTIPOLYGON(")
			for i := 0; i < n; i++ {
				if i > 0 {
					sb.WriteByte(',')
				}
				sb.WriteString("((0 0,1 0,1 1,0 0))")
			}
			sb.WriteString(")")
		case "coll-members":
			sb.WriteString("GEOMETRYCOLLECTION(")
			for i := 0; i < n; i++ {
				if i > 0 {
					sb.WriteByte(',')
				}
				sb.WriteString("POINT(1 2)")
			}
			sb.WriteString(")")
		case "coll-one-big":
			sb.WriteString("GEOMETRYCOLLECTION(")
			for i := 0; i < 3; i++ {
				if i > 0 {
					sb.WriteByte(',')
				}
				if i == pos {
					sb.WriteString("LINESTRING(")
					wktPts(&sb, n)
					sb.WriteString(")")
				} else {
					sb.WriteString("POINT(1 2)")
				}
			}
			sb.WriteString(")")
		case "spaces":
			sp := strings.Repeat(" ", n/4+1)
			sb.WriteString(sp + "LINESTRING" + sp + "(1 2" + sp + "," + sp + "3 4)" + sp)
		case "number-len":
			sb.WriteString("POINT(" + strings.Repeat("1", n) + " 0." + strings.Repeat("3", n) + ")")
		case "coll-depth":
			sb.WriteString(strings.Repeat("GEOMETRYCOLLECTION(", n) + "POINT(1 2)" + strings.Repeat(")", n))
		default:
			return "", nil, fmt.Errorf("bad recipe %q", recipe)
		}
		return fam, []byte(sb.String()), nil
	case "geojson", "bson":
		var sb strings.Builder
		switch dim {
		case "ls-points":
			sb.WriteString(`{"type":"LineString","coordinates":`)
			jsonPts(&sb, n)
			sb.WriteString("}")
		case "mpoly-members":
			sb.WriteString(`{"type":"MultiPolygon","coordinates":[`)
			for i := 0; i < n; i++ {
				if i > 0 {
					sb.WriteByte(',')
				}
				sb.WriteString("[[[0,0],[1,0],[1,1],[0,0]]]")
			}
			sb.WriteString("]}")
		case "coll-members":
			sb.WriteString(`{"type":"GeometryCollection","geometries":[`)
			for i := 0; i < n; i++ {
				if i > 0 {
					sb.WriteByte(',')
				}
				sb.WriteString(`{"type":"Point","coordinates":[1,2]}`)
			}
			sb.WriteString("]}")
		case "coll-one-big":
			sb.WriteString(`{"type":"GeometryCollection","geometries":[`)
			for i := 0; i < 3; i++ {
				if i > 0 {
					sb.WriteByte(',')
				}
				if i == pos {
					sb.WriteString(`{"type":"LineString","coordinates":`)
					jsonPts(&sb, n)
					sb.WriteString("}")
				} else {
					sb.WriteString(`{"type":"Point","coordinates":[1,2]}`)
				}
			}
			sb.WriteString("]}")
		case "fc-features":
			sb.WriteString(`{"type":"FeatureCollection","features":[`)
			for i := 0; i < n; i++ {
				if i > 0 {
					sb.WriteByte(',')
				}
				sb.WriteString(`{"type":"Feature","geometry":{"type":"Point","coordinates":[1,2]},"properties":{"k":1}}`)
			}
			sb.WriteString("]}")
		case "props-count":
			sb.WriteString(`{"type":"Feature","geometry":null,"properties":{`)
			for i := 0; i < n; i++ {
				if i > 0 {
					sb.WriteByte(',')
				}
				sb.WriteString(`"k` + strconv.Itoa(i) + `":1`)
			}
			sb.WriteString("}}")
		case "key-len":
			sb.WriteString(`{"type":"Feature","geometry":null,"properties":{"` + strings.Repeat("k", n) + `":1}}`)
		case "string-len":
			sb.WriteString(`{"type":"Feature","id":"` + strings.Repeat("i", n/2) + `","geometry":null,"properties":{"s":"` + strings.Repeat("v", n) + `"}}`)
		case "number-len":
			sb.WriteString(`{"type":"Point","coordinates":[` + strings.Repeat("1", n) + `,0.` + strings.Repeat("3", n) + `]}`)
		case "props-depth":
			sb.WriteString(`{"type":"Feature","geometry":null,"properties":{"a":` + strings.Repeat("[", n) + strings.Repeat("]", n) + `}}`)
		case "coll-depth":
			sb.WriteString(strings.Repeat(`{"type":"GeometryCollection","geometries":[`, n) + `{"type":"Point","coordinates":[1,2]}` + strings.Repeat(`]}`, n))
		default:
			return "", nil, fmt.Errorf("bad recipe %q", recipe)
		}
		if fam == "geojson" {
			return fam, []byte(sb.String()), nil
		}
		var tree interface{}
		if err := json.Unmarshal([]byte(sb.String()), &tree); err != nil {
			return "", nil, err
		}
		b, _ := toBSON(tree, pos == 1)
		return fam, append([]byte(nil), b...), nil
	case "mvt":
		if strings.HasPrefix(dim, "gz") {
			return fam, buildGzip(dim, n), nil
		}
		layer := &pbW{}
		tile := &pbW{}
		onePt := mvtFeature(1, []uint32{9, 2, 2})
		switch dim {
		case "layers":
			for i := 0; i < n; i++ {
				tile.bytesField(3, nil)
			}
			return fam, tile.buf, nil
		case "features":
			for i := 0; i < n; i++ {
				layer.bytesField(2, onePt)
			}
		case "keys":
			for i := 0; i < n; i++ {
				layer.bytesField(3, []byte("k"))
			}
		case "values":
			v := &pbW{}
			v.varintField(7, 1)
			for i := 0; i < n; i++ {
				layer.bytesField(4, v.buf)
			}
		case "tags":
			tags := make([]uint32, n)
			for i := range tags {
				tags[i] = uint32(i % 2)
			}
			f := &pbW{}
			f.bytesField(2, packed(tags))
			f.varintField(3, 1)
			f.bytesField(4, packed([]uint32{9, 2, 2}))
			layer.bytesField(3, []byte("a"))
			layer.bytesField(3, []byte("b"))
			v := &pbW{}
			v.varintField(7, 1)
			layer.bytesField(4, v.buf)
			layer.bytesField(4, v.buf)
			layer.bytesField(2, f.buf)
		case "mp-points", "line-points":
			g := make([]uint32, 0, 2*n+4)
			if dim == "mp-points" {
				g = append(g, uint32(n)<<3|1)
			} else {
				g = append(g, 9, 2, 2, uint32(n)<<3|2)
			}
			for i := 0; i < n; i++ {
				g = append(g, 2, 2)
			}
			typ := uint32(1)
			if dim == "line-points" {
				typ = 2
			}
			layer.bytesField(2, mvtFeature(typ, g))
		case "mls-lines":
			g := make([]uint32, 0, 6*n)
			for i := 0; i < n; i++ {
				g = append(g, 9, 2, 2, 10, 2, 2)
			}
			layer.bytesField(2, mvtFeature(2, g))
		case "rings":
			g := make([]uint32, 0, 9*n)
			for i := 0; i < n; i++ {
				if i%2 == 0 {
					g = append(g, 9, 0, 0, 18, 8, 0, 0, 8, 15) // +(4,0) +(0,4): one winding
				} else {
					g = append(g, 9, 0, 0, 18, 0, 8, 8, 0, 15) // the other winding
				}
			}
			layer.bytesField(2, mvtFeature(3, g))
		case "name-len":
			layer.bytesField(1, bytes.Repeat([]byte("n"), n))
			layer.bytesField(2, onePt)
		case "value-len":
			v := &pbW{}
			v.bytesField(1, bytes.Repeat([]byte("v"), n))
			layer.bytesField(3, []byte("k"))
			layer.bytesField(4, v.buf)
			f := &pbW{}
			f.bytesField(2, packed([]uint32{0, 0}))
			f.varintField(3, 1)
			f.bytesField(4, packed([]uint32{9, 2, 2}))
			layer.bytesField(2, f.buf)
		default:
			return "", nil, fmt.Errorf("bad recipe %q", recipe)
		}
		tile.bytesField(3, layer.buf)
		d := tile.buf
		if pos == 1 {
			d = gz(d)
		}
		return fam, d, nil
	}
	return "", nil, fmt.Errorf("bad recipe %q", recipe)
}

// buildGzip: valid compressed containers (every layer CRC-valid) around hostile payloads.
func buildGzip(dim string, n int) []byte {
	payload := func(kind string) []byte {
		switch kind {
		case "zeros":
			return make([]byte, n)
		case "tile":
			return repeatTo(goodTileUnit, n)
		default:
			return repeatTo(badTileUnit, n)
		}
	}
	if len(dim) > 4 && dim[0:2] == "gz" && dim[2] >= '1' && dim[2] <= '4' && dim[3] == '-' {
		layers := int(dim[2] - '0')
		d := payload(dim[4:])
		for i := 0; i < layers; i++ {
			d = gzLevel(d, gzip.BestSpeed, nil)
		}
		return d
	}
	switch dim {
	case "gz-members":
		one := gz(goodTileUnit)
		return bytes.Repeat(one, n)
	case "gz-members-zeros":
		one := gzLevel(make([]byte, 64<<10), gzip.BestSpeed, nil)
		return bytes.Repeat(one, n)
	case "gz-name-len":
		return gzLevel(goodTileUnit, gzip.BestSpeed, func(w *gzip.Writer) { w.Name = strings.Repeat("n", n) })
	case "gz-comment-len":
		return gzLevel(goodTileUnit, gzip.BestSpeed, func(w *gzip.Writer) { w.Comment = strings.Repeat("c", n) })
	case "gz-extra-len":
		return gzLevel(goodTileUnit, gzip.BestSpeed, func(w *gzip.Writer) { w.Extra = bytes.Repeat([]byte{0x41}, n) })
	case "gz-stored":
		return gzLevel(repeatTo(goodTileUnit, n), gzip.NoCompression, nil)
	case "gz-huffman":
		return gzLevel(repeatTo(goodTileUnit, n), gzip.HuffmanOnly, nil)
	}
	return nil
}

// ---------------------------------------------------------------- the test

// TestEnumLarge runs the size ladder of every dimension in largeDims.
func TestEnumLarge(t *testing.T) {
	assumptions()
	defer inFlightDone()
	stats.Assume("size ladder (TestEnumLarge): inputs above 64 KiB are structured, flat shapes and are judged with the linear part A*len (+E*expanded) + 1 MiB of the per-target budget; where every dimension's ladder stops and why is listed in largeDims (large_test.go) and summarised in rule.txt")
	thorough := stats.Thorough()
	i, k := stats.Shard()
	var idx, total int64
	perFam := map[string]int64{}
	tops := map[string]string{}
	for _, d := range largeDims {
		t0, n0 := processCPU(), idx
		tops[d.family] += fmt.Sprintf(" %s<=%d", d.dim, d.top)
		for _, n := range ladder(d.top) {
			// heavy dimensions (quadratic time, or > 0.1 s per case already at a few thousand): the quick tier stops at quickTop
			heavy := d.dim == "coll-depth" && d.family != "wkb" || d.dim == "gz-members-zeros" || d.family == "bson" && (d.dim == "coll-members" || d.dim == "fc-features")
			if !thorough && n > d.quickTop && !(mustQuick[n] && !heavy && (n < 60000 || d.q64k && n != 65534 && n != 65537 && n != 65539)) {
				continue
			}
			for pos := 0; pos < d.pos; pos++ {
				variants := []int{pos}
				if d.pos == 1 && (d.family == "mvt" && !strings.HasPrefix(d.dim, "gz") || d.family == "bson") {
					variants = []int{0, 1} // mvt: plain and gzipped; bson: doubles and int32
				}
				for _, v := range variants {
					idx++
					total++
					perFam[d.family]++
					if idx%int64(k) != int64(i) {
						continue
					}
					runLarge(t, fmt.Sprintf("%s|%s|%d|%d", d.family, d.dim, n, v))
				}
			}
		}
		if os.Getenv("C05_LARGE_TIMES") != "" {
			fmt.Printf("LARGE %-8s %-18s cases %4d cpu %6.2fs\n", d.family, d.dim, idx-n0, (processCPU() - t0).Seconds())
		}
	}
	for fam, s := range tops {
		stats.Note("large_ladder_tops:"+fam, strings.TrimSpace(s))
	}
	stats.Subspace(fmt.Sprintf("size ladder {L-2..L+3, 1.5L+1: L = 2^k (k=6..24), 10^k (k=2..7)} + {65535,65536,4095..4097} over %d size dimensions (wkb %d, wkt %d, geojson %d, bson %d, mvt and gzip containers %d cases), each up to its stated top", len(largeDims), perFam["wkb"], perFam["wkt"], perFam["geojson"], perFam["bson"], perFam["mvt"]), total, true)
}

func runLarge(t *testing.T, recipe string) {
	fam, data, err := buildLarge(recipe)
	if err != nil {
		t.Fatalf("%v", err)
	}
	c := Case{Family: fam, Recipe: recipe, How: fmt.Sprintf("large %s (%d bytes)", recipe, len(data))}
	if len(data) <= 4096 {
		c = newCase(fam, data, "large "+recipe)
	}
	name := "TestEnumLarge"
	stats.Eval(name, 1)
	inFlight(name, c)
	var out outcome
	stats.TryT(t, name, c, func() error {
		var err error
		out, err = checkData(fam, data, evalOpts{measure: true, deep: strings.Contains(recipe, "coll-depth")})
		return err
	})
	for _, why := range out.skipWhy {
		stats.Excluded(why)
	}
	stats.ClassN(name+":"+fam+":calls:value", int64(out.values))
	stats.ClassN(name+":"+fam+":calls:error", int64(out.errors))
	switch {
	case len(data) < 1<<16:
		stats.Class(name + ":" + fam + ":len:<64KiB")
	case len(data) < 1<<20:
		stats.Class(name + ":" + fam + ":len:<1MiB")
	case len(data) < 1<<24:
		stats.Class(name + ":" + fam + ":len:<16MiB")
	default:
		stats.Class(name + ":" + fam + ":len:>=16MiB")
	}
	if len(data) <= 1<<20 && pastDispatch(fam, data) || len(data) > 1<<20 {
		stats.NonTrivial(c.key())
		if stats.WantSample(name+":"+fam) && len(data) <= 4096 {
			stats.Sample(name+":"+fam, c)
		}
	}
}
