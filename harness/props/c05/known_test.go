package c05

// Deterministic witnesses of the genuine defects that are still in the tree. The
// random generators and enumerations skip the decoder calls that belong to the
// input family of such a defect (counted as excluded_known); the witnesses below
// run WITHOUT that filter, each in a child process (a witness may loop forever).

import (
	"bytes"
	"fmt"
	"os"
	"os/exec"
	"strconv"
	"strings"
	"testing"
	"time"

	"verifharness/internal/kf"
	"verifharness/internal/stats"
)

type knownWitness struct {
	key    string
	family string
	target string // restrict to this target ("" = all of the family)
	data   []byte
	what   string
}

func knownWitnesses() []knownWitness {
	return []knownWitness{
		{keyBSONLength, "bson", "(*geojson.Geometry).UnmarshalBSON", unhex("23000000047600fdffffff013000000000000000f03f01310000000000000000400000"),
			"(&geojson.Geometry{}).UnmarshalBSON of {\"v\": array with length -3} never returns (mongo-driver v1.11.4 skips a negative length backwards); FeatureCollection panics slice bounds out of range; string length 0x7fffffff panics index out of range"},
		{keyBSONLength, "bson", "(*geojson.FeatureCollection).UnmarshalBSON", unhex("23000000047600fdffffff013000000000000000f03f01310000000000000000400000"), keyBSONLength},
		{keyBSONLength, "bson", "(*geojson.Feature).UnmarshalBSON", unhex("1c000000 02 696400 ffffff7f 69642d3100 02 7479706500 01000000 00 00"), keyBSONLength},
	}
}

// runWitnessHere runs the witness in this process (child side).
func runWitnessHere(w knownWitness) error {
	for i := range familyTargets[w.family] {
		tg := &familyTargets[w.family][i]
		if w.target != "" && tg.name != w.target {
			continue
		}
		buf := append([]byte(nil), w.data...)
		err := stats.Guard(func() error {
			res := tg.run(buf)
			if res.extra != "" {
				return fmt.Errorf("%s", res.extra)
			}
			return nil
		})
		if err != nil {
			return fmt.Errorf("%s(%s): %v", tg.name, short(w.data), err)
		}
	}
	return nil
}

// TestWitnessChild is the child side of TestKnownFindings (not matched by the driver's pattern).
func TestWitnessChild(t *testing.T) {
	s := os.Getenv("C05_WITNESS")
	if s == "" {
		t.Skip("child of TestKnownFindings only")
	}
	i, err := strconv.Atoi(s)
	ws := knownWitnesses()
	if err != nil || i < 0 || i >= len(ws) {
		t.Fatalf("bad witness index %q", s)
	}
	disarm()
	if err := runWitnessHere(ws[i]); err != nil {
		msg := err.Error()
		if len(msg) > 600 {
			msg = msg[:600]
		}
		fmt.Printf("WITNESS-FAILS: %s\n", strings.ReplaceAll(msg, "\n", " | "))
		t.Fail()
	}
}

// runWitness runs the witness in a child process (a witness may loop forever) and waits at most 5 s.
func runWitness(idx int, w knownWitness) error {
	cmd := exec.Command(os.Args[0], "-test.run", "^TestWitnessChild$", "-test.v")
	var env []string
	for _, e := range os.Environ() {
		if strings.HasPrefix(e, "VERIF_OUT=") || strings.HasPrefix(e, "VERIF_REPLAYDIR=") || strings.HasPrefix(e, "VERIF_REPLAY=") {
			continue
		}
		env = append(env, e)
	}
	cmd.Env = append(env, "C05_WITNESS="+strconv.Itoa(idx))
	var out bytes.Buffer
	cmd.Stdout, cmd.Stderr = &out, &out
	if err := cmd.Start(); err != nil {
		return nil // cannot run the witness: nothing to report
	}
	done := make(chan error, 1)
	go func() { done <- cmd.Wait() }()
	select {
	case err := <-done:
		if err == nil {
			return nil
		}
		msg := "failed"
		for _, l := range strings.Split(out.String(), "\n") {
			if strings.HasPrefix(l, "WITNESS-FAILS: ") {
				msg = strings.TrimPrefix(l, "WITNESS-FAILS: ")
			} else if strings.HasPrefix(l, "fatal error:") && msg == "failed" {
				msg = l
			}
		}
		return fmt.Errorf("%s", msg)
	case <-time.After(5 * time.Second):
		_ = cmd.Process.Kill()
		<-done
		return fmt.Errorf("%s(%s): did not return within 5 s (endless loop)", w.target, short(w.data))
	}
}

// TestKnownFindings: a witness that still fails is reported as KNOWN-FINDING when
// known_findings.json lists its key as "known", as a VIOLATION otherwise; a witness
// that passes (defect repaired) reports nothing.
func TestKnownFindings(t *testing.T) {
	if i, _ := stats.Shard(); i != 0 {
		t.Skip("witnesses run on shard 0 only")
	}
	reported := map[string]bool{}
	for idx, w := range knownWitnesses() {
		err := runWitness(idx, w)
		if err == nil {
			continue
		}
		if reported[w.key] {
			continue
		}
		reported[w.key] = true
		if f, ok := kf.Get("C05", w.key); ok {
			what := f.What
			if what == "" {
				what = w.what
			}
			stats.Known(w.key, what)
			continue
		}
		c := newCase(w.family, w.data, "known-finding witness "+w.key+" via "+w.target)
		c.NoSkip = true
		p := stats.RecordFailure("TestKnownFindings/"+w.key, c, err)
		t.Errorf("unlisted defect %s: %v (replay %s)", w.key, err, p)
	}
}
