package c05

import (
	"strings"
	"testing"

	"pgregory.net/rapid"

	"verifharness/internal/stats"
)

// case counts per tier (totals over all shards), tuned to the budgets of README.md.
var propCounts = map[string][2]int{
	"TestPropMutateWKB":     {14000, 1000000},
	"TestPropMutateWKT":     {20000, 1500000},
	"TestPropMutateGeoJSON": {14000, 900000},
	"TestPropMutateBSON":    {14000, 900000},
	"TestPropMutateMVT":     {20000, 1500000},
	"TestPropDeepChains":    {2400, 90000},
	"TestPropLongFlat":      {1000, 60000},
	"TestPropMVTCommands":   {16000, 800000},
}

func assumptions() {
	stats.Assume("inputs are at most 64 KiB (the per-call watchdog and the len^2 terms of the allocation bounds are calibrated for that size); larger inputs are not explored")
	stats.Assume("allocation is observed as the runtime.MemStats.TotalAlloc delta around one decoder call (cumulative bytes, not peak); bound PER TARGET: A*len + Q*len^2 + E*expanded + 1 MiB with the table of limits_test.go, measured on the unchanged tree and widened 4x (see rule); every call is screened with runtime/metrics /gc/heap/allocs:bytes (exact for objects > 32 KiB; for smaller objects it can lag by the unfilled part of one span per size class); a call whose screen exceeds bound - 256 KiB, and every 32nd call, is re-run under ReadMemStats and fails only if the minimum of three exact measurements exceeds the bound")
	stats.Assume("'never loops forever' is approximated by a watchdog per decoder call: 10 s of process CPU time while the call is in flight, or a 15 min wall safety net (wall time alone is unsound on the shared, oversubscribed machine)")
	stats.Assume("cumulative allocation that grows with the SQUARE of the nesting depth is tolerated through a Q*len^2 term ONLY for the targets where the unchanged tree is quadratic (peak memory stays linear): wkb.Unmarshal / Scan* re-scan one-member multi-* chains from every level (63 KB chain: 589 MB cumulative, 2.7 s), nested GeoJSON geometry collections rebuild Geometry() at every level (63 KB, depth 1400: 93 MB, 0.9 s), the BSON driver copies every embedded document once per level; these shapes are generated to depth 600 (WKB), 400 (GeoJSON) and 300 (BSON) only because of their quadratic time; linear chains (collections, truncated multi-*) are generated to depth len/9 = 7281")
	stats.Assume("unbounded recursion depth is outside the explored domain: 54 MB of nested WKB collections (6 million levels) end in a fatal stack overflow of the stream decoder")
	stats.Assume("BSON is driven through orb's own UnmarshalBSON methods; bson.Unmarshal(data, &geojson.X{}) is the driver's front door and copies the top-level document with an unchecked length before any orb code runs")
	stats.Assume("stream decoders are driven with a bytes.Reader until the first error; scanners get []byte values only (other driver value types are rejected by a type assertion before any decoding)")
	stats.Assume("geojson.CustomJSONUnmarshaler is left nil (encoding/json); BSON is decoded with go.mongodb.org/mongo-driver v1.11.4 as pinned by orb's go.mod")
	stats.Assume("WKB stability is checked for wkb/ewkb Unmarshal and for the first geometry of each stream decoder, with the default (little endian) byte order of Marshal")
}

// isQuad tags (for calibration only) the input shapes on which the UNCHANGED tree allocates
// quadratically in the nesting depth: WKB multi-* chains that end in a valid leaf (re-scanned
// through the typed Scan* functions) and any nesting of GeoJSON / BSON / WKT collections.
func isQuad(family, how string) bool {
	deep := strings.Contains(how, "nest") || strings.Contains(how, "chain") || strings.Contains(how, "depth")
	if !deep {
		return false
	}
	switch family {
	case "wkb":
		if strings.Contains(how, "nest-multi") || strings.Contains(how, "re-scanned") || strings.Contains(how, "multi-line chain") ||
			strings.Contains(how, "multi-point chain") || strings.Contains(how, "multi-polygon chain") {
			return true
		}
		return strings.Contains(how, "chain multi") && strings.Contains(how, "leaf valid")
	case "mvt":
		return false
	}
	return true
}

func runProp(t *testing.T, family string, g func(*rapid.T) ([]byte, string)) {
	runPropF(t, func(rt *rapid.T) (string, []byte, string) {
		data, how := g(rt)
		return family, data, how
	})
}

func runPropF(t *testing.T, g func(*rapid.T) (string, []byte, string)) {
	name := t.Name()
	assumptions()
	n := propCounts[name]
	defer inFlightDone()
	stats.Check(t, n[0], n[1], func(rt *rapid.T) {
		family, data, how := g(rt)
		c := newCase(family, data, how)
		var out outcome
		inFlight(name, c)
		stats.Try(rt, name, c, func() error {
			var err error
			out, err = checkData(family, data, evalOpts{measure: true, deep: isQuad(family, how)})
			return err
		})
		for _, why := range out.skipWhy {
			stats.Excluded(why)
		}
		if classify(name, family, data, how, out) {
			stats.NonTrivial(c.key())
			if stats.WantSample(family) {
				stats.Sample(family, c)
			}
		}
	})
}

func TestPropMutateWKB(t *testing.T)     { runProp(t, "wkb", genWKB) }
func TestPropMutateWKT(t *testing.T)     { runProp(t, "wkt", genWKT) }
func TestPropMutateGeoJSON(t *testing.T) { runProp(t, "geojson", genGeoJSON) }
func TestPropMutateBSON(t *testing.T)    { runProp(t, "bson", genBSON) }
func TestPropMutateMVT(t *testing.T)     { runProp(t, "mvt", genMVT) }

// TestPropDeepChains: chains of nested containers of depth up to len/9 (WKB; half of the cases)
// and the corresponding nestings of the other codecs.
func TestPropDeepChains(t *testing.T) {
	runPropF(t, func(rt *rapid.T) (string, []byte, string) {
		fam := rapid.SampledFrom([]string{"wkb", "wkb", "wkb", "wkb", "wkt", "geojson", "bson", "mvt"}).Draw(rt, "family")
		var (
			data []byte
			how  string
		)
		switch fam {
		case "wkb":
			data, how = genChainWKB(rt)
		case "wkt":
			data, how = genChainWKT(rt)
		case "geojson":
			data, how = genChainGeoJSON(rt)
		case "bson":
			data, how = genChainBSON(rt)
		default:
			data, how = genChainMVT(rt)
		}
		return fam, data, how
	})
}

// TestPropLongFlat: long (1-60 KiB) valid encodings with many points or many small members, at
// most one byte-level mutation: the linear coefficient of every decoder's allocation.
func TestPropLongFlat(t *testing.T) { runPropF(t, genLong) }

// TestPropMVTCommands: structurally valid tiles whose geometry integer stream is hostile at grammar
// level (genMVTCommands), for the geometry types POINT, LINESTRING, POLYGON, UNKNOWN and an
// undefined one, plain and gzipped.
func TestPropMVTCommands(t *testing.T) { runProp(t, "mvt", genMVTCommandTile) }
