package c05

// Round L2 (dynamic types behind interface-typed arguments) and L3 (histories on a reused value)
// for the SQL scanners and stream decoders: the only C05 entry points that take interface values
// or keep state between calls.

import (
	"bytes"
	"database/sql"
	"fmt"
	"testing"

	"github.com/paulmach/orb"
	"github.com/paulmach/orb/encoding/ewkb"
	"github.com/paulmach/orb/encoding/wkb"
	"github.com/paulmach/orb/geojson"
	"pgregory.net/rapid"

	"verifharness/internal/gen"
	"verifharness/internal/stats"
)

type namedBytes []byte
type bytesStruct struct{ B []byte }

type scannerLike interface{ Scan(interface{}) error }

func scannerKinds() map[string]func(interface{}) scannerLike {
	return map[string]func(interface{}) scannerLike{
		"wkb.Scanner":            func(g interface{}) scannerLike { return wkb.Scanner(g) },
		"ewkb.Scanner":           func(g interface{}) scannerLike { return ewkb.Scanner(g) },
		"ewkb.ScannerPrefixSRID": func(g interface{}) scannerLike { return ewkb.ScannerPrefixSRID(g) },
	}
}

// TestEnumScanDynamicTypes: every scanner kind x destination of every dynamic type a caller could
// pass (the ten documented ones, typed nil pointers excluded as documented misuse; pointers to
// other types, non-pointers, funcs, maps) x source values of every dynamic type a driver could
// deliver (nil, []byte nil/empty/valid/hex, string, named byte slices, sql.RawBytes, *[]byte,
// numbers, bool, structs): Scan returns nil or an error, never panics.
func TestEnumScanDynamicTypes(t *testing.T) {
	assumptions()
	valid, _ := wkb.Marshal(orb.Point{1, 2})
	validColl, _ := wkb.Marshal(orb.Collection{orb.Point{1, 2}, orb.LineString{{1, 2}, {3, 4}}})
	prefixed := append([]byte{0xe6, 0x10, 0, 0}, valid...)
	hexed := []byte(wkb.MustMarshalToHex(orb.Point{1, 2}))
	vb := append([]byte(nil), valid...)
	srcs := map[string]func() interface{}{
		"nil":          func() interface{} { return nil },
		"[]byte(nil)":  func() interface{} { return []byte(nil) },
		"[]byte{}":     func() interface{} { return []byte{} },
		"valid":        func() interface{} { return append([]byte(nil), valid...) },
		"collection":   func() interface{} { return append([]byte(nil), validColl...) },
		"srid-prefix":  func() interface{} { return append([]byte(nil), prefixed...) },
		"hex":          func() interface{} { return append([]byte(nil), hexed...) },
		"string":       func() interface{} { return string(valid) },
		"hex-string":   func() interface{} { return string(hexed) },
		"namedBytes":   func() interface{} { return namedBytes(append([]byte(nil), valid...)) },
		"sql.RawBytes": func() interface{} { return sql.RawBytes(append([]byte(nil), valid...)) },
		"*[]byte":      func() interface{} { return &vb },
		"[5]byte":      func() interface{} { return [5]byte{1, 1, 0, 0, 0} },
		"int64":        func() interface{} { return int64(1) },
		"float64":      func() interface{} { return 1.5 },
		"bool":         func() interface{} { return true },
		"struct":       func() interface{} { return bytesStruct{valid} },
		"*struct":      func() interface{} { return &bytesStruct{valid} },
		"func":         func() interface{} { return func() {} },
		"map":          func() interface{} { return map[string][]byte{"a": valid} },
		"orb.Point":    func() interface{} { return orb.Point{1, 2} },
	}
	dests := map[string]func() interface{}{}
	for _, k := range scanDests {
		kind := k
		dests[kind] = func() interface{} { return newDest(kind) }
	}
	pp := &orb.Point{}
	more := map[string]func() interface{}{
		"*int":             func() interface{} { return new(int) },
		"*geojson.Point":   func() interface{} { return &geojson.Point{} },
		"**orb.Point":      func() interface{} { return &pp },
		"orb.Point(value)": func() interface{} { return orb.Point{} },
		"*orb.Geometry":    func() interface{} { var g orb.Geometry; return &g },
		"*[]orb.Point":     func() interface{} { return &[]orb.Point{} },
		"*namedBytes":      func() interface{} { return &namedBytes{} },
		"func":             func() interface{} { return func() {} },
		"map":              func() interface{} { return map[string]int{} },
		"chan":             func() interface{} { return make(chan int) },
		"string":           func() interface{} { return "x" },
		"*struct":          func() interface{} { return &bytesStruct{} },
	}
	for k, v := range more {
		dests[k] = v
	}
	var idx, size int64
	for _, kn := range sortedKeys(scannerKinds()) {
		mk := scannerKinds()[kn]
		for _, dn := range sortedKeys(dests) {
			for _, sn := range sortedKeys(srcs) {
				idx++
				size++
				if !stats.Mine(idx) {
					continue
				}
				name := fmt.Sprintf("%s(%s).Scan(%s)", kn, dn, sn)
				stats.Eval("TestEnumScanDynamicTypes", 1)
				c := Case{Family: "wkb", How: "dynamic types: " + name}
				stats.TryT(t, "TestEnumScanDynamicTypes", c, func() error {
					s := mk(dests[dn]())
					arm()
					err := s.Scan(srcs[sn]())
					disarm()
					if err == nil {
						stats.Class("TestEnumScanDynamicTypes:nil")
					} else {
						stats.Class("TestEnumScanDynamicTypes:error")
					}
					return nil
				})
			}
		}
	}
	stats.Subspace("scanner kinds x 22 destination dynamic types x 21 source dynamic types: Scan never panics", size, true)
}

func sortedKeys[V any](m map[string]V) []string {
	ks := make([]string, 0, len(m))
	for k := range m {
		ks = append(ks, k)
	}
	// insertion sort: tiny maps
	for i := 1; i < len(ks); i++ {
		for j := i; j > 0 && ks[j] < ks[j-1]; j-- {
			ks[j], ks[j-1] = ks[j-1], ks[j]
		}
	}
	return ks
}

// scanOutcome is what a caller can observe after Scan.
type scanOutcome struct {
	errored bool
	valid   bool
	sig     string
	srid    int
}

func observe(s scannerLike, err error) scanOutcome {
	o := scanOutcome{errored: err != nil}
	var g orb.Geometry
	switch x := s.(type) {
	case *wkb.GeometryScanner:
		o.valid, g = x.Valid, x.Geometry
	case *ewkb.GeometryScanner:
		o.valid, g, o.srid = x.Valid, x.Geometry, x.SRID
		if err != nil || !x.Valid {
			o.srid = 0 // SRID is only meaningful for a valid scan
		}
	}
	if g != nil {
		sig, bits := gen.Flatten(g)
		o.sig = fmt.Sprint(sig, bits)
	}
	return o
}

// TestPropScannerHistory: ONE scanner (nil destination, so that the result is only in the
// scanner) is reused for 2..6 inputs in a row — valid encodings and mutated ones in any order,
// the same input twice — and after every Scan what the caller observes (error or not, Valid,
// the geometry bit for bit, the SRID of a valid scan) must equal what a fresh scanner reports
// for that input alone. The same for one stream decoder fed the concatenation: value k of the
// stream equals the first value of a fresh decoder on input k, until the first error.
func TestPropScannerHistory(t *testing.T) {
	assumptions()
	n := [2]int{4000, 200000}
	kinds := scannerKinds()
	names := sortedKeys(kinds)
	stats.Check(t, n[0], n[1], func(rt *rapid.T) {
		kn := rapid.SampledFrom(names).Draw(rt, "kind")
		steps := rapid.IntRange(2, 6).Draw(rt, "steps")
		var inputs [][]byte
		for i := 0; i < steps; i++ {
			if i > 0 && rapid.IntRange(0, 4).Draw(rt, "again") == 0 {
				inputs = append(inputs, inputs[intn(rt, len(inputs), "which")])
				continue
			}
			d, _ := genWKB(rt)
			if len(d) > 4096 {
				d = d[:4096]
			}
			inputs = append(inputs, d)
		}
		c := Case{Family: "wkb", How: "history " + kn}
		for _, d := range inputs {
			c.How += " " + short(d)
		}
		stats.Try(rt, "TestPropScannerHistory", c, func() error {
			reused := kinds[kn](nil)
			for i, d := range inputs {
				arm()
				e1 := reused.Scan(append([]byte{}, d...))
				fresh := kinds[kn](nil)
				e2 := fresh.Scan(append([]byte{}, d...))
				disarm()
				if a, b := observe(reused, e1), observe(fresh, e2); a != b {
					return fmt.Errorf("step %d of %d, %s on %s: reused scanner reports %+v, a fresh one %+v", i+1, len(inputs), kn, short(d), a, b)
				}
			}
			// stream: well-formed prefixes only make sense until the first error
			var cat []byte
			for _, d := range inputs {
				cat = append(cat, d...)
			}
			dec := wkb.NewDecoder(bytes.NewReader(cat))
			for i, d := range inputs {
				arm()
				g1, e1 := dec.Decode()
				g2, e2 := wkb.NewDecoder(bytes.NewReader(d)).Decode()
				disarm()
				if e2 != nil {
					break // the stream position after a failed member is undefined
				}
				// a fresh decoder may stop short of the member's end (trailing bytes): then the reused one is out of step
				if consumedAll(d, g2) {
					if e1 != nil {
						return fmt.Errorf("stream member %d (%s): reused decoder fails with %v, a fresh one decodes it", i+1, short(d), e1)
					}
					if ok, why := gen.SameBits(g1, g2); !ok {
						return fmt.Errorf("stream member %d (%s): reused decoder differs from a fresh one: %s", i+1, short(d), why)
					}
				} else {
					break
				}
			}
			return nil
		})
		stats.Class("history:" + kn)
	})
}

// consumedAll: the member's encoding is exactly as long as its canonical re-encoding with the same byte
// order would be (no trailing bytes, no SRID words), so that a stream decoder ends exactly at its end.
func consumedAll(d []byte, g orb.Geometry) bool {
	if g == nil || len(d) == 0 {
		return false
	}
	b, err := wkb.Marshal(g)
	return err == nil && len(b) == len(d)
}
