// Package c05 decides property C05 (decoders never panic, never hang and never
// over-allocate on hostile input; WKB decode/encode is stable) by exhaustive
// boundary enumerations, structure-aware mutation of valid encodings and native
// coverage-guided fuzzing.
//
// Every decoder orb exposes is a "target". A case is one input (bytes) for one
// codec family; checkCase runs every target of the family on a private copy of
// the input and demands, per call:
//
//   - no panic (recovered, reported with the input);
//   - it returns before the per-call watchdog (10 s of CPU time; a hang or a
//     memory-exhaustion death kills the process, the in-flight file written before the
//     call is then turned into the replay file by the driver);
//   - exactly one of value / error comes back;
//   - allocation bound: the runtime.MemStats.TotalAlloc delta around the call is
//     <= A*len + len^2/Q + B with (A, Q, B) fixed per decoder (table `limits`);
//   - WKB/EWKB stability: bytes -> g implies Unmarshal(Marshal(g)) is bit-equal
//     to g and marshals to the same bytes again.
package c05

import (
	"bytes"
	"compress/gzip"
	"encoding/binary"
	"encoding/hex"
	"encoding/json"
	"fmt"
	"io"
	"os"
	"runtime"
	"runtime/debug"
	"runtime/metrics"
	"sort"
	"strings"
	"sync/atomic"
	"syscall"
	"testing"
	"time"

	"github.com/paulmach/orb"
	"github.com/paulmach/orb/encoding/ewkb"
	"github.com/paulmach/orb/encoding/mvt"
	"github.com/paulmach/orb/encoding/wkb"
	"github.com/paulmach/orb/encoding/wkt"
	"github.com/paulmach/orb/geojson"
	"go.mongodb.org/mongo-driver/bson"

	"verifharness/internal/gen"
	"verifharness/internal/stats"
)

func TestMain(m *testing.M) {
	// Few Ps: the shards already run in parallel, and runtime.ReadMemStats stops
	// the world, which is cheaper with few Ps. Two are needed so that the watchdog
	// goroutine is never starved.
	runtime.GOMAXPROCS(2)
	// The live heap of a shard is a few MiB, so the default pacer would start a collection
	// every ~4 MiB of garbage (i.e. every 25 stream decodes of a count-inflated input, which
	// legitimately pre-allocate 160 KB each). Collect at 9x the live heap, at the latest at 1 GiB.
	debug.SetGCPercent(800)
	debug.SetMemoryLimit(1 << 30)
	if os.Getenv("VERIF_FUZZING") == "1" {
		// native fuzz workers are not started by the driver's `ulimit -v`; give them
		// the same 12 GiB address-space limit so that a runaway pre-allocation kills
		// the worker (= crasher recorded by the fuzz engine) instead of the machine.
		lim := syscall.Rlimit{Cur: 12 << 30, Max: 12 << 30}
		_ = syscall.Setrlimit(syscall.RLIMIT_AS, &lim)
	}
	startWatchdog()
	stats.Main(m, "C05")
}

// ---------------------------------------------------------------- case

// MaxInput is the largest input the generators produce; the watchdog and the
// quadratic term of the allocation bound are calibrated for it.
const MaxInput = 64 << 10

// Case is one generated input (also the replay format).
type Case struct {
	Family string `json:"family"`            // wkb | wkt | geojson | bson | mvt
	Hex    string `json:"hex"`               // the input bytes, hex encoded
	Text   string `json:"text,omitempty"`    // informational: the input as text when it is printable
	How    string `json:"how,omitempty"`     // informational: how the generator built it
	NoSkip bool   `json:"no_skip,omitempty"` // witness of a known finding: do not apply the known-family filters
	Recipe string `json:"recipe,omitempty"`  // large structured input: rebuilt by buildLarge instead of being stored as hex
}

func newCase(family string, data []byte, how string) Case {
	c := Case{Family: family, Hex: hex.EncodeToString(data), How: how}
	if family == "wkt" || family == "geojson" {
		if printable(data) && len(data) <= 2048 {
			c.Text = string(data)
		}
	}
	return c
}

func printable(b []byte) bool {
	for _, x := range b {
		if x < 0x20 && x != '\n' && x != '\t' || x >= 0x7f {
			return false
		}
	}
	return true
}

func (c Case) data() ([]byte, error) {
	if c.Recipe != "" {
		_, d, err := buildLarge(c.Recipe)
		return d, err
	}
	return hex.DecodeString(c.Hex)
}

// key is the canonical rendering used for counting distinct cases.
func (c Case) key() string {
	if c.Recipe != "" {
		return c.Family + ":" + c.Recipe
	}
	return c.Family + ":" + c.Hex
}

// ---------------------------------------------------------------- in-flight file

// The in-flight marker has the format of stats.InFlight (a replay file named
// inflight.json in the shard's private working directory) but is written with one
// pwrite on a file that stays open: os.WriteFile truncates, which costs 1.5 ms per
// case on this file system (0.5 us for the pwrite). The content is padded with
// spaces to the longest content written so far instead of being truncated. The
// file is removed at the end of every test function (inFlightDone).
type inflightFile struct {
	Property string `json:"property"`
	Test     string `json:"test"`
	Error    string `json:"error"`
	Case     Case   `json:"case"`
}

var (
	inflightF   *os.File
	inflightMax int
)

func inFlight(test string, c Case) {
	if inflightF == nil {
		f, err := os.OpenFile("inflight.json", os.O_CREATE|os.O_WRONLY|os.O_TRUNC, 0o644)
		if err != nil {
			stats.InFlight(test, c)
			return
		}
		inflightF, inflightMax = f, 0
	}
	b, err := json.Marshal(inflightFile{Property: "C05", Test: test, Error: "process died while deciding this case", Case: c})
	if err != nil {
		return
	}
	if len(b) < inflightMax {
		b = append(b, bytes.Repeat([]byte{' '}, inflightMax-len(b))...)
	}
	inflightMax = len(b)
	_, _ = inflightF.WriteAt(b, 0)
}

func inFlightDone() {
	noteHeadroom()
	if inflightF != nil {
		_ = inflightF.Close()
		inflightF = nil
	}
	stats.InFlightDone()
}

// ---------------------------------------------------------------- watchdog

// The per-call watchdog. A decoder call normally costs microseconds to milliseconds for
// inputs <= 64 KiB (the slowest legitimate shape found, a chain of nested WKB multi-line
// strings re-scanned quadratically, needs ~3 s at 63 KiB and is not generated at that size).
// The machine is shared and can be overloaded tenfold, so wall time alone is not a sound
// criterion (a 10 s wall limit fired once on an EMPTY input at load average 150): the
// watchdog fires when, while one and the same call is in flight, the process has consumed
// more than WatchdogCPUSeconds of CPU time (a spinning decoder accumulates it at whatever
// rate the machine grants) or WatchdogWallSeconds (15 min, a mere safety net for a decoder
// blocked without spinning) have passed. It writes nothing to disk: the in-flight file is already there; the line it
// prints matches the driver's fatal patterns; exit status 3.
const (
	WatchdogCPUSeconds  = 10
	WatchdogWallSeconds = 900
)

var wdSeq uint64 // odd while a call is in flight; changes with every call

func processCPU() time.Duration {
	var ru syscall.Rusage
	if syscall.Getrusage(syscall.RUSAGE_SELF, &ru) != nil {
		return 0
	}
	return time.Duration(ru.Utime.Nano() + ru.Stime.Nano())
}

func startWatchdog() {
	go func() {
		var (
			last  uint64
			cpu0  time.Duration
			wall0 time.Time
		)
		for {
			time.Sleep(250 * time.Millisecond)
			s := atomic.LoadUint64(&wdSeq)
			if s%2 == 0 {
				last = 0
				continue
			}
			if s != last {
				last, cpu0, wall0 = s, processCPU(), time.Now()
				continue
			}
			cpu, wall := processCPU()-cpu0, time.Since(wall0)
			if cpu > WatchdogCPUSeconds*time.Second || wall > WatchdogWallSeconds*time.Second {
				if atomic.LoadUint64(&wdSeq) != s {
					continue
				}
				fmt.Fprintf(os.Stderr, "fatal error: C05 watchdog: one decode call did not return after %.1f s of CPU time / %.1f s wall\n", cpu.Seconds(), wall.Seconds())
				os.Exit(3)
			}
		}
	}()
}

func arm()    { atomic.AddUint64(&wdSeq, 1) }
func disarm() { atomic.AddUint64(&wdSeq, 1) }

// ---------------------------------------------------------------- allocation bound

// limit is the allocation bound of one target: A*len + Q*len^2 + E*expanded + B bytes
// (expanded = length of the harness's own gzip expansion, UnmarshalGzipped only).
type limit struct {
	A uint64  // bytes per input byte
	Q float64 // bytes per squared input byte (0 = the target is linear on the unchanged tree)
	E uint64  // bytes per expanded byte
	B uint64  // fixed cap
}

// The per-target table is in limits_test.go (measured, see the comment there).

func limitOf(t *target) limit {
	l, ok := targetLimits[t.name]
	if !ok {
		panic("no allocation limit for target " + t.name)
	}
	return l
}

func init() {
	for i := range allTargets {
		limitOf(&allTargets[i])
	}
}

func (l limit) formula() string {
	f := fmt.Sprintf("%d*len", l.A)
	if l.Q != 0 {
		f += fmt.Sprintf(" + %g*len^2", l.Q)
	}
	if l.E != 0 {
		f += fmt.Sprintf(" + %d*expanded", l.E)
	}
	return f + fmt.Sprintf(" + %d", l.B)
}

// bound without the expanded term.
func (l limit) bound(n uint64) uint64 {
	b := l.A*n + l.B
	if l.Q != 0 {
		b += uint64(l.Q * float64(n) * float64(n))
	}
	return b
}

var msA, msB runtime.MemStats

// Screening: runtime.ReadMemStats stops the world (10 us here, 70 calls per WKB case), so
// every call is first observed with runtime/metrics "/gc/heap/allocs:bytes" (0.5 us, no
// stop). That counter is exact for objects > 32 KiB (every pre-allocation that matters) and
// lags for smaller objects by the unfilled part of the current span of each size class
// (measured <= 50 KiB, theoretical maximum < 2 MiB). A call is measured exactly (ReadMemStats
// around a re-run, minimum of three) when the screen exceeds bound - screenSlack, and every
// exactEvery-th call is measured exactly regardless.
const (
	screenSlack = 256 << 10
	exactEvery  = 32
)

var (
	allocSample = []metrics.Sample{{Name: "/gc/heap/allocs:bytes"}}
	callSeq     uint64
	// headroom: per target the largest screened allocation as a fraction of its bound
	// (in 1/1000), with the input length it was seen on; reported as evidence notes.
	headroom = map[string][2]uint64{}
)

func noteHeadroom() {
	// one note per codec family: the five targets that came closest to their bound
	type hr struct {
		name string
		pm   uint64
		n    uint64
	}
	by := map[string][]hr{}
	for i := range allTargets {
		t := &allTargets[i]
		if h, ok := headroom[t.name]; ok {
			by[t.family] = append(by[t.family], hr{t.name, h[0], h[1]})
		}
	}
	for fam, hs := range by {
		sort.Slice(hs, func(i, j int) bool { return hs[i].pm > hs[j].pm || hs[i].pm == hs[j].pm && hs[i].name < hs[j].name })
		if len(hs) > 5 {
			hs = hs[:5]
		}
		var parts []string
		for _, h := range hs {
			parts = append(parts, fmt.Sprintf("%s %d permille at %d bytes", h.name, h.pm, h.n))
		}
		stats.Note("alloc_closest_to_bound:"+fam, strings.Join(parts, "; "))
	}
	calibDump()
}

func allocNow() uint64 {
	metrics.Read(allocSample)
	if allocSample[0].Value.Kind() != metrics.KindUint64 {
		return 0
	}
	return allocSample[0].Value.Uint64()
}

// privateCopy gives every call its own copy of the input with 16 bytes of spare capacity
// filled with a sentinel; inputIntact checks after the call that the decoder has treated its
// argument's VALUE (the bytes within len) as read-only (round L4); a write into the spare capacity
// is only counted (layout note). The exception are the SQL scanners, which hex-decode text input in
// place (flagged inPlaceHex, counted): the driver owns that memory.
func privateCopy(data []byte) []byte {
	buf := make([]byte, len(data), len(data)+16)
	copy(buf, data)
	spare := buf[len(data):cap(buf)]
	for i := range spare {
		spare[i] = 0xA5
	}
	return buf
}

func looksHex(d []byte) bool {
	return len(d) >= 2 && (d[0] == '\\' && d[1] == 'x' || d[0] == '0' && (d[1] == '0' || d[1] == '1'))
}

func inputIntact(t *target, data, buf []byte) string {
	for _, x := range buf[len(data):cap(buf)] {
		if x != 0xA5 {
			// a write into the spare capacity changes no value the caller can reach: a layout note, not a failure
			stats.Class("layout-note:spare-capacity-of-input-written:" + t.name)
			break
		}
	}
	if !bytes.Equal(buf[:len(data)], data) {
		if t.inPlaceHex && (looksHex(data) || len(data) >= 6 && looksHex(data[4:])) {
			stats.Class("layout-note:scanner-hex-decoded-in-place")
			return ""
		}
		return "the decoder modified its input bytes"
	}
	return ""
}

// callScreened runs one target under the panic guard and the watchdog and returns the
// screened allocation delta.
func callScreened(t *target, data []byte) (res result, alloc uint64, err error) {
	buf := privateCopy(data)
	a := allocNow()
	arm()
	err = stats.Guard(func() error { res = t.run(buf[: len(data) : len(data)+16]); return nil })
	disarm()
	alloc = allocNow() - a
	if err == nil && res.extra == "" {
		res.extra = inputIntact(t, data, buf)
	}
	return res, alloc, err
}

// ---------------------------------------------------------------- targets

// result is what a target reports back to the oracle.
type result struct {
	hasValue bool         // a non-zero value came back
	err      error        // the error that came back
	geom     orb.Geometry // for WKB targets: the decoded geometry (stability check)
	srid     int
	ewkb     bool
	extra    string // a contract breach detected inside the target wrapper
	stream   bool   // a stream target: "values, then the terminating error" is the normal outcome
}

type target struct {
	name       string
	family     string
	group      string // key into limits
	run        func(data []byte) result
	inPlaceHex bool // SQL scanners hex-decode text input in place
	// skip reports that the input belongs to the family of a known finding for this target.
	skip func(data []byte) string
}

var scanDests = []string{"nil", "Point", "MultiPoint", "LineString", "MultiLineString", "Ring", "Polygon", "MultiPolygon", "Collection", "Bound"}

func newDest(kind string) interface{} {
	switch kind {
	case "Point":
		return &orb.Point{}
	case "MultiPoint":
		return &orb.MultiPoint{}
	case "LineString":
		return &orb.LineString{}
	case "MultiLineString":
		return &orb.MultiLineString{}
	case "Ring":
		return &orb.Ring{}
	case "Polygon":
		return &orb.Polygon{}
	case "MultiPolygon":
		return &orb.MultiPolygon{}
	case "Collection":
		return &orb.Collection{}
	case "Bound":
		return &orb.Bound{}
	}
	return nil
}

// streamAll decodes until the first error; every successful Decode of a
// bytes.Reader consumes at least 5 bytes, so len/5+2 iterations without an
// error mean the decoder makes no progress.
func streamAll(n int, next func() (orb.Geometry, int, error)) result {
	r := result{stream: true}
	for i := 0; ; i++ {
		g, srid, err := next()
		if err != nil {
			if g != nil {
				r.extra = fmt.Sprintf("stream Decode returned both a %T and the error %v", g, err)
			}
			r.err = err
			return r
		}
		if g == nil {
			r.extra = "stream Decode returned neither a value nor an error"
			return r
		}
		if !r.hasValue {
			r.hasValue, r.geom, r.srid = true, g, srid
		}
		if i > n/5+2 {
			r.extra = fmt.Sprintf("stream Decode succeeded %d times on %d bytes: no progress", i+1, n)
			return r
		}
	}
}

func geomResult(g orb.Geometry, srid int, err error, isE bool) result {
	r := result{err: err, ewkb: isE}
	if g != nil {
		r.hasValue, r.geom, r.srid = true, g, srid
	}
	if err != nil && srid != 0 {
		r.extra = fmt.Sprintf("error %v came with srid %d", err, srid)
	}
	return r
}

func isZero(v interface{}) bool {
	switch x := v.(type) {
	case orb.Point:
		return x == orb.Point{}
	case orb.MultiPoint:
		return x == nil
	case orb.LineString:
		return x == nil
	case orb.MultiLineString:
		return x == nil
	case orb.Polygon:
		return x == nil
	case orb.MultiPolygon:
		return x == nil
	case orb.Collection:
		return x == nil
	}
	return v == nil
}

func buildTargets() []target {
	var ts []target
	add := func(name, family, group string, run func([]byte) result) {
		ts = append(ts, target{name: name, family: family, group: group, run: run})
	}

	// --- WKB / EWKB
	add("wkb.Unmarshal", "wkb", "wkb-bytes", func(d []byte) result {
		g, err := wkb.Unmarshal(d)
		return geomResult(g, 0, err, false)
	})
	add("ewkb.Unmarshal", "wkb", "wkb-bytes", func(d []byte) result {
		g, srid, err := ewkb.Unmarshal(d)
		return geomResult(g, srid, err, true)
	})
	add("wkb.NewDecoder.Decode*", "wkb", "wkb-stream", func(d []byte) result {
		dec := wkb.NewDecoder(bytes.NewReader(d))
		return streamAll(len(d), func() (orb.Geometry, int, error) { g, err := dec.Decode(); return g, 0, err })
	})
	add("ewkb.NewDecoder.Decode*", "wkb", "wkb-stream", func(d []byte) result {
		dec := ewkb.NewDecoder(bytes.NewReader(d))
		r := streamAll(len(d), func() (orb.Geometry, int, error) { return dec.Decode() })
		r.ewkb = true
		return r
	})
	for _, k := range scanDests {
		kind := k
		add("wkb.Scanner("+kind+").Scan", "wkb", "wkb-bytes", func(d []byte) result {
			s := wkb.Scanner(newDest(kind))
			err := s.Scan(d)
			r := result{err: err, hasValue: s.Geometry != nil}
			if err != nil && s.Valid {
				r.extra = "scanner is Valid although Scan returned " + err.Error()
			}
			if err == nil && !s.Valid {
				r.extra = "Scan returned nil for non-nil data but the scanner is not Valid"
			}
			return r
		})
		add("ewkb.Scanner("+kind+").Scan", "wkb", "wkb-bytes", func(d []byte) result {
			s := ewkb.Scanner(newDest(kind))
			err := s.Scan(d)
			r := result{err: err, hasValue: s.Geometry != nil}
			if err != nil && s.Valid {
				r.extra = "scanner is Valid although Scan returned " + err.Error()
			}
			if err == nil && !s.Valid {
				r.extra = "Scan returned nil for non-nil data but the scanner is not Valid"
			}
			return r
		})
		add("ewkb.ScannerPrefixSRID("+kind+").Scan", "wkb", "wkb-bytes", func(d []byte) result {
			s := ewkb.ScannerPrefixSRID(newDest(kind))
			err := s.Scan(d)
			r := result{err: err, hasValue: s.Geometry != nil}
			if err != nil && s.Valid {
				r.extra = "scanner is Valid although Scan returned " + err.Error()
			}
			if err == nil && !s.Valid {
				r.extra = "Scan returned nil for non-nil data but the scanner is not Valid"
			}
			return r
		})
	}

	// --- WKT
	wktT := func(name string, f func(string) (interface{}, error)) {
		add(name, "wkt", "wkt", func(d []byte) result {
			v, err := f(string(d))
			r := result{err: err, hasValue: err == nil}
			if err != nil && !isZero(v) {
				r.extra = fmt.Sprintf("returned the non-zero value %v together with the error %v", v, err)
			}
			if err == nil && v == nil {
				r.extra = "returned a nil geometry and a nil error"
			}
			return r
		})
	}
	wktT("wkt.Unmarshal", func(s string) (interface{}, error) {
		g, err := wkt.Unmarshal(s)
		if g == nil {
			return nil, err
		}
		if err != nil {
			return g, err // isZero(non-nil interface) decides
		}
		return g, nil
	})
	wktT("wkt.UnmarshalPoint", func(s string) (interface{}, error) { v, err := wkt.UnmarshalPoint(s); return v, err })
	wktT("wkt.UnmarshalMultiPoint", func(s string) (interface{}, error) { v, err := wkt.UnmarshalMultiPoint(s); return v, err })
	wktT("wkt.UnmarshalLineString", func(s string) (interface{}, error) { v, err := wkt.UnmarshalLineString(s); return v, err })
	wktT("wkt.UnmarshalMultiLineString", func(s string) (interface{}, error) { v, err := wkt.UnmarshalMultiLineString(s); return v, err })
	wktT("wkt.UnmarshalPolygon", func(s string) (interface{}, error) { v, err := wkt.UnmarshalPolygon(s); return v, err })
	wktT("wkt.UnmarshalMultiPolygon", func(s string) (interface{}, error) { v, err := wkt.UnmarshalMultiPolygon(s); return v, err })
	wktT("wkt.UnmarshalCollection", func(s string) (interface{}, error) { v, err := wkt.UnmarshalCollection(s); return v, err })

	// --- GeoJSON (JSON)
	add("geojson.UnmarshalGeometry", "geojson", "json", func(d []byte) result {
		g, err := geojson.UnmarshalGeometry(d)
		return result{err: err, hasValue: g != nil}
	})
	add("geojson.UnmarshalFeature", "geojson", "json", func(d []byte) result {
		f, err := geojson.UnmarshalFeature(d)
		return result{err: err, hasValue: f != nil}
	})
	add("geojson.UnmarshalFeatureCollection", "geojson", "json", func(d []byte) result {
		fc, err := geojson.UnmarshalFeatureCollection(d)
		return result{err: err, hasValue: fc != nil}
	})
	// json.Unmarshal into a value: "value" is the destination, only the error matters.
	jsonInto := func(name string, mk func() interface{}) {
		add("json.Unmarshal("+name+")", "geojson", "json", func(d []byte) result {
			err := json.Unmarshal(d, mk())
			return result{err: err, hasValue: err == nil}
		})
	}
	jsonInto("*geojson.Point", func() interface{} { return &geojson.Point{} })
	jsonInto("*geojson.MultiPoint", func() interface{} { return &geojson.MultiPoint{} })
	jsonInto("*geojson.LineString", func() interface{} { return &geojson.LineString{} })
	jsonInto("*geojson.MultiLineString", func() interface{} { return &geojson.MultiLineString{} })
	jsonInto("*geojson.Polygon", func() interface{} { return &geojson.Polygon{} })
	jsonInto("*geojson.MultiPolygon", func() interface{} { return &geojson.MultiPolygon{} })

	// --- GeoJSON (BSON): orb's own UnmarshalBSON methods (bson.Unmarshal(data, &x) is the
	// driver's front door: it copies the top-level document before orb sees a byte)
	bsonInto := func(name string, f func(d []byte) error) {
		skip := knownBSONLength
		ts = append(ts, target{name: "(" + name + ").UnmarshalBSON", family: "bson", group: "bson",
			run: func(d []byte) result {
				err := f(d)
				return result{err: err, hasValue: err == nil}
			},
			skip: skip,
		})
	}
	bsonInto("*geojson.Geometry", func(d []byte) error { return (&geojson.Geometry{}).UnmarshalBSON(d) })
	bsonInto("*geojson.Feature", func(d []byte) error { return (&geojson.Feature{}).UnmarshalBSON(d) })
	bsonInto("*geojson.FeatureCollection", func(d []byte) error { return (&geojson.FeatureCollection{}).UnmarshalBSON(d) })
	bsonInto("*geojson.Point", func(d []byte) error { return (&geojson.Point{}).UnmarshalBSON(d) })
	bsonInto("*geojson.MultiPoint", func(d []byte) error { return (&geojson.MultiPoint{}).UnmarshalBSON(d) })
	bsonInto("*geojson.LineString", func(d []byte) error { return (&geojson.LineString{}).UnmarshalBSON(d) })
	bsonInto("*geojson.MultiLineString", func(d []byte) error { return (&geojson.MultiLineString{}).UnmarshalBSON(d) })
	bsonInto("*geojson.Polygon", func(d []byte) error { return (&geojson.Polygon{}).UnmarshalBSON(d) })
	bsonInto("*geojson.MultiPolygon", func(d []byte) error { return (&geojson.MultiPolygon{}).UnmarshalBSON(d) })

	// --- MVT
	ts = append(ts, target{name: "mvt.Unmarshal", family: "mvt", group: "mvt",
		run: func(d []byte) result {
			ls, err := mvt.Unmarshal(d)
			// an empty tile is a value: (nil layers, nil error) is legitimate
			r := result{err: err, hasValue: err == nil}
			if err != nil && ls != nil {
				r.extra = fmt.Sprintf("mvt.Unmarshal returned %d layers together with the error %v", len(ls), err)
			}
			return r
		},
	})
	ts = append(ts, target{name: "mvt.UnmarshalGzipped", family: "mvt", group: "mvt-gz",
		run: func(d []byte) result {
			ls, err := mvt.UnmarshalGzipped(d)
			r := result{err: err, hasValue: err == nil}
			if err != nil && ls != nil {
				r.extra = fmt.Sprintf("mvt.UnmarshalGzipped returned %d layers together with the error %v", len(ls), err)
			}
			return r
		},
	})
	return ts
}

var allTargets = func() []target {
	ts := buildTargets()
	for i := range ts {
		ts[i].inPlaceHex = strings.Contains(ts[i].name, "Scanner")
	}
	return ts
}()

func targetsOf(family string) []target {
	var out []target
	for _, t := range allTargets {
		if t.family == family {
			out = append(out, t)
		}
	}
	return out
}

var familyTargets = map[string][]target{
	"wkb": targetsOf("wkb"), "wkt": targetsOf("wkt"), "geojson": targetsOf("geojson"),
	"bson": targetsOf("bson"), "mvt": targetsOf("mvt"),
}

// gunzipCap bounds the harness's own decompression (used only to size the
// allocation bound of UnmarshalGzipped and to apply the known-finding filter).
const gunzipCap = 96 << 20

// gunzip is the harness's own decompression; it returns whatever could be
// expanded (like ioutil.ReadAll does) and whether the stream was complete.
func gunzip(d []byte) ([]byte, bool) {
	zr, err := gzip.NewReader(bytes.NewReader(d))
	if err != nil {
		return nil, false
	}
	var out bytes.Buffer
	_, err = io.Copy(&out, io.LimitReader(zr, gunzipCap))
	return out.Bytes(), err == nil
}

// ---------------------------------------------------------------- oracle

// callMeasured runs one target under the panic guard and the watchdog and
// returns the TotalAlloc delta of the call.
func callMeasured(t *target, data []byte) (res result, alloc uint64, err error) {
	buf := append(make([]byte, 0, len(data)), data...) // scanners hex-decode in place: every call gets its own copy
	runtime.ReadMemStats(&msA)
	arm()
	err = stats.Guard(func() error { res = t.run(buf); return nil })
	disarm()
	runtime.ReadMemStats(&msB)
	return res, msB.TotalAlloc - msA.TotalAlloc, err
}

// callPlain is callMeasured without the two ReadMemStats (sampled enumerations).
func callPlain(t *target, data []byte) (res result, err error) {
	buf := privateCopy(data)
	arm()
	err = stats.Guard(func() error { res = t.run(buf[: len(data) : len(data)+16]); return nil })
	disarm()
	if err == nil && res.extra == "" {
		res.extra = inputIntact(t, data, buf)
	}
	return res, err
}

// allocBound: the expanded length (own decompression) is only computed when the cheap part
// of the bound does not already cover the observed allocation.
func allocBound(t *target, data []byte, observed uint64) uint64 {
	l := limitOf(t)
	n := uint64(len(data))
	if n > MaxInput {
		// size ladder: structured flat inputs, judged with the linear part only
		l.Q = 0
	}
	b := l.bound(n)
	if l.E != 0 && (observed+screenSlack > b || 2*observed > b) {
		b += l.E * expandedLen(data)
	}
	return b
}

// expandedLen: what ONE deflate layer can expand to. The harness's own decompression of the
// outermost gzip layer, capped by the format's limit of 1032 output bytes per input byte (+ 64 KiB):
// the allocation bound of the gzip entry point is therefore at most
// A*len + E*(1032*len + 64 KiB) + 1 MiB whatever the stream contains (nested gzip layers included).
func expandedLen(data []byte) uint64 {
	exp, _ := gunzip(data)
	e := uint64(len(exp))
	if lim := 1032*uint64(len(data)) + 64<<10; e > lim {
		e = lim
	}
	return e
}

func short(data []byte) string {
	if len(data) <= 48 {
		return hex.EncodeToString(data)
	}
	return fmt.Sprintf("%s…(%d bytes)", hex.EncodeToString(data[:48]), len(data))
}

// noExclude (C05_NO_EXCLUDE=1) switches the known-family filters off: used to try a candidate
// repair of a known finding in a scratch worktree against the full input family.
var noExclude = os.Getenv("C05_NO_EXCLUDE") == "1"

// opts of one evaluation.
type evalOpts struct {
	measure bool // apply the allocation bound to every call (else only the rest of the oracle)
	noSkip  bool // do not apply the known-family filters (witness tests, replay of witnesses)
	deep    bool // calibration only: the input has a shape on which the unchanged tree is quadratic (isQuad)
}

// outcome summarises a case for the non-trivial rule.
type outcome struct {
	values, errors, skipped int
	skipWhy                 []string // key of the known finding behind every skipped call
}

func checkData(family string, data []byte, o evalOpts) (outcome, error) {
	var out outcome
	ts := familyTargets[family]
	if ts == nil {
		return out, fmt.Errorf("unknown family %q", family)
	}
	for i := range ts {
		t := &ts[i]
		if t.skip != nil && !o.noSkip && !noExclude {
			if why := t.skip(data); why != "" {
				out.skipped++
				out.skipWhy = append(out.skipWhy, why)
				continue
			}
		}
		var (
			res   result
			alloc uint64
			err   error
		)
		if o.measure {
			res, alloc, err = callScreened(t, data)
		} else {
			res, err = callPlain(t, data)
		}
		if err != nil {
			return out, fmt.Errorf("%s(%s): %v", t.name, short(data), err)
		}
		if res.extra != "" {
			return out, fmt.Errorf("%s(%s): %s", t.name, short(data), res.extra)
		}
		if res.err != nil && res.hasValue && !res.stream {
			return out, fmt.Errorf("%s(%s): returned a value together with the error %q", t.name, short(data), res.err)
		}
		if res.err == nil && !res.hasValue {
			return out, fmt.Errorf("%s(%s): returned neither a value nor an error", t.name, short(data))
		}
		if res.err != nil {
			out.errors++
		} else {
			out.values++
		}
		if o.measure && calibOn {
			calibRecord(t, data, alloc, o.deep)
		} else if o.measure {
			callSeq++
			bound := allocBound(t, data, alloc)
			if pm := alloc * 1000 / bound; pm > headroom[t.name][0] && pm <= 1000 {
				headroom[t.name] = [2]uint64{pm, uint64(len(data))}
			}
			if alloc+screenSlack > bound || callSeq%exactEvery == 0 {
				// exact: TotalAlloc delta around a re-run; the minimum of three counts, so that
				// background allocation (timers, the test framework) cannot raise an alarm.
				min := ^uint64(0)
				for k := 0; k < 3; k++ {
					_, a2, _ := callMeasured(t, data)
					if a2 < min {
						min = a2
					}
					if min <= bound {
						break
					}
				}
				if min > bound {
					l := limitOf(t)
					if len(data) > MaxInput {
						l.Q = 0 // size ladder: linear part only
					}
					return out, fmt.Errorf("%s(%s): allocated %d bytes for a %d-byte input; bound %s = %d",
						t.name, short(data), min, len(data), l.formula(), bound)
				}
			}
		}
		if res.geom != nil {
			if err := stats.Guard(func() error { return wkbStable(res.geom, res.srid, res.ewkb) }); err != nil {
				return out, fmt.Errorf("%s(%s): %v", t.name, short(data), err)
			}
		}
	}
	return out, nil
}

// wkbStable: a geometry that came out of a (E)WKB decoder re-encodes to bytes
// that decode to the bit-identical geometry (and SRID) and re-encode to the same bytes.
func wkbStable(g orb.Geometry, srid int, isE bool) error {
	var (
		b1, b2 []byte
		g2     orb.Geometry
		s2     int
		err    error
	)
	if isE {
		b1, err = ewkb.Marshal(g, srid)
	} else {
		b1, err = wkb.Marshal(g)
	}
	if err != nil {
		return fmt.Errorf("stability: decoded %T does not marshal: %v", g, err)
	}
	if isE {
		g2, s2, err = ewkb.Unmarshal(b1)
	} else {
		g2, err = wkb.Unmarshal(b1)
	}
	if err != nil {
		return fmt.Errorf("stability: re-encoded %T (%s) does not decode: %v", g, short(b1), err)
	}
	if ok, why := gen.SameBits(g, g2); !ok {
		return fmt.Errorf("stability: decode(encode(g)) differs from g: %s", why)
	}
	if isE && s2 != srid {
		return fmt.Errorf("stability: srid %d became %d", srid, s2)
	}
	if isE {
		b2, err = ewkb.Marshal(g2, s2)
	} else {
		b2, err = wkb.Marshal(g2)
	}
	if err != nil || !bytes.Equal(b1, b2) {
		return fmt.Errorf("stability: second encoding differs from the first (%v)", err)
	}
	return nil
}

// checkCase is the pure oracle used by replay: all checks, allocation measured.
func checkCase(c Case) error {
	data, err := c.data()
	if err != nil {
		return fmt.Errorf("bad case: %v", err)
	}
	_, err = checkData(c.Family, data, evalOpts{measure: true, noSkip: c.NoSkip})
	return err
}

// ---------------------------------------------------------------- non-trivial rule

// pastDispatch is the harness's own reading of the header: does the input get
// past the decoder's header / dispatch stage? (DESIGN §4 C05 "non-trivial").
func pastDispatch(family string, data []byte) bool {
	switch family {
	case "wkb":
		d := data
		// the scanners also take hex text and a 4-byte SRID prefix
		if len(d) >= 2 && d[0] == '\\' && d[1] == 'x' {
			d = d[2:]
		}
		if len(d) >= 10 && d[0] == '0' && (d[1] == '0' || d[1] == '1') {
			if h, err := hex.DecodeString(strings.ToLower(string(d[:10]))); err == nil {
				d = append(h, 0, 0, 0, 0)
			}
		}
		for _, off := range []int{0, 4} {
			if len(d) >= off+9 && d[off] <= 1 {
				var typ uint32
				if d[off] == 1 {
					typ = uint32(d[off+1]) | uint32(d[off+2])<<8 | uint32(d[off+3])<<16 | uint32(d[off+4])<<24
				} else {
					typ = uint32(d[off+4]) | uint32(d[off+3])<<8 | uint32(d[off+2])<<16 | uint32(d[off+1])<<24
				}
				if k := typ & 0x0f; k >= 1 && k <= 7 {
					return true
				}
			}
		}
		return false
	case "wkt":
		s := strings.ToUpper(strings.TrimLeft(string(data), " \t\n"))
		for _, kw := range []string{"POINT", "LINESTRING", "POLYGON", "MULTIPOINT", "MULTILINESTRING", "MULTIPOLYGON", "GEOMETRYCOLLECTION"} {
			if strings.HasPrefix(s, kw) && len(s) > len(kw) {
				return true
			}
		}
		return false
	case "geojson":
		var m map[string]json.RawMessage
		if json.Unmarshal(data, &m) != nil {
			return false
		}
		var typ string
		if json.Unmarshal(m["type"], &typ) != nil {
			return false
		}
		return knownType[typ]
	case "bson":
		return bsonPastDispatch(data)
	case "mvt":
		if hasLayer(data) {
			return true
		}
		if exp, _ := gunzip(data); len(exp) > 0 {
			return hasLayer(exp)
		}
		return false
	}
	return false
}

// bsonPastDispatch: a structurally valid document with a known "type" string. bsoncore's
// Validate indexes d[length-1] and panics for a length field of 0, hence the guard and the recover.
func bsonPastDispatch(data []byte) (ok bool) {
	defer func() {
		if recover() != nil {
			ok = false
		}
	}()
	if len(data) < 5 || int32(binary.LittleEndian.Uint32(data)) < 5 {
		return false
	}
	raw := bson.Raw(data)
	if raw.Validate() != nil {
		return false
	}
	typ, isStr := raw.Lookup("type").StringValueOK()
	return isStr && knownType[typ]
}

var knownType = map[string]bool{"Point": true, "MultiPoint": true, "LineString": true, "MultiLineString": true,
	"Polygon": true, "MultiPolygon": true, "GeometryCollection": true, "Feature": true, "FeatureCollection": true}

// uvarint reads a protobuf varint (at most 10 bytes) at p.
func uvarint(d []byte, p int) (uint64, int, bool) {
	var v uint64
	for i := 0; i < 10; i++ {
		if p+i >= len(d) {
			return 0, 0, false
		}
		b := d[p+i]
		v |= uint64(b&0x7f) << (7 * uint(i))
		if b < 0x80 {
			return v, p + i + 1, true
		}
	}
	return 0, 0, false
}

// hasLayer: the tile's top level contains a complete length-delimited field 3
// with a non-empty body (the harness's own protobuf walk).
func hasLayer(d []byte) bool {
	p := 0
	for p < len(d) {
		tag, q, ok := uvarint(d, p)
		if !ok {
			return false
		}
		p = q
		switch tag & 7 {
		case 0:
			if _, q, ok = uvarint(d, p); !ok {
				return false
			}
			p = q
		case 1:
			p += 8
		case 5:
			p += 4
		case 2:
			l, q, ok := uvarint(d, p)
			if !ok || l > uint64(len(d)-q) {
				return false
			}
			if tag>>3 == 3 && l > 0 {
				return true
			}
			p = q + int(l)
		default:
			return false
		}
	}
	return false
}

// ---------------------------------------------------------------- known findings (input families)

// Keys of the known findings this package handles (see TestKnown… in known_test.go).
const keyBSONLength = "bson-driver-length-overflow"

// knownBSONLength: go.mongodb.org/mongo-driver v1.11.4 (the version orb pins) does not
// reject int32 length fields that are negative or so large that length+4 overflows: skipping
// such a value moves the read offset backwards (endless loop in every UnmarshalBSON of orb)
// or below zero (index panic), copying it slices out of range (panic). The family is
// over-approximated by a pattern that does not depend on how the driver walks the document:
// the top-level length has its top byte >= 0x7f, or somewhere a byte that can be the type of
// a length-prefixed element (string, document, array, binary, DBPointer, code, symbol, code
// with scope) is followed by a NUL-terminated key and an int32 whose top byte is >= 0x7f (for
// binary and code-with-scope also the inner length).
func knownBSONLength(d []byte) string {
	const key = keyBSONLength
	if len(d) >= 4 && d[3] >= 0x7f {
		return key
	}
	// next[i] = index of the first NUL at or after i
	next := make([]int, len(d)+1)
	next[len(d)] = len(d)
	for i := len(d) - 1; i >= 0; i-- {
		if d[i] == 0 {
			next[i] = i
		} else {
			next[i] = next[i+1]
		}
	}
	for i := 0; i+1 < len(d); i++ {
		switch d[i] {
		case 0x02, 0x03, 0x04, 0x05, 0x0C, 0x0D, 0x0E, 0x0F:
		default:
			continue
		}
		j := next[i+1] // end of the key
		if j+4 < len(d) && d[j+4] >= 0x7f {
			return key
		}
		if (d[i] == 0x0F || d[i] == 0x05) && ((j+8 < len(d) && d[j+8] >= 0x7f) || (j+9 < len(d) && d[j+9] >= 0x7f)) {
			return key
		}
	}
	return ""
}

// ---------------------------------------------------------------- replay

func TestReplay(t *testing.T) {
	_, raw, ok := stats.Replaying()
	if !ok {
		t.Skip("no replay file")
	}
	var c Case
	if err := json.Unmarshal(raw, &c); err != nil {
		t.Fatal(err)
	}
	inFlight("TestReplay", c)
	err := stats.Guard(func() error { return checkCase(c) })
	inFlightDone()
	if err != nil {
		t.Fatalf("replayed case still fails: %v", err)
	}
}
