package c05

// Native coverage-guided fuzz targets (thorough tier, run by the driver) and the
// generator of their committed seed corpus.

import (
	"encoding/binary"
	"encoding/json"
	"fmt"
	"os"
	"path/filepath"
	"strconv"
	"testing"

	"github.com/paulmach/orb"
	"github.com/paulmach/orb/encoding/ewkb"
	"github.com/paulmach/orb/encoding/wkb"
	"github.com/paulmach/orb/encoding/wkt"
	"github.com/paulmach/orb/geojson"
)

func fuzzOne(t *testing.T, families []string, data []byte) {
	if len(data) > MaxInput {
		t.Skip("longer than the explored domain")
	}
	for _, fam := range families {
		if _, err := checkData(fam, data, evalOpts{measure: true}); err != nil {
			t.Fatal(err)
		}
	}
}

func FuzzWKB(f *testing.F) {
	f.Fuzz(func(t *testing.T, data []byte) { fuzzOne(t, fuzzFamilies["FuzzWKB"], data) })
}

func FuzzWKT(f *testing.F) {
	f.Fuzz(func(t *testing.T, s string) { fuzzOne(t, fuzzFamilies["FuzzWKT"], []byte(s)) })
}

func FuzzGeoJSON(f *testing.F) {
	f.Fuzz(func(t *testing.T, data []byte) { fuzzOne(t, fuzzFamilies["FuzzGeoJSON"], data) })
}

func FuzzMVT(f *testing.F) {
	f.Fuzz(func(t *testing.T, data []byte) { fuzzOne(t, fuzzFamilies["FuzzMVT"], data) })
}

// seedGeometries is the fixed list of geometries whose valid encodings seed the corpora.
func seedGeometries() []orb.Geometry {
	ring := orb.Ring{{0, 0}, {4, 0}, {4, 4}, {0, 4}, {0, 0}}
	hole := orb.Ring{{1, 1}, {1, 2}, {2, 2}, {2, 1}, {1, 1}}
	return []orb.Geometry{
		orb.Point{1.5, -2},
		orb.MultiPoint{{1, 2}, {3, 4}},
		orb.MultiPoint{},
		orb.LineString{{0, 0}, {1, 1}, {2, 0}},
		orb.LineString{},
		orb.MultiLineString{{{0, 0}, {1, 1}}, {{2, 2}, {3, 3}, {4, 2}}},
		orb.Polygon{ring, hole},
		orb.Polygon{},
		orb.MultiPolygon{{ring}, {ring, hole}},
		orb.Collection{orb.Point{1, 2}, orb.LineString{{0, 0}, {1, 1}}, orb.Collection{orb.Polygon{ring}}},
		orb.Collection{},
		orb.Bound{Min: orb.Point{0, 0}, Max: orb.Point{2, 3}},
	}
}

// TestSelfWriteCorpus regenerates testdata/fuzz when VERIF_WRITE_CORPUS=1 (never during a check run).
func TestSelfWriteCorpus(t *testing.T) {
	if os.Getenv("VERIF_WRITE_CORPUS") != "1" {
		t.Skip("set VERIF_WRITE_CORPUS=1 to regenerate the committed seed corpus")
	}
	write := func(name string, i int, kind string, data []byte) {
		dir := filepath.Join(corpusDir(), name)
		if err := os.MkdirAll(dir, 0o755); err != nil {
			t.Fatal(err)
		}
		body := fmt.Sprintf("go test fuzz v1\n%s(%s)\n", kind, strconv.Quote(string(data)))
		if err := os.WriteFile(filepath.Join(dir, fmt.Sprintf("seed-%03d", i)), []byte(body), 0o644); err != nil {
			t.Fatal(err)
		}
	}
	for _, n := range []string{"FuzzWKB", "FuzzWKT", "FuzzGeoJSON", "FuzzMVT"} {
		_ = os.RemoveAll(filepath.Join(corpusDir(), n))
	}
	var nWKB, nWKT, nGJ, nMVT int
	for _, g := range seedGeometries() {
		b, _ := wkb.Marshal(g)
		write("FuzzWKB", nWKB, "[]byte", b)
		nWKB++
		b, _ = wkb.Marshal(g, binary.BigEndian)
		write("FuzzWKB", nWKB, "[]byte", b)
		nWKB++
		b, _ = ewkb.Marshal(g, 4326)
		write("FuzzWKB", nWKB, "[]byte", b)
		nWKB++
		write("FuzzWKB", nWKB, "[]byte", []byte(wkb.MustMarshalToHex(g)))
		nWKB++
		write("FuzzWKT", nWKT, "string", []byte(wkt.MarshalString(g)))
		nWKT++
		if jb, err := geojson.NewGeometry(g).MarshalJSON(); err == nil {
			write("FuzzGeoJSON", nGJ, "[]byte", jb)
			nGJ++
			var tree interface{}
			if json.Unmarshal(jb, &tree) == nil && tree != nil {
				bb, _ := toBSON(tree, false)
				write("FuzzGeoJSON", nGJ, "[]byte", bb)
				nGJ++
			}
		}
		f := geojson.NewFeature(g)
		f.ID = "a"
		f.Properties["k"] = []interface{}{1.0, "v", nil}
		if jb, err := f.MarshalJSON(); err == nil {
			write("FuzzGeoJSON", nGJ, "[]byte", jb)
			nGJ++
			var tree interface{}
			if json.Unmarshal(jb, &tree) == nil {
				bb, _ := toBSON(tree, true)
				write("FuzzGeoJSON", nGJ, "[]byte", bb)
				nGJ++
			}
			fc := `{"type":"FeatureCollection","bbox":[0,0,1,1],"features":[` + string(jb) + `],"extra":{"a":1}}`
			write("FuzzGeoJSON", nGJ, "[]byte", []byte(fc))
			nGJ++
			if json.Unmarshal([]byte(fc), &tree) == nil {
				bb, _ := toBSON(tree, false)
				write("FuzzGeoJSON", nGJ, "[]byte", bb)
				nGJ++
			}
		}
	}
	// hostile constants and the witnesses of the fixed findings
	for _, w := range witnesses() {
		if len(w.data) > 4096 {
			continue
		}
		switch w.family {
		case "wkb":
			write("FuzzWKB", nWKB, "[]byte", w.data)
			nWKB++
		case "wkt":
			write("FuzzWKT", nWKT, "string", w.data)
			nWKT++
		case "geojson", "bson":
			write("FuzzGeoJSON", nGJ, "[]byte", w.data)
			nGJ++
		case "mvt":
			write("FuzzMVT", nMVT, "[]byte", w.data)
			nMVT++
		}
	}
	// valid tiles from the harness's own writer
	tiles := seedTiles()
	for _, tl := range tiles {
		write("FuzzMVT", nMVT, "[]byte", tl)
		nMVT++
		write("FuzzMVT", nMVT, "[]byte", gz(tl))
		nMVT++
	}
	t.Logf("wrote %d WKB, %d WKT, %d GeoJSON/BSON, %d MVT seeds under %s", nWKB, nWKT, nGJ, nMVT, corpusDir())
}

// seedTiles builds three valid tiles with the harness's own protobuf writer.
func seedTiles() [][]byte {
	feature := func(id uint64, tags []uint32, typ uint32, geom []uint32) []byte {
		f := &pbW{}
		f.varintField(1, id)
		if tags != nil {
			f.bytesField(2, packed(tags))
		}
		f.varintField(3, uint64(typ))
		f.bytesField(4, packed(geom))
		return f.buf
	}
	layer := func(name string, feats [][]byte, keys []string, vals [][]byte) []byte {
		l := &pbW{}
		l.varintField(15, 2)
		l.bytesField(1, []byte(name))
		for _, f := range feats {
			l.bytesField(2, f)
		}
		for _, k := range keys {
			l.bytesField(3, []byte(k))
		}
		for _, v := range vals {
			l.bytesField(4, v)
		}
		l.varintField(5, 4096)
		t := &pbW{}
		t.bytesField(3, l.buf)
		return t.buf
	}
	sv := &pbW{}
	sv.bytesField(1, []byte("v"))
	iv := &pbW{}
	iv.varintField(4, 7)
	point := layer("pts", [][]byte{feature(1, []uint32{0, 0}, 1, []uint32{9, zz(5), zz(7)}), feature(2, nil, 1, []uint32{17, zz(1), zz(1), zz(2), zz(2)})}, []string{"k"}, [][]byte{sv.buf})
	line := layer("roads", [][]byte{feature(3, []uint32{0, 1}, 2, []uint32{9, zz(2), zz(2), 18, zz(2), zz(2), zz(3), zz(-1), 9, zz(5), zz(5), 10, zz(1), zz(1)})}, []string{"k"}, [][]byte{sv.buf, iv.buf})
	poly := layer("land", [][]byte{feature(4, nil, 3, []uint32{9, zz(0), zz(0), 26, zz(10), zz(0), zz(0), zz(10), zz(-10), zz(0), 15,
		9, zz(2), zz(-8), 26, zz(0), zz(4), zz(4), zz(0), zz(0), zz(-4), 15})}, nil, nil)
	return [][]byte{point, line, poly, append(append([]byte(nil), point...), line...)}
}
