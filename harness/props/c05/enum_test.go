package c05

// Exhaustive boundary spaces (DESIGN §4 C05, layer 1).

import (
	"bytes"
	"encoding/binary"
	"encoding/hex"
	"encoding/json"
	"fmt"
	"os"
	"path/filepath"
	"sort"
	"strconv"
	"strings"
	"testing"

	"verifharness/internal/stats"
)

type enumRun struct {
	t           *testing.T
	name        string
	family      string
	idx, size   int64
	measureEach int64 // allocation bound applied to every k-th case of this shard (1 = all) and to every input > 256 bytes
	mine        int64
	shard       int64
	shards      int64
}

func (e *enumRun) do(data []byte, how string) {
	e.idx++
	e.size++
	if e.shards == 0 {
		i, k := stats.Shard()
		e.shard, e.shards = int64(i), int64(k)
	}
	if e.idx%e.shards != e.shard { // = stats.Mine(e.idx), without two Getenv per case
		return
	}
	e.mine++
	measure := e.measureEach <= 1 || e.mine%e.measureEach == 0 || len(data) > 256
	c := newCase(e.family, data, how)
	stats.Eval(e.name, 1)
	inFlight(e.name, c)
	var out outcome
	stats.TryT(e.t, e.name, c, func() error {
		var err error
		out, err = checkData(e.family, data, evalOpts{measure: measure, deep: isQuad(e.family, how)})
		return err
	})
	for _, why := range out.skipWhy {
		stats.Excluded(why)
	}
	stats.ClassN(e.name+":calls:value", int64(out.values))
	stats.ClassN(e.name+":calls:error", int64(out.errors))
	if measure {
		stats.Class(e.name + ":alloc-measured")
	}
	if pastDispatch(e.family, data) {
		stats.Class(e.name + ":past-dispatch")
		stats.NonTrivial(c.key())
		if stats.WantSample(e.name) {
			stats.Sample(e.name, c)
		}
	}
}

// TestEnumMVTShort: every tile of 0, 1 and 2 bytes through mvt.Unmarshal and mvt.UnmarshalGzipped.
func TestEnumMVTShort(t *testing.T) {
	assumptions()
	defer inFlightDone()
	e := &enumRun{t: t, name: "TestEnumMVTShort", family: "mvt", measureEach: 1}
	e.do([]byte{}, "0 bytes")
	for a := 0; a < 256; a++ {
		e.do([]byte{byte(a)}, "1 byte")
	}
	for a := 0; a < 256; a++ {
		for b := 0; b < 256; b++ {
			e.do([]byte{byte(a), byte(b)}, "2 bytes")
		}
	}
	stats.Subspace("every 0-, 1- and 2-byte tile x {mvt.Unmarshal, mvt.UnmarshalGzipped}", e.size, true)
}

// TestEnumMVTCommands: every sequence of <= 6 geometry commands over a small alphabet of command
// tokens (header + its parameter list), as the geometry of a POLYGON and of a LINESTRING feature
// (<= 4 commands also as POINT and UNKNOWN), in a structurally valid tile; every 8th tile is also
// decoded in its gzipped form. One-point and zero-point rings therefore occur in every position
// (e.g. moveTo x1, lineTo x0, closePath, moveTo x1, lineTo x0, lineTo x0).
func TestEnumMVTCommands(t *testing.T) {
	assumptions()
	defer inFlightDone()
	e := &enumRun{t: t, name: "TestEnumMVTCommands", family: "mvt", measureEach: 1}
	type tok struct {
		name string
		hdr  uint32
		pts  int
	}
	toks := []tok{{"M1", 1<<3 | 1, 1}, {"L0", 0<<3 | 2, 0}, {"L2", 2<<3 | 2, 2}, {"C", 1<<3 | 7, 0}, {"U", 1<<3 | 0, 0}}
	if stats.Thorough() {
		toks = append(toks, tok{"M0", 0<<3 | 1, 0}, tok{"M2", 2<<3 | 1, 2}, tok{"L1", 1<<3 | 2, 1})
	}
	var n int64
	var rec func(g []uint32, step, left int)
	rec = func(g []uint32, step, left int) {
		used := 6 - left
		for _, typ := range []uint32{3, 2, 1, 0} {
			if typ < 2 && used > 4 {
				continue
			}
			d := mvtTileOf(mvtFeature(typ, g))
			e.do(d, "commands")
			n++
			if n%8 == 0 {
				e.do(gz(d), "commands,gzip")
			}
		}
		if left == 0 {
			return
		}
		for _, tk := range toks {
			ng := append(append([]uint32(nil), g...), tk.hdr)
			st := step
			for i := 0; i < tk.pts; i++ {
				dx, dy := mvtDelta(st)
				st++
				ng = append(ng, dx, dy)
			}
			rec(ng, st, left-1)
		}
	}
	rec(nil, 0, 6)
	stats.Subspace(fmt.Sprintf("MVT geometry command streams: every sequence of <= 6 commands over %d command tokens (moveTo x0/1/2, lineTo x0/1/2, closePath, an unknown id; quick: 5 of them) as POLYGON and LINESTRING geometry, <= 4 commands also as POINT and UNKNOWN; every 8th tile also gzipped", len(toks)), e.size, true)
}

// ---------------------------------------------------------------- WKB headers

var enumCounts = []uint32{0, 1, 2, 1<<28 - 1, 1 << 28, 1<<28 + 1, 1 << 31, 1<<32 - 1}

func enumTypeWords() []uint32 {
	var base []uint32
	for i := uint32(0); i <= 8; i++ {
		base = append(base, i)
	}
	for i := uint32(1001); i <= 1007; i++ {
		base = append(base, i)
	}
	out := append([]uint32(nil), base...)
	for _, b := range base {
		out = append(out, b|0x20000000)
	}
	return append(out, 0xFFFFFFFF)
}

// hdr renders byte-order byte, type word (+ SRID 4326 when the EWKB flag is set) and optionally a count.
func hdr(bo byte, typ uint32, count *uint32) []byte {
	var order binary.ByteOrder = binary.LittleEndian
	if bo == 0 {
		order = binary.BigEndian
	}
	b := []byte{bo, 0, 0, 0, 0}
	order.PutUint32(b[1:], typ)
	if typ&0x20000000 != 0 && typ != 0xFFFFFFFF {
		b = append(b, 0, 0, 0, 0)
		order.PutUint32(b[5:], 4326)
	}
	if count != nil {
		b = append(b, 0, 0, 0, 0)
		order.PutUint32(b[len(b)-4:], *count)
	}
	return b
}

// two points worth of coordinates (1.0), in both byte orders the same bit pattern is a valid float
var wkbTail = bytes.Repeat([]byte{0, 0, 0, 0, 0, 0, 0xf0, 0x3f}, 4)

func (e *enumRun) truncations(buf []byte, how string, all bool) {
	if all {
		for n := 0; n <= len(buf); n++ {
			e.do(buf[:n], how)
		}
		return
	}
	// structure boundaries only: header ends and the tail's point boundaries
	seen := map[int]bool{}
	for _, n := range []int{0, 1, 4, 5, 6, 8, 9, 10, 12, 13, 14, 17, 18, 19, 21, 22, 23, 26, 27, len(buf) - 33, len(buf) - 32, len(buf) - 17, len(buf) - 16, len(buf) - 1, len(buf)} {
		if n >= 0 && n <= len(buf) && !seen[n] {
			seen[n] = true
			e.do(buf[:n], how)
		}
	}
}

// TestEnumWKBHeaders: byte-order byte x type word x boundary element counts, at up to three nesting
// levels, x truncation points, through all 34 WKB/EWKB targets.
func TestEnumWKBHeaders(t *testing.T) {
	assumptions()
	defer inFlightDone()
	e := &enumRun{t: t, name: "TestEnumWKBHeaders", family: "wkb", measureEach: 1}
	types := enumTypeWords()

	// level 1: every header, every truncation point (header + two points of payload)
	for _, bo := range []byte{0, 1, 2, 0xFF} {
		for _, typ := range types {
			for _, c := range enumCounts {
				c := c
				buf := append(hdr(bo, typ, &c), wkbTail...)
				e.truncations(buf, "L1", true)
			}
		}
	}
	l1 := e.size
	stats.Subspace("WKB level 1: byte order {0,1,2,0xFF} x 33 type words x 8 counts x every truncation point, 34 targets", l1, true)

	// level 2: container header x inner header (or ring count) x truncation.
	// quick tier: a sub-grid (fewer member byte orders / types / container counts), truncated at structure boundaries.
	full := stats.Thorough()
	outerTypes := []uint32{3, 4, 5, 6, 7, 3 | 0x20000000, 4 | 0x20000000, 5 | 0x20000000, 6 | 0x20000000, 7 | 0x20000000}
	innerTypes := []uint32{1, 2, 3, 4, 5, 6, 7, 1 | 0x20000000, 2 | 0x20000000, 3 | 0x20000000, 5 | 0x20000000, 7 | 0x20000000, 0, 8, 0xFFFFFFFF}
	innerOrders := []byte{0, 1, 2}
	outerCounts := enumCounts
	if !full {
		innerTypes = []uint32{1, 2, 3, 4, 5, 6, 7, 2 | 0x20000000, 0xFFFFFFFF}
		innerOrders = []byte{0, 1}
		outerCounts = []uint32{1, 2, 1 << 28, 1<<32 - 1}
	}
	for _, obo := range []byte{0, 1} {
		for _, otyp := range outerTypes {
			for _, oc := range outerCounts {
				oc := oc
				outer := hdr(obo, otyp, &oc)
				if otyp&0xff == 3 {
					for _, rc := range enumCounts {
						buf := append(append([]byte(nil), outer...), 0, 0, 0, 0)
						if obo == 0 {
							binary.BigEndian.PutUint32(buf[len(buf)-4:], rc)
						} else {
							binary.LittleEndian.PutUint32(buf[len(buf)-4:], rc)
						}
						buf = append(buf, wkbTail...)
						e.truncations(buf, "L2-ring", true)
					}
					continue
				}
				for _, ibo := range innerOrders {
					for _, ityp := range innerTypes {
						for _, ic := range enumCounts {
							ic := ic
							buf := append(append([]byte(nil), outer...), hdr(ibo, ityp, &ic)...)
							buf = append(buf, wkbTail...)
							e.truncations(buf, "L2", full)
						}
					}
				}
			}
		}
	}
	l2 := e.size - l1
	if full {
		stats.Subspace("WKB level 2: order {0,1} x 10 container types x 8 counts x (ring count | order {0,1,2} x 15 member types x 8 counts) x every truncation point", l2, true)
	} else {
		stats.Subspace("WKB level 2 (quick sub-grid): order {0,1} x 10 container types x 4 counts x (8 ring counts, every truncation | order {0,1} x 9 member types x 8 counts, truncated at structure boundaries)", l2, true)
	}

	// level 3 (thorough): multi-polygon / collection > polygon, multi-*, collection > innermost header
	if full {
		midTypes := []uint32{3, 5, 6, 7}
		inTypes := []uint32{1, 2, 3, 7}
		for _, otyp := range []uint32{6, 7} {
			for _, oc := range []uint32{1, 2} {
				oc := oc
				outer := hdr(1, otyp, &oc)
				for _, mbo := range []byte{0, 1} {
					for _, mtyp := range midTypes {
						for _, mc := range enumCounts {
							mc := mc
							mid := append(append([]byte(nil), outer...), hdr(mbo, mtyp, &mc)...)
							if mtyp == 3 {
								for _, rc := range enumCounts {
									buf := append(append([]byte(nil), mid...), 0, 0, 0, 0)
									if mbo == 0 {
										binary.BigEndian.PutUint32(buf[len(buf)-4:], rc)
									} else {
										binary.LittleEndian.PutUint32(buf[len(buf)-4:], rc)
									}
									buf = append(buf, wkbTail...)
									e.truncations(buf, "L3-ring", true)
								}
								continue
							}
							for _, ibo := range []byte{0, 1} {
								for _, ityp := range inTypes {
									for _, ic := range enumCounts {
										ic := ic
										buf := append(append([]byte(nil), mid...), hdr(ibo, ityp, &ic)...)
										buf = append(buf, wkbTail...)
										e.truncations(buf, "L3", true)
									}
								}
							}
						}
					}
				}
			}
		}
		stats.Subspace("WKB level 3: {multi-polygon, collection} x count {1,2} > order {0,1} x {polygon, multi-line, multi-polygon, collection} x 8 counts > (ring count | order {0,1} x {point, line, polygon, collection} x 8 counts) x every truncation point", e.size-l1-l2, true)
	}

	// wrap-around counts: c = ceil(k*2^32/s) (and c-1, c+1) for per-element sizes s, k = 1..s-1:
	// c*s computed in 32 bits wraps to a value < s, so a guard or cap that compares len(data)
	// with count*size lets the count through. Every case carries >= 96 bytes after the count, as
	// well-formed WKB points (what a multi-point expects) or as raw coordinates, so that the
	// wrapped product "fits"; each buffer is also cut to the count + 21 bytes.
	before := e.size
	sizes := quickWrapSizes
	if full {
		sizes = allWrapSizes()
	}
	wc := wrapCounts(sizes)
	payloads := func(le bool) [][]byte {
		return [][]byte{wkbPointPayload(le, 5), bytes.Repeat(wkbTail, 3)}
	}
	wrapCase := func(prefix []byte, le bool, how string) {
		for _, pl := range payloads(le) {
			buf := append(append([]byte(nil), prefix...), pl...)
			e.do(buf, how)
			e.do(buf[:len(prefix)+21], how+"-cut")
		}
	}
	put := func(le bool, v uint32) []byte {
		b := make([]byte, 4)
		if le {
			binary.LittleEndian.PutUint32(b, v)
		} else {
			binary.BigEndian.PutUint32(b, v)
		}
		return b
	}
	one := uint32(1)
	for _, bo := range []byte{0, 1} {
		le := bo == 1
		for _, c := range wc {
			c := c
			// level 1: every countable type, plain and EWKB
			for _, typ := range []uint32{2, 3, 4, 5, 6, 7} {
				wrapCase(hdr(bo, typ, &c), le, "wrap-L1")
				wrapCase(hdr(bo, typ|0x20000000, &c), le, "wrap-L1")
			}
			// level 2: the count one level down
			wrapCase(append(hdr(bo, 3, &one), put(le, c)...), le, "wrap-L2-ring")
			wrapCase(append(hdr(bo, 5, &one), hdr(bo, 2, &c)...), le, "wrap-L2")
			wrapCase(append(hdr(bo, 6, &one), hdr(bo, 3, &c)...), le, "wrap-L2")
			wrapCase(append(append(hdr(bo, 6, &one), hdr(bo, 3, &one)...), put(le, c)...), le, "wrap-L3-ring")
			for _, ityp := range []uint32{2, 3, 4, 5, 6, 7} {
				wrapCase(append(hdr(bo, 7, &one), hdr(bo, ityp, &c)...), le, "wrap-L2")
			}
		}
	}
	stats.Subspace(fmt.Sprintf("WKB wrap-around counts: %d counts c = ceil(k*2^32/s)+{-1,0,1} for %d element sizes s (k = 1..s-1) x order {0,1} x (12 level-1 headers + 10 nested positions) x payload {5 WKB points, 96 bytes of coordinates} x {full, cut to 21 bytes}", len(wc), len(sizes)), e.size-before, true)
}

// ---------------------------------------------------------------- WKT sentences

// TestEnumWKTSentences: every sentence of <= 4 (thorough: <= 5) tokens over the 16-token alphabet.
func TestEnumWKTSentences(t *testing.T) {
	assumptions()
	defer inFlightDone()
	e := &enumRun{t: t, name: "TestEnumWKTSentences", family: "wkt", measureEach: 1}
	maxTok := 4
	if stats.Thorough() {
		maxTok = 5
	}
	var rec func(prefix string, left int)
	rec = func(prefix string, left int) {
		e.do([]byte(prefix), "sentence")
		if left == 0 {
			return
		}
		for _, tok := range wktTokens {
			rec(prefix+tok, left-1)
		}
	}
	rec("", maxTok)
	stats.Subspace(fmt.Sprintf("every WKT sentence of <= %d tokens over %d tokens x 8 parsers", maxTok, len(wktTokens)), e.size, true)
}

// TestEnumWKTVocab (round M3): every sequence of <= 3 tokens over the vocabulary dictionary and the
// 16-token alphabet that contains at least one vocabulary token, as a prefix of a valid text, of an
// empty text, and (1 or 2 tokens) as a suffix of the valid text.
func TestEnumWKTVocab(t *testing.T) {
	assumptions()
	defer inFlightDone()
	e := &enumRun{t: t, name: "TestEnumWKTVocab", family: "wkt", measureEach: 1}
	all := append(append([]string(nil), wktVocab...), wktTokens...)
	nv := len(wktVocab)
	tails := []string{"POINT(1 2)", ""}
	var rec func(prefix string, hasVocab bool, left int)
	rec = func(prefix string, hasVocab bool, left int) {
		if hasVocab {
			for _, tail := range tails {
				e.do([]byte(prefix+tail), "vocab-prefix")
			}
			if left >= 1 {
				e.do([]byte("LINESTRING(1 2,3 4)"+prefix), "vocab-suffix")
			}
		}
		if left == 0 {
			return
		}
		for i, tok := range all {
			rec(prefix+tok, hasVocab || i < nv, left-1)
		}
	}
	rec("", false, 3)
	stats.Subspace(fmt.Sprintf("WKT vocabulary: every sequence of <= 3 tokens over %d vocabulary tokens + the 16-token alphabet with >= 1 vocabulary token, as prefix of POINT(1 2) and of the empty text (<= 2 tokens also as suffix of a line string) x 8 parsers", nv), e.size, true)
}

// ---------------------------------------------------------------- GeoJSON grammar

var (
	gjTypes = []string{"", `null`, `1`, `""`, `"Point"`, `"MultiPoint"`, `"LineString"`, `"MultiLineString"`, `"Polygon"`, `"MultiPolygon"`,
		`"GeometryCollection"`, `"Feature"`, `"FeatureCollection"`, `"Foo"`}
	gjCoords = []string{"", `null`, `1`, `[]`, `[null]`, `[1]`, `[1,2]`, `[[1,2]]`, `[[]]`, `[[[1,2]]]`, `[[[[1,2]]]]`, `"x"`, `{}`, `[1,"a"]`}
	gjGeoms  = []string{"", `null`, `[]`, `[null]`, `[{}]`, `[{"type":"Point","coordinates":[1,2]}]`, `1`, `{}`}
)

func gjDoc(members ...string) string {
	var parts []string
	for i := 0; i+1 < len(members); i += 2 {
		if members[i+1] != "" {
			parts = append(parts, `"`+members[i]+`":`+members[i+1])
		}
	}
	return "{" + strings.Join(parts, ",") + "}"
}

// TestEnumGeoJSONGrammar: every document of the small grammar, as geometry, as the geometry of a
// feature and as a feature of a feature collection; in JSON and in BSON.
func TestEnumGeoJSONGrammar(t *testing.T) {
	assumptions()
	defer inFlightDone()
	ej := &enumRun{t: t, name: "TestEnumGeoJSONGrammar", family: "geojson", measureEach: 1}
	eb := &enumRun{t: t, name: "TestEnumGeoJSONGrammar/bson", family: "bson", measureEach: 1}
	both := func(doc, how string) {
		ej.do([]byte(doc), how)
		var tree interface{}
		if json.Unmarshal([]byte(doc), &tree) == nil {
			for _, ints := range []bool{false, true} {
				b, _ := toBSON(tree, ints)
				eb.do(append([]byte(nil), b...), how)
			}
		}
	}
	for _, top := range []string{`null`, ` null`, "null\n", `true`, `1`, `"Point"`, `[]`, `[null]`, `{}`, ``, ` `, `{`, `{"type"`, `{"type":`} {
		both(top, "top")
	}
	for _, ty := range gjTypes {
		for _, co := range gjCoords {
			for _, ge := range gjGeoms {
				g := gjDoc("type", ty, "coordinates", co, "geometries", ge)
				both(g, "geometry")
				// member order reversed (the decoders must not depend on it)
				both(gjDoc("geometries", ge, "coordinates", co, "type", ty), "geometry-reversed")
				for _, props := range []string{"", `null`, `{}`, `1`, `[]`, `{"a":{"b":[1,null]}}`} {
					for _, id := range []string{"", `null`, `1`, `"a"`, `{}`} {
						if (props != "" && props != `{}`) && id != "" {
							continue
						}
						f := gjDoc("type", `"Feature"`, "id", id, "geometry", g, "properties", props)
						both(f, "feature")
					}
				}
				both(gjDoc("type", `"FeatureCollection"`, "features", `[`+gjDoc("type", `"Feature"`, "geometry", g)+`]`), "fc")
				both(gjDoc("type", `"GeometryCollection"`, "geometries", `[`+g+`]`), "nested")
			}
		}
	}
	for _, feats := range []string{"", `null`, `[]`, `[null]`, `[{}]`, `1`, `{}`, `[1]`, `[[]]`, `[{"type":"Feature"}]`, `[{"type":"Feature","geometry":null,"properties":null}]`} {
		for _, bbox := range []string{"", `null`, `[]`, `[1,2,3,4]`, `[null]`, `"x"`} {
			for _, ty := range []string{"", `"FeatureCollection"`, `"Feature"`, `null`, `1`} {
				both(gjDoc("type", ty, "bbox", bbox, "features", feats, "extra", `{"k":[1,{"z":null}]}`), "fc-members")
			}
		}
	}
	stats.Subspace("GeoJSON grammar: 14 type values x 14 coordinates x 8 geometries, each as geometry (both member orders), as geometry of a feature (x properties x id), in a feature collection, nested in a collection; + feature-collection member grammar; 9 JSON targets", ej.size, true)
	stats.Subspace("the same grammar rendered as BSON (doubles and int32) x 9 UnmarshalBSON targets", eb.size, true)
}

// ---------------------------------------------------------------- witnesses and hand-made hostile inputs

type witness struct {
	family string
	data   []byte
	how    string
}

func unhex(s string) []byte {
	b, err := hex.DecodeString(strings.ReplaceAll(s, " ", ""))
	if err != nil {
		panic(err)
	}
	return b
}

func nestWKB(typ uint32, count uint32, depth int, leaf []byte) []byte {
	var out []byte
	for i := 0; i < depth; i++ {
		out = append(out, wkbHeader(true, typ, count)...)
	}
	return append(out, leaf...)
}

func nestedBSONCollection(depth int) []byte {
	var tree interface{} = map[string]interface{}{"type": "Point", "coordinates": []interface{}{1.0, 2.0}}
	tree = wrapGeometryCollection(tree, depth)
	b, _ := toBSON(tree, false)
	return append([]byte(nil), b...)
}

// witnesses lists the formerly failing inputs of the fixed findings (they are in the property's
// domain and must pass now) and hand-made hostile shapes that random mutation reaches rarely.
func witnesses() []witness {
	w := []witness{
		// fixed: wkb-count-times-16-wraps
		{"wkb", unhex("01 02000000 00000010"), "fixed:wkb-count-times-16-wraps line string LE"},
		{"wkb", unhex("01 04000000 00000010"), "fixed:wkb-count-times-16-wraps multi point LE"},
		{"wkb", unhex("00 00000002 10000000"), "fixed:wkb-count-times-16-wraps line string BE"},
		{"wkb", unhex("01 03000000 01000000 00000010"), "fixed:wkb-count-times-16-wraps polygon ring"},
		{"wkb", unhex("01 02000020 e6100000 00000010"), "fixed:wkb-count-times-16-wraps ewkb"},
		{"wkb", unhex("01 02000000 01000010 0000000000000000 0000000000000000"), "count 2^28+1 with one point"},
		// seeded change C05a/C05c: 204522253*21 = 2^32+17 (a multi-point whose count x 21 wraps in uint32)
		{"wkb", unhex("01 04000000 0dc3300c 01 01000000 000000000000f83f 00000000000004c0"), "wrap-around count 204522253 x 21 = 2^32+17, multi-point LE, 30 bytes"},
		{"wkb", unhex("00 00000004 0c30c30d 00 00000001 3ff8000000000000 c004000000000000"), "wrap-around count 204522253 x 21 = 2^32+17, multi-point BE, 30 bytes"},
		{"wkb", append(unhex("01 04000000 0dc3300c"), wkbPointPayload(true, 5)...), "wrap-around count 204522253, multi-point with 5 points"},
		{"wkb", append(unhex("01 02000000 01000010"), bytes.Repeat(wkbTail, 3)...), "count 2^28+1 (x16 wraps to 16), line string with 6 points"},
		{"wkb", append(unhex("01 05000000 1dc7711c"), append(wkbHeader(true, 2, 0), wkbHeader(true, 2, 0)...)...), "wrap-around count ceil(2^32/9) for 9-byte members, multi-line"},
		// fixed: mvt-gzip-check-one-byte
		{"mvt", []byte{0x1f}, "fixed:mvt-gzip-check-one-byte"},
		{"mvt", []byte{0x1f, 0x8b}, "gzip magic only"},
		// fixed: mvt-feature-without-geometry (nil iterator; stale iterator of the previous feature)
		{"mvt", unhex("1a 02 12 00"), "fixed:mvt-feature-without-geometry"},
		{"mvt", unhex("1a 0d 12 09 18 01 22 03 09 02 02 12 00"), "fixed:mvt-feature-without-geometry stale iterator"},
		{"mvt", unhex("1a 06 12 04 18 01 22 00"), "empty geometry"},
		// fixed: mvt-point-closepath-count (count 2^29-1: 8 GiB; 2^25: 512 MiB)
		{"mvt", unhex("1a0c120a18012206ffffffff0f00"), "fixed:mvt-point-closepath-count 2^29-1"},
		{"mvt", unhex("1a0c120a1801220687808080 0100"), "fixed:mvt-point-closepath-count 2^25"},
		{"mvt", unhex("1a0c120a18022206ffffffff0f00"), "line string first command ClosePath with count 2^29-1"},
		{"mvt", unhex("1a0c120a18032206ffffffff0f00"), "polygon first command ClosePath with count 2^29-1"},
		{"mvt", unhex("1a0f120d18022209 0902 02 faffffff0f 00"), "line string second command LineTo with count 2^29-1"},
		{"mvt", unhex("1a0c120a18012206f9ffffff0f00"), "point MoveTo with count 2^29-1"},
		// seeded change C05l: gzip in gzip; the unchanged tree inflates ONE layer and fails on the inner magic
		{"mvt", buildGzip("gz2-zeros", 1<<20), "gzip in gzip over 1 MiB of zeros"},
		{"mvt", buildGzip("gz3-zeros", 1<<24), "three gzip layers over 16 MiB of zeros"},
		{"mvt", buildGzip("gz4-zeros", 1<<24), "four gzip layers over 16 MiB of zeros"},
		{"mvt", buildGzip("gz3-tile", 1<<22), "three gzip layers over 4 MiB of repeated valid tile"},
		{"mvt", buildGzip("gz2-badtile", 1<<20), "two gzip layers over 1 MiB of repeated invalid tile"},
		{"mvt", buildGzip("gz-members", 64), "64 concatenated gzip members"},
		{"mvt", buildGzip("gz-name-len", 2000), "gzip header with a 2000-byte file name"},
		// seeded change C05i: a polygon whose second ring is one moveTo vertex + lineTo x0, not followed by closePath
		{"mvt", mvtTileOf(mvtFeature(3, []uint32{9, 0, 0, 18, 20, 0, 0, 20, 15, 9, 2, 2, 2, 2})), "one-point second ring, then lineTo x0"},
		{"mvt", mvtTileOf(mvtFeature(3, []uint32{9, 0, 0, 18, 20, 0, 0, 20, 15, 9, 2, 2, 2, 1})), "one-point second ring, then moveTo x0"},
		{"mvt", mvtTileOf(mvtFeature(3, []uint32{9, 0, 0, 18, 20, 0, 0, 20, 15, 9, 2, 2, 2, 0})), "one-point second ring, then unknown command 0"},
		{"mvt", mvtTileOf(mvtFeature(3, []uint32{9, 0, 0, 18, 20, 0, 0, 20, 15, 9, 2, 2, 2, 15})), "one-point second ring, closed"},
		{"mvt", mvtTileOf(mvtFeature(3, []uint32{9, 0, 0, 2, 15, 9, 2, 2, 2, 2, 9, 2, 2, 2})), "three one-point rings"},
		{"mvt", mvtTileOf(mvtFeature(3, []uint32{15, 9, 0, 0, 15, 15, 1, 2, 9, 2, 2, 10, 2, 2})), "closePath first, twice, moveTo x0, lineTo x0, unclosed two-point ring"},
		{"mvt", gz(mvtTileOf(mvtFeature(3, []uint32{9, 0, 0, 18, 20, 0, 0, 20, 15, 9, 2, 2, 2, 2}))), "one-point second ring, gzipped"},
		{"mvt", mvtTileOf(mvtFeature(2, []uint32{9, 0, 0, 2, 9, 2, 2, 2})), "line strings of one point"},
		{"mvt", mvtTileOf(mvtFeature(0, []uint32{9, 0, 0, 18, 20, 0, 0, 20, 15})), "geometry type UNKNOWN"},
		// fixed: geojson-null-collection-member, geojson-helper-null
		{"geojson", []byte(`{"type":"GeometryCollection","geometries":[null]}`), "fixed:geojson-null-collection-member"},
		{"geojson", []byte(`{"type":"GeometryCollection","geometries":[{"type":"GeometryCollection","geometries":[]}]}`), "nested empty collection"},
		{"geojson", []byte(`null`), "fixed:geojson-helper-null"},
		{"geojson", []byte(`{"type":"Feature","geometry":{"type":"GeometryCollection","geometries":[null]},"properties":null}`), "feature with null collection member"},
		// fixed: geojson-helper-bson-empty
		{"bson", []byte{0, 0, 0, 0}, "fixed:geojson-helper-bson-empty"},
		{"bson", unhex("000000000876000100"), "fixed:geojson-helper-bson-empty with trailing bytes"},
		{"bson", unhex("0500000000"), "empty document"},
		// fixed: geojson-feature-null-whitespace
		{"geojson", []byte("\nnull"), "fixed:geojson-feature-null-whitespace"},
		{"geojson", []byte(" null"), "fixed:geojson-feature-null-whitespace"},
		{"geojson", []byte("null "), "fixed:geojson-feature-null-whitespace"},
		{"geojson", []byte("\t\r\n null \n"), "fixed:geojson-feature-null-whitespace"},
		// seeded change C05m / round M3: foreign vocabulary
		{"wkt", []byte("SRID=4326;POINT(1 2)"), "EWKT prefix"},
		{"wkt", []byte("SRID="), "EWKT prefix without ;"},
		{"wkt", []byte("srid=4326 POINT(1 2)"), "EWKT prefix, lower case, no ;"},
		{"wkt", []byte("  SRID=POINT(1 2)"), "EWKT prefix after blanks, no ;"},
		{"wkt", []byte("SRID=;"), "EWKT prefix, empty id, nothing else"},
		{"wkt", []byte("POINT Z(1 2 3)"), "Z suffix"},
		{"wkt", []byte("POINTZM(1 2 3 4)"), "ZM suffix"},
		{"wkt", []byte("POINT(nan inf)"), "non-finite spellings"},
		{"wkt", []byte("BOX(1 2,3 4)"), "BOX"},
		{"wkt", []byte("GEOMETRYCOLLECTION(SRID=4326;POINT(1 2))"), "EWKT prefix inside a collection"},
		{"wkb", []byte("SRID=4326;0101000000000000000000f03f0000000000000040"), "EWKT-style SRID before hex WKB"},
		{"wkb", []byte("0x0101000000000000000000f03f0000000000000040"), "0x before hex WKB"},
		{"geojson", []byte(`{"type":"Point","coordinates":[1,2],"crs":{"type":"name","properties":{"name":"EPSG:4326"}},"bbox":[1,2,1,2]}`), "crs and bbox members"},
		{"geojson", []byte(`{"type":"Feature","_id":{"$oid":"5f2b6d1e9c3a4b0012345678"},"id":{"$oid":"5f2b6d1e9c3a4b0012345678"},"geometry":null,"properties":{"$oid":1}}`), "$oid / _id"},
		// WKT
		{"wkt", []byte("GEOMETRYCOLLECTION(POINT(1e-07 2))"), "fixed:wkt-collection-split-on-letters"},
		{"wkt", []byte("GEOMETRYCOLLECTION(GEOMETRYCOLLECTION(POINT(1 2)), POINT EMPTY)"), "nested collection"},
		{"wkt", []byte("POINT"), "keyword only"},
		{"wkt", []byte("POINT("), "open paren"},
		{"wkt", []byte("("), "paren only"},
		{"wkt", []byte("MULTIPOINT(())"), "empty member"},
		{"wkt", []byte("GEOMETRYCOLLECTION"), "collection keyword only"},
		{"wkt", []byte("GEOMETRYCOLLECTION "), "collection keyword + space"},
		{"wkt", []byte("POLYGON(())"), "empty ring"},
		{"wkt", []byte("MULTIPOLYGON((()))"), "empty ring in multi"},
	}
	for _, d := range []int{1, 2, 50, 200} {
		w = append(w,
			witness{"wkb", nestWKB(7, 1, d, wkbHeader(true, 7, 0)), fmt.Sprintf("collection nesting depth %d", d)},
			witness{"wkb", nestWKB(7, 100, d, nil), fmt.Sprintf("collection nesting depth %d, count 100, cut", d)},
			witness{"wkb", nestWKB(5, 1, d, wkbHeader(true, 2, 0)), fmt.Sprintf("multi-line chain depth %d", d)},
			witness{"wkb", append(wkbHeader(true, 5, uint32(d+1)), nestWKB(5, 1, d, wkbHeader(true, 2, 0))...), fmt.Sprintf("multi-line chain depth %d re-scanned from every level", d)},
			witness{"wkb", nestWKB(4, 1, d, append(unhex("01 01000000"), wkbTail[:16]...)), fmt.Sprintf("multi-point chain depth %d", d)},
			witness{"wkb", nestWKB(6, 1, d, wkbHeader(true, 3, 0)), fmt.Sprintf("multi-polygon chain depth %d", d)},
			witness{"wkt", []byte(strings.Repeat("GEOMETRYCOLLECTION(", d) + "POINT(1 2)" + strings.Repeat(")", d)), fmt.Sprintf("collection nesting depth %d", d)},
			witness{"wkt", []byte(strings.Repeat("GEOMETRYCOLLECTION(", d)), fmt.Sprintf("unclosed nesting depth %d", d)},
			witness{"geojson", []byte(strings.Repeat(`{"type":"GeometryCollection","geometries":[`, d) + `{"type":"Point","coordinates":[1,2]}` + strings.Repeat(`]}`, d)), fmt.Sprintf("collection nesting depth %d", d)},
			witness{"geojson", []byte(`{"type":"Polygon","coordinates":` + strings.Repeat("[", d) + strings.Repeat("]", d) + `}`), fmt.Sprintf("array nesting depth %d", d)},
			witness{"bson", nestedBSONCollection(d), fmt.Sprintf("collection nesting depth %d", d)},
		)
		// mvt: layer nested in layers (field 3 of a layer is a key string)
		body := unhex("12 09 18 01 22 03 09 02 02")
		for i := 0; i < d; i++ {
			pw := &pbW{}
			pw.bytesField(3, body)
			body = pw.buf
		}
		w = append(w, witness{"mvt", body, fmt.Sprintf("field-3 nesting depth %d", d)})
	}
	// seeded change C05d: every level of a collection chain claims as many members as would still fit
	for _, d := range []int{1000, 2000, 4000} {
		var chain []byte
		for k := 0; k < d; k++ {
			chain = append(chain, wkbHeader(true, 7, uint32(d-1-k))...)
		}
		w = append(w, witness{"wkb", chain, fmt.Sprintf("collection chain depth %d, every count = remaining/9", d)})
	}
	// long flat inputs
	w = append(w,
		witness{"wkt", []byte("LINESTRING(" + strings.Repeat(",", 20000) + ")"), "20000 commas"},
		witness{"wkt", []byte("MULTIPOLYGON(((" + strings.Repeat(")),((", 8000) + ")))"), "8000 polygon separators"},
		witness{"wkt", []byte("POLYGON((" + strings.Repeat("),(", 12000) + "))"), "12000 ring separators"},
		witness{"wkt", []byte("GEOMETRYCOLLECTION(" + strings.Repeat("POINT(1 2),", 4000) + "POINT(1 2))"), "4000 members"},
		witness{"wkt", []byte("POINT(" + strings.Repeat(" ", 60000) + ")"), "60000 spaces"},
		witness{"geojson", []byte(`{"type":"MultiPoint","coordinates":[` + strings.Repeat("[],", 15000) + `[]]}`), "15000 empty points"},
		witness{"geojson", []byte(`{"type":"Feature","geometry":null,"properties":{"a":` + strings.Repeat("[", 5000) + strings.Repeat("]", 5000) + `}}`), "properties nesting 5000"},
		witness{"mvt", gz(make([]byte, 1<<20)), "gzip bomb: 1 MiB of zeros"},
		witness{"mvt", gz(bytes.Repeat(unhex("1a 0d 12 09 18 01 22 03 09 02 02 12 00"), 40000)), "gzip bomb: 40000 failing layers"},
		witness{"mvt", gz(bytes.Repeat(unhex("1a 0b 12 09 18 01 22 03 09 02 02"), 40000)), "gzip: 40000 one-point layers"},
		witness{"mvt", bytes.Repeat(unhex("1a 00"), 30000), "30000 empty layers"},
	)
	if stats.Thorough() {
		w = append(w, witness{"mvt", gz(make([]byte, 48<<20)), "gzip bomb: 48 MiB of zeros from 48 KiB"})
	}
	return w
}

// TestEnumWitnesses runs the witnesses of the fixed findings and the hand-made hostile inputs.
func TestEnumWitnesses(t *testing.T) {
	assumptions()
	defer inFlightDone()
	es := map[string]*enumRun{}
	var total int64
	for _, w := range witnesses() {
		e := es[w.family]
		if e == nil {
			e = &enumRun{t: t, name: "TestEnumWitnesses", family: w.family, measureEach: 1}
			es[w.family] = e
		}
		e.do(w.data, w.how)
		total++
	}
	stats.Subspace("witnesses of the fixed C05 findings + hand-made nesting (depth 1, 2, 50, 200) / long flat / decompression-bomb inputs, all targets of their family", total, true)
}

// ---------------------------------------------------------------- committed fuzz seed corpus

func corpusDir() string {
	dir := os.Getenv("VERIF_DIR")
	if dir == "" {
		dir = "/verif"
	}
	return filepath.Join(dir, "harness", "props", "c05", "testdata", "fuzz")
}

// readCorpusFile parses a "go test fuzz v1" file with one []byte or string value.
func readCorpusFile(path string) ([]byte, bool) {
	b, err := os.ReadFile(path)
	if err != nil {
		return nil, false
	}
	lines := strings.Split(strings.TrimSpace(string(b)), "\n")
	if len(lines) != 2 || !strings.HasPrefix(lines[0], "go test fuzz v1") {
		return nil, false
	}
	l := strings.TrimSpace(lines[1])
	for _, pre := range []string{"[]byte(", "string("} {
		if strings.HasPrefix(l, pre) && strings.HasSuffix(l, ")") {
			s, err := strconv.Unquote(l[len(pre) : len(l)-1])
			if err != nil {
				return nil, false
			}
			return []byte(s), true
		}
	}
	return nil, false
}

var fuzzFamilies = map[string][]string{"FuzzWKB": {"wkb"}, "FuzzWKT": {"wkt"}, "FuzzGeoJSON": {"geojson", "bson"}, "FuzzMVT": {"mvt"}}

// TestEnumSeedCorpus: every committed fuzz seed passes the oracle (so that native fuzzing starts from a green baseline).
func TestEnumSeedCorpus(t *testing.T) {
	assumptions()
	defer inFlightDone()
	var names []string
	for n := range fuzzFamilies {
		names = append(names, n)
	}
	sort.Strings(names)
	var total int64
	es := map[string]*enumRun{}
	for _, n := range names {
		files, _ := filepath.Glob(filepath.Join(corpusDir(), n, "*"))
		sort.Strings(files)
		if len(files) == 0 {
			t.Fatalf("no seed corpus for %s under %s", n, corpusDir())
		}
		for _, f := range files {
			data, ok := readCorpusFile(f)
			if !ok {
				t.Fatalf("unreadable corpus file %s", f)
			}
			for _, fam := range fuzzFamilies[n] {
				e := es[fam]
				if e == nil {
					e = &enumRun{t: t, name: "TestEnumSeedCorpus", family: fam, measureEach: 1}
					es[fam] = e
				}
				e.do(data, "seed "+n+"/"+filepath.Base(f))
				total++
			}
		}
	}
	stats.Subspace("committed native-fuzz seed corpus (testdata/fuzz) through the oracle", total, true)
}
