package c15

// Round L: L3 histories on reused *Layer / Layers values with caller-side
// mutation between calls, L1 size ladders, L4 read-only arguments, L2 the
// projection as a bound method value.

import (
	"fmt"
	"math"
	"sort"
	"testing"

	"github.com/paulmach/orb"
	"github.com/paulmach/orb/encoding/mvt"
	"github.com/paulmach/orb/geojson"
	"github.com/paulmach/orb/project"
	"pgregory.net/rapid"

	"verifharness/internal/gen"
	"verifharness/internal/stats"
)

// callLogger logs through a pointer-receiver method (class L2).
type callLogger struct {
	f     func(orb.Point) orb.Point
	calls *[]orb.Point
}

func (l *callLogger) apply(p orb.Point) orb.Point {
	*l.calls = append(*l.calls, p)
	return l.f(p)
}

// ---------------------------------------------------------------- L3 histories

// Op is one step of a history on a reused set of layers.
//
//	wgs / tile          Layer.ProjectToWGS84 / ProjectToTile on layer L
//	wgs-all / tile-all  Layers.ProjectToWGS84 / ProjectToTile on the set
//	set-features        caller replaces Features of layer L by Feats
//	set-geometry        caller replaces the geometry of feature F of layer L by Feats[0]
//	set-extent          caller assigns Extent of layer L
//	copy                caller copies the Layer struct by value and goes on with the copy
//	simplify-id         Layer.Simplify with an identity simplifier (noise, must change nothing)
//	remove-empty        Layer.RemoveEmpty(-Inf, -Inf) (noise; only on point/line layers)
//	clip-wide           Layer.Clip with a box containing everything (noise; only on point layers)
type Op struct {
	Op     string  `json:"op"`
	L      int     `json:"l"`
	F      int     `json:"f"`
	Extent uint32  `json:"extent,omitempty"`
	Feats  []gen.G `json:"feats,omitempty"`
}

type idSimplifier struct{}

func (idSimplifier) Simplify(g orb.Geometry) orb.Geometry                      { return g }
func (idSimplifier) LineString(ls orb.LineString) orb.LineString               { return ls }
func (idSimplifier) MultiLineString(m orb.MultiLineString) orb.MultiLineString { return m }
func (idSimplifier) Ring(r orb.Ring) orb.Ring                                  { return r }
func (idSimplifier) Polygon(p orb.Polygon) orb.Polygon                         { return p }
func (idSimplifier) MultiPolygon(mp orb.MultiPolygon) orb.MultiPolygon         { return mp }
func (idSimplifier) Collection(c orb.Collection) orb.Collection                { return c }

// model of one layer: what the caller can observe
type mLayer struct {
	name    string
	extent  uint32
	feats   []orb.Geometry     // expected geometry of every feature (the verified actual value)
	ptrs    []*geojson.Feature // the feature objects, in order
	backing []*geojson.Feature // the whole backing array of Features as the caller built it
}

var sentinelFeature = geojson.NewFeature(orb.Point{-7777, -7777})
var sentinelLayer = &mvt.Layer{Name: "sentinel"}

func newFeatures(gs []gen.G) ([]*geojson.Feature, []orb.Geometry) {
	fs := make([]*geojson.Feature, len(gs), len(gs)+2)
	model := make([]orb.Geometry, len(gs))
	for i, g := range gs {
		fs[i] = geojson.NewFeature(gen.DeepCopy(g.V))
		fs[i].ID = i
		fs[i].Properties["k"] = "v"
		model[i] = gen.DeepCopy(g.V)
	}
	spare := fs[:len(gs)+2]
	spare[len(gs)], spare[len(gs)+1] = sentinelFeature, sentinelFeature
	return fs, model
}

func inWGSLegDomain(g orb.Geometry) bool {
	_, bits := gen.Flatten(g)
	for _, b := range bits {
		if v := math.Float64frombits(b); !(math.Abs(v) <= 1e12) {
			return false
		}
	}
	return true
}

func inTileLegDomain(g orb.Geometry) bool {
	_, bits := gen.Flatten(g)
	for i := 0; i+1 < len(bits); i += 2 {
		lon, lat := math.Float64frombits(bits[i]), math.Float64frombits(bits[i+1])
		if !(math.Abs(lon) <= 1e4) || !(math.Abs(lat) <= 89) {
			return false
		}
	}
	return true
}

// judgeLeg: got must be prev with the projection model applied once to every vertex.
func judgeLeg(leg string, t T, extent uint32, prev, got orb.Geometry) error {
	sp, bp := gen.Flatten(prev)
	sg, bg := gen.Flatten(got)
	if sp != sg || len(bp) != len(bg) {
		return fmt.Errorf("structure %s became %s", sp, sg)
	}
	n := math.Ldexp(1, int(t.Z))
	e := float64(extent)
	for i := 0; i+1 < len(bp); i += 2 {
		x, y := math.Float64frombits(bp[i]), math.Float64frombits(bp[i+1])
		gx, gy := math.Float64frombits(bg[i]), math.Float64frombits(bg[i+1])
		if leg == "wgs" {
			lon := fracLon((float64(t.X) + (x+0.5)/e) / n)
			lat := fracLat((float64(t.Y) + (y+0.5)/e) / n)
			if !near(gx, lon, tolDeg) || !near(gy, lat, tolDeg) {
				return fmt.Errorf("vertex %d: (%v, %v) projected to WGS84 (tile %+v extent %d) gives (%v, %v), the formula applied once gives (%v, %v)", i/2, x, y, t, extent, gx, gy, lon, lat)
			}
			continue
		}
		// tile leg: floor of the pixel position; either neighbour when the position is within
		// float rounding (delta, stated below) of a pixel boundary
		px := (x/360+0.5)*n*e - float64(t.X)*e
		py := (0.5-math.Asinh(math.Tan(y*math.Pi/180))/(2*math.Pi))*n*e - float64(t.Y)*e
		dx := 1e-13*(math.Abs(px)+float64(t.X)*e+1) + 1e-9
		dy := 1e-12*n*e + 1e-13*(math.Abs(py)+float64(t.Y)*e) + 1e-9
		if !(gx >= math.Floor(px-dx) && gx <= math.Floor(px+dx) && gx == math.Floor(gx)) ||
			!(gy >= math.Floor(py-dy) && gy <= math.Floor(py+dy) && gy == math.Floor(gy)) {
			return fmt.Errorf("vertex %d: (%v, %v) projected to tile %+v extent %d gives (%v, %v), the formula applied once gives floor(%v +- %g), floor(%v +- %g)", i/2, x, y, t, extent, gx, gy, px, dx, py, dy)
		}
	}
	return nil
}

func sameBitsErr(want, got orb.Geometry) error {
	if same, why := gen.SameBits(want, got); !same {
		return fmt.Errorf("geometry changed: %s", why)
	}
	return nil
}

func kindsOnly(gs []orb.Geometry, allowed ...string) bool {
	for _, g := range gs {
		ok := false
		for _, a := range allowed {
			if gen.KindOf(g) == a {
				ok = true
			}
		}
		if mp, is := g.(orb.MultiPoint); is && len(mp) < 2 {
			ok = false
		}
		if !ok {
			return false
		}
	}
	return true
}

// checkHistory runs the ops on ONE set of layer values and compares the
// observable state with the model after every step.
func checkHistory(c Case) error {
	if !c.Tile.valid() || len(c.Layers) == 0 {
		return fmt.Errorf("harness: bad history case")
	}
	mt := c.Tile.orb()
	set := make(mvt.Layers, len(c.Layers), len(c.Layers)+2)
	model := make([]*mLayer, len(c.Layers))
	for i, sp := range c.Layers {
		fs, m := newFeatures(sp.Feats)
		set[i] = &mvt.Layer{Name: fmt.Sprintf("h%d", i), Version: 2, Extent: sp.Extent, Features: fs}
		model[i] = &mLayer{name: set[i].Name, extent: sp.Extent, feats: m, ptrs: append([]*geojson.Feature{}, fs...), backing: append([]*geojson.Feature{}, fs[:cap(fs)]...)}
	}
	full := set[:cap(set)]
	full[len(set)], full[len(set)+1] = sentinelLayer, sentinelLayer
	setPtrs := append([]*mvt.Layer{}, full...)

	// arguments and everything a projection has no business with stay as they were (L4)
	readOnly := func(step string) error {
		for i, l := range set[:cap(set)] {
			if l != setPtrs[i] {
				if i >= len(set) {
					stats.Class("layout-note:spare capacity of the caller's Layers slice was written") // not a failure (soundness rule)
					continue
				}
				return fmt.Errorf("%s: element %d of the caller's Layers slice was replaced by another layer", step, i)
			}
		}
		for i, l := range set {
			m := model[i]
			if l.Name != m.name || l.Version != 2 || l.Extent != m.extent {
				return fmt.Errorf("%s: layer %d fields changed: name %q version %d extent %d, want %q 2 %d", step, i, l.Name, l.Version, l.Extent, m.name, m.extent)
			}
			if len(l.Features) != len(m.ptrs) {
				return fmt.Errorf("%s: layer %d has %d features, want %d", step, i, len(l.Features), len(m.ptrs))
			}
			for j, f := range l.Features[:cap(l.Features)] {
				if j < len(m.backing) && f != m.backing[j] {
					// which Feature object carries the geometry is not promised: a note, not a failure;
					// id, properties and geometry of every feature are judged by value below
					if j >= len(l.Features) {
						stats.Class("layout-note:spare capacity of a Features slice was written")
					} else {
						stats.Class("layout-note:a Feature object was replaced by another one")
					}
				}
			}
			for j, f := range l.Features {
				if f.ID != j || len(f.Properties) != 1 || f.Properties["k"] != "v" {
					return fmt.Errorf("%s: layer %d feature %d: id/properties changed: %v %v", step, i, j, f.ID, f.Properties)
				}
			}
		}
		return nil
	}
	unchanged := func(step string, only int) error {
		for i, l := range set {
			if only >= 0 && i != only {
				continue
			}
			for j, f := range l.Features {
				if err := sameBitsErr(model[i].feats[j], f.Geometry); err != nil {
					return fmt.Errorf("%s: layer %d feature %d: %w", step, i, j, err)
				}
			}
		}
		return nil
	}
	projected := func(step, leg string, i int) error {
		l, m := set[i], model[i]
		for j, f := range l.Features {
			if err := judgeLeg(leg, c.Tile, m.extent, m.feats[j], f.Geometry); err != nil {
				return fmt.Errorf("%s: layer %d (extent %d) feature %d %s: %w", step, i, m.extent, j, gen.Canon(m.feats[j]), err)
			}
			m.feats[j] = gen.DeepCopy(f.Geometry)
		}
		return nil
	}
	legDomain := func(leg string, i int) bool {
		for _, g := range model[i].feats {
			if (leg == "wgs" && !inWGSLegDomain(g)) || (leg == "tile" && !inTileLegDomain(g)) {
				return false
			}
		}
		return true
	}

	for k, op := range c.Ops {
		step := fmt.Sprintf("step %d (%s, layer %d) of %s", k, op.Op, op.L, opNames(c.Ops))
		li := 0
		if len(set) > 0 {
			li = ((op.L % len(set)) + len(set)) % len(set)
		}
		l, m := set[li], model[li]
		switch op.Op {
		case "wgs", "tile":
			if !legDomain(op.Op, li) {
				continue
			}
			if op.Op == "wgs" {
				l.ProjectToWGS84(mt)
			} else {
				l.ProjectToTile(mt)
			}
			if err := projected(step, op.Op, li); err != nil {
				return err
			}
			for i := range set {
				if i != li {
					if err := unchanged(step, i); err != nil {
						return err
					}
				}
			}
		case "wgs-all", "tile-all":
			leg := op.Op[:len(op.Op)-4]
			ok := true
			for i := range set {
				ok = ok && legDomain(leg, i)
			}
			if !ok {
				continue
			}
			if leg == "wgs" {
				set.ProjectToWGS84(mt)
			} else {
				set.ProjectToTile(mt)
			}
			for i := range set {
				if err := projected(step, leg, i); err != nil {
					return err
				}
			}
		case "set-features":
			fs, mf := newFeatures(op.Feats)
			l.Features = fs
			m.feats, m.ptrs, m.backing = mf, append([]*geojson.Feature{}, fs...), append([]*geojson.Feature{}, fs[:cap(fs)]...)
		case "set-geometry":
			if len(l.Features) == 0 || len(op.Feats) == 0 {
				continue
			}
			fi := ((op.F % len(l.Features)) + len(l.Features)) % len(l.Features)
			l.Features[fi].Geometry = gen.DeepCopy(op.Feats[0].V)
			m.feats[fi] = gen.DeepCopy(op.Feats[0].V)
		case "set-extent":
			if op.Extent == 0 {
				continue
			}
			l.Extent = op.Extent
			m.extent = op.Extent
		case "copy":
			cp := *l
			set[li] = &cp
			setPtrs[li] = &cp
		case "simplify-id":
			l.Simplify(idSimplifier{})
		case "remove-empty":
			if !kindsOnly(m.feats, "Point", "MultiPoint", "LineString") {
				continue
			}
			l.RemoveEmpty(math.Inf(-1), math.Inf(-1))
		case "clip-wide":
			if !kindsOnly(m.feats, "Point", "MultiPoint") || !legDomain("wgs", li) {
				continue
			}
			l.Clip(orb.Bound{Min: orb.Point{-1e13, -1e13}, Max: orb.Point{1e13, 1e13}})
		default:
			return fmt.Errorf("harness: unknown op %q", op.Op)
		}
		if err := readOnly(step); err != nil {
			return err
		}
		if err := unchanged(step, -1); err != nil {
			return err
		}
	}
	return nil
}

func opNames(ops []Op) string {
	s := ""
	for i, o := range ops {
		if i > 0 {
			s += ","
		}
		s += fmt.Sprintf("%s@%d", o.Op, o.L)
	}
	return s
}

var historyOps = []string{"wgs", "wgs", "wgs", "tile", "tile", "tile", "wgs-all", "wgs-all", "tile-all", "tile-all", "set-features", "set-features", "set-features", "set-geometry", "set-extent", "copy", "simplify-id", "remove-empty", "clip-wide"}

var historyKinds = []string{"Point", "MultiPoint", "LineString", "MultiLineString", "Ring", "Polygon", "MultiPolygon", "Collection"}

// genHistoryFeats draws 1..3 features whose coordinates are tile integers of the
// (tile, extent) domain, lon/lat values, or small integers that are both.
func genHistoryFeats(rt *rapid.T, t T, extent uint32) []gen.G {
	lo, hi := rowRange(t, extent)
	var coord *rapid.Generator[float64]
	space := rapid.IntRange(0, 3).Draw(rt, "space")
	switch space {
	case 0, 1:
		coord = rapid.Custom(func(t *rapid.T) float64 { return float64(genPixCoord(t, lo, hi, extent, "c")) })
		stats.Class("history features:tile integers")
	case 2:
		coord = rapid.Custom(func(t *rapid.T) float64 { return rapid.Float64Range(-85, 85).Draw(t, "ll") })
		stats.Class("history features:lon/lat")
	default:
		coord = rapid.Custom(func(t *rapid.T) float64 {
			return float64(rapid.IntRange(max(-80, int(lo)), min(80, int(hi-1))).Draw(t, "si"))
		})
		stats.Class("history features:small integers")
	}
	o := gen.Opts{Coord: coord, Kinds: historyKinds, Empty: true, EmptyMembers: true, Degenerate: true, MaxDepth: 1, MaxLen: 3}
	n := rapid.IntRange(1, 3).Draw(rt, "nf")
	out := make([]gen.G, n)
	for i := range out {
		out[i] = gen.G{V: gen.Geom(o).Draw(rt, "g")}
	}
	return out
}

func drawHistory(rt *rapid.T) (Case, bool) {
	c := Case{Kind: "history"}
	c.Tile = genTile(rt)
	nl := rapid.IntRange(1, 3).Draw(rt, "layers")
	exts := make([]uint32, nl)
	for i := 0; i < nl; i++ {
		exts[i], _ = genExtent(rt)
		c.Layers = append(c.Layers, LayerSpec{Extent: exts[i], Feats: genHistoryFeats(rt, c.Tile, exts[i])})
	}
	nops := rapid.IntRange(2, 12).Draw(rt, "nops")
	last := map[int]string{}
	nproj, repeat, mutated := 0, false, false
	for k := 0; k < nops; k++ {
		op := Op{Op: rapid.SampledFrom(historyOps).Draw(rt, "op"), L: rapid.IntRange(0, nl-1).Draw(rt, "l")}
		switch op.Op {
		case "set-features":
			op.Feats = genHistoryFeats(rt, c.Tile, exts[op.L])
			mutated = true
		case "set-geometry":
			op.F = rapid.IntRange(0, 2).Draw(rt, "f")
			op.Feats = genHistoryFeats(rt, c.Tile, exts[op.L])[:1]
			mutated = true
		case "set-extent":
			op.Extent, _ = genExtent(rt)
			exts[op.L] = op.Extent
			mutated = true
		case "wgs", "tile":
			nproj++
			if last[op.L] == op.Op {
				repeat = true
			}
			last[op.L] = op.Op
		case "wgs-all", "tile-all":
			nproj++
			leg := op.Op[:len(op.Op)-4]
			for i := 0; i < nl; i++ {
				if last[i] == leg {
					repeat = true
				}
				last[i] = leg
			}
		}
		stats.Class("history op:" + op.Op)
		c.Ops = append(c.Ops, op)
	}
	if repeat {
		stats.Class("history:same projection twice in a row on one layer")
	}
	return c, repeat || (nproj >= 2 && mutated)
}

// TestPropLayerHistory: histories of projections (singular and plural, any
// order, the same one twice in a row included), caller-side replacement of
// Features / one geometry / Extent, struct copies and identity noise methods on
// ONE reused set of *Layer values (class L3); every vertex must be transformed
// exactly once per real call, everything else must stay as it was (L4).
func TestPropLayerHistory(t *testing.T) {
	stats.Assume("history steps whose input lies outside the projection models' domain are skipped: ProjectToTile needs |lon| <= 1e4 and |lat| <= 89 (beyond 89.19 mercator.ToPlanar clamps), ProjectToWGS84 |coordinate| <= 1e12; a same-direction second projection is judged by the formula applied to the verified result of the first")
	stats.Assume("ProjectToTile of an arbitrary lon/lat is the floor of the own mercator pixel position; either neighbour is accepted when the position is within delta of a pixel boundary, delta_x = 1e-13(|px| + X*extent + 1) + 1e-9, delta_y = 1e-12 * 2^z * extent + 1e-13(|py| + Y*extent) + 1e-9 pixels; ProjectToWGS84 of an arbitrary coordinate within 1e-9(1+|value|) degrees")
	stats.Check(t, 40000, 500000, func(rt *rapid.T) {
		c, nt := drawHistory(rt)
		if nt {
			stats.NonTrivial(gen.JSON(c))
			if stats.WantSample("history") && len(gen.JSON(c)) < 2500 {
				stats.Sample("history", c)
			}
		}
		stats.Try(rt, "TestPropLayerHistory", c, func() error { return checkCase(c) })
	})
}

// TestEnumLayerHistory: every sequence of up to 4 steps over {wgs, tile,
// wgs-all, tile-all, set-features (tile integers), set-features (lon/lat),
// set-extent, copy} on a two-layer set, for 3 tiles.
func TestEnumLayerHistory(t *testing.T) {
	tiles := []T{enumTiles[0], enumTiles[4], enumTiles[8]}
	alphabet := []string{"wgs", "tile", "wgs-all", "tile-all", "set-int", "set-ll", "set-extent", "copy"}
	ints := func(e uint32) []gen.G {
		E := float64(e)
		return []gen.G{{V: orb.MultiPoint{{0, 0}, {E - 1, E / 2}, {3, 7}}}, {V: orb.LineString{{1, 2}, {E / 3, 5}}}}
	}
	ll := []gen.G{{V: orb.MultiPoint{{12.5, 41.9}, {-73.9, 40.7}}}, {V: orb.Point{151.2, -33.9}}}
	var idx int64
	var rec func(tl T, ops []Op, depth int)
	rec = func(tl T, ops []Op, depth int) {
		if len(ops) > 0 {
			idx++
			if stats.Mine(idx) {
				c := Case{Kind: "history", Tile: tl, Ops: ops, Layers: []LayerSpec{{Extent: 4096, Feats: ints(4096)}, {Extent: 1000, Feats: ints(1000)}}}
				stats.Eval("TestEnumLayerHistory", 1)
				stats.NonTrivialHash(stats.Hash(fmt.Sprintf("%v/%s", tl, opNames(ops))))
				stats.TryT(t, "TestEnumLayerHistory", c, func() error { return checkCase(c) })
			}
		}
		if depth == 0 {
			return
		}
		for _, a := range alphabet {
			op := Op{Op: a, L: len(ops) % 2}
			switch a {
			case "set-int":
				op.Op, op.Feats = "set-features", ints(512)
			case "set-ll":
				op.Op, op.Feats = "set-features", ll
			case "set-extent":
				op.Extent = 512
			}
			rec(tl, append(append([]Op{}, ops...), op), depth-1)
		}
	}
	for _, tl := range tiles {
		rec(tl, nil, 4)
	}
	stats.Subspace("every history of 1..4 steps over 8 step kinds on a reused two-layer set x 3 tiles", idx, true)
}

// ---------------------------------------------------------------- L1 size ladder

// ladder: L-2 .. L+3 and 1.5 L + 1 around every L in {2^k : k = 6..24} and
// {10^k : k = 2..7}, plus 4095..4097, 65535, 65536; cut at top.
func ladder(top int) []int {
	m := map[int]bool{65535: true, 65536: true, 4095: true, 4096: true, 4097: true}
	add := func(l int) {
		for d := -2; d <= 3; d++ {
			m[l+d] = true
		}
		m[l+l/2+1] = true
	}
	for k := 6; k <= 24; k++ {
		add(1 << k)
	}
	p := 100
	for k := 2; k <= 7; k++ {
		add(p)
		p *= 10
	}
	var out []int
	for v := range m {
		if v <= top {
			out = append(out, v)
		}
	}
	sort.Ints(out)
	return out
}

// quickRung: in the quick tier the expensive dimensions (one heap object per
// element) and the first/last placements keep every rung up to 1.5*4096+1 and
// the neighbourhood of 65536; the cheap vertex ladders keep every rung.
func quickRung(n int) bool { return n <= 6145 || (n >= 65534 && n <= 65539) }

var largeShapes = []string{"multipoint", "linestring", "ring", "multilinestring-many", "multilinestring-one-big", "polygon-many-rings", "polygon-one-big", "multipolygon-many", "collection-many", "collection-one-big", "nested-chain", "features", "layers"}

// pixel coordinate i of a structured big shape: a zigzag over the tile and its buffer
func bigPt(i int, t T, extent uint32) orb.Point {
	lo, hi := rowRange(t, extent)
	e := int64(extent)
	return orb.Point{float64(int64(i)*37%(3*e) - e), float64(lo + int64(i)*101%(hi-lo))}
}

func bigLine(n, off int, t T, e uint32) []orb.Point {
	out := make([]orb.Point, n)
	for i := range out {
		out[i] = bigPt(i+off, t, e)
	}
	return out
}

// buildLarge builds the geometry of a "large" case (nil for the layer shapes).
func buildLarge(c Case) orb.Geometry {
	n, t, e := c.N, c.Tile, c.Extent
	small := func(k int) []orb.Point { return bigLine(3, k, t, e) }
	place := func(big, a, b orb.Geometry) []orb.Geometry {
		switch c.Pos {
		case "first":
			return []orb.Geometry{big, a, b}
		case "last":
			return []orb.Geometry{a, b, big}
		}
		return []orb.Geometry{a, big, b}
	}
	switch c.Shape {
	case "multipoint":
		return orb.MultiPoint(bigLine(n, 0, t, e))
	case "linestring":
		return orb.LineString(bigLine(n, 0, t, e))
	case "ring":
		return orb.Ring(bigLine(n, 0, t, e))
	case "multilinestring-many":
		m := make(orb.MultiLineString, n)
		for i := range m {
			m[i] = bigLine(2, 2*i, t, e)
		}
		return m
	case "multilinestring-one-big":
		gs := place(orb.LineString(bigLine(n, 7, t, e)), orb.LineString(small(1)), orb.LineString(small(5)))
		return orb.MultiLineString{orb.LineString(gs[0].(orb.LineString)), gs[1].(orb.LineString), gs[2].(orb.LineString)}
	case "polygon-many-rings":
		p := make(orb.Polygon, n)
		for i := range p {
			p[i] = bigLine(4, 4*i, t, e)
		}
		return p
	case "polygon-one-big":
		gs := place(orb.Ring(bigLine(n, 7, t, e)), orb.Ring(small(1)), orb.Ring(small(5)))
		return orb.Polygon{gs[0].(orb.Ring), gs[1].(orb.Ring), gs[2].(orb.Ring)}
	case "multipolygon-many":
		m := make(orb.MultiPolygon, n)
		for i := range m {
			m[i] = orb.Polygon{bigLine(4, 4*i, t, e)}
		}
		return m
	case "collection-many":
		col := make(orb.Collection, n)
		for i := range col {
			switch i % 7 {
			case 3:
				a, b := bigPt(i, t, e), bigPt(i+1, t, e)
				col[i] = orb.Bound{Min: orb.Point{math.Min(a[0], b[0]), math.Min(a[1], b[1])}, Max: orb.Point{math.Max(a[0], b[0]), math.Max(a[1], b[1])}}
			case 5:
				col[i] = orb.LineString(bigLine(2, i, t, e))
			default:
				col[i] = bigPt(i, t, e)
			}
		}
		return col
	case "collection-one-big":
		return orb.Collection(place(orb.LineString(bigLine(n, 7, t, e)), bigPt(1, t, e), orb.MultiPoint(small(2))))
	case "nested-chain":
		var g orb.Geometry = bigPt(1, t, e)
		for i := 0; i < n; i++ {
			g = orb.Collection{g}
		}
		return g
	}
	return nil
}

// flattenIter is Flatten without recursion limits mattering: for the nested
// chain the harness walks down iteratively.
func chainLeaf(g orb.Geometry) (orb.Geometry, int) {
	d := 0
	for {
		c, ok := g.(orb.Collection)
		if !ok || len(c) != 1 {
			return g, d
		}
		g = c[0]
		d++
	}
}

func affine(p orb.Point) orb.Point { return orb.Point{2*p[0] + 3, -0.5*p[1] + 1} }

// checkLarge: (1) project.Geometry with a counted pure function against the
// own mapper (every vertex once, order, kind, nesting); (2) the exact layer
// round trip of the same integers through Layer / Layers.
func checkLarge(c Case) error {
	if !c.Tile.valid() || c.Extent == 0 || c.N < 1 {
		return fmt.Errorf("harness: bad large case")
	}
	mt := c.Tile.orb()
	switch c.Shape {
	case "features", "layers":
		// n features in one layer / n layers of one feature, extents cycling
		exts := []uint32{c.Extent, 4096, 1000}
		var set mvt.Layers
		if c.Shape == "features" {
			l := &mvt.Layer{Name: "big", Version: 2, Extent: c.Extent, Features: make([]*geojson.Feature, c.N)}
			for i := range l.Features {
				l.Features[i] = &geojson.Feature{Type: "Feature", Geometry: bigPt(i, c.Tile, c.Extent)}
			}
			set = mvt.Layers{l}
		} else {
			set = make(mvt.Layers, c.N)
			for i := range set {
				e := exts[i%3]
				set[i] = &mvt.Layer{Name: "l", Version: 2, Extent: e, Features: []*geojson.Feature{{Type: "Feature", Geometry: bigPt(i, c.Tile, e)}}}
			}
		}
		set.ProjectToWGS84(mt)
		for i, l := range set {
			for j, f := range l.Features {
				k := i + j
				e := l.Extent
				o := bigPt(k, c.Tile, e)
				w, ok := f.Geometry.(orb.Point)
				if !ok {
					return fmt.Errorf("%s n=%d: layer %d feature %d became %T", c.Shape, c.N, i, j, f.Geometry)
				}
				if err := pixelBoxContains(c.Tile, e, o[0], o[1], w); err != nil {
					return fmt.Errorf("%s n=%d: layer %d feature %d: %w", c.Shape, c.N, i, j, err)
				}
			}
		}
		if c.Pos == "last" {
			for _, l := range set {
				l.ProjectToTile(mt)
			}
		} else {
			set.ProjectToTile(mt)
		}
		if (c.Shape == "layers" && len(set) != c.N) || (c.Shape == "features" && len(set[0].Features) != c.N) {
			return fmt.Errorf("%s n=%d: count changed", c.Shape, c.N)
		}
		for i, l := range set {
			for j, f := range l.Features {
				o := bigPt(i+j, c.Tile, l.Extent)
				if p, ok := f.Geometry.(orb.Point); !ok || p != o {
					return fmt.Errorf("%s n=%d: layer %d feature %d: %v came back as %v", c.Shape, c.N, i, j, o, f.Geometry)
				}
			}
		}
		return nil
	}

	g := buildLarge(c)
	if g == nil {
		return fmt.Errorf("harness: unknown shape %q", c.Shape)
	}
	if c.Shape == "nested-chain" {
		calls := 0
		got := project.Geometry(g, func(p orb.Point) orb.Point { calls++; return affine(p) })
		leaf, d := chainLeaf(got)
		if calls != 1 || d != c.N || leaf != orb.Geometry(affine(bigPt(1, c.Tile, c.Extent))) {
			return fmt.Errorf("nested chain of depth %d: %d calls, depth %d, leaf %v", c.N, calls, d, leaf)
		}
		return nil
	}
	var in []orb.Point
	want := mapGeom(g, affine, &in)
	calls := 0
	var sum [2]float64
	arg := gen.DeepCopy(g)
	got := project.Geometry(arg, func(p orb.Point) orb.Point {
		calls++
		sum[0] += p[0]
		sum[1] += p[1]
		return affine(p)
	})
	var wsum [2]float64
	for _, p := range in {
		wsum[0] += p[0]
		wsum[1] += p[1]
	}
	if calls != len(in) || sum != wsum {
		return fmt.Errorf("%s n=%d pos=%s: projection called %d times (coordinate sums %v) for %d vertices (sums %v)", c.Shape, c.N, c.Pos, calls, sum, len(in), wsum)
	}
	if same, why := gen.SameBits(got, want); !same {
		return fmt.Errorf("%s n=%d pos=%s: %s", c.Shape, c.N, c.Pos, why)
	}
	// exact layer round trip of the integers (bounds keep their corners: min <= max)
	l := layerOf(c.Extent, gen.DeepCopy(g))
	if c.Pos == "first" {
		mvt.Layers{l}.ProjectToWGS84(mt)
	} else {
		l.ProjectToWGS84(mt)
	}
	if err := anchorSample(c, g, l.Features[0].Geometry); err != nil {
		return err
	}
	l.ProjectToTile(mt)
	if same, why := sameInts(g, l.Features[0].Geometry); !same {
		return fmt.Errorf("%s n=%d pos=%s tile %+v extent %d round trip: %s", c.Shape, c.N, c.Pos, c.Tile, c.Extent, why)
	}
	return nil
}

// anchorSample: the WGS84 image has the same structure and every vertex lies in its pixel.
func anchorSample(c Case, orig, got orb.Geometry) error {
	if err := anchor(c.Tile, c.Extent, orig, got); err != nil {
		return fmt.Errorf("%s n=%d pos=%s: %w", c.Shape, c.N, c.Pos, err)
	}
	return nil
}

// TestEnumLarge: the size ladder for every size dimension of the inputs
// (vertices per list, members, rings, polygons, collection members, one huge
// member first/middle/last, nesting depth, features per layer, layers per set).
func TestEnumLarge(t *testing.T) {
	// tops: quick 2^17+3 everywhere. thorough: 2^22+3 vertices for the plain vertex lists, 2^21+3 for one huge
	// member among small ones, 2^20+3 for dimensions that cost one heap object per element (members, rings,
	// polygons, features, layers) and for the nesting depth (see rule.txt for the reasons)
	top, bigTop, objTop := 1<<17+3, 1<<17+3, 1<<17+3
	if stats.Thorough() {
		top, bigTop, objTop = 1<<22+3, 1<<21+3, 1<<20+3
	}
	tiles := []T{enumTiles[4], enumTiles[8], enumTiles[0]}
	exts := []uint32{4096, 1000, 256}
	var idx int64
	for _, shape := range largeShapes {
		lim, cheap, placed := objTop, false, false
		switch shape {
		case "multipoint", "linestring":
			lim, cheap = top, true
		case "ring":
			lim = bigTop
		case "multilinestring-many", "polygon-many-rings", "multipolygon-many":
			lim = (objTop-3)/2 + 3
		case "multilinestring-one-big", "polygon-one-big", "collection-one-big":
			lim, placed = bigTop, true
		case "features", "layers":
			placed = true
		}
		for _, n := range ladder(lim) {
			for pi, pos := range []string{"middle", "first", "last"} {
				if pi > 0 && !placed {
					continue
				}
				if !stats.Thorough() && !quickRung(n) && (!cheap || pi > 0) {
					continue
				}
				idx++
				if !stats.Mine(idx) {
					continue
				}
				k := int(idx) % 3
				c := Case{Kind: "large", Shape: shape, N: n, Pos: pos, Tile: tiles[k], Extent: exts[k]}
				stats.Eval("TestEnumLarge", 1)
				stats.ClassN("large:"+shape, 1)
				stats.NonTrivialHash(stats.Hash(fmt.Sprintf("large/%s/%d/%s", shape, n, pos)))
				stats.TryT(t, "TestEnumLarge", c, func() error { return checkCase(c) })
			}
		}
	}
	top, deepTop := top, objTop
	stats.Subspace(fmt.Sprintf("size ladder {2^k-1,2^k,2^k+1 (k>=6), 10^k-1,10^k,10^k+1, 4095..4097, 65535, 65536} up to %d vertices/members, %d nesting depth, %d features/layers x %d structured shapes", top, deepTop, objTop, len(largeShapes)), idx, true)
}
