package c15

// Round J: layer SETS through every entry point (Layer.* and Layers.*, mixed
// extents, optionally decoded from mvt bytes first), class D (noise calls of
// package project / mvt / maptile around and inside the checked round trips)
// and class A (concurrent callers).

import (
	"fmt"
	"math"
	"runtime"
	"testing"

	"github.com/paulmach/orb"
	"github.com/paulmach/orb/encoding/mvt"
	"github.com/paulmach/orb/geojson"
	"github.com/paulmach/orb/maptile"
	"github.com/paulmach/orb/project"
	"pgregory.net/rapid"

	"verifharness/internal/gen"
	"verifharness/internal/stats"
)

// LayerSpec is one layer of a kind "layers" case.
type LayerSpec struct {
	Extent uint32  `json:"extent"`
	Feats  []gen.G `json:"feats"`
}

// Noise is one call to an entry point that the checked calls do not involve;
// its result is not judged.
type Noise struct {
	Op     string `json:"op"`
	Tile   T      `json:"tile"`
	Extent uint32 `json:"extent"`
	P      gen.P  `json:"p"`
	K      uint64 `json:"k"`
}

// ---------------------------------------------------------------- layer sets

// buildLayers makes fresh mvt layers for a pixels / layergeom / layers case.
// For ViaMVT the set is marshalled and decoded first; when that is not possible
// for this set (the codec's own domain, judged by C03) the direct set is used.
func buildLayers(c Case) mvt.Layers {
	var ls mvt.Layers
	switch c.Kind {
	case "pixels":
		mp := make(orb.MultiPoint, len(c.Pix))
		for i, p := range c.Pix {
			mp[i] = orb.Point{float64(p[0]), float64(p[1])}
		}
		return mvt.Layers{layerOf(c.Extent, mp)}
	case "layergeom":
		return mvt.Layers{layerOf(c.Extent, gen.DeepCopy(c.G.V))}
	}
	for i, sp := range c.Layers {
		l := &mvt.Layer{Name: fmt.Sprintf("l%d", i), Version: 2, Extent: sp.Extent}
		for _, g := range sp.Feats {
			l.Features = append(l.Features, geojson.NewFeature(gen.DeepCopy(g.V)))
		}
		ls = append(ls, l)
	}
	if c.ViaMVT {
		if dec, ok := viaMVT(ls); ok {
			return dec
		}
	}
	return ls
}

func viaMVT(ls mvt.Layers) (out mvt.Layers, ok bool) {
	defer func() {
		if recover() != nil {
			out, ok = nil, false
		}
	}()
	cp := make(mvt.Layers, len(ls))
	for i, l := range ls {
		c := *l
		c.Features = nil
		for _, f := range l.Features {
			c.Features = append(c.Features, geojson.NewFeature(gen.DeepCopy(f.Geometry)))
		}
		cp[i] = &c
	}
	data, err := mvt.Marshal(cp)
	if err != nil {
		return nil, false
	}
	dec, err := mvt.Unmarshal(data)
	if err != nil || len(dec) != len(ls) {
		return nil, false
	}
	for i := range dec {
		if dec[i].Extent != ls[i].Extent || len(dec[i].Features) != len(ls[i].Features) {
			return nil, false
		}
	}
	return dec, true
}

func snapshot(ls mvt.Layers) [][]orb.Geometry {
	out := make([][]orb.Geometry, len(ls))
	for i, l := range ls {
		for _, f := range l.Features {
			out[i] = append(out[i], gen.DeepCopy(f.Geometry))
		}
	}
	return out
}

func toWGS(ls mvt.Layers, t maptile.Tile, plural bool) {
	if plural {
		ls.ProjectToWGS84(t)
		return
	}
	for _, l := range ls {
		l.ProjectToWGS84(t)
	}
}

func toTile(ls mvt.Layers, t maptile.Tile, plural bool) {
	if plural {
		ls.ProjectToTile(t)
		return
	}
	for _, l := range ls {
		l.ProjectToTile(t)
	}
}

// anchor: the WGS84 image of a geometry with integer tile coordinates has the
// same kind and nesting and every vertex lies in its pixel's lon/lat box (a
// bound is the box of its two projected corners: north/south swap).
func anchor(t T, extent uint32, orig, got orb.Geometry) error {
	switch o := orig.(type) {
	case orb.Collection:
		g, ok := got.(orb.Collection)
		if !ok || len(g) != len(o) {
			return fmt.Errorf("ProjectToWGS84 turned %s into %s", gen.Canon(orig), gen.Canon(got))
		}
		for i := range o {
			if err := anchor(t, extent, o[i], g[i]); err != nil {
				return err
			}
		}
		return nil
	case orb.Bound:
		g, ok := got.(orb.Bound)
		if !ok {
			return fmt.Errorf("ProjectToWGS84 turned %s into %s", gen.Canon(orig), gen.Canon(got))
		}
		x0, x1 := math.Min(o.Min[0], o.Max[0]), math.Max(o.Min[0], o.Max[0])
		y0, y1 := math.Min(o.Min[1], o.Max[1]), math.Max(o.Min[1], o.Max[1])
		if err := pixelBoxContains(t, extent, x0, y1, g.Min); err != nil {
			return err
		}
		return pixelBoxContains(t, extent, x1, y0, g.Max)
	}
	so, bo := gen.Flatten(orig)
	sg, bg := gen.Flatten(got)
	if so != sg || len(bo) != len(bg) {
		return fmt.Errorf("ProjectToWGS84 changed the structure %s into %s", so, sg)
	}
	for i := 0; i+1 < len(bo); i += 2 {
		w := orb.Point{math.Float64frombits(bg[i]), math.Float64frombits(bg[i+1])}
		if err := pixelBoxContains(t, extent, math.Float64frombits(bo[i]), math.Float64frombits(bo[i+1]), w); err != nil {
			return err
		}
	}
	return nil
}

func sameInts(orig, got orb.Geometry) (bool, string) {
	so, bo := gen.Flatten(orig)
	sg, bg := gen.Flatten(got)
	if so != sg || len(bo) != len(bg) {
		return false, fmt.Sprintf("structure %s became %s", so, sg)
	}
	for i := range bo {
		if math.Float64frombits(bo[i]) != math.Float64frombits(bg[i]) {
			return false, fmt.Sprintf("coordinate word %d: %v came back as %v", i, math.Float64frombits(bo[i]), math.Float64frombits(bg[i]))
		}
	}
	return true, ""
}

func geomInDomain(t T, extent uint32, g orb.Geometry) bool {
	_, bits := gen.Flatten(g)
	for i := 0; i+1 < len(bits); i += 2 {
		x, y := math.Float64frombits(bits[i]), math.Float64frombits(bits[i+1])
		if x != math.Trunc(x) || y != math.Trunc(y) || !inDomain(t, extent, int64(x), int64(y)) {
			return false
		}
	}
	return true
}

func checkLayers(c Case) error {
	if !c.Tile.valid() || len(c.Layers) == 0 {
		return fmt.Errorf("harness: bad tile %+v or empty layer set", c.Tile)
	}
	for _, sp := range c.Layers {
		if sp.Extent == 0 {
			return fmt.Errorf("harness: extent 0")
		}
		for _, g := range sp.Feats {
			if !geomInDomain(c.Tile, sp.Extent, g.V) {
				return fmt.Errorf("harness: %s outside the domain of tile %+v extent %d", gen.Canon(g.V), c.Tile, sp.Extent)
			}
		}
	}
	ls := buildLayers(c)
	orig := snapshot(ls)
	extents := make([]uint32, len(ls))
	for i, l := range ls {
		extents[i] = l.Extent
	}
	mt := c.Tile.orb()
	toWGS(ls, mt, c.WGSPlural)
	if len(ls) != len(orig) {
		return fmt.Errorf("layer count changed")
	}
	for i, l := range ls {
		if l.Extent != extents[i] || len(l.Features) != len(orig[i]) {
			return fmt.Errorf("layer %d: extent or feature count changed by ProjectToWGS84 (%d -> %d, %d -> %d features)", i, extents[i], l.Extent, len(orig[i]), len(l.Features))
		}
		for j, f := range l.Features {
			if err := anchor(c.Tile, extents[i], orig[i][j], f.Geometry); err != nil {
				return fmt.Errorf("layer %d of %d (extents %v, wgs plural=%v) feature %d: %w", i, len(ls), extents, c.WGSPlural, j, err)
			}
		}
	}
	for _, n := range c.Mid {
		runNoise(n)
	}
	toTile(ls, mt, c.TilePlural)
	for i, l := range ls {
		if l.Extent != extents[i] || len(l.Features) != len(orig[i]) {
			return fmt.Errorf("layer %d: extent or feature count changed by ProjectToTile", i)
		}
		for j, f := range l.Features {
			if same, why := sameInts(orig[i][j], f.Geometry); !same {
				return fmt.Errorf("tile %+v layer %d of %d (extents %v, wgs plural=%v, tile plural=%v, via mvt=%v) feature %d %s: %s", c.Tile, i, len(ls), extents, c.WGSPlural, c.TilePlural, c.ViaMVT, j, gen.Canon(orig[i][j]), why)
			}
		}
	}
	return nil
}

// ---------------------------------------------------------------- observation

func flattenLayers(ls mvt.Layers, out []uint64) []uint64 {
	for _, l := range ls {
		out = append(out, uint64(l.Extent), uint64(len(l.Features)))
		for _, f := range l.Features {
			_, b := gen.Flatten(f.Geometry)
			out = append(out, uint64(len(b)))
			out = append(out, b...)
		}
	}
	return out
}

// observe re-runs the checked calls of the case and returns everything they
// produce as raw words (no judgement).
func observe(c Case) []uint64 {
	var out []uint64
	pt := func(p orb.Point) { out = append(out, math.Float64bits(p[0]), math.Float64bits(p[1])) }
	switch c.Kind {
	case "wgs":
		m := project.WGS84.ToMercator(c.P.Pt())
		pt(m)
		pt(project.Mercator.ToWGS84(m))
	case "merc":
		w := project.Mercator.ToWGS84(c.P.Pt())
		pt(w)
		pt(project.WGS84.ToMercator(w))
	case "pixels", "layergeom", "layers":
		ls := buildLayers(c)
		wp, tp := c.WGSPlural, c.TilePlural
		if c.Kind != "layers" {
			wp, tp = c.Plural, c.Plural
		}
		toWGS(ls, c.Tile.orb(), wp)
		out = flattenLayers(ls, out)
		toTile(ls, c.Tile.orb(), tp)
		out = flattenLayers(ls, out)
	case "geometry":
		if pf, ok := projByName(c.Proj); ok {
			arg := gen.DeepCopy(c.G.V)
			var got orb.Geometry
			if c.Typed {
				got = typedProject(arg, pf.f)
			} else {
				got = project.Geometry(arg, pf.f)
			}
			s, b := gen.Flatten(got)
			out = append(out, stats.Hash(s))
			out = append(out, b...)
		}
	}
	return out
}

// ---------------------------------------------------------------- noise

var noiseOps = []string{"layer-wgs", "layer-tile", "layers-wgs", "layers-tile", "tomercator", "towgs84", "scale", "geometry", "clip", "codec", "collections", "maptile"}

func scratchLayer(extent uint32, k uint64) *mvt.Layer {
	e := float64(extent)
	a, b := float64(k%uint64(extent)), float64((k/7)%uint64(extent))
	return &mvt.Layer{Name: fmt.Sprintf("n%d", k%5), Version: 2, Extent: extent, Features: []*geojson.Feature{
		geojson.NewFeature(orb.MultiPoint{{a, b}, {e - 1, 0}, {-1, e}}),
		geojson.NewFeature(orb.LineString{{0, 0}, {a, b}, {e / 2, e / 2}}),
	}}
}

// runNoise makes one legal call that the checked calls do not involve.
func runNoise(n Noise) {
	t := n.Tile
	if !t.valid() {
		t = T{0, 0, 0}
	}
	ext := n.Extent
	if ext == 0 || ext > 1<<16 {
		ext = 4096
	}
	p := n.P.Pt()
	if !(p[0] >= -180 && p[0] <= 180 && p[1] >= -maxLat && p[1] <= maxLat) {
		p = orb.Point{12.5, 41.9}
	}
	var keep float64
	switch n.Op {
	case "layer-wgs":
		l := scratchLayer(ext, n.K)
		l.ProjectToWGS84(t.orb())
		keep = l.Features[0].Geometry.(orb.MultiPoint)[0][0]
	case "layer-tile":
		l := &mvt.Layer{Name: "n", Version: 2, Extent: ext, Features: []*geojson.Feature{geojson.NewFeature(orb.MultiPoint{p, {p[0] / 2, p[1] / 2}})}}
		l.ProjectToTile(t.orb())
		keep = l.Features[0].Geometry.(orb.MultiPoint)[0][0]
	case "layers-wgs":
		ls := mvt.Layers{scratchLayer(ext, n.K), scratchLayer(4096, n.K+1), scratchLayer(uint32(3+n.K%9000), n.K+2)}
		ls.ProjectToWGS84(t.orb())
		keep = ls[1].Features[0].Geometry.(orb.MultiPoint)[0][0]
	case "layers-tile":
		ls := mvt.Layers{
			{Name: "a", Version: 2, Extent: ext, Features: []*geojson.Feature{geojson.NewFeature(p)}},
			{Name: "b", Version: 2, Extent: 512, Features: []*geojson.Feature{geojson.NewFeature(orb.LineString{p, {0, 0}})}},
		}
		ls.ProjectToTile(t.orb())
		keep = ls[0].Features[0].Geometry.(orb.Point)[0]
	case "tomercator":
		keep = project.WGS84.ToMercator(p)[1]
	case "towgs84":
		keep = project.Mercator.ToWGS84(orb.Point{p[0] * 1e5, p[1] * 2e5})[1]
	case "scale":
		keep = project.MercatorScaleFactor(p)
	case "geometry":
		g := orb.Collection{orb.Polygon{{{0, 0}, {p[0], 0}, {p[0], p[1]}, {0, 0}}}, orb.Bound{Min: orb.Point{-1, -1}, Max: p}, p}
		keep = project.Geometry(g, project.WGS84.ToMercator).(orb.Collection)[2].(orb.Point)[0]
	case "clip":
		ls := mvt.Layers{scratchLayer(ext, n.K)}
		ls.Clip(mvt.MapboxGLDefaultExtentBound)
		keep = float64(len(ls[0].Features))
	case "codec":
		if data, err := mvt.Marshal(mvt.Layers{scratchLayer(ext, n.K), scratchLayer(256, n.K+3)}); err == nil {
			if dec, err := mvt.Unmarshal(data); err == nil {
				keep = float64(len(dec))
			}
		}
	case "collections":
		fc := geojson.NewFeatureCollection()
		fc.Append(geojson.NewFeature(p))
		ls := mvt.NewLayers(map[string]*geojson.FeatureCollection{"a": fc, "b": geojson.NewFeatureCollection()})
		keep = float64(len(ls.ToFeatureCollections()))
	case "maptile":
		mt := maptile.At(p, maptile.Zoom(t.Z))
		b := mt.Bound(0.5)
		keep = b.Min[1] + maptile.Fraction(p, maptile.Zoom(t.Z))[0]
	}
	runtime.KeepAlive(keep)
}

func genNoise(rt *rapid.T, f T) Noise {
	n := Noise{Op: rapid.SampledFrom(noiseOps).Draw(rt, "op")}
	switch rapid.IntRange(0, 3).Draw(rt, "ntile") {
	case 0:
		n.Tile = f
	case 1:
		m := int64(1)<<f.Z - 1
		n.Tile = T{uint32(max(0, min(m, int64(f.X)+int64(rapid.IntRange(-1, 1).Draw(rt, "ndx"))))), uint32(max(0, min(m, int64(f.Y)+int64(rapid.IntRange(-1, 1).Draw(rt, "ndy"))))), f.Z}
	case 2:
		if f.Z < maxZoom {
			n.Tile = T{f.X << 1, f.Y<<1 | 1, f.Z + 1}
		} else {
			n.Tile = T{f.X >> 1, f.Y >> 1, f.Z - 1}
		}
	default:
		n.Tile = genTile(rt)
	}
	n.Extent, _ = genExtent(rt)
	n.P = gen.FromPt(orb.Point{rapid.Float64Range(-180, 180).Draw(rt, "nlon"), rapid.Float64Range(-maxLat, maxLat).Draw(rt, "nlat")})
	n.K = rapid.Uint64Range(0, 1<<40).Draw(rt, "nk")
	stats.Class("noise:" + n.Op)
	return n
}

// ---------------------------------------------------------------- generators

var extentModes = []string{"independent", "first differs, rest equal", "all equal", "power of two first, others not", "non-power-of-two first, others powers of two"}

func drawLayers(rt *rapid.T) (Case, bool) {
	c := Case{Kind: "layers"}
	c.Tile = genTile(rt)
	nl := rapid.IntRange(1, 5).Draw(rt, "layers")
	mode := rapid.IntRange(0, len(extentModes)-1).Draw(rt, "emode")
	exts := make([]uint32, nl)
	nonPow2 := func(label string) uint32 {
		if rapid.Bool().Draw(rt, label+"k") {
			return rapid.SampledFrom(oddExtents).Draw(rt, label)
		}
		for {
			if e := rapid.Uint32Range(3, 10000).Draw(rt, label+"r"); e&(e-1) != 0 {
				return e
			}
		}
	}
	for i := range exts {
		switch mode {
		case 0:
			exts[i], _ = genExtent(rt)
		case 1:
			if i <= 1 {
				exts[i], _ = genExtent(rt)
			} else {
				exts[i] = exts[1]
			}
		case 2:
			if i == 0 {
				exts[i], _ = genExtent(rt)
			} else {
				exts[i] = exts[0]
			}
		case 3:
			if i == 0 {
				exts[i] = rapid.SampledFrom(pow2Extents).Draw(rt, "e0")
			} else {
				exts[i] = nonPow2("eo")
			}
		default:
			if i == 0 {
				exts[i] = nonPow2("e0")
			} else {
				exts[i] = rapid.SampledFrom(pow2Extents).Draw(rt, "ep")
			}
		}
	}
	c.WGSPlural = rapid.IntRange(0, 3).Draw(rt, "wgsplural") > 0
	c.TilePlural = rapid.Bool().Draw(rt, "tileplural")
	c.ViaMVT = rapid.IntRange(0, 3).Draw(rt, "viamvt") == 0
	kinds := []string(nil)
	opts := gen.Opts{Nil: false, NilSlices: true, Empty: true, EmptyMembers: true, Degenerate: true, MaxDepth: 2, MaxLen: 4}
	if c.ViaMVT {
		// what the codec takes without reservations: points, multi-points, lines with >= 2 vertices
		kinds = []string{"Point", "MultiPoint", "LineString"}
		opts = gen.Opts{Kinds: kinds, MaxLen: 4}
	}
	for i := 0; i < nl; i++ {
		e := exts[i]
		lo, hi := rowRange(c.Tile, e)
		o := opts
		o.Coord = rapid.Custom(func(t *rapid.T) float64 { return float64(genPixCoord(t, lo, hi, e, "c")) })
		sp := LayerSpec{Extent: e}
		for j, nf := 0, rapid.IntRange(1, 4).Draw(rt, "feats"); j < nf; j++ {
			g := gen.Geom(o).Draw(rt, "g")
			sp.Feats = append(sp.Feats, gen.G{V: g})
			stats.Class("layer set geometry kind:" + gen.KindOf(g))
		}
		c.Layers = append(c.Layers, sp)
	}
	distinct := map[uint32]bool{}
	for _, e := range exts {
		distinct[e] = true
	}
	stats.Class(fmt.Sprintf("layer set:%d layers", nl))
	stats.Class("layer set extents:" + extentModes[mode])
	if len(distinct) >= 2 {
		stats.Class("layer set:at least two different extents")
	}
	if nl >= 2 && exts[0] != exts[1] {
		stats.Class("layer set:first extent differs from the second")
	}
	stats.Class(fmt.Sprintf("layer set entry points:wgs plural=%v tile plural=%v via mvt=%v", c.WGSPlural, c.TilePlural, c.ViaMVT))
	return c, len(distinct) >= 2
}

func drawAny(rt *rapid.T) (Case, bool) {
	switch rapid.IntRange(0, 9).Draw(rt, "kind") {
	case 8, 9:
		return drawHistory(rt)
	case 0:
		return drawPoint(rt)
	case 1, 2:
		return drawPixels(rt)
	case 3:
		return drawLayerGeom(rt)
	case 4:
		return drawGeometry(rt)
	}
	return drawLayers(rt)
}

func drawNoisy(rt *rapid.T) (Case, bool) {
	c, nt := drawAny(rt)
	f := c.Tile
	if !f.valid() {
		f = T{0, 0, 0}
	}
	for i, k := 0, rapid.IntRange(0, 2).Draw(rt, "npre"); i < k; i++ {
		c.Pre = append(c.Pre, genNoise(rt, f))
	}
	for i, k := 0, rapid.IntRange(1, 3).Draw(rt, "nmid"); i < k; i++ {
		c.Mid = append(c.Mid, genNoise(rt, f))
	}
	return c, nt
}

// ---------------------------------------------------------------- properties

// TestPropLayerSets: sets of 1..5 layers with independently drawn extents,
// several features of any kind per layer, through each combination of the
// singular and plural entry points, optionally decoded from mvt bytes first;
// every layer must get its integers back exactly.
func TestPropLayerSets(t *testing.T) {
	stats.Assume("layer sets that go through mvt.Marshal/Unmarshal first hold points, multi-points and line strings only (what the codec takes without reservations); the integers compared are the ones the decoder returned")
	stats.Check(t, 40000, 500000, func(rt *rapid.T) {
		c, nt := drawLayers(rt)
		if nt {
			stats.NonTrivial(gen.JSON(c))
			if stats.WantSample("layers") && len(gen.JSON(c)) < 1500 {
				stats.Sample("layers", c)
			}
		}
		stats.Try(rt, "TestPropLayerSets", c, func() error { return checkCase(c) })
	})
}

// TestPropNoise: a case of any kind with unrelated calls to project, mvt and
// maptile before it, between the two legs of its round trip and between two
// observations of its checked calls (class D).
func TestPropNoise(t *testing.T) {
	stats.Assume("noise calls are legal calls (Layer/Layers projections of scratch layers with other extents and tiles, the two point projections, MercatorScaleFactor, project.Geometry, Layers.Clip, mvt.Marshal/Unmarshal, NewLayers/ToFeatureCollections, maptile.At/Bound/Fraction); their results are not judged")
	stats.Check(t, 40000, 500000, func(rt *rapid.T) {
		c, nt := drawNoisy(rt)
		stats.Class("noise case kind:" + c.Kind)
		if nt {
			stats.NonTrivial("noise:" + gen.JSON(c))
			if stats.WantSample("noise") && len(gen.JSON(c)) < 2500 {
				stats.Sample("noise", c)
			}
		}
		stats.Try(rt, "TestPropNoise", c, func() error { return checkCase(c) })
	})
}

// TestPropConcurrent evaluates 2..8 independent cases of any kind (with and
// without noise calls) at the same time on separate goroutines (class A).
func TestPropConcurrent(t *testing.T) {
	stats.Check(t, 4000, 100000, func(rt *rapid.T) {
		n := rapid.IntRange(2, 8).Draw(rt, "goroutines")
		cs := make([]Case, n)
		nt := 0
		for i := range cs {
			var ok bool
			if rapid.IntRange(0, 2).Draw(rt, "noisy") == 0 {
				cs[i], ok = drawNoisy(rt)
			} else {
				cs[i], ok = drawAny(rt)
			}
			if ok {
				nt++
			}
		}
		stats.Class(fmt.Sprintf("concurrent:%d goroutines", n))
		if nt >= 2 {
			stats.NonTrivial("conc:" + gen.JSON(cs))
			if stats.WantSample("concurrent") && len(gen.JSON(cs)) < 3000 {
				stats.Sample("concurrent", cs)
			}
		}
		stats.TryParallel(rt, "TestPropConcurrent", cs, n, 20, func(i int) error { return checkCase(cs[i]) })
	})
}

// TestEnumLayerSets: every ordered pair and triple of extents from a fixed list
// x every combination of singular/plural entry points (and decoding from mvt
// bytes) x 6 tiles, fixed features with coordinates inside and around the tile.
func TestEnumLayerSets(t *testing.T) {
	exts := []uint32{256, 512, 4096, 100, 1000}
	tiles := []T{enumTiles[0], enumTiles[1], enumTiles[3], enumTiles[4], enumTiles[8], enumTiles[10]}
	feats := func(tl T, e uint32) []gen.G {
		lo, hi := rowRange(tl, e)
		cl := func(v int64) float64 { return float64(max(lo, min(hi-1, v))) }
		E := int64(e)
		return []gen.G{
			{V: orb.MultiPoint{{0, 0}, {float64(E - 1), cl(E - 1)}, {float64(E / 2), cl(E / 3)}, {float64(-E), cl(-E)}, {float64(2*E - 1), cl(2*E - 1)}, {1, cl(E)}, {float64(E), 1}}},
			{V: orb.LineString{{3, 5}, {float64(E / 7), cl(E - 2)}, {float64(-1), cl(-1)}}},
			{V: orb.Point{float64(E / 5), cl(E / 9)}},
		}
	}
	var sets [][]uint32
	for _, a := range exts {
		for _, b := range exts {
			sets = append(sets, []uint32{a, b})
			for _, c := range exts {
				sets = append(sets, []uint32{a, b, c})
			}
		}
	}
	var idx int64
	for _, tl := range tiles {
		for _, set := range sets {
			for mode := 0; mode < 8; mode++ {
				idx++
				if !stats.Mine(idx) {
					continue
				}
				c := Case{Kind: "layers", Tile: tl, WGSPlural: mode&1 != 0, TilePlural: mode&2 != 0, ViaMVT: mode&4 != 0}
				for _, e := range set {
					c.Layers = append(c.Layers, LayerSpec{Extent: e, Feats: feats(tl, e)})
				}
				stats.Eval("TestEnumLayerSets", 1)
				if set[0] != set[1] || (len(set) > 2 && set[2] != set[0]) {
					stats.NonTrivial(gen.JSON(c))
				}
				stats.TryT(t, "TestEnumLayerSets", c, func() error { return checkCase(c) })
			}
		}
	}
	stats.Subspace(fmt.Sprintf("every ordered pair and triple of extents from %v x singular/plural ProjectToWGS84 x singular/plural ProjectToTile x direct/decoded-from-mvt x 6 tiles", exts), idx, true)
}
