// Package c15 decides property C15 (projections invert each other and
// transform every vertex) by generated search and pixel enumeration against
// the harness's own web-mercator formulas and its own geometry mapper.
package c15

import (
	"encoding/json"
	"fmt"
	"math"
	"sort"
	"testing"

	"github.com/paulmach/orb"
	"github.com/paulmach/orb/encoding/mvt"
	"github.com/paulmach/orb/geojson"
	"github.com/paulmach/orb/maptile"
	"github.com/paulmach/orb/project"
	"pgregory.net/rapid"

	"verifharness/internal/gen"
	"verifharness/internal/stats"
)

func TestMain(m *testing.M) { stats.Main(m, "C15") }

// ---------------------------------------------------------------- case

// T is a tile in replay files.
type T struct {
	X uint32 `json:"x"`
	Y uint32 `json:"y"`
	Z uint32 `json:"z"`
}

// Case is one generated input (also the replay format).
//
//	kind "wgs":       P = lon/lat; WGS84 -> Mercator -> WGS84
//	kind "merc":      P = mercator metres; Mercator -> WGS84 -> Mercator
//	kind "pixels":    Tile, Extent, Pix = integer tile coordinates; layer -> WGS84 -> tile
//	kind "layergeom": Tile, Extent, G = geometry with integer tile coordinates; same round trip
//	kind "geometry":  G, Proj = name of the point function, Typed = call the per-kind helper instead of project.Geometry
type Case struct {
	Kind   string     `json:"kind"`
	P      gen.P      `json:"p"`
	Tile   T          `json:"tile"`
	Extent uint32     `json:"extent"`
	Pix    [][2]int32 `json:"pix,omitempty"`
	G      gen.G      `json:"g"`
	Proj   string     `json:"proj,omitempty"`
	Typed  bool       `json:"typed,omitempty"`
	Plural bool       `json:"plural,omitempty"` // use Layers.Project… instead of Layer.Project…

	// kind "layers": a set of layers with their own extents and features, see roundj_test.go
	Layers     []LayerSpec `json:"layers,omitempty"`
	WGSPlural  bool        `json:"wgs_plural,omitempty"`  // Layers.ProjectToWGS84 on the whole set (else Layer.ProjectToWGS84 on each)
	TilePlural bool        `json:"tile_plural,omitempty"` // Layers.ProjectToTile on the whole set (else Layer.ProjectToTile on each)
	ViaMVT     bool        `json:"via_mvt,omitempty"`     // the set goes through mvt.Marshal / mvt.Unmarshal first

	// kind "history" (round L, class L3): Layers = initial set, Ops = calls and caller-side mutations on the reused values
	Ops []Op `json:"ops,omitempty"`
	// kind "large" (round L, class L1): a structured shape of size N (see roundl_test.go)
	Shape string `json:"shape,omitempty"`
	N     int    `json:"n,omitempty"`
	Pos   string `json:"pos,omitempty"`
	// Method: the projection is passed as a bound method value instead of a closure (class L2)
	Method bool `json:"method,omitempty"`

	// noise calls (class D): Pre before the first judgement, Mid between the two legs of a
	// round trip and between two observations of the checked calls
	Pre []Noise `json:"pre,omitempty"`
	Mid []Noise `json:"mid,omitempty"`
}

const (
	tolDeg    = 1e-9 // WGS84 -> Mercator -> WGS84, degrees (the statement)
	tolMetre  = 1e-3 // Mercator -> WGS84 -> Mercator, metres (the statement)
	tolAnchor = 1e-9 // own formula vs orb: relative to (1 + |value|), both units
	maxLat    = 85.05
	earthR    = 6378137.0
	maxZoom   = 22
)

// ---------------------------------------------------------------- own formulas

func ownToMercator(lon, lat float64) (float64, float64) {
	return earthR * lon * math.Pi / 180, earthR * math.Asinh(math.Tan(lat*math.Pi/180))
}

func ownToWGS84(x, y float64) (float64, float64) {
	return x / earthR * 180 / math.Pi, math.Atan(math.Sinh(y/earthR)) * 180 / math.Pi
}

// lon/lat of the world fraction (0..1 from west / from north)
func fracLon(f float64) float64 { return f*360 - 180 }
func fracLat(f float64) float64 { return math.Atan(math.Sinh(math.Pi*(1-2*f))) * 180 / math.Pi }

func near(a, b, tol float64) bool { return math.Abs(a-b) <= tol*(1+math.Abs(b)) }

// nearMetre compares mercator metres: 1e-9 relative plus one micrometre
// absolute (log(tan(pi/4 + lat/2)) near the equator carries an absolute error of
// about R * 2^-52 = 1.4e-9 m however small the value is).
func nearMetre(a, b float64) bool { return math.Abs(a-b) <= 1e-6+tolAnchor*math.Abs(b) }

// ---------------------------------------------------------------- point round trips

func checkWGS(p orb.Point) error {
	if !(p[0] >= -180 && p[0] <= 180 && p[1] >= -maxLat && p[1] <= maxLat) {
		return fmt.Errorf("harness: point %v outside the quantifier", p)
	}
	m := project.WGS84.ToMercator(p)
	ox, oy := ownToMercator(p[0], p[1])
	if !nearMetre(m[0], ox) || !nearMetre(m[1], oy) {
		return fmt.Errorf("WGS84.ToMercator(%v) = %v, web mercator gives (%v, %v) (tolerance 1e-6 m + %g relative)", p, m, ox, oy, tolAnchor)
	}
	q := project.Mercator.ToWGS84(m)
	if !(math.Abs(q[0]-p[0]) <= tolDeg) || !(math.Abs(q[1]-p[1]) <= tolDeg) {
		return fmt.Errorf("WGS84 -> Mercator -> WGS84 of %v = %v (via %v): off by (%g, %g) deg, tolerance %g", p, q, m, q[0]-p[0], q[1]-p[1], tolDeg)
	}
	return nil
}

var mercMaxX = earthR * math.Pi

func mercMaxY() float64 { _, y := ownToMercator(0, maxLat); return y }

func checkMerc(m orb.Point) error {
	if !(math.Abs(m[0]) <= mercMaxX && math.Abs(m[1]) <= mercMaxY()) {
		return fmt.Errorf("harness: mercator point %v outside the quantifier", m)
	}
	w := project.Mercator.ToWGS84(m)
	ol, oa := ownToWGS84(m[0], m[1])
	if !near(w[0], ol, tolAnchor) || !near(w[1], oa, tolAnchor) {
		return fmt.Errorf("Mercator.ToWGS84(%v) = %v, web mercator gives (%v, %v) (relative tolerance %g)", m, w, ol, oa, tolAnchor)
	}
	m2 := project.WGS84.ToMercator(w)
	if !(math.Abs(m2[0]-m[0]) <= tolMetre) || !(math.Abs(m2[1]-m[1]) <= tolMetre) {
		return fmt.Errorf("Mercator -> WGS84 -> Mercator of %v = %v (via %v): off by (%g, %g) m, tolerance %g", m, m2, w, m2[0]-m[0], m2[1]-m[1], tolMetre)
	}
	return nil
}

// ---------------------------------------------------------------- tile pixels

func (t T) valid() bool {
	return t.Z <= maxZoom && uint64(t.X) < uint64(1)<<t.Z && uint64(t.Y) < uint64(1)<<t.Z
}

func (t T) orb() maptile.Tile { return maptile.Tile{X: t.X, Y: t.Y, Z: maptile.Zoom(t.Z)} } // literal, not maptile.New

// rowRange is the range [lo, hi) of tile y coordinates that the check uses:
// all of [-extent, 2*extent) from zoom 2 on (rows above/below the mercator
// square included: they have a latitude below 89 degrees and do come back);
// at zoom 0 and 1 only the rows inside the mercator square (the buffer rows
// there reach latitudes beyond 89.19 degrees where mercator.ToPlanar clamps).
func rowRange(t T, extent uint32) (int64, int64) {
	e := int64(extent)
	lo, hi := -e, 2*e
	if t.Z >= 2 {
		return lo, hi
	}
	if top := -int64(t.Y) * e; top > lo {
		lo = top
	}
	if bot := (int64(1)<<t.Z - int64(t.Y)) * e; bot < hi {
		hi = bot
	}
	return lo, hi
}

// restricted reports how many of the 3*extent rows of [-extent, 2*extent) are
// left out for this tile (non-zero only at zoom 0 and 1).
func restricted(t T, extent uint32) int64 {
	lo, hi := rowRange(t, extent)
	return 3*int64(extent) - (hi - lo)
}

func shard0() bool { i, _ := stats.Shard(); return i == 0 }

const leftOutClass = "domain:tile at zoom 0-1 whose buffer rows above/below the world are left out"

func inDomain(t T, extent uint32, x, y int64) bool {
	e := int64(extent)
	lo, hi := rowRange(t, extent)
	return x >= -e && x < 2*e && y >= lo && y < hi
}

// pixelBoxContains: the WGS84 image w of the integer tile coordinate (px, py)
// lies in the closed lon/lat box of that pixel (own mercator formula), within
// 1e-9 degrees.
func pixelBoxContains(t T, extent uint32, px, py float64, w orb.Point) error {
	n := math.Ldexp(1, int(t.Z))
	e := float64(extent)
	fx0, fx1 := (float64(t.X)+px/e)/n, (float64(t.X)+(px+1)/e)/n
	fy0, fy1 := (float64(t.Y)+py/e)/n, (float64(t.Y)+(py+1)/e)/n
	lon0, lon1 := fracLon(fx0), fracLon(fx1)
	lat1, lat0 := fracLat(fy0), fracLat(fy1) // north edge is the smaller row fraction
	if !(w[0] >= lon0-tolDeg && w[0] <= lon1+tolDeg && w[1] >= lat0-tolDeg && w[1] <= lat1+tolDeg) {
		return fmt.Errorf("tile %+v extent %d: coordinate (%v, %v) projects to %v, outside its pixel [%v, %v] x [%v, %v]", t, extent, px, py, w, lon0, lon1, lat0, lat1)
	}
	return nil
}

func layerOf(extent uint32, g orb.Geometry) *mvt.Layer {
	return &mvt.Layer{Name: "l", Version: 2, Extent: extent, Features: []*geojson.Feature{geojson.NewFeature(g)}}
}

func roundTrip(l *mvt.Layer, t maptile.Tile, plural bool, between []Noise, mid func(orb.Geometry) error) error {
	if plural {
		mvt.Layers{l}.ProjectToWGS84(t)
	} else {
		l.ProjectToWGS84(t)
	}
	for _, n := range between {
		runNoise(n)
	}
	if mid != nil {
		if err := mid(l.Features[0].Geometry); err != nil {
			return err
		}
	}
	if plural {
		mvt.Layers{l}.ProjectToTile(t)
	} else {
		l.ProjectToTile(t)
	}
	return nil
}

func checkPixels(c Case) error {
	if !c.Tile.valid() || c.Extent == 0 {
		return fmt.Errorf("harness: bad tile/extent %+v %d", c.Tile, c.Extent)
	}
	mp := make(orb.MultiPoint, len(c.Pix))
	for i, p := range c.Pix {
		if !inDomain(c.Tile, c.Extent, int64(p[0]), int64(p[1])) {
			return fmt.Errorf("harness: coordinate %v outside the domain of tile %+v extent %d", p, c.Tile, c.Extent)
		}
		mp[i] = orb.Point{float64(p[0]), float64(p[1])}
	}
	l := layerOf(c.Extent, mp)
	err := roundTrip(l, c.Tile.orb(), c.Plural, c.Mid, func(g orb.Geometry) error {
		w, ok := g.(orb.MultiPoint)
		if !ok || len(w) != len(c.Pix) {
			return fmt.Errorf("ProjectToWGS84 turned a %d-point MultiPoint into %T of length %d", len(c.Pix), g, len(w))
		}
		for i, p := range c.Pix {
			if err := pixelBoxContains(c.Tile, c.Extent, float64(p[0]), float64(p[1]), w[i]); err != nil {
				return err
			}
		}
		return nil
	})
	if err != nil {
		return err
	}
	got, ok := l.Features[0].Geometry.(orb.MultiPoint)
	if !ok || len(got) != len(c.Pix) {
		return fmt.Errorf("round trip turned a %d-point MultiPoint into %T of length %d", len(c.Pix), l.Features[0].Geometry, len(got))
	}
	for i, p := range c.Pix {
		if got[i][0] != float64(p[0]) || got[i][1] != float64(p[1]) {
			return fmt.Errorf("tile %+v extent %d: coordinate %v came back as %v", c.Tile, c.Extent, p, got[i])
		}
	}
	return nil
}

func checkLayerGeom(c Case) error {
	if !c.Tile.valid() || c.Extent == 0 {
		return fmt.Errorf("harness: bad tile/extent %+v %d", c.Tile, c.Extent)
	}
	orig := gen.DeepCopy(c.G.V)
	l := layerOf(c.Extent, gen.DeepCopy(c.G.V))
	if err := roundTrip(l, c.Tile.orb(), c.Plural, c.Mid, func(g orb.Geometry) error {
		// same kind and nesting in WGS84 too
		sa, _ := gen.Flatten(orig)
		sb, _ := gen.Flatten(g)
		if sa != sb {
			return fmt.Errorf("ProjectToWGS84 changed the structure %s into %s", sa, sb)
		}
		return nil
	}); err != nil {
		return err
	}
	got := l.Features[0].Geometry
	sa, ba := gen.Flatten(orig)
	sb, bb := gen.Flatten(got)
	if sa != sb || len(ba) != len(bb) {
		return fmt.Errorf("round trip changed the structure %s into %s", sa, sb)
	}
	for i := range ba {
		if math.Float64frombits(ba[i]) != math.Float64frombits(bb[i]) {
			return fmt.Errorf("tile %+v extent %d: coordinate word %d of %s: %v came back as %v", c.Tile, c.Extent, i, sa, math.Float64frombits(ba[i]), math.Float64frombits(bb[i]))
		}
	}
	return nil
}

// ---------------------------------------------------------------- project.Geometry

type projFn struct {
	name string
	f    func(orb.Point) orb.Point
	geo  bool // needs lon/lat (or metre) inputs to stay finite
}

var projs = []projFn{
	{"identity", func(p orb.Point) orb.Point { return p }, false},
	{"rot90", func(p orb.Point) orb.Point { return orb.Point{-p[1], p[0]} }, false},
	{"affine-flip", func(p orb.Point) orb.Point { return orb.Point{2*p[0] + 3, -0.5*p[1] + 1} }, false},
	{"swap", func(p orb.Point) orb.Point { return orb.Point{p[1], p[0]} }, false},
	{"const", func(p orb.Point) orb.Point { return orb.Point{7, -3} }, false},
	{"negate", func(p orb.Point) orb.Point { return orb.Point{-p[0] - 1, -p[1] - 1} }, false},
	// corner cases of the bound helpers project.Bound relies on: both corners at the origin (the zero Bound),
	// a corner on an axis, zero width / height, a negative zero on an edge, corners closer than any epsilon
	{"origin", func(p orb.Point) orb.Point { return orb.Point{0, 0} }, false},
	{"collapse-x", func(p orb.Point) orb.Point { return orb.Point{0, p[1]} }, false},
	{"neg-zero-y", func(p orb.Point) orb.Point { return orb.Point{p[0], math.Copysign(0, -1)} }, false},
	{"shift-to-origin", func(p orb.Point) orb.Point { return orb.Point{p[0] - math.Floor(p[0]), p[1] - math.Floor(p[1])} }, false},
	{"tiny", func(p orb.Point) orb.Point { return orb.Point{p[0] * 1e-12, p[1] * 1e-300} }, false},
	{"WGS84.ToMercator", project.WGS84.ToMercator, true},
	{"Mercator.ToWGS84", project.Mercator.ToWGS84, true},
}

func projByName(name string) (projFn, bool) {
	for _, p := range projs {
		if p.name == name {
			return p, true
		}
	}
	return projFn{}, false
}

// mapGeom is the harness's own mapper: a fresh geometry of the same kind and
// nesting with f applied to every vertex; a bound becomes the box of its two
// projected corners. in receives every vertex in traversal order.
func mapGeom(g orb.Geometry, f func(orb.Point) orb.Point, in *[]orb.Point) orb.Geometry {
	pts := func(ps []orb.Point) []orb.Point {
		out := make([]orb.Point, len(ps))
		for i, p := range ps {
			*in = append(*in, p)
			out[i] = f(p)
		}
		return out
	}
	switch v := g.(type) {
	case nil:
		return nil
	case orb.Point:
		*in = append(*in, v)
		return f(v)
	case orb.MultiPoint:
		return orb.MultiPoint(pts(v))
	case orb.LineString:
		return orb.LineString(pts(v))
	case orb.Ring:
		return orb.Ring(pts(v))
	case orb.MultiLineString:
		out := make(orb.MultiLineString, len(v))
		for i := range v {
			out[i] = pts(v[i])
		}
		return out
	case orb.Polygon:
		out := make(orb.Polygon, len(v))
		for i := range v {
			out[i] = pts(v[i])
		}
		return out
	case orb.MultiPolygon:
		out := make(orb.MultiPolygon, len(v))
		for i := range v {
			out[i] = make(orb.Polygon, len(v[i]))
			for j := range v[i] {
				out[i][j] = pts(v[i][j])
			}
		}
		return out
	case orb.Collection:
		out := make(orb.Collection, len(v))
		for i := range v {
			out[i] = mapGeom(v[i], f, in)
		}
		return out
	case orb.Bound:
		*in = append(*in, v.Min, v.Max)
		a, b := f(v.Min), f(v.Max)
		return orb.Bound{
			Min: orb.Point{math.Min(a[0], b[0]), math.Min(a[1], b[1])},
			Max: orb.Point{math.Max(a[0], b[0]), math.Max(a[1], b[1])},
		}
	}
	panic(fmt.Sprintf("mapGeom: %T", g))
}

func typedProject(g orb.Geometry, f orb.Projection) orb.Geometry {
	switch v := g.(type) {
	case orb.Point:
		return project.Point(v, f)
	case orb.MultiPoint:
		return project.MultiPoint(v, f)
	case orb.LineString:
		return project.LineString(v, f)
	case orb.Ring:
		return project.Ring(v, f)
	case orb.MultiLineString:
		return project.MultiLineString(v, f)
	case orb.Polygon:
		return project.Polygon(v, f)
	case orb.MultiPolygon:
		return project.MultiPolygon(v, f)
	case orb.Collection:
		return project.Collection(v, f)
	case orb.Bound:
		return project.Bound(v, f)
	}
	return project.Geometry(g, f)
}

func sortPts(ps []orb.Point) {
	sort.Slice(ps, func(i, j int) bool {
		a, b := ps[i], ps[j]
		if a0, b0 := math.Float64bits(a[0]), math.Float64bits(b[0]); a0 != b0 {
			return a0 < b0
		}
		return math.Float64bits(a[1]) < math.Float64bits(b[1])
	})
}

func checkGeometry(c Case) error {
	pf, ok := projByName(c.Proj)
	if !ok {
		return fmt.Errorf("harness: unknown projection %q", c.Proj)
	}
	var wantIn []orb.Point
	want := mapGeom(c.G.V, pf.f, &wantIn)

	var calls []orb.Point
	var logged orb.Projection = func(p orb.Point) orb.Point {
		calls = append(calls, p)
		return pf.f(p)
	}
	if c.Method {
		// the same logger as a bound method value of a pointer receiver
		lg := &callLogger{f: pf.f, calls: &calls}
		logged = lg.apply
	}
	arg := gen.DeepCopy(c.G.V)
	var got orb.Geometry
	if c.Typed {
		got = typedProject(arg, logged)
	} else {
		got = project.Geometry(arg, logged)
	}

	// every vertex exactly once (the order of the calls is not part of the statement)
	if len(calls) != len(wantIn) {
		return fmt.Errorf("%s over %s: projection called %d times for %d vertices", c.Proj, gen.Canon(c.G.V), len(calls), len(wantIn))
	}
	a, b := append([]orb.Point{}, calls...), append([]orb.Point{}, wantIn...)
	sortPts(a)
	sortPts(b)
	for i := range a {
		if math.Float64bits(a[i][0]) != math.Float64bits(b[i][0]) || math.Float64bits(a[i][1]) != math.Float64bits(b[i][1]) {
			return fmt.Errorf("%s over %s: the projection was called with %v, which is not the vertex multiset (first difference: %v vs %v)", c.Proj, gen.Canon(c.G.V), calls, a[i], b[i])
		}
	}
	// kind, nesting, order, value
	// (coordinates are compared bit for bit, except that -0 and +0 count as the same coordinate:
	// the box of corners -0 and +0 may carry either zero)
	sg, bg := gen.Flatten(got)
	sw, bw := gen.Flatten(want)
	if sg != sw || len(bg) != len(bw) {
		return fmt.Errorf("%s over %s returned %s, want %s: structure %s vs %s", c.Proj, gen.Canon(c.G.V), gen.Canon(got), gen.Canon(want), sg, sw)
	}
	for i := range bg {
		if bg[i] != bw[i] && math.Float64frombits(bg[i]) != math.Float64frombits(bw[i]) {
			return fmt.Errorf("%s over %s returned %s, want %s: coordinate word %d: %v vs %v", c.Proj, gen.Canon(c.G.V), gen.Canon(got), gen.Canon(want), i, math.Float64frombits(bg[i]), math.Float64frombits(bw[i]))
		}
	}
	return nil
}

// checkCase judges the case; when it carries noise calls the order is: Pre
// noise, judgement (with the Mid noise between the two legs of a round trip),
// observation, Mid noise, observation (must equal the first bit for bit),
// judgement again.
func checkCase(c Case) error {
	if len(c.Pre) == 0 && len(c.Mid) == 0 {
		return checkCore(c)
	}
	for _, n := range c.Pre {
		runNoise(n)
	}
	if err := checkCore(c); err != nil {
		return fmt.Errorf("with noise calls %s / %s: %w", gen.JSON(c.Pre), gen.JSON(c.Mid), err)
	}
	before := observe(c)
	for _, n := range c.Mid {
		runNoise(n)
	}
	after := observe(c)
	if len(before) != len(after) {
		return fmt.Errorf("the checked calls returned %d words before and %d after the noise calls %s", len(before), len(after), gen.JSON(c.Mid))
	}
	for i := range before {
		if before[i] != after[i] {
			return fmt.Errorf("checked value %d changed from %v to %v across the noise calls %s", i, math.Float64frombits(before[i]), math.Float64frombits(after[i]), gen.JSON(c.Mid))
		}
	}
	if err := checkCore(c); err != nil {
		return fmt.Errorf("after the noise calls %s: %w", gen.JSON(c.Mid), err)
	}
	return nil
}

func checkCore(c Case) error {
	switch c.Kind {
	case "layers":
		return checkLayers(c)
	case "history":
		return checkHistory(c)
	case "large":
		return checkLarge(c)
	case "wgs":
		return checkWGS(c.P.Pt())
	case "merc":
		return checkMerc(c.P.Pt())
	case "pixels":
		return checkPixels(c)
	case "layergeom":
		return checkLayerGeom(c)
	case "geometry":
		return checkGeometry(c)
	}
	return fmt.Errorf("unknown case kind %q", c.Kind)
}

// ---------------------------------------------------------------- generators

var pow2Extents = []uint32{256, 512, 1024, 2048, 4096, 8192}
var oddExtents = []uint32{100, 1000, 3000, 4095}

func genExtent(rt *rapid.T) (uint32, string) {
	switch rapid.IntRange(0, 9).Draw(rt, "ek") {
	case 0, 1, 2, 3, 4:
		return rapid.SampledFrom(pow2Extents).Draw(rt, "e2"), "extent:power of two"
	case 5, 6, 7:
		return rapid.SampledFrom(oddExtents).Draw(rt, "eo"), "extent:non-power-of-two (100,1000,3000,4095)"
	}
	for {
		e := rapid.Uint32Range(3, 10000).Draw(rt, "er")
		if e&(e-1) != 0 {
			return e, "extent:non-power-of-two (random 3..10000)"
		}
	}
}

func genTile(rt *rapid.T) T {
	z := rapid.Uint32Range(0, maxZoom).Draw(rt, "z")
	if rapid.IntRange(0, 5).Draw(rt, "zk") == 0 {
		z = rapid.SampledFrom([]uint32{0, 1, 10, 21, 22}).Draw(rt, "zs")
	}
	m := uint32(uint64(1)<<z - 1)
	co := func(label string) uint32 {
		switch rapid.IntRange(0, 5).Draw(rt, label+"k") {
		case 0:
			return 0
		case 1:
			return m
		case 2:
			return m / 2
		}
		return rapid.Uint32Range(0, m).Draw(rt, label)
	}
	return T{co("x"), co("y"), z}
}

func genPixCoord(rt *rapid.T, lo, hi int64, extent uint32, label string) int64 {
	e := int64(extent)
	var v int64
	switch rapid.IntRange(0, 7).Draw(rt, label+"k") {
	case 0:
		v = rapid.SampledFrom([]int64{0, e - 1, e, -1, -e, 2*e - 1, e / 2, 1}).Draw(rt, label+"s")
	case 1, 2:
		v = rapid.Int64Range(0, e-1).Draw(rt, label+"in")
	default:
		v = rapid.Int64Range(lo, hi-1).Draw(rt, label)
	}
	if v < lo {
		v = lo
	}
	if v >= hi {
		v = hi - 1
	}
	return v
}

func zoomClass(z uint32) string {
	switch {
	case z == 0:
		return "zoom:0"
	case z < 10:
		return "zoom:1-9"
	case z < 20:
		return "zoom:10-19"
	}
	return "zoom:20-22"
}

// ---------------------------------------------------------------- properties

func TestPropPoint(t *testing.T) {
	stats.Assume("WGS84 points have longitude in [-180,180] and latitude in [-85.05,85.05]; mercator points lie in the image of that box")
	stats.Assume("besides the stated round-trip tolerances (1e-9 deg, 1e-3 m) each single projection is compared with the spherical web-mercator formula (R = 6378137 m): degrees within 1e-9 x (1 + |value|), metres within 1e-6 m + 1e-9 x |value|")
	stats.Check(t, 600000, 8000000, func(rt *rapid.T) {
		c, nt := drawPoint(rt)
		if nt {
			stats.NonTrivial(gen.JSON(c))
			if g := c.Kind; stats.WantSample(g) && len(gen.JSON(c)) < 1500 {
				stats.Sample(g, c)
			}
		}
		stats.Try(rt, "TestPropPoint", c, func() error { return checkCase(c) })
	})
}

// drawPoint draws one case of TestPropPoint and reports whether it is non-trivial.
func drawPoint(rt *rapid.T) (Case, bool) {
	{
		var c Case
		var p orb.Point
		if rapid.Bool().Draw(rt, "merc") {
			c.Kind = "merc"
			co := func(lim float64, label string) float64 {
				switch rapid.IntRange(0, 7).Draw(rt, label+"k") {
				case 0:
					return rapid.SampledFrom([]float64{0, lim, -lim, math.Nextafter(lim, 0), -math.Nextafter(lim, 0), 1, -1, 1e-9, 0.5, 1e7, -1e7, math.Copysign(0, -1), 5e-324}).Draw(rt, label+"s")
				case 1:
					return float64(rapid.IntRange(-20000000, 20000000).Draw(rt, label+"i"))
				case 2:
					return rapid.Float64Range(-1000, 1000).Draw(rt, label+"near0")
				}
				return rapid.Float64Range(-lim, lim).Draw(rt, label)
			}
			p = orb.Point{co(mercMaxX, "x"), co(mercMaxY(), "y")}
			stats.Class("point:mercator")
		} else {
			c.Kind = "wgs"
			lon := func() float64 {
				switch rapid.IntRange(0, 7).Draw(rt, "lonk") {
				case 0:
					return rapid.SampledFrom([]float64{0, 180, -180, math.Nextafter(180, 0), math.Nextafter(-180, 0), 1e-7, -1e-7, 90, -90, math.Copysign(0, -1), 5e-324, 1e-300}).Draw(rt, "lons")
				case 1:
					return float64(rapid.IntRange(-180, 180).Draw(rt, "loni"))
				}
				return rapid.Float64Range(-180, 180).Draw(rt, "lon")
			}
			lat := func() float64 {
				switch rapid.IntRange(0, 7).Draw(rt, "latk") {
				case 0:
					return rapid.SampledFrom([]float64{0, maxLat, -maxLat, math.Nextafter(maxLat, 0), -math.Nextafter(maxLat, 0), 85, -85, 1e-7, -1e-7, 45, -45, math.Copysign(0, -1), 5e-324, 1e-300, 66.51326044311186}).Draw(rt, "lats")
				case 1:
					return float64(rapid.IntRange(-85, 85).Draw(rt, "lati"))
				case 2:
					// high latitudes, where the inverse is least accurate
					s := float64(rapid.IntRange(0, 1).Draw(rt, "lats2")*2 - 1)
					return s * rapid.Float64Range(80, maxLat).Draw(rt, "lathigh")
				}
				return rapid.Float64Range(-maxLat, maxLat).Draw(rt, "lat")
			}
			p = orb.Point{lon(), lat()}
			stats.Class("point:wgs84")
			if math.Abs(p[1]) >= 80 {
				stats.Class("point:wgs84 |lat| >= 80")
			}
		}
		c.P = gen.FromPt(p)
		return c, p[0] != 0 && p[1] != 0
	}
}

func TestPropPixels(t *testing.T) {
	stats.Assume("tiles have zoom 0..22; integer tile coordinates lie in [-extent, 2*extent); at zoom 0 and 1 only rows inside the mercator square are used (buffer rows there lie beyond latitude 89.19 where mercator.ToPlanar clamps: tile 0/0/0 extent 256 (5,-200) comes back as (5,255)); from zoom 2 on rows above/below the square and columns beyond +-180 are included")
	stats.Assume("besides the exact round trip, the WGS84 image of an integer tile coordinate must lie in the closed lon/lat box of that pixel (own mercator formula, 1e-9 deg)")
	stats.Check(t, 100000, 1200000, func(rt *rapid.T) {
		c, nt := drawPixels(rt)
		if nt {
			stats.NonTrivial(gen.JSON(c))
			if g := "pixels"; stats.WantSample(g) && len(gen.JSON(c)) < 1500 {
				stats.Sample(g, c)
			}
		}
		stats.Try(rt, "TestPropPixels", c, func() error { return checkCase(c) })
	})
}

// drawPixels draws one case of TestPropPixels and reports whether it is non-trivial.
func drawPixels(rt *rapid.T) (Case, bool) {
	{
		c := Case{Kind: "pixels"}
		c.Tile = genTile(rt)
		var ec string
		c.Extent, ec = genExtent(rt)
		c.Plural = rapid.IntRange(0, 9).Draw(rt, "plural") == 0
		lo, hi := rowRange(c.Tile, c.Extent)
		e := int64(c.Extent)
		n := rapid.IntRange(1, 48).Draw(rt, "n")
		outside := false
		for i := 0; i < n; i++ {
			x := genPixCoord(rt, -e, 2*e, c.Extent, "px")
			y := genPixCoord(rt, lo, hi, c.Extent, "py")
			if x < 0 || x >= e || y < 0 || y >= e {
				outside = true
			}
			c.Pix = append(c.Pix, [2]int32{int32(x), int32(y)})
		}
		stats.Class(ec)
		if restricted(c.Tile, c.Extent) > 0 {
			stats.Class(leftOutClass)
		}
		stats.Class("pixels " + zoomClass(c.Tile.Z))
		stats.ClassN("pixel round trips (rapid)", int64(n))
		return c, c.Tile.Z >= 10 || outside
	}
}

func nested(g orb.Geometry) bool {
	switch g.(type) {
	case orb.MultiLineString, orb.Polygon, orb.MultiPolygon, orb.Collection:
		return true
	}
	return false
}

func TestPropLayerGeometry(t *testing.T) {
	stats.Check(t, 60000, 800000, func(rt *rapid.T) {
		c, nt := drawLayerGeom(rt)
		if nt {
			stats.NonTrivial(gen.JSON(c))
			if g := "layergeom"; stats.WantSample(g) && len(gen.JSON(c)) < 1500 {
				stats.Sample(g, c)
			}
		}
		stats.Try(rt, "TestPropLayerGeometry", c, func() error { return checkCase(c) })
	})
}

// drawLayerGeom draws one case of TestPropLayerGeometry and reports whether it is non-trivial.
func drawLayerGeom(rt *rapid.T) (Case, bool) {
	{
		c := Case{Kind: "layergeom"}
		c.Tile = genTile(rt)
		var ec string
		c.Extent, ec = genExtent(rt)
		c.Plural = rapid.IntRange(0, 9).Draw(rt, "plural") == 0
		lo, hi := rowRange(c.Tile, c.Extent)
		e := int64(c.Extent)
		coord := rapid.Custom(func(t *rapid.T) float64 {
			return float64(genPixCoord(t, lo, hi, c.Extent, "c"))
		})
		g := gen.Geom(gen.Opts{Coord: coord, Nil: true, NilSlices: true, Empty: true, EmptyMembers: true, Degenerate: true, MaxDepth: 2, MaxLen: 4}).Draw(rt, "g")
		c.G = gen.G{V: g}
		outside := false
		_, bits := gen.Flatten(g)
		for _, b := range bits {
			if v := math.Float64frombits(b); v < 0 || v >= float64(e) {
				outside = true
			}
		}
		stats.Class(ec)
		if restricted(c.Tile, c.Extent) > 0 {
			stats.Class(leftOutClass)
		}
		stats.Class("layer geometry kind:" + gen.KindOf(g))
		return c, c.Tile.Z >= 10 || outside || nested(g)
	}
}

func TestPropGeometry(t *testing.T) {
	stats.Assume("point functions are pure and return finite values (identity, rotations, affine maps, constants incl. the origin, axis collapse, negative zero, shift to the unit square, scaling to tiny values, the two real projections on inputs inside their range); every call is logged by a wrapper")
	stats.Check(t, 120000, 2000000, func(rt *rapid.T) {
		c, nt := drawGeometry(rt)
		if nt {
			stats.NonTrivial(gen.JSON(c))
			if g := "geometry"; stats.WantSample(g) && len(gen.JSON(c)) < 1500 {
				stats.Sample(g, c)
			}
		}
		stats.Try(rt, "TestPropGeometry", c, func() error { return checkCase(c) })
	})
}

// drawGeometry draws one case of TestPropGeometry and reports whether it is non-trivial.
func drawGeometry(rt *rapid.T) (Case, bool) {
	if rapid.IntRange(0, 399).Draw(rt, "large") == 0 {
		// rare large class: a rung of the size ladder (<= 6145) with a structured shape
		k := rapid.IntRange(0, 2).Draw(rt, "lk")
		c := Case{Kind: "large", Shape: rapid.SampledFrom(largeShapes).Draw(rt, "shape"), N: rapid.SampledFrom(ladder(6145)).Draw(rt, "n"),
			Pos: rapid.SampledFrom([]string{"first", "middle", "last"}).Draw(rt, "pos"), Tile: []T{enumTiles[4], enumTiles[8], enumTiles[0]}[k], Extent: []uint32{4096, 1000, 256}[k]}
		stats.Class("geometry:large (size ladder rung)")
		return c, true
	}
	{
		c := Case{Kind: "geometry"}
		pf := projs[rapid.IntRange(0, len(projs)-1).Draw(rt, "proj")]
		c.Proj = pf.name
		c.Typed = rapid.IntRange(0, 3).Draw(rt, "typed") == 0
		c.Method = rapid.IntRange(0, 2).Draw(rt, "method") == 0
		coord := gen.Mix(gen.SmallInt(8), gen.Half(8), rapid.Float64Range(-200, 200), rapid.Float64Range(-1e6, 1e6), gen.SmallInt(1000))
		if pf.geo {
			coord = gen.Mix(gen.SmallInt(80), gen.Half(80), rapid.Float64Range(-80, 80))
		}
		g := gen.Geom(gen.Opts{Coord: coord, Nil: true, NilSlices: true, Empty: true, EmptyMembers: true, Degenerate: true, MaxDepth: 3, MaxLen: 5, InvertedBnd: true}).Draw(rt, "g")
		c.G = gen.G{V: g}
		stats.Class("geometry kind:" + gen.KindOf(g))
		stats.Class("projection:" + pf.name)
		if c.Typed {
			stats.Class("call:typed helper")
		} else {
			stats.Class("call:project.Geometry")
		}
		if d := gen.Depth(g); d >= 2 {
			stats.Class("geometry:nested collection")
		}
		return c, nested(g)
	}
}

// ---------------------------------------------------------------- enumerations

// enumTiles: the tiles whose every pixel is enumerated.
var enumTiles = []T{
	{0, 0, 0}, {1, 0, 1}, {0, 1, 1}, {5, 3, 3}, {163, 395, 10}, {1023, 0, 10}, {0, 1023, 10},
	{8956, 12223, 15}, {1730576, 798477, 21}, {0, 0, 22}, {4194303, 4194303, 22}, {2097152, 2097151, 22},
}

// pixel rows are checked one layer call per row; the WGS84 anchor is skipped
// here (TestPropPixels has it), the statement's exact round trip is what is enumerated.
func enumExtent(t *testing.T, name string, extent uint32, tiles []T, full bool) int64 {
	var idx, size int64
	e := int64(extent)
	for _, tl := range tiles {
		lo, hi := rowRange(tl, extent)
		if r := restricted(tl, extent); full && r > 0 && shard0() {
			stats.ClassN("domain:enumerated rows above/below the world left out at zoom 0-1", r)
		}
		xlo, xhi := -e, 2*e
		if !full {
			xlo, xhi = 0, e
			if lo < 0 {
				lo = 0
			}
			if hi > e {
				hi = e
			}
		}
		w := int(xhi - xlo)
		for y := lo; y < hi; y++ {
			idx++
			size += int64(w)
			if !stats.Mine(idx) {
				continue
			}
			mp := make(orb.MultiPoint, w)
			for i := range mp {
				mp[i] = orb.Point{float64(xlo + int64(i)), float64(y)}
			}
			l := layerOf(extent, mp)
			stats.Eval(name, int64(w))
			bad := -1
			err := stats.Guard(func() error {
				l.ProjectToWGS84(tl.orb())
				l.ProjectToTile(tl.orb())
				got, ok := l.Features[0].Geometry.(orb.MultiPoint)
				if !ok || len(got) != w {
					return fmt.Errorf("row came back as %T", l.Features[0].Geometry)
				}
				for i := range got {
					if got[i][0] != float64(xlo+int64(i)) || got[i][1] != float64(y) {
						bad = i
						return fmt.Errorf("tile %+v extent %d: coordinate (%d, %d) came back as %v", tl, extent, xlo+int64(i), y, got[i])
					}
				}
				return nil
			})
			if err != nil {
				c := Case{Kind: "pixels", Tile: tl, Extent: extent}
				if bad >= 0 {
					c.Pix = [][2]int32{{int32(xlo + int64(bad)), int32(y)}}
				}
				p := stats.RecordFailure(name, c, err)
				t.Fatalf("%s: %v (replay %s)", name, err, p)
			}
			if tl.Z >= 10 || y < 0 || y >= e || full {
				stats.NonTrivialHash(stats.Hash(fmt.Sprintf("row/%d/%d/%d/%d/%d/%v", extent, tl.X, tl.Y, tl.Z, y, full)))
			}
		}
	}
	return size
}

// TestEnumPixels: every integer coordinate of whole tiles. quick: extents 256
// (power of two) and 100 (not) over [-extent, 2*extent)^2 for 12 tiles.
// thorough: additionally all 4096^2 pixels of the 12 tiles, and extents 1000,
// 3000, 4095 for 4 of them.
func TestEnumPixels(t *testing.T) {
	var size int64
	size += enumExtent(t, "TestEnumPixels", 256, enumTiles, true)
	size += enumExtent(t, "TestEnumPixels", 100, enumTiles, true)
	name := "every coordinate in [-e,2e)^2 (at zoom 0-1: rows inside the mercator square) of 12 tiles for extents 256 and 100"
	if stats.Thorough() {
		size += enumExtent(t, "TestEnumPixels", 4096, enumTiles, false)
		few := []T{enumTiles[0], enumTiles[7], enumTiles[8], enumTiles[10]}
		for _, e := range []uint32{1000, 3000, 4095} {
			size += enumExtent(t, "TestEnumPixels", e, few, false)
		}
		name += "; all 4096^2 pixels of the 12 tiles; all pixels of 4 tiles for extents 1000, 3000, 4095"
	}
	stats.Subspace(name, size, true)
}

// TestEnumKinds: one representative of every kind (and nil, and empties)
// with every point function, through project.Geometry and the typed helper.
func TestEnumKinds(t *testing.T) {
	reps := []orb.Geometry{
		nil,
		orb.Point{1, 2},
		orb.MultiPoint{{1, 2}, {3, 4}, {1, 2}},
		orb.MultiPoint{},
		orb.LineString{{1, 2}, {3, 4}, {5, -6}},
		orb.LineString(nil),
		orb.Ring{{0, 0}, {4, 0}, {4, 4}, {0, 0}},
		orb.MultiLineString{{{1, 2}, {3, 4}}, {}, {{5, 6}, {7, 8}, {9, 10}}},
		orb.Polygon{{{0, 0}, {8, 0}, {8, 8}, {0, 0}}, {{1, 1}, {2, 1}, {2, 2}, {1, 1}}},
		orb.Polygon{},
		orb.MultiPolygon{{{{0, 0}, {8, 0}, {8, 8}, {0, 0}}}, {}, {{{10, 10}, {12, 10}, {12, 12}, {10, 10}}, {{11, 11}, {11.5, 11}, {11.5, 11.5}, {11, 11}}}},
		orb.Bound{Min: orb.Point{1, 2}, Max: orb.Point{3, 5}},
		orb.Bound{Min: orb.Point{3, 5}, Max: orb.Point{1, 2}},
		orb.Collection{orb.Point{1, 2}, orb.Bound{Min: orb.Point{1, 2}, Max: orb.Point{3, 5}}, orb.LineString{{1, 2}, {3, 4}},
			orb.Collection{orb.Point{5, 6}, orb.Polygon{{{0, 0}, {8, 0}, {8, 8}, {0, 0}}}, orb.Collection{}}},
		orb.Collection{},
	}
	var idx int64
	for _, g := range reps {
		for _, pf := range projs {
			for _, typed := range []bool{false, true} {
				idx++
				if !stats.Mine(idx) {
					continue
				}
				c := Case{Kind: "geometry", G: gen.G{V: g}, Proj: pf.name, Typed: typed}
				stats.Eval("TestEnumKinds", 1)
				if nested(g) {
					stats.NonTrivial(gen.JSON(c))
				}
				stats.TryT(t, "TestEnumKinds", c, func() error { return checkCase(c) })
			}
		}
	}
	stats.Subspace("one representative of each of the nine kinds, nil and empty values x every point function x generic/typed call", idx, true)
}

// ---------------------------------------------------------------- replay

func TestReplay(t *testing.T) {
	name, raw, ok := stats.Replaying()
	if !ok {
		t.Skip("no replay file")
	}
	if name == "TestPropConcurrent" {
		var cs []Case
		if err := json.Unmarshal(raw, &cs); err != nil {
			t.Fatal(err)
		}
		for k := 0; k < 20; k++ {
			if err := stats.ParallelErr(len(cs), 100, func(i int) error { return checkCase(cs[i]) }); err != nil {
				t.Fatalf("replayed concurrent group still fails: %v", err)
			}
		}
		return
	}
	var c Case
	if err := json.Unmarshal(raw, &c); err != nil {
		t.Fatal(err)
	}
	if err := stats.Guard(func() error { return checkCase(c) }); err != nil {
		t.Fatalf("replayed case still fails: %v", err)
	}
}
