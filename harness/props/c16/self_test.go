package c16

import (
	"fmt"
	"testing"

	"github.com/paulmach/orb"
	"pgregory.net/rapid"

	"verifharness/internal/stats"
)

// TestSelfModel: the three implementations of the exact open-box segment test (int64 fractions,
// float64 filter, math/big) agree wherever more than one applies. A disagreement is a harness fault.
func TestSelfModel(t *testing.T) {
	// Case.O is +1 / -1 and is handed to smartclip as orb.Orientation(c.O); the oracle's own signed areas use
	// "positive = counter-clockwise". Pin the meaning of the library's constants.
	if orb.CCW != 1 || orb.CW != -1 {
		t.Fatalf("HARNESS: orb.CCW = %d, orb.CW = %d; the check assumes +1 / -1", orb.CCW, orb.CW)
	}
	// exhaustive: half-integer lattice segments 0..3 step 0.5 against half-integer boxes
	var vals []float64
	for v := 0.0; v <= 3; v += 0.5 {
		vals = append(vals, v)
	}
	var idx int64
	for _, x0 := range vals[1:5] {
		for _, x1 := range vals[2:6] {
			if x1 <= x0 {
				continue
			}
			b := orb.Bound{Min: orb.Point{x0, 0.5}, Max: orb.Point{x1, 2}}
			for _, ax := range vals {
				for _, ay := range vals {
					for _, bx := range vals {
						for _, by := range vals {
							idx++
							if !stats.Mine(idx) {
								continue
							}
							stats.Eval("TestSelfModel", 1)
							a, c := orb.Point{ax, ay}, orb.Point{bx, by}
							ok1, s1, e1 := openSeg(b, a, c)
							ok2, s2, e2 := openSegBig(b, a, c)
							if ok1 != ok2 || (ok1 && (s1 != s2 || e1 != e2)) {
								t.Fatalf("HARNESS: int64 model (%v,%v,%v) != big model (%v,%v,%v) for box %v segment %v-%v", ok1, s1, e1, ok2, s2, e2, b, a, c)
							}
							if ok3, s3, e3, dec := openSegFilter(b, a, c); dec && (ok3 != ok2 || (ok3 && (s3 != s2 || e3 != e2))) {
								t.Fatalf("HARNESS: float filter (%v,%v,%v) != big model (%v,%v,%v) for box %v segment %v-%v", ok3, s3, e3, ok2, s2, e2, b, a, c)
							}
						}
					}
				}
			}
		}
	}
	// sampled: float64 segments and boxes, a third of the coordinates snapped onto a box line
	g := &stream{s: stats.SeedFor("TestSelfModel")}
	for i := 0; i < stats.N(40000, 400000); i++ {
		stats.Eval("TestSelfModel", 1)
		b := orb.Bound{Min: orb.Point{g.rng("", 0, 2), g.rng("", 0, 2)}}
		b.Max = orb.Point{b.Min[0] + g.rng("", 0.1, 3), b.Min[1] + g.rng("", 0.1, 3)}
		pt := func() orb.Point {
			p := orb.Point{g.rng("", -1, 6), g.rng("", -1, 6)}
			switch g.next() % 6 {
			case 0:
				p[0] = b.Min[0]
			case 1:
				p[1] = b.Max[1]
			}
			return p
		}
		a, c := pt(), pt()
		ok3, s3, e3, dec := openSegFilter(b, a, c)
		if !dec {
			continue
		}
		ok2, s2, e2 := openSegBig(b, a, c)
		if ok3 != ok2 || (ok3 && (s3 != s2 || e3 != e2)) {
			t.Fatalf("HARNESS: float filter (%v,%v,%v) != big model (%v,%v,%v) for box %v segment %v-%v", ok3, s3, e3, ok2, s2, e2, b, a, c)
		}
	}
	stats.Subspace("self-test: half-integer segments in [0,3]^2 x 16 boxes, int64 / float-filter / big models agree", idx, true)
}

// TestSelfOracles: on closed rings in general position the ray/arc oracle used for open input agrees
// with plain even-odd membership in the ring (the ring, started at a vertex outside the box, is a path
// that keeps all its pieces).
func TestSelfOracles(t *testing.T) {
	stats.Check(t, 8000, 200000, func(rt *rapid.T) {
		c, ok := ringCase(rt, true)
		if !ok {
			return
		}
		an, err := analyse(c)
		if err != nil || an.degen || an.runs == 0 {
			return
		}
		b := an.box
		r := c.Geom.V.(orb.Ring)
		n := len(r) - 1
		start := -1
		for i := 0; i < n; i++ {
			if outsideDist(b, r[i]) > an.eps {
				start = i
				break
			}
		}
		if start < 0 {
			return
		}
		path := make([]orb.Point, 0, n+1)
		for i := 0; i <= n; i++ {
			path = append(path, r[(start+i)%n])
		}
		eps, ok := chordEndpoints(b, path)
		if !ok || !alternating(eps, 2*((b.Max[0]-b.Min[0])+(b.Max[1]-b.Min[1])), 0) {
			stats.Try(rt, "TestSelfOracles", c, func() error {
				return fmt.Errorf("HARNESS: entries/exits of a simple closed ring do not alternate: %+v", eps)
			})
			return
		}
		stats.Class("self:rings compared")
		stats.Try(rt, "TestSelfOracles", c, func() error {
			for _, q := range queryPoints(c, b) {
				if !strictlyInside(b, q) || boxBoundaryDist(b, q) <= an.dmin || pathNear(r, q, an.dmin) {
					continue
				}
				got, usable := chordMember(b, path, c.O, eps, q, an.dmin)
				if !usable {
					continue
				}
				if want := evenOdd(r, q); got != want {
					return fmt.Errorf("HARNESS: ray/arc oracle says %v, even-odd says %v at %v", got, want, q)
				}
			}
			return nil
		})
	})
}
